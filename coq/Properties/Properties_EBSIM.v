(** EBSIM - the Edgebreaker connectivity ROUND TRIP on the model (property C01): encoder (Model/EbEncoder.v, C13 corner table)
    -> decoder state machine (Model/Edgebreaker.v) -> a table isomorphic ([eb_iso]) to the encoder's, with the face bijection
    and rotation determined by processed_connectivity_corners_.  This file only restates theorems of
      Model/EbTrace.v + Proofs/EbTrace_proofs.v   the TRACE (small-step) presentation of the encoder
      Proofs/EbSimEnc_proofs.v                    encoder side: the history invariant, the stack discipline without events
      Proofs/EbSimDec_proofs.v                    decoder side: decoder step lemmas (forward form), the simulation relation
      Proofs/EbSimS_proofs.v                      decoder side: symbol S without split event
      Proofs/EbSimCompact_proofs.v                decoder side: the vertex compaction accepts and renames injectively
      Proofs/EbSimLoop_proofs.v                   decoder side: symbol loop + start faces + compaction along a script
      Proofs/EbSim_proofs.v                       composition
      Proofs/EbSimEv_proofs.v                     decoder side with topology split events
      Proofs/EbSimEvChk_proofs.v                  the script conditions as a sound decidable check
      Proofs/EbSimCount_proofs.v                  the vertex count ([verts_fit] derived).

    STATUS
      C01_ebsim_trace_refines_big_step   proved: erasing the trace of [eb_encode_tr] gives [eb_encode]
      C01_ebsim_trace_coherent           proved: configuration i holds the first i symbols and processed corners
      C01_ebsim_encoder_history          proved, ALL symbols (C, S, L, R, E), every well-formed table: what the encoder saw at
                                         each symbol (gate / right / left face visited or not, the next processed corner, for
                                         C: the tip vertex interior and fresh), in index form over its OUTPUT; no S => no event;
                                         the RUNS (one per start-face bit: a block of the history whose oldest corner is the
                                         run's first corner, E :: no-E without S; an interior start face glued to it, its
                                         vertices interior); different interior start faces share no vertex
      C01_ebsim_dec_step_E / _RL / _C    proved: decoder step lemmas, forward form (Ok of an explicit state)
      C01_ebsim_sim_step_E / _RL / _C    proved: preservation of the simulation relation [SIM] by E, R, L, C
      C01_ebsim_fan_lmc                  proved: at a C face the decoder's LeftMostCorner(Vertex(Next(active corner))) IS the corner
                                         Previous(left corner) of the encoder (walk around the interior tip vertex: all other faces
                                         around it are created and form ONE fan of the decoder's table)
      C01_ebsim_sim_final                proved: [SIM] after the last symbol (+ the decoder's fan invariant + one fan per
                                         vertex in the encoder's table) gives [eb_iso]
      C01_ebsim_trace_CERL               proved: the simulation relation [sim2] holds between EVERY configuration of the
                                         encoder's trace and the decoder state after the remaining symbols (class C/E/R/L)
      C01_ebsim_roundtrip_CERL_core      proved: class C/E/R/L, every table with C13's invariants, the state machine eb_core
      C01_ebsim_roundtrip_CERL           proved: class C/E/R/L, tables of CornerTable::Create, the whole decoder eb_decode_of,
                                         under the premises of C09_ebenc_stream_never_rejected_by_guards_partial (size bound,
                                         guard G3) and [verts_fit] (vertex count bound; counting argument not done)
      C01_ebsim_roundtrip_ERL_core / _ERL  the sub-class E/R/L (strips, fans), corollaries
      C01_ebsim_dec_start_face / C01_ebsim_sim_step_start   proved: the interior start face (forward decoder lemma, SIM preserved;
                                         the two LeftMostCorner lookups via the fan walk [fan_lmc_t]); the classes allow any
                                         number of components, boundary and interior start configurations
      C01_ebsim_trace_steps              proved: the small-step facts between consecutive configurations of the trace (what each
                                         symbol does to the corner stack, incl. the pops of already visited entries)
      C01_ebsim_dec_step_S / C01_ebsim_sim_step_S / C01_ebsim_S_separation
                                         proved: symbol S without split event: forward decoder lemma (the SwingLeft relabelling loop
                                         neither rejects nor leaves the arrays, n is relabelled to p), SIM preserved (vertex clause
                                         under relabelling), and p <> n from what the encoder saw at the tip vertex ([Sbreak])
      C01_ebsim_vcit_no_reject / C01_ebsim_compaction
                                         proved: the decoder's vertex compaction (remove_invalid_vertices = true) on a table in
                                         which SwingLeft keeps the vertex: every VertexCornersIterator walk passes its vertex
                                         checks, the compaction ACCEPTS, keeps Opposite, and renames the vertices INJECTIVELY on
                                         the created corners ([eb_iso] is up to a vertex bijection, so it is preserved)
      C01_ebsim_dec_roundtrip_script     proved: the decoder on a script (corners Q, symbols Y with the facts [script_at] /
                                         [start_ok]) with C, S (no split event), L, R, E, any number of runs and interior start
                                         faces, EVERY remove_invalid_vertices: accepts with a table isomorphic to the encoder's
      C01_ebsim_roundtrip_no_event_partial   proved for EVERY remove_invalid_vertices (compaction included), ONE run,
                                         S symbols without split events, UNDER THE PREMISE [ndp] (the stack discipline of the
                                         encoder's trace has no pop of an already visited entry; decidable [ndp_b], it holds on
                                         the grid discs of the Examples; every encoding with a split event violates it)
      C01_ebsim_trace_one_run / C01_ebsim_no_dead_pop
                                         proved: with ONE start-face bit the trace is one run (every step a link, E / S find a
                                         non-empty stack, first stack = [start corner], at the end everything left is popped);
                                         [ndp] holds iff-style by COUNTING the output symbols: #E = #S + 1 (the slack
                                         1 + #S - #E - |stack| never decreases, starts at 0 and must end at 0)
      C01_ebsim_roundtrip_no_event / C01_ebsim_roundtrip_no_event_ct
                                         proved, NO premise on the trace: the round trip on the decidable OUTPUT class
                                         [class_noev]: symbols C S L R E, no split event, one run, #E = #S + 1; every
                                         remove_invalid_vertices; against eb_core for every well-formed table, against
                                         [eb_decode_of] for CornerTable::Create tables (premises as for _CERL)
      C01_ebsim_no_event_count / C01_ebsim_class_no_event
                                         proved (encoder invariant [KI] / [KO] of EbSimEnc_proofs along inner / outer /
                                         from_corner / ec_corner): while no split event is recorded no corner-stack entry below
                                         the top dies (such an entry is the left corner pushed by an S, its S face carries a
                                         face_to_split_symbol_map_ entry; the strip that reaches its face from elsewhere sees
                                         the S face as a visited right / left neighbour and records an event) and
                                         |stack| = 1 + #S - #E; so one start-face bit + no event => #E = #S + 1, and
                                         [class_noev1] (without the count) implies [class_noev] on the encoder's outputs
      C01_ebsim_roundtrip_no_event_1 / C01_ebsim_roundtrip_no_event_1_ct
                                         proved: THE ROUND TRIP ON THE CLASS "symbols C S L R E, no split event, one run"
                                         ([class_noev1]: decidable on the output), every remove_invalid_vertices
      C01_ebsim_trace_no_event_1         proved: the simulation ALONG THE TRACE for that class ([sim3]): at every configuration
                                         the decoder (run on the last k symbols) is in SIM with it, and the STACKS correspond:
                                         decoder stack = tip corners of the faces [tops Y k] = face of the current corner
                                         followed by the faces of the encoder's stack entries below its top
      C01_ebsim_trace_runs / C01_ebsim_runs_balanced / C01_ebsim_no_dead_pop_runs
                                         proved, SEVERAL runs: the trace of any encoding is a sequence of at most |bits| runs
                                         ([madj]: links inside a run, everything popped + a one-entry stack between two runs);
                                         without split event every run's block of symbols is BALANCED ([RUNS2] / [BALC]: the
                                         count 1 + #S - #E is >= 1 before every symbol of the run and 0 at its end) and
                                         ideal (all symbols) = 1 - |bits|; by the potential ideal - |stack| + (#runs - 1)
                                         no entry is ever popped dead ([ndpm])
      C01_ebsim_roundtrip_no_event_all / _ct / C01_ebsim_trace_no_event
                                         proved: THE ROUND TRIP ON THE CLASS  o_events o = []  (nothing else: symbols C S L R E,
                                         ANY number of start faces / components / runs, every remove_invalid_vertices), and the
                                         simulation along the trace for it ([sim4]: the decoder's stack = current face, the
                                         encoder's entries below its top, one entry per later run)
      C01_ebsim_verts_fit_no_event / C01_ebsim_roundtrip_no_event_all_ct2
                                         proved: [verts_fit] is a CONSEQUENCE for CornerTable::Create tables without split event
                                         (before the compaction the decoder has created cntv vertices: the non-isolated ones are
                                         pairwise different vertices of non-degenerated faces by [eb_iso], at most
                                         |vertex_corners_| - num_isolated_vertices_; the isolated ones are on the invalid list,
                                         one per S), so the `_ct` round trip needs only the two premises of
                                         C09_ebenc_stream_never_rejected_by_guards_partial (size bound; guard G3).  G3 is NOT a
                                         consequence of C13's invariants (many faces over three vertices violate it, and
                                         DecodeConnectivity then rejects the encoder's own stream)
      SPLIT EVENTS, the DECODER HALF (Proofs/EbSimEv_proofs.v):
      C01_ebsim_split_loop / C01_ebsim_dec_step_S_split / C01_ebsim_sim_step_S_split / C01_ebsim_S_separation_split
                                         proved: the IsTopologySplit loop after an E / L / R registers exactly the events whose
                                         source is that symbol (topology_split_active_corners[dp] = Next / Previous of the new
                                         tip corner); symbol S whose split corner was registered: forward decoder lemma
                                         (the left edge is glued to the registered corner, ONE stack entry is popped), SIM
                                         preserved with the left edge glued to ANY corner (ja, ra) of an earlier face, p <> n
      C01_ebsim_dec_roundtrip_script_events
                                         proved: the decoder on ANY script with events ([script_atE] per symbol: the clauses of
                                         [script_at] + for an S either `no event, the entry below the top is the left corner`
                                         or `the unique registered event (j, edge): Opposite(left edge) = corner (j, 1 or 2)`,
                                         events only at E / L / R, ids < 2^31; [start_ok_g] on the stack [topsE]) accepts,
                                         every remove_invalid_vertices, and rebuilds the table described by the script
      C01_ebsim_roundtrip_events_checked proved: the script conditions are a DECIDABLE check [class_script] of an output against
                                         its table (sound), and for every well-formed table whose encoding passes the check the
                                         round trip holds - WITH split events.  The torus and the discs with holes of the
                                         Examples pass the check (so does every no-event Example).
      C01_ebsim_small_step / C01_ebsim_events_characterized   (ENCODER side with events, ONE run; Proofs/EbTraceStep_proofs.v,
                                         EbTraceInv_proofs.v, EbSimEvEnc_proofs.v)
                                         proved: the FULL small-step relation between consecutive configurations of a run
                                         ([SSTEP]: what one loop iteration does to visited_faces_, the symbols, the stack, the
                                         recorded events, face_to_split_symbol_map_; which entries are popped between strips),
                                         the run invariants along the trace (J1 .. J5), and from them the recorded events
                                         EXACTLY: (src, spl, edge) is in o_events iff src is an E / L / R symbol, spl < src an
                                         S symbol, and the right (edge 1) / left (edge 0) neighbour corner of src's corner lies
                                         in the face of spl's corner
      C01_ebsim_event_iff_dead / C01_ebsim_stack_with_events   (ONE run)
                                         proved: a split event is recorded for the S symbol sg  <=>  the left corner pushed at sg
                                         is NOT one of the processing corners (its face is entered from elsewhere, the entry is
                                         popped dead); and the STACK CORRESPONDENCE with events along the trace: the faces of
                                         the decoder's stack [topsE] = the current face followed by the encoder's entries below
                                         its top that ARE processing corners (the dead entries are the ones the decoder pops at
                                         the S with a registered split corner)
      C01_ebsim_roundtrip_events_1 / C01_ebsim_roundtrip_events_1_ct
                                         proved: THE ROUND TRIP WITH SPLIT EVENTS ON THE CLASS "one start-face bit"
                                         (length (o_bits o) = 1: ONE component; any symbols, ANY split events - handles, holes),
                                         every remove_invalid_vertices: every encoding of the class satisfies the script
                                         conditions of C01_ebsim_dec_roundtrip_script_events.  The tori, the discs with holes and
                                         the torus with a hole of the Examples are in this class.  `_ct`: against eb_decode_of
                                         for CornerTable::Create tables, premises ONLY the size bound and guard G3 (those of
                                         C09_ebenc_stream_never_rejected_by_guards_partial)
      C01_ebsim_trace_events_1           proved: the simulation ALONG THE TRACE with events ([simE]): at configuration i the
                                         decoder run on the last k = ns - i symbols (with the whole event list) is in SIM, its
                                         stack = tip corners of [topsE k] = current face + the encoder's alive entries, its pending
                                         events = those of older symbols [REM k], its registered split corners [SPL k]
      C01_ebsim_verts_fit_script / C01_ebsim_verts_fit_events_1 / C01_ebsim_events_count_1
                                         proved: the numeric decoder guards are consequences also WITH events: cntv <= vertices +
                                         splits for every encoding satisfying the script conditions (an S with a registered split
                                         corner also invalidates one decoder vertex; same counting as without events), hence for
                                         the class "one start-face bit" and for the checked class of any number of runs
                                         (C01_ebsim_roundtrip_events_checked_ct2); and |events| <= #symbols in the one-bit class (no event is recorded
                                         twice, J6; every S symbol has at most ONE event: both would be glued to its left edge)
      C01_ebsim_small_step_runs / C01_ebsim_events_characterized_all / C01_ebsim_events_nodup_all   (ANY number of runs;
                                         Proofs/EbTraceStepM_proofs.v, EbTraceInvM_proofs.v, EbSimEvEncM_proofs.v)
                                         proved: between two consecutive configurations of the trace of ANY encoding - also from
                                         the last one of a call of EncodeConnectivityFromCorner to the first of the next - the
                                         older one does its [SPEC] step and the newer state agrees with the result on symbols,
                                         processed corners, events, face_to_split_symbol_map_, last id ([WSTEP] / [REL];
                                         visited_faces_ only grows); the invariants J1, J3, J5, J6 hold along the WHOLE trace, so
                                         the recorded events of EVERY encoding are characterized exactly as in
                                         C01_ebsim_events_characterized (in particular CheckAndStoreTopologySplitEvent never
                                         pairs faces of different runs wrongly: the characterization is global) and no event is
                                         recorded twice
      C01_ebsim_small_step_runs_full / C01_ebsim_stack_with_events_runs / C01_ebsim_script_all / C01_ebsim_events_count
                                         proved, ANY number of runs and ANY events: the full small step across runs ([MSTEP]:
                                         [SSTEP] inside a run, [RSTEP] at a run boundary - the older configuration emits E,
                                         every entry left on the stack is dead, the new stack is one entry), the stack invariants
                                         along the whole trace (EbTraceInvM_proofs Section InvS: [J4M] - an entry below the top
                                         was pushed by an S of the CURRENT run -, [vf_NB], [dead_not_aliveM]), the stack
                                         correspondence (decoder [topsE] = current face, the encoder's alive entries, one entry
                                         per later run), event <=> dead left corner, and from them the per-symbol script
                                         conditions [script_atE] for EVERY symbol of EVERY encoding; |events| <= #symbols
      C01_ebsim_roundtrip_events_start_partial / C01_ebsim_roundtrip_events_start_ct_partial
                                         proved: THE GENERAL ROUND TRIP (any start faces / components, any split events, every
                                         remove_invalid_vertices; eb_core for tables with C13's invariants, eb_decode_of for
                                         CornerTable::Create tables under size bound + G3) UNDER ONE PREMISE: [start_ok_g] - the
                                         start-face phase: the decoder's final stack has one entry per start-face bit, and for an
                                         interior bit the entry's face is glued to the recorded start face.  (The premise is
                                         discharged by C01_ebsim_start_ok; these two statements are kept as the intermediate step.)
      C01_ebsim_trace_ledger / C01_ebsim_start_ok   (Proofs/EbTraceLedger_proofs.v, EbSimEvEncM_proofs.v)
                                         proved: the LEDGER of the runs, by a joint induction over the fold of EncodeConnectivity
                                         (the trace fold together with EbEncoder_proofs.ECinv of the erased state at every
                                         prefix): every start-face bit belongs to a call of EncodeConnectivityFromCorner that
                                         EMITS a symbol (its start face is not visited: CLOSED + the fan lemma), the ledger
                                         records the position and the corner of the call's first configuration and, for an
                                         interior bit, Opposite(init corner) = that corner; the step INTO a ledger position is a
                                         run boundary, every other step is inside a run.  With the positions the stack
                                         correspondence names the entries of the later runs ([TS2], [tops_starts]: the decoder's
                                         final stack = the start corners of the runs in encoding order), and with [IFc'] from
                                         C01_ebsim_encoder_history the start-face phase [start_ok_g] holds for EVERY encoding
      C01_ebsim_roundtrip / C01_ebsim_roundtrip_ct
                                         PROVED - THE GENERAL THEOREM: for every table with C13's invariants and every successful
                                         EncodeConnectivity (any symbols, any split events, any number of start faces /
                                         components, boundary and interior starts) the decoder state machine eb_core accepts, for
                                         both values of remove_invalid_vertices, and rebuilds a table isomorphic ([eb_iso]) to
                                         the encoder's non-degenerate faces; premises of the eb_core form: the symbol count is
                                         < 2^31 (the range in which the model of the split ids is faithful) and the vertex bound
                                         maxv >= cntv (the decoder's own guard).  `_ct`: against eb_decode_of (header guards +
                                         state machine + compaction) for the tables of CornerTable::Create, under the size bound
                                         and guard G3 ONLY (the premises of C09_ebenc_stream_never_rejected_by_guards_partial;
                                         G3 is not a consequence of C13's invariants).
      C01_ebsim_trace                    proved: the simulation ALONG THE TRACE for every encoding ([simM]): at configuration i the
                                         decoder run on the last k = ns - i symbols is in SIM, its stack = tip corners of
                                         [topsE k] = current face + the encoder's alive entries + one entry per later run, pending
                                         events [REM k], registered split corners [SPL k]
    Nothing of the round trip on the MODEL is left open.  (The correspondence of the model with the C++ functions is the
    matter of the differential harnesses h_c01 / h_c09, not of this file.) *)
From Coq Require Import ZArith List Bool.
From Draco Require Import Model.CornerTable Model.EbEncoder Model.EbTrace Proofs.CornerTable_proofs Proofs.EbEncoder_proofs.
From Draco Require Import Proofs.EbTrace_proofs Proofs.EbSimEnc_proofs Proofs.EbSimDec_proofs Proofs.EbSimS_proofs Proofs.EbSimLoop_proofs Proofs.EbSim_proofs.
From Draco Require Import Proofs.EbSimEv_proofs Proofs.EbSimEvChk_proofs Proofs.EbSimCount_proofs.
From Draco Require Import Proofs.EbTraceStep_proofs Proofs.EbTraceInv_proofs Proofs.EbSimEvEnc_proofs.
From Draco Require Import Proofs.EbTraceStepM_proofs Proofs.EbTraceInvM_proofs Proofs.EbTraceLedger_proofs Proofs.EbSimEvEncM_proofs.
From Draco Require Import Model.RansSymbol Model.EbTraversal Proofs.EbTraversal_proofs Proofs.EbStream_proofs.
From Draco Require Model.Edgebreaker Proofs.Edgebreaker_proofs Proofs.Edgebreaker_fan_proofs Proofs.Edgebreaker_compact_proofs
  Proofs.EbSimCompact_proofs.
Import ListNotations.

(** ** (1) the trace presentation *)
Theorem C01_ebsim_trace_refines_big_step : forall c2v opp nv niso ndeg,
  emap fst (eb_encode_tr c2v opp nv niso ndeg) = eb_encode c2v opp nv niso ndeg.
Proof. exact trace_refines_big_step. Qed.
Print Assumptions C01_ebsim_trace_refines_big_step.

Theorem C01_ebsim_trace_coherent : forall c2v opp nv niso ndeg o tr, eb_encode_tr c2v opp nv niso ndeg = EOk (o, tr) ->
  let ns := length (o_syms o) in
  length tr = ns /\
  forall i cf, nth_error tr i = Some cf ->
    syms (cf_st cf) = rev (firstn i (o_syms o)) /\
    cf_corner cf :: pcc (cf_st cf) = skipn (ns - 1 - i) (firstn ns (o_pcc o)).
Proof. exact trace_coherent. Qed.
Print Assumptions C01_ebsim_trace_coherent.

(** ** (2) encoder side: the history facts, in index form over the output (all symbols) *)
Theorem C01_ebsim_encoder_history : forall c2v opp nf nv niso ndeg o,
  length c2v = 3 * nf -> opp_ok c2v opp -> (forall c, c < 3 * nf -> vtx c2v c < nv) -> one_fan c2v opp ->
  eb_encode c2v opp nv niso ndeg = EOk o ->
  let Q := o_pcc o in let Y := rev (o_syms o) in
  length Y + count_occ bool_dec (o_bits o) true = length Q /\
  NoDup (faces Q) /\
  (forall k y, nth_error Y k = Some y -> efact c2v opp nf Q k (nth k Q 0) y) /\
  (~ In 1%Z Y -> o_events o = []) /\
  RUNS opp (IFc' c2v opp nf) (rev (o_bits o)) (rev (skipn (length Y) Q)) (firstn (length Y) Q) Y /\
  (forall m1 m2, m1 < m2 -> length Y + m2 < length Q -> forall x1 x2, x1 < 3 * nf -> x2 < 3 * nf ->
     x1 / 3 = nth (length Y + m1) Q 0 / 3 -> x2 / 3 = nth (length Y + m2) Q 0 / 3 -> vtx c2v x1 <> vtx c2v x2).
Proof. exact encode_facts_wf. Qed.
Print Assumptions C01_ebsim_encoder_history.

(** ** (3) decoder step lemmas, forward form *)
Local Open Scope Z_scope.
Theorem C01_ebsim_dec_step_E : forall NC maxv s f, Edgebreaker_proofs.W NC maxv f s -> 3 * f + 3 <= NC ->
  Edgebreaker.nv s + 3 <= maxv ->
  exists s', Edgebreaker.step_E NC maxv s f = Edgebreaker.Ok s' /\
    Edgebreaker.copp s' = Edgebreaker.copp s /\
    Edgebreaker.c2v s' = Edgebreaker.upd (Edgebreaker.upd (Edgebreaker.upd (Edgebreaker.c2v s) (3 * f) (Edgebreaker.nv s))
                           (3 * f + 1) (Edgebreaker.nv s + 1)) (3 * f + 2) (Edgebreaker.nv s + 2) /\
    Edgebreaker.nv s' = Edgebreaker.nv s + 3 /\ Edgebreaker.stack s' = 3 * f :: Edgebreaker.stack s /\
    Edgebreaker.events s' = Edgebreaker.events s /\ Edgebreaker.splits s' = Edgebreaker.splits s /\
    Edgebreaker.invalid s' = Edgebreaker.invalid s /\ Edgebreaker.nfaces s' = Edgebreaker.nfaces s /\
    Edgebreaker.inits s' = Edgebreaker.inits s /\ Edgebreaker.hole s' = Edgebreaker.hole s.
Proof. exact dec_step_E. Qed.
Print Assumptions C01_ebsim_dec_step_E.

Theorem C01_ebsim_dec_step_RL : forall NC maxv (is_r : bool) s f a rest, Edgebreaker_proofs.W NC maxv f s -> 3 * f + 3 <= NC ->
  Edgebreaker.nv s + 1 <= maxv -> Edgebreaker.stack s = a :: rest -> Edgebreaker.copp s a = -1 ->
  let oc := if is_r then 3 * f + 2 else 3 * f + 1 in
  let cl := if is_r then 3 * f + 1 else 3 * f in
  let cr := if is_r then 3 * f else 3 * f + 2 in
  exists s', Edgebreaker.step_RL NC maxv is_r s f = Edgebreaker.Ok s' /\
    Edgebreaker.copp s' = Edgebreaker.upd (Edgebreaker.upd (Edgebreaker.copp s) oc a) a oc /\
    Edgebreaker.c2v s' = Edgebreaker.upd (Edgebreaker.upd (Edgebreaker.upd (Edgebreaker.c2v s) oc (Edgebreaker.nv s))
                           cr (Edgebreaker.c2v s (Edgebreaker.prev_c a))) cl (Edgebreaker.c2v s (Edgebreaker.next_c a)) /\
    Edgebreaker.nv s' = Edgebreaker.nv s + 1 /\ Edgebreaker.stack s' = 3 * f :: rest /\
    Edgebreaker.events s' = Edgebreaker.events s /\ Edgebreaker.splits s' = Edgebreaker.splits s /\
    Edgebreaker.invalid s' = Edgebreaker.invalid s /\ Edgebreaker.nfaces s' = Edgebreaker.nfaces s /\
    Edgebreaker.inits s' = Edgebreaker.inits s /\ Edgebreaker.hole s' = Edgebreaker.hole s.
Proof. exact dec_step_RL. Qed.
Print Assumptions C01_ebsim_dec_step_RL.

Theorem C01_ebsim_dec_step_C : forall NC maxv s f a rest, Edgebreaker_proofs.W NC maxv f s -> 3 * f + 3 <= NC -> Edgebreaker.stack s = a :: rest ->
  let x := Edgebreaker.c2v s (Edgebreaker.next_c a) in let l := Edgebreaker.vc s x in let b := Edgebreaker.next_c l in
  0 <= l < 3 * f -> a <> b -> Edgebreaker.copp s a = -1 -> Edgebreaker.copp s b = -1 ->
  x <> Edgebreaker.c2v s (Edgebreaker.prev_c a) -> x <> Edgebreaker.c2v s (Edgebreaker.next_c b) ->
  exists s', Edgebreaker.step_C NC maxv s f = Edgebreaker.Ok s' /\
    Edgebreaker.copp s' = Edgebreaker.upd (Edgebreaker.upd (Edgebreaker.upd (Edgebreaker.upd (Edgebreaker.copp s) a (3 * f + 1)) (3 * f + 1) a) b (3 * f + 2)) (3 * f + 2) b /\
    Edgebreaker.c2v s' = Edgebreaker.upd (Edgebreaker.upd (Edgebreaker.upd (Edgebreaker.c2v s) (3 * f) x) (3 * f + 1) (Edgebreaker.c2v s (Edgebreaker.next_c b)))
                           (3 * f + 2) (Edgebreaker.c2v s (Edgebreaker.prev_c a)) /\
    Edgebreaker.nv s' = Edgebreaker.nv s /\ Edgebreaker.stack s' = 3 * f :: rest /\
    Edgebreaker.events s' = Edgebreaker.events s /\ Edgebreaker.splits s' = Edgebreaker.splits s /\
    Edgebreaker.invalid s' = Edgebreaker.invalid s /\ Edgebreaker.nfaces s' = Edgebreaker.nfaces s /\
    Edgebreaker.inits s' = Edgebreaker.inits s.
Proof. exact dec_step_C. Qed.
Print Assumptions C01_ebsim_dec_step_C.

(** ** (4) preservation of the simulation relation *)
Theorem C01_ebsim_sim_step_E : forall c2v opp nf, length c2v = (3 * nf)%nat -> opp_ok c2v opp -> forall Q,
  (forall j, (j < length Q)%nat -> (nth j Q 0%nat < 3 * nf)%nat /\ is_degenerated c2v (nth j Q 0%nat / 3) = false) ->
  NoDup (map (fun c => (c / 3)%nat) Q) -> forall NC maxv k d d',
  (k < length Q)%nat -> SIM c2v opp Q k d -> Edgebreaker_proofs.W NC maxv (Z.of_nat k) d ->
  Edgebreaker.copp d' = Edgebreaker.copp d ->
  Edgebreaker.c2v d' = Edgebreaker.upd (Edgebreaker.upd (Edgebreaker.upd (Edgebreaker.c2v d) (3 * Z.of_nat k) (Edgebreaker.nv d))
       (3 * Z.of_nat k + 1) (Edgebreaker.nv d + 1)) (3 * Z.of_nat k + 2) (Edgebreaker.nv d + 2) ->
  Edgebreaker.nfaces d' = Z.of_nat (S k) ->
  (forall r, (r < 3)%nat -> ncr opp Q k (eco Q k r)) ->
  SIM c2v opp Q (S k) d'.
Proof. exact SIM_E. Qed.
Print Assumptions C01_ebsim_sim_step_E.

Theorem C01_ebsim_sim_step_RL : forall c2v opp nf, length c2v = (3 * nf)%nat -> opp_ok c2v opp -> forall Q,
  (forall j, (j < length Q)%nat -> (nth j Q 0%nat < 3 * nf)%nat /\ is_degenerated c2v (nth j Q 0%nat / 3) = false) ->
  NoDup (map (fun c => (c / 3)%nat) Q) -> forall NC maxv k d d' ro,
  (k < length Q)%nat -> (1 <= k)%nat -> (ro = 1 \/ ro = 2)%nat -> SIM c2v opp Q k d -> Edgebreaker_proofs.W NC maxv (Z.of_nat k) d ->
  Edgebreaker.copp d (dco (k - 1) 0) = -1 ->
  Edgebreaker.copp d' = Edgebreaker.upd (Edgebreaker.upd (Edgebreaker.copp d) (dco k ro) (dco (k - 1) 0)) (dco (k - 1) 0) (dco k ro) ->
  Edgebreaker.c2v d' = Edgebreaker.upd (Edgebreaker.upd (Edgebreaker.upd (Edgebreaker.c2v d) (dco k ro) (Edgebreaker.nv d))
       (dco k ((ro + 1) mod 3)) (Edgebreaker.c2v d (Edgebreaker.prev_c (dco (k - 1) 0))))
       (dco k ((ro + 2) mod 3)) (Edgebreaker.c2v d (Edgebreaker.next_c (dco (k - 1) 0))) ->
  Edgebreaker.nfaces d' = Z.of_nat (S k) ->
  opp_at opp (eco Q k ro) = Some (eco Q (k - 1) 0) ->
  ncr opp Q k (eco Q k ((ro + 1) mod 3)) -> ncr opp Q k (eco Q k ((ro + 2) mod 3)) ->
  SIM c2v opp Q (S k) d'.
Proof. exact SIM_RL. Qed.
Print Assumptions C01_ebsim_sim_step_RL.

Theorem C01_ebsim_fan_lmc : forall c2v opp nf, length c2v = (3 * nf)%nat -> opp_ok c2v opp -> forall Q,
  (forall j, (j < length Q)%nat -> (nth j Q 0%nat < 3 * nf)%nat /\ is_degenerated c2v (nth j Q 0%nat / 3) = false) ->
  NoDup (map (fun c => (c / 3)%nat) Q) -> forall NC maxv k d,
  (1 <= k)%nat -> (k < length Q)%nat -> SIM c2v opp Q k d -> Edgebreaker_proofs.W NC maxv (Z.of_nat k) d ->
  Edgebreaker_fan_proofs.FI (Z.of_nat k) d ->
  opp_at opp (eco Q k 1) = Some (eco Q (k - 1) 0) -> Cint c2v opp nf Q k ->
  exists jb rb, (jb < k)%nat /\ (rb < 3)%nat /\ opp_at opp (eco Q k 2) = Some (eco Q jb ((rb + 1) mod 3)) /\
                Edgebreaker.vc d (Edgebreaker.c2v d (dco (k - 1) 1)) = dco jb rb.
Proof. exact fan_lmc. Qed.
Print Assumptions C01_ebsim_fan_lmc.

Theorem C01_ebsim_sim_step_C : forall c2v opp nf, length c2v = (3 * nf)%nat -> opp_ok c2v opp -> forall Q,
  (forall j, (j < length Q)%nat -> (nth j Q 0%nat < 3 * nf)%nat /\ is_degenerated c2v (nth j Q 0%nat / 3) = false) ->
  NoDup (map (fun c => (c / 3)%nat) Q) -> forall NC maxv k d d' jb rb,
  (k < length Q)%nat -> (1 <= k)%nat -> (jb < k)%nat -> (rb < 3)%nat -> SIM c2v opp Q k d -> Edgebreaker_proofs.W NC maxv (Z.of_nat k) d ->
  let a := dco (k - 1) 0 in let b := dco jb ((rb + 1) mod 3) in
  Edgebreaker.copp d' = Edgebreaker.upd (Edgebreaker.upd (Edgebreaker.upd (Edgebreaker.upd (Edgebreaker.copp d) a (dco k 1)) (dco k 1) a) b (dco k 2)) (dco k 2) b ->
  Edgebreaker.c2v d' = Edgebreaker.upd (Edgebreaker.upd (Edgebreaker.upd (Edgebreaker.c2v d) (dco k 0) (Edgebreaker.c2v d (Edgebreaker.next_c a)))
       (dco k 1) (Edgebreaker.c2v d (Edgebreaker.next_c b))) (dco k 2) (Edgebreaker.c2v d (Edgebreaker.prev_c a)) ->
  Edgebreaker.nfaces d' = Z.of_nat (S k) ->
  opp_at opp (eco Q k 1) = Some (eco Q (k - 1) 0) -> opp_at opp (eco Q k 2) = Some (eco Q jb ((rb + 1) mod 3)) ->
  ncr opp Q k (eco Q k 0) ->
  SIM c2v opp Q (S k) d'.
Proof. exact SIM_C. Qed.
Print Assumptions C01_ebsim_sim_step_C.
Local Close Scope Z_scope.

Theorem C01_ebsim_sim_final : forall c2v opp nf, length c2v = 3 * nf -> opp_ok c2v opp -> forall Q,
  (forall j, j < length Q -> nth j Q 0 < 3 * nf /\ is_degenerated c2v (nth j Q 0 / 3) = false) ->
  NoDup (map (fun c => c / 3) Q) ->
  (forall f, f < nf -> is_degenerated c2v f = false -> In f (map (fun c => c / 3) Q)) -> one_fan c2v opp ->
  forall d, SIM c2v opp Q (length Q) d -> Edgebreaker_fan_proofs.FI (Z.of_nat (length Q)) d ->
  eb_iso c2v opp Q (Edgebreaker.c2v d) (Edgebreaker.copp d).
Proof. exact sim_iso. Qed.
Print Assumptions C01_ebsim_sim_final.

Local Open Scope Z_scope.
Theorem C01_ebsim_dec_start_face : forall NC maxv nfz s a, Edgebreaker_proofs.W NC maxv (Edgebreaker.nfaces s) s -> NC = 3 * nfz ->
  Edgebreaker.nfaces s < nfz -> 0 <= a < 3 * Edgebreaker.nfaces s ->
  let f := Edgebreaker.nfaces s in
  let vn := Edgebreaker.c2v s (Edgebreaker.next_c a) in let ln := Edgebreaker.vc s vn in let b := Edgebreaker.next_c ln in
  let vx := Edgebreaker.c2v s (Edgebreaker.next_c b) in let lx := Edgebreaker.vc s vx in let c := Edgebreaker.next_c lx in
  0 <= ln < 3 * f -> 0 <= lx < 3 * f -> a <> b -> a <> c -> b <> c ->
  Edgebreaker.copp s a = -1 -> Edgebreaker.copp s b = -1 -> Edgebreaker.copp s c = -1 ->
  Edgebreaker.c2v s (Edgebreaker.prev_c a) = Edgebreaker.c2v s (Edgebreaker.next_c c) ->
  exists s', Edgebreaker.start_face NC maxv nfz s a = Edgebreaker.Ok s' /\
    Edgebreaker.copp s' = Edgebreaker.upd (Edgebreaker.upd (Edgebreaker.upd (Edgebreaker.upd (Edgebreaker.upd (Edgebreaker.upd (Edgebreaker.copp s)
        (3 * f) a) a (3 * f)) (3 * f + 1) b) b (3 * f + 1)) (3 * f + 2) c) c (3 * f + 2) /\
    Edgebreaker.c2v s' = Edgebreaker.upd (Edgebreaker.upd (Edgebreaker.upd (Edgebreaker.c2v s) (3 * f) vx) (3 * f + 1)
        (Edgebreaker.c2v s (Edgebreaker.next_c c))) (3 * f + 2) vn /\
    Edgebreaker.nv s' = Edgebreaker.nv s /\ Edgebreaker.stack s' = Edgebreaker.stack s /\ Edgebreaker.vc s' = Edgebreaker.vc s /\
    Edgebreaker.events s' = Edgebreaker.events s /\ Edgebreaker.splits s' = Edgebreaker.splits s /\
    Edgebreaker.invalid s' = Edgebreaker.invalid s /\ Edgebreaker.nfaces s' = f + 1.
Proof. exact dec_start_face. Qed.
Print Assumptions C01_ebsim_dec_start_face.

Theorem C01_ebsim_sim_step_start : forall c2v opp nf, length c2v = (3 * nf)%nat -> opp_ok c2v opp -> forall Q,
  (forall j, (j < length Q)%nat -> (nth j Q 0%nat < 3 * nf)%nat /\ is_degenerated c2v (nth j Q 0%nat / 3) = false) ->
  NoDup (map (fun c => (c / 3)%nat) Q) -> forall NC maxv k d d' ja jb rb jc rc,
  (k < length Q)%nat -> (ja < k)%nat -> (jb < k)%nat -> (rb < 3)%nat -> (jc < k)%nat -> (rc < 3)%nat ->
  SIM c2v opp Q k d -> Edgebreaker_proofs.W NC maxv (Z.of_nat k) d ->
  let a := dco ja 0 in let b := dco jb rb in let c := dco jc rc in
  Edgebreaker.copp d' = Edgebreaker.upd (Edgebreaker.upd (Edgebreaker.upd (Edgebreaker.upd (Edgebreaker.upd (Edgebreaker.upd (Edgebreaker.copp d)
      (dco k 0) a) a (dco k 0)) (dco k 1) b) b (dco k 1)) (dco k 2) c) c (dco k 2) ->
  Edgebreaker.c2v d' = Edgebreaker.upd (Edgebreaker.upd (Edgebreaker.upd (Edgebreaker.c2v d) (dco k 0) (Edgebreaker.c2v d (Edgebreaker.next_c b)))
      (dco k 1) (Edgebreaker.c2v d (Edgebreaker.next_c c))) (dco k 2) (Edgebreaker.c2v d (Edgebreaker.next_c a)) ->
  Edgebreaker.nfaces d' = Z.of_nat (S k) ->
  opp_at opp (eco Q k 0) = Some (eco Q ja 0) -> opp_at opp (eco Q k 1) = Some (eco Q jb rb) -> opp_at opp (eco Q k 2) = Some (eco Q jc rc) ->
  SIM c2v opp Q (S k) d'.
Proof. exact SIM_start. Qed.
Print Assumptions C01_ebsim_sim_step_start.
Local Close Scope Z_scope.

(** ** (5) the simulation along the trace, and the round trip for the class E / R / L *)
Theorem C01_ebsim_trace_CERL : forall c2v opp nf nv niso ndeg o tr rm maxv,
  length c2v = 3 * nf -> opp_ok c2v opp -> (forall c, c < 3 * nf -> vtx c2v c < nv) -> one_fan c2v opp ->
  eb_encode_tr c2v opp nv niso ndeg = EOk (o, tr) -> class_CERL o = true -> (cntv (rev (o_syms o)) <= maxv)%Z ->
  let ns := length (o_syms o) in
  let NC := (3 * Z.of_nat (length (o_pcc o)))%Z in
  length tr = ns /\
  forall i cf, nth_error tr i = Some cf ->
    length (syms (cf_st cf)) = i /\
    exists d, Edgebreaker.sym_loop NC maxv rm (Z.of_nat ns) (firstn (ns - i) (rev (o_syms o))) 0 (Edgebreaker.init_st []) = Edgebreaker.Ok d /\
              sim2 c2v opp (o_pcc o) (rev (o_syms o)) ns NC maxv cf d.
Proof. exact ebsim_trace_CERL. Qed.
Print Assumptions C01_ebsim_trace_CERL.

Theorem C01_ebsim_roundtrip_CERL_core : forall c2v opp nf nv niso ndeg o rm maxv,
  length c2v = 3 * nf -> opp_ok c2v opp -> (forall c, c < 3 * nf -> vtx c2v c < nv) -> one_fan c2v opp ->
  eb_encode c2v opp nv niso ndeg = EOk o -> class_CERL o = true -> (cntv (rev (o_syms o)) <= maxv)%Z ->
  let F := Z.of_nat (length (o_pcc o)) in
  exists n s, Edgebreaker.eb_core (3 * F) maxv F rm (rev (o_syms o)) (o_events o) (Edgebreaker.bits_of_list (o_bits o)) = Edgebreaker.Ok (n, s) /\
              eb_iso c2v opp (o_pcc o) (Edgebreaker.c2v s) (Edgebreaker.copp s).
Proof. exact ebsim_roundtrip_CERL_core. Qed.
Print Assumptions C01_ebsim_roundtrip_CERL_core.

Theorem C01_ebsim_roundtrip_CERL : forall faces t o rm, ct_create faces = Some t -> eb_encode_ct t = EOk o -> class_CERL o = true ->
  (Z.of_nat (3 * length faces + length (ct_vcorn t)) < 2147483648)%Z ->
  ((3 * o_nfaces o) / 2 <= (o_nverts o * (o_nverts o - 1)) / 2)%Z ->
  verts_fit o ->
  exists n s, eb_decode_of o rm = Edgebreaker.Ok (n, s) /\ eb_iso (ct_c2v t) (ct_opp t) (o_pcc o) (Edgebreaker.c2v s) (Edgebreaker.copp s).
Proof. exact ebsim_roundtrip_CERL. Qed.
Print Assumptions C01_ebsim_roundtrip_CERL.

(** the sub-class E / R / L (triangle strips and fans) *)
Theorem C01_ebsim_roundtrip_ERL_core : forall c2v opp nf nv niso ndeg o rm maxv,
  length c2v = 3 * nf -> opp_ok c2v opp -> (forall c, c < 3 * nf -> vtx c2v c < nv) -> one_fan c2v opp ->
  eb_encode c2v opp nv niso ndeg = EOk o -> class_ERL o = true -> (cntv (rev (o_syms o)) <= maxv)%Z ->
  let F := Z.of_nat (length (o_pcc o)) in
  exists n s, Edgebreaker.eb_core (3 * F) maxv F rm (rev (o_syms o)) (o_events o) (Edgebreaker.bits_of_list (o_bits o)) = Edgebreaker.Ok (n, s) /\
              eb_iso c2v opp (o_pcc o) (Edgebreaker.c2v s) (Edgebreaker.copp s).
Proof. exact ebsim_roundtrip_ERL_core. Qed.
Print Assumptions C01_ebsim_roundtrip_ERL_core.

Theorem C01_ebsim_roundtrip_ERL : forall faces t o rm, ct_create faces = Some t -> eb_encode_ct t = EOk o -> class_ERL o = true ->
  (Z.of_nat (3 * length faces + length (ct_vcorn t)) < 2147483648)%Z ->
  ((3 * o_nfaces o) / 2 <= (o_nverts o * (o_nverts o - 1)) / 2)%Z ->
  verts_fit o ->
  exists n s, eb_decode_of o rm = Edgebreaker.Ok (n, s) /\ eb_iso (ct_c2v t) (ct_opp t) (o_pcc o) (Edgebreaker.c2v s) (Edgebreaker.copp s).
Proof. exact ebsim_roundtrip_ERL. Qed.
Print Assumptions C01_ebsim_roundtrip_ERL.


(** ** (6) symbol S without split events *)
Theorem C01_ebsim_trace_steps : forall c2v opp nv niso ndeg o tr, eb_encode_tr c2v opp nv niso ndeg = EOk (o, tr) ->
  forall i cf cf', nth_error tr i = Some cf -> nth_error tr (S i) = Some cf' -> tstep opp cf cf'.
Proof. exact trace_steps. Qed.
Print Assumptions C01_ebsim_trace_steps.

Local Open Scope Z_scope.
Theorem C01_ebsim_dec_step_S : forall NC maxv rm s f sid a b rest, Edgebreaker_proofs.W NC maxv f s -> Edgebreaker_fan_proofs.FI f s ->
  3 * f + 3 <= NC -> Edgebreaker.stack s = b :: a :: rest -> Edgebreaker.find_split sid (Edgebreaker.splits s) = None ->
  a <> b -> Edgebreaker.copp s a = -1 -> Edgebreaker.copp s b = -1 ->
  let p := Edgebreaker.c2v s (Edgebreaker.prev_c a) in let r := Edgebreaker.c2v s (Edgebreaker.prev_c b) in
  let n := Edgebreaker.c2v s (Edgebreaker.next_c b) in
  p <> n -> r <> n ->
  exists s', Edgebreaker.step_S NC rm s f sid = Edgebreaker.Ok s' /\
    Edgebreaker.copp s' = Edgebreaker.copp (s_glued s f a b) /\
    (forall c, 0 <= c < 3 * f + 3 ->
       Edgebreaker.c2v s' c = if Edgebreaker.c2v (s_glued s f a b) c =? n then p else Edgebreaker.c2v (s_glued s f a b) c) /\
    Edgebreaker.nv s' = Edgebreaker.nv s /\ Edgebreaker.stack s' = 3 * f :: rest /\
    Edgebreaker.events s' = Edgebreaker.events s /\ Edgebreaker.splits s' = Edgebreaker.splits s /\
    Edgebreaker.invalid s' = (if rm then n :: Edgebreaker.invalid s else Edgebreaker.invalid s) /\
    Edgebreaker.nfaces s' = Edgebreaker.nfaces s.
Proof. exact dec_step_S. Qed.
Print Assumptions C01_ebsim_dec_step_S.

Theorem C01_ebsim_sim_step_S : forall c2v opp nf, length c2v = (3 * nf)%nat -> opp_ok c2v opp -> forall Q,
  (forall j, (j < length Q)%nat -> (nth j Q 0%nat < 3 * nf)%nat /\ is_degenerated c2v (nth j Q 0%nat / 3) = false) ->
  NoDup (map (fun c => (c / 3)%nat) Q) -> forall NC maxv k d d' ja,
  (k < length Q)%nat -> (1 <= k)%nat -> (ja < k)%nat -> SIM c2v opp Q k d -> Edgebreaker_proofs.W NC maxv (Z.of_nat k) d ->
  let a := dco ja 0 in let b := dco (k - 1) 0 in
  Edgebreaker.copp d' = Edgebreaker.copp (s_glued d (Z.of_nat k) a b) ->
  (forall c, 0 <= c < 3 * Z.of_nat k + 3 ->
     Edgebreaker.c2v d' c = if Edgebreaker.c2v (s_glued d (Z.of_nat k) a b) c =? Edgebreaker.c2v d (Edgebreaker.next_c b)
                            then Edgebreaker.c2v d (Edgebreaker.prev_c a) else Edgebreaker.c2v (s_glued d (Z.of_nat k) a b) c) ->
  Edgebreaker.nfaces d' = Z.of_nat (S k) ->
  opp_at opp (eco Q k 1) = Some (eco Q (k - 1) 0) -> opp_at opp (eco Q k 2) = Some (eco Q ja 0) ->
  ncr opp Q k (eco Q k 0) ->
  SIM c2v opp Q (S k) d'.
Proof. exact SIM_S. Qed.
Print Assumptions C01_ebsim_sim_step_S.

Theorem C01_ebsim_S_separation : forall c2v opp nf, length c2v = (3 * nf)%nat -> opp_ok c2v opp -> forall Q,
  (forall j, (j < length Q)%nat -> (nth j Q 0%nat < 3 * nf)%nat /\ is_degenerated c2v (nth j Q 0%nat / 3) = false) ->
  NoDup (map (fun c => (c / 3)%nat) Q) -> forall k d ja,
  (k < length Q)%nat -> (1 <= k)%nat -> (ja < k)%nat -> SIM c2v opp Q k d -> Edgebreaker_fan_proofs.FI (Z.of_nat k) d ->
  one_fan c2v opp -> opp_at opp (eco Q k 1) = Some (eco Q (k - 1) 0) -> opp_at opp (eco Q k 2) = Some (eco Q ja 0) ->
  Sbreak c2v opp nf Q k ->
  Edgebreaker.c2v d (dco ja 2) <> Edgebreaker.c2v d (dco (k - 1) 1).
Proof. exact S_sep. Qed.
Print Assumptions C01_ebsim_S_separation.
Local Close Scope Z_scope.

(** the vertex compaction *)
Local Open Scope Z_scope.
Theorem C01_ebsim_vcit_no_reject : forall NC maxv s f src iv, Edgebreaker_proofs.W NC maxv f s -> EbSimCompact_proofs.LABZ f s ->
  0 <= src < Edgebreaker.nv s -> Edgebreaker.vc s src <> -1 -> Edgebreaker.c2v s (Edgebreaker.vc s src) = src ->
  0 <= iv < Edgebreaker.nv s -> iv <> src ->
  Edgebreaker.vcit_loop NC (Edgebreaker.vcit_fuel NC) s (Edgebreaker.vc s src) (Edgebreaker.vc s src) true src iv <> Edgebreaker.Reject.
Proof. exact EbSimCompact_proofs.vcit_norej. Qed.
Print Assumptions C01_ebsim_vcit_no_reject.

Theorem C01_ebsim_compaction : forall NC maxv ivs k s f, Edgebreaker_proofs.W NC maxv f s -> Edgebreaker_compact_proofs.FJ f s ->
  EbSimCompact_proofs.LABZ f s ->
  (forall c, 0 <= c < 3 * f -> 0 <= Edgebreaker.c2v s c < Z.of_nat k) ->
  Forall (fun v => 0 <= v < Edgebreaker.nv s /\ Edgebreaker.vc s v = -1) ivs -> NoDup ivs -> Z.of_nat k <= Edgebreaker.nv s ->
  (ivs = [] \/ 0 < f) ->
  exists k' s', Edgebreaker.compact NC maxv ivs k s = Edgebreaker.Ok (k', s') /\
    Edgebreaker.copp s' = Edgebreaker.copp s /\ Edgebreaker.nfaces s' = Edgebreaker.nfaces s /\
    forall x y, 0 <= x < 3 * f -> 0 <= y < 3 * f ->
      (Edgebreaker.c2v s' x = Edgebreaker.c2v s' y <-> Edgebreaker.c2v s x = Edgebreaker.c2v s y).
Proof. exact EbSimCompact_proofs.compact_full. Qed.
Print Assumptions C01_ebsim_compaction.
Local Close Scope Z_scope.

(** the decoder along a script, every remove_invalid_vertices *)
Theorem C01_ebsim_dec_roundtrip_script : forall c2v opp nf, length c2v = 3 * nf -> opp_ok c2v opp ->
  forall Q, (forall j, j < length Q -> nth j Q 0 < 3 * nf /\ is_degenerated c2v (nth j Q 0 / 3) = false) ->
  NoDup (map (fun c => c / 3) Q) ->
  forall (NC maxv : Z) (rm : bool) (Y : list Z), NC = (3 * Z.of_nat (length Q))%Z -> length Y <= length Q -> (cntv Y <= maxv)%Z ->
  one_fan c2v opp ->
  forall B, (forall f, f < nf -> is_degenerated c2v f = false -> In f (map (fun c => c / 3) Q)) ->
  (forall j, j < length Y -> script_at c2v opp nf Q Y j) -> start_ok c2v opp nf Q Y B ->
  exists n s, Edgebreaker.eb_core NC maxv (Z.of_nat (length Q)) rm Y [] (Edgebreaker.bits_of_list B) = Edgebreaker.Ok (n, s) /\
              eb_iso c2v opp Q (Edgebreaker.c2v s) (Edgebreaker.copp s).
Proof. exact dec_roundtrip_rm. Qed.
Print Assumptions C01_ebsim_dec_roundtrip_script.

Theorem C01_ebsim_roundtrip_no_event_partial : forall c2v opp nf nv niso ndeg o tr rm maxv,
  length c2v = 3 * nf -> opp_ok c2v opp -> (forall c, c < 3 * nf -> vtx c2v c < nv) -> one_fan c2v opp ->
  eb_encode_tr c2v opp nv niso ndeg = EOk (o, tr) -> class_noev1 o = true -> ndp opp tr -> (cntv (rev (o_syms o)) <= maxv)%Z ->
  let F := Z.of_nat (length (o_pcc o)) in
  exists n s, Edgebreaker.eb_core (3 * F) maxv F rm (rev (o_syms o)) (o_events o) (Edgebreaker.bits_of_list (o_bits o)) = Edgebreaker.Ok (n, s) /\
              eb_iso c2v opp (o_pcc o) (Edgebreaker.c2v s) (Edgebreaker.copp s).
Proof. exact ebsim_roundtrip_noev1_partial. Qed.
Print Assumptions C01_ebsim_roundtrip_no_event_partial.

Theorem C01_ebsim_trace_one_run : forall c2v opp nv niso ndeg o tr, eb_encode_tr c2v opp nv niso ndeg = EOk (o, tr) ->
  length (o_bits o) = 1 ->
  exists t, tr = rev t /\
   (t = [] \/ (ladj opp t /\ (exists cf r, t = cf :: r /\ slink opp cf (rev (o_syms o)) []) /\
               exists pre cf, t = pre ++ [cf] /\ stack (cf_st cf) = [Some (cf_corner cf)])).
Proof. exact trace_one_run. Qed.
Print Assumptions C01_ebsim_trace_one_run.

Theorem C01_ebsim_no_dead_pop : forall c2v opp nv niso ndeg o tr, eb_encode_tr c2v opp nv niso ndeg = EOk (o, tr) ->
  length (o_bits o) = 1 -> ideal (rev (o_syms o)) = 0%Z -> hd 0%Z (rev (o_syms o)) = 7%Z -> ndp opp tr.
Proof. exact ndp_of_count. Qed.
Print Assumptions C01_ebsim_no_dead_pop.

Theorem C01_ebsim_roundtrip_no_event : forall c2v opp nf nv niso ndeg o rm maxv,
  length c2v = 3 * nf -> opp_ok c2v opp -> (forall c, c < 3 * nf -> vtx c2v c < nv) -> one_fan c2v opp ->
  eb_encode c2v opp nv niso ndeg = EOk o -> class_noev o = true -> (cntv (rev (o_syms o)) <= maxv)%Z ->
  let F := Z.of_nat (length (o_pcc o)) in
  exists n s, Edgebreaker.eb_core (3 * F) maxv F rm (rev (o_syms o)) (o_events o) (Edgebreaker.bits_of_list (o_bits o)) = Edgebreaker.Ok (n, s) /\
              eb_iso c2v opp (o_pcc o) (Edgebreaker.c2v s) (Edgebreaker.copp s).
Proof. exact ebsim_roundtrip_noev. Qed.
Print Assumptions C01_ebsim_roundtrip_no_event.

Theorem C01_ebsim_roundtrip_no_event_ct : forall faces t o rm, ct_create faces = Some t -> eb_encode_ct t = EOk o -> class_noev o = true ->
  (Z.of_nat (3 * length faces + length (ct_vcorn t)) < 2147483648)%Z ->
  ((3 * o_nfaces o) / 2 <= (o_nverts o * (o_nverts o - 1)) / 2)%Z ->
  verts_fit o ->
  exists n s, eb_decode_of o rm = Edgebreaker.Ok (n, s) /\ eb_iso (ct_c2v t) (ct_opp t) (o_pcc o) (Edgebreaker.c2v s) (Edgebreaker.copp s).
Proof. exact ebsim_roundtrip_noev_ct. Qed.
Print Assumptions C01_ebsim_roundtrip_no_event_ct.

Theorem C01_ebsim_no_event_count : forall c2v opp nf nv niso ndeg o,
  length c2v = 3 * nf -> opp_ok c2v opp -> (forall c, c < 3 * nf -> vtx c2v c < nv) -> one_fan c2v opp ->
  eb_encode c2v opp nv niso ndeg = EOk o -> length (o_bits o) = 1 -> o_events o = [] ->
  o_syms o = [] \/ ideal (rev (o_syms o)) = 0%Z.
Proof. exact encode_count_wf. Qed.
Print Assumptions C01_ebsim_no_event_count.

Theorem C01_ebsim_class_no_event : forall c2v opp nf nv niso ndeg o,
  length c2v = 3 * nf -> opp_ok c2v opp -> (forall c, c < 3 * nf -> vtx c2v c < nv) -> one_fan c2v opp ->
  eb_encode c2v opp nv niso ndeg = EOk o -> class_noev1 o = true -> class_noev o = true.
Proof. exact class_noev1_noev. Qed.
Print Assumptions C01_ebsim_class_no_event.

Theorem C01_ebsim_roundtrip_no_event_1 : forall c2v opp nf nv niso ndeg o rm maxv,
  length c2v = 3 * nf -> opp_ok c2v opp -> (forall c, c < 3 * nf -> vtx c2v c < nv) -> one_fan c2v opp ->
  eb_encode c2v opp nv niso ndeg = EOk o -> class_noev1 o = true -> (cntv (rev (o_syms o)) <= maxv)%Z ->
  let F := Z.of_nat (length (o_pcc o)) in
  exists n s, Edgebreaker.eb_core (3 * F) maxv F rm (rev (o_syms o)) (o_events o) (Edgebreaker.bits_of_list (o_bits o)) = Edgebreaker.Ok (n, s) /\
              eb_iso c2v opp (o_pcc o) (Edgebreaker.c2v s) (Edgebreaker.copp s).
Proof. exact ebsim_roundtrip_noev1. Qed.
Print Assumptions C01_ebsim_roundtrip_no_event_1.

Theorem C01_ebsim_roundtrip_no_event_1_ct : forall faces t o rm, ct_create faces = Some t -> eb_encode_ct t = EOk o -> class_noev1 o = true ->
  (Z.of_nat (3 * length faces + length (ct_vcorn t)) < 2147483648)%Z ->
  ((3 * o_nfaces o) / 2 <= (o_nverts o * (o_nverts o - 1)) / 2)%Z ->
  verts_fit o ->
  exists n s, eb_decode_of o rm = Edgebreaker.Ok (n, s) /\ eb_iso (ct_c2v t) (ct_opp t) (o_pcc o) (Edgebreaker.c2v s) (Edgebreaker.copp s).
Proof. exact ebsim_roundtrip_noev1_ct. Qed.
Print Assumptions C01_ebsim_roundtrip_no_event_1_ct.

Theorem C01_ebsim_trace_no_event_1 : forall c2v opp nf nv niso ndeg o tr rm maxv,
  length c2v = 3 * nf -> opp_ok c2v opp -> (forall c, c < 3 * nf -> vtx c2v c < nv) -> one_fan c2v opp ->
  eb_encode_tr c2v opp nv niso ndeg = EOk (o, tr) -> class_noev1 o = true -> (cntv (rev (o_syms o)) <= maxv)%Z ->
  let ns := length (o_syms o) in
  let NC := (3 * Z.of_nat (length (o_pcc o)))%Z in
  length tr = ns /\
  forall i cf, nth_error tr i = Some cf ->
    length (syms (cf_st cf)) = i /\
    exists d, Edgebreaker.sym_loop NC maxv rm (Z.of_nat ns) (firstn (ns - i) (rev (o_syms o))) 0 (Edgebreaker.init_st []) = Edgebreaker.Ok d /\
              sim3 c2v opp (o_pcc o) (rev (o_syms o)) ns NC maxv cf d.
Proof. exact ebsim_trace_noev1. Qed.
Print Assumptions C01_ebsim_trace_no_event_1.

(** several runs *)
Theorem C01_ebsim_trace_runs : forall c2v opp nv niso ndeg o tr, eb_encode_tr c2v opp nv niso ndeg = EOk (o, tr) ->
  exists t, tr = rev t /\
   (t = [] \/ exists R, madj opp t R /\ R <= length (o_bits o) /\ exists cf r, t = cf :: r /\ slink opp cf (rev (o_syms o)) []).
Proof. exact trace_runs. Qed.
Print Assumptions C01_ebsim_trace_runs.

Theorem C01_ebsim_runs_balanced : forall c2v opp nf nv niso ndeg o,
  length c2v = 3 * nf -> opp_ok c2v opp -> (forall c, c < 3 * nf -> vtx c2v c < nv) -> one_fan c2v opp ->
  eb_encode c2v opp nv niso ndeg = EOk o ->
  let Q := o_pcc o in let Y := rev (o_syms o) in
  (o_events o = [] -> ideal Y = (1 - Z.of_nat (length (o_bits o)))%Z) /\
  RUNS2 opp (IFc' c2v opp nf) (o_events o = []) (rev (o_bits o)) (rev (skipn (length Y) Q)) (firstn (length Y) Q) Y.
Proof. exact encode_runs2_wf. Qed.
Print Assumptions C01_ebsim_runs_balanced.

Theorem C01_ebsim_no_dead_pop_runs : forall c2v opp nv niso ndeg o tr, eb_encode_tr c2v opp nv niso ndeg = EOk (o, tr) ->
  ideal (rev (o_syms o)) = (1 - Z.of_nat (length (o_bits o)))%Z -> ndpm opp (o_syms o) tr.
Proof. exact ndpm_of_count. Qed.
Print Assumptions C01_ebsim_no_dead_pop_runs.

Theorem C01_ebsim_roundtrip_no_event_all : forall c2v opp nf nv niso ndeg o rm maxv,
  length c2v = 3 * nf -> opp_ok c2v opp -> (forall c, c < 3 * nf -> vtx c2v c < nv) -> one_fan c2v opp ->
  eb_encode c2v opp nv niso ndeg = EOk o -> o_events o = [] -> (cntv (rev (o_syms o)) <= maxv)%Z ->
  let F := Z.of_nat (length (o_pcc o)) in
  exists n s, Edgebreaker.eb_core (3 * F) maxv F rm (rev (o_syms o)) (o_events o) (Edgebreaker.bits_of_list (o_bits o)) = Edgebreaker.Ok (n, s) /\
              eb_iso c2v opp (o_pcc o) (Edgebreaker.c2v s) (Edgebreaker.copp s).
Proof. exact ebsim_roundtrip_noevent. Qed.
Print Assumptions C01_ebsim_roundtrip_no_event_all.

Theorem C01_ebsim_roundtrip_no_event_all_ct : forall faces t o rm, ct_create faces = Some t -> eb_encode_ct t = EOk o -> o_events o = [] ->
  (Z.of_nat (3 * length faces + length (ct_vcorn t)) < 2147483648)%Z ->
  ((3 * o_nfaces o) / 2 <= (o_nverts o * (o_nverts o - 1)) / 2)%Z ->
  verts_fit o ->
  exists n s, eb_decode_of o rm = Edgebreaker.Ok (n, s) /\ eb_iso (ct_c2v t) (ct_opp t) (o_pcc o) (Edgebreaker.c2v s) (Edgebreaker.copp s).
Proof. exact ebsim_roundtrip_noevent_ct. Qed.
Print Assumptions C01_ebsim_roundtrip_no_event_all_ct.

Theorem C01_ebsim_trace_no_event : forall c2v opp nf nv niso ndeg o tr rm maxv,
  length c2v = 3 * nf -> opp_ok c2v opp -> (forall c, c < 3 * nf -> vtx c2v c < nv) -> one_fan c2v opp ->
  eb_encode_tr c2v opp nv niso ndeg = EOk (o, tr) -> o_events o = [] -> (cntv (rev (o_syms o)) <= maxv)%Z ->
  let ns := length (o_syms o) in
  let NC := (3 * Z.of_nat (length (o_pcc o)))%Z in
  length tr = ns /\
  forall i cf, nth_error tr i = Some cf ->
    length (syms (cf_st cf)) = i /\
    exists d, Edgebreaker.sym_loop NC maxv rm (Z.of_nat ns) (firstn (ns - i) (rev (o_syms o))) 0 (Edgebreaker.init_st []) = Edgebreaker.Ok d /\
              sim4 c2v opp (o_pcc o) (rev (o_syms o)) ns NC maxv cf d.
Proof. exact ebsim_trace_noevent. Qed.
Print Assumptions C01_ebsim_trace_no_event.

Theorem C01_ebsim_verts_fit_no_event : forall faces t o, ct_create faces = Some t -> eb_encode_ct t = EOk o -> o_events o = [] -> verts_fit o.
Proof. exact verts_fit_noevent. Qed.
Print Assumptions C01_ebsim_verts_fit_no_event.

Theorem C01_ebsim_roundtrip_no_event_all_ct2 : forall faces t o rm, ct_create faces = Some t -> eb_encode_ct t = EOk o -> o_events o = [] ->
  (Z.of_nat (3 * length faces + length (ct_vcorn t)) < 2147483648)%Z ->
  ((3 * o_nfaces o) / 2 <= (o_nverts o * (o_nverts o - 1)) / 2)%Z ->
  exists n s, eb_decode_of o rm = Edgebreaker.Ok (n, s) /\ eb_iso (ct_c2v t) (ct_opp t) (o_pcc o) (Edgebreaker.c2v s) (Edgebreaker.copp s).
Proof. exact ebsim_roundtrip_noevent_ct'. Qed.
Print Assumptions C01_ebsim_roundtrip_no_event_all_ct2.

(** ** split events: the decoder half *)
Local Open Scope Z_scope.
Theorem C01_ebsim_split_loop : forall (ns k : nat), (k < ns)%nat -> Z.of_nat ns < 2147483648 ->
  forall seg rest s stk, (forall e, In e seg -> (fst e < ns)%nat) ->
  match rest with [] => True | (src, _, _) :: _ => 0 <= src < Z.of_nat ns - Z.of_nat k - 1 end ->
  Edgebreaker.stack s = 3 * Z.of_nat k :: stk ->
  exists s', Edgebreaker.split_loop (map (raw_ev ns k) seg ++ rest) s (Z.of_nat ns) (Z.of_nat ns - Z.of_nat k - 1) = Edgebreaker.Ok s' /\
    Edgebreaker.events s' = rest /\ Edgebreaker.splits s' = rev (map (reg_of k) seg) ++ Edgebreaker.splits s /\
    Edgebreaker.copp s' = Edgebreaker.copp s /\ Edgebreaker.c2v s' = Edgebreaker.c2v s /\ Edgebreaker.vc s' = Edgebreaker.vc s /\
    Edgebreaker.nv s' = Edgebreaker.nv s /\ Edgebreaker.stack s' = Edgebreaker.stack s /\
    Edgebreaker.invalid s' = Edgebreaker.invalid s /\ Edgebreaker.nfaces s' = Edgebreaker.nfaces s.
Proof. exact split_loop_run. Qed.
Print Assumptions C01_ebsim_split_loop.

Theorem C01_ebsim_dec_step_S_split : forall NC maxv rm s sid ns a b rest0 rest, Edgebreaker_proofs.W NC maxv (Edgebreaker.nfaces s) s ->
  Edgebreaker_fan_proofs.FI (Edgebreaker.nfaces s) s -> 3 * Edgebreaker.nfaces s + 3 <= NC ->
  Edgebreaker.stack s = b :: rest0 -> stack1_of s sid rest0 = a :: rest -> 0 <= a < 3 * Edgebreaker.nfaces s -> a <> b ->
  Edgebreaker.copp s a = -1 -> Edgebreaker.copp s b = -1 ->
  let f := Edgebreaker.nfaces s in
  let p := Edgebreaker.c2v s (Edgebreaker.prev_c a) in let r := Edgebreaker.c2v s (Edgebreaker.prev_c b) in
  let n := Edgebreaker.c2v s (Edgebreaker.next_c b) in
  p <> n -> r <> n ->
  exists s', Edgebreaker.step NC maxv rm ns s sid 1 = Edgebreaker.Ok s' /\
    Edgebreaker.copp s' = Edgebreaker.copp (s_glued s f a b) /\
    (forall c, 0 <= c < 3 * f + 3 -> Edgebreaker.c2v s' c = if Edgebreaker.c2v (s_glued s f a b) c =? n then p else Edgebreaker.c2v (s_glued s f a b) c) /\
    Edgebreaker.nv s' = Edgebreaker.nv s /\ Edgebreaker.stack s' = 3 * f :: rest /\
    Edgebreaker.events s' = Edgebreaker.events s /\ Edgebreaker.splits s' = Edgebreaker.splits s /\
    Edgebreaker.invalid s' = (if rm then n :: Edgebreaker.invalid s else Edgebreaker.invalid s) /\ Edgebreaker.nfaces s' = f + 1.
Proof. exact dec_step_S_full_g. Qed.
Print Assumptions C01_ebsim_dec_step_S_split.
Local Close Scope Z_scope.

Theorem C01_ebsim_sim_step_S_split : forall c2v opp nf, length c2v = 3 * nf -> opp_ok c2v opp ->
  forall Q, (forall j, j < length Q -> nth j Q 0 < 3 * nf /\ is_degenerated c2v (nth j Q 0 / 3) = false) ->
  NoDup (map (fun c => c / 3) Q) -> forall (NC maxv : Z) k d d' ja ra,
  k < length Q -> 1 <= k -> ja < k -> ra < 3 -> SIM c2v opp Q k d -> Edgebreaker_proofs.W NC maxv (Z.of_nat k) d ->
  let a := dco ja ra in let b := dco (k - 1) 0 in
  Edgebreaker.copp d' = Edgebreaker.copp (s_glued d (Z.of_nat k) a b) ->
  (forall c, (0 <= c < 3 * Z.of_nat k + 3)%Z ->
     Edgebreaker.c2v d' c = if (Edgebreaker.c2v (s_glued d (Z.of_nat k) a b) c =? Edgebreaker.c2v d (Edgebreaker.next_c b))%Z
                            then Edgebreaker.c2v d (Edgebreaker.prev_c a) else Edgebreaker.c2v (s_glued d (Z.of_nat k) a b) c) ->
  Edgebreaker.nfaces d' = Z.of_nat (S k) ->
  opp_at opp (eco Q k 1) = Some (eco Q (k - 1) 0) -> opp_at opp (eco Q k 2) = Some (eco Q ja ra) ->
  ncr opp Q k (eco Q k 0) ->
  SIM c2v opp Q (S k) d'.
Proof. exact SIM_S_g. Qed.
Print Assumptions C01_ebsim_sim_step_S_split.

Theorem C01_ebsim_S_separation_split : forall c2v opp nf, length c2v = 3 * nf -> opp_ok c2v opp ->
  forall Q, (forall j, j < length Q -> nth j Q 0 < 3 * nf /\ is_degenerated c2v (nth j Q 0 / 3) = false) ->
  NoDup (map (fun c => c / 3) Q) -> forall k d ja ra,
  k < length Q -> 1 <= k -> ja < k -> ra < 3 -> SIM c2v opp Q k d -> Edgebreaker_fan_proofs.FI (Z.of_nat k) d -> one_fan c2v opp ->
  opp_at opp (eco Q k 1) = Some (eco Q (k - 1) 0) -> opp_at opp (eco Q k 2) = Some (eco Q ja ra) -> Sbreak c2v opp nf Q k ->
  Edgebreaker.c2v d (dco ja ((ra + 2) mod 3)) <> Edgebreaker.c2v d (dco (k - 1) 1).
Proof. exact S_sep_g. Qed.
Print Assumptions C01_ebsim_S_separation_split.

Theorem C01_ebsim_dec_roundtrip_script_events : forall c2v opp nf, length c2v = 3 * nf -> opp_ok c2v opp ->
  forall Q, (forall j, j < length Q -> nth j Q 0 < 3 * nf /\ is_degenerated c2v (nth j Q 0 / 3) = false) ->
  NoDup (map (fun c => c / 3) Q) ->
  forall (NC maxv : Z) (rm : bool) (Y : list Z), NC = (3 * Z.of_nat (length Q))%Z -> length Y <= length Q -> (cntv Y <= maxv)%Z ->
  one_fan c2v opp ->
  forall EVseg : nat -> list (nat * bool), (Z.of_nat (length Y) < 2147483648)%Z ->
  forall B, (forall f, f < nf -> is_degenerated c2v f = false -> In f (map (fun c => c / 3) Q)) ->
  (forall j, j < length Y -> script_atE c2v opp nf Q Y EVseg j) -> start_ok_g c2v opp nf Q Y (topsE Y EVseg (length Y)) B ->
  exists n s, Edgebreaker.eb_core NC maxv (Z.of_nat (length Q)) rm Y (rev (REM Y EVseg 0)) (Edgebreaker.bits_of_list B) = Edgebreaker.Ok (n, s) /\
              eb_iso c2v opp Q (Edgebreaker.c2v s) (Edgebreaker.copp s).
Proof. exact dec_roundtrip_events. Qed.
Print Assumptions C01_ebsim_dec_roundtrip_script_events.

Theorem C01_ebsim_roundtrip_events_checked : forall c2v opp nf nv niso ndeg o rm maxv,
  length c2v = 3 * nf -> opp_ok c2v opp -> (forall c, c < 3 * nf -> vtx c2v c < nv) -> one_fan c2v opp ->
  eb_encode c2v opp nv niso ndeg = EOk o -> class_script c2v opp nf o = true -> (cntv (rev (o_syms o)) <= maxv)%Z ->
  let F := Z.of_nat (length (o_pcc o)) in
  exists n s, Edgebreaker.eb_core (3 * F) maxv F rm (rev (o_syms o)) (o_events o) (Edgebreaker.bits_of_list (o_bits o)) = Edgebreaker.Ok (n, s) /\
              eb_iso c2v opp (o_pcc o) (Edgebreaker.c2v s) (Edgebreaker.copp s).
Proof. exact ebsim_roundtrip_checked. Qed.
Print Assumptions C01_ebsim_roundtrip_events_checked.

Theorem C01_ebsim_roundtrip_events_checked_ct : forall faces t o rm, ct_create faces = Some t -> eb_encode_ct t = EOk o ->
  class_script (ct_c2v t) (ct_opp t) (length faces) o = true ->
  (Z.of_nat (3 * length faces + length (ct_vcorn t)) < 2147483648)%Z ->
  ((3 * o_nfaces o) / 2 <= (o_nverts o * (o_nverts o - 1)) / 2)%Z ->
  (Z.of_nat (length (o_events o)) <= o_nfaces o)%Z ->
  (cntv (rev (o_syms o)) <= o_nverts o + o_nsplit o)%Z ->
  exists n s, eb_decode_of o rm = Edgebreaker.Ok (n, s) /\ eb_iso (ct_c2v t) (ct_opp t) (o_pcc o) (Edgebreaker.c2v s) (Edgebreaker.copp s).
Proof. exact ebsim_roundtrip_checked_ct. Qed.
Print Assumptions C01_ebsim_roundtrip_events_checked_ct.

(** one conjunct of [class_script] holds for EVERY encoding: the events are grouped by their source symbol *)
Theorem C01_ebsim_events_bookkeeping : forall c2v opp nf nv niso ndeg o,
  length c2v = 3 * nf -> opp_ok c2v opp -> (forall c, c < 3 * nf -> vtx c2v c < nv) -> one_fan c2v opp ->
  eb_encode c2v opp nv niso ndeg = EOk o -> rev (REM (rev (o_syms o)) (EVseg_of o) 0) = o_events o.
Proof. exact events_bookkeeping. Qed.
Print Assumptions C01_ebsim_events_bookkeeping.

(** ** split events: the encoder side, one run *)
Theorem C01_ebsim_small_step : forall c2v opp hid s c s' tr', from_corner_tr c2v opp hid s (Some c) [] = EOk (s', tr') ->
  length tr' <= NF c2v ->
  gadj (SSTEP opp) tr' /\
  (tr' = [] \/ exists pre cf0, tr' = pre ++ [cf0] /\ cf_st cf0 = with_stack s [Some c] /\ cf_corner cf0 = c) /\
  (tr' = [] \/ POSTS opp (NF c2v) tr' s').
Proof. exact from_corner_tr_sstep. Qed.
Print Assumptions C01_ebsim_small_step.

Theorem C01_ebsim_events_characterized : forall c2v opp nf nv niso ndeg o tr,
  length c2v = 3 * nf -> opp_ok c2v opp -> (forall c, c < 3 * nf -> vtx c2v c < nv) -> one_fan c2v opp ->
  eb_encode_tr c2v opp nv niso ndeg = EOk (o, tr) -> length (o_bits o) = 1 ->
  let ns := length (o_syms o) in let Q := o_pcc o in
  forall src spl ed,
  In (src, spl, ed) (o_events o) <->
  exists m sg x, src = Z.of_nat m /\ spl = Z.of_nat sg /\ sg < m /\ m < ns /\ nth sg (o_syms o) 0%Z = 1%Z /\
    nth (ns - 1 - sg) Q 0 / 3 = x / 3 /\
    ((ed = 1%Z /\ (nth m (o_syms o) 0%Z = 5%Z \/ nth m (o_syms o) 0%Z = 7%Z) /\ oat opp (next_c (nth (ns - 1 - m) Q 0)) = Some x) \/
     (ed = 0%Z /\ (nth m (o_syms o) 0%Z = 3%Z \/ nth m (o_syms o) 0%Z = 7%Z) /\ oat opp (prev_c (nth (ns - 1 - m) Q 0)) = Some x)).
Proof. exact events_characterized. Qed.
Print Assumptions C01_ebsim_events_characterized.

Theorem C01_ebsim_event_iff_dead : forall c2v opp nf nv niso ndeg o tr,
  length c2v = 3 * nf -> opp_ok c2v opp -> (forall c, c < 3 * nf -> vtx c2v c < nv) -> one_fan c2v opp ->
  eb_encode_tr c2v opp nv niso ndeg = EOk (o, tr) -> length (o_bits o) = 1 ->
  let ns := length (o_syms o) in let Q := o_pcc o in
  forall sg l, sg < ns -> nth sg (o_syms o) 0%Z = 1%Z -> oat opp (prev_c (nth (ns - 1 - sg) Q 0)) = Some l ->
  ((exists src ed, In (src, Z.of_nat sg, ed) (o_events o)) <-> ~ In l (firstn ns Q)).
Proof. exact event_iff_dead. Qed.
Print Assumptions C01_ebsim_event_iff_dead.

Theorem C01_ebsim_stack_with_events : forall c2v opp nf nv niso ndeg o tr,
  length c2v = 3 * nf -> opp_ok c2v opp -> (forall c, c < 3 * nf -> vtx c2v c < nv) -> one_fan c2v opp ->
  eb_encode_tr c2v opp nv niso ndeg = EOk (o, tr) -> length (o_bits o) = 1 ->
  let ns := length (o_syms o) in let Q := o_pcc o in
  forall i cf, nth_error tr i = Some cf ->
  map (fun j => nth j Q 0) (topsE (rev (o_syms o)) (EVseg_of o) (ns - i)) =
  cf_corner cf :: map the (filter (alive_e tr) (tl (stack (cf_st cf)))).
Proof. exact stack_events. Qed.
Print Assumptions C01_ebsim_stack_with_events.

(** ** THE ROUND TRIP WITH SPLIT EVENTS, one start face *)
Theorem C01_ebsim_roundtrip_events_1 : forall c2v opp nf nv niso ndeg o rm maxv,
  length c2v = 3 * nf -> opp_ok c2v opp -> (forall c, c < 3 * nf -> vtx c2v c < nv) -> one_fan c2v opp ->
  eb_encode c2v opp nv niso ndeg = EOk o -> length (o_bits o) = 1 ->
  (Z.of_nat (length (o_syms o)) < 2147483648)%Z -> (cntv (rev (o_syms o)) <= maxv)%Z ->
  let F := Z.of_nat (length (o_pcc o)) in
  exists n s, Edgebreaker.eb_core (3 * F) maxv F rm (rev (o_syms o)) (o_events o) (Edgebreaker.bits_of_list (o_bits o)) = Edgebreaker.Ok (n, s) /\
              eb_iso c2v opp (o_pcc o) (Edgebreaker.c2v s) (Edgebreaker.copp s).
Proof. exact ebsim_roundtrip_events_1_enc. Qed.
Print Assumptions C01_ebsim_roundtrip_events_1.

Theorem C01_ebsim_roundtrip_events_1_ct : forall faces t o rm, ct_create faces = Some t -> eb_encode_ct t = EOk o ->
  length (o_bits o) = 1 ->
  (Z.of_nat (3 * length faces + length (ct_vcorn t)) < 2147483648)%Z ->
  ((3 * o_nfaces o) / 2 <= (o_nverts o * (o_nverts o - 1)) / 2)%Z ->
  exists n s, eb_decode_of o rm = Edgebreaker.Ok (n, s) /\ eb_iso (ct_c2v t) (ct_opp t) (o_pcc o) (Edgebreaker.c2v s) (Edgebreaker.copp s).
Proof. exact ebsim_roundtrip_events_1_ct2. Qed.
Print Assumptions C01_ebsim_roundtrip_events_1_ct.

Theorem C01_ebsim_trace_events_1 : forall c2v opp nf nv niso ndeg o tr,
  length c2v = 3 * nf -> opp_ok c2v opp -> (forall c, c < 3 * nf -> vtx c2v c < nv) -> one_fan c2v opp ->
  eb_encode_tr c2v opp nv niso ndeg = EOk (o, tr) -> length (o_bits o) = 1 ->
  forall rm maxv, (Z.of_nat (length (o_syms o)) < 2147483648)%Z -> (cntv (rev (o_syms o)) <= maxv)%Z ->
  let ns := length (o_syms o) in
  let NC := (3 * Z.of_nat (length (o_pcc o)))%Z in
  length tr = ns /\
  forall i cf, nth_error tr i = Some cf ->
    length (syms (cf_st cf)) = i /\
    exists d, Edgebreaker.sym_loop NC maxv rm (Z.of_nat ns) (firstn (ns - i) (rev (o_syms o))) 0 (Edgebreaker.init_st (o_events o)) = Edgebreaker.Ok d /\
              simE c2v opp o tr NC maxv cf d.
Proof. exact ebsim_trace_events_1. Qed.
Print Assumptions C01_ebsim_trace_events_1.

Theorem C01_ebsim_verts_fit_script : forall faces t o, ct_create faces = Some t -> eb_encode_ct t = EOk o ->
  (Z.of_nat (length (o_syms o)) < 2147483648)%Z ->
  (forall j, j < length (o_syms o) -> script_atE (ct_c2v t) (ct_opp t) (length faces) (o_pcc o) (rev (o_syms o)) (EVseg_of o) j) ->
  start_ok_g (ct_c2v t) (ct_opp t) (length faces) (o_pcc o) (rev (o_syms o))
             (topsE (rev (o_syms o)) (EVseg_of o) (length (o_syms o))) (o_bits o) ->
  verts_fit o.
Proof. exact verts_fit_script. Qed.
Print Assumptions C01_ebsim_verts_fit_script.

Theorem C01_ebsim_roundtrip_events_checked_ct2 : forall faces t o rm, ct_create faces = Some t -> eb_encode_ct t = EOk o ->
  class_script (ct_c2v t) (ct_opp t) (length faces) o = true ->
  (Z.of_nat (3 * length faces + length (ct_vcorn t)) < 2147483648)%Z ->
  ((3 * o_nfaces o) / 2 <= (o_nverts o * (o_nverts o - 1)) / 2)%Z ->
  (Z.of_nat (length (o_events o)) <= o_nfaces o)%Z ->
  exists n s, eb_decode_of o rm = Edgebreaker.Ok (n, s) /\ eb_iso (ct_c2v t) (ct_opp t) (o_pcc o) (Edgebreaker.c2v s) (Edgebreaker.copp s).
Proof. exact ebsim_roundtrip_checked_ct'. Qed.
Print Assumptions C01_ebsim_roundtrip_events_checked_ct2.

Theorem C01_ebsim_verts_fit_events_1 : forall faces t o, ct_create faces = Some t -> eb_encode_ct t = EOk o -> length (o_bits o) = 1 ->
  (Z.of_nat (length (o_syms o)) < 2147483648)%Z -> verts_fit o.
Proof. exact verts_fit_events_1. Qed.
Print Assumptions C01_ebsim_verts_fit_events_1.

Theorem C01_ebsim_events_count_1 : forall c2v opp nf nv niso ndeg o tr,
  length c2v = 3 * nf -> opp_ok c2v opp -> (forall c, c < 3 * nf -> vtx c2v c < nv) -> one_fan c2v opp ->
  eb_encode_tr c2v opp nv niso ndeg = EOk (o, tr) -> length (o_bits o) = 1 -> length (o_events o) <= length (o_syms o).
Proof. exact events_count_1. Qed.
Print Assumptions C01_ebsim_events_count_1.

(** ** any number of runs: the weak small step across run boundaries, the events of EVERY encoding *)
Theorem C01_ebsim_small_step_runs : forall c2v opp nv niso ndeg o tr, eb_encode_tr c2v opp nv niso ndeg = EOk (o, tr) -> length tr <= NF c2v ->
  tr = [] \/ exists sF, GOODW opp (rev tr) sF /\ o_syms o = rev (syms sF) /\ o_events o = rev (evs sF).
Proof. exact trace_wsteps. Qed.
Print Assumptions C01_ebsim_small_step_runs.

Theorem C01_ebsim_events_characterized_all : forall c2v opp nf nv niso ndeg o tr,
  length c2v = 3 * nf -> opp_ok c2v opp -> (forall c, c < 3 * nf -> vtx c2v c < nv) -> one_fan c2v opp ->
  eb_encode_tr c2v opp nv niso ndeg = EOk (o, tr) ->
  let ns := length (o_syms o) in let Q := o_pcc o in
  forall src spl ed,
  In (src, spl, ed) (o_events o) <->
  exists m sg x, src = Z.of_nat m /\ spl = Z.of_nat sg /\ sg < m /\ m < ns /\ nth sg (o_syms o) 0%Z = 1%Z /\
    nth (ns - 1 - sg) Q 0 / 3 = x / 3 /\
    ((ed = 1%Z /\ (nth m (o_syms o) 0%Z = 5%Z \/ nth m (o_syms o) 0%Z = 7%Z) /\ oat opp (next_c (nth (ns - 1 - m) Q 0)) = Some x) \/
     (ed = 0%Z /\ (nth m (o_syms o) 0%Z = 3%Z \/ nth m (o_syms o) 0%Z = 7%Z) /\ oat opp (prev_c (nth (ns - 1 - m) Q 0)) = Some x)).
Proof. exact events_characterized_all. Qed.
Print Assumptions C01_ebsim_events_characterized_all.

Theorem C01_ebsim_events_nodup_all : forall c2v opp nf nv niso ndeg o tr,
  length c2v = 3 * nf -> opp_ok c2v opp -> (forall c, c < 3 * nf -> vtx c2v c < nv) -> one_fan c2v opp ->
  eb_encode_tr c2v opp nv niso ndeg = EOk (o, tr) -> NoDup (o_events o).
Proof. exact events_nodup_all. Qed.
Print Assumptions C01_ebsim_events_nodup_all.

(** the FULL small step across runs, the stack correspondence and the script conditions for EVERY encoding *)
Theorem C01_ebsim_small_step_runs_full : forall c2v opp nv niso ndeg o tr, eb_encode_tr c2v opp nv niso ndeg = EOk (o, tr) -> length tr <= NF c2v ->
  tr = [] \/ exists sF, GOODM c2v opp (rev tr) sF /\ o_syms o = rev (syms sF) /\ o_events o = rev (evs sF).
Proof. exact trace_msteps. Qed.
Print Assumptions C01_ebsim_small_step_runs_full.

Theorem C01_ebsim_stack_with_events_runs : forall c2v opp nf nv niso ndeg o tr,
  length c2v = 3 * nf -> opp_ok c2v opp -> (forall c, c < 3 * nf -> vtx c2v c < nv) -> one_fan c2v opp ->
  eb_encode_tr c2v opp nv niso ndeg = EOk (o, tr) ->
  let ns := length (o_syms o) in let Q := o_pcc o in
  forall i cf, nth_error tr i = Some cf -> exists rest,
  map (fun j => nth j Q 0) (topsE (rev (o_syms o)) (EVseg_of o) (ns - i)) =
  cf_corner cf :: map the (filter (alive_e tr) (tl (stack (cf_st cf)))) ++ rest.
Proof. exact stack_eventsM. Qed.
Print Assumptions C01_ebsim_stack_with_events_runs.

Theorem C01_ebsim_script_all : forall c2v opp nf nv niso ndeg o tr,
  length c2v = 3 * nf -> opp_ok c2v opp -> (forall c, c < 3 * nf -> vtx c2v c < nv) -> one_fan c2v opp ->
  eb_encode_tr c2v opp nv niso ndeg = EOk (o, tr) ->
  forall k, k < length (o_syms o) -> script_atE c2v opp nf (o_pcc o) (rev (o_syms o)) (EVseg_of o) k.
Proof. exact script_allM. Qed.
Print Assumptions C01_ebsim_script_all.

Theorem C01_ebsim_roundtrip_events_start_partial : forall c2v opp nf nv niso ndeg o tr,
  length c2v = 3 * nf -> opp_ok c2v opp -> (forall c, c < 3 * nf -> vtx c2v c < nv) -> one_fan c2v opp ->
  eb_encode_tr c2v opp nv niso ndeg = EOk (o, tr) ->
  forall rm maxv, (Z.of_nat (length (o_syms o)) < 2147483648)%Z -> (cntv (rev (o_syms o)) <= maxv)%Z ->
  start_ok_g c2v opp nf (o_pcc o) (rev (o_syms o)) (topsE (rev (o_syms o)) (EVseg_of o) (length (o_syms o))) (o_bits o) ->
  let F := Z.of_nat (length (o_pcc o)) in
  exists n s, Edgebreaker.eb_core (3 * F) maxv F rm (rev (o_syms o)) (o_events o) (Edgebreaker.bits_of_list (o_bits o)) = Edgebreaker.Ok (n, s) /\
              eb_iso c2v opp (o_pcc o) (Edgebreaker.c2v s) (Edgebreaker.copp s).
Proof. exact ebsim_roundtrip_events_start_partial. Qed.
Print Assumptions C01_ebsim_roundtrip_events_start_partial.

Theorem C01_ebsim_roundtrip_events_start_ct_partial : forall faces t o rm, ct_create faces = Some t -> eb_encode_ct t = EOk o ->
  (Z.of_nat (3 * length faces + length (ct_vcorn t)) < 2147483648)%Z ->
  ((3 * o_nfaces o) / 2 <= (o_nverts o * (o_nverts o - 1)) / 2)%Z ->
  start_ok_g (ct_c2v t) (ct_opp t) (length faces) (o_pcc o) (rev (o_syms o))
             (topsE (rev (o_syms o)) (EVseg_of o) (length (o_syms o))) (o_bits o) ->
  exists n s, eb_decode_of o rm = Edgebreaker.Ok (n, s) /\ eb_iso (ct_c2v t) (ct_opp t) (o_pcc o) (Edgebreaker.c2v s) (Edgebreaker.copp s).
Proof. exact ebsim_roundtrip_events_start_ct_partial. Qed.
Print Assumptions C01_ebsim_roundtrip_events_start_ct_partial.

Theorem C01_ebsim_events_count : forall c2v opp nf nv niso ndeg o tr,
  length c2v = 3 * nf -> opp_ok c2v opp -> (forall c, c < 3 * nf -> vtx c2v c < nv) -> one_fan c2v opp ->
  eb_encode_tr c2v opp nv niso ndeg = EOk (o, tr) -> length (o_events o) <= length (o_syms o).
Proof. exact events_countM. Qed.
Print Assumptions C01_ebsim_events_count.

(** ** the ledger of the runs, the start-face phase, THE GENERAL THEOREM *)
Theorem C01_ebsim_trace_ledger : forall c2v opp nf nv niso ndeg o tr,
  length c2v = 3 * nf -> opp_ok c2v opp -> (forall c, c < 3 * nf -> vtx c2v c < nv) -> one_fan c2v opp ->
  eb_encode_tr c2v opp nv niso ndeg = EOk (o, tr) -> length tr <= NF c2v ->
  exists sF bits inits, o_bits o = rev bits /\ o_pcc o = pcc sF ++ rev inits /\ o_syms o = rev (syms sF) /\ o_events o = rev (evs sF) /\
    JGOOD c2v opp (rev tr) sF bits inits.
Proof. exact trace_ledger. Qed.
Print Assumptions C01_ebsim_trace_ledger.

Theorem C01_ebsim_start_ok : forall c2v opp nf nv niso ndeg o tr,
  length c2v = 3 * nf -> opp_ok c2v opp -> (forall c, c < 3 * nf -> vtx c2v c < nv) -> one_fan c2v opp ->
  eb_encode_tr c2v opp nv niso ndeg = EOk (o, tr) ->
  start_ok_g c2v opp nf (o_pcc o) (rev (o_syms o)) (topsE (rev (o_syms o)) (EVseg_of o) (length (o_syms o))) (o_bits o).
Proof. exact start_allM. Qed.
Print Assumptions C01_ebsim_start_ok.

Theorem C01_ebsim_roundtrip : forall c2v opp nf nv niso ndeg o rm maxv,
  length c2v = 3 * nf -> opp_ok c2v opp -> (forall c, c < 3 * nf -> vtx c2v c < nv) -> one_fan c2v opp ->
  eb_encode c2v opp nv niso ndeg = EOk o ->
  (Z.of_nat (length (o_syms o)) < 2147483648)%Z -> (cntv (rev (o_syms o)) <= maxv)%Z ->
  let F := Z.of_nat (length (o_pcc o)) in
  exists n s, Edgebreaker.eb_core (3 * F) maxv F rm (rev (o_syms o)) (o_events o) (Edgebreaker.bits_of_list (o_bits o)) = Edgebreaker.Ok (n, s) /\
              eb_iso c2v opp (o_pcc o) (Edgebreaker.c2v s) (Edgebreaker.copp s).
Proof. exact ebsim_roundtrip. Qed.
Print Assumptions C01_ebsim_roundtrip.

Theorem C01_ebsim_roundtrip_ct : forall faces t o rm, ct_create faces = Some t -> eb_encode_ct t = EOk o ->
  (Z.of_nat (3 * length faces + length (ct_vcorn t)) < 2147483648)%Z ->
  ((3 * o_nfaces o) / 2 <= (o_nverts o * (o_nverts o - 1)) / 2)%Z ->
  exists n s, eb_decode_of o rm = Edgebreaker.Ok (n, s) /\ eb_iso (ct_c2v t) (ct_opp t) (o_pcc o) (Edgebreaker.c2v s) (Edgebreaker.copp s).
Proof. exact ebsim_roundtrip_ct. Qed.
Print Assumptions C01_ebsim_roundtrip_ct.

Theorem C01_ebsim_trace : forall c2v opp nf nv niso ndeg o tr rm maxv,
  length c2v = 3 * nf -> opp_ok c2v opp -> (forall c, c < 3 * nf -> vtx c2v c < nv) -> one_fan c2v opp ->
  eb_encode_tr c2v opp nv niso ndeg = EOk (o, tr) ->
  (Z.of_nat (length (o_syms o)) < 2147483648)%Z -> (cntv (rev (o_syms o)) <= maxv)%Z ->
  let ns := length (o_syms o) in
  let NC := (3 * Z.of_nat (length (o_pcc o)))%Z in
  length tr = ns /\
  forall i cf, nth_error tr i = Some cf ->
    length (syms (cf_st cf)) = i /\
    exists d, Edgebreaker.sym_loop NC maxv rm (Z.of_nat ns) (firstn (ns - i) (rev (o_syms o))) 0 (Edgebreaker.init_st (o_events o)) = Edgebreaker.Ok d /\
              simM c2v opp o tr NC maxv cf d.
Proof. exact ebsim_trace. Qed.
Print Assumptions C01_ebsim_trace.

Theorem C01_ebsim_ndp_check_sound : forall opp tr, ndp_b opp tr = true -> ndp opp tr.
Proof. exact ndp_b_sound. Qed.
Print Assumptions C01_ebsim_ndp_check_sound.

(** ** Examples: the classes are inhabited by real meshes; the trace on the Examples of Properties_EBENC.v *)
Definition in_class (cls : enc_out -> bool) faces : option (bool * bool * bool) :=
  match ct_create faces with
  | Some t => match eb_encode_ct t with
              | EOk o => Some (cls o, (cntv (rev (o_syms o)) <=? o_nverts o + o_nsplit o)%Z,
                               ((3 * o_nfaces o) / 2 <=? (o_nverts o * (o_nverts o - 1)) / 2)%Z)
              | _ => None
              end
  | None => None
  end.
Definition strip6 := [(0,1,2);(2,1,3);(2,3,4);(4,3,5);(4,5,6);(6,5,7)].
Definition fan5 := [(0,1,2);(0,2,3);(0,3,4);(0,4,5);(0,5,6)].
Definition two_components := [(0,1,2);(2,1,3);(10,11,12)].
Definition grid (w h : nat) (wrap : bool) : list (nat * nat * nat) :=
  let cols := if wrap then w else S w in let rows := if wrap then h else S h in
  let id x y := (Nat.modulo y rows) * cols + Nat.modulo x cols in
  flat_map (fun y => flat_map (fun x => [(id x y, id (S x) y, id (S x) (S y)); (id x y, id (S x) (S y), id x (S y))])
                              (seq 0 w)) (seq 0 h).

(** class E/R/L with its premises (class, verts_fit, guard G3): a strip of 6 faces, a fan, two components *)
Example ebsim_ERL_strip6 : in_class class_ERL strip6 = Some (true, true, true).
Proof. vm_compute. reflexivity. Qed.
Example ebsim_ERL_fan5 : in_class class_ERL fan5 = Some (true, true, true).
Proof. vm_compute. reflexivity. Qed.
Example ebsim_ERL_two_components : in_class class_ERL two_components = Some (true, true, true).
Proof. vm_compute. reflexivity. Qed.
(** class C/E/R/L: a closed fan around an interior vertex *)
Definition wheel6 := [(0,1,2);(0,2,3);(0,3,4);(0,4,5);(0,5,6);(0,6,1)].
Example ebsim_CERL_wheel6 : in_class class_CERL wheel6 = Some (true, true, true) /\ in_class class_ERL wheel6 = Some (false, true, true).
Proof. vm_compute. split; reflexivity. Qed.
(** class C/E/R/L with an interior start face: closed surfaces - a tetrahedron, an octahedron *)
Example ebsim_CERL_tetrahedron : in_class class_CERL [(0,1,2); (0,3,1); (1,3,2); (2,3,0)] = Some (true, true, true).
Proof. vm_compute. reflexivity. Qed.
Example ebsim_CERL_octahedron :
  in_class class_CERL [(0,1,2);(0,2,3);(0,3,4);(0,4,1);(5,2,1);(5,3,2);(5,4,3);(5,1,4)] = Some (true, true, true).
Proof. vm_compute. reflexivity. Qed.
(** outside the classes proved so far (symbol S): a 3x3 grid disc, a torus *)
Example ebsim_CERL_not_grid3x3 : in_class class_CERL (grid 3 3 false) = Some (false, true, true).
Proof. vm_compute. reflexivity. Qed.
Example ebsim_CERL_not_torus : in_class class_CERL (grid 3 3 true) = Some (false, true, true).
Proof. vm_compute. reflexivity. Qed.

(** the trace: its erasure is the big-step output, one configuration per symbol, configuration i = (corner i, i symbols so far,
    the corner stack) *)
Definition trace_summary faces :=
  match ct_create faces with
  | Some t => match eb_encode_ct_tr t, eb_encode_ct t with
              | EOk (o, tr), EOk o' =>
                Some (map (fun cf => (cf_corner cf, length (syms (cf_st cf)), length (stack (cf_st cf)))) tr,
                      (length tr =? length (o_syms o)), (o_syms o, o_pcc o), (o_syms o', o_pcc o'))
              | _, _ => None
              end
  | None => None
  end.
Example ebsim_trace_tetrahedron :
  trace_summary [(0,1,2); (0,3,1); (1,3,2); (2,3,0)] =
  Some ([(10, 0, 1); (6, 1, 1); (3, 2, 1)], true, ([0; 5; 7]%Z, [3; 6; 10; 1]), ([0; 5; 7]%Z, [3; 6; 10; 1])).
Proof. vm_compute. reflexivity. Qed.
Example ebsim_trace_torus_stack :
  match trace_summary (grid 3 3 true) with
  | Some (l, b, x, y) => (map (fun x => snd x) l, b) = ([1;1;1;1;1;1;1;2;2;2;3;4;4;4;5;4;3], true) /\ x = y
  | None => False
  end.
Proof. vm_compute. split; reflexivity. Qed.
Example ebsim_trace_grid_with_hole_stack :
  match trace_summary (firstn 8 (grid 3 3 false) ++ skipn 10 (grid 3 3 false)) with
  | Some (l, b, x, y) => (map (fun x => snd x) l, b) = ([1;2;2;2;3;2;2;2;2;2;2;2;3;2;2;2], true) /\ x = y
  | None => False
  end.
Proof. vm_compute. split; reflexivity. Qed.

(** the no-event class with S symbols: grid discs; the premise [ndp] holds on their traces; a grid with a hole has a split event *)
Definition in_noev faces :=
  match ct_create faces with
  | Some t => match eb_encode_ct_tr t with
              | EOk (o, tr) => Some (existsb (Z.eqb 1) (o_syms o), class_noev1 o, ndp_b (ct_opp t) tr)
              | _ => None
              end
  | None => None
  end.
Example ebsim_noev_grid3x3 : in_noev (grid 3 3 false) = Some (true, true, true).
Proof. vm_compute. reflexivity. Qed.
Example ebsim_noev_grid4x4 : in_noev (grid 4 4 false) = Some (true, true, true).
Proof. vm_compute. reflexivity. Qed.
Example ebsim_noev_not_grid_with_hole : in_noev (firstn 8 (grid 3 3 false) ++ skipn 10 (grid 3 3 false)) = Some (true, false, false).
Proof. vm_compute. reflexivity. Qed.

(** the instances of [C01_ebsim_roundtrip_no_event_partial] on the grid discs, executed, with the vertex compaction
    (remove_invalid_vertices = true) and without *)
Definition noev_roundtrip faces (rm : bool) :=
  match ct_create faces with
  | Some t => match eb_encode_ct t with
              | EOk o => Some (eb_roundtrip_b (ct_c2v t) (ct_opp t) o rm)
              | _ => None
              end
  | None => None
  end.
Example ebsim_noev_grid3x3_compaction : noev_roundtrip (grid 3 3 false) true = Some true /\ noev_roundtrip (grid 3 3 false) false = Some true.
Proof. vm_compute. split; reflexivity. Qed.
Example ebsim_noev_grid4x4_compaction : noev_roundtrip (grid 4 4 false) true = Some true /\ noev_roundtrip (grid 4 4 false) false = Some true.
Proof. vm_compute. split; reflexivity. Qed.

(** [class_noev] (no split event, one run, #E = #S + 1) on the Examples *)
Definition in_class_noev faces :=
  match ct_create faces with
  | Some t => match eb_encode_ct t with EOk o => Some (class_noev o) | _ => None end
  | None => None
  end.
Example ebsim_class_noev_grids : in_class_noev (grid 3 3 false) = Some true /\ in_class_noev (grid 4 4 false) = Some true /\
  in_class_noev (firstn 8 (grid 3 3 false) ++ skipn 10 (grid 3 3 false)) = Some false.
Proof. vm_compute. repeat split; reflexivity. Qed.

(** the class "no split event" with several components that contain S symbols: two grid discs (the second one on the
    vertices 100..), a grid disc next to a tetrahedron; the decoder executed on them *)
Definition shift_faces (d : nat) (l : list (nat * nat * nat)) := map (fun f => match f with (a, b, c) => (a + d, b + d, c + d) end) l.
Definition noevent_info faces :=
  match ct_create faces with
  | Some t => match eb_encode_ct t with
              | EOk o => Some (match o_events o with [] => true | _ => false end, length (o_bits o), existsb (Z.eqb 1) (o_syms o),
                               eb_roundtrip_b (ct_c2v t) (ct_opp t) o true, eb_roundtrip_b (ct_c2v t) (ct_opp t) o false)
              | _ => None
              end
  | None => None
  end.
Example ebsim_noevent_two_grids : noevent_info (grid 3 3 false ++ shift_faces 100 (grid 4 4 false)) = Some (true, 2, true, true, true).
Proof. vm_compute. reflexivity. Qed.
Example ebsim_noevent_grid_and_tetrahedron :
  noevent_info (grid 3 3 false ++ [(50,51,52);(50,53,51);(51,53,52);(52,53,50)]) = Some (true, 2, true, true, true).
Proof. vm_compute. reflexivity. Qed.

(** encodings WITH split events pass the script check [class_script], so [C01_ebsim_roundtrip_events_checked] applies to them:
    a 3x3 and a 4x5 torus (2 events each), a 3x3 disc with a hole (1 event), a 5x5 disc with two holes (2 events);
    encodings without events pass it too *)
Definition script_info faces :=
  match ct_create faces with
  | Some t => match eb_encode_ct t with
              | EOk o => Some (class_script (ct_c2v t) (ct_opp t) (length faces) o, length (o_events o), length (o_bits o))
              | _ => None
              end
  | None => None
  end.
Example ebsim_events_torus : script_info (grid 3 3 true) = Some (true, 2, 1) /\ script_info (grid 4 5 true) = Some (true, 2, 1).
Proof. vm_compute. split; reflexivity. Qed.
Example ebsim_events_grid_with_hole : script_info (firstn 8 (grid 3 3 false) ++ skipn 10 (grid 3 3 false)) = Some (true, 1, 1).
Proof. vm_compute. reflexivity. Qed.
Example ebsim_events_grid_two_holes :
  script_info (firstn 13 (grid 5 5 false) ++ skipn 15 (firstn 30 (grid 5 5 false)) ++ skipn 33 (grid 5 5 false)) = Some (true, 2, 1).
Proof. vm_compute. reflexivity. Qed.
Example ebsim_events_check_no_event : script_info (grid 4 4 false) = Some (true, 0, 1) /\
  script_info (grid 3 3 false ++ shift_faces 100 (grid 4 4 false)) = Some (true, 0, 2).
Proof. vm_compute. split; reflexivity. Qed.
(** several components WITH events (a torus next to a disc with a hole: 3 events, 2 start-face bits), a torus with a hole *)
Example ebsim_events_components :
  script_info (grid 3 3 true ++ shift_faces 100 (firstn 8 (grid 3 3 false) ++ skipn 10 (grid 3 3 false))) = Some (true, 3, 2) /\
  script_info (skipn 2 (grid 4 4 true)) = Some (true, 2, 1).
Proof. vm_compute. split; reflexivity. Qed.

(** the class of [C01_ebsim_roundtrip_events_1_ct] (one start-face bit, ANY split events) with its premises: both tori, the
    disc with a hole, the disc with two holes and the torus with a hole are in it (events, bits, and the numeric conditions:
    size, G3 - the premises - and |events| <= faces, cntv <= vertices + splits, which are proved consequences) *)
Definition events1_info faces :=
  match ct_create faces with
  | Some t => match eb_encode_ct t with
              | EOk o => Some (length (o_events o), length (o_bits o) =? 1,
                               (Z.of_nat (3 * length faces + length (ct_vcorn t)) <? 2147483648)%Z &&
                               ((3 * o_nfaces o) / 2 <=? (o_nverts o * (o_nverts o - 1)) / 2)%Z &&
                               (Z.of_nat (length (o_events o)) <=? o_nfaces o)%Z &&
                               (cntv (rev (o_syms o)) <=? o_nverts o + o_nsplit o)%Z)
              | _ => None
              end
  | None => None
  end.
Example ebsim_events1_torus : events1_info (grid 3 3 true) = Some (2, true, true) /\ events1_info (grid 4 5 true) = Some (2, true, true).
Proof. vm_compute. split; reflexivity. Qed.
Example ebsim_events1_grid_with_hole : events1_info (firstn 8 (grid 3 3 false) ++ skipn 10 (grid 3 3 false)) = Some (1, true, true).
Proof. vm_compute. reflexivity. Qed.
Example ebsim_events1_two_holes_and_torus_with_hole :
  events1_info (firstn 13 (grid 5 5 false) ++ skipn 15 (firstn 30 (grid 5 5 false)) ++ skipn 33 (grid 5 5 false)) = Some (2, true, true) /\
  events1_info (skipn 2 (grid 4 4 true)) = Some (2, true, true).
Proof. vm_compute. split; reflexivity. Qed.

(** instances of THE GENERAL THEOREM [C01_ebsim_roundtrip_ct] with events AND several start faces: two tori in one mesh (4 events,
    2 bits), a torus plus a disc (2 events, 2 bits), a torus plus a disc with a hole (3 events): the two premises (size, G3)
    hold, and - executed - DecodeConnectivity accepts the encoder's stream with a table isomorphic to the encoder's, with and
    without the vertex compaction *)
Definition general_info faces :=
  match ct_create faces with
  | Some t => match eb_encode_ct t with
              | EOk o => Some (length (o_events o), length (o_bits o),
                               (Z.of_nat (3 * length faces + length (ct_vcorn t)) <? 2147483648)%Z &&
                               ((3 * o_nfaces o) / 2 <=? (o_nverts o * (o_nverts o - 1)) / 2)%Z,
                               eb_roundtrip_b (ct_c2v t) (ct_opp t) o true && eb_roundtrip_b (ct_c2v t) (ct_opp t) o false)
              | _ => None
              end
  | None => None
  end.
Example ebsim_general_two_tori : general_info (grid 3 3 true ++ shift_faces 100 (grid 4 5 true)) = Some (4, 2, true, true).
Proof. vm_compute. reflexivity. Qed.
Example ebsim_general_torus_and_disc : general_info (grid 3 3 true ++ shift_faces 100 (grid 3 3 false)) = Some (2, 2, true, true).
Proof. vm_compute. reflexivity. Qed.
Example ebsim_general_torus_and_disc_with_hole :
  general_info (grid 3 3 true ++ shift_faces 100 (firstn 8 (grid 3 3 false) ++ skipn 10 (grid 3 3 false))) = Some (3, 2, true, true).
Proof. vm_compute. reflexivity. Qed.


(** ** The connectivity round trip at the level of BYTES (standard traversal): EBENC o TRAV o EB composed.
    For every triangle list: if the model of MeshEdgebreakerEncoderImpl::EncodeConnectivity succeeds, its symbols / start-face
    bits (and any attribute seam bits) are written by the traversal encoder and framed by EncodeConnectivity's header and
    split-event block into [bs], then - whatever follows [bs] - DecodeConnectivity's framing accepts exactly the header and
    the events written and leaves [rest]; draining the traversal decoder yields the reversed symbols, the bits and the seams;
    and the connectivity state machine run on what was drained accepts and rebuilds a corner table isomorphic to the
    encoder's.  Premises besides encoder success: the 2^31 size bound, guard G3 (as in [C01_ebsim_roundtrip_ct]) and the
    bit-sequence length bound of TRAV for the attribute seam sequences (fewer than 2^32 - 3 bits each); for the start-face
    bits the bound is proved ([C01_ebenc_start_bits_bounded]: at most one bit per corner of the input). *)
Theorem C01_ebenc_start_bits_bounded : forall c2v opp nv niso ndeg o, eb_encode c2v opp nv niso ndeg = EOk o ->
  length (o_bits o) <= length c2v.
Proof. exact eb_encode_bits_le. Qed.
Print Assumptions C01_ebenc_start_bits_bounded.

Theorem C01_eb_connectivity_stream_roundtrip : forall faces t o rm seams trav bs rest,
  ct_create faces = Some t -> eb_encode_ct t = EOk o ->
  (Z.of_nat (3 * length faces + length (ct_vcorn t)) < 2147483648)%Z ->
  ((3 * o_nfaces o) / 2 <= (o_nverts o * (o_nverts o - 1)) / 2)%Z ->
  Forall bits_len_ok seams ->
  enc_trav_std (o_nfaces o) (o_syms o) (o_bits o) seams = Some trav ->
  enc_conn (hdr_of o (zlen seams)) (o_events o) trav = Some bs ->
  exists d syms' bits' seams',
    dec_conn (bs ++ rest) = VOk (hdr_of o (zlen seams), o_events o, TStd d, rest) /\
    drain_std (length (o_syms o)) (length (o_bits o)) (map (@length bool) seams) d = (syms', bits', seams') /\
    seams' = seams /\
    exists n s,
      Edgebreaker.eb_full (o_nverts o) (o_nfaces o) (o_nsplit o) rm syms' (o_events o) (Edgebreaker.bits_of_list bits')
        = Edgebreaker.Ok (n, s) /\
      eb_iso (ct_c2v t) (ct_opp t) (o_pcc o) (Edgebreaker.c2v s) (Edgebreaker.copp s).
Proof. exact eb_connectivity_stream_roundtrip'. Qed.
Print Assumptions C01_eb_connectivity_stream_roundtrip.

Definition stream_info faces (seams : list (list bool)) :=
  match ct_create faces with
  | Some t => match eb_encode_ct t with
    | EOk o =>
      match enc_trav_std (o_nfaces o) (o_syms o) (o_bits o) seams with
      | Some trav => match enc_conn (hdr_of o (zlen seams)) (o_events o) trav with
        | Some bs => Some (length (o_events o), length (o_bits o),
                           (Z.of_nat (3 * length faces + length (ct_vcorn t)) <? 2147483648)%Z &&
                           ((3 * o_nfaces o) / 2 <=? (o_nverts o * (o_nverts o - 1)) / 2)%Z &&
                           (zlen (o_bits o) + 3 <? 2 ^ 32)%Z && forallb (fun b => (zlen b + 3 <? 2 ^ 32)%Z) seams,
                           match dec_conn (bs ++ [7; 7; 7]%Z) with VOk (_, evs, TStd _, r) => (length evs, r) | _ => (0, []) end)
        | None => None end
      | None => None end
    | _ => None end
  | None => None
  end.
(** two tori (4 events, 2 start faces) with one attribute seam sequence: every premise holds, and - executed - the framing
    decoder returns the 4 events and leaves the 3 trailing bytes *)
Example ebstream_two_tori :
  stream_info (grid 3 3 true ++ shift_faces 100 (grid 4 5 true)) [[true; false; true; true]] = Some (4, 2, true, (4, [7; 7; 7]%Z)).
Proof. vm_compute. reflexivity. Qed.
