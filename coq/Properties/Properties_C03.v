(** C03 — a successfully decoded geometry is structurally valid.

    PROVED for the sequential decoders on ARBITRARY byte strings (valid streams and corrupted ones alike), any
    skip-transform option: whenever the model decoder accepts, every face names three existing points and every
    attribute holds exactly num_points values of exactly its declared number of components (so every accessor read
    is in bounds).  The mesh statement holds because of the index check added by the D3 fix.
    Edgebreaker and kd-tree decoders: search only (validity checker over everything any decoder accepts, under ASan). *)
From Draco Require Import Base.Codec Model.Varint Model.Metadata Model.SeqAttr Model.SeqCodec Model.SeqCodecInst
  Proofs.SeqAttr_proofs Proofs.SeqCodec_proofs Proofs.SeqCodecInst_proofs.
Local Open Scope Z_scope.

Theorem C03_seq_point_cloud_decode_valid : forall skip bs g rest, i_dec_pc_seq skip bs = Some (g, rest) ->
  Forall (att_valid (Z.to_nat (dp_npoints g))) (dp_atts g).
Proof. exact seq_pc_decode_valid_inst. Qed.
Print Assumptions C03_seq_point_cloud_decode_valid.

Theorem C03_seq_mesh_decode_valid : forall skip bs g rest, i_dec_mesh_seq skip bs = Some (g, rest) ->
  (forall a b c, In (a, b, c) (dm_faces g) -> a < dm_npoints g /\ b < dm_npoints g /\ c < dm_npoints g) /\
  Forall (att_valid (Z.to_nat (dm_npoints g))) (dm_atts g).
Proof. exact seq_mesh_decode_valid_inst. Qed.
Print Assumptions C03_seq_mesh_decode_valid.

(** the check is not vacuous: the model decoder accepts real streams (see the correspondence), e.g. *)
Example C03_example_accepts :
  exists g, i_dec_mesh_seq (fun _ => false)
     [68;82;65;67;79;2;2;1;0;0;0; 1;3;1; 0;1;2; 0] = Some (g, []) /\ dm_faces g = [(0, 1, 2)] /\ dm_npoints g = 3.
Proof. eexists. vm_compute. repeat split; reflexivity. Qed.
Example C03_example_rejects_dangling_index :
  i_dec_mesh_seq (fun _ => false) [68;82;65;67;79;2;2;1;0;0;0; 1;3;1; 0;1;200; 0] = None.
Proof. vm_compute. reflexivity. Qed.
