(** C12 — explicit quantization maps equal coordinates to equal decoded values.
    This file only restates theorems proved in Proofs/ and prints their assumptions.

    Model: Model/Quantize.v (AttributeQuantizationTransform as called by the sequential, Edgebreaker
    and kd-tree encoders; InverseTransformAttribute and the kd-tree decoder's own dequantization loop).
    The parameters are the ones that reach SetParameters / are stored in the stream (the text round
    trip of explicit parameters through Options is outside the model: known finding D13).
    Not covered by these theorems (searched end to end only): that the integer coders between
    GeneratePortableAttribute and the dequantization loop are lossless (C01/C20), and for Edgebreaker
    the connectivity hypothesis of C01. *)
From Coq Require Import Reals.
From Flocq Require Import Core Binary.
From Draco Require Import Base.Codec Base.Float32 Model.Quantize Proofs.Quantize_proofs Proofs.Quantize_error.
Local Open Scope Z_scope.

(** Over a whole attribute: entry [i], component [c] of decode(encode(values)) is
    [requant_f origin_c range bits x] of the coordinate x at the same place: a function of x and the
    three parameters only — not of the other values, their number or their order. *)
Theorem C12_explicit_quant_pure : forall p rows words back,
  quantization_valid (qp_bits p) = true ->
  generate_portable p rows = Ok words ->
  inverse_transform p words = Ok back ->
  length back = length rows /\
  forall i row, nth_error rows i = Some row ->
    exists brow, nth_error back i = Some brow /\ length brow = length row /\
    forall c x, nth_error row c = Some x ->
      exists o d, nth_error (qp_min p) c = Some o /\ nth_error brow c = Some d /\
                  requant_f o (qp_range p) (qp_bits p) x = Ok d.
Proof. exact explicit_quant_pure_nth. Qed.
Print Assumptions C12_explicit_quant_pure.

(** The same when the decoder is the kd-tree one (its separately written loop). *)
Theorem C12_explicit_quant_pure_kd : forall p rows words back,
  quantization_valid (qp_bits p) = true ->
  generate_portable p rows = Ok words ->
  kd_inverse_transform p words = Ok back ->
  length back = length rows /\
  forall i row, nth_error rows i = Some row ->
    exists brow, nth_error back i = Some brow /\ length brow = length row /\
    forall c x, nth_error row c = Some x ->
      exists o d, nth_error (qp_min p) c = Some o /\ nth_error brow c = Some d /\
                  requant_f o (qp_range p) (qp_bits p) x = Ok d.
Proof. exact explicit_quant_pure_nth_kd. Qed.
Print Assumptions C12_explicit_quant_pure_kd.

(** The encoder may visit the values through any point-id list (order, repetitions). *)
Theorem C12_explicit_quant_pure_any_order : forall p rows ids words back,
  quantization_valid (qp_bits p) = true ->
  generate_portable_ids p rows ids = Ok words ->
  inverse_transform p words = Ok back ->
  length back = length ids /\
  forall i j row, nth_error ids i = Some j -> nth_error rows j = Some row ->
    exists brow, nth_error back i = Some brow /\ length brow = length row /\
    forall c x, nth_error row c = Some x ->
      exists o d, nth_error (qp_min p) c = Some o /\ nth_error brow c = Some d /\
                  requant_f o (qp_range p) (qp_bits p) x = Ok d.
Proof. exact explicit_quant_pure_ids. Qed.
Print Assumptions C12_explicit_quant_pure_any_order.

(** The whole pipeline is literally the map of the per-row function. *)
Theorem C12_pipeline_is_pointwise : forall p rows words,
  quantization_valid (qp_bits p) = true ->
  generate_portable p rows = Ok words ->
  inverse_transform p words = rmap (requant_row (qp_min p) (qp_range p) (qp_bits p)) rows.
Proof. exact pipeline_is_pointwise. Qed.
Print Assumptions C12_pipeline_is_pointwise.

(** Decoded values lie on the grid: with the stored integer k,
    decoded = fl( fl( fl(k) * fl(range / fl(2^bits-1)) ) + origin ), all operations binary32 RNE.
    This form holds for any parameters and any x for which the conversion is defined; the bounds on k
    are in [C12_on_grid_bounded]. *)
Theorem C12_on_grid : forall o r b x d,
  quantization_valid b = true ->
  requant_f o r b x = Ok d ->
  exists k, quant_f o r b x = Ok k /\ in_i32 k = true /\
            d = fadd (fmul (f32_of_Z k) (fdiv r (f32_of_Z (2 ^ b - 1)))) o.
Proof. exact on_grid_struct. Qed.
Print Assumptions C12_on_grid.

(** Inside the window (2^-20 <= range <= 2^30, |origin| <= 2^30) and the box, the conversion is defined
    and the grid index is in 0 .. 2^bits-1+slack, slack = 2^(bits-21) (0 up to 20 bits). *)
Theorem C12_on_grid_bounded : forall (o r x : f32) (b : Z),
  quantization_valid b = true -> in_window o r -> is_finite 24 128 x = true ->
  (B2R 24 128 o <= B2R 24 128 x <= B2R 24 128 o + B2R 24 128 r)%R ->
  exists k d, requant_f o r b x = Ok d /\ quant_f o r b x = Ok k /\
    0 <= k <= 2 ^ b - 1 + quant_slack b /\
    d = fadd (fmul (f32_of_Z k) (fdiv r (f32_of_Z (2 ^ b - 1)))) o.
Proof. exact on_grid. Qed.
Print Assumptions C12_on_grid_bounded.

(** Two geometries encoded separately with the same parameters (one decoded by the sequential /
    Edgebreaker path, the other by the kd-tree path) agree bit for bit wherever they share a value. *)
Theorem C12_shared_vertex_agree : forall p rows1 rows2 words1 words2 back1 back2 i j row,
  quantization_valid (qp_bits p) = true ->
  generate_portable p rows1 = Ok words1 -> inverse_transform p words1 = Ok back1 ->
  generate_portable p rows2 = Ok words2 -> kd_inverse_transform p words2 = Ok back2 ->
  nth_error rows1 i = Some row -> nth_error rows2 j = Some row ->
  nth_error back1 i = nth_error back2 j /\ nth_error back1 i <> None.
Proof. exact shared_vertex_agree. Qed.
Print Assumptions C12_shared_vertex_agree.

(** The kd-tree decoder's dequantization loop (integers read as uint32_t) and
    InverseTransformAttribute (read as int32_t) are the same function — on every 32-bit word,
    in particular on 0 <= k < 2^31, where both read k itself. *)
Theorem C12_kd_dequant_eq_seq_dequant : forall p words,
  kd_inverse_transform p words = inverse_transform p words.
Proof. exact kd_inverse_eq_inverse. Qed.
Print Assumptions C12_kd_dequant_eq_seq_dequant.

Theorem C12_kd_read_small : forall k, 0 <= k < 2 ^ 31 -> kd_read k = k /\ seq_read k = k.
Proof. intros k H. rewrite kd_read_eq_seq_read. split; apply seq_read_small; exact H. Qed.
Print Assumptions C12_kd_read_small.

(** The parameters the decoder uses are the ones the encoder stored (bit for bit, NaN payloads
    included), whatever follows the block; the kd-tree decoder's own parser agrees on every input. *)
Theorem C12_params_roundtrip : forall p bs rest,
  quantization_valid (qp_bits p) = true ->
  encode_parameters p = Some bs ->
  decode_parameters (length (qp_min p)) (bs ++ rest) = Some (p, rest).
Proof. exact params_roundtrip. Qed.
Print Assumptions C12_params_roundtrip.

Theorem C12_kd_params_eq : forall nc bs, kd_decode_parameters nc bs = decode_parameters nc bs.
Proof. exact kd_decode_parameters_eq. Qed.
Print Assumptions C12_kd_params_eq.

(** Non-vacuity.  origin 1.0, range 2.0, 10 bits: the attribute [1.0; 2.5; 3.0] and, separately, the
    attribute [3.0; 7.25(outside the box); 2.5] in another order: 2.5 decodes to 0x403FF7FE in both. *)
Definition ex_p := mk_qparams 10 [f32_of_bits 1065353216] (f32_of_bits 1073741824).
Definition ex_rows1 := map (fun b => [f32_of_bits b]) [1065353216; 1075838976; 1077936128].
Definition ex_rows2 := map (fun b => [f32_of_bits b]) [1077936128; 1088946176; 1075838976].
Example C12_example :
  quantization_valid (qp_bits ex_p) = true /\
  generate_portable ex_p ex_rows1 = Ok [[0]; [767]; [1023]] /\
  generate_portable ex_p ex_rows2 = Ok [[1023]; [3197]; [767]] /\
  (rdo v <- inverse_transform ex_p [[0]; [767]; [1023]]; Ok (map obs_row v))
     = Ok [[1065353216]; [1075836926]; [1077936128]] /\
  (rdo v <- kd_inverse_transform ex_p [[1023]; [3197]; [767]]; Ok (map obs_row v))
     = Ok [[1077936128]; [1088946688]; [1075836926]] /\
  (rdo v <- requant_f (f32_of_bits 1065353216) (f32_of_bits 1073741824) 10 (f32_of_bits 1075838976); Ok (obs_bits v))
     = Ok 1075836926.
Proof. vm_compute. repeat split; reflexivity. Qed.
