(** C13 — the corner table built from any triangle list is a consistent manifold structure.
    This file only restates theorems proved in Proofs/CornerTable_proofs.v and prints their assumptions.
    [ct_create] is the model of CornerTable::Create (Model/CornerTable.v); all statements are for ALL
    triangle lists. *)
From Coq Require Import List Arith.
Import ListNotations.
From Draco Require Import Model.CornerTable Proofs.CornerTable_proofs.

(** THE PROPERTY, in one statement (all four clauses, for every triangle list, about the table Create returns). *)
Theorem C13_corner_table_consistent : forall faces,
  exists t, ct_create faces = Some t /\
    let V0 := vtx (c2v_of_faces faces) in
    let V := vtx (ct_c2v t) in
    let opp := opp_at (ct_opp t) in
    let sr := swing_right (ct_opp t) in
    let sl := swing_left (ct_opp t) in
    let n := 3 * length faces in
    (forall a b, opp a = Some b ->
       opp b = Some a /\ a <> b /\ a < n /\ b < n /\
       V (next_c a) = V (prev_c b) /\ V (prev_c a) = V (next_c b) /\ V a <> V b) /\
    (forall c, is_degenerated (c2v_of_faces faces) (c / 3) = true -> opp c = None) /\
    (forall c, c < n -> vertex_parent t (V c) = V0 c) /\
    (forall c, c < n -> is_degenerated (c2v_of_faces faces) (c / 3) = false ->
       exists l, nth (V c) (ct_vcorn t) None = Some l /\ reach sr l c) /\
    (forall v l, nth v (ct_vcorn t) None = Some l ->
       V l = v /\ (sl l = None \/ exists k, 1 <= k /\ oiter sr k (Some l) = Some l) /\
       forall x, reach sr l x -> V x = v).
Proof. exact corner_table_consistent. Qed.
Print Assumptions C13_corner_table_consistent.

(** Clause 1a: the opposite relation is a symmetric pairing of distinct, existing corners. *)
Theorem C13_opp_symmetric : forall faces t a b,
  ct_create faces = Some t -> opp_at (ct_opp t) a = Some b ->
  opp_at (ct_opp t) b = Some a /\ a <> b /\ a < 3 * length faces /\ b < 3 * length faces.
Proof. exact opp_symmetric. Qed.
Print Assumptions C13_opp_symmetric.

(** Clause 1b: opposite corners face each other across one shared edge traversed in opposite directions
    and their tips differ (mirrored faces are not connected): in the input ids [V], and in the final
    table through VertexParent [P]; [C13_opp_shared_edge_final] below: in the final (rewritten) ids. *)
Theorem C13_opp_shared_edge_opposed : forall faces t a b,
  ct_create faces = Some t -> opp_at (ct_opp t) a = Some b ->
  let V := vtx (c2v_of_faces faces) in
  let P := fun c => vertex_parent t (vtx (ct_c2v t) c) in
  (V (next_c a) = V (prev_c b) /\ V (prev_c a) = V (next_c b) /\ V a <> V b) /\
  (P (next_c a) = P (prev_c b) /\ P (prev_c a) = P (next_c b) /\ P a <> P b).
Proof. exact opp_shared_edge_opposed. Qed.
Print Assumptions C13_opp_shared_edge_opposed.

(** Clause 2: corners of degenerate faces are unlinked, in both directions. *)
Theorem C13_degenerate_unlinked : forall faces t c,
  ct_create faces = Some t -> is_degenerated (c2v_of_faces faces) (c / 3) = true ->
  opp_at (ct_opp t) c = None /\ forall a, opp_at (ct_opp t) a <> Some c.
Proof. exact degenerate_unlinked. Qed.
Print Assumptions C13_degenerate_unlinked.

(** Clause 3: every corner maps through VertexParent to the input vertex id, to an existing vertex;
    corners of degenerate faces keep their id unchanged. *)
Theorem C13_vertex_parent_maps_back : forall faces t c,
  ct_create faces = Some t -> c < 3 * length faces ->
  vertex_parent t (vtx (ct_c2v t) c) = vtx (c2v_of_faces faces) c /\
  vtx (ct_c2v t) c < length (ct_vcorn t) /\
  (is_degenerated (c2v_of_faces faces) (c / 3) = true -> vtx (ct_c2v t) c = vtx (c2v_of_faces faces) c).
Proof. exact vertex_parent_maps_back. Qed.
Print Assumptions C13_vertex_parent_maps_back.

(** BreakNonManifoldEdges preserves clauses 1 and 2 and only removes links, in pairs. *)
Theorem C13_break_preserves : forall c2v opp opp',
  opp_ok c2v opp -> break_non_manifold_edges c2v opp = Some opp' ->
  opp_ok c2v opp' /\ sub_opp opp opp'.
Proof. exact break_preserves. Qed.
Print Assumptions C13_break_preserves.

(** Clause 1b on the final table itself (after ComputeVertexCorners rewrote the ids of split vertices). *)
Theorem C13_opp_shared_edge_final : forall faces t a b,
  ct_create faces = Some t -> opp_at (ct_opp t) a = Some b ->
  let V := vtx (ct_c2v t) in
  V (next_c a) = V (prev_c b) /\ V (prev_c a) = V (next_c b) /\ V a <> V b.
Proof. exact opp_shared_edge_final. Qed.
Print Assumptions C13_opp_shared_edge_final.

(** Clause 4: all corners of a vertex form one fan reachable from its representative corner by SwingRight
    ([reach sr l c] = c is obtained from l by iterating SwingRight); the representative is a corner of its
    own vertex in a non-degenerate face, it is the left-most corner when the fan is open (otherwise the
    fan is a closed cycle), and nothing but corners of that vertex is reached from it. *)
Theorem C13_single_fan : forall faces t,
  ct_create faces = Some t ->
  let sr := swing_right (ct_opp t) in
  let sl := swing_left (ct_opp t) in
  let V := vtx (ct_c2v t) in
  (forall c, c < 3 * length faces -> is_degenerated (c2v_of_faces faces) (c / 3) = false ->
     exists l, nth (V c) (ct_vcorn t) None = Some l /\ reach sr l c) /\
  (forall v l, nth v (ct_vcorn t) None = Some l ->
     V l = v /\ l < 3 * length faces /\ is_degenerated (c2v_of_faces faces) (l / 3) = false /\
     (sl l = None \/ exists k, 1 <= k /\ oiter sr k (Some l) = Some l) /\
     forall x, reach sr l x -> V x = v).
Proof. exact single_fan. Qed.
Print Assumptions C13_single_fan.

(** The model never runs out of fuel: every swing loop and the fix-point of BreakNonManifoldEdges terminate
    within S(number of corners) steps, for every triangle list.  So the four clauses hold of THE table. *)
Theorem C13_create_total : forall faces, exists t, ct_create faces = Some t.
Proof. exact ct_create_total. Qed.
Print Assumptions C13_create_total.

(** break_terminates: measure = number of corners never visited (each round that changes the connectivity
    visits a new one; the links themselves need not decrease).  swing_terminates: a swing along a
    consistent table is an injective partial map on the corners, so a walk repeats no corner. *)
Theorem C13_break_terminates : forall c2v nf opp,
  length c2v = 3 * nf -> opp_ok c2v opp -> exists opp', break_non_manifold_edges c2v opp = Some opp'.
Proof. exact break_terminates. Qed.
Print Assumptions C13_break_terminates.

Theorem C13_swing_terminates : forall c2v nf opp nv,
  length c2v = 3 * nf -> opp_ok c2v opp -> exists s, compute_vertex_corners c2v opp nv nf = Some s.
Proof. exact compute_vertex_corners_total. Qed.
Print Assumptions C13_swing_terminates.

(** The counters: number of original vertices, parents are original vertices, degenerate-face and
    isolated-vertex counts say what their names say. *)
Theorem C13_counters : forall faces t,
  ct_create faces = Some t ->
  ct_norig t = num_vertices_of (c2v_of_faces faces) /\
  length (ct_vcorn t) = ct_norig t + length (ct_par t) /\
  Forall (fun p => p < ct_norig t) (ct_par t) /\
  ct_ndeg t = length (filter (is_degenerated (c2v_of_faces faces)) (seq 0 (length faces))) /\
  ct_niso t = length (filter (fun o => match o with None => true | Some _ => false end) (ct_vcorn t)).
Proof. exact counters. Qed.
Print Assumptions C13_counters.

(** The model runs the literal flat vertex_edges array of ComputeOppositeCorners (per-vertex regions, first
    free slot insertion, shifting removal); it computes exactly the insertion-ordered-list matching the
    other theorems reason about, and no region overflows. *)
Theorem C13_flat_array_refines : forall c2v nf, length c2v = 3 * nf ->
  compute_opposite_flat c2v nf =
  match compute_opposite c2v nf with
  | (opp, pend, nd) => (opp, render_all (corners_on_vertices c2v) pend, nd)
  end.
Proof. exact compute_opposite_flat_refines. Qed.
Print Assumptions C13_flat_array_refines.

(** Non-vacuity: a bow-tie (vertex 0 is split, the new vertex 5 has parent 0) and an edge shared by
    three faces (two are glued, the third gets new vertices 5, 6 with parents 0, 1). *)
Example C13_example_bowtie :
  exists t, ct_create [(0,1,2); (0,3,4)] = Some t /\ ct_c2v t = [0;1;2;5;3;4] /\ ct_par t = [0] /\
            ct_vcorn t = [Some 0; Some 1; Some 2; Some 4; Some 5; Some 3].
Proof. eexists. vm_compute. repeat split. Qed.
Example C13_example_three_faces_on_an_edge :
  exists t, ct_create [(0,1,2); (1,0,3); (0,1,4)] = Some t /\
            ct_opp t = [None; None; Some 5; None; None; Some 2; None; None; None] /\
            ct_c2v t = [0;1;2;1;0;3;5;6;4] /\ ct_par t = [0;1].
Proof. eexists. vm_compute. repeat split. Qed.
Example C13_example_degenerate_and_mirrored :
  exists t, ct_create [(0,0,1); (0,1,2); (2,1,0)] = Some t /\ ct_ndeg t = 1 /\
            ct_opp t = repeat None 9.
Proof. eexists. vm_compute. repeat split. Qed.
