(** HOSTILE (search-only sub-check of C02 / C03 / C18: every single-value semantic corruption of small Edgebreaker streams through
    the full public decoder, harness/h_hostile.cc) - the one statement the search raised and that could be PROVED instead of searched.

    Open question handed to the search: DepthFirstTraverser::TraverseFromCorner (depth_first_traverser.h) continues with
    GetRightCorner(corner_id) without a test for kInvalidCornerIndex when the vertex it just visited is not IsOnBoundary(); on a
    corner table where some vertex is "interior" for IsOnBoundary() although one of its corners has no right neighbour the next
    iteration calls MarkFaceVisited(0xFFFFFFFF / 3): an out-of-range write (reproduced by instantiating the traverser directly on
    a table with degenerate faces built by CornerTable::Create, see TRAVS).  Can a STREAM make the decoder build such a table?

    Answer for the position corner table: NO.  For every declared count, symbol list, split-event list and start-face bit function -
    degenerate faces created through S (the _refuted witness of Properties_EB.v) included, and, before the guard of /repo
    a3a73f7, interior start faces glued to non-matching edges as well - the table returned by an accepted DecodeConnectivity() satisfies
        GetRightCorner(c) = kInvalidCornerIndex   ->   c = LeftMostCorner(Vertex(c))   and hence   IsOnBoundary(Vertex(c)),
    i.e. the unchecked branch is only taken with a valid right corner.  (GetRightCorner(c) = Opposite(Next(c));
    IsOnBoundary(v) = (SwingLeft(LeftMostCorner(v)) = Next(Opposite(Next(LeftMostCorner(v)))) is kInvalidCornerIndex).)
    The attribute corner tables (MeshAttributeCornerTable::RecomputeVertices on hostile seam bits) are not modelled: searched only
    (in-process probe of the harness: the same predicate + a bounds-checked copy of the traverser on every accepted table). *)
From Coq Require Import ZArith List Bool.
From Draco Require Import Model.Edgebreaker Proofs.Edgebreaker_boundary_proofs.
Import ListNotations.
Local Open Scope Z_scope.

Theorem C02_eb_right_corner_or_boundary : forall nev nf nsplit rm syms events bits n sf,
  eb_full nev nf nsplit rm syms events bits = Ok (n, sf) ->
  forall c, 0 <= c < 3 * nf -> copp sf (next_c c) = -1 ->
    vc sf (c2v sf c) = c /\ copp sf (next_c (vc sf (c2v sf c))) = -1.
Proof. exact eb_full_right_corner. Qed.
Print Assumptions C02_eb_right_corner_or_boundary.

(** the same for DecodeConnectivity(int) alone, under its caller's guard num_symbols <= num_faces *)
Theorem C02_eb_core_right_corner_or_boundary : forall nf maxv rm syms events bits n sf, 0 <= nf -> 0 <= maxv -> Z.of_nat (length syms) <= nf ->
  eb_core (3 * nf) maxv nf rm syms events bits = Ok (n, sf) ->
  forall c, 0 <= c < 3 * nf -> copp sf (next_c c) = -1 ->
    vc sf (c2v sf c) = c /\ copp sf (next_c (vc sf (c2v sf c))) = -1.
Proof. exact eb_core_right_corner. Qed.
Print Assumptions C02_eb_core_right_corner_or_boundary.

(** Examples: the hypotheses are satisfiable on exactly the hostile tables in question.
    (1) (symbols E,L,L + one interior start face glued to non-matching edges - accepted when this theorem was first proved - is
        rejected since /repo a3a73f7: Properties_EB.eb_misglued_start_face_rejected.)  A single triangle: every corner lacks a
        right corner and is the left-most corner of its vertex. *)
Example hostile_single_triangle :
  exists n s, eb_full 3 1 0 true [7] [] (fun _ => false) = Ok (n, s) /\
    faces_of 3 s = [0; 1; 2] /\
    copp s (next_c 0) = -1 /\ vc s (c2v s 0) = 0 /\ copp s (next_c 1) = -1 /\ vc s (c2v s 1) = 1.
Proof. eexists. eexists. split; [vm_compute; reflexivity|]. repeat split; vm_compute; reflexivity. Qed.

(** (2) symbols E,S + split event (1,0,right): accepted with the degenerate faces (0,0,1),(0,1,1); corner 1 has no right corner and
        is the left-most corner of vertex 0. *)
Example hostile_degenerate_faces :
  exists n s, eb_full 3 2 1 true [7; 1] [(1, 0, 1)] (fun _ => false) = Ok (n, s) /\
    faces_of 6 s = [0; 0; 1; 0; 1; 1] /\ copp s (next_c 1) = -1 /\ vc s (c2v s 1) = 1.
Proof. eexists. eexists. split; [vm_compute; reflexivity|]. repeat split; vm_compute; reflexivity. Qed.
