(** C04 — quantization error is at most half a step (+ a float32 rounding allowance).
    This file only restates theorems proved in Proofs/ and prints their assumptions.

    Model: Model/Quantize.v, bit-exact binary32 (Flocq), tied to /repo by the correspondence check.
    [requant_f o r b x] = DequantizeFloat(QuantizeFloat(x - o)) + o with the parameters (origin o,
    range r, bits b) as they reach AttributeQuantizationTransform; by C12 (Properties_C12.v) this is
    the decoded value of every coordinate for the sequential, Edgebreaker and kd-tree paths.

    What is proved, and with which constant: the float32 allowance is proved with K = 14 ulp of
    max(|x|,|min|,range) (a straightforward (1+e) error analysis of the ten roundings); the measured
    worst case is 2.24 ulp and the search on the real library checks K = 4.  K = 4 itself is NOT proved.
    Window: 2^-20 (9.5e-7) <= range <= 2^30 (1.07e9), |min| <= 2^30, bits 1..30.
    Not covered by these theorems (searched end to end only): losslessness of the integer coders between
    quantization and dequantization (C01/C20), Edgebreaker connectivity (H_conn of C01). *)
From Coq Require Import QArith Reals.
From Flocq Require Import Core Binary.
From Draco Require Import Base.Codec Base.Float32 Model.Quantize Proofs.Quantize_ideal Proofs.Quantize_error.
Local Open Scope Z_scope.

(** Exact-arithmetic core, over the rationals: for min <= x <= min+R, R > 0, q >= 1 (in particular
    1..30), the round-to-nearest index k = floor((x-min)*(2^q-1)/R + 1/2) lies in 0..2^q-1 and its grid
    point is within half a step R/(2^q-1) of x. *)
Theorem C04_ideal_half_step : forall (mn rg x : Q) (q : Z),
  (0 < rg)%Q -> 1 <= q -> (mn <= x)%Q /\ (x <= mn + rg)%Q ->
  let k := ideal_quant_Q mn rg x q in
  0 <= k <= 2 ^ q - 1 /\
  (Qabs.Qabs (ideal_deq_Q mn rg q k - x) <= rg / (2 * inject_Z (2 ^ q - 1)))%Q.
Proof. exact ideal_half_step_Q. Qed.
Print Assumptions C04_ideal_half_step.

(** The same over the reals. *)
Theorem C04_ideal_half_step_R : forall (mn rg x : R) (q : Z),
  (0 < rg)%R -> 1 <= q -> (mn <= x <= mn + rg)%R ->
  let k := ideal_quant mn rg x q in
  0 <= k <= 2 ^ q - 1 /\
  (Rabs (ideal_deq mn rg q k - x) <= rg / (2 * IZR (2 ^ q - 1)))%R.
Proof. exact ideal_half_step. Qed.
Print Assumptions C04_ideal_half_step_R.

(** The float32 statement.  For finite binary32 x, origin o, range r inside the window, b in 1..30 and
    x inside the box: the conversions are defined (no UB), the decoded value d is finite and
      |d - x| <= r / (2 (2^b - 1)) + 14 * ulp32( max(|x|, |o|, r) ).
    [half_step r b] = B2R r / (2 * (2^b-1)); [ulp32] = Flocq's ulp for binary32; [mag3] = that max. *)
Theorem C04_quant_error_f32 : forall (o r x : f32) (b : Z),
  quantization_valid b = true -> in_window o r -> is_finite 24 128 x = true ->
  (B2R 24 128 o <= B2R 24 128 x <= B2R 24 128 o + B2R 24 128 r)%R ->
  exists d, requant_f o r b x = Ok d /\ is_finite 24 128 d = true /\
    (Rabs (B2R 24 128 d - B2R 24 128 x) <= half_step r b + 14 * ulp32 (mag3 x o r))%R.
Proof. exact quant_error_f32. Qed.
Print Assumptions C04_quant_error_f32.

(** The decoded value never leaves the quantization box by more than the same allowance. *)
Theorem C04_decoded_in_box : forall (o r x : f32) (b : Z),
  quantization_valid b = true -> in_window o r -> is_finite 24 128 x = true ->
  (B2R 24 128 o <= B2R 24 128 x <= B2R 24 128 o + B2R 24 128 r)%R ->
  exists d, requant_f o r b x = Ok d /\
    (B2R 24 128 o - 14 * ulp32 (mag3 x o r) <= B2R 24 128 d
       <= B2R 24 128 o + B2R 24 128 r + 14 * ulp32 (mag3 x o r))%R.
Proof. exact decoded_in_box. Qed.
Print Assumptions C04_decoded_in_box.

(** The stored integer: the float -> int32 conversion is defined, 0 <= k <= 2^b - 1 + slack with
    slack = 2^(b-21) (0 for b <= 20: float rounding of x*inverse_delta can push k past 2^b-1 only for
    large b), and k is within 1/2 + (5.00001 s + 1/2) 2^-24 + 2e-40 of the ideal real index s. *)
Theorem C04_quant_in_range : forall (o r x : f32) (b : Z),
  quantization_valid b = true -> in_window o r -> is_finite 24 128 x = true ->
  (B2R 24 128 o <= B2R 24 128 x <= B2R 24 128 o + B2R 24 128 r)%R ->
  exists k, quant_f o r b x = Ok k /\ 0 <= k <= 2 ^ b - 1 + quant_slack b /\
    (Rabs (IZR k - ideal_index o r x b)
       <= / 2 + (5.00001 * u32r * ideal_index o r x b + u32r / 2 + 2 * tiny))%R.
Proof. exact quant_in_range. Qed.
Print Assumptions C04_quant_in_range.

(** Automatic range (ComputeParameters): for an attribute of finite values (|v| <= 2^99, equal row
    lengths) whose computed parameters fall in the window, EVERY value of the attribute meets the bound
    and the box — including the maxima, for which x - min may exceed the float-rounded range by half an
    ulp (the proof goes through the float-level box  fl(x - min) <= range  that the scan guarantees). *)
Theorem C04_quant_error_auto : forall rows q p,
  Forall (Forall okv) rows -> (exists nc, Forall (fun row => length row = nc) rows) ->
  compute_parameters rows q = Ok p ->
  (/ 1048576 <= B2R 24 128 (qp_range p) <= 1073741824)%R ->
  Forall (fun o => (Rabs (B2R 24 128 o) <= 1073741824)%R) (qp_min p) ->
  forall row, In row rows -> forall c x, nth_error row c = Some x ->
  exists o d, nth_error (qp_min p) c = Some o /\
    requant_f o (qp_range p) (qp_bits p) x = Ok d /\ is_finite 24 128 d = true /\
    (Rabs (B2R 24 128 d - B2R 24 128 x)
       <= half_step (qp_range p) (qp_bits p) + 14 * ulp32 (mag3 x o (qp_range p)))%R /\
    (B2R 24 128 o - 14 * ulp32 (mag3 x o (qp_range p)) <= B2R 24 128 d
       <= B2R 24 128 o + B2R 24 128 (qp_range p) + 14 * ulp32 (mag3 x o (qp_range p)))%R.
Proof. exact quant_error_auto. Qed.
Print Assumptions C04_quant_error_auto.

(** ComputeParameters: bits are valid, the range is finite and positive (0 -> 1), every value is at or
    above its component's minimum and its float distance to it is at most the range. *)
Theorem C04_compute_parameters_box : forall rows q p,
  Forall (Forall okv) rows -> (exists nc, Forall (fun row => length row = nc) rows) ->
  compute_parameters rows q = Ok p ->
  quantization_valid (qp_bits p) = true /\ qp_bits p = q /\
  is_finite 24 128 (qp_range p) = true /\ (0 < B2R 24 128 (qp_range p))%R /\
  forall row, In row rows -> forall c x, nth_error row c = Some x ->
    exists o, nth_error (qp_min p) c = Some o /\ okv o /\
              (B2R 24 128 o <= B2R 24 128 x)%R /\ (B2R 24 128 (fsub x o) <= B2R 24 128 (qp_range p))%R.
Proof. exact compute_parameters_box. Qed.
Print Assumptions C04_compute_parameters_box.

(** Non-vacuity. *)
Example C04_example_ideal :
  ideal_quant_Q 1 2 (5 # 2) 10 = 767 /\ (ideal_deq_Q 1 2 10 767 == 2557 # 1023)%Q.
Proof. vm_compute. split; reflexivity. Qed.

(** origin 1.0, range 2.0, 10 bits, x = 2.5: in the window and in the box; k = 767, decoded 0x403FF7FE.
    Automatic parameters of [1.0; 2.5; 3.0]: min 1.0, range 2.0. *)
Example C04_example_f32 :
  let o := f32_of_bits 1065353216 in let r := f32_of_bits 1073741824 in let x := f32_of_bits 1075838976 in
  quantization_valid 10 = true /\ is_finite 24 128 o = true /\ is_finite 24 128 r = true /\ is_finite 24 128 x = true /\
  quant_f o r 10 x = Ok 767 /\ (rdo d <- requant_f o r 10 x; Ok (obs_bits d)) = Ok 1075836926 /\
  (rdo p <- compute_parameters (map (fun v => [f32_of_bits v]) [1065353216; 1075838976; 1077936128]) 10;
     Ok (qp_bits p, map bits_of_f32 (qp_min p), bits_of_f32 (qp_range p))) = Ok (10, [1065353216], 1073741824).
Proof. vm_compute. repeat split; reflexivity. Qed.

Example C04_example_window :
  in_window (f32_of_bits 1065353216) (f32_of_bits 1073741824) /\
  (B2R 24 128 (f32_of_bits 1065353216) <= B2R 24 128 (f32_of_bits 1075838976)
     <= B2R 24 128 (f32_of_bits 1065353216) + B2R 24 128 (f32_of_bits 1073741824))%R.
Proof.
  assert (E1 : B2R 24 128 (f32_of_bits 1065353216) = 1%R) by (vm_compute; Lra.lra).
  assert (E2 : B2R 24 128 (f32_of_bits 1073741824) = 2%R) by (vm_compute; Lra.lra).
  assert (E3 : B2R 24 128 (f32_of_bits 1075838976) = (5 / 2)%R) by (vm_compute; Lra.lra).
  unfold in_window. rewrite E1, E2, E3. repeat split; try reflexivity; try Lra.lra.
  rewrite Rabs_pos_eq; Lra.lra.
Qed.
