(** C18 — decoder memory is bounded by stream length and declared element counts.            (PARTIAL)

    Model level: the allocation sizes the modelled decoders request are bounded by the remaining input or by the
    declared counts.  Runtime level (the actual allocator requests of the C++): the allocation monitor of the search
    (harness/h_dec.cc: every operator new, largest single request and live peak per decode, compared with
    4096 * (input length + counts reported by the DRACO_VERIF hook) + 24 MiB). *)
From Draco Require Import Base.Codec Model.Metadata Proofs.Metadata_proofs.
Local Open Scope Z_scope.

(** MetadataDecoder::DecodeEntry: the value buffer it allocates is never larger than the bytes that remain. *)
Theorem C18_metadata_entry_alloc_bounded : forall bs sz rem, entry_alloc bs = Some (sz, rem) -> sz <= rem /\ rem < len bs.
Proof. exact entry_alloc_bounded. Qed.
Print Assumptions C18_metadata_entry_alloc_bounded.

(** MetadataDecoder::DecodeMetadata: the work list never exceeds (kMaxSubmetadataLevel + 2) * |input| + 1 frames.
    (This is the TRUE bound of the code as written — about 1002 x the input length x 24 bytes; it is a large
    multiple, see DESIGN.md "work-list amplification".) *)
Theorem C18_metadata_worklist_bounded : forall bs0 root stk bs,
  reach (Node [] [], [(None, 0)], bs0) (root, stk, bs) ->
  Z.of_nat (length stk) <= (kMaxSubmetadataLevel + 2) * Z.of_nat (length bs0) + 1 /\
  (length bs <= length bs0)%nat.
Proof. exact stack_peak_bound. Qed.
Print Assumptions C18_metadata_worklist_bounded.

Theorem C18_metadata_step_bounded : forall root par level stk bs root2 stk2 r,
  stack_step root par level stk bs = Ok (root2, stk2, r) ->
  (length r + 2 <= length bs)%nat /\ (length stk2 <= length stk + length r)%nat /\
  exists pushed, stk2 = pushed ++ stk /\ (length pushed <= length r)%nat.
Proof. intros. eapply stack_step_total. eassumption. Qed.
Print Assumptions C18_metadata_step_bounded.
