(** C07 — quantized normals decode to unit vectors within a bounded angle.
    This file only restates theorems proved in Proofs/Normals_proofs.v and prints their assumptions.

    Models: Model/Normals.v (float part, bit-exact binary64 / binary32 via Flocq) on top of
    Model/Octahedron.v (integer tool box, property C16); tied to /repo by the correspondence check
    ((s,t) integers and decoded float BIT PATTERNS).

    FULL STATEMENT of the property (kept here; NOT proved as a whole):
      for every finite float32 vector v that is not zero/denormal and every q in 2..30:
        requant_normal q v = Ok d  /\  d finite  /\  | |d| - 1 | <= 1e-6  /\
        angle(v, d) <= 3 * (2 / (2^q - 2)) + 2e-6  /\  the (s,t) of v lies in [0, 2^q-2]^2;
      and zero/denormal input never produces NaN or out-of-range coordinates.
    PROVED below (C07_normals_partial and its parts):
      * encoder, integer half, every centre value c >= 1 (every q >= 2): abs sum = c after the
        repair, (s,t) in the square, canonical (the hypothesis of C16's round trip);
      * encoder, float half, every q in 2..30, EVERY finite input: no undefined conversion, the
        rounded integers are in the domain of the integer half; so the encoder is total and
        emits canonical in-square coordinates (C07_encoder_total);
      * zero / denormal / tiny (every |component| <= 2^-22) and NaN input: the fallback branch,
        coordinates of the x axis (centre of the square);
      * decoder, every q in 2..30 and every (s,t) of the square: the result is finite and the
        `norm_squared < 1e-6` zero-vector branch is unreachable (C07_unit_vector_finite_nonzero).
    MISSING (searched on the real library only, see props/reg/C07.json): the numeric clauses
      | |d| - 1 | <= 1e-6   and   angle <= 3*(2/(2^q-2)) + 2e-6   for the float model.
    Only an exact-arithmetic counterpart of the angle clause is proved (C07_angle_bound_ideal:
    sin(angle) <= 0.7071 * 3*(2/(2^q-2)) when every step is computed over the reals).
    REFUTED as literally stated: the angle clause for finite non-zero NON-denormal input with L1
    norm <= 1e-6 (the fallback replaces it by the x axis): C07_tiny_input_refuted. *)
From Coq Require Import ZArith Reals List.
From Flocq Require Import Core Binary.
From Draco Require Import Base.Float32 Base.Float64 Model.Quantize Model.Octahedron Model.Normals
  Proofs.Octahedron_proofs Proofs.Normals_proofs Proofs.Normals_ideal.
Import ListNotations.
Local Open Scope Z_scope.

(** ---- encoder, integer half: every c >= 1, every (i0, i1) with |i0| <= c ----
    [nv_repair c i0 i1 neg] is the int_vec after the repair and the sign step, [l1] its abs sum. *)
Theorem C07_int_vec_abs_sum : forall c i0 i1 neg, Z.abs i0 <= c -> l1 (nv_repair c i0 i1 neg) = c.
Proof. exact repair_abs_sum. Qed.
Print Assumptions C07_int_vec_abs_sum.

Theorem C07_oct_coords_in_square : forall c v, 1 <= c -> l1 v = c ->
  in_square c (int_vec_to_oct (obox_of_center c) v).
Proof. exact oct_coords_in_square. Qed.
Print Assumptions C07_oct_coords_in_square.

Theorem C07_encoder_emits_canonical : forall c i0 i1 neg, 1 <= c -> Z.abs i0 <= c ->
  let iv := nv_repair c i0 i1 neg in
  l1 iv = c /\ canonical c (int_vec_to_oct (obox_of_center c) iv).
Proof. exact encoder_emits_canonical. Qed.
Print Assumptions C07_encoder_emits_canonical.

(** no signed-overflow (UB) in the repair for q <= 30 *)
Theorem C07_repair_no_overflow : forall c i0 i1, 1 <= c <= cmax -> Z.abs i0 <= c -> Z.abs i1 <= c ->
  forallb Float32.in_i32 (nv_repair_trace c i0 i1) = true.
Proof. exact repair_no_overflow. Qed.
Print Assumptions C07_repair_no_overflow.

(** CanonicalizeIntegerVector<int32_t> (geometric-normal predictor): abs sum = c for every int32 vector *)
Theorem C07_canonicalize_int_vector_abs_sum : forall c v, 1 <= c <= cmax ->
  (let '(a, b, d) := v in Z.abs a < 2 ^ 31 /\ Z.abs b < 2 ^ 31 /\ Z.abs d < 2 ^ 31) ->
  l1 (canonicalize_int_vector (obox_of_center c) v) = c.
Proof. exact canonicalize_int_vector_abs_sum. Qed.
Print Assumptions C07_canonicalize_int_vector_abs_sum.

(** ---- encoder, float half ----
    the reachable set of the rounding step: for every finite input that passes `abs_sum > 1e-6`
    both conversions are defined and |i0|, |i1| <= c. *)
Theorem C07_rounding_step_reachable : forall c v, 1 <= c <= cmax -> fin3 v ->
  d_gt (nv_abs_sum v) d_1em6 = true ->
  exists i0 i1 neg, float_vector_to_int_vec (obox_of_center c) v = Ok (nv_repair c i0 i1 neg) /\
                    Z.abs i0 <= c /\ Z.abs i1 <= c.
Proof. exact finite_input_reachable. Qed.
Print Assumptions C07_rounding_step_reachable.

(** every finite float32 vector, every q the library accepts: defined, in the square, canonical *)
Theorem C07_encoder_total : forall q b v, set_quantization_bits q = Some b -> fin3 v ->
  exists p, float_vector_to_oct b v = Ok p /\ canonical (ob_center b) p.
Proof. exact encoder_total. Qed.
Print Assumptions C07_encoder_total.

(** zero_input_is_x_axis: whenever the test `abs_sum > 1e-6` fails the result is the centre of the
    square = the coordinates of (1,0,0); it fails for zero / denormal / tiny and for NaN input. *)
Theorem C07_fallback_is_x_axis : forall q b v, set_quantization_bits q = Some b ->
  d_gt (nv_abs_sum v) d_1em6 = false -> float_vector_to_oct b v = Ok (ob_center b, ob_center b).
Proof. exact fallback_is_x_axis. Qed.
Print Assumptions C07_fallback_is_x_axis.

Theorem C07_zero_input_is_x_axis : forall q b v, set_quantization_bits q = Some b -> fin3 v ->
  (let '(v0, v1, v2) := v in
   (Rabs (B2R 24 128 v0) <= bpow radix2 (-22) /\ Rabs (B2R 24 128 v1) <= bpow radix2 (-22) /\
    Rabs (B2R 24 128 v2) <= bpow radix2 (-22))%R) ->
  float_vector_to_oct b v = Ok (ob_center b, ob_center b).
Proof. intros q b v Hb F H. exact (fallback_is_x_axis q b v Hb (tiny_takes_fallback v F H)). Qed.
Print Assumptions C07_zero_input_is_x_axis.

Theorem C07_nan_input_is_x_axis : forall q b v, set_quantization_bits q = Some b ->
  (let '(v0, v1, v2) := v in f_isnan v0 = true \/ f_isnan v1 = true \/ f_isnan v2 = true) ->
  float_vector_to_oct b v = Ok (ob_center b, ob_center b).
Proof. intros q b v Hb H. exact (fallback_is_x_axis q b v Hb (nan_takes_fallback v H)). Qed.
Print Assumptions C07_nan_input_is_x_axis.

(** ---- decoder ----
    unit_vector_finite_nonzero: for every q in 2..30 and every (s,t) of the square the three floats
    are finite, the `norm_squared < 1e-6` branch (which returns the zero vector) is not taken, and at
    least one component has magnitude >= 1/256 (the exact value is ~1/sqrt 3; 1/256 is what the
    chain of roundings is proved to keep).  [oct_scaled b s] = in_s * dequantization_scale_ - 1.f,
    [ov_norm_squared] = the C++ local norm_squared. *)
Theorem C07_unit_vector_finite_nonzero : forall q b s t, set_quantization_bits q = Some b ->
  in_square (ob_center b) (s, t) ->
  d_lt (d_of_f32 (ov_norm_squared (oct_scaled b s) (oct_scaled b t))) d_1em6 = false /\
  let '(X, Y, Z) := quantized_oct_to_unit_vector b s t in
  is_finite 24 128 X = true /\ is_finite 24 128 Y = true /\ is_finite 24 128 Z = true /\
  (/ 256 <= Rabs (B2R 24 128 X) \/ / 256 <= Rabs (B2R 24 128 Y) \/ / 256 <= Rabs (B2R 24 128 Z))%R.
Proof. exact unit_vector_finite_nonzero. Qed.
Print Assumptions C07_unit_vector_finite_nonzero.

(** the same for ANY finite pair of scaled coordinates of magnitude <= 2 (so also for the hostile
    (s,t) slightly outside the square that InverseTransformAttribute does not reject) *)
Theorem C07_oct_to_unit_vector_ok : forall ys zs, is_finite 24 128 ys = true -> is_finite 24 128 zs = true ->
  (Rabs (B2R 24 128 ys) <= 2)%R -> (Rabs (B2R 24 128 zs) <= 2)%R ->
  d_lt (d_of_f32 (ov_norm_squared ys zs)) d_1em6 = false /\
  let '(X, Y, Z) := oct_to_unit_vector ys zs in
  is_finite 24 128 X = true /\ is_finite 24 128 Y = true /\ is_finite 24 128 Z = true /\
  (/ 256 <= Rabs (B2R 24 128 X) \/ / 256 <= Rabs (B2R 24 128 Y) \/ / 256 <= Rabs (B2R 24 128 Z))%R.
Proof. exact oct_to_unit_vector_ok. Qed.
Print Assumptions C07_oct_to_unit_vector_ok.

(** ---- the property, as far as it is proved ----
    every finite float32 vector, every q in 2..30: quantisation is defined (no UB), (s,t) is in the
    square and canonical, and decode(encode v) is a finite non-zero vector.
    MISSING clauses (search only): | |d| - 1 | <= 1e-6 and angle(v,d) <= 3*(2/(2^q-2)) + 2e-6. *)
Theorem C07_normals_partial : forall q b v, set_quantization_bits q = Some b -> fin3 v ->
  exists p X Y Z,
    float_vector_to_oct b v = Ok p /\ canonical (ob_center b) p /\
    requant_normal q v = Ok (X, Y, Z) /\ (X, Y, Z) = quantized_oct_to_unit_vector b (fst p) (snd p) /\
    is_finite 24 128 X = true /\ is_finite 24 128 Y = true /\ is_finite 24 128 Z = true /\
    (/ 256 <= Rabs (B2R 24 128 X) \/ / 256 <= Rabs (B2R 24 128 Y) \/ / 256 <= Rabs (B2R 24 128 Z))%R.
Proof. exact normals_partial. Qed.
Print Assumptions C07_normals_partial.

(** the angle clause, read literally ("every finite non-zero vector"), is false of the faithful model:
    v = (0, 1e-7f, 0) is finite, non-zero and not denormal, and at q = 3 it decodes to exactly
    (1.0f, +0, +0), orthogonal to v.  Reproduced on the real library (known finding
    tiny-normal-l1-below-1e-6-becomes-x-axis). *)
Theorem C07_tiny_input_refuted :
  exists v : vec3, fin3 v /\
    (let '(v0, v1, v2) := v in (B2R 24 128 v0 = 0 /\ bpow radix2 (-126) <= B2R 24 128 v1 /\ B2R 24 128 v2 = 0)%R) /\
    match requant_normal 3 v with Ok d => obs_vec3 d | _ => nil end = [1065353216; 0; 0].
Proof. exact tiny_input_refuted. Qed.
Print Assumptions C07_tiny_input_refuted.

(** ---- exact-arithmetic ("ideal") angle bound: NOT about the float model ----
    [ideal_encode c p] = floor(c*p_i + 1/2) for i = 0,1, then the repair and the sign step of the model
    ([nv_repair]); [ideal_unwrap c st] = OctahedralCoordsToUnitVector's unwrapping in exact arithmetic,
    scaled by c.  For every centre value c >= 1 and every real p on the octahedron (|p|_1 = 1):
    the integer vector has abs sum c, its (s,t) is canonical, unwrapping (s,t) returns the integer
    vector, and  |p x w|^2 <= 9/(2 c^2) * |p|^2 |w|^2  — i.e. sin(angle) <= (1/sqrt 2) * (3/c), where
    3/c = 3*(2/(2^q-2)) for c = 2^(q-1)-1 — and for c >= 3 (q >= 3) the angle is acute.
    What this is not: no float rounding (the model's binary64/binary32 steps are not related to the
    ideal functions by a theorem), no arcsine step, nothing for q = 2 beyond the structure. *)
Theorem C07_ideal_unwrap_inverts : forall c j, 1 <= c -> l1 j = c ->
  ideal_unwrap c (int_vec_to_oct (obox_of_center c) j) = j.
Proof. exact ideal_unwrap_inverts. Qed.
Print Assumptions C07_ideal_unwrap_inverts.

Theorem C07_angle_bound_ideal : forall c (p0 p1 p2 : R), 1 <= c -> (Rabs p0 + Rabs p1 + Rabs p2 = 1)%R ->
  let j := ideal_encode c p0 p1 p2 in
  let st := int_vec_to_oct (obox_of_center c) j in
  let '(w0, w1, w2) := R3_of (ideal_unwrap c st) in
  l1 j = c /\ canonical c st /\ ideal_unwrap c st = j /\
  (cross_sq p0 p1 p2 w0 w1 w2 <= 9 / (2 * (IZR c * IZR c)) * (sq3 p0 p1 p2 * sq3 w0 w1 w2))%R /\
  (3 <= c -> (0 < dot3 p0 p1 p2 w0 w1 w2)%R).
Proof. exact angle_bound_ideal. Qed.
Print Assumptions C07_angle_bound_ideal.

(** ---- non-vacuity / behaviour on special input, by computation ---- *)
Definition bx (q : Z) : obox := match set_quantization_bits q with Some b => b | None => obox_of_center 1 end.
Definition vb := vec3_of_bits.
(* (0.6, -0.3, 0.1)-ish direction at q = 10: an interior point; (0.5,0.5,0) at q = 2: the repair branch *)
Example ex_regular_q10 : float_vector_to_oct (bx 10) (vb 1058642330 3197737370 1036831949) = Ok (358, 562).
Proof. vm_compute. reflexivity. Qed.
Example ex_repair_q2 : float_vector_to_int_vec (bx 2) (vb 1056964608 1056964608 0) = Ok (1, 0, 0)
  /\ float_vector_to_oct (bx 2) (vb 1056964608 1056964608 0) = Ok (1, 1).
Proof. vm_compute. split; reflexivity. Qed.
Example ex_left_hemisphere_q30 : float_vector_to_oct (bx 30) (vb 3212836864 0 0) = Ok (1073741822, 1073741822).
Proof. vm_compute. reflexivity. Qed.     (* (-1,0,0): all four corners are the -x axis, canonical one is (2c,2c) *)
Example ex_zero_q10 : float_vector_to_oct (bx 10) (vb 0 2147483648 1) = Ok (511, 511).
Proof. vm_compute. reflexivity. Qed.     (* (+0, -0, denormal) *)
Example ex_nan_q10 : float_vector_to_oct (bx 10) (vb 2143289344 1065353216 0) = Ok (511, 511).
Proof. vm_compute. reflexivity. Qed.
(* Infinity: in component 0 or 1 the product inf * 0 is a NaN whose conversion to int32_t is undefined;
   in component 2 only, the result is defined (direction +z whatever the sign of the infinity) *)
Example ex_inf_is_ub : float_vector_to_oct (bx 10) (vb 2139095040 0 0) = UB
  /\ float_vector_to_oct (bx 10) (vb 0 4286578688 1065353216) = UB.
Proof. vm_compute. split; reflexivity. Qed.
Example ex_inf_z : float_vector_to_oct (bx 10) (vb 0 1065353216 4286578688) = Ok (511, 1022).
Proof. vm_compute. reflexivity. Qed.

(* decoder: corners, centre, a diamond edge point; q = 2, 10, 30 (bit patterns of the three floats) *)
Example ex_decode_centre_q10 : oct_to_normal_bits 10 511 511 = Ok [1065353216; 0; 0].
Proof. vm_compute. reflexivity. Qed.
Example ex_decode_corner_q2 : oct_to_normal_bits 2 2 2 = Ok [3212836864; 0; 0].
Proof. vm_compute. reflexivity. Qed.
Example ex_decode_edge_q30 : oct_to_normal_bits 30 536870911 1073741822 = Ok [0; 0; 1065353216].
Proof. vm_compute. reflexivity. Qed.
Example ex_roundtrip_q10 :
  match requant_normal 10 (vb 1058642330 3197737370 1036831949) with Ok d => obs_vec3 d | _ => nil end
  = [1063428497; 3202475157; 1041668193].
Proof. vm_compute. reflexivity. Qed.

(* ideal encoder: p = (0.5, 0.5, 0) at c = 1 takes the repair branch; p = (-0.25, 0.5, -0.25) at c = 511 *)
Example ex_ideal_unwrap : ideal_unwrap 511 (int_vec_to_oct (obox_of_center 511) (-128, 255, -128)) = (-128, 255, -128).
Proof. vm_compute. reflexivity. Qed.
