(** TRAVS — C01, Edgebreaker attribute layer: the ATTRIBUTE TRAVERSAL (DepthFirstTraverser / MaxPredictionDegreeTraverser
    driven by MeshTraversalSequencer, observed by MeshAttributeIndicesEncodingObserver) produces the maps the mesh
    prediction schemes consume, and they satisfy what Properties_PRED.v assumes of them.

    This file only restates theorems proved in Proofs/Traverser_proofs.v and prints their assumptions.
    Model: Model/Traverser.v ([dfs_sequence], [mpd_sequence] over a [ttable] = the arrays the traversers read; it covers
    CornerTable ([tt_of_ct]) and MeshAttributeCornerTable ([tt_of_att]: Opposite cut at seams, attribute vertex ids)).

    Hypotheses.  [tt_ok t] = the C13 invariants in the form the traversers use them (Opposite is a symmetric pairing
    across a shared edge of two non-degenerate faces; vertex ids are in range; a vertex whose left-most corner can swing
    left (not IsOnBoundary) has a right neighbour at each of its corners; left-most corners are corners).  It is what
    [ct_create] returns ([C01_travs_table_from_create]) and what the executable [tt_okb] checks
    ([C01_travs_okb_sound]; the driver evaluates it on every real table, attribute corner tables and decoder tables
    included).  [trav_pre] adds: the mesh has a point for every corner, the prepared vertex map has an entry per vertex,
    and every START corner lies on a non-degenerate face of the table.  The last one is forced:
    [C01_travs_degenerate_start_refuted] — a start on a degenerate face can make the depth-first traverser write
    is_face_visited_[kInvalid / 3] (reproduced on the library: the harness runs the real sequencer without a corner
    order on such a table in a child process, which dies; the coders never do that: the encoder's corner order skips
    degenerate faces, the decoder's table has none).

    Unbounded: all tables satisfying [tt_ok], all start-corner lists, both traversal methods. *)
From Coq Require Import List Arith ZArith.
Import ListNotations.
From Draco Require Import Model.CornerTable Model.Traverser Model.Predict Proofs.Traverser_proofs.

(** (a) TOTALITY.  Neither traverser runs out of fuel (4 * faces + stack sizes + 4 per TraverseFromCorner call), reads or
    writes out of range, or returns false; the run ends in a state satisfying [trav_post] (unfolded by the theorems
    below).  Depth-first needs the fan invariant for its unguarded `corner_id = GetRightCorner(corner_id); continue`;
    prediction-degree does not. *)
Theorem C01_travs_dfs_total : forall t c2p v2d0 order, trav_pre t c2p v2d0 order ->
  exists s, dfs_sequence t c2p v2d0 order = ROk s /\ trav_post t c2p (seq_corners t order) v2d0 s.
Proof. exact travs_dfs_total. Qed.
Print Assumptions C01_travs_dfs_total.

Theorem C01_travs_mpd_total : forall t c2p v2d0 order, trav_pre t c2p v2d0 order ->
  exists s, mpd_sequence t c2p v2d0 order = ROk s /\ trav_post t c2p (seq_corners t order) v2d0 s.
Proof. exact travs_mpd_total. Qed.
Print Assumptions C01_travs_mpd_total.

(** (b) ENTRIES.  num_values = |encoded_attribute_value_index_to_corner_map| = |point sequence|, the vertex map keeps
    its size; entry d was made from a corner of the table whose vertex maps back to d and whose point is the d-th point
    of the sequence; two entries never belong to one vertex; every corner of a visited face and of every start face has
    an entry; a vertex without entry keeps the prepared value (-1 encoder, 0 decoder); the number of entries is at most
    the number of vertices and of corners. *)
Theorem C01_travs_entries : forall t c2p starts v2d0 s, tt_ok t -> trav_post t c2p starts v2d0 s ->
  (ts_num s = length (ts_d2c s) /\ length (ts_pts s) = length (ts_d2c s) /\ length (ts_v2d s) = length v2d0) /\
  (forall d c, nth_error (ts_d2c s) d = Some c ->
     c < ncor t /\ exists v, Vx t c = Some v /\ nth_error (ts_v2d s) v = Some (Z.of_nat d) /\
                             nth_error (ts_pts s) d = Some (nth c c2p 0)) /\
  (forall d1 d2 c1 c2, nth_error (ts_d2c s) d1 = Some c1 -> nth_error (ts_d2c s) d2 = Some c2 ->
     Vx t c1 = Vx t c2 -> d1 = d2) /\
  (forall x, x < ncor t -> (fv s (x / 3) = true \/ start_face starts x) ->
     exists v d c, Vx t x = Some v /\ nth_error (ts_v2d s) v = Some (Z.of_nat d) /\
                   nth_error (ts_d2c s) d = Some c /\ Vx t c = Some v) /\
  (forall v, (exists d c, nth_error (ts_d2c s) d = Some c /\ Vx t c = Some v) \/
             nth_error (ts_v2d s) v = nth_error v2d0 v) /\
  ts_num s <= tt_num_vertices t /\ ts_num s <= ncor t.
Proof. exact travs_entries. Qed.
Print Assumptions C01_travs_entries.

(** PRED's [md_wf] for the data a traversal hands to MeshPredictionSchemeData::Set, when the table has no invalid
    vertex entry and every face is a start face or reached ([covers]: the decoder's order; the encoder's order on a mesh
    without degenerate faces). *)
Theorem C01_travs_md_wf : forall t c2v c2p starts v2d0 s,
  tt_ok t -> tt_c2v t = map Some c2v -> trav_post t c2p starts v2d0 s -> covers t starts ->
  md_wf (md_of c2v t s) (ts_num s).
Proof. exact travs_md_wf_post. Qed.
Print Assumptions C01_travs_md_wf.

(** PRED's premise [length data <= num_corners] (the decoders' `num_orientations > num_corners` guard; also bounds
    every crease-flag context by 4 * entries) holds for real traversals: one data entry per traversal entry. *)
Theorem C01_travs_len_guard : forall t c2v c2p starts v2d0 s (data : list row),
  tt_ok t -> tt_c2v t = map Some c2v -> trav_post t c2p starts v2d0 s -> length data = ts_num s ->
  (Z.of_nat (length data) <= md_num_corners (md_of c2v t s))%Z /\ length (md_d2c (md_of c2v t s)) = length data.
Proof. exact travs_len_guard. Qed.
Print Assumptions C01_travs_len_guard.

(** Composition: run either traverser under [trav_pre] with a covering order: the result exists and satisfies PRED's
    hypotheses. *)
Theorem C01_travs_pred_premises : forall t c2v c2p v2d0 order (mpd : bool),
  trav_pre t c2p v2d0 order -> tt_c2v t = map Some c2v -> covers t (seq_corners t order) ->
  exists s, (if mpd then mpd_sequence else dfs_sequence) t c2p v2d0 order = ROk s /\
    md_wf (md_of c2v t s) (ts_num s) /\
    (Z.of_nat (ts_num s) <= md_num_corners (md_of c2v t s))%Z /\
    (Z.of_nat (ts_num s) <= Z.of_nat (tt_num_vertices t))%Z.
Proof. exact travs_pred_premises. Qed.
Print Assumptions C01_travs_pred_premises.

Theorem C01_travs_no_order_covers : forall t, tt_ok t -> covers t (seq_corners t None).
Proof. exact covers_none. Qed.
Print Assumptions C01_travs_no_order_covers.

(** FULL STATEMENT NOT PROVED: [mp_guard_ok (md_of c2v t s) nc data crease] (every crease-flag context of the constrained
    multi-parallelogram encoder holds at most num_corners flags).  The argument is known (the flags of entry d belong to
    distinct corners of the fan of vertex d, entries have distinct vertices by [C01_travs_entries], fans are disjoint),
    but relating [mp_collect]'s walk to the fans is not done here; what is proved is the bound by entries above.  The
    harness checks the guard itself on every real map (MP_GUARD: the encoder's own walk, flags per context <= num_corners). *)

(** (c) CAUSALITY, what the decoder needs: the entry d made from corner c either belongs to the first face of a
    traversal (a start face: nothing is guaranteed there beyond the order next, previous, tip), or the face across the
    edge opposite c exists and all three of its vertices have entries smaller than d — exactly the operands of the
    parallelogram prediction (ComputeParallelogramPrediction tests these three `< data_entry_id`). *)
Theorem C01_travs_causal : forall t c2p starts v2d0 s d c, trav_post t c2p starts v2d0 s ->
  nth_error (ts_d2c s) d = Some c ->
  start_face starts c \/
  exists o, Ox t c = Some o /\ entry_lt t s d o /\ entry_lt t s d (next_c o) /\ entry_lt t s d (prev_c o).
Proof. exact travs_causal. Qed.
Print Assumptions C01_travs_causal.

(** (d) AGREEMENT.  Equal arrays and equal start-corner lists give equal results, for both methods (the traversal reads
    nothing else).  Which lists: the encoder passes [eb_corner_order processed init_faces]
    (= reverse(processed_connectivity_corners_) ++ init_face_connectivity_corners), the decoder none, i.e.
    [eb_decoder_order num_faces]; under the corner correspondence [eb_corner_map] (decoder corner 3 * i + k <-> encoder
    corner Next^k(order[i])) the decoder's start corners are exactly the encoder's, and the correspondence commutes with
    Next / Previous.  That the decoder's TABLE is the encoder's under this correspondence is the Edgebreaker
    connectivity round trip (EB / EBENC checks); the harness validates the resulting agreement of maps, entries and coded
    values on the real coders for every case. *)
Theorem C01_travs_agreement : forall t t' c2p v2d0 o o',
  tt_c2v t = tt_c2v t' -> tt_opp t = tt_opp t' -> tt_lmc t = tt_lmc t' -> seq_corners t o = seq_corners t' o' ->
  dfs_sequence t c2p v2d0 o = dfs_sequence t' c2p v2d0 o' /\ mpd_sequence t c2p v2d0 o = mpd_sequence t' c2p v2d0 o'.
Proof. exact travs_agreement. Qed.
Print Assumptions C01_travs_agreement.

Theorem C01_travs_orders_correspond : forall order,
  map (eb_corner_map order) (eb_decoder_order (length order)) = map Some order /\
  forall i e, nth_error order i = Some e ->
    eb_corner_map order (3 * i) = Some e /\ eb_corner_map order (next_c (3 * i)) = Some (next_c e) /\
    eb_corner_map order (prev_c (3 * i)) = Some (prev_c e).
Proof. exact travs_orders_correspond. Qed.
Print Assumptions C01_travs_orders_correspond.

(** The hypotheses are what CornerTable::Create returns (C13), and what the executable check establishes. *)
Theorem C01_travs_table_from_create : forall faces ct, ct_create faces = Some ct ->
  tt_ok (tt_of_ct ct) /\ tt_c2v (tt_of_ct ct) = map Some (ct_c2v ct) /\
  forall f, f < length faces -> tt_deg (tt_of_ct ct) f = is_degenerated (c2v_of_faces faces) f.
Proof. exact travs_ct_ok. Qed.
Print Assumptions C01_travs_table_from_create.

Theorem C01_travs_okb_sound : forall t, tt_okb t = true -> tt_ok t.
Proof. exact tt_okb_sound. Qed.
Print Assumptions C01_travs_okb_sound.

(** The non-degenerate-start hypothesis is necessary: a closed fan around vertex 0 preceded by the degenerate face
    (0,1,1); no corner order, so the traversal starts on the degenerate face, meets the interior vertex 0 for the first
    time, takes GetRightCorner = kInvalid and indexes is_face_visited_ out of range. *)
Definition ex_deg_faces : list (nat * nat * nat) := [(0,1,1); (0,1,2); (0,2,3); (0,3,1)].
Theorem C01_travs_degenerate_start_refuted :
  exists ct, ct_create ex_deg_faces = Some ct /\ tt_ok (tt_of_ct ct) /\
    dfs_sequence (tt_of_ct ct) [0;1;1;0;1;2;0;2;3;0;3;1] (enc_v2d0 4) None = RErr.
Proof. exact travs_degenerate_start_refuted. Qed.
Print Assumptions C01_travs_degenerate_start_refuted.

(** ---- non-vacuity ---- *)
(** two triangles and a third across an edge; vertex 2 is interior to nothing; no corner order *)
Definition ex_faces : list (nat * nat * nat) := [(0,1,2); (2,1,3); (2,3,4)].
Definition ex_t : ttable := match ct_create ex_faces with Some ct => tt_of_ct ct | None => mk_tt [] [] [] end.
Definition ex_c2p : list nat := [0;1;2;2;1;3;2;3;4].
Example C01_travs_example_pre : trav_pre ex_t ex_c2p (enc_v2d0 5) None /\ covers ex_t (seq_corners ex_t None).
Proof. exact travs_example_pre. Qed.
Example C01_travs_example_dfs :
  dfs_sequence ex_t ex_c2p (enc_v2d0 5) None = ROk (mk_ts [true;true;true] [true;true;true;true;true] [1;2;0;5;8] [2;0;1;3;4]%Z [1;2;0;3;4] 5).
Proof. vm_compute. reflexivity. Qed.
Example C01_travs_example_mpd :
  mpd_sequence ex_t ex_c2p (dec_v2d0 6) (Some [6;3;0]) =
  ROk (mk_ts [true;true;true] [true;true;true;true;true] [7;8;6;4;0] [4;3;2;0;1;0]%Z [3;4;2;1;0] 5).
Proof. vm_compute. reflexivity. Qed.
(** an attribute corner table: the same faces, the edge between faces 0 and 1 is a seam (base vertex 1 = attribute vertices 1, 5; base vertex 2 = attribute vertices 2, 6) *)
Definition ex_att : ttable :=
  match ct_create ex_faces with
  | Some ct => tt_of_att ct [true;false;false;false;false;true;false;false;false]
                 [Some 0; Some 1; Some 2; Some 6; Some 5; Some 3; Some 6; Some 3; Some 4]
                 [Some 0; Some 1; Some 2; Some 5; Some 8; Some 4; Some 6]
  | None => mk_tt [] [] []
  end.
Example C01_travs_example_att : tt_okb ex_att = true /\
  dfs_sequence ex_att ex_c2p (enc_v2d0 7) None =
  ROk (mk_ts [true;true;true] [true;true;true;true;true;true;true] [1;2;0;4;5;3;8] [2;0;1;4;6;3;5]%Z [1;2;0;1;3;2;4] 7).
Proof. vm_compute. split; reflexivity. Qed.
