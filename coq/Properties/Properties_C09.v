(** C09 — reported encoded point/face counts equal what the decoder produces.
    This file only restates theorems proved in Proofs/Fans_proofs.v and prints their assumptions.

    What is proved: for the faithful model of MeshEdgebreakerEncoder::ComputeNumberOfEncodedPoints
    (code after fix 5df4cb2) and of MeshEdgebreakerDecoderImpl::AssignPointsToCorners, on ANY corner
    table (any list of vertices/fans, open or closed, isolated vertices), any number of
    attributes and any labelling that satisfies [labels_wf], the two counts are equal; and
    [labels_wf] holds of every labelling that the modelled
    MeshAttributeCornerTable::RecomputeVertices produces.
    What is NOT proved (hypothesis H_conn of DESIGN.md, searched by the harness only): that the
    Edgebreaker decoder reconstructs a corner table with the same fans, boundary flags and seam
    edges as the encoder's; the theorems compare both counts on one and the same [cmesh]. *)
From Coq Require Import List ZArith Bool.
From Draco Require Import Model.Fans Proofs.Fans_proofs.
Import ListNotations.
Local Open Scope Z_scope.

(** Points, Edgebreaker: the encoder's simulation equals the decoder's point creation. *)
Theorem C09_fan_count_agree : forall m, labels_wf m -> enc_count m = dec_points m.
Proof. exact fan_count_agree. Qed.
Print Assumptions C09_fan_count_agree.

(** [labels_wf] is not an assumption about the library's labelling: every labelling produced by
    RecomputeVertices (from arbitrary seam-edge flags, with is_vertex_on_seam as
    InitFromAttribute/AddSeamEdge set it and "connectivity not used" decided by
    no_interior_seams) satisfies it.  Remaining premises: a single-attribute mesh has no
    attribute_data_ entry, and every vertex has one flag per entry (array shapes). *)
Theorem C09_attr_table_labels_wf : forall m,
  (m_multi m = false -> m_used m = []) ->
  (forall f, In (Some f) (m_verts m) -> length (v_onseam f) = num_att m) ->
  (forall i, (i < num_att m)%nat -> exists vs next t nx,
       recompute_table vs next = Some (t, nx) /\
       Forall3 (fan_labelled i) (m_verts m) vs t /\
       (nth_error (m_used m) i = Some false -> no_interior_seams vs = true)) ->
  labels_wf m.
Proof. exact attr_table_labels_wf. Qed.
Print Assumptions C09_attr_table_labels_wf.

(** RecomputeVertices, per table entry: the flag is is_vertex_on_seam, there is one id per
    corner, and a fan without seam edge (in particular an unflagged interior vertex) gets a
    single attribute vertex. *)
Theorem C09_recompute_table_ok : forall vs next t nx,
  recompute_table vs next = Some (t, nx) -> Forall2 entry_ok vs t.
Proof. exact recompute_table_ok. Qed.
Print Assumptions C09_recompute_table_ok.

(** Historical (defect D5, fixed by 5df4cb2): the code with the [point_index != last_point_index]
    shortcut agrees with the decoder only on meshes with deduplicated point ids ... *)
Theorem C09_fan_count_agree_with_shortcut : forall m,
  labels_wf m -> dedup_ok m -> enc_count_with_shortcut m = dec_points m.
Proof. exact fan_count_agree_with_shortcut. Qed.
Print Assumptions C09_fan_count_agree_with_shortcut.

(** ... and without [dedup_ok] it is refuted: two triangles with one point per corner report
    6 points, the decoder creates 4 (as does the current code). *)
Theorem C09_shortcut_variant_refuted :
  exists m, labels_wf m /\ enc_count_with_shortcut m = 6 /\ dec_points m = 4 /\ enc_count m = 4.
Proof. exact shortcut_variant_refuted. Qed.
Print Assumptions C09_shortcut_variant_refuted.

(** Faces, Edgebreaker: reported = number of non-degenerate faces of the corner table = what the
    decoder is told to (and, when it succeeds, does) decode.  Connectivity hypothesis, explicit:
    [eb_decoded_faces] is the identity because DecodeConnectivity fails unless exactly the
    declared number of faces was reconstructed. *)
Theorem C09_faces_agree : forall fs,
  eb_reported_faces fs = Z.of_nat (length (filter (fun f => negb (degenerate f)) fs)) /\
  eb_decoded_faces (eb_written_faces fs) = eb_reported_faces fs.
Proof. exact faces_agree. Qed.
Print Assumptions C09_faces_agree.

(** Sequential mesh coder and point cloud coders: the counts are the input's, carried by the stream. *)
Theorem C09_seq_counts_agree : forall np nf,
  seq_mesh_decoded (seq_mesh_header np nf) = seq_mesh_reported np nf /\ seq_mesh_reported np nf = (np, nf).
Proof. exact seq_counts_agree. Qed.
Print Assumptions C09_seq_counts_agree.

Theorem C09_pc_counts_agree : forall np,
  pc_decoded (pc_header np) = pc_reported np /\ pc_reported np = (np, 0).
Proof. exact pc_counts_agree. Qed.
Print Assumptions C09_pc_counts_agree.

(** Encoder / ExpertEncoder with tracking on report the inner encoder's pair unchanged. *)
Theorem C09_api_reports_inner : forall inner, api_reported true inner = inner.
Proof. exact api_reports_inner. Qed.
Print Assumptions C09_api_reports_inner.

(** Non-vacuity.  An interior vertex with four corners and two attribute seams, an isolated
    vertex and a boundary vertex with one seam: the hypothesis holds and the counts are not the
    number of vertices. *)
Definition ex_mesh : cmesh :=
  mkMesh true [true]
    [ Some (mkFan false (mkCorner 7 [0]) [mkCorner 8 [1]; mkCorner 8 [1]; mkCorner 7 [0]] [true]);
      None;
      Some (mkFan true (mkCorner 1 [2]) [mkCorner 2 [3]] [true]) ].
Example C09_example_counts : labels_wfb ex_mesh = true /\ enc_count ex_mesh = 4 /\ dec_points ex_mesh = 4.
Proof. vm_compute. repeat split; reflexivity. Qed.
Example C09_example_labels_wf : labels_wf ex_mesh.
Proof. apply labels_wfb_sound. vm_compute. reflexivity. Qed.

(** The labels of [ex_mesh] are the ones RecomputeVertices computes from the seam-edge flags
    (closed fan: edges 0 and 2 are seams; open fan: its one interior edge is a seam). *)
Example C09_example_recompute :
  recompute_table [Some (mkAfan false [true; false; true; false]); None; Some (mkAfan true [true])] 0
  = Some ([Some (true, [0; 1; 1; 0]); None; Some (true, [2; 3])], 4).
Proof. vm_compute. reflexivity. Qed.
(** an interior vertex flagged on-seam without a seam edge makes RecomputeVertices return false *)
Example C09_example_recompute_fail : recompute_fan true (mkAfan false [false; false; false]) 0 = None.
Proof. vm_compute. reflexivity. Qed.

(** The D5 witness violates exactly [dedup_ok]. *)
Example C09_example_d5 : labels_wfb d5_mesh = true /\ dedup_okb d5_mesh = false /\
  enc_count_with_shortcut d5_mesh = 6 /\ enc_count d5_mesh = 4 /\ dec_points d5_mesh = 4.
Proof. vm_compute. repeat split; reflexivity. Qed.
Example C09_example_dedup_ok : dedup_okb ex_mesh = true /\ dedup_ok ex_mesh.
Proof. split; [vm_compute; reflexivity | apply dedup_okb_sound; vm_compute; reflexivity]. Qed.

Example C09_example_faces : eb_reported_faces [(0, 1, 2); (2, 2, 3); (2, 1, 3)] = 2.
Proof. vm_compute. reflexivity. Qed.
