(** EBENC - the Edgebreaker connectivity ENCODER state machine and its relation to the decoder
    (property C01 for Edgebreaker connectivity; hypothesis H_conn of C09).
    Model: Model/EbEncoder.v (MeshEdgebreakerEncoderImpl::EncodeConnectivity, FindHoles, FindInitFaceConfiguration,
    EncodeHole, EncodeConnectivityFromCorner = [eb_encode]); tied to the real encoder by harness/h_ebenc.cc (exact equality
    of symbols / split events / start-face bits / processed_connectivity_corners_ / header counts on every generated mesh).
    This file only restates theorems of Proofs/EbEncoder_proofs.v.

    STATUS
      C01_ebenc_iso_checker_sound   proved: the executable isomorphism checker the driver evaluates on every mesh is sound
      C13_ebenc_table_wf            proved: every table built by CornerTable::Create satisfies the encoder's preconditions
      C01_ebenc_total               proved (full): on EVERY triangle list the encoder terminates (no fuel exhaustion in any of
                                    its seven loops), never indexes a vector out of range, fails cleanly iff all faces are
                                    degenerated, and otherwise processes EVERY non-degenerated face EXACTLY once (closure of
                                    the traversal), only those, with the count identities.
      C01_ebenc_total_wf            the same for any table satisfying C13's invariants (as hypotheses)
      C09_ebenc_counts              proved: the identities between the counts the encoder declares and what it emitted
                                    (declared faces = processed corners = symbols + interior start faces, >= 3 symbols per
                                    interior start face), the well-formedness of the split events
      C09_ebenc_stream_never_rejected_by_guards_partial
                                    proved: every guard of DecodeConnectivity() on the declared counts passes and eb_full =
                                    eb_core on the encoder's output, under a size bound and TWO premises not derived here:
                                    the vertex/edge graph is simple (guard G3) and #split events <= #faces (guard G8)
      C09_ebenc_trav_premises       proved: conn_guards (= hdr_plausible of Properties_TRAV), header fields in range, ev_ok and
                                    topo premises of the serialisation layer, under the size bound and the G3 premise
      C01_ebenc_sim_base            proved: base case of the encoder/decoder simulation relation [sim]
    NOT proved (kept as the executable check of harness/driver on every generated mesh, '!' lines / rt=1):
      guards G3 and G8 above; preservation of [sim] symbol by symbol (no sim_step_X lemma is proved) and hence the round
      trip theorems C01_ebenc_roundtrip_no_split / _no_event / general. *)
From Coq Require Import ZArith List Bool Sorted.
From Draco Require Import Model.CornerTable Model.EbEncoder Proofs.CornerTable_proofs Proofs.EbEncoder_proofs.
From Draco Require Model.Edgebreaker Model.EbTraversal.
Import ListNotations.

(** ** (2) The isomorphism between the encoder's table and the table the decoder builds.
    [eb_iso c2v opp pcc dv dopp] (Model/EbEncoder.v): with pcc = processed_connectivity_corners_ as EncodeConnectivity leaves
    it, decoder face k IS the face of corner pcc[k] and decoder corner 3k+r is Next^r(pcc[k]) - the face bijection and the
    rotation per face are determined by the encoder's output, not searched -; pcc lists corners of pairwise different
    non-degenerated faces and every non-degenerated face occurs; Opposite is carried over in both directions (none <-> -1);
    two decoder corners have the same vertex iff their encoder corners have (a bijection between the vertices that occur).
    The driver evaluates [eb_iso_b] between the table of [eb_full (reverse symbols of eb_encode ct) events bits] and ct for
    every harness case; the harness checks the same relation between the REAL encoder's and the REAL decoder's tables. *)
Theorem C01_ebenc_iso_checker_sound : forall c2v opp pcc dv dopp,
  eb_iso_b c2v opp pcc dv dopp = true -> eb_iso c2v opp pcc dv dopp.
Proof. exact eb_iso_b_sound. Qed.
Print Assumptions C01_ebenc_iso_checker_sound.

(** ** The encoder's preconditions hold of every table CornerTable::Create builds (C13):
    3 corners per face; Opposite is a symmetric pairing of corners of non-degenerated faces that face each other across
    one shared edge ([opp_ok], in the FINAL vertex ids); vertex ids are below num_vertices(); the corners of a vertex
    lying in non-degenerated faces form one fan ([one_fan]); IsDegenerated is not changed by the vertex splitting. *)
Theorem C13_ebenc_table_wf : forall faces t, ct_create faces = Some t ->
  length (ct_c2v t) = 3 * length faces /\ opp_ok (ct_c2v t) (ct_opp t) /\
  (forall c, c < 3 * length faces -> vtx (ct_c2v t) c < length (ct_vcorn t)) /\ one_fan (ct_c2v t) (ct_opp t) /\
  (forall f, is_degenerated (ct_c2v t) f = is_degenerated (c2v_of_faces faces) f).
Proof. exact ct_create_wf. Qed.
Print Assumptions C13_ebenc_table_wf.

(** ** (3a) Totality and completeness.
    For every triangle list, with t = Create(faces):  eb_encode_ct t = EFail  <->  every face is degenerated, and otherwise
    eb_encode_ct t = EOk o with [out_ok]:
      - never EOob / EFuel (the seven loops: FindHoles x2, EncodeHole x2, FindInitFaceConfiguration, the corner stack, the
        face-count loop - whose bound `num_visited_faces < num_faces` is never the reason to leave);
      - map (/3) (o_pcc o) is a duplicate-free list of non-degenerated faces containing EVERY non-degenerated face: a
        permutation of them (degenerated faces are never visited; isolated vertices - also the vertices used by
        degenerated faces only - are never marked and are subtracted from the declared vertex count);
      - |o_pcc| = |o_syms| + number of `true` start-face bits, and 3 * (number of true bits) <= |o_syms|;
      - o_nsyms = |o_syms|; o_nsplit = number of S symbols; symbols are C/S/L/R/E codes; every split event has
        0 <= split_symbol_id < source_symbol_id < o_nsyms and a 1-bit edge; sources are non-decreasing.
    Completeness = closure of EncodeConnectivityFromCorner: when the corner stack is empty no visited face has an
    unvisited neighbour ([CLOSED]).  Proof (Proofs/EbEncoder_proofs.v, [RunG] / [run_end]): during a run every open edge
    (visited face | unvisited face) is scheduled (current corner or stack) or DEFERRED - the left edge of a face processed
    with symbol C, or the left / gate edge of the interior start face.  The tip of a C face is a fresh interior vertex, so
    walking around it from the right neighbour (visited next) to the last visited face yields another open edge, which can
    only be the deferred left edge of a C face processed LATER; the last such face gives the contradiction.  The loop over
    all corners then covers every edge-connected component: a start corner found by swinging around a boundary vertex lies
    in the same fan as the face it was looked up for, and `visited` propagates around a vertex in a closed state. *)
Theorem C01_ebenc_total : forall faces t, ct_create faces = Some t ->
  let nf := length faces in
  (nf = ct_ndeg t -> eb_encode_ct t = EFail) /\
  (nf <> ct_ndeg t -> exists o, eb_encode_ct t = EOk o /\ out_ok (ct_c2v t) nf o /\
     o_nverts o = (Z.of_nat (length (ct_vcorn t)) - Z.of_nat (ct_niso t))%Z /\
     o_nfaces o = (Z.of_nat nf - Z.of_nat (ct_ndeg t))%Z).
Proof. exact eb_encode_ct_total. Qed.
Print Assumptions C01_ebenc_total.

(** the same for ANY table with C13's invariants as hypotheses (the table need not come from Create) *)
Theorem C01_ebenc_total_wf : forall c2v opp nf nv niso ndeg,
  length c2v = 3 * nf -> opp_ok c2v opp -> (forall c, c < 3 * nf -> vtx c2v c < nv) -> one_fan c2v opp ->
  (nf = ndeg -> eb_encode c2v opp nv niso ndeg = EFail) /\
  (nf <> ndeg -> exists o, eb_encode c2v opp nv niso ndeg = EOk o /\ out_ok c2v nf o /\
     o_nverts o = (Z.of_nat nv - Z.of_nat niso)%Z /\ o_nfaces o = (Z.of_nat nf - Z.of_nat ndeg)%Z).
Proof. exact eb_encode_total. Qed.
Print Assumptions C01_ebenc_total_wf.

(** ** (3b) Counts and the decoder's guards.
    The guards of DecodeConnectivity() on the declared counts (Model/Edgebreaker.v [eb_full], Properties_EB.C02_eb_caller_guard;
    the same list as Model/EbTraversal.v [conn_guards] G1..G7 + G8):
      G1 nf <= 1431655765, G7 nev + nsplit fits an int        from the size bound 3 |faces| + num_vertices < 2^31 (the range in
                                                               which the C13 model is faithful)
      G2 nev <= 3 nf                                           proved (every non-isolated vertex has its left-most corner in a
                                                               non-degenerated face)
      G4 nsyms <= nf, G5 nf <= nsyms + nsyms / 3               proved from completeness: nf = nsyms + #interior start faces and
                                                               each interior start face is followed by >= 3 symbols (its three
                                                               neighbours are three different faces of the same run)
      G6 nsplit <= nsyms                                       proved
      G3 3 nf / 2 <= nev (nev - 1) / 2                         PREMISE: needs that the vertex/edge graph left by
                                                               BreakNonManifoldEdges is simple (not among C13's theorems)
      G8 number of split events <= nf                          PREMISE (a counting argument over the S faces, not done)
    Both premises are checked by the harness on the real encoder's counts for every generated mesh ('GUARD' lines). *)
Theorem C09_ebenc_counts : forall faces t o, ct_create faces = Some t -> eb_encode_ct t = EOk o ->
  o_nsyms o = Z.of_nat (length (o_syms o)) /\
  o_nsplit o = Z.of_nat (count_occ Z.eq_dec (o_syms o) TOPOLOGY_S) /\ (0 <= o_nsplit o <= o_nsyms o)%Z /\
  length (o_pcc o) = length (o_syms o) + count_occ bool_dec (o_bits o) true /\
  3 * count_occ bool_dec (o_bits o) true <= length (o_syms o) /\
  Z.of_nat (length (o_pcc o)) = o_nfaces o /\
  o_nverts o = (Z.of_nat (length (ct_vcorn t)) - Z.of_nat (ct_niso t))%Z /\
  o_nfaces o = (Z.of_nat (length faces) - Z.of_nat (ct_ndeg t))%Z /\
  Forall (fun x => In x [0; 1; 3; 5; 7]%Z) (o_syms o) /\
  Forall (fun e => match e with (src, spl, ed) => (0 <= spl < src)%Z /\ (src < o_nsyms o)%Z /\ (ed = 0 \/ ed = 1)%Z end) (o_events o) /\
  StronglySorted (fun e e' => (fst (fst e) <= fst (fst e'))%Z) (o_events o).
Proof. exact eb_encode_ct_counts. Qed.
Print Assumptions C09_ebenc_counts.

Theorem C09_ebenc_stream_never_rejected_by_guards_partial : forall faces t o rm,
  ct_create faces = Some t -> eb_encode_ct t = EOk o ->
  (Z.of_nat (3 * length faces + length (ct_vcorn t)) < 2147483648)%Z ->
  ((3 * o_nfaces o) / 2 <= (o_nverts o * (o_nverts o - 1)) / 2)%Z ->
  (Z.of_nat (length (o_events o)) <= o_nfaces o)%Z ->
  eb_decode_of o rm =
    Edgebreaker.eb_core (3 * o_nfaces o) (o_nverts o + o_nsplit o) (o_nfaces o) rm (rev (o_syms o)) (o_events o)
                        (Edgebreaker.bits_of_list (o_bits o)) /\
  (0 <= o_nverts o <= 3 * o_nfaces o)%Z /\ (o_nsyms o <= o_nfaces o <= o_nsyms o + o_nsyms o / 3)%Z /\
  (0 <= o_nsplit o <= o_nsyms o)%Z /\ (0 <= o_nverts o + o_nsplit o < 2147483648)%Z /\ (0 <= o_nfaces o <= 1431655765)%Z.
Proof. exact eb_encode_ct_guards. Qed.
Print Assumptions C09_ebenc_stream_never_rejected_by_guards_partial.

Theorem C09_ebenc_trav_premises : forall faces t o, ct_create faces = Some t -> eb_encode_ct t = EOk o ->
  (Z.of_nat (3 * length faces + length (ct_vcorn t)) < 2147483648)%Z ->
  ((3 * o_nfaces o) / 2 <= (o_nverts o * (o_nverts o - 1)) / 2)%Z ->
  EbTraversal.conn_guards (o_nverts o) (o_nfaces o) (o_nsyms o) (o_nsplit o) = true /\
  (0 <= o_nverts o < 2 ^ 32 /\ 0 <= o_nfaces o < 2 ^ 32 /\ 0 <= o_nsyms o < 2 ^ 32 /\ 0 <= o_nsplit o < 2 ^ 32)%Z /\
  Forall (fun e => match e with (src, spl, ed) => (0 <= spl <= src /\ src < 2 ^ 32 /\ (ed = 0 \/ ed = 1))%Z end) (o_events o) /\
  Forall (fun x => In x [0; 1; 3; 5; 7]%Z) (o_syms o).
Proof. exact eb_encode_ct_trav_premises. Qed.
Print Assumptions C09_ebenc_trav_premises.

(** ** (3c) Round trip.
    FULL statements (NOW PROVED, in Properties_EBSIM.v: C01_ebsim_roundtrip(_ct), and composed with TRAV down to bytes in
    C01_eb_connectivity_stream_roundtrip; when this file was written none was proved; each is the executable check [eb_roundtrip_b] evaluated by the driver on every
    generated mesh, with the checker sound by C01_ebenc_iso_checker_sound):
      C01_ebenc_roundtrip_no_split :  eb_encode_ct t = EOk o -> ~ In TOPOLOGY_S (o_syms o) ->
          exists n s, eb_decode_of o rm = Edgebreaker.Ok (n, s) /\ eb_iso (ct_c2v t) (ct_opp t) (o_pcc o) (c2v s) (copp s)
      C01_ebenc_roundtrip_no_event :  the same with  o_events o = []  instead (S allowed, genus 0 with holes)
      C01_ebenc_roundtrip          :  the same without side condition.
    The simulation relation for the proof is [sim] (Proofs/EbEncoder_proofs.v): the encoder after i symbols against the
    decoder after the last ns - i symbols; only its base case is proved. *)
Theorem C01_ebenc_sim_base : forall c2v opp P eevs,
  Forall (fun e => (fst (fst e) < Z.of_nat (length P))%Z) eevs ->
  sim c2v opp P (length P) [] eevs (Edgebreaker.init_st eevs).
Proof. exact sim_base. Qed.
Print Assumptions C01_ebenc_sim_base.

(** ** Examples (the same meshes as Properties_EB: what the real encoder produced, what the real decoder consumed) *)
Definition grid (w h : nat) (wrap : bool) : list (nat * nat * nat) :=
  let cols := if wrap then w else S w in let rows := if wrap then h else S h in
  let id x y := (Nat.modulo y rows) * cols + Nat.modulo x cols in
  flat_map (fun y => flat_map (fun x => [(id x y, id (S x) y, id (S x) (S y)); (id x y, id (S x) (S y), id x (S y))])
                              (seq 0 w)) (seq 0 h).
Definition run faces :=
  match ct_create faces with
  | Some t => match eb_encode_ct t with
              | EOk o => Some (o_syms o, o_events o, o_bits o, o_pcc o, eb_roundtrip_b (ct_c2v t) (ct_opp t) o true)
              | _ => None
              end
  | None => None
  end.

Example ebenc_tetrahedron :
  run [(0,1,2); (0,3,1); (1,3,2); (2,3,0)] = Some ([0; 5; 7]%Z, [], [true], [3; 6; 10; 1], true).
Proof. vm_compute. reflexivity. Qed.

(** torus: two topology split events; the decoder reads the symbols reversed: Properties_EB.eb_torus3x3 *)
Example ebenc_torus3x3 :
  run (grid 3 3 true) =
  Some ([0;0;0;0;5;0;1;0;5;1;1;5;3;1;7;7;7]%Z, [(15, 9, 1); (16, 6, 1)]%Z, [true],
        [42; 35; 22; 32; 17; 14; 53; 48; 41; 36; 45; 7; 9; 25; 28; 20; 5; 1], true).
Proof. vm_compute. reflexivity. Qed.

(** a disc with a hole: boundary start configuration, EncodeHole inside an S symbol; Properties_EB.eb_grid3x3_with_hole *)
Example ebenc_grid3x3_with_hole :
  run (firstn 8 (grid 3 3 false) ++ skipn 10 (grid 3 3 false)) =
  Some ([1;3;5;1;7;5;3;5;5;3;5;1;7;5;3;7]%Z, [(15, 0, 0)]%Z, [false],
        [3; 19; 21; 35; 30; 41; 36; 47; 44; 29; 26; 13; 16; 7; 10; 2], true).
Proof. vm_compute. reflexivity. Qed.

(** degenerated faces are skipped, their vertices are isolated; a mesh with only degenerated faces is refused *)
Example ebenc_degenerate_skipped :
  run [(0,0,1); (2,3,4); (4,4,4)] = Some ([7]%Z, [], [false], [3], true).
Proof. vm_compute. reflexivity. Qed.
Example ebenc_all_degenerate_fails :
  match ct_create [(0,0,1); (1,1,1)] with Some t => eb_encode_ct t = EFail | None => False end.
Proof. vm_compute. reflexivity. Qed.
