(** C15 — writing a geometry to OBJ/PLY/STL and reading it back preserves it.
    This file only restates theorems proved in Proofs/ and prints their assumptions.

    Vocabulary: an attribute value is the list of its BYTES (float bit patterns are compared as bits, never as
    numbers); [att_value a p] = the bytes point p carries in attribute a; [geom g] = the faces of g in order, each
    as the three per-corner tuples of attribute value bytes (Model/Dedup.v, property C14); results of readers:
    [Ok x] / [Reject] / [Oob] (the C++ reads past the input) / [Unmod] (outside the modelled dialect). *)
From Coq Require Import List ZArith Bool Arith.
From Draco Require Import Base.Codec Model.Varint Model.Dedup Model.ObjPlyStl
  Proofs.Dedup_proofs Proofs.IoText_proofs Proofs.ObjPlyStl_proofs Proofs.PlyRoundtrip_proofs Proofs.ObjRoundtrip_proofs.
Import ListNotations.
Local Open Scope Z_scope.

(* ------------------------------------------------------------------------------------------- STL *)
(** For every mesh with float32 positions (ANY bit patterns, any number of faces, any sharing of points), for
    whatever 12 normal bytes per face the writer's float32 cross product produced ([nrms] is universally
    quantified: the writer recomputes normals and never copies a normal attribute; the reader stores them as
    a per-face attribute without looking at them), and whatever follows the file:
    StlDecoder returns a well-formed mesh without duplicate points whose face f, corner c carries exactly the
    12 position bytes of corner c of input face f; same number of faces, same order.  The reader's
    TriangleSoupMeshBuilder deduplication is composed in through C14's builder theorem. *)
Theorem C15_stl_roundtrip_exact : forall nrms m, stl_ok nrms m ->
  exists bs, stl_write nrms m = Some bs /\ forall rest,
  exists g, stl_read (bs ++ rest) = Ok (Some g) /\
    geom g = map (fun f => let fc := nth f (si_faces m) (0, 0, 0)%nat in
                           let n := nth f nrms [] in
                           ([att_value (si_pos m) (fst (fst fc)); n], [att_value (si_pos m) (snd (fst fc)); n],
                            [att_value (si_pos m) (snd fc); n]))
                 (seq 0 (length (si_faces m))) /\
    wf_geo g = true /\ NoDup (map (pkey (g_atts g)) (seq 0 (g_np g))).
Proof. exact stl_roundtrip. Qed.
Print Assumptions C15_stl_roundtrip_exact.

(* ------------------------------------------------------------------------------------------- PLY *)
(** Vocabulary (Proofs/PlyRoundtrip_proofs.v).
    [ply_ok m] = what PlyEncoder must be given so that the file it writes is a PLY file whose header describes its
    data (the writer itself checks only the face corners):
      fewer than 2^31 points; positions FLOAT32 or INT32 with 12-byte values; if a 3-component NORMAL attribute is
      present (others are not written): FLOAT32, 12-byte values; if a COLOR attribute is present: UINT8 with 1..4
      components; if written through the Mesh entry: fewer than 2^31 faces, every corner < number of points, and a
      2-component TEX_COORD attribute (others are not written), if present, of a type the header can name (float / uchar /
      int) with values of 2 components.  Values may be ANY bytes (every float bit pattern; 0x0A / 0x0D anywhere,
      also as the first byte after "end_header\n").
    [ply_read_atts m] = POSITION, then NORMAL / COLOR if written: one value per point, identity map, value p = the
      bytes point p carries in the input.  [ply_in_atts m] = those attributes of the input itself.
    TEXTURE COORDINATES ARE NOT PART OF WHAT COMES BACK: the writer stores them per face corner in a "texcoord" list
    property and PlyDecoder never reads it (the reader skips over it correctly: that IS part of the theorems). *)

(** PlyReader::Read on PlyEncoder's output: header understood as written (elements, properties, counts), every row
    of the vertex and face elements read back cell by cell, exactly the file consumed whatever follows it *)
Theorem C15_ply_reader_written : forall m, ply_ok m ->
  exists bs, ply_write m = Some bs /\ forall rest, ply_reader (bs ++ rest) = Ok (ply_tables m, rest).
Proof. exact ply_reader_written. Qed.
Print Assumptions C15_ply_reader_written.

(** PlyDecoder before its final deduplication: exactly the per-point attribute bytes of the input, in point order, and
    exactly the faces of the input, in order; read as a point cloud: the same without faces *)
Theorem C15_ply_decoder_tables_exact : forall m, ply_ok m ->
  exists bs, ply_write m = Some bs /\ forall rest,
    ply_decode_raw true (bs ++ rest) = Ok (mkGeo (pi_np m) (ply_read_atts m) (in_faces m)) /\
    ply_decode_raw false (bs ++ rest) = Ok (mkGeo (pi_np m) (ply_read_atts m) []).
Proof. exact ply_raw_roundtrip. Qed.
Print Assumptions C15_ply_decoder_tables_exact.

(** THE ROUND TRIP, decoder as called.  For every m with [ply_ok m] the encoder succeeds and, whatever follows the
    file (the format is self-delimiting through its counts):
    - read as a point cloud: point p carries bit for bit the position / normal / colour of input point p; no faces;
    - read as a mesh: same number of faces, same order, corner c of face f carries bit for bit the attribute values of
      corner c of input face f; the result is well formed; without faces it is the point-cloud result; with faces
      (DeduplicateAttributeValues + DeduplicatePointIds ran: C14) no two points have the same value indices, and a
      map [im] sends every input point to a result point with the same bytes, onto all result points, and the faces
      are the input faces renamed by [im]. *)
Theorem C15_ply_roundtrip_exact : forall m, ply_ok m ->
  exists bs, ply_write m = Some bs /\ forall rest,
    ply_decode false (bs ++ rest) = Ok (mkGeo (pi_np m) (ply_read_atts m) []) /\
    pc_geom (mkGeo (pi_np m) (ply_read_atts m) []) = map (point_tuple (ply_in_atts m)) (seq 0 (pi_np m)) /\
    exists g, ply_decode true (bs ++ rest) = Ok g /\
      geom g = geom (mkGeo (pi_np m) (ply_in_atts m) (in_faces m)) /\
      wf_geo g = true /\
      (in_faces m = [] -> g = mkGeo (pi_np m) (ply_read_atts m) []) /\
      (in_faces m <> [] ->
         NoDup (map (pkey (g_atts g)) (seq 0 (g_np g))) /\
         exists im, length im = pi_np m /\
           g_faces g = map (remap_face im) (in_faces m) /\
           (forall p, (p < pi_np m)%nat -> (nth p im invalid_index < g_np g)%nat /\
                      point_tuple (g_atts g) (nth p im invalid_index) = point_tuple (ply_in_atts m) p) /\
           (forall q, (q < g_np g)%nat -> exists p, (p < pi_np m)%nat /\ nth p im invalid_index = q)).
Proof. exact ply_roundtrip. Qed.
Print Assumptions C15_ply_roundtrip_exact.

(** DecodeVertexData on any table laid out as the writer declares it (20 layouts: float/int positions x normals or
    not x 0..4 colour components): the attributes are exactly the selected columns, re-assembled per entry *)
Theorem C15_ply_vertex_table : forall dt hasn nc nm rows,
  (dt = DT_FLOAT32 \/ dt = DT_INT32) -> 0 <= nc <= 4 ->
  Forall (Forall2 scalar_cell (vprops_of dt hasn nc)) rows -> Z.of_nat (length rows) < 2 ^ 31 ->
  decode_vertices (mkElem nm (Z.of_nat (length rows)) (vprops_of dt hasn nc)) (map (map CS) rows) =
  Ok (length rows, vertex_atts dt hasn nc rows).
Proof. exact decode_vertices_table. Qed.
Print Assumptions C15_ply_vertex_table.

(** DecodeFaceData on the writer's face records (uchar count 3, three int32 indices, optionally the texcoord list) *)
Theorem C15_ply_face_table : forall m nm cnt fs,
  forallb (face_ok (pi_np m)) fs = true -> Z.of_nat (pi_np m) < 2 ^ 31 ->
  decode_faces (mkElem nm cnt (fprops_of (tex_dt m))) (map (frow m) fs) = Ok (map zface fs).
Proof. exact decode_faces_written. Qed.
Print Assumptions C15_ply_face_table.

(** the generic layers the composition rests on (each for unbounded inputs): *)
(** the header loop: for ANY list of well-formed header lines (any number of elements / properties, any
    counts) the reader's loop performs exactly one [header_step] per line and stops exactly behind
    "end_header\n", whatever byte the binary data starts with; it never runs out of fuel *)
Theorem C15_ply_header_loop : forall ls fuel es rest,
  Forall goodline ls -> (length ls < fuel)%nat ->
  parse_header fuel es (render_lines ls ++ s_end_header ++ 10 :: rest) =
  match header_fold es ls with Some es' => Ok (es', rest) | None => Reject end.
Proof. exact parse_header_lines. Qed.
Print Assumptions C15_ply_header_loop.

(** element data: any number of rows of any scalar properties are read back cell by cell, consuming exactly
    the rows (no byte of what follows), never out of bounds *)
Theorem C15_ply_rows : forall ps rows rest, Forall (Forall2 scalar_cell ps) rows ->
  read_rows (length rows) ps (concat (map (@concat Z) rows) ++ rest) = Ok (map (map CS) rows, rest).
Proof. exact read_rows_scalars. Qed.
Print Assumptions C15_ply_rows.

(** PlyPropertyReader::ReadValue(i) returns entry i of the property bit for bit and stays inside its data *)
Theorem C15_ply_read_value : forall cells sz i,
  Forall (fun c => Z.of_nat (length c) = sz) cells -> 0 < sz -> (i < length cells)%nat ->
  read_at (concat cells) sz (Z.of_nat i) = Some (nth i cells []).
Proof. exact read_at_uniform. Qed.
Print Assumptions C15_ply_read_value.

(* ------------------------------------------------------------------------------------------- OBJ *)
(** Vocabulary (Proofs/ObjRoundtrip_proofs.v).  The model reads and writes the file as a list of tokenised lines
    ([oline]: record kind + its blank-separated tokens; the corner tokens of "f" lines are byte strings parsed by the
    model).  The NUMBER TEXT is an oracle: [fmt x] = the token snprintf("%F") prints for the float with bytes x,
    [parse t] = what parser::ParseFloat reads from token t; the theorems are universally quantified over them and over
    [rt] with the explicit hypothesis  forall x in obj_numbers m, parse (fmt x) = Some (rt x)   (every number the
    writer prints is read back to [rt x]; libc formatting is outside the model).
    [obj_ok m fs] = the mesh features inside the theorem: written through the Mesh entry with faces fs <> [];
      POSITION and the optional TEX_COORD / NORMAL attributes are FLOAT32, structurally valid (wf_attr: any explicit or
      identity point -> value map) with fewer than 2^31 values; face corners < number of points.  NOT inside: point
      clouds (known finding), materials / "usemtl" / "mtllib", sub-objects "o", "added_edges" polygon reconstruction,
      metadata, non-float attributes; the byte-level lexing of lines (the harness tokenises).
    [rtv k v] = value v after printing and parsing each of its k numbers (missing components print as 0.0: ConvertValue);
    [obj_raw m fs] = value tables in record order + per attribute the corner -> value map of the input (one point per
    face corner); [oface m f] = the three corner tuples (position, tex-coord, normal) of input face f, each number
    through [rtv]. *)

(** BOTH PASSES of ObjDecoder on ObjEncoder's lines, before the final deduplication.  The counting pass finds the
    numbers of v / vt / vn records and of triangles the writer wrote; the parse pass rebuilds every value table in
    record order and, for every face corner, the index triplet "p", "p/t", "p//n" or "p/t/n" resolves to the value
    indices the corner had in the input: the INDEX STRUCTURE (which corners share a position / tex-coord / normal
    record: seams) is reproduced exactly. *)
Theorem C15_obj_decoder_tables_exact : forall fmt parse rt m fs, obj_ok m fs ->
  (forall x, In x (obj_numbers m) -> parse (fmt x) = Some (rt x)) ->
  exists ls, obj_write fmt m = Some ls /\ forall mesh, obj_decode_raw parse mesh ls = Ok (obj_raw rt m fs mesh).
Proof. exact obj_raw_roundtrip. Qed.
Print Assumptions C15_obj_decoder_tables_exact.

(** THE STRUCTURE ROUND TRIP, decoder as called (DeduplicateAttributeValues + DeduplicatePointIds: C14): same number
    of faces, same order, corner c of face f carries the (printed and parsed) position / tex-coord / normal of
    corner c of input face f; well formed; no two points with the same value indices *)
Theorem C15_obj_structure_roundtrip : forall fmt parse rt m fs, obj_ok m fs ->
  (forall x, In x (obj_numbers m) -> parse (fmt x) = Some (rt x)) ->
  exists ls, obj_write fmt m = Some ls /\
    obj_decode_raw parse true ls = Ok (obj_raw rt m fs true) /\
    exists g, obj_decode parse true ls = Ok g /\
      geom g = map (oface rt m) fs /\ length (g_faces g) = length fs /\
      wf_geo g = true /\ NoDup (map (pkey (g_atts g)) (seq 0 (g_np g))).
Proof. exact obj_roundtrip. Qed.
Print Assumptions C15_obj_structure_roundtrip.

(** with the oracle "parse (print x) = x" (and values of 3 / 2 / 3 floats) the decoded mesh describes exactly the
    input mesh, bit for bit *)
Theorem C15_obj_roundtrip_exact_numbers : forall fmt parse m fs, obj_ok m fs -> obj_sized m ->
  (forall x, In x (obj_numbers m) -> parse (fmt x) = Some x) ->
  exists ls, obj_write fmt m = Some ls /\
    exists g, obj_decode parse true ls = Ok g /\
      geom g = geom (mkGeo (oi_np m) (obj_in_atts m) fs) /\ length (g_faces g) = length fs /\
      wf_geo g = true /\ NoDup (map (pkey (g_atts g)) (seq 0 (g_np g))).
Proof. exact obj_roundtrip_exact. Qed.
Print Assumptions C15_obj_roundtrip_exact_numbers.

(** index bookkeeping of the "f" records: the triplet text EncodeFaceCorner writes ("p", "p/t", "p//n", "p/t/n",
    1-based decimal) is parsed back by ParseVertexIndices to exactly those indices, the token is consumed
    completely, and MapPointToVertexIndices maps it to the 0-based value index it was written from. *)
Theorem C15_obj_corner_roundtrip : forall p t n,
  idx_ok p -> (forall v, t = Some v -> idx_ok v) -> (forall v, n = Some v -> idx_ok v) ->
  parse_corner (corner_text p t n) = Some (Z.of_nat p + 1, opt_idx t, opt_idx n, []).
Proof. exact parse_corner_text. Qed.
Print Assumptions C15_obj_corner_roundtrip.

Theorem C15_obj_index_resolution : forall v cur tot ok, (v < tot)%nat ->
  resolve_index (Z.of_nat v + 1) cur tot ok = Some v.
Proof. exact resolve_index_written. Qed.
Print Assumptions C15_obj_index_resolution.

(* ---------------------------------------------------------------------------------- text layer *)
(** decimal integers (element counts of the PLY header, OBJ indices) are read back exactly *)
Theorem C15_decimal_count_roundtrip : forall n, 0 <= n < 2 ^ 63 -> strtoll (dec_str n) = n.
Proof. exact strtoll_dec_str. Qed.
Print Assumptions C15_decimal_count_roundtrip.

Theorem C15_decimal_index_roundtrip : forall n rest, 0 <= n < 2 ^ 31 -> stops rest ->
  parse_signed_int (dec_str n ++ rest) = Some (n, rest).
Proof. exact parse_signed_int_dec_str. Qed.
Print Assumptions C15_decimal_index_roundtrip.

(** a header line made of blank-separated words is split back into those words, and the line reader stops
    exactly behind its '\n' whatever byte follows (the binary data may start with any byte) *)
Theorem C15_header_line_roundtrip : forall ws rest, Forall goodword ws ->
  parse_line (join_sp ws ++ 10 :: rest) = (join_sp ws, rest) /\ split_words (join_sp ws) = ws.
Proof. exact header_line_roundtrip. Qed.
Print Assumptions C15_header_line_roundtrip.

(* ------------------------------------------------------------- non-vacuity: concrete, non-trivial values *)
Definition ex_v3 (a b c : Z) : bytes := [a; 0; 128; 63; b; 0; 0; 64; c; 0; 64; 192].
Definition ex_pos : attr := mkAttr 3 DT_FLOAT32 [ex_v3 1 2 3; ex_v3 4 5 6; ex_v3 7 8 9] false [0; 1; 2; 1]%nat.
Definition ex_nrm : attr := mkAttr 3 DT_FLOAT32 [ex_v3 0 0 1; ex_v3 0 1 0] false [0; 0; 1; 1]%nat.
Definition ex_col : attr := mkAttr 3 DT_UINT8 [[255; 0; 7]; [1; 2; 3]; [9; 9; 9]; [255; 0; 7]] true [].
Definition ex_tex : attr := mkAttr 2 DT_FLOAT32 [[0;0;0;0; 0;0;128;63]; [0;0;0;63; 0;0;0;63]] false [0; 1; 1; 0]%nat.
Definition ex_faces : list face := [(0, 1, 2); (2, 1, 3); (3, 3, 0)]%nat.

Example C15_example_stl :
  let m := mkStlIn ex_pos ex_faces in
  let nrms := [ex_v3 0 0 1; ex_v3 0 0 1; ex_v3 0 0 0] in
  stl_ok nrms m /\
  match stl_write nrms m with
  | Some bs => length bs = 234%nat /\
               match stl_read (bs ++ [1; 2; 3]) with
               | Ok (Some g) => g_np g = 5%nat /\ g_faces g = [(0, 1, 2); (2, 1, 1); (3, 3, 4)]%nat /\
                                map (fun t => let '(a, _, _) := t in hd [] a) (geom g) = [ex_v3 1 2 3; ex_v3 7 8 9; ex_v3 4 5 6]
               | _ => False
               end
  | None => False
  end.
Proof.
  cbn zeta. split.
  - unfold stl_ok. cbn. repeat split; try lia; repeat constructor.
  - vm_compute. repeat split; reflexivity.
Qed.

(** PLY: a mesh with shared points, normals, colours and texture coordinates: the reader's pre-dedup result has the
    per-point bytes in point order and the faces in order; the decoder's final result describes the same faces *)
Example C15_example_ply :
  let m := mkPlyIn 4 ex_pos (Some ex_nrm) (Some ex_col) (Some ex_tex) (Some ex_faces) in
  match ply_write m with
  | Some bs =>
    ply_decode_raw true (bs ++ [7; 7]) =
      Ok (mkGeo 4 [mkAttr 3 DT_FLOAT32 (map (att_value ex_pos) (seq 0 4)) true [];
                   mkAttr 3 DT_FLOAT32 (map (att_value ex_nrm) (seq 0 4)) true [];
                   mkAttr 3 DT_UINT8 (map (att_value ex_col) (seq 0 4)) true []] ex_faces) /\
    match ply_decode true bs with
    | Ok g => geom g = geom (mkGeo 4 [ex_pos; ex_nrm; ex_col] ex_faces) /\ g_np g = 4%nat
    | _ => False
    end /\
    match ply_decode false bs with
    | Ok g => pc_geom g = pc_geom (mkGeo 4 [ex_pos; ex_nrm; ex_col] []) /\ g_faces g = []
    | _ => False
    end /\
    ply_decode true (firstn 500 bs) = Oob /\ ply_decode true (firstn 100 bs) = Reject
  | None => False
  end.
Proof. vm_compute. repeat split; reflexivity. Qed.

(** OBJ with the number oracle instantiated by the identity (token = the float's 4 bytes): the whole
    write -> read path then preserves every face's per-corner (position, tex, normal) bytes *)
Example C15_example_obj :
  let m := mkObjIn 4 ex_pos (Some ex_tex) (Some ex_nrm) (Some ex_faces) in
  match obj_write (fun b => b) m with
  | Some ls =>
    length ls = 10%nat /\
    match obj_decode (fun t => Some t) true ls with
    | Ok g => geom g = geom (mkGeo 4 [ex_pos; ex_tex; ex_nrm] ex_faces) /\ length (g_faces g) = 3%nat
    | _ => False
    end
  | None => False
  end.
Proof. vm_compute. repeat split; reflexivity. Qed.

Example C15_example_corner :
  corner_text 11 (Some 4%nat) None = [49; 50; 47; 53] /\ corner_text 0 None (Some 99%nat) = [49; 47; 47; 49; 48; 48] /\
  parse_corner [45; 50; 47; 47; 45; 49] = Some (-2, 0, -1, []) /\ resolve_index (-2) 5 9 false = Some 3%nat.
Proof. vm_compute. repeat split; reflexivity. Qed.

(** the hypotheses of the composed theorems are satisfiable: the mesh of the examples above (shared points, explicit
    maps, normals, colours, texture coordinates) and a point cloud whose data starts with 0x0D 0x0A right behind
    "end_header\n" *)
Ltac c15_vals4 := intros p Hp; do 4 (destruct p as [|p]; [reflexivity|]); exfalso; lia.
Ltac c15_vals2 := intros p Hp; do 2 (destruct p as [|p]; [reflexivity|]); exfalso; lia.
Example C15_example_ply_ok :
  ply_ok (mkPlyIn 4 ex_pos (Some ex_nrm) (Some ex_col) (Some ex_tex) (Some ex_faces)) /\
  in_faces (mkPlyIn 4 ex_pos (Some ex_nrm) (Some ex_col) (Some ex_tex) (Some ex_faces)) <> [].
Proof.
  split; [|discriminate]. unfold ply_ok. cbn [pi_np pi_pos pi_col pi_faces].
  split; [reflexivity|]. split; [left; reflexivity|]. split; [c15_vals4|].
  split; [intros a E; injection E as <-; split; [reflexivity|c15_vals4]|].
  split; [intros a E; injection E as <-; split; [reflexivity|split; [cbn; lia|c15_vals4]]|].
  intros fs E. injection E as <-. split; [reflexivity|]. split; [reflexivity|].
  intros t E. injection E as <-. split; [eexists; reflexivity|c15_vals4].
Qed.

Definition ex_nasty : ply_in :=
  mkPlyIn 2 (mkAttr 3 DT_FLOAT32 [[13; 10; 13; 10; 10; 13; 0; 255; 10; 10; 13; 13]; [10; 10; 10; 10; 13; 13; 13; 13; 0; 0; 128; 127]] true [])
          None (Some (mkAttr 1 DT_UINT8 [[10]; [13]] true [])) None None.
Example C15_example_ply_nasty :
  ply_ok ex_nasty /\
  match ply_write ex_nasty with
  | Some bs => firstn 13 (skipn (length bs - 26 - 11) bs) = [101; 110; 100; 95; 104; 101; 97; 100; 101; 114; 10; 13; 10] /\
               ply_decode false (bs ++ [13; 10]) = Ok (mkGeo 2 (ply_read_atts ex_nasty) []) /\
               ply_decode true (bs ++ [10]) = Ok (mkGeo 2 (ply_read_atts ex_nasty) [])
  | None => False
  end.
Proof.
  split.
  - unfold ply_ok, ex_nasty. cbn [pi_np pi_pos pi_col pi_faces].
    split; [reflexivity|]. split; [left; reflexivity|]. split; [c15_vals2|].
    split; [intros a E; discriminate|].
    split; [intros a E; injection E as <-; split; [reflexivity|split; [cbn; lia|c15_vals2]]|].
    intros fs E. discriminate.
  - vm_compute. repeat split; reflexivity.
Qed.

Definition ex_obj : obj_in := mkObjIn 4 ex_pos (Some ex_tex) (Some ex_nrm) (Some ex_faces).
Example C15_example_obj_ok :
  obj_ok ex_obj ex_faces /\ obj_sized ex_obj /\
  (forall x, In x (obj_numbers ex_obj) -> (fun t => Some t) ((fun b : bytes => b) x) = Some x) /\
  length (obj_numbers ex_obj) = 19%nat.
Proof.
  split; [|split; [|split; [intros; reflexivity|reflexivity]]].
  - unfold obj_ok, ex_obj. cbn [oi_np oi_pos oi_tex oi_nrm oi_faces].
    split; [reflexivity|]. split; [discriminate|]. split; [reflexivity|].
    split; [split; [reflexivity|cbn; lia]|].
    split; [intros a E; injection E as <-; split; [reflexivity|cbn; lia]|].
    split; [intros a E; injection E as <-; split; [reflexivity|cbn; lia]|reflexivity].
  - unfold obj_sized. split; [repeat constructor|].
    split; intros a E; vm_compute in E; injection E as <-; repeat constructor.
Qed.
