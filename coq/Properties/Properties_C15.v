(** C15 — writing a geometry to OBJ/PLY/STL and reading it back preserves it.
    This file only restates theorems proved in Proofs/ and prints their assumptions.

    Vocabulary: an attribute value is the list of its BYTES (float bit patterns are compared as bits, never as
    numbers); [att_value a p] = the bytes point p carries in attribute a; [geom g] = the faces of g in order, each
    as the three per-corner tuples of attribute value bytes (Model/Dedup.v, property C14); results of readers:
    [Ok x] / [Reject] / [Oob] (the C++ reads past the input) / [Unmod] (outside the modelled dialect). *)
From Coq Require Import List ZArith Bool Arith.
From Draco Require Import Base.Codec Model.Varint Model.Dedup Model.ObjPlyStl
  Proofs.IoText_proofs Proofs.ObjPlyStl_proofs.
Import ListNotations.
Local Open Scope Z_scope.

(* ------------------------------------------------------------------------------------------- STL *)
(** For every mesh with float32 positions (ANY bit patterns, any number of faces, any sharing of points), for
    whatever 12 normal bytes per face the writer's float32 cross product produced ([nrms] is universally
    quantified: the writer recomputes normals and never copies a normal attribute; the reader stores them as
    a per-face attribute without looking at them), and whatever follows the file:
    StlDecoder returns a well-formed mesh without duplicate points whose face f, corner c carries exactly the
    12 position bytes of corner c of input face f; same number of faces, same order.  The reader's
    TriangleSoupMeshBuilder deduplication is composed in through C14's builder theorem. *)
Theorem C15_stl_roundtrip_exact : forall nrms m, stl_ok nrms m ->
  exists bs, stl_write nrms m = Some bs /\ forall rest,
  exists g, stl_read (bs ++ rest) = Ok (Some g) /\
    geom g = map (fun f => let fc := nth f (si_faces m) (0, 0, 0)%nat in
                           let n := nth f nrms [] in
                           ([att_value (si_pos m) (fst (fst fc)); n], [att_value (si_pos m) (snd (fst fc)); n],
                            [att_value (si_pos m) (snd fc); n]))
                 (seq 0 (length (si_faces m))) /\
    wf_geo g = true /\ NoDup (map (pkey (g_atts g)) (seq 0 (g_np g))).
Proof. exact stl_roundtrip. Qed.
Print Assumptions C15_stl_roundtrip_exact.

(* ------------------------------------------------------------------------------------------- PLY *)
(** FULL STATEMENT (ply_roundtrip_exact), NOT PROVED AS ONE THEOREM:
      for every [m : ply_in] with 3 x float32 positions, optional 3 x float32 normals, optional 1..4 x uint8 colours,
      optional 2 x float32 texture coordinates, fewer than 2^31 points and faces, all face corners < number of points:
      exists bs, ply_write m = Some bs /\ forall rest,
        ply_decode_raw true (bs ++ rest) = Ok (mkGeo np [per-point position; normal; colour bytes, identity maps] faces)
        /\ ply_decode_raw false (bs ++ rest) = Ok (the same without faces)
      and hence (C14_dedup_*_preserves) geom (ply_decode true bs) = geom of the input, pc_geom for point clouds.
    It is checked by computation on the examples below and tied byte for byte / field for field to the
    implementation by the correspondence; what IS proved, for unbounded inputs, are its three generic layers: *)

(** the header loop: for ANY list of well-formed header lines (any number of elements / properties, any
    counts) the reader's loop performs exactly one [header_step] per line and stops exactly behind
    "end_header\n", whatever byte the binary data starts with; it never runs out of fuel *)
Theorem C15_ply_header_loop_partial : forall ls fuel es rest,
  Forall goodline ls -> (length ls < fuel)%nat ->
  parse_header fuel es (render_lines ls ++ s_end_header ++ 10 :: rest) =
  match header_fold es ls with Some es' => Ok (es', rest) | None => Reject end.
Proof. exact parse_header_lines. Qed.
Print Assumptions C15_ply_header_loop_partial.

(** element data: any number of rows of any scalar properties are read back cell by cell, consuming exactly
    the rows (no byte of what follows), never out of bounds *)
Theorem C15_ply_rows_partial : forall ps rows rest, Forall (Forall2 scalar_cell ps) rows ->
  read_rows (length rows) ps (concat (map (@concat Z) rows) ++ rest) = Ok (map (map CS) rows, rest).
Proof. exact read_rows_scalars. Qed.
Print Assumptions C15_ply_rows_partial.

(** PlyPropertyReader::ReadValue(i) returns entry i of the property bit for bit and stays inside its data *)
Theorem C15_ply_read_value_partial : forall cells sz i,
  Forall (fun c => Z.of_nat (length c) = sz) cells -> 0 < sz -> (i < length cells)%nat ->
  read_at (concat cells) sz (Z.of_nat i) = Some (nth i cells []).
Proof. exact read_at_uniform. Qed.
Print Assumptions C15_ply_read_value_partial.

(* ------------------------------------------------------------------------------------------- OBJ *)
(** FULL STATEMENT (obj_structure_roundtrip), NOT PROVED AS ONE THEOREM: for every mesh with float32 positions and
    optional 2-component tex-coords / normals, for every number oracle (fmt, parse) and relation [close] with
    [forall x, exists y, parse (fmt x) = Some y /\ close x y]:  obj_decode parse true (obj_write fmt m) = Ok g with the same
    number of faces and, for face i corner c, attribute values componentwise [close] to the input's (same i, same c),
    corners that shared a value record still sharing one.  Checked by computation (example below, oracle = identity),
    tied to the implementation token for token, searched end to end; proved for unbounded inputs: the index triplets. *)
(** index bookkeeping of the "f" records: the triplet text EncodeFaceCorner writes ("p", "p/t", "p//n", "p/t/n",
    1-based decimal) is parsed back by ParseVertexIndices to exactly those indices, the token is consumed
    completely, and MapPointToVertexIndices maps it to the 0-based value index it was written from. *)
Theorem C15_obj_corner_roundtrip : forall p t n,
  idx_ok p -> (forall v, t = Some v -> idx_ok v) -> (forall v, n = Some v -> idx_ok v) ->
  parse_corner (corner_text p t n) = Some (Z.of_nat p + 1, opt_idx t, opt_idx n, []).
Proof. exact parse_corner_text. Qed.
Print Assumptions C15_obj_corner_roundtrip.

Theorem C15_obj_index_resolution : forall v cur tot ok, (v < tot)%nat ->
  resolve_index (Z.of_nat v + 1) cur tot ok = Some v.
Proof. exact resolve_index_written. Qed.
Print Assumptions C15_obj_index_resolution.

(* ---------------------------------------------------------------------------------- text layer *)
(** decimal integers (element counts of the PLY header, OBJ indices) are read back exactly *)
Theorem C15_decimal_count_roundtrip : forall n, 0 <= n < 2 ^ 63 -> strtoll (dec_str n) = n.
Proof. exact strtoll_dec_str. Qed.
Print Assumptions C15_decimal_count_roundtrip.

Theorem C15_decimal_index_roundtrip : forall n rest, 0 <= n < 2 ^ 31 -> stops rest ->
  parse_signed_int (dec_str n ++ rest) = Some (n, rest).
Proof. exact parse_signed_int_dec_str. Qed.
Print Assumptions C15_decimal_index_roundtrip.

(** a header line made of blank-separated words is split back into those words, and the line reader stops
    exactly behind its '\n' whatever byte follows (the binary data may start with any byte) *)
Theorem C15_header_line_roundtrip : forall ws rest, Forall goodword ws ->
  parse_line (join_sp ws ++ 10 :: rest) = (join_sp ws, rest) /\ split_words (join_sp ws) = ws.
Proof. exact header_line_roundtrip. Qed.
Print Assumptions C15_header_line_roundtrip.

(* ------------------------------------------------------------- non-vacuity: concrete, non-trivial values *)
Definition ex_v3 (a b c : Z) : bytes := [a; 0; 128; 63; b; 0; 0; 64; c; 0; 64; 192].
Definition ex_pos : attr := mkAttr 3 DT_FLOAT32 [ex_v3 1 2 3; ex_v3 4 5 6; ex_v3 7 8 9] false [0; 1; 2; 1]%nat.
Definition ex_nrm : attr := mkAttr 3 DT_FLOAT32 [ex_v3 0 0 1; ex_v3 0 1 0] false [0; 0; 1; 1]%nat.
Definition ex_col : attr := mkAttr 3 DT_UINT8 [[255; 0; 7]; [1; 2; 3]; [9; 9; 9]; [255; 0; 7]] true [].
Definition ex_tex : attr := mkAttr 2 DT_FLOAT32 [[0;0;0;0; 0;0;128;63]; [0;0;0;63; 0;0;0;63]] false [0; 1; 1; 0]%nat.
Definition ex_faces : list face := [(0, 1, 2); (2, 1, 3); (3, 3, 0)]%nat.

Example C15_example_stl :
  let m := mkStlIn ex_pos ex_faces in
  let nrms := [ex_v3 0 0 1; ex_v3 0 0 1; ex_v3 0 0 0] in
  stl_ok nrms m /\
  match stl_write nrms m with
  | Some bs => length bs = 234%nat /\
               match stl_read (bs ++ [1; 2; 3]) with
               | Ok (Some g) => g_np g = 5%nat /\ g_faces g = [(0, 1, 2); (2, 1, 1); (3, 3, 4)]%nat /\
                                map (fun t => let '(a, _, _) := t in hd [] a) (geom g) = [ex_v3 1 2 3; ex_v3 7 8 9; ex_v3 4 5 6]
               | _ => False
               end
  | None => False
  end.
Proof.
  cbn zeta. split.
  - unfold stl_ok. cbn. repeat split; try lia; repeat constructor.
  - vm_compute. repeat split; reflexivity.
Qed.

(** PLY: a mesh with shared points, normals, colours and texture coordinates: the reader's pre-dedup result has the
    per-point bytes in point order and the faces in order; the decoder's final result describes the same faces *)
Example C15_example_ply :
  let m := mkPlyIn 4 ex_pos (Some ex_nrm) (Some ex_col) (Some ex_tex) (Some ex_faces) in
  match ply_write m with
  | Some bs =>
    ply_decode_raw true (bs ++ [7; 7]) =
      Ok (mkGeo 4 [mkAttr 3 DT_FLOAT32 (map (att_value ex_pos) (seq 0 4)) true [];
                   mkAttr 3 DT_FLOAT32 (map (att_value ex_nrm) (seq 0 4)) true [];
                   mkAttr 3 DT_UINT8 (map (att_value ex_col) (seq 0 4)) true []] ex_faces) /\
    match ply_decode true bs with
    | Ok g => geom g = geom (mkGeo 4 [ex_pos; ex_nrm; ex_col] ex_faces) /\ g_np g = 4%nat
    | _ => False
    end /\
    match ply_decode false bs with
    | Ok g => pc_geom g = pc_geom (mkGeo 4 [ex_pos; ex_nrm; ex_col] []) /\ g_faces g = []
    | _ => False
    end /\
    ply_decode true (firstn 500 bs) = Oob /\ ply_decode true (firstn 100 bs) = Reject
  | None => False
  end.
Proof. vm_compute. repeat split; reflexivity. Qed.

(** OBJ with the number oracle instantiated by the identity (token = the float's 4 bytes): the whole
    write -> read path then preserves every face's per-corner (position, tex, normal) bytes *)
Example C15_example_obj :
  let m := mkObjIn 4 ex_pos (Some ex_tex) (Some ex_nrm) (Some ex_faces) in
  match obj_write (fun b => b) m with
  | Some ls =>
    length ls = 10%nat /\
    match obj_decode (fun t => Some t) true ls with
    | Ok g => geom g = geom (mkGeo 4 [ex_pos; ex_tex; ex_nrm] ex_faces) /\ length (g_faces g) = 3%nat
    | _ => False
    end
  | None => False
  end.
Proof. vm_compute. repeat split; reflexivity. Qed.

Example C15_example_corner :
  corner_text 11 (Some 4%nat) None = [49; 50; 47; 53] /\ corner_text 0 None (Some 99%nat) = [49; 47; 47; 49; 48; 48] /\
  parse_corner [45; 50; 47; 47; 45; 49] = Some (-2, 0, -1, []) /\ resolve_index (-2) 5 9 false = Some 3%nat.
Proof. vm_compute. repeat split; reflexivity. Qed.
