(** EBSIM, decoder side, part 3: the symbol loop and the start-face phase of the decoder along a SCRIPT (the corners [Q] and the
    symbols [Y] in decoder order with the facts [script_at] / [start_ok] the encoder guarantees), and the resulting round trip
    theorems [dec_roundtrip_noS]. *)
From Coq Require Import ZArith List Bool Lia ZifyBool Arith PeanoNat.
From Draco Require Import Model.CornerTable Model.EbEncoder Proofs.CornerTable_proofs Proofs.EbEncoder_proofs.
From Draco Require Model.Edgebreaker Proofs.Edgebreaker_proofs Proofs.Edgebreaker_fan_proofs Proofs.Edgebreaker_oob_proofs Proofs.Edgebreaker_compact_proofs.
From Draco Require Import Proofs.EbSimDec_proofs Proofs.EbSimS_proofs.
From Draco Require Proofs.EbSimCompact_proofs.
Import ListNotations.

Module DO := Draco.Proofs.Edgebreaker_oob_proofs.
Module CP := Draco.Proofs.EbSimCompact_proofs.

Section Loop.
Variables (c2v : list nat) (opp : list (option nat)) (nf : nat).
Hypothesis Hlen : length c2v = 3 * nf.
Hypothesis OK : opp_ok c2v opp.
Variable Q : list nat.
Hypothesis Qrng : forall j, j < length Q -> nth j Q 0 < 3 * nf /\ is_degenerated c2v (nth j Q 0 / 3) = false.
Hypothesis Qnd : NoDup (map (fun c => c / 3) Q).
Local Open Scope Z_scope.
Ltac Zify.zify_post_hook ::= Z.div_mod_to_equations.
Variables NC maxv : Z.

Local Notation eco := (eco Q).
Local Notation SIM := (SIM c2v opp Q).
Local Notation ncr := (ncr opp Q).
Local Notation Cint := (Cint c2v opp nf Q).
Local Notation Cint_t := (Cint_t c2v opp nf Q).
Let opp_facts := opp_facts c2v opp nf Hlen OK.
Let s_opp := s_opp c2v opp Q.
Let s_vtx := s_vtx c2v opp Q.
Let s_nf := s_nf c2v opp Q.
Let eco_inj := eco_inj Q Qnd.
Let eco_face := eco_face Q.
Let eco_next := eco_next Q.
Let eco_rng := eco_rng c2v nf Q Qrng.
Let Q_face_inj := Q_face_inj Q Qnd.
Let dco_next := dco_next c2v opp nf Hlen OK Q Qrng.
Let dco_prev := dco_prev c2v opp nf Hlen OK Q Qrng.
Let prev_next_dco := prev_next_dco c2v opp nf Hlen OK Q Qrng.
Let FI_LAB := FI_LAB c2v opp nf Hlen OK Q Qrng.
Let SIM_E := SIM_E c2v opp nf Hlen OK Q Qrng Qnd NC maxv.
Let SIM_RL := SIM_RL c2v opp nf Hlen OK Q Qrng Qnd NC maxv.
Let SIM_C := SIM_C c2v opp nf Hlen OK Q Qrng Qnd NC maxv.
Let SIM_start := SIM_start c2v opp nf Hlen OK Q Qrng Qnd NC maxv.
Let LAB_start := LAB_start c2v opp nf Hlen OK Q Qrng NC maxv.
Let fan_lmc := fan_lmc c2v opp nf Hlen OK Q Qrng Qnd NC maxv.
Let fan_lmc_t := fan_lmc_t c2v opp nf Hlen OK Q Qrng Qnd.
Let fan_walk := fan_walk c2v opp nf Hlen OK Q Qrng.
Let sim_iso_lab := sim_iso_lab c2v opp nf Hlen OK Q Qrng Qnd.

(** ** the symbol loop of the decoder along the script (classes without S and without split events) *)
Variable rm : bool.
Variable Y : list Z.     (* the symbols in DECODER order *)
Hypothesis HNC : NC = 3 * Z.of_nat (length Q).
Hypothesis HYQ : (length Y <= length Q)%nat.
Hypothesis Hmaxv : cntv Y <= maxv.
Hypothesis FAN : one_fan c2v opp.

(** no split corner is registered; no vertex is invalidated unless an S symbol was decoded with remove_invalid_vertices *)
Definition QUIET (k : nat) (d : D.st) : Prop :=
  D.splits d = [] /\ ((rm = false \/ ~ In 1 (firstn k Y)) -> D.invalid d = []) /\
  (length (D.invalid d) <= count_occ Z.eq_dec (firstn k Y) 1%Z)%nat.

(** the decoder's active corner stack after [k] symbols, as indices of faces (entry j = corner 3j), top first:
    E pushes, C / R / L replace the top, S (without split event) merges the two top entries *)
Fixpoint tops (k : nat) : list nat :=
  match k with
  | O => []
  | S k' => match nth_error Y k' with
            | Some y => if y =? 7 then k' :: tops k' else if y =? 1 then k' :: tl (tl (tops k')) else k' :: tl (tops k')
            | None => tops k'
            end
  end.
Lemma tops_head k : (1 <= k <= length Y)%nat -> exists T, tops k = (k - 1)%nat :: T.
Proof.
  intros Hk. destruct k as [|k']; [lia|]. cbn [tops]. destruct (nth_error Y k') as [y|] eqn:E.
  - replace (S k' - 1)%nat with k' by lia. destruct (y =? 7); [eauto|]. destruct (y =? 1); eauto.
  - apply nth_error_None in E. lia.
Qed.

Lemma tops_lt k : forall j, In j (tops k) -> (j < k)%nat.
Proof.
  induction k as [|k IH]; cbn [tops]; intros j Hj; [contradiction|].
  assert (T1 : forall l : list nat, In j (tl l) -> In j l) by (intros [|x l]; cbn; auto).
  destruct (nth_error Y k) as [y|]; [|apply IH in Hj; lia].
  destruct (y =? 7); [|destruct (y =? 1)]; destruct Hj as [<-|Hj]; try lia.
  - apply IH in Hj. lia.
  - apply T1, T1, IH in Hj. lia.
  - apply T1, IH in Hj. lia.
Qed.

(** what the encoder guarantees about its [k]-th last symbol (corner [Q[k]]) *)
Definition script_at (k : nat) : Prop :=
  match nth_error Y k with
  | Some y =>
    (y = 7 /\ ncr k (eco k 0) /\ ncr k (eco k 1) /\ ncr k (eco k 2)) \/
    (y = 5 /\ (1 <= k)%nat /\ opp_at opp (eco k 2) = Some (eco (k - 1) 0) /\ ncr k (eco k 0) /\ ncr k (eco k 1)) \/
    (y = 3 /\ (1 <= k)%nat /\ opp_at opp (eco k 1) = Some (eco (k - 1) 0) /\ ncr k (eco k 0) /\ ncr k (eco k 2)) \/
    (y = 0 /\ (1 <= k)%nat /\ opp_at opp (eco k 1) = Some (eco (k - 1) 0) /\ ncr k (eco k 0) /\ Cint k) \/
    (y = 1 /\ (1 <= k)%nat /\ opp_at opp (eco k 1) = Some (eco (k - 1) 0) /\ ncr k (eco k 0) /\
       (exists ja T, tops k = (k - 1)%nat :: ja :: T /\ opp_at opp (eco k 2) = Some (eco ja 0)) /\ Sbreak c2v opp nf Q k)
  | None => False
  end.

Lemma sym_loop_sim : forall k, (k <= length Y)%nat -> (forall j, (j < k)%nat -> script_at j) ->
  exists d, D.sym_loop NC maxv rm (Z.of_nat (length Y)) (firstn k Y) 0 (D.init_st []) = D.Ok d /\
    SIM k d /\ DP.W NC maxv (Z.of_nat k) d /\ DF.FI (Z.of_nat k) d /\ D.nv d = cntv (firstn k Y) /\ D.events d = [] /\
    QUIET k d /\ D.stack d = map (fun j => dco j 0) (tops k).
Proof.
  pose proof (cntv_nonneg Y) as Hc0.
  induction k as [|k IH]; intros Hk Sc.
  - exists (D.init_st []). cbn [firstn D.sym_loop]. split; [reflexivity|]. split.
    { constructor; cbn; intros; lia. }
    split; [apply DP.W_init; lia|]. split; [apply DF.FI_init|]. cbn. split; auto. split; auto. split; auto. split; auto.
  - destruct (IH ltac:(lia) ltac:(intros; apply Sc; lia)) as (d & E & HS & HW & HF & Hnv & Hev & Hinv & Hst0).
    assert (Hst : forall k', k = S k' -> exists rest, D.stack d = dco k' 0 :: rest /\ rest = map (fun j => dco j 0) (tl (tops k))).
    { intros k' Ek. destruct (tops_head k ltac:(lia)) as (T & ET). rewrite Hst0, ET. cbn [map tl]. replace (k - 1)%nat with k' by lia. eauto. }
    specialize (Sc k ltac:(lia)). unfold script_at in Sc. destruct (nth_error Y k) as [y|] eqn:Ey; [|contradiction].
    rewrite (firstn_S_nth _ _ _ Ey), sym_loop_app, E. cbn [D.bind D.sym_loop]. rewrite firstn_length_le by lia.
    pose proof (s_nf _ _ HS) as Hnf.
    assert (HW' : DP.W NC maxv (D.nfaces d) d) by (rewrite Hnf; auto).
    assert (HF' : DF.FI (D.nfaces d) d) by (rewrite Hnf; auto).
    assert (HN : 3 * D.nfaces d + 3 <= NC) by lia.
    assert (Hkq : (k < length Q)%nat) by lia.
    pose proof (cntv_firstn Y (S k)) as Hc1. rewrite (firstn_S_nth _ _ _ Ey), cntv_app in Hc1. cbn [cntv] in Hc1.
    assert (Fin : forall d', D.step NC maxv rm (Z.of_nat (length Y)) d (0 + Z.of_nat k) y = D.Ok d' ->
              SIM (S k) d' -> D.nv d' = D.nv d + cntv1 y -> D.events d' = [] -> D.splits d' = D.splits d ->
              (y <> 1 \/ rm = false -> D.invalid d' = D.invalid d) ->
              (length (D.invalid d') <= length (D.invalid d) + (if (y =? 1)%Z then 1 else 0))%nat ->
              D.stack d' <> [] -> D.stack d' = map (fun j => dco j 0) (tops (S k)) ->
              exists d0, D.bind (D.step NC maxv rm (Z.of_nat (length Y)) d (0 + Z.of_nat k) y) (fun s => D.Ok s) = D.Ok d0 /\
                SIM (S k) d0 /\ DP.W NC maxv (Z.of_nat (S k)) d0 /\ DF.FI (Z.of_nat (S k)) d0 /\
                D.nv d0 = cntv (firstn k Y ++ [y]) /\ D.events d0 = [] /\ QUIET (S k) d0 /\
                D.stack d0 = map (fun j => dco j 0) (tops (S k))).
    { intros d' Es S' Nv' Ev' Sp' In' Ln' _ St'. exists d'. rewrite Es. cbn [D.bind]. split; [reflexivity|]. split; [auto|].
      destruct (DP.step_W _ _ _ _ _ _ _ _ HW' HN Es) as (W' & Nf' & _).
      pose proof (DF.step_FI _ _ _ _ _ _ _ _ HW' HF' HN Es) as F'.
      assert (Enf : D.nfaces d' = Z.of_nat (S k)) by lia. rewrite Enf in W', F'.
      split; [auto|]. split; [auto|]. split; [rewrite cntv_app; cbn [cntv]; lia|]. split; [auto|]. split; [|exact St'].
      destruct Hinv as (Q1 & Q2 & Q3). split; [congruence|]. rewrite (firstn_S_nth _ _ _ Ey). split.
      + intros [Hr|Hn].
        * rewrite In' by auto. apply Q2. auto.
        * rewrite In'. apply Q2. right. intro X. apply Hn. apply in_or_app. auto.
          left. intro X. apply Hn. apply in_or_app. right. left. auto.
      + rewrite count_occ_app. cbn [count_occ]. destruct (Z.eq_dec y 1) as [->|Ny].
        * cbn [Z.eqb Pos.eqb] in Ln'. lia.
        * replace (y =? 1) with false in Ln' by lia. lia. }
    destruct Sc as [(-> & N0 & N1 & N2)|[(-> & K1 & Eo & N0 & N1)|[(-> & K1 & Eo & N0 & N2)|[(-> & K1 & Eo & N0 & CI)|(-> & K1 & Eo & N0 & (ja & T & ET & El) & SB)]]]].
    + (* E *)
      destruct (dec_step_E_full NC maxv rm d (0 + Z.of_nat k) (Z.of_nat (length Y)) HW' HN ltac:(unfold cntv1 in Hc1; cbn in Hc1; lia) Hev)
        as (d' & Es & A1 & A2 & A3 & A4 & A5 & A6 & A7 & A8).
      apply (Fin d' Es); [ | rewrite A3; reflexivity | exact A5 | exact A6 | intros _; exact A7 | rewrite A7; cbn [Z.eqb Pos.eqb]; lia | rewrite A4; discriminate | ].
      * apply (SIM_E k d d'); auto; try (rewrite ?A2, ?Hnf; auto; lia).
        intros r Hr. destruct r as [|[|[|r]]]; auto; lia.
      * rewrite A4, Hst0. cbn [tops]. rewrite Ey. cbn [Z.eqb Pos.eqb map]. f_equal. unfold dco. rewrite Hnf. lia.
    + (* R *)
      destruct (Hst (k - 1)%nat ltac:(lia)) as (rest & Est & Erest).
      assert (Fa : D.copp d (dco (k - 1) 0) = -1).
      { pose proof (s_opp _ _ HS (k - 1)%nat 0%nat ltac:(lia) ltac:(lia)) as X. unfold s_opp_at in X.
        destruct (opp_facts _ _ Eo) as (Eo' & _). rewrite Eo' in X. destruct X as [_ X]. apply X.
        intros j' Hj' F. rewrite eco_face in F. apply Q_face_inj in F; lia. }
      destruct (dec_step_RL_full NC maxv rm true d (0 + Z.of_nat k) (Z.of_nat (length Y)) _ rest HW' HN ltac:(unfold cntv1 in Hc1; cbn in Hc1; lia) Hev Est Fa)
        as (d' & Es & A1 & A2 & A3 & A4 & A5 & A6 & A7 & A8).
      apply (Fin d' Es); [ | rewrite A3; reflexivity | exact A5 | exact A6 | intros _; exact A7 | rewrite A7; cbn [Z.eqb Pos.eqb]; lia | rewrite A4; discriminate | ].
      * apply (SIM_RL k d d' 2%nat); auto; try lia.
        -- rewrite A1, Hnf. replace (dco k 2) with (3 * Z.of_nat k + 2) by (unfold dco; lia). reflexivity.
        -- rewrite A2, Hnf. cbn [Nat.modulo Nat.divmod Nat.add fst snd Nat.sub].
           replace (dco k 2) with (3 * Z.of_nat k + 2) by (unfold dco; lia).
           replace (dco k 1) with (3 * Z.of_nat k + 1) by (unfold dco; lia).
           replace (dco k 0) with (3 * Z.of_nat k) by (unfold dco; lia). reflexivity.
      * rewrite A4, Erest. cbn [tops]. rewrite Ey. cbn [Z.eqb Pos.eqb map]. f_equal. unfold dco. rewrite Hnf. lia.
    + (* L *)
      destruct (Hst (k - 1)%nat ltac:(lia)) as (rest & Est & Erest).
      assert (Fa : D.copp d (dco (k - 1) 0) = -1).
      { pose proof (s_opp _ _ HS (k - 1)%nat 0%nat ltac:(lia) ltac:(lia)) as X. unfold s_opp_at in X.
        destruct (opp_facts _ _ Eo) as (Eo' & _). rewrite Eo' in X. destruct X as [_ X]. apply X.
        intros j' Hj' F. rewrite eco_face in F. apply Q_face_inj in F; lia. }
      destruct (dec_step_RL_full NC maxv rm false d (0 + Z.of_nat k) (Z.of_nat (length Y)) _ rest HW' HN ltac:(unfold cntv1 in Hc1; cbn in Hc1; lia) Hev Est Fa)
        as (d' & Es & A1 & A2 & A3 & A4 & A5 & A6 & A7 & A8).
      apply (Fin d' Es); [ | rewrite A3; reflexivity | exact A5 | exact A6 | intros _; exact A7 | rewrite A7; cbn [Z.eqb Pos.eqb]; lia | rewrite A4; discriminate | ].
      * apply (SIM_RL k d d' 1%nat); auto; try lia.
        -- rewrite A1, Hnf. replace (dco k 1) with (3 * Z.of_nat k + 1) by (unfold dco; lia). reflexivity.
        -- rewrite A2, Hnf. cbn [Nat.modulo Nat.divmod Nat.add fst snd Nat.sub].
           replace (dco k 2) with (3 * Z.of_nat k + 2) by (unfold dco; lia).
           replace (dco k 1) with (3 * Z.of_nat k + 1) by (unfold dco; lia).
           replace (dco k 0) with (3 * Z.of_nat k) by (unfold dco; lia). reflexivity.
      * rewrite A4, Erest. cbn [tops]. rewrite Ey. cbn [Z.eqb Pos.eqb map]. f_equal. unfold dco. rewrite Hnf. lia.
    + (* C *)
      destruct (Hst (k - 1)%nat ltac:(lia)) as (rest & Est & Erest).
      destruct (fan_lmc k d K1 Hkq HS HW HF Eo CI) as (jb & rb & Hjb & Hrb & El & Evc).
      set (rl := ((rb + 1) mod 3)%nat) in *.
      assert (Hrl : (rl < 3)%nat) by (apply Nat.mod_upper_bound; lia).
      assert (Fa : D.copp d (dco (k - 1) 0) = -1).
      { pose proof (s_opp _ _ HS (k - 1)%nat 0%nat ltac:(lia) ltac:(lia)) as X. unfold s_opp_at in X.
        destruct (opp_facts _ _ Eo) as (Eo' & _). rewrite Eo' in X. destruct X as [_ X]. apply X.
        intros j' Hj' F. rewrite eco_face in F. apply Q_face_inj in F; lia. }
      assert (Fb : D.copp d (dco jb rl) = -1).
      { pose proof (s_opp _ _ HS jb rl Hjb Hrl) as X. unfold s_opp_at in X.
        destruct (opp_facts _ _ El) as (El' & _). rewrite El' in X. destruct X as [_ X]. apply X.
        intros j' Hj' F. rewrite eco_face in F. apply Q_face_inj in F; lia. }
      assert (Ena : D.next_c (dco (k - 1) 0) = dco (k - 1) 1) by (rewrite dco_next by lia; reflexivity).
      assert (Epa : D.prev_c (dco (k - 1) 0) = dco (k - 1) 2) by (rewrite dco_prev by lia; reflexivity).
      assert (Eb : D.next_c (dco jb rb) = dco jb rl) by (rewrite dco_next by lia; reflexivity).
      destruct (opp_facts _ _ Eo) as (_ & _ & _ & _ & _ & _ & Vr1 & Vr2).
      destruct (opp_facts _ _ El) as (_ & _ & _ & _ & _ & _ & Vl1 & Vl2).
      assert (E1 : eco k 1 = next_c (eco k 0)) by reflexivity. assert (E2 : eco k 2 = prev_c (eco k 0)) by reflexivity.
      rewrite E1 in Vr1, Vr2. rewrite E2 in Vl1, Vl2. rewrite next_next in Vr1. rewrite prev_next in Vr2. rewrite next_prev in Vl1. rewrite prev_prev in Vl2.
      destruct (Qrng k Hkq) as [_ Dk]. destruct (nondeg_corner c2v _ Dk) as (Nk1 & Nk2 & Nk3).
      destruct (Qrng (k - 1)%nat ltac:(lia)) as [_ Dk1]. destruct (nondeg_corner c2v _ Dk1) as (Nr1 & Nr2 & Nr3).
      destruct (dec_step_C_full NC maxv rm d (0 + Z.of_nat k) (Z.of_nat (length Y)) (dco (k - 1) 0) rest HW' HN Est)
        as (d' & Es & A1 & A2 & A3 & A4 & A5 & A6 & A7 & A8).
      * rewrite Ena, Evc, Hnf. unfold dco. lia.
      * rewrite Ena, Evc, Eb. unfold dco. intro X.
        assert (Y0 : (eco (k - 1) 0 / 3)%nat <> (eco jb rl / 3)%nat).
        { apply (nbr_next_distinct c2v opp nf Hlen OK (next_c (eco k 0))); [exact Eo|rewrite next_next; exact El]. }
        apply Y0. rewrite !eco_face. f_equal. f_equal. lia.
      * exact Fa.
      * rewrite Ena, Evc, Eb. exact Fb.
      * rewrite Ena, Epa. intro X. apply (s_vtx _ _ HS) in X; try lia. apply Nr3. exact X.
      * rewrite Ena, Evc, Eb, dco_next by auto. intro X. apply (s_vtx _ _ HS) in X; try lia.
        rewrite eco_next in X by auto. change (eco (k - 1) 1) with (next_c (eco (k - 1) 0)) in X.
        apply Nk1. change (nth k Q 0%nat) with (eco k 0). congruence.
      * rewrite Ena, Evc, Eb in A1, A2.
        apply (Fin d' Es); [ | rewrite A3; unfold cntv1; cbn; lia | congruence | exact A6 | intros _; exact A7 | rewrite A7; cbn [Z.eqb Pos.eqb]; lia | rewrite A4; discriminate | ].
        -- apply (SIM_C k d d' jb rb); auto; try lia.
           ++ rewrite A1, Hnf. fold rl.
              replace (dco k 1) with (3 * Z.of_nat k + 1) by (unfold dco; lia).
              replace (dco k 2) with (3 * Z.of_nat k + 2) by (unfold dco; lia). reflexivity.
           ++ rewrite A2, Hnf. fold rl. rewrite Ena, Epa.
              replace (dco k 1) with (3 * Z.of_nat k + 1) by (unfold dco; lia).
              replace (dco k 2) with (3 * Z.of_nat k + 2) by (unfold dco; lia).
              replace (dco k 0) with (3 * Z.of_nat k) by (unfold dco; lia). reflexivity.
        -- rewrite A4, Erest. cbn [tops]. rewrite Ey. cbn [Z.eqb Pos.eqb map]. f_equal. unfold dco. rewrite Hnf. lia.
    + (* S *)
      assert (Hja : (ja < k)%nat). { apply (tops_lt k). rewrite ET. right. left. auto. }
      assert (Est : D.stack d = dco (k - 1) 0 :: dco ja 0 :: map (fun j => dco j 0) T) by (rewrite Hst0, ET; reflexivity).
      assert (Fb : D.copp d (dco (k - 1) 0) = -1).
      { pose proof (s_opp _ _ HS (k - 1)%nat 0%nat ltac:(lia) ltac:(lia)) as X. unfold s_opp_at in X.
        destruct (opp_facts _ _ Eo) as (Eo' & _). rewrite Eo' in X. destruct X as [_ X]. apply X.
        intros j' Hj' F. rewrite eco_face in F. apply Q_face_inj in F; lia. }
      assert (Fa : D.copp d (dco ja 0) = -1).
      { pose proof (s_opp _ _ HS ja 0%nat Hja ltac:(lia)) as X. unfold s_opp_at in X.
        destruct (opp_facts _ _ El) as (El' & _). rewrite El' in X. destruct X as [_ X]. apply X.
        intros j' Hj' F. rewrite eco_face in F. apply Q_face_inj in F; lia. }
      assert (Nab : dco ja 0 <> dco (k - 1) 0).
      { intro X. assert (ja = (k - 1)%nat) by (unfold dco in X; lia). subst ja.
        assert (Y0 : (eco (k - 1) 0 / 3)%nat <> (eco (k - 1) 0 / 3)%nat).
        { apply (nbr_next_distinct c2v opp nf Hlen OK (next_c (eco k 0))); [exact Eo|rewrite next_next; exact El]. }
        apply Y0. reflexivity. }
      assert (Epa : D.prev_c (dco ja 0) = dco ja 2) by (rewrite dco_prev by lia; reflexivity).
      assert (Enb : D.next_c (dco (k - 1) 0) = dco (k - 1) 1) by (rewrite dco_next by lia; reflexivity).
      assert (Epb : D.prev_c (dco (k - 1) 0) = dco (k - 1) 2) by (rewrite dco_prev by lia; reflexivity).
      destruct (Qrng (k - 1)%nat ltac:(lia)) as [_ Dk1]. destruct (nondeg_corner c2v _ Dk1) as (Nr1 & Nr2 & Nr3).
      destruct (dec_step_S_full NC maxv rm d (0 + Z.of_nat k) (Z.of_nat (length Y)) (dco ja 0) (dco (k - 1) 0) (map (fun j => dco j 0) T) HW' HF' HN Est)
        as (d' & Es & A1 & A2 & A3 & A4 & A5 & A6 & A7 & A8); auto.
      * destruct Hinv as (Q1 & _). rewrite Q1. reflexivity.
      * rewrite Epa, Enb. apply (S_sep c2v opp nf Hlen OK Q Qrng Qnd k d ja); auto.
      * rewrite Epb, Enb. intro X. apply (s_vtx _ _ HS) in X; try lia. apply Nr3. symmetry. exact X.
      * rewrite Hnf in A1, A2.
        apply (Fin d' Es); [ | rewrite A3; unfold cntv1; cbn; lia | congruence | exact A6 | | rewrite A7; destruct rm; cbn [length Z.eqb Pos.eqb]; lia | rewrite A4; discriminate | ].
        -- apply (SIM_S c2v opp nf Hlen OK Q Qrng Qnd NC maxv k d d' ja); auto. rewrite A8, Hnf. lia.
        -- intros [X|X]; [congruence|]. rewrite A7, X. reflexivity.
        -- rewrite A4. cbn [tops]. rewrite Ey, ET. cbn [Z.eqb Pos.eqb map tl]. f_equal. unfold dco. rewrite Hnf. lia.
Qed.

(** ** the start-face phase when every start configuration is a boundary one, and the compaction without S *)
Lemma start_loop_false nfz bits : (forall i, bits i = false) -> forall stk k s,
  exists s', D.start_loop NC maxv nfz bits k stk s = D.Ok s' /\ D.c2v s' = D.c2v s /\ D.copp s' = D.copp s /\
    D.nfaces s' = D.nfaces s /\ D.invalid s' = D.invalid s /\ D.nv s' = D.nv s.
Proof.
  intros Hb. induction stk as [|a r IH]; intros k s; cbn [D.start_loop].
  - eexists. split; [reflexivity|]. cbn. repeat split; auto.
  - rewrite Hb. destruct (IH (S k) (D.with_inits s ((false, a) :: D.inits s))) as (s' & E & A). exists s'. split; auto.
Qed.


(** ** the start-face phase with interior start faces *)
Definition cnt_true (B : list bool) : nat := count_occ bool_dec B true.
Lemma cnt_true_firstn_S B i : (i < length B)%nat ->
  cnt_true (firstn (S i) B) = (cnt_true (firstn i B) + if nth i B false then 1 else 0)%nat.
Proof.
  revert i. induction B as [|b B IH]; intros i Hi; cbn [length] in Hi; [lia|]. destruct i as [|i].
  - cbn. destruct b; cbn; auto.
  - specialize (IH i ltac:(lia)). unfold cnt_true in *. cbn [nth].
    change (firstn (S (S i)) (b :: B)) with (b :: firstn (S i) B). change (firstn (S i) (b :: B)) with (b :: firstn i B).
    destruct b.
    + rewrite !count_occ_cons_eq by reflexivity. lia.
    + rewrite !count_occ_cons_neq by discriminate. lia.
Qed.
Lemma cnt_true_le B i : (cnt_true (firstn i B) <= cnt_true B)%nat.
Proof.
  unfold cnt_true. rewrite <- (firstn_skipn i B) at 2. rewrite count_occ_app. lia.
Qed.

(** what the encoder guarantees about its runs: the decoder's stack after the symbol loop lists the first corners of the runs
    in encoding order (top first), one per start-face bit; an interior start configuration [i] comes with the start face
    Q[ns + (number of interior configurations before i)], glued to the run's first corner, its three vertices interior
    with all other faces around them created *)
Definition start_ok (B : list bool) : Prop :=
  let ns := length Y in
  length (tops ns) = length B /\ (ns + cnt_true B = length Q)%nat /\
  forall i j, nth_error (tops ns) i = Some j -> nth i B false = true ->
    let m := (ns + cnt_true (firstn i B))%nat in
    opp_at opp (eco m 0) = Some (eco j 0) /\ Cint_t m (eco m 0) /\ Cint_t m (eco m 1) /\ Cint_t m (eco m 2).


(** the same for any list [TS] of face indices standing for the decoder's stack after the symbol loop *)
Definition start_ok_g (TS : list nat) (B : list bool) : Prop :=
  let ns := length Y in
  length TS = length B /\ (ns + cnt_true B = length Q)%nat /\
  forall i j, nth_error TS i = Some j -> nth i B false = true ->
    let m := (ns + cnt_true (firstn i B))%nat in
    opp_at opp (eco m 0) = Some (eco j 0) /\ Cint_t m (eco m 0) /\ Cint_t m (eco m 1) /\ Cint_t m (eco m 2).

Lemma start_loop_sim_g (TS : list nat) B : (forall j, In j TS -> (j < length Y)%nat) -> start_ok_g TS B -> NC = 3 * Z.of_nat (length Q) ->
  forall RS' i d, RS' = skipn i TS ->
  let m := (length Y + cnt_true (firstn i B))%nat in
  SIM m d -> DP.W NC maxv (Z.of_nat m) d -> DC.FJ (Z.of_nat m) d -> LAB m d ->
  exists d', D.start_loop NC maxv (Z.of_nat (length Q)) (D.bits_of_list B) i (map (fun j => dco j 0) RS') d = D.Ok d' /\
    SIM (length Q) d' /\ LAB (length Q) d' /\ D.invalid d' = D.invalid d /\
    DP.W NC maxv (Z.of_nat (length Q)) d' /\ DC.FJ (Z.of_nat (length Q)) d'.
Proof.
  intros TSlt (SL & ST & SF) HNC'. set (ns := length Y) in *.
  induction RS' as [|j R IH]; intros i d ERS m HS HW HJ HL.
  - cbn [map D.start_loop]. eexists. split; [reflexivity|].
    assert (Hi : (length B <= i)%nat).
    { assert (L : length (skipn i TS) = 0%nat) by (rewrite <- ERS; reflexivity). rewrite skipn_length in L. lia. }
    assert (Em : m = length Q). { unfold m. rewrite firstn_all2 by lia. lia. }
    rewrite Em in HS, HL, HW, HJ. split; [destruct HS as [S1 S2 S3]; constructor; auto|]. split; [exact HL|].
    split; [reflexivity|]. split; [destruct HW; constructor; dproj; try assumption; constructor|destruct HJ; constructor; auto].
  - assert (Hi : (i < length TS)%nat).
    { assert (L : length (skipn i TS) = S (length R)) by (rewrite <- ERS; reflexivity). rewrite skipn_length in L. lia. }
    assert (Ej : nth_error TS i = Some j).
    { rewrite <- (firstn_skipn i TS), <- ERS. rewrite nth_error_app2 by (rewrite firstn_length_le; lia).
      rewrite firstn_length_le by lia. rewrite Nat.sub_diag. reflexivity. }
    assert (ER : R = skipn (S i) TS) by (eapply skipn_cons_tail; eauto).
    assert (Hjn : (j < ns)%nat) by (apply TSlt; eapply nth_error_In; eauto).
    pose proof (cnt_true_firstn_S B i ltac:(lia)) as CS.
    pose proof (cnt_true_le B i) as CL.
    cbn [map D.start_loop]. unfold D.bits_of_list at 1.
    destruct (nth i B false) eqn:Eb.
    + (* an interior start configuration *)
      destruct (SF i j Ej Eb) as (E0 & C0 & C1 & C2). fold m in E0, C0, C1, C2.
      assert (Hm : (m < length Q)%nat) by (unfold m; pose proof (cnt_true_le B (S i)); lia).
      assert (Hjm : (j < m)%nat) by (unfold m; lia).
      assert (X1 : eco m 1 = next_c (eco m 0)) by reflexivity. assert (X2 : eco m 2 = prev_c (eco m 0)) by reflexivity.
      destruct (Qrng m Hm) as [Hm0 _]. fold (eco m 0) in Hm0.
      (* the two lookups *)
      assert (Er2 : opp_at opp (next_c (eco m 2)) = Some (eco j 0)) by (rewrite X2, next_prev; exact E0).
      destruct (fan_lmc_t m d (eco m 2) j 0%nat Hm HS HL HJ (eco_face m 2) (eco_rng m 2 Hm) C2 Hjm ltac:(lia) Er2)
        as (jb & rb0 & Hjb & Hrb0 & E1 & V1).
      rewrite X2, prev_prev, <- X1 in E1. cbn [Nat.modulo Nat.divmod Nat.add fst snd Nat.sub] in V1.
      set (rl1 := ((rb0 + 1) mod 3)%nat) in *.
      assert (Hrl1 : (rl1 < 3)%nat) by (apply Nat.mod_upper_bound; lia).
      destruct (fan_lmc_t m d (eco m 0) jb rl1 Hm HS HL HJ (eco_face m 0) (eco_rng m 0 Hm) C0 Hjb Hrl1 E1)
        as (jc & rc0 & Hjc & Hrc0 & E2 & V2).
      rewrite <- X2 in E2.
      set (rl2 := ((rc0 + 1) mod 3)%nat) in *.
      assert (Hrl2 : (rl2 < 3)%nat) by (apply Nat.mod_upper_bound; lia).
      (* distinct faces *)
      assert (F01 : (eco j 0 / 3)%nat <> (eco jb rl1 / 3)%nat).
      { apply (nbr_next_distinct c2v opp nf Hlen OK (eco m 0)); [exact E0|exact E1]. }
      assert (F12 : (eco jb rl1 / 3)%nat <> (eco jc rl2 / 3)%nat).
      { apply (nbr_next_distinct c2v opp nf Hlen OK (next_c (eco m 0))); [exact E1|rewrite next_next; exact E2]. }
      assert (F20 : (eco jc rl2 / 3)%nat <> (eco j 0 / 3)%nat).
      { apply (nbr_next_distinct c2v opp nf Hlen OK (prev_c (eco m 0))); [exact E2|rewrite next_prev; exact E0]. }
      rewrite !eco_face in F01, F12, F20.
      assert (Nj1 : j <> jb) by congruence. assert (Nj2 : jb <> jc) by congruence. assert (Nj3 : jc <> j) by congruence.
      (* the three glued corners are free *)
      assert (Free : forall j0 r0 rr, (j0 < m)%nat -> (r0 < 3)%nat -> opp_at opp (eco m rr) = Some (eco j0 r0) -> D.copp d (dco j0 r0) = -1).
      { intros j0 r0 rr Hj0 Hr0 Eo. pose proof (s_opp _ _ HS j0 r0 Hj0 Hr0) as X. unfold s_opp_at in X.
        destruct (opp_facts _ _ Eo) as (Eo' & _). rewrite Eo' in X. destruct X as [_ X]. apply X.
        intros j' Hj' F. rewrite eco_face in F. apply Q_face_inj in F; lia. }
      pose proof (s_nf _ _ HS) as Hnf.
      assert (HW' : DP.W NC maxv (D.nfaces d) d) by (rewrite Hnf; auto).
      assert (Ena : D.next_c (dco j 0) = dco j 1) by (rewrite dco_next by lia; reflexivity).
      assert (Eb1 : D.next_c (dco jb rb0) = dco jb rl1) by (rewrite dco_next by lia; reflexivity).
      assert (Eb2 : D.next_c (dco jc rc0) = dco jc rl2) by (rewrite dco_next by lia; reflexivity).
      assert (Enb : D.next_c (dco jb rl1) = dco jb ((rl1 + 1) mod 3)) by (rewrite dco_next by lia; reflexivity).
      (* around the third vertex: Vertex(Previous(corner_a)) = Vertex(Next(corner_c)) *)
      assert (Ew : D.c2v d (dco j ((0 + 2) mod 3)) = D.c2v d (dco jc ((rl2 + 1) mod 3))).
      { assert (Dg1 : is_degenerated c2v (eco m 1 / 3) = false) by (rewrite eco_face; apply (Qrng m Hm)).
        destruct (fan_walk m d (eco m 1) ltac:(lia) HS HL (eco_rng m 1%nat Hm) Dg1 C1) as (j1 & r1 & j2 & r2 & H1 & H2 & H3 & H4 & Esr & Esl & Ev).
        unfold swing_right in Esr. rewrite X1, prev_next, E0 in Esr. inversion Esr as [Q1].
        unfold swing_left in Esl. rewrite X1, next_next, <- X2, E2 in Esl. inversion Esl as [Q2].
        assert (Q1' : eco j 2 = eco j1 r1) by exact Q1. apply eco_inj in Q1'; try lia. destruct Q1' as [<- <-].
        assert (Q2' : eco jc ((rl2 + 1) mod 3) = eco j2 r2) by (rewrite eco_next by auto; exact Q2).
        apply eco_inj in Q2'; try lia. destruct Q2' as [<- <-]. exact Ev. }
      destruct (dec_start_face NC maxv (Z.of_nat (length Q)) d (dco j 0) HW' HNC')
        as (d' & Es & A1 & A2 & A3 & A4 & A5 & A6 & A7 & A8 & A9).
      * rewrite Hnf. lia.
      * rewrite Hnf. unfold dco. lia.
      * rewrite Ena, V1, Hnf. unfold dco. lia.
      * rewrite Ena, V1, Eb1, Enb, V2, Hnf. unfold dco. lia.
      * rewrite Ena, V1, Eb1. unfold dco. lia.
      * rewrite Ena, V1, Eb1, Enb, V2, Eb2. unfold dco. lia.
      * rewrite Ena, V1, Eb1, Enb, V2, Eb2. unfold dco. lia.
      * apply (Free j 0%nat 0%nat); auto.
      * rewrite Ena, V1, Eb1. apply (Free jb rl1 1%nat); auto.
      * rewrite Ena, V1, Eb1, Enb, V2, Eb2. apply (Free jc rl2 2%nat); auto.
      * rewrite Ena, V1, Eb1, Enb, V2, Eb2. rewrite (dco_prev j 0), (dco_next jc rl2) by lia. exact Ew.
      * rewrite Ena, V1, Eb1, Enb, V2, Eb2 in A1, A2. rewrite Hnf in A1, A2, A9.
        replace (3 * Z.of_nat m + 2) with (dco m 2) in A1, A2 by (unfold dco; lia).
        replace (3 * Z.of_nat m + 1) with (dco m 1) in A1, A2 by (unfold dco; lia).
        replace (3 * Z.of_nat m) with (dco m 0) in A1, A2 by (unfold dco; lia).
        rewrite <- Enb, <- Ena in A2.
        assert (HS' : SIM (S m) d').
        { apply (SIM_start m d d' j jb rl1 jc rl2); auto. rewrite A9. lia. }
        (* SwingLeft keeps the vertex *)
        assert (Vn : 0 <= D.c2v d (dco j 1) < D.nv d) by (apply (DP.w_vr _ _ _ _ HW); unfold dco; lia).
        assert (Vx : 0 <= D.c2v d (dco jb ((rl1 + 1) mod 3)) < D.nv d) by (apply (DP.w_vr _ _ _ _ HW); unfold dco; lia).
        assert (HL' : LAB (S m) d').
        { apply (LAB_start m d d' j jb rl1 jc rl2); auto.
          - rewrite (dco_prev j 0), (dco_next jc rl2) by lia. exact Ew.
          - replace (D.prev_c (dco jb rl1)) with (dco jb rb0) by (rewrite <- Eb1; symmetry; apply prev_next_dco).
            rewrite <- V1. rewrite Ena. apply (DC.j_vc _ _ HJ); auto. rewrite V1. unfold dco. lia.
          - replace (D.prev_c (dco jc rl2)) with (dco jc rc0) by (rewrite <- Eb2; symmetry; apply prev_next_dco).
            rewrite <- V2. rewrite Enb. apply (DC.j_vc _ _ HJ); auto. rewrite V2. unfold dco. lia. }
        destruct (DP.start_face_W NC maxv (Z.of_nat (length Q)) d (dco j 0) d' HNC' HW') as (HW2 & Nf2 & _); auto.
        { rewrite Hnf. unfold dco. lia. }
        pose proof (DC.start_face_FJ NC maxv (Z.of_nat (length Q)) d (dco j 0) d' HNC' HW') as HJ2.
        rewrite Hnf in HJ2. specialize (HJ2 HJ ltac:(unfold dco; lia) Es).
        rewrite Es. cbn [D.bind].
        assert (Em' : (ns + cnt_true (firstn (S i) B) = S m)%nat) by (unfold m; rewrite CS; lia).
        rewrite Nf2, Hnf in HW2. replace (Z.of_nat m + 1) with (Z.of_nat (S m)) in HW2 by lia.
        rewrite Nf2, Hnf in HJ2. replace (Z.of_nat m + 1) with (Z.of_nat (S m)) in HJ2 by lia.
        destruct (IH (S i) d' ER) as (d2 & E2' & R1 & R2 & R3 & R4 & R5);
          [rewrite Em'; exact HS'|rewrite Em'; exact HW2|rewrite Em'; exact HJ2|rewrite Em'; exact HL'|].
        exists d2. split; [auto|]. split; [auto|]. split; [auto|]. split; [congruence|]. split; auto.
    + (* a boundary start configuration: nothing is created *)
      assert (Em' : (ns + cnt_true (firstn (S i) B) = m)%nat) by (unfold m; rewrite CS; lia).
      destruct (IH (S i) (D.with_inits d ((false, dco j 0) :: D.inits d)) ER) as (d2 & E2' & R1 & R2 & R3 & R4 & R5);
        [rewrite Em'; destruct HS as [S1 S2 S3]; constructor; auto|rewrite Em'; apply DP.W_with_inits; auto
        |rewrite Em'; destruct HJ; constructor; auto|rewrite Em'; exact HL|].
      exists d2. split; [auto|]. split; [auto|]. split; [auto|]. split; [exact R3|]. split; auto.
Qed.

Lemma start_loop_sim B : start_ok B -> NC = 3 * Z.of_nat (length Q) ->
  forall RS' i d, RS' = skipn i (tops (length Y)) ->
  let m := (length Y + cnt_true (firstn i B))%nat in
  SIM m d -> DP.W NC maxv (Z.of_nat m) d -> DC.FJ (Z.of_nat m) d -> LAB m d ->
  exists d', D.start_loop NC maxv (Z.of_nat (length Q)) (D.bits_of_list B) i (map (fun j => dco j 0) RS') d = D.Ok d' /\
    SIM (length Q) d' /\ LAB (length Q) d' /\ D.invalid d' = D.invalid d /\
    DP.W NC maxv (Z.of_nat (length Q)) d' /\ DC.FJ (Z.of_nat (length Q)) d'.
Proof. intros SO. apply (start_loop_sim_g (tops (length Y)) B); [apply tops_lt|exact SO]. Qed.

(** ** the decoder on a script without S and without split events (interior start faces allowed) *)
Theorem dec_roundtrip_noS B :
  (forall f, (f < nf)%nat -> is_degenerated c2v f = false -> In f (map (fun c => (c / 3)%nat) Q)) ->
  (rm = false \/ ~ In 1 Y) ->
  (forall j, (j < length Y)%nat -> script_at j) -> start_ok B ->
  exists n s, D.eb_core NC maxv (Z.of_nat (length Q)) rm Y [] (D.bits_of_list B) = D.Ok (n, s) /\ eb_iso c2v opp Q (D.c2v s) (D.copp s).
Proof.
  intros Complete Hq Sc SO. destruct (sym_loop_sim (length Y) (le_n _) Sc) as (d & E & HS & HW & HF & Hnv & Hev & (_ & Hinv & _) & Hst).
  rewrite firstn_all in E, Hinv. specialize (Hinv Hq). unfold D.eb_core. rewrite E. cbn [D.bind].
  pose proof (DP.w_nv _ _ _ _ HW) as Hn. replace (D.nv d >? maxv) with false by lia.
  destruct (start_loop_sim B SO HNC (tops (length Y)) 0%nat d eq_refl) as (s' & E' & A1 & A2 & A3 & _ & _); auto.
  { cbn [firstn]. unfold cnt_true. cbn. rewrite Nat.add_0_r. auto. }
  { cbn [firstn]. unfold cnt_true. cbn. rewrite Nat.add_0_r. auto. }
  { cbn [firstn]. unfold cnt_true. cbn. rewrite Nat.add_0_r. apply DC.FI_FJ. auto. }
  { cbn [firstn]. unfold cnt_true. cbn. rewrite Nat.add_0_r. apply FI_LAB. auto. }
  rewrite Hst, E'. cbn [D.bind]. rewrite (s_nf _ _ A1), Z.eqb_refl. cbn [negb].
  rewrite A3, Hinv. cbn [rev D.compact D.bind fst snd]. eexists _, s'. split; [reflexivity|].
  apply sim_iso_lab; auto.
Qed.

(** ** the same for every value of remove_invalid_vertices: S symbols (without split events) allowed, the vertex COMPACTION
    after the start-face phase accepts and renames the vertices injectively ([CP.compact_full]) *)
Theorem dec_roundtrip_rm B :
  (forall f, (f < nf)%nat -> is_degenerated c2v f = false -> In f (map (fun c => (c / 3)%nat) Q)) ->
  (forall j, (j < length Y)%nat -> script_at j) -> start_ok B ->
  exists n s, D.eb_core NC maxv (Z.of_nat (length Q)) rm Y [] (D.bits_of_list B) = D.Ok (n, s) /\ eb_iso c2v opp Q (D.c2v s) (D.copp s).
Proof.
  intros Complete Sc SO. destruct (sym_loop_sim (length Y) (le_n _) Sc) as (d & E & HS & HW & HF & Hnv & Hev & _ & Hst).
  rewrite firstn_all in E. unfold D.eb_core. rewrite E. cbn [D.bind].
  pose proof (DP.w_nv _ _ _ _ HW) as Hn. replace (D.nv d >? maxv) with false by lia.
  destruct (start_loop_sim B SO HNC (tops (length Y)) 0%nat d eq_refl) as (s' & E' & A1 & A2 & A3 & HW2 & HJ2); auto.
  { cbn [firstn]. unfold cnt_true. cbn. rewrite Nat.add_0_r. auto. }
  { cbn [firstn]. unfold cnt_true. cbn. rewrite Nat.add_0_r. auto. }
  { cbn [firstn]. unfold cnt_true. cbn. rewrite Nat.add_0_r. apply DC.FI_FJ. auto. }
  { cbn [firstn]. unfold cnt_true. cbn. rewrite Nat.add_0_r. apply FI_LAB. auto. }
  rewrite Hst, E'. cbn [D.bind]. rewrite (s_nf _ _ A1), Z.eqb_refl. cbn [negb].
  (* the start faces change neither num_vertices nor the left-most corners *)
  pose proof (s_nf _ _ HS) as Hnf.
  assert (HWn : DP.W NC maxv (D.nfaces d) d) by (rewrite Hnf; exact HW).
  assert (Hstk : Forall (fun c => 0 <= c < 3 * D.nfaces d) (D.stack d)) by apply (DP.w_stack _ _ _ _ HWn).
  rewrite <- Hst in E'.
  destruct (DP.start_loop_W NC maxv _ _ _ _ _ _ HNC HWn Hstk E') as (_ & _ & Env & _).
  destruct (DO.start_loop_tail NC maxv _ (D.bits_of_list B) (D.stack d) O d HNC HWn) as (_ & T2).
  { rewrite Hnf. apply DO.FI_NI. exact HF. }
  { exact Hstk. }
  destruct (T2 s' E') as (_ & Evc).
  pose proof (DP.w_nv _ _ _ _ HW2) as Hn2.
  destruct (CP.compact_full NC maxv (rev (D.invalid s')) (Z.to_nat (D.nv s')) s' (Z.of_nat (length Q)) HW2 HJ2)
    as (k' & s3 & Ec & Eo & Enf & EQ).
  - intros c Hc Nc.
    pose proof (Z.div_mod c 3 ltac:(lia)) as DM. pose proof (Z.mod_pos_bound c 3 ltac:(lia)) as MB.
    assert (c / 3 < Z.of_nat (length Q)) by (apply Z.div_lt_upper_bound; lia).
    assert (0 <= c / 3) by (apply Z.div_pos; lia).
    assert (Ec : c = dco (Z.to_nat (c / 3)) (Z.to_nat (c mod 3))) by (unfold dco; lia).
    rewrite Ec in Nc |- *. apply A2; [lia|lia|exact Nc].
  - intros c Hc. pose proof (DP.w_vr _ _ _ _ HW2 c Hc). lia.
  - rewrite A3, Evc, Env. apply Forall_rev. destruct (DF.f_iso _ _ HF) as (Ai & _). pose proof (DP.w_invalid _ _ _ _ HW) as Bv.
    rewrite Forall_forall in *. intros v Hv. split; [apply Bv; exact Hv|apply Ai; exact Hv].
  - rewrite A3. apply NoDup_rev. apply (DF.f_iso _ _ HF).
  - lia.
  - destruct (DF.f_inv _ _ HF) as [Q0|Q0]; [left; rewrite A3, Q0; reflexivity|right; lia].
  - rewrite Ec. cbn [D.bind fst snd]. eexists _, s3. split; [reflexivity|].
    assert (Esl : forall c, DP.slf s3 c = DP.slf s' c) by (intros; unfold DP.slf, DP.oppf; rewrite Eo; reflexivity).
    assert (Rd : forall j r, (j < length Q)%nat -> (r < 3)%nat -> 0 <= dco j r < 3 * Z.of_nat (length Q)) by (intros; unfold dco; lia).
    apply sim_iso_lab; auto.
    + constructor.
      * rewrite Enf. exact (s_nf _ _ A1).
      * intros j r Hj Hr. pose proof (s_opp _ _ A1 j r Hj Hr) as X. unfold s_opp_at in *. rewrite Eo. exact X.
      * intros j r j' r' Hj Hr Hj' Hr' Ev. apply (s_vtx _ _ A1 j r j' r'); auto. apply EQ; auto.
    + intros j r Hj Hr N. rewrite Esl in *.
      destruct (DF.slf_created NC maxv s' _ _ HW2 (Rd j r Hj Hr)) as [Z0|Z0]; [congruence|].
      apply EQ; auto.
Qed.

(** the state BEFORE the vertex compaction (for counting the decoder's vertices): after the symbol loop [d] and after the
    start-face phase [s'] *)
Theorem dec_precompact B :
  (forall f, (f < nf)%nat -> is_degenerated c2v f = false -> In f (map (fun c => (c / 3)%nat) Q)) ->
  (forall j, (j < length Y)%nat -> script_at j) -> start_ok B ->
  exists d s', D.sym_loop NC maxv rm (Z.of_nat (length Y)) Y 0 (D.init_st []) = D.Ok d /\
    D.start_loop NC maxv (Z.of_nat (length Q)) (D.bits_of_list B) 0 (D.stack d) d = D.Ok s' /\
    D.nv s' = cntv Y /\ D.vc s' = D.vc d /\ D.invalid s' = D.invalid d /\
    (length (D.invalid d) <= count_occ Z.eq_dec Y 1%Z)%nat /\
    DP.W NC maxv (Z.of_nat (length Y)) d /\ DF.FI (Z.of_nat (length Y)) d /\ D.nfaces d = Z.of_nat (length Y) /\
    DP.W NC maxv (Z.of_nat (length Q)) s' /\ DC.FJ (Z.of_nat (length Q)) s' /\
    eb_iso c2v opp Q (D.c2v s') (D.copp s').
Proof.
  intros Complete Sc SO. destruct (sym_loop_sim (length Y) (le_n _) Sc) as (d & E & HS & HW & HF & Hnv & Hev & (_ & _ & Hlen') & Hst).
  rewrite firstn_all in E, Hnv, Hlen'.
  destruct (start_loop_sim B SO HNC (tops (length Y)) 0%nat d eq_refl) as (s' & E' & A1 & A2 & A3 & HW2 & HJ2); auto.
  { cbn [firstn]. unfold cnt_true. cbn. rewrite Nat.add_0_r. auto. }
  { cbn [firstn]. unfold cnt_true. cbn. rewrite Nat.add_0_r. auto. }
  { cbn [firstn]. unfold cnt_true. cbn. rewrite Nat.add_0_r. apply DC.FI_FJ. auto. }
  { cbn [firstn]. unfold cnt_true. cbn. rewrite Nat.add_0_r. apply FI_LAB. auto. }
  pose proof (s_nf _ _ HS) as Hnf.
  assert (HWn : DP.W NC maxv (D.nfaces d) d) by (rewrite Hnf; exact HW).
  assert (Hstk : Forall (fun c => 0 <= c < 3 * D.nfaces d) (D.stack d)) by apply (DP.w_stack _ _ _ _ HWn).
  rewrite <- Hst in E'.
  destruct (DP.start_loop_W NC maxv _ _ _ _ _ _ HNC HWn Hstk E') as (_ & _ & Env & _).
  destruct (DO.start_loop_tail NC maxv _ (D.bits_of_list B) (D.stack d) O d HNC HWn) as (_ & T2).
  { rewrite Hnf. apply DO.FI_NI. exact HF. }
  { exact Hstk. }
  destruct (T2 s' E') as (_ & Evc).
  exists d, s'. split; [exact E|]. split; [exact E'|]. split; [congruence|]. split; [exact Evc|]. split; [exact A3|].
  split; [exact Hlen'|]. split; [exact HW|]. split; [exact HF|]. split; [exact Hnf|]. split; [exact HW2|]. split; [exact HJ2|].
  apply sim_iso_lab; auto.
Qed.

End Loop.
