From Coq Require Import ZifyBool.
From Draco Require Import Base.Codec Base.Bits Model.Varint Model.BitBuffer Model.Ans Model.BitCoders
  Proofs.Varint_proofs Proofs.BitBuffer_proofs Proofs.Ans_proofs Proofs.BitCoders_proofs
  Proofs.DirectCoder_proofs Proofs.FoldedCoder_proofs.
Local Open Scope Z_scope.

Definition ops_nonneg (ops : list bop) : Prop :=
  Forall (fun o => match o with OLsb _ v => 0 <= v | _ => True end) ops.

(** From the bit-level law of a coder to the operation level: EncodeBit / EncodeLeastSignificantBits32
    mirrored by DecodeNextBit / DecodeLeastSignificantBits32 return the values written. *)
Lemma law_to_ops {St} (next : St -> bool * St) ops st :
  ops_nonneg ops ->
  fst (read_n next (length (flatten ops)) st) = flatten ops ->
  fst (read_ops next (map rop_of ops) st) = map value_of ops.
Proof.
  intros Hok H. destruct (read_n next (length (flatten ops)) st) as [x s'] eqn:E. cbn [fst] in H. subst x.
  rewrite (read_ops_flatten next ops st s' Hok E). reflexivity.
Qed.

Theorem ransbit_ops_roundtrip ver ops bs rest :
  514 <= ver -> ops_nonneg ops -> Z.of_nat (length (flatten ops)) + 3 < 2 ^ 32 ->
  ransbit_encode (flatten ops) = Some bs ->
  exists st, ransbit_start ver (bs ++ rest) = Some (st, rest) /\
             fst (read_ops ransbit_next (map rop_of ops) st) = map value_of ops.
Proof.
  intros Hver Hok Hlen Henc.
  destruct (ransbit_roundtrip ver _ bs rest Hver Hlen Henc) as (st & Hs & Hr).
  exists st. split; [exact Hs|]. apply law_to_ops; assumption.
Qed.

Theorem adaptive_ops_roundtrip {PS} (p_clamp : PS -> Z) (p_upd : PS -> bool -> PS) p_init ops bs rest :
  (forall p, 1 <= p_clamp p <= 255) ->
  ops_nonneg ops -> Z.of_nat (length (flatten ops)) + 3 < 2 ^ 32 ->
  adaptive_encode p_clamp p_upd p_init (flatten ops) = Some bs ->
  exists st, adaptive_start p_init (bs ++ rest) = Some (st, rest) /\
             fst (read_ops (adaptive_next p_clamp p_upd) (map rop_of ops) st) = map value_of ops.
Proof.
  intros Hc Hok Hlen Henc.
  destruct (adaptive_roundtrip p_clamp p_upd Hc p_init _ bs rest Hlen Henc) as (st & Hs & Hr).
  exists st. split; [exact Hs|]. apply law_to_ops; assumption.
Qed.

Theorem direct_ops_roundtrip ops bs rest :
  ops_nonneg ops -> 4 * (Z.of_nat (length (flatten ops)) / 32 + 1) < 2 ^ 32 ->
  direct_encode (flatten ops) = Some bs ->
  exists st, direct_start (bs ++ rest) = Some (st, rest) /\
             fst (read_ops direct_next (map rop_of ops) st) = map value_of ops.
Proof.
  intros Hok Hlen Henc.
  destruct (direct_roundtrip _ bs rest Hlen Henc) as (st & Hs & Hr).
  exists st. split; [exact Hs|]. apply law_to_ops; assumption.
Qed.

Lemma folded_stream_length i ops : (length (folded_stream i ops) <= length ops)%nat.
Proof.
  unfold folded_stream. induction ops as [|o r IH]; cbn [map concat length]; [lia|].
  rewrite app_length. destruct o as [b|n v]; [destruct (i =? 32)%nat|destruct (i <? n)%nat]; cbn [length]; lia.
Qed.

(** FoldedBit32<RAnsBit>: the instance used by the kd-tree coder *)
Theorem folded_ransbit_roundtrip ver ops bs rest :
  514 <= ver -> ops_ok ops -> Z.of_nat (length ops) + 3 < 2 ^ 32 ->
  folded_encode ransbit_encode ops = Some bs ->
  exists sts sts', folded_start (ransbit_start ver) (bs ++ rest) = Some (sts, rest) /\
    folded_read ransbit_next (map rop_of ops) sts = Some (map value_of ops, sts').
Proof.
  intros Hver Hok Hlen Henc.
  pose proof (fun i => folded_stream_length i ops) as Hs.
  (* the inner law only has to hold for the streams that occur: restate with a length-bounded inner encoder *)
  set (enc' := fun bits => if Z.of_nat (length bits) + 3 <? 2 ^ 32 then ransbit_encode bits else None).
  assert (Hlaw: forall bits b rest0, enc' bits = Some b ->
            exists st, ransbit_start ver (b ++ rest0) = Some (st, rest0) /\
                       fst (read_n ransbit_next (length bits) st) = bits).
  { intros bits b rest0 H. unfold enc' in H. destruct (Z.of_nat (length bits) + 3 <? 2 ^ 32) eqn:E; [|discriminate].
    apply ransbit_roundtrip; [exact Hver|lia|exact H]. }
  assert (Henc2: folded_encode enc' ops = Some bs).
  { unfold folded_encode in *. revert Henc. generalize (seq 0 33). intros l. revert bs.
    induction l as [|i l IHl]; intros bs0 H; cbn [map enc_streams] in *; [exact H|].
    unfold enc' at 1. specialize (Hs i).
    replace (Z.of_nat (length (folded_stream i ops)) + 3 <? 2 ^ 32) with true by lia.
    destruct (ransbit_encode (folded_stream i ops)) as [a|]; [|discriminate].
    destruct (enc_streams ransbit_encode (map (fun i0 => folded_stream i0 ops) l)) as [b|] eqn:Eb; [|discriminate].
    rewrite (IHl b eq_refl). exact H. }
  exact (folded_roundtrip enc' (ransbit_start ver) ransbit_next Hlaw ops bs rest Hok Henc2).
Qed.

(** Reading past the written data: bits beyond the end of the buffer read as zero (the model never
    indexes outside the byte list; this is the value the C++ GetBits returns there). *)
Lemma le_val_bound bs : wf_bytes bs -> 0 <= le_val bs < 256 ^ Z.of_nat (length bs).
Proof.
  induction 1 as [|b r Hb Hr IH]; cbn [le_val length].
  - change (256 ^ Z.of_nat 0) with 1. lia.
  - rewrite Nat2Z.inj_succ, Z.pow_succ_r by lia. unfold is_byte in Hb. lia.
Qed.

Theorem get_bits_past_end bs off n : wf_bytes bs -> 8 * Z.of_nat (length bs) <= off -> 0 <= n ->
  (le_val bs / 2 ^ off) mod 2 ^ n = 0.
Proof.
  intros Hwf Hoff Hn. pose proof (le_val_bound bs Hwf) as Hb.
  rewrite Z.div_small; [apply Z.mod_0_l; apply Z.pow_nonzero; lia|].
  split; [lia|]. apply Z.lt_le_trans with (256 ^ Z.of_nat (length bs)); [lia|].
  change 256 with (2 ^ 8). rewrite <- Z.pow_mul_r by lia. apply Z.pow_le_mono_r; lia.
Qed.

(** rABS decoder at the end of its block: nothing is read (buf_offset == 0). *)
Lemma rabs_read_empty_stack x p0 : snd (rabs_read x [] p0) = [].
Proof.
  unfold rabs_read, renorm. destruct (x <? ansL); destruct (rabs_read_core x p0); reflexivity.
Qed.
