(** The generic sequential-codec theorems instantiated with the modelled symbol coder (C08) and metadata coder (C11). *)
From Draco Require Import Base.Codec Model.Varint Model.RansSymbol Model.SymbolCoding Model.Metadata Model.SeqAttr Model.SeqCodec Model.SeqCodecInst
  Proofs.SeqAttr_proofs Proofs.SeqCodec_proofs Proofs.SymbolCoding_proofs Proofs.Metadata_proofs.
From Draco Require Properties.Properties_C08 Properties.Properties_C11.
Local Open Scope Z_scope.

(** What the symbol coder's own theorem needs of a symbol list: at least one component per group and an encoded
    block below 2 GiB (the rANS decoder keeps offsets in an int). *)
Definition sym_guard_inst (nc : Z) (syms : list Z) : Prop :=
  1 <= nc /\ forall method lvl bs, enc_symbols method lvl nc syms = Some bs -> zlen bs < 2 ^ 31.

Lemma sym_law_inst : forall method lvl nc syms bs rest, sym_guard_inst nc syms ->
  sym_enc method lvl nc syms = Some bs -> sym_dec (length syms) (Z.to_nat nc) (bs ++ rest) = Some (syms, rest).
Proof.
  intros method lvl nc syms bs rest [Hnc Hlen] He.
  apply (Properties_C08.C08_enc_symbols_fail_or_exact method lvl nc (length syms) Hnc syms bs rest); [|exact He].
  split; [reflexivity|]. intros b Hb. exact (Hlen method lvl b Hb).
Qed.

Lemma md_law_inst : forall m bs rest, wf_gmeta m -> md_enc m = Some bs -> md_dec (bs ++ rest) = Some (m, rest).
Proof. exact Properties_C11.C11_metadata_roundtrips_codec. Qed.

Definition pc_ok_inst := pc_ok sym_guard_inst wf_gmeta.
Definition mesh_ok_inst := mesh_ok sym_enc sym_guard_inst wf_gmeta.

Theorem seq_pc_roundtrips_inst np md atts bs rest : pc_ok_inst np md atts ->
  i_enc_pc_seq np md atts = Some bs ->
  i_dec_pc_seq (fun _ => false) (bs ++ rest)
    = Some ({| dp_npoints := np; dp_md := md; dp_atts := map expected_att atts |}, rest).
Proof. exact (seq_pc_roundtrips sym_enc sym_dec sym_guard_inst sym_law_inst md_enc md_dec wf_gmeta md_law_inst np md atts bs rest). Qed.

Theorem seq_mesh_roundtrips_inst np md conn faces atts bs rest : mesh_ok_inst np md conn faces atts rest ->
  i_enc_mesh_seq np md conn faces atts = Some bs ->
  i_dec_mesh_seq (fun _ => false) (bs ++ rest)
    = Some ({| dm_npoints := np; dm_md := md; dm_faces := faces; dm_atts := map expected_att atts |}, rest).
Proof. exact (seq_mesh_roundtrips sym_enc sym_dec sym_guard_inst sym_law_inst md_enc md_dec wf_gmeta md_law_inst np md conn faces atts bs rest). Qed.

Theorem skip_refines_pc_inst skip bs g0 r : i_dec_pc_seq (fun _ => false) bs = Some (g0, r) ->
  exists g, i_dec_pc_seq skip bs = Some (g, r) /\
    dp_npoints g = dp_npoints g0 /\ dp_md g = dp_md g0 /\ Forall2 (att_refines skip) (dp_atts g0) (dp_atts g).
Proof. exact (skip_refines_pc sym_dec skip md_dec bs g0 r). Qed.

Theorem skip_refines_mesh_inst skip bs g0 r : i_dec_mesh_seq (fun _ => false) bs = Some (g0, r) ->
  exists g, i_dec_mesh_seq skip bs = Some (g, r) /\
    dm_npoints g = dm_npoints g0 /\ dm_md g = dm_md g0 /\ dm_faces g = dm_faces g0 /\
    Forall2 (att_refines skip) (dm_atts g0) (dm_atts g).
Proof. exact (skip_refines_mesh sym_dec skip md_dec bs g0 r). Qed.

(** The symbol decoder returns the announced number of symbols (for counts that are a multiple of the component
    count: what the attribute decoders pass). *)
Lemma sym_len_inst : forall n nc bs syms r, (1 <= nc)%nat -> (exists k, n = (k * nc)%nat) ->
  sym_dec n nc bs = Some (syms, r) -> length syms = n.
Proof. intros n nc bs syms r Hnc Hk H. exact (dec_symbols_opt_length n nc bs syms r Hnc Hk H). Qed.

(** C03 for the sequential decoders, ARBITRARY bytes and ANY skip option: whatever they return has one value per
    point in every attribute, each with the announced number of components, and (meshes) only face indices
    that name a decoded point. *)
Theorem seq_pc_decode_valid_inst skip bs g rest : i_dec_pc_seq skip bs = Some (g, rest) ->
  Forall (att_valid (Z.to_nat (dp_npoints g))) (dp_atts g).
Proof. exact (seq_pc_decode_valid sym_dec sym_len_inst skip md_dec bs g rest). Qed.

Theorem seq_mesh_decode_valid_inst skip bs g rest : i_dec_mesh_seq skip bs = Some (g, rest) ->
  (forall a b c, In (a, b, c) (dm_faces g) -> a < dm_npoints g /\ b < dm_npoints g /\ c < dm_npoints g) /\
  Forall (att_valid (Z.to_nat (dm_npoints g))) (dm_atts g).
Proof. exact (seq_mesh_decode_valid sym_dec sym_len_inst skip md_dec bs g rest). Qed.
