From Coq Require Import ZifyBool.
From Draco Require Import Base.Codec Base.Bits Gen.Constants Model.Varint Model.Ans Model.BitCoders
  Proofs.Varint_proofs Proofs.Ans_proofs.
Local Open Scope Z_scope.

(** * Logical bits *)
Lemma val_msb_app a b : val_msb (a ++ b) = val_msb a * 2 ^ Z.of_nat (length b) + val_msb b.
Proof.
  unfold val_msb. rewrite fold_left_app.
  generalize (fold_left (fun acc (b0 : bool) => 2 * acc + (if b0 then 1 else 0)) a 0). intros x.
  revert x. induction b as [|c b IH]; intros x; cbn [fold_left length].
  - change (2 ^ Z.of_nat 0) with 1. lia.
  - rewrite IH, (IH (2 * 0 + _)). rewrite Nat2Z.inj_succ, Z.pow_succ_r by lia. lia.
Qed.

Lemma val_msb_bits_msb n v : 0 <= v -> val_msb (bits_msb n v) = v mod 2 ^ Z.of_nat n.
Proof.
  intros Hv. induction n as [|n IH]; cbn [bits_msb].
  - change (2 ^ Z.of_nat 0) with 1. rewrite Z.mod_1_r. reflexivity.
  - change (Z.testbit v (Z.of_nat n) :: bits_msb n v) with ([Z.testbit v (Z.of_nat n)] ++ bits_msb n v).
    rewrite val_msb_app, IH.
    assert (Hlen: length (bits_msb n v) = n) by (clear; induction n; cbn [bits_msb length]; congruence).
    rewrite Hlen. unfold val_msb; cbn [fold_left].
    rewrite Nat2Z.inj_succ, Z.pow_succ_r by lia.
    assert (H2: 0 < 2 ^ Z.of_nat n) by (apply Z.pow_pos_nonneg; lia).
    replace (2 * 2 ^ Z.of_nat n) with (2 ^ Z.of_nat n * 2) by lia.
    rewrite (Z.rem_mul_r v (2 ^ Z.of_nat n) 2) by lia.
    destruct (Z.testbit v (Z.of_nat n)) eqn:E.
    + apply Z.testbit_true in E; [|lia]. rewrite E. lia.
    + apply Z.testbit_false in E; [|lia]. rewrite E. lia.
Qed.

Lemma bits_msb_length n v : length (bits_msb n v) = n.
Proof. induction n; cbn [bits_msb length]; congruence. Qed.

Lemma app_eq_len {A} (a c b d : list A) : length a = length c -> a ++ b = c ++ d -> a = c /\ b = d.
Proof.
  revert c; induction a as [|x a IH]; intros [|y c] Hl H; cbn in *; try discriminate.
  - split; [reflexivity|exact H].
  - injection H as -> H. injection Hl as Hl. destruct (IH c Hl H) as [-> ->]. split; reflexivity.
Qed.

Section ReaderLemmas.
  Context {St : Type} (next : St -> bool * St).
  Lemma read_n_app a b st :
    read_n next (a + b) st =
      let '(x, s1) := read_n next a st in let '(y, s2) := read_n next b s1 in (x ++ y, s2).
  Proof.
    revert st; induction a as [|a IH]; intros st; cbn [read_n Nat.add].
    - destruct (read_n next b st). reflexivity.
    - destruct (next st) as [c s1]. rewrite IH. destruct (read_n next a s1) as [x s2].
      destruct (read_n next b s2). reflexivity.
  Qed.

  (** If the reader returns a given bit sequence, then reading the mirrored operations returns
      the values written (EncodeBit b -> b; EncodeLeastSignificantBits32(n, v) -> v mod 2^n). *)
  Lemma read_ops_flatten ops : forall st st',
    Forall (fun o => match o with OLsb _ v => 0 <= v | _ => True end) ops ->
    read_n next (length (flatten ops)) st = (flatten ops, st') ->
    read_ops next (map rop_of ops) st = (map value_of ops, st').
  Proof.
    induction ops as [|o ops IH]; intros st st' Hok H.
    - cbn in *. injection H as <-. reflexivity.
    - inversion Hok as [|? ? Ho Hok']; subst.
      unfold flatten in H. cbn [map concat] in H. fold (flatten ops) in H.
      rewrite app_length, read_n_app in H.
      destruct (read_n next (length (bits_of_op o)) st) as [x s1] eqn:E1.
      destruct (read_n next (length (flatten ops)) s1) as [y s2] eqn:E2.
      injection H as Hxy <-.
      assert (Hx: x = bits_of_op o /\ y = flatten ops).
      { apply app_eq_len in Hxy; [exact Hxy|].
        clear -E1. revert st x s1 E1. generalize (length (bits_of_op o)) as n.
        induction n; intros st x s1 E1; cbn [read_n] in E1.
        - injection E1 as <- _. reflexivity.
        - destruct (next st) as [c s]. destruct (read_n next n s) as [x' s'] eqn:E.
          injection E1 as <- _. cbn [length]. f_equal. eapply IHn; exact E. }
      destruct Hx as [-> ->].
      cbn [map rop_of read_ops]. destruct o as [b|n v]; cbn [bits_of_op length rop_of value_of] in *.
      + cbn [read_n] in E1. destruct (next st) as [c s]. injection E1 as -> ->.
        rewrite (IH _ _ Hok' E2). reflexivity.
      + rewrite bits_msb_length in E1. rewrite E1. rewrite (IH _ _ Hok' E2).
        rewrite val_msb_bits_msb by exact Ho. reflexivity.
  Qed.
End ReaderLemmas.

(** * RAnsBitEncoder / Decoder *)
Lemma zero_prob_range c0 t : 0 <= c0 <= t -> 1 <= zero_prob c0 t <= 255.
Proof.
  intros H. unfold zero_prob.
  set (t' := if t =? 0 then 1 else t).
  assert (Ht: 0 < t') by (unfold t'; destruct (t =? 0) eqn:E; lia).
  assert (Hr: 0 <= (512 * c0 + t') / (2 * t')) by (apply Z.div_pos; lia).
  set (raw := (512 * c0 + t') / (2 * t')) in *.
  destruct (raw <? 255) eqn:E1.
  - destruct (raw =? 0) eqn:E2; lia.
  - cbn. lia.
Qed.

Lemma filter_len {A} (f : A -> bool) l : (length (filter f l) <= length l)%nat.
Proof. induction l as [|x l IH]; cbn; [lia|]. destruct (f x); cbn; lia. Qed.

Lemma map_snd_const (zp : Z) bits : map snd (map (fun b : bool => (b, zp)) bits) = repeat zp (length bits).
Proof. induction bits; cbn; congruence. Qed.
Lemma map_fst_const (zp : Z) bits : map fst (map (fun b : bool => (b, zp)) bits) = bits.
Proof. induction bits; cbn; congruence. Qed.

Lemma ransbit_read_n n : forall p0 x stk,
  read_n ransbit_next n {| rs_p0 := p0; rs_x := x; rs_stk := stk |} =
    let '(vs, x', s') := rabs_decode (repeat p0 n) x stk in (vs, {| rs_p0 := p0; rs_x := x'; rs_stk := s' |}).
Proof.
  induction n as [|n IH]; intros p0 x stk; cbn [read_n repeat rabs_decode].
  - reflexivity.
  - unfold ransbit_next at 1. cbn [rs_x rs_stk rs_p0].
    destruct (rabs_read x stk p0) as [[b x1] s1]. rewrite IH.
    destruct (rabs_decode (repeat p0 n) x1 s1) as [[vs x2] s2]. reflexivity.
Qed.

Lemma firstn_app_exact {A} (a b : list A) : firstn (length a) (a ++ b) = a.
Proof. rewrite firstn_app, Nat.sub_diag, firstn_all. cbn. apply app_nil_r. Qed.
Lemma skipn_app_exact {A} (a b : list A) : skipn (length a) (a ++ b) = b.
Proof. rewrite skipn_app, Nat.sub_diag, skipn_all. reflexivity. Qed.

Theorem ransbit_roundtrip_with ver zp bits bs rest :
  514 <= ver -> 1 <= zp <= 255 -> Z.of_nat (length bits) + 3 < 2 ^ 32 ->
  ransbit_encode_with zp bits = Some bs ->
  exists st, ransbit_start ver (bs ++ rest) = Some (st, rest) /\
             fst (read_n ransbit_next (length bits) st) = bits.
Proof.
  intros Hver Hzp Hlen Henc. unfold ransbit_encode_with in Henc.
  set (syms := map (fun b : bool => (b, zp)) bits) in *.
  assert (Hok: probs_ok syms).
  { unfold probs_ok, syms. apply Forall_forall. intros s Hin. apply in_map_iff in Hin.
    destruct Hin as (b & <- & _). cbn. lia. }
  destruct (rabs_block_roundtrip syms Hok) as (blk & Hblk & Hby & Hbl & x0 & stk0 & Hinit & x' & s' & Hdec & _).
  rewrite Hblk in Henc.
  destruct (enc_varint_u (Z.of_nat (length blk))) as [sz|] eqn:Esz; [|discriminate].
  injection Henc as <-.
  unfold ransbit_start. cbn [app].
  replace (ver <? 514) with false by lia.
  rewrite <- app_assoc.
  assert (Hl: length syms = length bits) by (unfold syms; apply map_length).
  rewrite (varint_u_roundtrips 32 ltac:(right; right; left; reflexivity) (Z.of_nat (length blk)) sz (blk ++ rest)); [| |exact Esz].
  2:{ split; [lia|]. lia. }
  replace (Z.of_nat (length blk) >? Z.of_nat (length (blk ++ rest))) with false
    by (rewrite app_length; lia).
  rewrite Nat2Z.id, firstn_app_exact, skipn_app_exact, Hinit.
  eexists; split; [reflexivity|].
  rewrite ransbit_read_n.
  unfold syms in Hdec. rewrite map_snd_const, map_fst_const in Hdec. rewrite Hdec. reflexivity.
Qed.

Theorem ransbit_roundtrip ver bits bs rest :
  514 <= ver -> Z.of_nat (length bits) + 3 < 2 ^ 32 ->
  ransbit_encode bits = Some bs ->
  exists st, ransbit_start ver (bs ++ rest) = Some (st, rest) /\
             fst (read_n ransbit_next (length bits) st) = bits.
Proof.
  intros Hver Hlen Henc. unfold ransbit_encode in Henc.
  eapply ransbit_roundtrip_with; try eassumption.
  apply zero_prob_range. unfold count_zeros. split; [lia|].
  apply inj_le. apply filter_len.
Qed.

(** the encoder always succeeds (the tail always fits, the size always fits a varint) *)
Lemma ransbit_encode_total bits : Z.of_nat (length bits) + 3 < 2 ^ 32 -> exists bs, ransbit_encode bits = Some bs.
Proof.
  intros Hlen. unfold ransbit_encode, ransbit_encode_with.
  set (zp := zero_prob _ _).
  assert (Hzp: 1 <= zp <= 255).
  { apply zero_prob_range. unfold count_zeros. split; [lia|]. apply inj_le. apply filter_len. }
  set (syms := map (fun b : bool => (b, zp)) bits).
  assert (Hok: probs_ok syms).
  { unfold probs_ok, syms. apply Forall_forall. intros s Hin. apply in_map_iff in Hin.
    destruct Hin as (b & <- & _). cbn. lia. }
  destruct (rabs_block_roundtrip syms Hok) as (blk & Hblk & _ & Hbl & _).
  rewrite Hblk.
  assert (Hl: length syms = length bits) by (unfold syms; apply map_length).
  destruct (enc_varint_u_total 32 (Z.of_nat (length blk)) ltac:(right; right; left; reflexivity) ltac:(lia))
    as (sz & Hsz & _).
  rewrite Hsz. eexists; reflexivity.
Qed.

(** * AdaptiveRAnsBitEncoder / Decoder, for every probability state machine with outputs in 1..255 *)
Section AdaptiveProofs.
  Context {PS : Type} (p_clamp : PS -> Z) (p_upd : PS -> bool -> PS).
  Hypothesis clamp_range : forall p, 1 <= p_clamp p <= 255.

  Lemma adaptive_syms_ok p bits : probs_ok (adaptive_syms p_clamp p_upd p bits).
  Proof.
    revert p; induction bits as [|b r IH]; intros p; cbn [adaptive_syms]; constructor; [cbn; apply clamp_range|apply IH].
  Qed.
  Lemma adaptive_syms_fst p bits : map fst (adaptive_syms p_clamp p_upd p bits) = bits.
  Proof. revert p; induction bits as [|b r IH]; intros p; cbn [adaptive_syms map fst]; [reflexivity|]. rewrite IH. reflexivity. Qed.
  Lemma adaptive_syms_length p bits : length (adaptive_syms p_clamp p_upd p bits) = length bits.
  Proof. revert p; induction bits as [|b r IH]; intros p; cbn [adaptive_syms length]; [reflexivity|]. rewrite IH. reflexivity. Qed.

  Lemma adaptive_read_n bits : forall p x stk x' s',
    rabs_decode (map snd (adaptive_syms p_clamp p_upd p bits)) x stk = (bits, x', s') ->
    fst (read_n (adaptive_next p_clamp p_upd) (length bits) {| ad_p := p; ad_x := x; ad_stk := stk |}) = bits.
  Proof.
    induction bits as [|b r IH]; intros p x stk x' s' H; cbn [length read_n].
    - reflexivity.
    - cbn [adaptive_syms map snd rabs_decode] in H.
      unfold adaptive_next at 1. cbn [ad_x ad_stk ad_p].
      destruct (rabs_read x stk (p_clamp p)) as [[v x1] s1].
      destruct (rabs_decode (map snd (adaptive_syms p_clamp p_upd (p_upd p b) r)) x1 s1) as [[vs x2] s2] eqn:E.
      injection H as -> -> _ _.
      specialize (IH _ _ _ _ _ E).
      destruct (read_n (adaptive_next p_clamp p_upd) (length r) _) as [y s3]. cbn [fst] in *. congruence.
  Qed.

  Theorem adaptive_roundtrip p_init bits bs rest :
    Z.of_nat (length bits) + 3 < 2 ^ 32 ->
    adaptive_encode p_clamp p_upd p_init bits = Some bs ->
    exists st, adaptive_start p_init (bs ++ rest) = Some (st, rest) /\
               fst (read_n (adaptive_next p_clamp p_upd) (length bits) st) = bits.
  Proof.
    intros Hlen Henc. unfold adaptive_encode in Henc.
    set (syms := adaptive_syms p_clamp p_upd p_init bits) in *.
    destruct (rabs_block_roundtrip syms (adaptive_syms_ok _ _))
      as (blk & Hblk & Hby & Hbl & x0 & stk0 & Hinit & x' & s' & Hdec & _).
    rewrite Hblk in Henc.
    replace bs with (enc_le 4 (Z.of_nat (length blk)) ++ blk) by congruence.
    assert (Hl: length syms = length bits) by apply adaptive_syms_length.
    unfold adaptive_start. rewrite <- app_assoc.
    rewrite (le_roundtrips 4 (Z.of_nat (length blk)) _ (blk ++ rest)); [| |reflexivity].
    2:{ change (256 ^ Z.of_nat 4) with (2^32). lia. }
    replace (Z.of_nat (length blk) >? Z.of_nat (length (blk ++ rest))) with false
      by (rewrite app_length; lia).
    rewrite Nat2Z.id, firstn_app_exact, skipn_app_exact, Hinit.
    eexists; split; [reflexivity|].
    unfold syms in Hdec. rewrite adaptive_syms_fst in Hdec.
    eapply adaptive_read_n. exact Hdec.
  Qed.

  (** the scratch buffer of bits_.size() + 16 bytes always suffices (one byte per bit at most + tail) *)
  Lemma adaptive_buffer_suffices p_init bits :
    exists blk, rabs_block (adaptive_syms p_clamp p_upd p_init bits) = Some blk /\
                (length blk <= length bits + 3)%nat.
  Proof.
    destruct (rabs_block_roundtrip _ (adaptive_syms_ok p_init bits)) as (blk & Hblk & _ & Hbl & _).
    exists blk. split; [exact Hblk|]. rewrite adaptive_syms_length in Hbl. exact Hbl.
  Qed.
End AdaptiveProofs.
