(** Exact-arithmetic core of C04 (no floats): round-to-nearest quantization over [min, min+R] is within
    half a step and inside 0..2^q-1.  Stated twice: over Q (closed under the global context) and over R
    (the form the float32 error analysis builds on). *)
From Coq Require Import ZArith QArith Qround Qabs Lqa Lia.
Local Open Scope Q_scope.

Definition ideal_quant_Q (mn rg x : Q) (q : Z) : Z := Qfloor ((x - mn) * inject_Z (2 ^ q - 1) / rg + (1#2)).
Definition ideal_deq_Q (mn rg : Q) (q : Z) (k : Z) : Q := mn + inject_Z k * rg / inject_Z (2 ^ q - 1).

Theorem ideal_half_step_Q mn rg x q :
  0 < rg -> (1 <= q)%Z -> mn <= x /\ x <= mn + rg ->
  let k := ideal_quant_Q mn rg x q in
  (0 <= k <= 2 ^ q - 1)%Z /\
  Qabs (ideal_deq_Q mn rg q k - x) <= rg / (2 * inject_Z (2 ^ q - 1)).
Proof.
  intros HR Hq [Hx1 Hx2] k.
  assert (HMz : (1 <= 2 ^ q - 1)%Z).
  { assert (2 ^ 1 <= 2 ^ q)%Z by (apply Z.pow_le_mono_r; lia). change (2 ^ 1)%Z with 2%Z in *. lia. }
  assert (HM : 1 <= inject_Z (2 ^ q - 1)) by (change 1 with (inject_Z 1); rewrite <- Zle_Qle; exact HMz).
  set (Mz := (2 ^ q - 1)%Z) in *. set (M := inject_Z Mz) in *.
  set (s := (x - mn) * M / rg).
  assert (Hs0 : 0 <= s).
  { unfold s. apply Qle_shift_div_l; [exact HR|]. nra. }
  assert (HsM : s <= M).
  { unfold s. apply Qle_shift_div_r; [exact HR|]. nra. }
  assert (Hk1 : inject_Z k <= s + (1#2)) by (apply Qfloor_le).
  assert (Hk2 : s + (1#2) < inject_Z (k + 1)) by (apply Qlt_floor).
  rewrite inject_Z_plus in Hk2. change (inject_Z 1) with 1 in Hk2.
  split.
  - split.
    + assert (H : inject_Z (-1) < inject_Z k) by (change (inject_Z (-1)) with (-1 # 1); lra).
      rewrite <- Zlt_Qlt in H. lia.
    + assert (H : inject_Z k < inject_Z (Mz + 1)) by (rewrite inject_Z_plus; fold M; change (inject_Z 1) with 1; lra).
      rewrite <- Zlt_Qlt in H. lia.
  - unfold ideal_deq_Q. fold Mz. fold M.
    assert (E : mn + inject_Z k * rg / M - x == (inject_Z k - s) * (rg / M)) by (unfold s; field; split; lra).
    rewrite E. rewrite Qabs_Qmult.
    assert (Hstep : 0 <= rg / M) by (apply Qle_shift_div_l; lra).
    rewrite (Qabs_pos (rg / M)) by exact Hstep.
    assert (E2 : rg / (2 * M) == (1#2) * (rg / M)) by (field; lra).
    rewrite E2. apply Qmult_le_compat_r; [|exact Hstep].
    apply Qabs_Qle_condition. split; lra.
Qed.
Local Close Scope Q_scope.

From Coq Require Import ZArith Reals Lra Lia.
From Flocq Require Import Core.
Local Open Scope R_scope.

(** * Exact-arithmetic core (no floats) *)

Definition ideal_quant (mn rg x : R) (q : Z) : Z := Zfloor ((x - mn) * IZR (2 ^ q - 1) / rg + / 2).
Definition ideal_deq (mn rg : R) (q : Z) (k : Z) : R := mn + IZR k * rg / IZR (2 ^ q - 1).

Lemma IZR_maxq_pos q : (1 <= q)%Z -> 1 <= IZR (2 ^ q - 1).
Proof.
  intros H. apply IZR_le. assert (2 ^ 1 <= 2 ^ q)%Z by (apply Z.pow_le_mono_r; lia). change (2 ^ 1)%Z with 2%Z in *. lia.
Qed.

Theorem ideal_half_step mn rg x q :
  0 < rg -> (1 <= q)%Z -> mn <= x <= mn + rg ->
  let k := ideal_quant mn rg x q in
  (0 <= k <= 2 ^ q - 1)%Z /\
  Rabs (ideal_deq mn rg q k - x) <= rg / (2 * IZR (2 ^ q - 1)).
Proof.
  intros HR Hq Hx k. pose proof (IZR_maxq_pos q Hq) as HM.
  set (M := IZR (2 ^ q - 1)) in *.
  set (s := (x - mn) * M / rg).
  assert (Hs : 0 <= s <= M).
  { unfold s. split.
    - apply Rmult_le_pos; [apply Rmult_le_pos; lra | left; apply Rinv_0_lt_compat; lra].
    - apply Rmult_le_reg_r with rg; [lra|]. unfold Rdiv. rewrite Rmult_assoc, Rinv_l by lra. rewrite Rmult_1_r.
      rewrite (Rmult_comm M rg). apply Rmult_le_compat_r; lra. }
  assert (Hk1 : IZR k <= s + / 2) by (apply Zfloor_lb).
  assert (Hk2 : s + / 2 < IZR k + 1) by (apply Zfloor_ub).
  split.
  - split.
    + apply le_IZR. assert (-1 < IZR k) by lra.
      assert (-1 < k)%Z by (apply lt_IZR; exact H). apply IZR_le. lia.
    + assert (IZR k < M + 1) by lra. unfold M in H. rewrite <- plus_IZR in H. apply lt_IZR in H. lia.
  - unfold ideal_deq. fold M.
    replace (mn + IZR k * rg / M - x) with ((IZR k - s) * (rg / M)) by (unfold s; field; lra).
    rewrite Rabs_mult. rewrite (Rabs_pos_eq (rg / M)) by (apply Rmult_le_pos; [lra | left; apply Rinv_0_lt_compat; lra]).
    replace (rg / (2 * M)) with (/ 2 * (rg / M)) by (field; lra).
    apply Rmult_le_compat_r; [apply Rmult_le_pos; [lra | left; apply Rinv_0_lt_compat; lra]|].
    apply Rabs_le. lra.
Qed.
