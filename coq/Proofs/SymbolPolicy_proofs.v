(** Round trips for every raw bit length (Model/SymbolPolicy.v). *)
From Coq Require Import ZifyBool FMapPositive.
From Draco Require Import Base.Codec Base.Bits Model.Varint Proofs.Varint_proofs Model.RansSymbol Proofs.RansSymbol_proofs
  Model.RansFloat Model.SymbolCoding Proofs.SymbolCoding_proofs Model.SymbolPolicy.
Local Open Scope Z_scope.
Arguments Z.add : simpl never. Arguments Z.mul : simpl never. Arguments Z.pow : simpl never.
Arguments Z.div : simpl never. Arguments Z.modulo : simpl never. Arguments Z.sub : simpl never.

Lemma enc_raw_default lvl syms :
  enc_raw lvl syms = enc_raw_with (default_raw_bit_length (Z.of_nat (PositiveMap.cardinal (count_syms syms (PositiveMap.empty Z)))) lvl) syms.
Proof.
  unfold enc_raw, enc_raw_with, default_raw_bit_length.
  set (nu := Z.of_nat (PositiveMap.cardinal (count_syms syms (PositiveMap.empty Z)))).
  destruct ((if 0 <? nu then Z.log2 nu else 0) + 1 >? 18); [reflexivity|].
  pose proof (raw_bit_length_range nu lvl) as H.
  destruct ((raw_bit_length nu lvl <? 1) || (raw_bit_length nu lvl >? 18)) eqn:E; [lia|reflexivity].
Qed.

Theorem raw_with_roundtrips bl syms bs rest pre : syms <> [] -> (forall s, In s syms -> 0 <= s < 2 ^ 31) ->
  enc_raw_with bl syms = Some bs -> zlen bs < 2 ^ 31 ->
  dec_raw 514 (length syms) pre (bs ++ rest) = Ok (syms, rest).
Proof.
  intros Hne Hs He Hlen. unfold enc_raw_with in He.
  set (cnt := count_syms syms (PositiveMap.empty Z)) in *.
  set (nu := Z.of_nat (PositiveMap.cardinal cnt)) in *.
  destruct ((if 0 <? nu then Z.log2 nu else 0) + 1 >? 18); [discriminate|].
  destruct ((bl <? 1) || (bl >? 18)) eqn:E; [discriminate|].
  destruct (rans_symbol_encode _ _ syms) as [body|] eqn:Eb; [|discriminate]. injection He as <-.
  cbn [app dec_raw]. rewrite E.
  pose proof (zmax_list_nonneg syms) as Hm0.
  pose proof (zmax_list_bound syms (2^31) ltac:(lia) (fun s H => proj2 (Hs s H))) as Hm1.
  apply rans_symbol_roundtrip with (n := Z.to_nat (zmax_list syms + 1)); try assumption.
  - apply precision_range.
  - intros s Hin. pose proof (zmax_list_ge syms s Hin). pose proof (Hs s Hin). lia.
  - change (2^31) with 2147483648 in *. change (2^32) with 4294967296. lia.
  - lia.
  - unfold zlen in *. cbn [length] in Hlen. lia.
Qed.

Theorem symbols_with_roundtrips method bl nc syms bs rest :
  enc_symbols_with method bl nc syms = Some bs -> zlen bs < 2 ^ 31 ->
  dec_symbols 514 (length syms) (Z.to_nat (if nc <=? 0 then 1 else nc)) [] (bs ++ rest) = Ok (syms, rest).
Proof.
  intros He Hbs. unfold enc_symbols_with in He. destruct syms as [|s0 r] eqn:Esyms.
  { injection He as <-. reflexivity. }
  rewrite <- Esyms in *. assert (Hne : syms <> []) by (subst; discriminate).
  destruct (negb (sym_guard nc syms)) eqn:Eg; [discriminate|]. apply negb_false_iff in Eg.
  apply sym_guard_spec in Eg as (Hrange & Hmod & Hlen).
  set (nc' := if nc <=? 0 then 1 else nc) in *.
  destruct (bit_length (zmax_list syms) >=? 32) eqn:Ebl; [discriminate|].
  assert (Hs31 : forall s, In s syms -> 0 <= s < 2 ^ 31).
  { intros s Hin. split; [apply Hrange; exact Hin|].
    destruct (Z_lt_ge_dec (zmax_list syms) (2 ^ 31)) as [Hlt|Hge]; [pose proof (zmax_list_ge syms s Hin); lia|].
    exfalso. unfold bit_length in Ebl. destruct (zmax_list syms <=? 0) eqn:E0; [lia|].
    assert (31 <= Z.log2 (zmax_list syms)) by (apply Z.log2_le_pow2; lia). lia. }
  assert (Hdec : forall b, dec_symbols 514 (length syms) (Z.to_nat nc') [] (b ++ rest) =
           match b ++ rest with [] => Fail | scheme :: r' =>
             if scheme =? 0 then dec_tagged 514 (length syms) (Z.to_nat nc') [scheme] r'
             else if scheme =? 1 then dec_raw 514 (length syms) [scheme] r' else Fail end).
  { intros b. unfold dec_symbols. destruct (length syms) eqn:El; [subst syms; cbn in El; lia|reflexivity]. }
  destruct (method =? 0) eqn:Em0.
  - destruct (enc_tagged (Z.to_nat nc') syms) as [b|] eqn:Et; [|discriminate]. injection He as <-.
    rewrite Hdec. cbn [app Z.eqb].
    assert (Hnc1 : 1 <= nc') by (unfold nc'; destruct (nc <=? 0) eqn:E; lia).
    apply tagged_roundtrips with (k := Z.to_nat (zlen syms / nc')); try assumption; try lia.
    + unfold zlen in *. pose proof (Z.div_mod (Z.of_nat (length syms)) nc' ltac:(lia)).
      assert (0 <= Z.of_nat (length syms) / nc') by (apply Z.div_pos; lia). nia.
    + unfold zlen in *. cbn [length] in Hbs. lia.
  - destruct (method =? 1) eqn:Em1; [|discriminate].
    destruct (bit_length (zmax_list syms) >? 18); [discriminate|].
    destruct (enc_raw_with bl syms) as [b|] eqn:Er; [|discriminate]. injection He as <-.
    rewrite Hdec. cbn [app Z.eqb Pos.eqb].
    apply (raw_with_roundtrips bl); try assumption. unfold zlen in *. cbn [length] in Hbs. lia.
Qed.

(** the current code's policy is one instance *)
Lemma enc_symbols_default method lvl nc syms :
  enc_symbols method lvl nc syms =
  enc_symbols_with method (default_raw_bit_length (Z.of_nat (PositiveMap.cardinal (count_syms syms (PositiveMap.empty Z)))) lvl) nc syms.
Proof.
  unfold enc_symbols, enc_symbols_with. destruct syms as [|s0 r]; [reflexivity|]. rewrite enc_raw_default. reflexivity.
Qed.
