(** EBSIM, encoder side with split events for ANY number of runs: the recorded events of EVERY encoding, exactly
    ([events_characterized_all], as [EbSimEvEnc_proofs.events_characterized] without the premise `one start-face bit`),
    from the weak small-step relation across run boundaries (EbTraceStepM_proofs) and the invariants J1, J3, J5, J6 along
    the whole trace (EbTraceInvM_proofs). *)
From Coq Require Import ZArith List Bool Lia Arith PeanoNat Sorting.Sorted.
From Draco Require Import Model.CornerTable Model.EbEncoder Model.EbTrace Proofs.CornerTable_proofs Proofs.EbEncoder_proofs.
From Draco Require Import Proofs.EbTrace_proofs Proofs.EbTraceStep_proofs Proofs.EbTraceInv_proofs Proofs.EbTraceStepM_proofs Proofs.EbTraceInvM_proofs Proofs.EbTraceLedger_proofs.
From Draco Require Import Proofs.EbSimEnc_proofs Proofs.EbSimDec_proofs Proofs.EbSim_proofs Proofs.EbSimEvEnc_proofs.
From Draco Require Model.Edgebreaker.
From Draco Require Import Proofs.EbSimS_proofs Proofs.EbSimLoop_proofs Proofs.EbSimEv_proofs Proofs.EbSimEvChk_proofs Proofs.EbSimCount_proofs.
Import ListNotations.

Section AllRuns.
Variables (c2v : list nat) (opp : list (option nat)) (nf nv niso ndeg : nat) (o : enc_out) (tr : list cfg).
Hypothesis Hlen : length c2v = 3 * nf.
Hypothesis OK : opp_ok c2v opp.
Hypothesis Hv : forall c, c < 3 * nf -> vtx c2v c < nv.
Hypothesis FAN : one_fan c2v opp.
Hypothesis Et : eb_encode_tr c2v opp nv niso ndeg = EOk (o, tr).
Let ns := length (o_syms o).
Let Q := o_pcc o.

Lemma run_facts_all : tr <> [] -> exists yL sL,
    (forall i, S i < length tr -> WSTEP opp (cfN tr i) (cfN tr (S i))) /\
    (0 < length tr -> SPEC opp (sti tr (length tr - 1)) (ci tr (length tr - 1)) yL sL) /\
    (0 < length tr -> syms (sti tr 0) = [] /\ evs (sti tr 0) = [] /\ f2s (sti tr 0) = [] /\ last_id (sti tr 0) = (-1)%Z) /\
    (forall m m', m < length tr -> m' < length tr -> ci tr m / 3 = ci tr m' / 3 -> m = m') /\
    o_events o = rev (evs sL) /\ length tr = ns /\
    (forall m, m < length tr -> ci tr m = nth (ns - 1 - m) Q 0) /\
    (forall m, m < length tr -> ysym tr yL m = nth m (o_syms o) 0%Z).
Proof.
  intros Ne.
  pose proof (trace_refines_big_step_ok _ _ _ _ _ _ _ Et) as E.
  destruct (trace_coherent _ _ _ _ _ _ _ Et) as [Lt Co]. fold ns in Lt, Co.
  destruct (encode_facts_wf c2v opp nf nv niso ndeg o Hlen OK Hv FAN E) as (L & ND & _).
  destruct (eb_encode_total c2v opp nf nv niso ndeg Hlen OK Hv FAN) as [T1 T2].
  destruct (Nat.eq_dec nf ndeg) as [Eq|Nd]; [rewrite (T1 Eq) in E; discriminate|].
  destruct (T2 Nd) as (o' & E' & OO & _). rewrite E in E'. inversion E'; subst o'. clear E' T1 T2.
  destruct OO as (_ & Rng & Comp & _). fold Q in Rng, ND, L, Comp. rewrite rev_length in L. fold ns in L.
  assert (LQ : ns <= length Q) by lia.
  assert (Bd : length tr <= NF c2v).
  { rewrite Lt. rewrite (NF_eq c2v nf Hlen). eapply Nat.le_trans; [exact LQ|]. rewrite <- (map_length (fun c => c / 3) Q).
    apply nodup_bound; [exact ND|]. intros x Hx. apply in_map_iff in Hx. destruct Hx as (c & <- & Hc).
    rewrite Forall_forall in Rng. destruct (Rng c Hc) as (Rc & _). apply Nat.div_lt_upper_bound; lia. }
  destruct (trace_wsteps _ _ _ _ _ _ _ Et Bd) as [X|(sF & G & Esy & Eev)]; [congruence|].
  assert (Nr : rev tr <> []) by (intro X; apply (f_equal (@rev _)) in X; rewrite rev_involutive in X; cbn in X; congruence).
  destruct G as [(X & _)|(G & (pre & cf0 & Ep & Pr & St0) & (cfL & rL & yL & s1 & EL & Sp & Re))]; [congruence|].
  assert (Cf : forall i, i < length tr -> nth_error tr i = Some (cfN tr i)) by (intros i Hi; apply nth_error_nth'; exact Hi).
  assert (Corner : forall m, m < length tr -> ci tr m = nth (ns - 1 - m) Q 0).
  { intros m Hm. destruct (Co m _ (Cf m Hm)) as [_ C2]. unfold ci.
    assert (X : nth 0 (cf_corner (cfN tr m) :: pcc (cf_st (cfN tr m))) 0 = nth 0 (skipn (ns - 1 - m) (firstn ns Q)) 0) by (rewrite C2; auto).
    cbn [nth] in X. rewrite X. rewrite nth_skipn'. rewrite Nat.add_0_r. rewrite <- (firstn_skipn ns Q) at 2. rewrite app_nth1; auto.
    rewrite firstn_length_le; lia. }
  assert (E0 : tr = cf0 :: rev pre) by (rewrite <- (rev_involutive tr), Ep, rev_app_distr; reflexivity).
  assert (ELast : cfN tr (length tr - 1) = cfL).
  { unfold cfN. rewrite <- (rev_involutive tr) at 2. rewrite EL. cbn [rev]. rewrite <- (rev_length tr) at 1. rewrite EL. cbn [length].
    rewrite app_nth2 by (rewrite rev_length; lia). rewrite rev_length. replace (S (length rL) - 1 - length rL) with 0 by lia. reflexivity. }
  destruct Re as (R1 & R2 & R3 & R4 & R5 & _).
  exists yL, s1. split; [|split; [|split; [|split; [|split; [|split; [|split]]]]]].
  - intros i Hi. apply (gadj_rev_nth _ _ G i); rewrite rev_involutive; apply Cf; lia.
  - intros _. unfold sti, ci. rewrite ELast. exact Sp.
  - intros _. unfold sti, cfN. rewrite E0. cbn [nth]. destruct Pr as (Q1 & Q2 & Q3 & Q4 & Q5). auto.
  - intros m m' Hm Hm' F. rewrite (Corner m Hm), (Corner m' Hm') in F.
    assert (X : ns - 1 - m = ns - 1 - m') by (apply (Q_face_inj Q ND); [lia|lia|exact F]).
    lia.
  - rewrite Eev, R3. reflexivity.
  - exact Lt.
  - exact Corner.
  - intros m Hm. unfold ysym. destruct (S m <? length tr) eqn:Em.
    + apply Nat.ltb_lt in Em. destruct (Co (S m) _ (Cf (S m) Em)) as [C1 _]. unfold sti. rewrite C1.
      rewrite (firstn_S_nth (o_syms o) m (nth m (o_syms o) 0%Z)) by (apply nth_error_nth'; fold ns; lia).
      rewrite rev_app_distr. reflexivity.
    + apply Nat.ltb_ge in Em. assert (m = ns - 1) by lia. subst m.
      destruct Sp as (Sy & _). rewrite R1, Sy in Esy.
      assert (X : rev (o_syms o) = yL :: syms (cf_st cfL)) by (rewrite Esy, rev_involutive; reflexivity).
      assert (Y : hd 0%Z (rev (o_syms o)) = yL) by (rewrite X; reflexivity).
      rewrite <- Y. apply hd_rev_last. intro Z. unfold ns in Lt. rewrite Z in Lt. cbn in Lt. destruct tr; [congruence|discriminate].
Qed.

(** ** the recorded events of ANY encoding, exactly *)
Theorem events_characterized_all : forall src spl ed,
  In (src, spl, ed) (o_events o) <->
  exists m sg x, src = Z.of_nat m /\ spl = Z.of_nat sg /\ sg < m /\ m < ns /\ nth sg (o_syms o) 0%Z = 1%Z /\
    nth (ns - 1 - sg) Q 0 / 3 = x / 3 /\
    ((ed = 1%Z /\ (nth m (o_syms o) 0%Z = 5%Z \/ nth m (o_syms o) 0%Z = 7%Z) /\ oat opp (next_c (nth (ns - 1 - m) Q 0)) = Some x) \/
     (ed = 0%Z /\ (nth m (o_syms o) 0%Z = 3%Z \/ nth m (o_syms o) 0%Z = 7%Z) /\ oat opp (prev_c (nth (ns - 1 - m) Q 0)) = Some x)).
Proof.
  intros src spl ed.
  destruct (Nat.eq_dec (length tr) 0) as [Etr|Ne0].
  { pose proof (trace_refines_big_step_ok _ _ _ _ _ _ _ Et) as E.
    destruct (trace_coherent _ _ _ _ _ _ _ Et) as [Lt _]. fold ns in Lt.
    destruct (eb_encode_total c2v opp nf nv niso ndeg Hlen OK Hv FAN) as [T1 T2].
    destruct (Nat.eq_dec nf ndeg) as [Eq|Nd]; [rewrite (T1 Eq) in E; discriminate|].
    destruct (T2 Nd) as (o' & E' & OO & _). rewrite E in E'. inversion E'; subst o'. clear E' T1 T2.
    destruct OO as (_ & _ & _ & Nsy & _ & _ & _ & _ & Rng & _).
    split.
    - intros Hin. rewrite Forall_forall in Rng. specialize (Rng _ Hin). cbn in Rng. fold ns in Rng. lia.
    - intros (m & sg & x & _ & _ & _ & Hm & _). lia. }
  assert (Ne : tr <> []) by (intro X; rewrite X in Ne0; cbn in Ne0; lia).
  destruct (run_facts_all Ne) as (yL & sL & Steps & Last & First & FND & Eev & Lt & Corner & Ysym).
  destruct (J5M_all opp tr yL sL Steps Last First FND) as (_ & J5N).
  assert (HN : 0 < length tr) by lia.
  specialize (J5N HN src spl ed). rewrite Eev, <- in_rev, J5N. rewrite Lt. split.
  - intros (m & Hm & -> & x & sg & -> & Hs & Ys & Fs & Cs). exists m, sg, x.
    rewrite Ysym in Ys by lia. rewrite (Corner sg) in Fs by lia. rewrite (Corner m) in Cs by lia. rewrite (Ysym m) in Cs by lia.
    split; [reflexivity|]. split; [reflexivity|]. split; [exact Hs|]. split; [lia|]. split; [exact Ys|]. split; [exact Fs|exact Cs].
  - intros (m & sg & x & -> & -> & Hs & Hm & Ys & Fs & Cs). exists m. split; [lia|]. split; [reflexivity|]. exists x, sg.
    rewrite Ysym by lia. rewrite (Corner sg) by lia. rewrite (Corner m) by lia. rewrite (Ysym m) by lia.
    split; [reflexivity|]. split; [exact Hs|]. split; [exact Ys|]. split; [exact Fs|exact Cs].
Qed.

(** no event of any encoding is recorded twice *)
Theorem events_nodup_all : NoDup (o_events o).
Proof.
  destruct (Nat.eq_dec (length tr) 0) as [Etr|Ne0].
  { destruct (o_events o) as [|[[src spl] ed] l] eqn:Ee; [constructor|]. exfalso.
    assert (Hin : In (src, spl, ed) (o_events o)) by (rewrite Ee; left; reflexivity).
    apply events_characterized_all in Hin. destruct Hin as (m & sg & x & _ & _ & _ & Hm' & _).
    destruct (trace_coherent _ _ _ _ _ _ _ Et) as [Lt0 _]. fold ns in Lt0. lia. }
  assert (Ne : tr <> []) by (intro X; rewrite X in Ne0; cbn in Ne0; lia).
  destruct (run_facts_all Ne) as (yL & sL & Steps & Last & First & FND & Eev & Lt & Corner & Ysym).
  destruct (J6M_all opp tr yL sL Steps Last First FND) as (_ & J6N).
  rewrite Eev. apply NoDup_rev. apply J6N. lia.
Qed.
End AllRuns.

(** * the script conditions [script_atE] for EVERY encoding (any number of runs, any events): the encoder side of the general
    theorem up to the start-face phase *)
Section AllRunsS.
Variables (c2v : list nat) (opp : list (option nat)) (nf nv niso ndeg : nat) (o : enc_out) (tr : list cfg).
Hypothesis Hlen : length c2v = 3 * nf.
Hypothesis OK : opp_ok c2v opp.
Hypothesis Hv : forall c, c < 3 * nf -> vtx c2v c < nv.
Hypothesis FAN : one_fan c2v opp.
Hypothesis Et : eb_encode_tr c2v opp nv niso ndeg = EOk (o, tr).
Let ns := length (o_syms o).
Let Q := o_pcc o.

Lemma run_facts_allM : tr <> [] -> exists yL sL,
    (forall i, S i < length tr -> MSTEP opp (cfN tr i) (cfN tr (S i))) /\
    (0 < length tr -> SPEC opp (sti tr (length tr - 1)) (ci tr (length tr - 1)) yL sL) /\
    (0 < length tr -> syms (sti tr 0) = [] /\ evs (sti tr 0) = [] /\ f2s (sti tr 0) = [] /\ last_id (sti tr 0) = (-1)%Z /\
                      stack (sti tr 0) = [Some (ci tr 0)]) /\
    (forall m m', m < length tr -> m' < length tr -> ci tr m / 3 = ci tr m' / 3 -> m = m') /\
    o_events o = rev (evs sL) /\ length tr = ns /\
    (forall m, m < length tr -> ci tr m = nth (ns - 1 - m) Q 0) /\
    (forall m, m < length tr -> ysym tr yL m = nth m (o_syms o) 0%Z) /\
    Forall (dead_at (vf sL)) (stack sL) /\ ns <= length Q /\
    (forall f, f < nf -> is_degenerated c2v f = false -> In f (map (fun c => c / 3) Q)) /\
    (forall j, j < length Q -> nth j Q 0 < 3 * nf /\ is_degenerated c2v (nth j Q 0 / 3) = false) /\
    NoDup (map (fun c => c / 3) Q).
Proof.
  intros Ne.
  pose proof (trace_refines_big_step_ok _ _ _ _ _ _ _ Et) as E.
  destruct (trace_coherent _ _ _ _ _ _ _ Et) as [Lt Co]. fold ns in Lt, Co.
  destruct (encode_facts_wf c2v opp nf nv niso ndeg o Hlen OK Hv FAN E) as (L & ND & _).
  destruct (eb_encode_total c2v opp nf nv niso ndeg Hlen OK Hv FAN) as [T1 T2].
  destruct (Nat.eq_dec nf ndeg) as [Eq|Nd]; [rewrite (T1 Eq) in E; discriminate|].
  destruct (T2 Nd) as (o' & E' & OO & _). rewrite E in E'. inversion E'; subst o'. clear E' T1 T2.
  destruct OO as (_ & Rng & Comp & _). fold Q in Rng, ND, L, Comp. rewrite rev_length in L. fold ns in L.
  assert (LQ : ns <= length Q) by lia.
  assert (Bd : length tr <= NF c2v).
  { rewrite Lt. rewrite (NF_eq c2v nf Hlen). eapply Nat.le_trans; [exact LQ|]. rewrite <- (map_length (fun c => c / 3) Q).
    apply nodup_bound; [exact ND|]. intros x Hx. apply in_map_iff in Hx. destruct Hx as (c & <- & Hc).
    rewrite Forall_forall in Rng. destruct (Rng c Hc) as (Rc & _). apply Nat.div_lt_upper_bound; lia. }
  destruct (trace_msteps _ _ _ _ _ _ _ Et Bd) as [X|(sF & G & Esy & Eev)]; [congruence|].
  assert (Nr : rev tr <> []) by (intro X; apply (f_equal (@rev _)) in X; rewrite rev_involutive in X; cbn in X; congruence).
  destruct G as [(X & _)|(G & (pre & cf0 & Ep & Pr & St0) & (cfL & rL & yL & s1 & EL & Sp & Dd & Re & _))]; [congruence|].
  assert (Cf : forall i, i < length tr -> nth_error tr i = Some (cfN tr i)) by (intros i Hi; apply nth_error_nth'; exact Hi).
  assert (Corner : forall m, m < length tr -> ci tr m = nth (ns - 1 - m) Q 0).
  { intros m Hm. destruct (Co m _ (Cf m Hm)) as [_ C2]. unfold ci.
    assert (X : nth 0 (cf_corner (cfN tr m) :: pcc (cf_st (cfN tr m))) 0 = nth 0 (skipn (ns - 1 - m) (firstn ns Q)) 0) by (rewrite C2; auto).
    cbn [nth] in X. rewrite X. rewrite nth_skipn'. rewrite Nat.add_0_r. rewrite <- (firstn_skipn ns Q) at 2. rewrite app_nth1; auto.
    rewrite firstn_length_le; lia. }
  assert (E0 : tr = cf0 :: rev pre) by (rewrite <- (rev_involutive tr), Ep, rev_app_distr; reflexivity).
  assert (ELast : cfN tr (length tr - 1) = cfL).
  { unfold cfN. rewrite <- (rev_involutive tr) at 2. rewrite EL. cbn [rev]. rewrite <- (rev_length tr) at 1. rewrite EL. cbn [length].
    rewrite app_nth2 by (rewrite rev_length; lia). rewrite rev_length. replace (S (length rL) - 1 - length rL) with 0 by lia. reflexivity. }
  destruct Re as (R1 & R2 & R3 & R4 & R5 & _).
  exists yL, s1. split; [|split; [|split; [|split; [|split; [|split; [|split; [|split; [|split; [|split; [|split; [|split]]]]]]]]]]].
  - intros i Hi. apply (gadj_rev_nth _ _ G i); rewrite rev_involutive; apply Cf; lia.
  - intros _. unfold sti, ci. rewrite ELast. exact Sp.
  - intros _. unfold sti, ci, cfN. rewrite E0. cbn [nth]. destruct Pr as (Q1 & Q2 & Q3 & Q4 & Q5). auto 10.
  - intros m m' Hm Hm' F. rewrite (Corner m Hm), (Corner m' Hm') in F.
    assert (X : ns - 1 - m = ns - 1 - m') by (apply (Q_face_inj Q ND); [lia|lia|exact F]).
    lia.
  - rewrite Eev, R3. reflexivity.
  - exact Lt.
  - exact Corner.
  - intros m Hm. unfold ysym. destruct (S m <? length tr) eqn:Em.
    + apply Nat.ltb_lt in Em. destruct (Co (S m) _ (Cf (S m) Em)) as [C1 _]. unfold sti. rewrite C1.
      rewrite (firstn_S_nth (o_syms o) m (nth m (o_syms o) 0%Z)) by (apply nth_error_nth'; fold ns; lia).
      rewrite rev_app_distr. reflexivity.
    + apply Nat.ltb_ge in Em. assert (m = ns - 1) by lia. subst m.
      destruct Sp as (Sy & _). rewrite R1, Sy in Esy.
      assert (X : rev (o_syms o) = yL :: syms (cf_st cfL)) by (rewrite Esy, rev_involutive; reflexivity).
      assert (Y : hd 0%Z (rev (o_syms o)) = yL) by (rewrite X; reflexivity).
      rewrite <- Y. apply hd_rev_last. intro Z. unfold ns in Lt. rewrite Z in Lt. cbn in Lt. destruct tr; [congruence|discriminate].
  - exact Dd.
  - exact LQ.
  - exact Comp.
  - intros j Hj. rewrite Forall_forall in Rng. apply Rng. apply nth_In. exact Hj.
  - exact ND.
Qed.

Section EncM.
Variables (yL : Z) (sL : est).
Hypothesis StepsM : forall i, S i < length tr -> MSTEP opp (cfN tr i) (cfN tr (S i)).
Hypothesis Last : 0 < length tr -> SPEC opp (sti tr (length tr - 1)) (ci tr (length tr - 1)) yL sL.
Hypothesis First : 0 < length tr -> syms (sti tr 0) = [] /\ evs (sti tr 0) = [] /\ f2s (sti tr 0) = [] /\ last_id (sti tr 0) = (-1)%Z /\
                      stack (sti tr 0) = [Some (ci tr 0)].
Hypothesis FND : forall m m', m < length tr -> m' < length tr -> ci tr m / 3 = ci tr m' / 3 -> m = m'.
Hypothesis Eev : o_events o = rev (evs sL).
Hypothesis Lt : length tr = ns.
Hypothesis Corner : forall m, m < length tr -> ci tr m = nth (ns - 1 - m) Q 0.
Hypothesis Ysym : forall m, m < length tr -> ysym tr yL m = nth m (o_syms o) 0%Z.
Hypothesis FinalDead : Forall (dead_at (vf sL)) (stack sL).
Hypothesis LQ : ns <= length Q.
Hypothesis Comp : forall f, f < nf -> is_degenerated c2v f = false -> In f (map (fun c => c / 3) Q).
Hypothesis Rq : forall j, j < length Q -> nth j Q 0 < 3 * nf /\ is_degenerated c2v (nth j Q 0 / 3) = false.
Hypothesis NDQ : NoDup (map (fun c => c / 3) Q).

Let N := length tr.
Local Notation c := (ci tr).
Local Notation y := (ysym tr yL).
Local Notation sti := (sti tr).
Local Notation SS := (SS opp tr).
Local Notation NB := (NB opp tr).

Lemma OPPINV : forall a b, oat opp a = Some b -> oat opp b = Some a.
Proof. intros a b H. apply (opp_facts c2v opp nf Hlen OK a b H). Qed.


Let StepsW := StepsW_of opp tr StepsM.
Let FirstW := FirstW_of tr First.
Let aft_x := aftW_ex opp tr yL sL StepsW Last FirstW FND.
Let ssS := step_stack_S opp tr yL sL StepsM Last First FND OPPINV.
Let ssR := step_stack_R opp tr yL sL StepsM Last First FND OPPINV.
Let vfNB := vf_NB opp tr yL sL StepsM Last First FND OPPINV.
Let vis_later := visited_later opp tr yL sL StepsM Last First FND OPPINV.
Let dnaM := dead_not_aliveM opp tr yL sL StepsM Last First FND OPPINV.

(** what the step i -> i+1 does to the stack: inside a run (four cases), or a run boundary *)
Lemma step_stk i : S i < length tr ->
  ((y i = 0%Z \/ y i = 3%Z) /\ stack (sti (S i)) = stack (sti i) /\ oat opp (next_c (c i)) = Some (c (S i)) /\ SS i)
  \/ (y i = 5%Z /\ stack (sti (S i)) = stack (sti i) /\ oat opp (prev_c (c i)) = Some (c (S i)) /\ SS i)
  \/ (y i = 7%Z /\ stack (sti i) <> [] /\ SS i /\ exists dead rest, tl (stack (sti i)) = dead ++ Some (c (S i)) :: rest /\
        stack (sti (S i)) = Some (c (S i)) :: rest /\ Forall (dead_at (vf (sti (S i)))) dead)
  \/ (y i = 1%Z /\ stack (sti i) <> [] /\ oat opp (next_c (c i)) = Some (c (S i)) /\ SS i /\
        exists l, oat opp (prev_c (c i)) = Some l /\ nth (l / 3) (vf (sti (S i))) false = false /\
          stack (sti (S i)) = Some (c (S i)) :: Some l :: tl (stack (sti i)))
  \/ (y i = 7%Z /\ stack (sti (S i)) = [Some (c (S i))] /\
        exists s1, vf s1 = upd (vf (sti i)) (c i / 3) true /\ Forall (dead_at (vf s1)) (tl (stack (sti i)))).
Proof.
  intros L. destruct (StepsM i L) as [Hs|Hr].
  - destruct (ssS i L Hs) as [(A & B & C & _)|[(A & B & C & _)|[(A & B & (dead & rest & C1 & C2 & C3 & _) & _)|(A & B & C & D & _)]]].
    + left. auto.
    + right. left. auto.
    + right. right. left. split; auto. split; auto. split; auto. exists dead, rest. auto.
    + right. right. right. left. auto.
  - destruct (ssR i L Hr) as (A & B & s1 & (_ & _ & Vf & _) & _ & Dd & _).
    right. right. right. right. split; auto. split; auto. exists s1. auto.
Qed.

Lemma vf_SS i : S i < length tr -> SS i -> vf (sti (S i)) = upd (vf (sti i)) (c i / 3) true.
Proof.
  intros L Hs. destruct (ssS i L Hs) as [(_ & _ & _ & V)|[(_ & _ & _ & V)|[(_ & _ & _ & V)|(_ & _ & _ & _ & V)]]]; exact V.
Qed.

(** the history fact of the symbol with encoder index m *)
Lemma efact_m m : m < N -> efact c2v opp nf Q (ns - 1 - m) (c m) (y m).
Proof.
  intros Hm. pose proof (trace_refines_big_step_ok _ _ _ _ _ _ _ Et) as E.
  destruct (encode_facts_wf c2v opp nf nv niso ndeg o Hlen OK Hv FAN E) as (_ & _ & Fk & _).
  fold Q in Fk. unfold N in Hm. rewrite Lt in Hm.
  specialize (Fk (ns - 1 - m) (nth m (o_syms o) 0%Z)).
  rewrite (Corner m), (Ysym m) by lia. apply Fk.
  rewrite nth_error_nth' with (d := 0%Z) by (rewrite rev_length; fold ns; lia). f_equal.
  rewrite rev_nth by (fold ns; lia). f_equal. fold ns. lia.
Qed.

Definition alive (l : nat) : Prop := exists m, m < N /\ c m = l.

Lemma next_ne c0 : next_c c0 <> c0.
Proof. intro X. destruct (corner_cases c0) as [E|[E|E]]; rewrite E in X; rewrite ?next_0, ?next_1, ?next_2 in X; lia. Qed.
Lemma prev_ne c0 : prev_c c0 <> c0.
Proof. intro X. destruct (corner_cases c0) as [E|[E|E]]; rewrite E in X; rewrite ?prev_0, ?prev_1, ?prev_2 in X; lia. Qed.

(** a neighbour corner of a later symbol that lies in the face of the S symbol sg is the corner of its LEFT edge *)
Lemma ev_left sg m sd x : sg < m -> m < N -> y sg = 1%Z -> (sd = next_c (c m) \/ sd = prev_c (c m)) ->
  oat opp sd = Some x -> x / 3 = c sg / 3 -> x = prev_c (c sg).
Proof.
  intros Hs Hm Ys Hsd Eo Fx.
  assert (Fsd : sd / 3 = c m / 3) by (destruct Hsd as [-> | ->]; [apply next_face|apply prev_face]).
  pose proof (OPPINV _ _ Eo) as Eo'.
  destruct (face_corners (c sg) x Fx) as [X|[X|X]]; auto; exfalso.
  - (* the gate of sg was visited before sg *)
    subst x. destruct (efact_m sg ltac:(lia)) as (_ & _ & Gv & _). unfold nvis in Gv.
    change (opp_at opp (c sg)) with (oat opp (c sg)) in Gv. specialize (Gv sd Eo' (ns - 1 - m) ltac:(unfold N in *; lia)).
    apply Gv. rewrite <- (Corner m) by lia. symmetry. exact Fsd.
  - (* the right corner of sg is the corner processed next *)
    subst x. assert (HS : S sg < length tr) by (unfold N in *; lia).
    destruct (step_stk sg HS) as [([Y|Y] & _)|[(Y & _)|[(Y & _)|[(_ & _ & En & _)|(Y & _)]]]]; try congruence.
    rewrite En in Eo'. inversion Eo' as [X].
    assert (S sg = m) by (apply FND; [exact HS|exact Hm|rewrite X; exact Fsd]). subst m.
    destruct Hsd as [Y1|Y1]; rewrite Y1 in X; [apply (next_ne (c (S sg)))|apply (prev_ne (c (S sg)))]; symmetry; exact X.
Qed.

(** the events, in terms of the trace *)
Lemma ev_in src spl ed : In (src, spl, ed) (o_events o) <-> exists m, m < N /\ src = Z.of_nat m /\ EVAT opp tr yL m spl ed.
Proof.
  destruct (Nat.eq_dec N 0) as [Z0|NZ].
  { split.
    - intros Hin. exfalso. pose proof (trace_refines_big_step_ok _ _ _ _ _ _ _ Et) as E.
      destruct (eb_encode_total c2v opp nf nv niso ndeg Hlen OK Hv FAN) as [T1 T2].
      destruct (Nat.eq_dec nf ndeg) as [Eq|Nd]; [rewrite (T1 Eq) in E; discriminate|].
      destruct (T2 Nd) as (o' & E' & OO & _). rewrite E in E'. inversion E'; subst o'.
      destruct OO as (_ & _ & _ & Nsy & _ & _ & _ & _ & Rng & _). rewrite Forall_forall in Rng. specialize (Rng _ Hin). cbn in Rng.
      unfold N in Z0. rewrite Lt in Z0. fold ns in Nsy. lia.
    - intros (m & Hm & _). lia. }
  destruct (J5M_all opp tr yL sL StepsW Last FirstW FND) as (_ & J5N). specialize (J5N ltac:(unfold N in NZ; lia) src spl ed).
  rewrite Eev, <- in_rev. exact J5N.
Qed.

(** an event for the S symbol sg: its left corner is a corner of the source symbol's face other than its processing corner *)
Lemma ev_not_alive sg l : sg < N -> y sg = 1%Z -> oat opp (prev_c (c sg)) = Some l ->
  (exists src ed, In (src, Z.of_nat sg, ed) (o_events o)) -> ~ alive l.
Proof.
  intros Hs Ys El (src & ed & Hin) (m' & Hm' & Em').
  apply ev_in in Hin. destruct Hin as (m & Hm & _ & x & sg' & Esg & Hsg & _ & Fx & Cs).
  assert (sg' = sg) by lia. subst sg'.
  assert (X : exists sd, (sd = next_c (c m) \/ sd = prev_c (c m)) /\ oat opp sd = Some x).
  { destruct Cs as [(_ & _ & Eo)|(_ & _ & Eo)]; [exists (next_c (c m))|exists (prev_c (c m))]; split; auto. }
  destruct X as (sd & Hsd & Eo).
  pose proof (ev_left sg m sd x Hsg Hm Ys Hsd Eo (eq_sym Fx)) as Ex. subst x.
  apply OPPINV in Eo. assert (El' : l = sd) by congruence. rewrite El' in Em'.
  assert (Em : m' = m).
  { apply FND; [exact Hm'|exact Hm|]. rewrite Em'. destruct Hsd as [-> | ->]; [apply next_face|apply prev_face]. }
  rewrite Em in Em'. destruct Hsd as [Y1|Y1]; rewrite Y1 in Em'; [apply (next_ne (c m))|apply (prev_ne (c m))]; symmetry; exact Em'.
Qed.

(** the last symbol is not S *)
Lemma S_not_last : 0 < N -> y (N - 1) <> 1%Z.
Proof.
  intros HN Y. destruct (aft_x (N - 1) ltac:(unfold N in *; lia)) as (s1 & Sp & _ & Es). specialize (Es ltac:(unfold N in *; lia)). subst s1.
  destruct Sp as (_ & _ & _ & _ & _ & D). cbv zeta in D. fold y in D.
  destruct D as [(Y0 & _)|[(Y0 & _)|[(Y0 & _)|[(Y0 & _)|(_ & (r & Er & Ur) & _ & _ & St & _)]]]]; try congruence.
  pose proof FinalDead as FD. rewrite St, Er in FD. inversion FD as [|? ? Dr _]. cbn [dead_at] in Dr. congruence.
Qed.


(** an entry below the top that is never popped alive is dead after some symbol i of the same run *)
Lemma fate l : ~ alive l -> forall d j, j + d = N - 1 -> j < N -> In (Some l) (tl (stack (sti j))) ->
  exists i s1, j <= i /\ i < N /\ NB j i /\ vf s1 = upd (vf (sti i)) (c i / 3) true /\ nth (l / 3) (vf s1) false = true.
Proof.
  intros Na. induction d as [|d IH]; intros j Ej Hj Hin.
  - assert (j = N - 1) by lia. subst j. exists (N - 1), sL. split; [lia|]. split; [lia|]. split; [intros p A B; lia|].
    destruct (Last ltac:(unfold N in *; lia)) as (_ & _ & Vf & _ & _ & D). cbv zeta in D. split; [exact Vf|].
    pose proof FinalDead as FD. rewrite Forall_forall in FD.
    assert (InS : forall e, In e (tl (stack (sti (N - 1)))) -> In e (stack (sti (N - 1)))) by (intros e He; destruct (stack (sti (N - 1))); [destruct He|right; exact He]).
    destruct D as [(_ & St & _)|[(_ & _ & _ & St & _)|[(_ & _ & _ & St & _)|[(_ & _ & _ & _ & St & _)|(Y0 & _)]]]].
    + apply (FD (Some l)). rewrite St. apply InS. exact Hin.
    + apply (FD (Some l)). rewrite St. apply InS. exact Hin.
    + apply (FD (Some l)). rewrite St. apply InS. exact Hin.
    + apply (FD (Some l)). rewrite St. exact Hin.
    + exfalso. apply (S_not_last ltac:(lia)). replace (length tr - 1) with (N - 1) in Y0 by reflexivity.
      unfold EbTraceInv_proofs.ysym. fold N. replace (S (N - 1) <? N) with false by (symmetry; apply Nat.ltb_ge; lia). exact Y0.
  - assert (HS : S j < length tr) by (unfold N in *; lia).
    assert (Ext : forall i s1, S j <= i /\ i < N /\ NB (S j) i /\ vf s1 = upd (vf (sti i)) (c i / 3) true /\ nth (l / 3) (vf s1) false = true ->
              SS j -> exists i s1, j <= i /\ i < N /\ NB j i /\ vf s1 = upd (vf (sti i)) (c i / 3) true /\ nth (l / 3) (vf s1) false = true).
    { intros i s1 (A & B & Cn & D & E) Hs. exists i, s1. split; [lia|]. split; auto. split; auto.
      intros p P1 P2. destruct (Nat.eq_dec p j) as [->|]; [exact Hs|apply Cn; lia]. }
    destruct (step_stk j HS) as [(_ & E & _ & Hs)|[(_ & E & _ & Hs)|[(_ & _ & Hs & dead & rest & E0 & E & Dd)|[(_ & _ & _ & Hs & l0 & _ & _ & E)|(_ & _ & s1 & Vf & Dd)]]]].
    + destruct (IH (S j) ltac:(lia) ltac:(unfold N in *; lia) ltac:(rewrite E; exact Hin)) as (i & s1 & X). apply (Ext i s1 X Hs).
    + destruct (IH (S j) ltac:(lia) ltac:(unfold N in *; lia) ltac:(rewrite E; exact Hin)) as (i & s1 & X). apply (Ext i s1 X Hs).
    + rewrite E0 in Hin. apply in_app_or in Hin. destruct Hin as [Hd|[He|Hr]].
      * exists j, (sti (S j)). split; [lia|]. split; [exact Hj|]. split; [intros p A B; lia|]. split; [apply vf_SS; auto|].
        rewrite Forall_forall in Dd. specialize (Dd _ Hd). exact Dd.
      * exfalso. apply Na. exists (S j). split; [unfold N; exact HS|]. inversion He. reflexivity.
      * destruct (IH (S j) ltac:(lia) ltac:(unfold N in *; lia) ltac:(rewrite E; cbn [tl]; exact Hr)) as (i & s1 & X). apply (Ext i s1 X Hs).
    + destruct (IH (S j) ltac:(lia) ltac:(unfold N in *; lia) ltac:(rewrite E; cbn [tl]; right; exact Hin)) as (i & s1 & X). apply (Ext i s1 X Hs).
    + exists j, s1. split; [lia|]. split; [exact Hj|]. split; [intros p A B; lia|]. split; [exact Vf|].
      rewrite Forall_forall in Dd. specialize (Dd _ Hin). exact Dd.
Qed.

(** ... and then the symbol that visited its face recorded an event for the S symbol *)
Lemma not_alive_ev sg l : sg < N -> y sg = 1%Z -> oat opp (prev_c (c sg)) = Some l -> ~ alive l ->
  exists src ed, In (src, Z.of_nat sg, ed) (o_events o).
Proof.
  intros Hs Ys El Na.
  assert (HN : 0 < N) by lia.
  assert (HSs : S sg < length tr).
  { destruct (Nat.eq_dec (S sg) N) as [X|X]; [|unfold N in *; lia]. exfalso. apply (S_not_last HN). replace (N - 1) with sg by lia. exact Ys. }
  destruct (step_stk sg HSs) as [([Y0|Y0] & _)|[(Y0 & _)|[(Y0 & _)|[(_ & _ & _ & _ & l0 & El0 & Ul & Est)|(Y0 & _)]]]]; try congruence.
  rewrite El in El0. inversion El0; subst l0. clear El0.
  destruct (fate l Na (N - 1 - S sg) (S sg) ltac:(unfold N in *; lia) ltac:(unfold N in *; lia)) as (i & s1 & Li & Hi & Nb & Vf1 & Vis).
  { rewrite Est. cbn [tl]. left. reflexivity. }
  (* the symbol m2 of the same run that visited the face of l *)
  assert (M2 : exists m2, S sg <= m2 /\ m2 <= i /\ c m2 / 3 = l / 3).
  { rewrite Vf1, nth_upd in Vis. destruct ((l / 3 =? c i / 3) && (c i / 3 <? length (vf (sti i)))) eqn:E.
    - apply andb_prop in E. destruct E as [E _]. apply Nat.eqb_eq in E. exists i. split; [lia|]. split; [lia|auto].
    - apply (vfNB (S sg) i Li ltac:(unfold N in Hi; exact Hi) Nb) in Vis. destruct Vis as [X|(m' & A & B & C)]; [congruence|].
      exists m'. split; [lia|]. split; [lia|exact C]. }
  destruct M2 as (m2 & L1 & L2 & Fm2).
  assert (Hm2N : m2 < N) by lia.
  assert (Ncl : c m2 <> l) by (intro X; apply Na; exists m2; split; auto).
  pose proof (OPPINV _ _ El) as Eol. set (x := prev_c (c sg)) in *.
  assert (Fx : x / 3 = c sg / 3) by (unfold x; apply prev_face).
  (* the state after m2: the face of x is visited *)
  destruct (aft_x m2 ltac:(unfold N in *; lia)) as (s2 & Af).
  assert (Vx : nth (x / 3) (vf s2) false = true).
  { destruct Af as ((_ & _ & Vf & Lv & _) & _). rewrite Vf, nth_upd.
    destruct ((x / 3 =? c m2 / 3) && (c m2 / 3 <? length (vf (sti m2)))); auto.
    rewrite Fx. apply (vis_later sg m2); [lia|unfold N in *; lia]. }
  destruct Af as ((_ & _ & _ & _ & _ & D) & _). cbv zeta in D. fold y in D.
  destruct (efact_m m2 Hm2N) as (_ & _ & _ & Dm). cbv zeta in Dm.
  assert (Ev : exists ed, EVAT opp tr yL m2 (Z.of_nat sg) ed).
  { destruct (face_corners (c m2) l (eq_sym Fm2)) as [X|[X|X]]; [congruence| |].
    - rewrite <- X in D. rewrite Eol in D.
      destruct D as [(Y0 & _)|[(Y0 & _)|[(Y0 & (x' & Ex' & Ux') & _)|[(Y0 & _)|(Y0 & (x' & Ex' & Ux') & _)]]]].
      + exfalso. destruct Dm as [(Y1 & _)|[(Y1 & _)|[(Y1 & _)|[(_ & K1 & Erc & _)|(Y1 & _)]]]]; try congruence.
        change (opp_at opp (next_c (c m2))) with (oat opp (next_c (c m2))) in Erc. rewrite <- X, Eol in Erc. inversion Erc as [Ex].
        assert (HS2 : S m2 < length tr) by (unfold N in *; lia).
        assert (Ec2 : c (S m2) = nth (ns - 1 - m2 - 1) Q 0) by (rewrite (Corner (S m2) HS2); f_equal; lia).
        rewrite <- Ec2 in Ex.
        assert (sg = S m2) by (apply FND; [unfold N in *; lia|exact HS2|rewrite <- Ex; symmetry; exact Fx]). lia.
      + exists 1%Z. exists x, sg. split; auto. split; [lia|]. split; auto. split; [symmetry; exact Fx|]. left. split; auto. split; [left; exact Y0|]. rewrite <- X. exact Eol.
      + exfalso. inversion Ex'; subst x'. congruence.
      + exists 1%Z. exists x, sg. split; auto. split; [lia|]. split; auto. split; [symmetry; exact Fx|]. left. split; auto. split; [right; exact Y0|]. rewrite <- X. exact Eol.
      + exfalso. inversion Ex'; subst x'. congruence.
    - rewrite <- X in D. rewrite Eol in D.
      destruct D as [(Y0 & _)|[(Y0 & _ & (x' & Ex' & Ux') & _)|[(Y0 & _)|[(Y0 & _)|(Y0 & _ & (x' & Ex' & Ux') & _)]]]].
      + exfalso. destruct Dm as [(Y1 & _)|[(Y1 & _)|[(Y1 & _)|[(_ & K1 & _ & Ci)|(Y1 & _)]]]]; try congruence.
        destruct (efact_m sg Hs) as (Rs & Ds & _).
        destruct (opp_facts c2v opp nf Hlen OK l x Eol) as (_ & _ & _ & _ & _ & _ & V1 & _).
        rewrite X, next_prev in V1. unfold x in V1. rewrite prev_prev in V1.
        destruct (Ci (next_c (c sg)) (next_lt _ _ Rs) ltac:(rewrite next_face; exact Ds) (eq_sym V1)) as (_ & _ & Cj).
        apply (Cj (ns - 1 - sg)); [unfold N in *; lia|]. rewrite <- (Corner sg) by (unfold N in *; lia). symmetry. apply next_face.
      + exfalso. inversion Ex'; subst x'. congruence.
      + exists 0%Z. exists x, sg. split; auto. split; [lia|]. split; auto. split; [symmetry; exact Fx|]. right. split; auto. split; [left; exact Y0|]. rewrite <- X. exact Eol.
      + exists 0%Z. exists x, sg. split; auto. split; [lia|]. split; auto. split; [symmetry; exact Fx|]. right. split; auto. split; [right; exact Y0|]. rewrite <- X. exact Eol.
      + exfalso. inversion Ex'; subst x'. congruence. }
  destruct Ev as (ed & Ev). exists (Z.of_nat m2), ed. apply ev_in. exists m2. auto.
Qed.

(** ** the script with events, in decoder indices *)
Let Y := rev (o_syms o).
Let ES := EVseg_of o.

Lemma Y_at' k : k < ns -> nth_error Y k = Some (y (ns - 1 - k)).
Proof.
  intros Hk. unfold Y. rewrite (Ysym (ns - 1 - k)) by lia.
  rewrite nth_error_nth' with (d := 0%Z) by (rewrite rev_length; fold ns; lia). f_equal.
  rewrite rev_nth by (fold ns; lia). f_equal. fold ns. lia.
Qed.
Lemma Qc k : k < ns -> nth k Q 0 = c (ns - 1 - k).
Proof. intros Hk. rewrite (Corner (ns - 1 - k)) by lia. f_equal. lia. Qed.

Lemma ES_in j e : In e (ES j) <->
  exists src spl ed, In (src, spl, ed) (o_events o) /\ src = Z.of_nat (ns - 1 - j) /\ e = (ns - 1 - Z.to_nat spl, (ed =? 1)%Z).
Proof.
  unfold ES, EVseg_of. fold ns. rewrite in_map_iff. split.
  - intros ([[src spl] ed] & <- & Hin). apply filter_In in Hin. destruct Hin as (Hin & Hs). apply in_rev in Hin.
    exists src, spl, ed. split; auto. split; [lia|reflexivity].
  - intros (src & spl & ed & Hin & Es & ->). exists (src, spl, ed). split; auto. apply filter_In. split; [apply -> in_rev; exact Hin|lia].
Qed.

(** an event for the S symbol with encoder index sg <-> hasev at its decoder index *)
Lemma hasev_iff sg : sg < N -> (hasev ES (ns - 1 - sg) = true <-> exists src ed, In (src, Z.of_nat sg, ed) (o_events o)).
Proof.
  intros Hs. unfold N in Hs. rewrite Lt in Hs. split.
  - intros H. unfold hasev in H. apply existsb_exists in H. destruct H as (j & Hj & H). apply existsb_exists in H. destruct H as (e & He & Ee).
    apply Nat.eqb_eq in Ee. apply ES_in in He. destruct He as (src & spl & ed & Hin & _ & ->). cbn [fst] in Ee.
    pose proof Hin as Hin'. apply ev_in in Hin'. destruct Hin' as (m & Hm & _ & x & sg' & -> & Hsg' & _).
    rewrite Nat2Z.id in Ee. assert (sg' = sg) by (unfold N in Hm; lia). subst sg'. eauto.
  - intros (src & ed & Hin). pose proof Hin as Hin'. apply ev_in in Hin'. destruct Hin' as (m & Hm & -> & x & sg' & Esg & Hsg' & _).
    assert (sg' = sg) by lia. subst sg'. unfold N in Hm. rewrite Lt in Hm.
    unfold hasev. apply existsb_exists. exists (ns - 1 - m). split; [apply in_seq; lia|]. apply existsb_exists.
    exists (ns - 1 - sg, (ed =? 1)%Z). split.
    + apply ES_in. exists (Z.of_nat m), (Z.of_nat sg), ed. split; auto. split; [f_equal; lia|]. rewrite Nat2Z.id. reflexivity.
    + apply Nat.eqb_eq. reflexivity.
Qed.

Lemma ES_nil k : k < ns -> (y (ns - 1 - k) = 0%Z \/ y (ns - 1 - k) = 1%Z) -> ES k = [].
Proof.
  intros Hk Hy. destruct (ES k) as [|e l] eqn:E; auto. exfalso.
  assert (He : In e (ES k)) by (rewrite E; left; auto). apply ES_in in He. destruct He as (src & spl & ed & Hin & Es & _).
  apply ev_in in Hin. destruct Hin as (m & Hm & Em & x & sg & _ & _ & _ & _ & Cs).
  assert (m = ns - 1 - k) by lia. subst m.
  destruct Cs as [(_ & [Z|Z] & _)|(_ & [Z|Z] & _)]; destruct Hy as [Hy|Hy]; congruence.
Qed.

Lemma ES_bound k e : In e (ES k) -> fst e < ns.
Proof.
  intros He. apply ES_in in He. destruct He as (src & spl & ed & Hin & _ & ->). cbn [fst].
  apply ev_in in Hin. destruct Hin as (m & Hm & _). unfold N in Hm. lia.
Qed.

(** the data of the event registered for the S symbol at decoder index k *)
Lemma ES_event k j e : k < ns -> y (ns - 1 - k) = 1%Z -> In e (ES j) -> fst e = k ->
  j < k /\ opp_at opp (eco Q k 2) = Some (eco Q j (ra_of e)).
Proof.
  intros Hk Yk He Ee. apply ES_in in He. destruct He as (src & spl & ed & Hin & Es & ->). cbn [fst] in Ee.
  apply ev_in in Hin. destruct Hin as (m & Hm & Em & x & sg & -> & Hsg & Ysg & Fx & Cs). rewrite Nat2Z.id in Ee.
  unfold N in Hm. rewrite Lt in Hm. assert (m = ns - 1 - j) by lia. assert (sg = ns - 1 - k) by lia. subst m sg.
  split; [lia|].
  assert (X : exists sd, (sd = next_c (c (ns - 1 - j)) \/ sd = prev_c (c (ns - 1 - j))) /\ oat opp sd = Some x /\
              sd = eco Q j (ra_of (ns - 1 - Z.to_nat (Z.of_nat (ns - 1 - k)), (ed =? 1)%Z))).
  { unfold ra_of. cbn [snd]. unfold eco. rewrite (Qc j) by lia.
    destruct Cs as [(-> & _ & Eo)|(-> & _ & Eo)]; cbn [Z.eqb Pos.eqb rot]; [exists (next_c (c (ns - 1 - j)))|exists (prev_c (c (ns - 1 - j)))]; auto. }
  destruct X as (sd & Hsd & Eo & Esd).
  pose proof (ev_left (ns - 1 - k) (ns - 1 - j) sd x Hsg ltac:(unfold N; lia) Ysg Hsd Eo (eq_sym Fx)) as Ex. subst x.
  apply OPPINV in Eo. unfold eco at 1. cbn [rot]. rewrite (Qc k) by lia. rewrite <- Esd. exact Eo.
Qed.

(** every S symbol has at most one event; no event is recorded twice: |events| <= #symbols *)
Lemma ev_spl_unique src spl ed src' ed' : In (src, spl, ed) (o_events o) -> In (src', spl, ed') (o_events o) -> src = src' /\ ed = ed'.
Proof.
  intros H1 H2. pose proof H1 as H1'. pose proof H2 as H2'.
  apply ev_in in H1'. destruct H1' as (m & Hm & -> & x & sg & -> & Hsg & Ysg & Fx & Cs).
  apply ev_in in H2'. destruct H2' as (m' & Hm' & -> & x' & sg' & Esg & Hsg' & _ & _ & Cs').
  assert (sg' = sg) by lia. subst sg'. unfold N in Hm, Hm'. rewrite Lt in Hm, Hm'.
  set (k := ns - 1 - sg). assert (Hk : k < ns) by (unfold k; lia).
  assert (Yk : y (ns - 1 - k) = 1%Z) by (unfold k; replace (ns - 1 - (ns - 1 - sg)) with sg by lia; exact Ysg).
  assert (I1 : In (k, (ed =? 1)%Z) (ES (ns - 1 - m))).
  { apply ES_in. exists (Z.of_nat m), (Z.of_nat sg), ed. split; auto. split; [f_equal; lia|]. rewrite Nat2Z.id. reflexivity. }
  assert (I2 : In (k, (ed' =? 1)%Z) (ES (ns - 1 - m'))).
  { apply ES_in. exists (Z.of_nat m'), (Z.of_nat sg), ed'. split; auto. split; [f_equal; lia|]. rewrite Nat2Z.id. reflexivity. }
  destruct (ES_event k _ _ Hk Yk I1 eq_refl) as (J1 & O1). destruct (ES_event k _ _ Hk Yk I2 eq_refl) as (J2 & O2).
  rewrite O1 in O2. inversion O2 as [X].
  assert (R1 : ra_of (k, (ed =? 1)%Z) < 3) by (unfold ra_of; cbn [snd]; destruct (ed =? 1)%Z; lia).
  assert (R2 : ra_of (k, (ed' =? 1)%Z) < 3) by (unfold ra_of; cbn [snd]; destruct (ed' =? 1)%Z; lia).
  destruct (eco_inj Q NDQ (ns - 1 - m) (ra_of (k, (ed =? 1)%Z)) (ns - 1 - m') (ra_of (k, (ed' =? 1)%Z)) ltac:(lia) ltac:(lia) R1 R2 X) as (Ej & Er).
  split; [f_equal; lia|]. unfold ra_of in Er. cbn [snd] in Er.
  assert (D1 : ed = 1%Z \/ ed = 0%Z) by (destruct Cs as [(A & _)|(A & _)]; auto).
  assert (D2 : ed' = 1%Z \/ ed' = 0%Z) by (destruct Cs' as [(A & _)|(A & _)]; auto).
  destruct D1 as [-> | ->]; destruct D2 as [-> | ->]; cbn in Er; auto; lia.
Qed.

Lemma events_le : 0 < N -> length (o_events o) <= ns.
Proof.
  intros HN.
  destruct (J6M_all opp tr yL sL StepsW Last FirstW FND) as (_ & J6N). specialize (J6N HN). unfold J6 in J6N.
  assert (ND : NoDup (o_events o)) by (rewrite Eev; apply NoDup_rev; exact J6N).
  rewrite <- (map_length (fun e : Z * Z * Z => Z.to_nat (snd (fst e))) (o_events o)).
  apply nodup_bound.
  - apply Edgebreaker_compact_proofs.NoDup_map_on; [exact ND|].
    intros [[s1 p1] e1] [[s2 p2] e2] H1 H2 E. cbn [fst snd] in E.
    pose proof H1 as H1'. apply ev_in in H1'. destruct H1' as (m & _ & _ & x & sg & Ep1 & _).
    pose proof H2 as H2'. apply ev_in in H2'. destruct H2' as (m' & _ & _ & x' & sg' & Ep2 & _).
    subst p1 p2. rewrite !Nat2Z.id in E. subst sg'. destruct (ev_spl_unique _ _ _ _ _ H1 H2) as (-> & ->). reflexivity.
  - intros v Hvv. apply in_map_iff in Hvv. destruct Hvv as ([[s1 p1] e1] & <- & Hin). cbn [fst snd].
    apply ev_in in Hin. destruct Hin as (m & Hm & _ & x & sg & -> & Hsg & _). unfold N in Hm. lia.
Qed.

Definition alive_b (l : nat) : bool := existsb (fun m => c m =? l) (seq 0 N).
Definition alive_e (e : option nat) : bool := match e with Some l => alive_b l | None => false end.
Lemma alive_b_iff l : alive_b l = true <-> alive l.
Proof.
  unfold alive_b, alive. rewrite existsb_exists. split.
  - intros (m & Hm & E). apply in_seq in Hm. apply Nat.eqb_eq in E. exists m. split; [lia|auto].
  - intros (m & Hm & E). exists m. split; [apply in_seq; lia|apply Nat.eqb_eq; auto].
Qed.

Lemma topsE_S k yv : nth_error Y k = Some yv ->
  topsE Y ES (S k) = if (yv =? 7)%Z then k :: topsE Y ES k
                     else if (yv =? 1)%Z then (if hasev ES k then k :: tl (topsE Y ES k) else k :: tl (tl (topsE Y ES k)))
                     else k :: tl (topsE Y ES k).
Proof. intros E. cbn [topsE]. rewrite E. reflexivity. Qed.


Lemma dead_filter i (L : list (option nat)) s1 : i < N -> (forall e, In e L -> In e (tl (stack (sti i)))) ->
  vf s1 = upd (vf (sti i)) (c i / 3) true -> Forall (dead_at (vf s1)) L -> filter alive_e L = [].
Proof.
  intros Hi Sub Vf Dd. apply filter_none_all. intros e He. destruct e as [l|]; [|reflexivity]. cbn [alive_e].
  destruct (alive_b l) eqn:A; [|reflexivity]. exfalso. apply alive_b_iff in A. destruct A as (m2 & Hm2 & Em2).
  rewrite Forall_forall in Dd. specialize (Dd _ He). cbn [dead_at] in Dd.
  apply (dnaM i l s1 ltac:(unfold N in Hi; exact Hi) (Sub _ He) Vf Dd m2 ltac:(unfold N in Hm2; exact Hm2)). exact Em2.
Qed.

(** the stack correspondence for any number of runs: below the entries of the current run, one entry per later run *)
Lemma TS : forall d i, i + d = N - 1 -> i < N -> exists rest,
  map (fun j => nth j Q 0) (topsE Y ES (N - i)) = c i :: map the (filter alive_e (tl (stack (sti i)))) ++ rest.
Proof.
  induction d as [|d IH]; intros i Ei Hi.
  - assert (i = N - 1) by lia. subst i. replace (N - (N - 1)) with 1 by lia. exists [].
    assert (T1 : topsE Y ES 1 = [0]).
    { destruct (nth_error Y 0) as [yv|] eqn:E0.
      - rewrite (topsE_S 0 yv E0). cbn [topsE tl]. destruct (yv =? 7)%Z; auto. destruct (yv =? 1)%Z; [destruct (hasev ES 0)|]; auto.
      - apply nth_error_None in E0. unfold Y in E0. rewrite rev_length in E0. fold ns in E0. unfold N in Hi. lia. }
    rewrite T1. cbn [map]. rewrite (Qc 0) by (unfold N in Hi; lia). replace (ns - 1 - 0) with (N - 1) by (unfold N; lia). f_equal.
    rewrite app_nil_r.
    destruct (Last ltac:(unfold N in *; lia)) as (_ & _ & Vf & _ & _ & D). cbv zeta in D.
    rewrite (dead_filter (N - 1) _ sL); auto.
    pose proof FinalDead as FD. rewrite Forall_forall in FD. apply Forall_forall. intros e He.
    assert (InS : forall e, In e (tl (stack (sti (N - 1)))) -> In e (stack (sti (N - 1)))) by (intros e0 He0; destruct (stack (sti (N - 1))); [destruct He0|right; exact He0]).
    destruct D as [(_ & St & _)|[(_ & _ & _ & St & _)|[(_ & _ & _ & St & _)|[(_ & _ & _ & _ & St & _)|(Y0 & _)]]]].
    + apply FD. rewrite St. apply InS. exact He.
    + apply FD. rewrite St. apply InS. exact He.
    + apply FD. rewrite St. apply InS. exact He.
    + apply FD. rewrite St. exact He.
    + exfalso. apply (S_not_last ltac:(lia)).
      unfold EbTraceInv_proofs.ysym. fold N. replace (S (N - 1) <? N) with false by (symmetry; apply Nat.ltb_ge; lia). exact Y0.
  - assert (HS : S i < length tr) by (unfold N in *; lia).
    assert (Hk : ns - 1 - i < ns) by (unfold N in *; lia).
    replace (N - i) with (S (ns - 1 - i)) by (unfold N in *; lia).
    destruct (IH (S i) ltac:(lia) ltac:(unfold N in *; lia)) as (rest' & IHs). replace (N - S i) with (ns - 1 - i) in IHs by (unfold N in *; lia).
    pose proof (Y_at' (ns - 1 - i) Hk) as Ey. replace (ns - 1 - (ns - 1 - i)) with i in Ey by (unfold N in *; lia).
    rewrite (topsE_S _ _ Ey).
    assert (Ec : nth (ns - 1 - i) Q 0 = c i) by (rewrite (Qc _ Hk); f_equal; unfold N in *; lia).
    destruct (step_stk i HS) as [([Y0|Y0] & E & _)|[(Y0 & E & _)|[(Y0 & _ & Hs & dead & rest & E0 & E & Dd)|[(Y0 & _ & _ & Hs & l & El & Ul & E)|(Y0 & E & s1 & Vf & Dd)]]]].
    + exists rest'. rewrite Y0. cbn [Z.eqb Pos.eqb]. cbn [map]. rewrite Ec. f_equal. rewrite <- E.
      destruct (topsE Y ES (ns - 1 - i)); cbn [map tl] in *; [discriminate|]. inversion IHs. reflexivity.
    + exists rest'. rewrite Y0. cbn [Z.eqb Pos.eqb]. cbn [map]. rewrite Ec. f_equal. rewrite <- E.
      destruct (topsE Y ES (ns - 1 - i)); cbn [map tl] in *; [discriminate|]. inversion IHs. reflexivity.
    + exists rest'. rewrite Y0. cbn [Z.eqb Pos.eqb]. cbn [map]. rewrite Ec. f_equal. rewrite <- E.
      destruct (topsE Y ES (ns - 1 - i)); cbn [map tl] in *; [discriminate|]. inversion IHs. reflexivity.
    + (* E inside a run *)
      exists rest'. rewrite Y0. cbn [Z.eqb Pos.eqb]. cbn [map]. rewrite Ec. f_equal. rewrite IHs, E. cbn [tl].
      rewrite E0, filter_app. rewrite (dead_filter i dead (sti (S i))); [|unfold N in *; lia| |apply vf_SS; auto|exact Dd].
      * cbn [app filter alive_e].
        assert (A : alive_b (c (S i)) = true) by (apply alive_b_iff; exists (S i); split; [unfold N; exact HS|reflexivity]).
        rewrite A. reflexivity.
      * intros e He. rewrite E0. apply in_or_app. left. exact He.
    + (* S *)
      exists rest'. rewrite Y0. cbn [Z.eqb Pos.eqb]. rewrite E in IHs. cbn [tl filter alive_e] in IHs.
      destruct (alive_b l) eqn:A.
      * assert (Hh : hasev ES (ns - 1 - i) = false).
        { destruct (hasev ES (ns - 1 - i)) eqn:H; [|reflexivity]. exfalso.
          apply (hasev_iff i ltac:(unfold N in *; lia)) in H. apply alive_b_iff in A.
          exact (ev_not_alive i l ltac:(unfold N in *; lia) Y0 El H A). }
        rewrite Hh. cbn [map]. rewrite Ec. f_equal.
        destruct (topsE Y ES (ns - 1 - i)) as [|t0 [|t1 T]]; cbn [map tl the app] in *; try discriminate. inversion IHs. reflexivity.
      * assert (Hh : hasev ES (ns - 1 - i) = true).
        { apply (hasev_iff i ltac:(unfold N in *; lia)). apply (not_alive_ev i l ltac:(unfold N in *; lia) Y0 El).
          intro X. apply alive_b_iff in X. congruence. }
        rewrite Hh. cbn [map]. rewrite Ec. f_equal.
        destruct (topsE Y ES (ns - 1 - i)) as [|t0 T]; cbn [map tl the app] in *; try discriminate. inversion IHs. reflexivity.
    + (* a run boundary *)
      exists (c (S i) :: rest'). rewrite Y0. cbn [Z.eqb Pos.eqb]. cbn [map]. rewrite Ec. f_equal.
      rewrite (dead_filter i (tl (stack (sti i))) s1); [|unfold N in *; lia|auto|exact Vf|exact Dd].
      cbn [map app]. rewrite IHs, E. cbn [tl filter map app]. reflexivity.
Qed.

Lemma LY' : length Y = ns.
Proof. unfold Y. apply rev_length. Qed.

Lemma topsE_hd k : 1 <= k <= ns -> exists T, topsE Y ES k = (k - 1) :: T.
Proof.
  intros Hk. destruct k as [|k']; [lia|]. rewrite (topsE_S k' _ (Y_at' k' ltac:(lia))). replace (S k' - 1) with k' by lia.
  destruct (_ =? 7)%Z; [eauto|]. destruct (_ =? 1)%Z; [destruct (hasev ES k')|]; eauto.
Qed.

Lemma script_all k : k < ns -> script_atE c2v opp nf Q Y ES k.
Proof.
  intros Hk. set (i := ns - 1 - k). assert (Hi : i < N) by (unfold N, i; lia).
  assert (Ek : ns - 1 - i = k) by (unfold i; lia).
  unfold script_atE. rewrite LY'. split; [intros e He; exact (ES_bound k e He)|].
  rewrite (Y_at' k Hk). fold i.
  pose proof (efact_m i Hi) as EF. rewrite Ek in EF.
  assert (Ec : nth k Q 0 = c i) by (rewrite (Qc k Hk); reflexivity).
  destruct (Z.eq_dec (y i) 1) as [Y1|N1].
  - (* S *)
    right. right. right. right.
    assert (HN : 0 < N) by lia.
    assert (HSi : S i < length tr).
    { destruct (Nat.eq_dec (S i) N) as [X|X]; [|unfold N in *; lia]. exfalso. apply (S_not_last HN). replace (N - 1) with i by lia. exact Y1. }
    assert (K1 : 1 <= k) by (unfold N, i in *; lia).
    destruct (step_stk i HSi) as [([Y0|Y0] & _)|[(Y0 & _)|[(Y0 & _)|[(_ & _ & En & _ & l & El & Ul & Est)|(Y0 & _)]]]]; try congruence.
    destruct EF as (A & B & C & Dd). cbv zeta in Dd.
    destruct Dd as [(D1 & _)|[(D1 & _)|[(D1 & _)|[(D1 & _)|(_ & SB)]]]]; try congruence.
    split; [exact Y1|]. split; [exact K1|]. split.
    { unfold eco. cbn [rot]. rewrite Ec, (Qc (k - 1)) by lia. replace (ns - 1 - (k - 1)) with (S i) by (unfold i; lia). exact En. }
    split. { unfold ncr, eco. cbn [rot]. rewrite Ec. change (opp_at opp (c i)) with (opp_at opp (c i)) in C. destruct (opp_at opp (c i)) as [o0|] eqn:Eo; auto. }
    split; [apply ES_nil; [exact Hk|fold i; auto]|]. split; [rewrite <- Ec in SB; exact SB|].
    destruct (TS (N - 1 - S i) (S i) ltac:(unfold N in *; lia) ltac:(unfold N in *; lia)) as (rest & T).
    replace (N - S i) with k in T by (unfold N, i in *; lia). rewrite Est in T. cbn [tl filter alive_e] in T.
    destruct (topsE_hd k ltac:(lia)) as (T0 & ET).
    destruct (alive_b l) eqn:Al.
    + left. assert (Hh : hasev ES k = false).
      { destruct (hasev ES k) eqn:H; [|reflexivity]. exfalso. rewrite <- Ek in H.
        apply (hasev_iff i Hi) in H. apply alive_b_iff in Al. exact (ev_not_alive i l Hi Y1 El H Al). }
      split; [exact Hh|]. rewrite ET in T |- *. cbn [map the app] in T. destruct T0 as [|ja T1]; cbn [map] in T; [discriminate|].
      injection T as _ Tl _. exists ja, T1. split; [reflexivity|]. unfold eco. cbn [rot]. rewrite Ec, Tl. exact El.
    + right. assert (Hh : hasev ES k = true).
      { rewrite <- Ek. apply (hasev_iff i Hi). apply (not_alive_ev i l Hi Y1 El). intro X. apply alive_b_iff in X. congruence. }
      unfold hasev in Hh. apply existsb_exists in Hh. destruct Hh as (j & Hj & Hh). apply existsb_exists in Hh. destruct Hh as (e & He & Ee).
      apply Nat.eqb_eq in Ee. apply in_seq in Hj.
      assert (Yk : y (ns - 1 - k) = 1%Z) by (fold i; exact Y1).
      destruct (ES_event k j e Hk Yk He Ee) as (Hjk & Eo).
      exists j, e. split; [lia|]. split; [exact He|]. split; [exact Ee|]. split; [exact Eo|].
      intros j' e' Hj' He' Ee'. destruct (ES_event k j' e' Hk Yk He' Ee') as (_ & Eo'). rewrite Eo in Eo'. inversion Eo' as [X].
      assert (R1 : ra_of e < 3) by (unfold ra_of; destruct (snd e); lia).
      assert (R2 : ra_of e' < 3) by (unfold ra_of; destruct (snd e'); lia).
      destruct (eco_inj Q NDQ j (ra_of e) j' (ra_of e') ltac:(lia) ltac:(lia) R1 R2 X) as (-> & ->). auto.
  - (* C E R L *)
    assert (Cl : is_CERL (y i) = true).
    { destruct EF as (_ & _ & _ & Dd). cbv zeta in Dd. unfold is_CERL.
      destruct Dd as [(D1 & _)|[(D1 & _)|[(D1 & _)|[(D1 & _)|(D1 & _)]]]]; rewrite D1 in *; try reflexivity. congruence. }
    rewrite <- Ec in EF.
    pose proof (efact_script c2v opp nf Q Y k (y i) Hlen ltac:(rewrite LY'; exact LQ) Comp (Y_at' k Hk) Cl EF) as SA.
    unfold script_at in SA. rewrite (Y_at' k Hk) in SA. fold i in SA.
    destruct SA as [SA|[SA|[SA|[(Y0 & K1 & Eo & N0 & CI)|(Y0 & _)]]]]; [left; exact SA|right; left; exact SA|right; right; left; exact SA| |congruence].
    right. right. right. left. split; auto. split; auto. split; auto. split; auto. split; auto.
    apply ES_nil; [exact Hk|fold i; auto].
Qed.


(** ** the stack correspondence with the NAMES of the entries of the later runs: given the positions [PD] of the run starts
    (strictly decreasing; the step into a position is a run boundary, every other step is inside a run) *)
Section LedgerTS.
Variable PD : list nat.
Hypothesis PDs : StronglySorted (fun a b => b < a) PD.
Hypothesis PDlt : forall a, In a PD -> a < length tr.
Hypothesis PS : forall i, S i < length tr ->
  (In (S i) PD -> RSTEP opp (cfN tr i) (cfN tr (S i))) /\ (~ In (S i) PD -> SSTEP opp (cfN tr i) (cfN tr (S i))).

Definition RESTS (i : nat) : list nat := map (ci tr) (rev (filter (fun a => i <? a) PD)).

Lemma TS2 : forall d i, i + d = N - 1 -> i < N ->
  map (fun j => nth j Q 0) (topsE Y ES (N - i)) = c i :: map the (filter alive_e (tl (stack (sti i)))) ++ RESTS i.
Proof.
  induction d as [|d IH]; intros i Ei Hi.
  - assert (i = N - 1) by lia. subst i. replace (N - (N - 1)) with 1 by lia.
    assert (R0 : RESTS (N - 1) = []).
    { unfold RESTS. rewrite (EbTraceLedger_proofs.filter_none_all _ PD); [reflexivity|]. intros a Ha. apply Nat.ltb_ge. specialize (PDlt a Ha). unfold N. lia. }
    rewrite R0.
    assert (T1 : topsE Y ES 1 = [0]).
    { destruct (nth_error Y 0) as [yv|] eqn:E0.
      - rewrite (topsE_S 0 yv E0). cbn [topsE tl]. destruct (yv =? 7)%Z; auto. destruct (yv =? 1)%Z; [destruct (hasev ES 0)|]; auto.
      - apply nth_error_None in E0. unfold Y in E0. rewrite rev_length in E0. fold ns in E0. unfold N in Hi. lia. }
    rewrite T1. cbn [map]. rewrite (Qc 0) by (unfold N in Hi; lia). replace (ns - 1 - 0) with (N - 1) by (unfold N; lia). f_equal.
    rewrite app_nil_r.
    destruct (Last ltac:(unfold N in *; lia)) as (_ & _ & Vf & _ & _ & D). cbv zeta in D.
    rewrite (dead_filter (N - 1) _ sL); auto.
    pose proof FinalDead as FD. rewrite Forall_forall in FD. apply Forall_forall. intros e He.
    assert (InS : forall e, In e (tl (stack (sti (N - 1)))) -> In e (stack (sti (N - 1)))) by (intros e0 He0; destruct (stack (sti (N - 1))); [destruct He0|right; exact He0]).
    destruct D as [(_ & St & _)|[(_ & _ & _ & St & _)|[(_ & _ & _ & St & _)|[(_ & _ & _ & _ & St & _)|(Y0 & _)]]]].
    + apply FD. rewrite St. apply InS. exact He.
    + apply FD. rewrite St. apply InS. exact He.
    + apply FD. rewrite St. apply InS. exact He.
    + apply FD. rewrite St. exact He.
    + exfalso. apply (S_not_last ltac:(lia)).
      unfold EbTraceInv_proofs.ysym. fold N. replace (S (N - 1) <? N) with false by (symmetry; apply Nat.ltb_ge; lia). exact Y0.
  - assert (HS : S i < length tr) by (unfold N in *; lia).
    assert (Hk : ns - 1 - i < ns) by (unfold N in *; lia).
    replace (N - i) with (S (ns - 1 - i)) by (unfold N in *; lia).
    pose proof (IH (S i) ltac:(lia) ltac:(unfold N in *; lia)) as IHs. replace (N - S i) with (ns - 1 - i) in IHs by (unfold N in *; lia).
    pose proof (Y_at' (ns - 1 - i) Hk) as Ey. replace (ns - 1 - (ns - 1 - i)) with i in Ey by (unfold N in *; lia).
    rewrite (topsE_S _ _ Ey).
    assert (Ec : nth (ns - 1 - i) Q 0 = c i) by (rewrite (Qc _ Hk); f_equal; unfold N in *; lia).
    destruct (in_dec Nat.eq_dec (S i) PD) as [Hin|Hnin].
    + (* a run boundary *)
      destruct (PS i HS) as [PR _].
      destruct (ssR i HS (PR Hin)) as (Y0 & E & s1 & (_ & _ & Vf & _) & _ & Dd & _).
      assert (RS : RESTS i = c (S i) :: RESTS (S i)).
      { unfold RESTS. rewrite (filter_step_in PD i PDs Hin), rev_app_distr. reflexivity. }
      rewrite RS. rewrite Y0. cbn [Z.eqb Pos.eqb]. cbn [map]. rewrite Ec. f_equal.
      rewrite (dead_filter i (tl (stack (sti i))) s1); [|unfold N in *; lia|auto|exact Vf|exact Dd].
      cbn [map app]. rewrite IHs, E. cbn [tl filter map app]. reflexivity.
    + destruct (PS i HS) as [_ PSs]. pose proof (PSs Hnin) as Hs.
      assert (RS : RESTS i = RESTS (S i)) by (unfold RESTS; rewrite (filter_step_nin PD i Hnin); reflexivity).
      rewrite RS.
      destruct (ssS i HS Hs) as [([Y0|Y0] & E & _)|[(Y0 & E & _)|[(Y0 & _ & (dead & rest & E0 & E & Dd & _) & _)|(Y0 & _ & _ & (l & El & Ul & E) & _)]]].
      * rewrite Y0. cbn [Z.eqb Pos.eqb]. cbn [map]. rewrite Ec. f_equal. rewrite <- E.
        destruct (topsE Y ES (ns - 1 - i)); cbn [map tl] in *; [discriminate|]. inversion IHs. reflexivity.
      * rewrite Y0. cbn [Z.eqb Pos.eqb]. cbn [map]. rewrite Ec. f_equal. rewrite <- E.
        destruct (topsE Y ES (ns - 1 - i)); cbn [map tl] in *; [discriminate|]. inversion IHs. reflexivity.
      * rewrite Y0. cbn [Z.eqb Pos.eqb]. cbn [map]. rewrite Ec. f_equal. rewrite <- E.
        destruct (topsE Y ES (ns - 1 - i)); cbn [map tl] in *; [discriminate|]. inversion IHs. reflexivity.
      * rewrite Y0. cbn [Z.eqb Pos.eqb]. cbn [map]. rewrite Ec. f_equal. rewrite IHs, E. cbn [tl].
        rewrite E0, filter_app. rewrite (dead_filter i dead (sti (S i))); [|unfold N in *; lia| |apply vf_SS; auto|exact Dd].
        -- cbn [app filter alive_e].
           assert (A : alive_b (c (S i)) = true) by (apply alive_b_iff; exists (S i); split; [unfold N; exact HS|reflexivity]).
           rewrite A. reflexivity.
        -- intros e He. rewrite E0. apply in_or_app. left. exact He.
      * rewrite Y0. cbn [Z.eqb Pos.eqb]. rewrite E in IHs. cbn [tl filter alive_e] in IHs.
        destruct (alive_b l) eqn:A.
        -- assert (Hh : hasev ES (ns - 1 - i) = false).
           { destruct (hasev ES (ns - 1 - i)) eqn:H; [|reflexivity]. exfalso.
             apply (hasev_iff i ltac:(unfold N in *; lia)) in H. apply alive_b_iff in A.
             exact (ev_not_alive i l ltac:(unfold N in *; lia) Y0 El H A). }
           rewrite Hh. cbn [map]. rewrite Ec. f_equal.
           destruct (topsE Y ES (ns - 1 - i)) as [|t0 [|t1 T]]; cbn [map tl the app] in *; try discriminate. inversion IHs. reflexivity.
        -- assert (Hh : hasev ES (ns - 1 - i) = true).
           { apply (hasev_iff i ltac:(unfold N in *; lia)). apply (not_alive_ev i l ltac:(unfold N in *; lia) Y0 El).
             intro X. apply alive_b_iff in X. congruence. }
           rewrite Hh. cbn [map]. rewrite Ec. f_equal.
           destruct (topsE Y ES (ns - 1 - i)) as [|t0 T]; cbn [map tl the app] in *; try discriminate. inversion IHs. reflexivity.
Qed.

(** the decoder's final stack = the start corners of the runs, in encoding order *)
Lemma tops_starts : 0 < N -> In 0 PD -> map (fun j => nth j Q 0) (topsE Y ES ns) = map (ci tr) (rev PD).
Proof.
  intros HN H0. pose proof (TS2 (N - 1) 0 ltac:(lia) HN) as T. replace (N - 0) with ns in T by (unfold N; lia).
  destruct (First ltac:(unfold N in HN; exact HN)) as (_ & _ & _ & _ & St0). rewrite St0 in T. cbn [tl filter map app] in T.
  rewrite T. rewrite (desc_zero PD PDs H0). cbn [map]. reflexivity.
Qed.
End LedgerTS.
End EncM.

(** closed form: EVERY encoding satisfies the per-symbol script conditions of [EbSimEv_proofs.dec_roundtrip_events] *)
Theorem script_allM : forall k, k < ns -> script_atE c2v opp nf Q (rev (o_syms o)) (EVseg_of o) k.
Proof.
  intros k Hk.
  assert (Ne : tr <> []).
  { intros X. destruct (trace_coherent _ _ _ _ _ _ _ Et) as [Lt0 _]. rewrite X in Lt0. cbn in Lt0. fold ns in Lt0. lia. }
  destruct (run_facts_allM Ne) as (yL & sL & Steps & Last & First & FND & Eev & Lt & Corner & Ysym & FD & LQ & Comp & Rq & NDQ).
  eapply (script_all yL sL); eassumption.
Qed.

(** the stack correspondence along the trace, any number of runs *)
Theorem stack_eventsM i cf : nth_error tr i = Some cf -> exists rest,
  map (fun j => nth j Q 0) (topsE (rev (o_syms o)) (EVseg_of o) (ns - i)) =
  cf_corner cf :: map the (filter alive_e (tl (stack (cf_st cf)))) ++ rest.
Proof.
  intros Hcf. assert (Hi : i < length tr) by (apply nth_error_Some; congruence).
  assert (Ne : tr <> []) by (intro X; rewrite X in Hi; cbn in Hi; lia).
  destruct (run_facts_allM Ne) as (yL & sL & Steps & Last & First & FND & Eev & Lt & Corner & Ysym & FD & LQ & Comp & Rq & NDQ).
  assert (Ecf : cfN tr i = cf) by (unfold cfN; apply nth_error_nth; exact Hcf).
  assert (T : exists rest, map (fun j => nth j Q 0) (topsE (rev (o_syms o)) (EVseg_of o) (length tr - i)) =
               ci tr i :: map the (filter alive_e (tl (stack (sti tr i)))) ++ rest).
  { eapply (TS yL sL); try eassumption. instantiate (1 := length tr - 1 - i). lia. }
  destruct T as (rest & T). exists rest. rewrite Lt in T. unfold ci, sti in T. rewrite Ecf in T. exact T.
Qed.

(** ** THE ROUND TRIP for EVERY encoding (any number of runs, any split events), up to the start-face phase: the only premise
    is [start_ok_g] on the decoder's final stack (proved for every encoding below: [start_allM]) *)
Theorem ebsim_roundtrip_events_start_partial rm maxv :
  (Z.of_nat (length (o_syms o)) < 2147483648)%Z -> (cntv (rev (o_syms o)) <= maxv)%Z ->
  start_ok_g c2v opp nf Q (rev (o_syms o)) (topsE (rev (o_syms o)) (EVseg_of o) ns) (o_bits o) ->
  let F := Z.of_nat (length (o_pcc o)) in
  exists n s, D.eb_core (3 * F) maxv F rm (rev (o_syms o)) (o_events o) (D.bits_of_list (o_bits o)) = D.Ok (n, s) /\
              eb_iso c2v opp (o_pcc o) (D.c2v s) (D.copp s).
Proof.
  intros Hns Hm SO F.
  pose proof (trace_refines_big_step_ok _ _ _ _ _ _ _ Et) as E.
  destruct (encode_facts_wf c2v opp nf nv niso ndeg o Hlen OK Hv FAN E) as (L & ND & _).
  destruct (eb_encode_total c2v opp nf nv niso ndeg Hlen OK Hv FAN) as [T1 T2].
  destruct (Nat.eq_dec nf ndeg) as [Eq|Nd]; [rewrite (T1 Eq) in E; discriminate|].
  destruct (T2 Nd) as (o' & E' & OO & _). rewrite E in E'. inversion E'; subst o'. clear E' T1 T2.
  destruct OO as (_ & Rng & Comp & _). fold Q in Rng, ND, L, Comp. rewrite rev_length in L. fold ns in L.
  assert (Rq : forall j, j < length Q -> nth j Q 0 < 3 * nf /\ is_degenerated c2v (nth j Q 0 / 3) = false).
  { intros j Hj. rewrite Forall_forall in Rng. apply Rng. apply nth_In. exact Hj. }
  pose proof (events_bookkeeping c2v opp nf nv niso ndeg o Hlen OK Hv FAN E) as BK. rewrite <- BK.
  apply (dec_roundtrip_events c2v opp nf Hlen OK Q Rq ND (3 * F)%Z maxv rm (rev (o_syms o)) eq_refl
           ltac:(rewrite rev_length; fold ns; lia) Hm FAN (EVseg_of o) ltac:(rewrite rev_length; exact Hns)); auto.
  - intros j Hj. rewrite rev_length in Hj. apply script_allM. exact Hj.
  - rewrite rev_length. exact SO.
Qed.

(** ** the start-face phase for EVERY encoding: [start_ok_g] on the decoder's final stack, from the ledger of the runs
    (EbTraceLedger_proofs) and [RUNS] (IFc' of the init corners) *)
Lemma trace_len_bound : length tr <= NF c2v.
Proof.
  pose proof (trace_refines_big_step_ok _ _ _ _ _ _ _ Et) as E.
  destruct (trace_coherent _ _ _ _ _ _ _ Et) as [Lt Co]. fold ns in Lt, Co.
  destruct (encode_facts_wf c2v opp nf nv niso ndeg o Hlen OK Hv FAN E) as (L & ND & _).
  destruct (eb_encode_total c2v opp nf nv niso ndeg Hlen OK Hv FAN) as [T1 T2].
  destruct (Nat.eq_dec nf ndeg) as [Eq|Nd]; [rewrite (T1 Eq) in E; discriminate|].
  destruct (T2 Nd) as (o' & E' & OO & _). rewrite E in E'. inversion E'; subst o'. clear E' T1 T2.
  destruct OO as (_ & Rng & Comp & _). fold Q in Rng, ND, L, Comp. rewrite rev_length in L. fold ns in L.
  rewrite Lt. rewrite (NF_eq c2v nf Hlen). eapply Nat.le_trans; [instantiate (1 := length Q); lia|]. rewrite <- (map_length (fun c => c / 3) Q).
  apply nodup_bound; [exact ND|]. intros x Hx. apply in_map_iff in Hx. destruct Hx as (c & <- & Hc).
  rewrite Forall_forall in Rng. destruct (Rng c Hc) as (Rc & _). apply Nat.div_lt_upper_bound; lia.
Qed.

Lemma RUNS_inits (IP : nat -> Prop) : forall b i P Y, RUNS opp IP b i P Y -> Forall IP i.
Proof.
  intros b i P Y R. induction R as [|b bits inits inits' P Y Pn Yn R IH Np Ln Bl Hb]; [constructor|].
  destruct b; [destruct Hb as (ic & -> & _ & Hi); constructor; auto|subst; auto].
Qed.

Lemma nth_error_map_inv {A B} (f : A -> B) : forall l i y, nth_error (map f l) i = Some y -> exists x, nth_error l i = Some x /\ y = f x.
Proof.
  induction l as [|a l IH]; intros [|i] y H; cbn [map nth_error] in *; try discriminate.
  - inversion H. eauto.
  - apply IH. exact H.
Qed.

Theorem start_allM : start_ok_g c2v opp nf Q (rev (o_syms o)) (topsE (rev (o_syms o)) (EVseg_of o) ns) (o_bits o).
Proof.
  pose proof (trace_refines_big_step_ok _ _ _ _ _ _ _ Et) as E.
  destruct (trace_coherent _ _ _ _ _ _ _ Et) as [Lt0 _]. fold ns in Lt0.
  destruct (encode_facts_wf c2v opp nf nv niso ndeg o Hlen OK Hv FAN E) as (L0 & ND0 & _ & _ & RU & DJ).
  fold Q in L0, ND0, RU, DJ. rewrite rev_length in L0, RU, DJ. fold ns in L0, RU, DJ.
  destruct (trace_ledger c2v opp nf nv niso ndeg o tr Hlen OK Hv FAN Et trace_len_bound) as (sF & bits & inits & Eb & Ep & Es & Ee & JG).
  fold Q in Ep.
  destruct (Nat.eq_dec (length tr) 0) as [Z0|NZ0].
  { (* no symbol, no bit *)
    assert (Hb : bits = []).
    { destruct JG as [(_ & _ & X & _)|(L & (B1 & _ & _ & B4 & _) & _)]; [exact X|].
      destruct L as [|e L']; [exact B1|]. destruct (B4 e (or_introl eq_refl)) as (cf & X & _).
      assert (Y0 : lpos e < length (rev (rev tr))) by (apply nth_error_Some; congruence). rewrite !rev_length in Y0. lia. }
    subst bits. cbn [rev] in Eb. rewrite Eb in *. assert (Hn : ns = 0) by lia. rewrite Hn. cbn [topsE].
    unfold start_ok_g. rewrite rev_length. fold ns. rewrite Hn. split; [reflexivity|]. split.
    - unfold cnt_true. cbn [count_occ] in *. lia.
    - intros i j X. destruct i; discriminate. }
  assert (Ne : tr <> []) by (intro X; rewrite X in NZ0; cbn in NZ0; lia).
  assert (HN : 0 < length tr) by lia.
  destruct JG as [(Er & _)|(L & (B1 & B2 & B3 & B4 & B5 & B6) & PS0 & _ & _)].
  { exfalso. apply Ne. rewrite <- (rev_involutive tr), Er. reflexivity. }
  destruct (run_facts_allM Ne) as (yL & sL & Steps & Last & First & FND & Eev & Lt & Corner & Ysym & FD & LQ & Comp & Rq & NDQ).
  unfold PSTEPS in PS0. rewrite rev_involutive in B4, PS0.
  set (PD := map lpos L).
  assert (PDs : StronglySorted (fun a b => b < a) PD) by (apply sorted_map_lpos; exact B5).
  assert (PDlt : forall a, In a PD -> a < length tr).
  { intros a Ha. apply in_map_iff in Ha. destruct Ha as (e & <- & He). destruct (B4 e He) as (cf & X & _). apply nth_error_Some. congruence. }
  assert (PS : forall i, S i < length tr ->
            (In (S i) PD -> RSTEP opp (cfN tr i) (cfN tr (S i))) /\ (~ In (S i) PD -> SSTEP opp (cfN tr i) (cfN tr (S i)))).
  { intros i Hi. apply (PS0 i); apply nth_error_nth'; lia. }
  assert (H0 : In 0 PD) by (apply B6; intro X; apply Ne; rewrite <- (rev_involutive tr), X; reflexivity).
  assert (TSeq : map (fun j => nth j Q 0) (topsE (rev (o_syms o)) (EVseg_of o) ns) = map (ci tr) (rev PD)).
  { eapply (tops_starts yL sL); try eassumption. }
  set (LA := rev L).
  assert (EPA : rev PD = map lpos LA) by (unfold PD, LA; rewrite map_rev; reflexivity).
  assert (EB : o_bits o = map lbit LA) by (rewrite Eb, B1; unfold LA; rewrite map_rev; reflexivity).
  assert (Li : length inits = count_occ bool_dec (o_bits o) true).
  { rewrite B2, lics_length, Eb, B1, count_occ_rev. reflexivity. }
  assert (Lp : length (pcc sF) = ns).
  { rewrite Ep, app_length, rev_length in L0. lia. }
  assert (ESk : skipn ns Q = lics LA).
  { rewrite Ep, <- Lp, skipn_app, skipn_all, Nat.sub_diag. cbn [app skipn]. unfold LA. rewrite lics_rev, B2. reflexivity. }
  assert (IFall : forall ic, In ic (skipn ns Q) -> IFc' c2v opp nf ic).
  { intros ic Hic. pose proof (RUNS_inits _ _ _ _ _ RU) as X. rewrite Forall_forall in X. apply X. apply -> in_rev. exact Hic. }
  assert (HYQ : length (rev (o_syms o)) <= length Q) by (rewrite rev_length; fold ns; exact LQ).
  apply start_ok_g_of_idx; auto; rewrite ?rev_length; fold ns.
  - unfold cnt_true. exact L0.
  - rewrite <- (map_length (fun j => nth j Q 0)), TSeq, map_length, EPA, map_length, EB, map_length. reflexivity.
  - intros i j Ej Bi.
    assert (Hj : j < ns).
    { apply (topsE_lt c2v opp nf Hlen OK Q Rq NDQ 0%Z 0%Z (rev (o_syms o)) HYQ FAN (EVseg_of o) ns j). eapply nth_error_In; eauto. }
    split; [exact Hj|].
    pose proof (map_nth_error (fun j => nth j Q 0) i _ Ej) as X. rewrite TSeq, EPA, map_map in X.
    apply nth_error_map_inv in X. destruct X as (e & Ee0 & Ec).
    assert (HeL : In e L) by (apply in_rev; fold LA; eapply nth_error_In; eauto).
    destruct (B4 e HeL) as (cf & Ncf & Ccf).
    assert (Ece : ci tr (lpos e) = lcor e) by (unfold ci, cfN; rewrite (nth_error_nth _ _ _ Ncf); exact Ccf).
    assert (Ebit : lbit e = true).
    { rewrite EB in Bi. pose proof (map_nth_error lbit i _ Ee0) as Y0. rewrite (nth_error_nth _ _ false Y0) in Bi. exact Bi. }
    unfold lbit in Ebit. destruct (lic e) as [ic|] eqn:Eic; [|discriminate].
    exists ic. split; [|split].
    + rewrite ESk, EB. unfold cnt_true. apply (lics_nth LA i e ic Ee0 Eic).
    + change (opp_at opp ic) with (oat opp ic). rewrite (B3 e ic HeL Eic). f_equal. rewrite <- Ece, <- Ec.
      rewrite <- (firstn_skipn ns Q) at 1. rewrite app_nth1; [reflexivity|]. rewrite firstn_length_le; lia.
    + apply IFall. rewrite ESk. eapply nth_error_In. apply (lics_nth LA i e ic Ee0 Eic).
  - intros m1 m2 Hm Hl. apply DJ; auto.
Qed.

(** at most one event per symbol, any number of runs *)
Lemma events_countM : length (o_events o) <= ns.
Proof.
  destruct (Nat.eq_dec (length tr) 0) as [Etr|Ne0].
  { destruct (o_events o) as [|[[src spl] ed] l] eqn:Ee; [cbn; lia|]. exfalso.
    assert (Hin : In (src, spl, ed) (o_events o)) by (rewrite Ee; left; reflexivity).
    apply (events_characterized_all c2v opp nf nv niso ndeg o tr Hlen OK Hv FAN Et) in Hin. destruct Hin as (m & sg & x & _ & _ & _ & Hm' & _).
    destruct (trace_coherent _ _ _ _ _ _ _ Et) as [Lt0 _]. fold ns in Lt0. lia. }
  assert (Ne : tr <> []) by (intro X; rewrite X in Ne0; cbn in Ne0; lia).
  destruct (run_facts_allM Ne) as (yL & sL & Steps & Last & First & FND & Eev & Lt & Corner & Ysym & FD & LQ & Comp & Rq & NDQ).
  eapply (events_le yL sL); try eassumption. lia.
Qed.
End AllRunsS.

(** against DecodeConnectivity for the tables of CornerTable::Create: EVERY encoding (any number of start faces, any split
    events), every remove_invalid_vertices; premises: the size bound and guard G3 (as everywhere) and the start-face
    condition [start_ok_g] (discharged below: [start_allM], [ebsim_roundtrip_ct]) *)
Theorem ebsim_roundtrip_events_start_ct_partial faces t o rm : ct_create faces = Some t -> eb_encode_ct t = EOk o ->
  (Z.of_nat (3 * length faces + length (ct_vcorn t)) < 2147483648)%Z ->
  ((3 * o_nfaces o) / 2 <= (o_nverts o * (o_nverts o - 1)) / 2)%Z ->
  start_ok_g (ct_c2v t) (ct_opp t) (length faces) (o_pcc o) (rev (o_syms o))
             (topsE (rev (o_syms o)) (EVseg_of o) (length (o_syms o))) (o_bits o) ->
  exists n s, eb_decode_of o rm = D.Ok (n, s) /\ eb_iso (ct_c2v t) (ct_opp t) (o_pcc o) (D.c2v s) (D.copp s).
Proof.
  intros H E Sz G3 SO.
  destruct (ct_create_wf _ _ H) as (L & OK & Hv & FAN & _).
  destruct (eb_encode_ct_counts faces t o H E) as (Ns & _ & _ & Lp & _ & Nf & _).
  pose proof E as E0. unfold eb_encode_ct in E0. destruct (big_step_has_trace _ _ _ _ _ _ E0) as (tr & Et).
  pose proof (events_countM (ct_c2v t) (ct_opp t) (length faces) (length (ct_vcorn t)) (ct_niso t) (ct_ndeg t) o tr L OK Hv FAN Et) as Ec.
  assert (Hev : (Z.of_nat (length (o_events o)) <= o_nfaces o)%Z) by lia.
  destruct (eb_encode_ct_guards faces t o rm H E Sz G3 Hev) as (Eq & _ & (Sy & _) & _ & _ & (_ & Fb)).
  assert (Hns : (Z.of_nat (length (o_syms o)) < 2147483648)%Z) by (rewrite <- Ns; lia).
  assert (VF : verts_fit o).
  { apply (EbSimCount_proofs.verts_fit_script faces t o H E Hns); [|exact SO].
    intros j Hj. apply (script_allM (ct_c2v t) (ct_opp t) (length faces) (length (ct_vcorn t)) (ct_niso t) (ct_ndeg t) o tr L OK Hv FAN Et j Hj). }
  rewrite Eq. rewrite <- Nf.
  apply (ebsim_roundtrip_events_start_partial (ct_c2v t) (ct_opp t) (length faces) (length (ct_vcorn t)) (ct_niso t) (ct_ndeg t) o tr L OK Hv FAN Et rm); auto.
Qed.

(** * THE GENERAL ROUND TRIP.  For every table with C13's invariants (corner-table lengths, Opposite an involution between
    non-degenerate faces sharing an edge - [opp_ok] -, vertex ids in range, one fan per vertex) and every successful run of
    EncodeConnectivity on it: the decoder state machine [eb_core], run with the sizes declared by the encoder, on the
    reversed symbols, the recorded split events and the start-face bits, ACCEPTS (for remove_invalid_vertices false and
    true) and rebuilds a corner table isomorphic to the encoder's non-degenerate faces ([eb_iso]: the face j of the decoder
    is the face of the j-th processed corner, Opposite is preserved in both directions, two corners carry the same decoder
    vertex iff they carry the same encoder vertex). *)
Theorem ebsim_roundtrip c2v opp nf nv niso ndeg o rm maxv :
  length c2v = 3 * nf -> opp_ok c2v opp -> (forall c, c < 3 * nf -> vtx c2v c < nv) -> one_fan c2v opp ->
  eb_encode c2v opp nv niso ndeg = EOk o ->
  (Z.of_nat (length (o_syms o)) < 2147483648)%Z -> (cntv (rev (o_syms o)) <= maxv)%Z ->
  let F := Z.of_nat (length (o_pcc o)) in
  exists n s, D.eb_core (3 * F) maxv F rm (rev (o_syms o)) (o_events o) (D.bits_of_list (o_bits o)) = D.Ok (n, s) /\
              eb_iso c2v opp (o_pcc o) (D.c2v s) (D.copp s).
Proof.
  intros Hlen OK Hv FAN E Hns Hm.
  destruct (big_step_has_trace _ _ _ _ _ _ E) as (tr & Et).
  apply (ebsim_roundtrip_events_start_partial c2v opp nf nv niso ndeg o tr Hlen OK Hv FAN Et rm maxv Hns Hm).
  apply (start_allM c2v opp nf nv niso ndeg o tr Hlen OK Hv FAN Et).
Qed.

(** against DecodeConnectivity ([eb_decode_of]: the header guards, the state machine, the vertex compaction) for the tables of
    CornerTable::Create, under the two premises of C09_ebenc_stream_never_rejected_by_guards_partial only *)
Theorem ebsim_roundtrip_ct faces t o rm : ct_create faces = Some t -> eb_encode_ct t = EOk o ->
  (Z.of_nat (3 * length faces + length (ct_vcorn t)) < 2147483648)%Z ->
  ((3 * o_nfaces o) / 2 <= (o_nverts o * (o_nverts o - 1)) / 2)%Z ->
  exists n s, eb_decode_of o rm = D.Ok (n, s) /\ eb_iso (ct_c2v t) (ct_opp t) (o_pcc o) (D.c2v s) (D.copp s).
Proof.
  intros H E Sz G3. apply (ebsim_roundtrip_events_start_ct_partial faces t o rm H E Sz G3).
  destruct (ct_create_wf _ _ H) as (L & OK & Hv & FAN & _).
  pose proof E as E0. unfold eb_encode_ct in E0. destruct (big_step_has_trace _ _ _ _ _ _ E0) as (tr & Et).
  apply (start_allM (ct_c2v t) (ct_opp t) (length faces) (length (ct_vcorn t)) (ct_niso t) (ct_ndeg t) o tr L OK Hv FAN Et).
Qed.


(** * the simulation ALONG THE TRACE, general: at configuration i of the encoder (any encoding) the decoder, run on the last
    k = ns - i symbols with the whole event list, is in [SIM] with it; its stack holds the tip corners of the faces [topsE k] =
    the current face, the encoder's stack entries below the top that are still processing corners, and one entry per later
    run; its pending events are those of older symbols, its registered split corners [SPL k] *)
Definition simM (c2v : list nat) (opp : list (option nat)) (o : enc_out) (tr : list cfg) (NC maxv : Z) (cf : cfg) (d : D.st) : Prop :=
  let Y := rev (o_syms o) in let Q := o_pcc o in let ns := length (o_syms o) in
  let k := ns - length (syms (cf_st cf)) in
  SIM c2v opp Q k d /\
  cf_corner cf :: pcc (cf_st cf) = skipn (k - 1) (firstn ns Q) /\
  D.stack d = map (fun j => dco j 0) (topsE Y (EVseg_of o) k) /\
  (exists rest, map (fun j => nth j Q 0) (topsE Y (EVseg_of o) k) =
                cf_corner cf :: map the (filter (alive_e tr) (tl (stack (cf_st cf)))) ++ rest) /\
  Draco.Proofs.Edgebreaker_proofs.W NC maxv (Z.of_nat k) d /\ Draco.Proofs.Edgebreaker_fan_proofs.FI (Z.of_nat k) d /\
  D.events d = REM Y (EVseg_of o) k /\ D.splits d = SPL (EVseg_of o) k.

Theorem ebsim_trace c2v opp nf nv niso ndeg o tr rm maxv :
  length c2v = 3 * nf -> opp_ok c2v opp -> (forall c, c < 3 * nf -> vtx c2v c < nv) -> one_fan c2v opp ->
  eb_encode_tr c2v opp nv niso ndeg = EOk (o, tr) ->
  (Z.of_nat (length (o_syms o)) < 2147483648)%Z -> (cntv (rev (o_syms o)) <= maxv)%Z ->
  let ns := length (o_syms o) in
  let NC := (3 * Z.of_nat (length (o_pcc o)))%Z in
  length tr = ns /\
  forall i cf, nth_error tr i = Some cf ->
    length (syms (cf_st cf)) = i /\
    exists d, D.sym_loop NC maxv rm (Z.of_nat ns) (firstn (ns - i) (rev (o_syms o))) 0 (D.init_st (o_events o)) = D.Ok d /\
              simM c2v opp o tr NC maxv cf d.
Proof.
  intros Hlen OK Hv FAN Et Hns Hm ns NC.
  pose proof (trace_refines_big_step_ok _ _ _ _ _ _ _ Et) as E.
  destruct (trace_coherent _ _ _ _ _ _ _ Et) as [Lt0 Co]. fold ns in Lt0, Co. split; auto.
  intros i cf Ecf. destruct (Co i cf Ecf) as [C1 C2].
  assert (Hi : i < length tr) by (apply nth_error_Some; congruence).
  assert (Li : length (syms (cf_st cf)) = i). { rewrite C1, rev_length, firstn_length_le; auto. fold ns. lia. }
  split; auto.
  destruct (stack_eventsM c2v opp nf nv niso ndeg o tr Hlen OK Hv FAN Et i cf Ecf) as (rest & STK).
  destruct (encode_facts_wf c2v opp nf nv niso ndeg o Hlen OK Hv FAN E) as (L & ND & _).
  destruct (eb_encode_total c2v opp nf nv niso ndeg Hlen OK Hv FAN) as [T1 T2].
  destruct (Nat.eq_dec nf ndeg) as [Eq|Nd]; [rewrite (T1 Eq) in E; discriminate|].
  destruct (T2 Nd) as (o' & E' & OO & _). rewrite E in E'. inversion E'; subst o'. clear E' T1 T2.
  destruct OO as (_ & Rng & _). rewrite rev_length in L. fold ns in L.
  assert (Rq : forall j, j < length (o_pcc o) -> nth j (o_pcc o) 0 < 3 * nf /\ is_degenerated c2v (nth j (o_pcc o) 0 / 3) = false).
  { intros j Hj. rewrite Forall_forall in Rng. apply Rng. apply nth_In. exact Hj. }
  pose proof (events_bookkeeping c2v opp nf nv niso ndeg o Hlen OK Hv FAN E) as BK.
  assert (HYQ : length (rev (o_syms o)) <= length (o_pcc o)) by (rewrite rev_length; fold ns; lia).
  destruct (sym_loop_simE c2v opp nf Hlen OK (o_pcc o) Rq ND NC maxv rm (rev (o_syms o)) eq_refl HYQ Hm FAN (EVseg_of o)
              ltac:(rewrite rev_length; exact Hns) (ns - i))
    as (d & Ed & HS & HW & HF & Hnv & Hev & Hsp & Hst & _).
  - rewrite rev_length. fold ns. lia.
  - intros j Hj. apply (script_allM c2v opp nf nv niso ndeg o tr Hlen OK Hv FAN Et). fold ns. lia.
  - exists d. rewrite rev_length in Ed. fold ns in Ed. rewrite BK in Ed. split; auto. unfold simM. cbv zeta. rewrite Li. fold ns.
    split; auto. split. { rewrite C2. f_equal. lia. }
    split; auto. split; [exists rest; exact STK|]. auto.
Qed.
