(** C14 — proofs about Model/Cleanup.v. *)
From Coq Require Import List ZArith Bool Arith Lia Sorted.
From Draco Require Import Model.Dedup Model.Cleanup Proofs.Dedup_proofs.
Import ListNotations.

Lemma firstn_S_nth {A} i (d : A) l : i < length l -> firstn (S i) l = firstn i l ++ [nth i l d].
Proof. intros H. rewrite <- (upd_nth_id i d l) at 1. apply firstn_S_upd; auto. Qed.

(* -------------------------------------------------------------------------- RemoveDegeneratedFaces *)
Definition keep_face (pa : attr) (f : face) : bool := negb (degenerate pa f).

(** in-place compaction: faces still to be read are never overwritten *)
Lemma rdg_loop_spec pa todo : forall f nd cur fs nd',
  length cur = f + todo -> nd <= f ->
  rdg_loop pa todo f nd cur = (fs, nd') ->
  firstn (f + todo - nd') fs = firstn (f - nd) cur ++ filter (keep_face pa) (skipn f cur)
  /\ length fs = length cur /\ nd' <= f + todo.
Proof.
  induction todo as [|t IH]; intros f nd cur fs nd' Hl Hn H.
  - cbn in H. injection H as <- <-. rewrite skipn_all2 by lia. cbn. rewrite app_nil_r, Nat.add_0_r. auto.
  - cbn [rdg_loop] in H. rewrite (skipn_cons_nth f face0) by lia. cbn [filter]. unfold keep_face at 1.
    destruct (degenerate pa (nth f cur face0)) eqn:D; cbn [negb].
    + destruct (IH (S f) (S nd) cur fs nd' ltac:(lia) ltac:(lia) H) as (A & B & C).
      replace (f + S t) with (S f + t) by lia. rewrite A. cbn [Nat.sub]. split; [reflexivity | split; [auto | lia]].
    + assert (H' : rdg_loop pa t (S f) nd (upd (f - nd) (nth f cur face0) cur) = (fs, nd')).
      { destruct (Nat.ltb_spec 0 nd) as [L|L]; [exact H|]. replace (f - nd) with f by lia.
        rewrite upd_nth_id. exact H. }
      destruct (IH (S f) nd (upd (f - nd) (nth f cur face0) cur) fs nd') as (A & B & C); [rewrite upd_length; lia | lia | exact H' |].
      rewrite upd_length in B. replace (f + S t) with (S f + t) by lia. rewrite A.
      replace (S f - nd) with (S (f - nd)) by lia. rewrite firstn_S_upd by lia.
      rewrite skipn_upd_lt by lia. rewrite <- app_assoc. cbn [app]. split; [reflexivity | split; [auto | lia]].
Qed.

(** THEOREM remove_degenerate_spec: exactly the faces with three distinct POSITION value indices remain, in order *)
Lemma remove_degenerate_spec pa faces : remove_degenerate_faces pa faces = filter (keep_face pa) faces.
Proof.
  unfold remove_degenerate_faces. destruct (rdg_loop pa (length faces) 0 0 faces) as [fs nd] eqn:E.
  destruct (rdg_loop_spec pa (length faces) 0 0 faces fs nd eq_refl (le_n 0) E) as (A & B & C).
  cbn in A. destruct (Nat.ltb_spec 0 nd); auto.
  replace nd with 0 in A by lia. rewrite Nat.sub_0_r in A. rewrite <- A. rewrite <- B. symmetry; apply firstn_all.
Qed.

(* ---------------------------------------------------------------------------- RemoveDuplicateFaces *)
(** what the loop computes, as a function of the original list: a face is dropped when a face with the same
    normal form was seen before; kept faces are stored in NORMAL FORM once something has been dropped
    ([shifted]), and left as they were before that. *)
Fixpoint rdf_spec (used : list face) (shifted : bool) (faces : list face) : list face :=
  match faces with
  | [] => []
  | f :: r =>
    let n := normalize_face f in
    if fset_mem used n then rdf_spec used true r
    else (if shifted then n else f) :: rdf_spec (used ++ [n]) shifted r
  end.

Lemma rdf_loop_spec todo : forall fi nd used cur fs nd',
  length cur = fi + todo -> nd <= fi ->
  rdf_loop todo fi nd used cur = (fs, nd') ->
  firstn (fi + todo - nd') fs = firstn (fi - nd) cur ++ rdf_spec used (Nat.ltb 0 nd) (skipn fi cur)
  /\ length fs = length cur /\ nd' <= fi + todo.
Proof.
  induction todo as [|t IH]; intros fi nd used cur fs nd' Hl Hn H.
  - cbn in H. injection H as <- <-. rewrite skipn_all2 by lia. cbn. rewrite app_nil_r, Nat.add_0_r. auto.
  - cbn [rdf_loop] in H. rewrite (skipn_cons_nth fi face0) by lia. cbn [rdf_spec].
    destruct (fset_mem used (normalize_face (nth fi cur face0))) eqn:D.
    + destruct (IH (S fi) (S nd) used cur fs nd') as (A & B & C); [lia | lia | exact H |].
      replace (fi + S t) with (S fi + t) by lia. rewrite A. cbn [Nat.sub]. 
      split; [reflexivity | split; [auto | lia]].
    + destruct (Nat.ltb_spec 0 nd) as [L|L].
      * apply IH in H; [| rewrite upd_length; lia | lia]. destruct H as (A & B & C).
        rewrite upd_length in B. replace (fi + S t) with (S fi + t) by lia. rewrite A.
        replace (S fi - nd) with (S (fi - nd)) by lia. rewrite firstn_S_upd by lia.
        rewrite skipn_upd_lt by lia. rewrite <- app_assoc. cbn [app].
        replace (Nat.ltb 0 nd) with true by (symmetry; apply Nat.ltb_lt; auto).
        split; [reflexivity | split; [auto | lia]].
      * apply IH in H; [| lia | lia]. destruct H as (A & B & C).
        replace (fi + S t) with (S fi + t) by lia. rewrite A. replace nd with 0 by lia.
        rewrite !Nat.sub_0_r. rewrite (firstn_S_nth fi face0) by lia. rewrite <- app_assoc. cbn [app].
        split; [reflexivity | split; [auto | lia]].
Qed.

Lemma remove_duplicates_refines faces : remove_duplicate_faces faces = rdf_spec [] false faces.
Proof.
  unfold remove_duplicate_faces. destruct (rdf_loop (length faces) 0 0 [] faces) as [fs nd] eqn:E.
  destruct (rdf_loop_spec (length faces) 0 0 [] faces fs nd eq_refl (le_n 0) E) as (A & B & C).
  cbn in A. destruct (Nat.ltb_spec 0 nd); auto.
  replace nd with 0 in A by lia. rewrite Nat.sub_0_r in A. rewrite <- A. rewrite <- B. symmetry; apply firstn_all.
Qed.

(* the normal form *)
Definition rot_equiv (f g : face) : Prop := g = f \/ g = rot_left f \/ g = rot_left (rot_left f).
Definition distinct_ids (f : face) : Prop := let '(a, b, c) := f in a <> b /\ a <> c /\ b <> c.

Ltac face_cases :=
  unfold normalize_face; cbn [norm_fuel not_min_first rot_left];
  repeat (match goal with |- context [Nat.ltb ?x ?y] => destruct (Nat.ltb_spec x y) end;
          cbn [orb norm_fuel not_min_first rot_left]).

(** the fuel of the rotation loop is never exhausted; the result is a rotation with a smallest id in front *)
Lemma norm_fuel_total f : norm_fuel 3 f <> None.
Proof. destruct f as [[a b] c]. face_cases; try congruence; lia. Qed.
Lemma normalize_is_rotation f : rot_equiv f (normalize_face f).
Proof. destruct f as [[a b] c]. unfold rot_equiv. face_cases; auto; lia. Qed.
Lemma normalize_min_first f : not_min_first (normalize_face f) = false.
Proof. destruct f as [[a b] c]. face_cases; auto; lia. Qed.
Lemma normalize_idem f : normalize_face (normalize_face f) = normalize_face f.
Proof.
  pose proof (normalize_min_first f) as H. destruct (normalize_face f) as [[a b] c].
  unfold normalize_face. cbn [norm_fuel]. rewrite H. auto.
Qed.
Lemma normalize_rot f : distinct_ids f -> normalize_face (rot_left f) = normalize_face f.
Proof. destruct f as [[a b] c]. intros (A & B & C). face_cases; auto; try lia; f_equal; try f_equal; lia. Qed.

Lemma rot3 f : rot_left (rot_left (rot_left f)) = f.
Proof. destruct f as [[a b] c]; auto. Qed.
Lemma distinct_rot f : distinct_ids f -> distinct_ids (rot_left f).
Proof. destruct f as [[a b] c]; cbn. intuition. Qed.

(** for faces with three different point ids the normal form identifies exactly the rotations (orientation is
    kept: the mirrored face has a different normal form, see [mirror_not_duplicate]) *)
Lemma normalize_eq_iff f g : distinct_ids f -> (normalize_face f = normalize_face g <-> rot_equiv f g).
Proof.
  intros D. split.
  - intros H. pose proof (normalize_is_rotation f) as Rf. pose proof (normalize_is_rotation g) as Rg.
    rewrite <- H in Rg. clear H D. destruct (normalize_face f) as [[x y] z].
    destruct f as [[a b] c], g as [[a' b'] c']. unfold rot_equiv, rot_left in *.
    destruct Rf as [Rf | [Rf | Rf]]; destruct Rg as [Rg | [Rg | Rg]]; inversion Rf; inversion Rg; subst;
      first [left; congruence | right; left; congruence | right; right; congruence].
  - intros [-> | [-> | ->]]; auto.
    + symmetry; apply normalize_rot; auto.
    + symmetry. rewrite normalize_rot by (apply distinct_rot; auto). apply normalize_rot; auto.
Qed.

Lemma mirror_not_duplicate a b c : a <> b -> a <> c -> b <> c ->
  normalize_face (a, c, b) <> normalize_face (a, b, c).
Proof.
  intros A B C H. apply normalize_eq_iff in H; [|cbn; auto]. unfold rot_equiv, rot_left in H.
  destruct H as [H | [H | H]]; inversion H; congruence.
Qed.

Lemma face_eqb_eq f g : face_eqb f g = true <-> f = g.
Proof.
  destruct f as [[a b] c], g as [[a' b'] c']. unfold face_eqb. rewrite !andb_true_iff, !Nat.eqb_eq.
  split; [intros [[-> ->] ->]; auto | intros H; inversion H; auto].
Qed.
Lemma face_eqb_sym f g : face_eqb f g = face_eqb g f.
Proof.
  destruct (face_eqb f g) eqn:E1, (face_eqb g f) eqn:E2; auto.
  - apply face_eqb_eq in E1. subst. assert (face_eqb g g = true) by (apply face_eqb_eq; auto). congruence.
  - apply face_eqb_eq in E2. subst. assert (face_eqb f f = true) by (apply face_eqb_eq; auto). congruence.
Qed.
Lemma fset_mem_index used n :
  fset_mem used n = match index_of face_eqb n used with Some _ => true | None => false end.
Proof.
  unfold fset_mem. induction used as [|x r IH]; cbn; auto.
  rewrite (face_eqb_sym n x). destruct (face_eqb x n); cbn; auto. rewrite IH.
  destruct (index_of face_eqb n r); auto.
Qed.

(** the original faces that survive (before any rotation) *)
Fixpoint rdf_kept (used : list face) (faces : list face) : list face :=
  match faces with
  | [] => []
  | f :: r => let n := normalize_face f in
              if fset_mem used n then rdf_kept used r else f :: rdf_kept (used ++ [n]) r
  end.

Lemma rdf_spec_kept faces : forall used sh, Forall2 rot_equiv (rdf_kept used faces) (rdf_spec used sh faces).
Proof.
  induction faces as [|f r IH]; intros used sh; cbn; [constructor|].
  destruct (fset_mem used (normalize_face f)); auto. constructor; auto.
  destruct sh; [apply normalize_is_rotation | left; auto].
Qed.

(** up to rotation the result is the list of FIRST occurrences of the normal forms, in order *)
Lemma rdf_spec_first_occurrences faces : forall used sh,
  fst (dd_go face_eqb used (map normalize_face faces)) = used ++ map normalize_face (rdf_spec used sh faces).
Proof.
  induction faces as [|f r IH]; intros used sh; cbn [map dd_go rdf_spec fst]. { rewrite app_nil_r; auto. }
  rewrite fset_mem_index. destruct (index_of face_eqb (normalize_face f) used) eqn:E.
  - specialize (IH used true). destruct (dd_go face_eqb used (map normalize_face r)); cbn in *. auto.
  - specialize (IH (used ++ [normalize_face f]) sh).
    destruct (dd_go face_eqb (used ++ [normalize_face f]) (map normalize_face r)); cbn [fst] in *.
    rewrite IH, <- app_assoc. cbn [app map]. f_equal. f_equal. destruct sh; auto. symmetry; apply normalize_idem.
Qed.

Lemma rdf_spec_unchanged faces : forall used,
  NoDup (used ++ map normalize_face faces) -> rdf_spec used false faces = faces.
Proof.
  induction faces as [|f r IH]; intros used H; cbn; auto.
  rewrite fset_mem_index. destruct (index_of face_eqb (normalize_face f) used) eqn:E.
  - exfalso. apply (index_of_some face_eqb face_eqb_eq) in E. apply nth_error_In in E.
    cbn in H. apply NoDup_remove_2 in H. apply H. rewrite in_app_iff; auto.
  - f_equal. apply IH. rewrite <- app_assoc. auto.
Qed.

(** THEOREM remove_duplicates_spec *)
Lemma remove_duplicates_spec faces :
  remove_duplicate_faces faces = rdf_spec [] false faces /\
  Forall2 rot_equiv (rdf_kept [] faces) (remove_duplicate_faces faces) /\
  map normalize_face (remove_duplicate_faces faces) = fst (dd_go face_eqb [] (map normalize_face faces)) /\
  NoDup (map normalize_face (remove_duplicate_faces faces)) /\
  (NoDup (map normalize_face faces) -> remove_duplicate_faces faces = faces).
Proof.
  rewrite remove_duplicates_refines. split; auto. split; [apply rdf_spec_kept|]. split; [|split].
  - rewrite (rdf_spec_first_occurrences faces [] false). auto.
  - pose proof (rdf_spec_first_occurrences faces [] false) as H. cbn [app] in H. rewrite <- H.
    apply (dd_go_nodup face_eqb face_eqb_eq). constructor.
  - intros H. apply rdf_spec_unchanged. auto.
Qed.

(* -------------------------------------------------------------------------- RemoveUnusedAttributes *)
(** indices marked [true], in increasing order, [i] = index of the first list element *)
Fixpoint positions (used : list bool) (i : nat) : list nat :=
  match used with
  | [] => []
  | true :: r => i :: positions r (S i)
  | false :: r => positions r (S i)
  end.
Definition count_true (l : list bool) : nat := length (positions l 0).

Lemma positions_length used : forall i j, length (positions used i) = length (positions used j).
Proof. induction used as [|[] r IH]; intros i j; cbn; auto. Qed.

Lemma positions_in used : forall i p,
  In p (positions used i) <-> exists k, p = i + k /\ k < length used /\ nth k used false = true.
Proof.
  induction used as [|b r IH]; intros i p.
  - cbn. split; [tauto | intros (k & _ & H & _); lia].
  - assert (R : In p (positions (b :: r) i) <-> ((b = true /\ p = i) \/ In p (positions r (S i)))).
    { destruct b; cbn; intuition congruence. }
    rewrite R, IH. split.
    + intros [[-> ->] | (k & -> & Hk & Hn)].
      * exists 0. cbn. split; [lia | split; [lia | auto]].
      * exists (S k). cbn. split; [lia | split; [lia | auto]].
    + intros ([|k] & -> & Hk & Hn); cbn in *.
      * left. split; auto; lia.
      * right. exists k. split; [lia | split; [lia | auto]].
Qed.

Lemma positions_ge used : forall i, Forall (le i) (positions used i).
Proof.
  intros i. apply Forall_forall. intros p Hp. apply positions_in in Hp. destruct Hp as (k & -> & _). lia.
Qed.
Lemma positions_sorted used : forall i, StronglySorted lt (positions used i).
Proof.
  induction used as [|[] r IH]; intros i; cbn; auto; constructor; auto.
  eapply Forall_impl; [|apply positions_ge]. cbn; intros; lia.
Qed.

Lemma sorted_unique l1 : forall l2, StronglySorted lt l1 -> StronglySorted lt l2 ->
  (forall x, In x l1 <-> In x l2) -> l1 = l2.
Proof.
  induction l1 as [|a r IH]; intros [|b s] S1 S2 H; auto.
  - exfalso. apply (proj2 (H b)). left; auto.
  - exfalso. apply (proj1 (H a)). left; auto.
  - apply StronglySorted_inv in S1. apply StronglySorted_inv in S2. destruct S1 as [S1 F1], S2 as [S2 F2].
    rewrite Forall_forall in F1, F2.
    assert (a = b).
    { destruct (proj1 (H a) (or_introl eq_refl)) as [E|E]; auto.
      destruct (proj2 (H b) (or_introl eq_refl)) as [E'|E']; auto.
      specialize (F1 _ E'). specialize (F2 _ E). lia. }
    subst b. f_equal. apply IH; auto. intros x. split; intros Hx.
    + destruct (proj1 (H x) (or_intror Hx)) as [E|E]; auto. subst x. specialize (F1 _ Hx). lia.
    + destruct (proj2 (H x) (or_intror Hx)) as [E|E]; auto. subst x. specialize (F2 _ Hx). lia.
Qed.

Lemma positions_all_true used : forall i, (forall k, k < length used -> nth k used false = true) ->
  positions used i = seq i (length used).
Proof.
  induction used as [|b r IH]; intros i H; cbn; auto.
  assert (b = true) by (apply (H 0); cbn; lia). subst b. f_equal. apply IH. intros k Hk. apply (H (S k)). cbn; lia.
Qed.

Lemma positions_bound used i : length (positions used i) <= length used.
Proof. revert i; induction used as [|[] r IH]; intros i; cbn; auto; specialize (IH (S i)); lia. Qed.

Lemma positions_full used : forall i, length (positions used i) = length used ->
  forall k, k < length used -> nth k used false = true.
Proof.
  induction used as [|b r IH]; intros i H k Hk; cbn in *; [lia|].
  destruct b; cbn in H.
  - destruct k; auto. apply (IH (S i)); lia.
  - pose proof (positions_bound r (S i)). lia.
Qed.

Lemma count_true_upd p used : p < length used -> nth p used false = false ->
  count_true (upd p true used) = S (count_true used).
Proof.
  unfold count_true. generalize 0. revert p. induction used as [|b r IH]; intros p i Hp Hn; cbn in *; [lia|].
  destruct p.
  - subst b. cbn. auto.
  - destruct b; cbn; rewrite IH; auto; lia.
Qed.

(** the marking loops *)
Lemma mark_used_spec ids : forall used cnt used' cnt',
  mark_used ids used cnt = (used', cnt') -> Forall (fun p => p < length used) ids ->
  length used' = length used /\
  (forall p, nth p used' false = true <-> (nth p used false = true \/ In p ids)) /\
  cnt' + count_true used = cnt + count_true used'.
Proof.
  induction ids as [|x r IH]; intros used cnt used' cnt' H F; cbn in H.
  - injection H as <- <-. split; auto. split; [|lia]. intros p; cbn; tauto.
  - pose proof (Forall_inv F) as Fx. pose proof (Forall_inv_tail F) as Fr. cbn beta in Fx.
    destruct (nth x used false) eqn:E.
    + destruct (IH _ _ _ _ H Fr) as (A & B & C). split; auto. split; auto.
      intros p. rewrite B. cbn. split; [tauto|]. intros [Hp | [-> | Hp]]; auto.
    + apply IH in H. 2:{ rewrite upd_length; auto. }
      destruct H as (A & B & C). rewrite upd_length in A. split; auto. split.
      * intros p. rewrite B. destruct (Nat.eq_dec p x) as [->|N].
        -- rewrite nth_upd_same by auto. cbn. tauto.
        -- rewrite nth_upd_other by auto. cbn. split; [tauto|]. intros [Hp | [-> | Hp]]; auto; congruence.
      * rewrite count_true_upd in C; auto. lia.
Qed.

Lemma count_true_repeat_false n : count_true (repeat false n) = 0.
Proof. unfold count_true. generalize 0 at 1. induction n; intros i; cbn [repeat positions length]; auto. Qed.
Lemma nth_repeat_false n p : nth p (repeat false n) false = false.
Proof. revert p; induction n; destruct p; cbn; auto. Qed.

(** marking from scratch: exactly the visited ids are marked, the count is the number of marked entries *)
Lemma mark_used_fresh ids n used cnt :
  mark_used ids (repeat false n) 0 = (used, cnt) -> Forall (fun p => p < n) ids ->
  length used = n /\ (forall p, nth p used false = true <-> In p ids) /\ cnt = length (positions used 0).
Proof.
  intros H F. apply mark_used_spec in H. 2:{ rewrite repeat_length; auto. }
  destruct H as (A & B & C). rewrite repeat_length in A. rewrite count_true_repeat_false in C.
  split; auto. split; [|unfold count_true in C; lia].
  intros p. rewrite B, nth_repeat_false. split; [intros [H|H]; [congruence|auto] | auto].
Qed.

(** [build_point_map]: the k-th used point gets the new id [n + k], unused points get None *)
Lemma build_point_map_spec used : forall n i pm n',
  build_point_map used n = (pm, n') ->
  length pm = length used /\ n' = n + length (positions used i) /\
  (forall k, k < length (positions used i) -> nth (nth k (positions used i) 0 - i) pm None = Some (n + k)) /\
  (forall j, j < length used -> (nth j pm None <> None <-> nth j used false = true)).
Proof.
  induction used as [|b r IH]; intros n i pm n' H; cbn in H.
  - injection H as <- <-. cbn. repeat split; auto; try lia; intros; lia.
  - destruct b.
    + destruct (build_point_map r (S n)) as [m1 n1] eqn:E. injection H as <- <-.
      destruct (IH (S n) (S i) m1 n1 E) as (A & B & C & D). cbn [positions length].
      split; [cbn; auto|]. split; [lia|]. split.
      * intros [|k] Hk; cbn [nth]. { rewrite Nat.sub_diag. cbn. f_equal; lia. }
        pose proof (positions_ge r (S i)) as G. rewrite Forall_forall in G.
        assert (S i <= nth k (positions r (S i)) 0) by (apply G, nth_In; lia).
        replace (nth k (positions r (S i)) 0 - i) with (S (nth k (positions r (S i)) 0 - S i)) by lia.
        cbn [nth]. rewrite C by lia. f_equal; lia.
      * intros [|j] Hj; cbn [nth]. { split; auto; congruence. } apply D. cbn in Hj; lia.
    + destruct (build_point_map r n) as [m1 n1] eqn:E. injection H as <- <-.
      destruct (IH n (S i) m1 n1 E) as (A & B & C & D). cbn [positions length].
      split; [cbn; auto|]. split; [lia|]. split.
      * intros k Hk.
        pose proof (positions_ge r (S i)) as G. rewrite Forall_forall in G.
        assert (S i <= nth k (positions r (S i)) 0) by (apply G, nth_In; lia).
        replace (nth k (positions r (S i)) 0 - i) with (S (nth k (positions r (S i)) 0 - S i)) by lia.
        cbn [nth]. auto.
      * intros [|j] Hj; cbn [nth]. { split; congruence. } apply D. cbn in Hj; lia.
Qed.

(** in-place value compaction never overwrites a value that is still to be copied *)
Lemma compact_values_spec used : forall i n buf b aim n',
  compact_values used i n buf = (b, aim, n') -> n <= i -> i + length used <= length buf ->
  let P := positions used i in
  n' = n + length P /\ length b = length buf /\
  firstn n' b = firstn n buf ++ map (fun p => nth p buf []) P /\
  (forall k, k < length P -> nth (nth k P 0 - i) aim 0 = n + k).
Proof.
  induction used as [|u r IH]; intros i n buf b aim n' H Hn Hl; cbn [compact_values] in H.
  - injection H as <- <- <-. cbn. rewrite Nat.add_0_r, app_nil_r. repeat split; auto. intros; lia.
  - cbn [length] in Hl. destruct u.
    + assert (E0 : (if Nat.ltb n i then upd n (nth i buf []) buf else buf) = upd n (nth i buf []) buf).
      { destruct (Nat.ltb_spec n i); auto. replace n with i by lia. rewrite upd_nth_id; auto. }
      rewrite E0 in H.
      destruct (compact_values r (S i) (S n) (upd n (nth i buf []) buf)) as [[b1 aim1] n1] eqn:E.
      injection H as <- <- <-.
      destruct (IH _ _ _ _ _ _ E) as (A & B & C & D); [lia | rewrite upd_length; lia |].
      rewrite upd_length in B. cbn zeta. cbn [positions length map].
      split; [lia|]. split; auto. split.
      * rewrite C. rewrite firstn_S_upd by lia. rewrite <- app_assoc. cbn [app]. f_equal. f_equal.
        apply map_ext_in. intros p Hp. pose proof (positions_ge r (S i)) as G. rewrite Forall_forall in G.
        specialize (G _ Hp). apply nth_upd_other. lia.
      * intros [|k] Hk; cbn [nth]. { rewrite Nat.sub_diag. cbn. lia. }
        pose proof (positions_ge r (S i)) as G. rewrite Forall_forall in G.
        assert (S i <= nth k (positions r (S i)) 0) by (apply G, nth_In; lia).
        replace (nth k (positions r (S i)) 0 - i) with (S (nth k (positions r (S i)) 0 - S i)) by lia.
        cbn [nth]. rewrite D by lia. lia.
    + destruct (compact_values r (S i) n buf) as [[b1 aim1] n1] eqn:E. injection H as <- <- <-.
      destruct (IH _ _ _ _ _ _ E) as (A & B & C & D); [lia | lia |].
      cbn zeta. cbn [positions]. split; auto. split; auto. split; auto.
      intros k Hk. pose proof (positions_ge r (S i)) as G. rewrite Forall_forall in G.
      assert (S i <= nth k (positions r (S i)) 0) by (apply G, nth_In; lia).
      replace (nth k (positions r (S i)) 0 - i) with (S (nth k (positions r (S i)) 0 - S i)) by lia.
      cbn [nth]. auto.
Qed.

(** the point-map compaction of an explicit map, in place: same argument *)
Lemma remap_points_spec (aic : bool) (aim : list nat) (used : list bool) : forall w i pm w' m,
  build_point_map used w = (pm, w') -> w <= i -> i + length used <= length m ->
  let P := positions used i in
  let g := fun e => if aic then nth e aim invalid_index else e in
  let m' := remap_points pm i aic aim m in
  length m' = length m /\
  firstn (w + length P) m' = firstn w m ++ map (fun p => g (nth p m invalid_index)) P.
Proof.
  induction used as [|u r IH]; intros w i pm w' m H Hw Hl; cbn in H.
  - injection H as <- <-. cbn. rewrite Nat.add_0_r, app_nil_r. auto.
  - cbn [length] in Hl. destruct u.
    + destruct (build_point_map r (S w)) as [m1 n1] eqn:E. injection H as <- <-.
      cbn zeta. cbn [remap_points positions length map].
      set (e' := if aic then nth (nth i m invalid_index) aim invalid_index else nth i m invalid_index).
      destruct (IH (S w) (S i) m1 n1 (upd w e' m) E) as (A & B); [lia | rewrite upd_length; lia |].
      cbn zeta in A, B. rewrite upd_length in A. split; auto.
      replace (w + S (length (positions r (S i)))) with (S w + length (positions r (S i))) by lia.
      rewrite B. rewrite firstn_S_upd by lia. rewrite <- app_assoc. cbn [app]. f_equal. f_equal.
      apply map_ext_in. intros p Hp. pose proof (positions_ge r (S i)) as G. rewrite Forall_forall in G.
      specialize (G _ Hp). rewrite nth_upd_other by lia. auto.
    + destruct (build_point_map r w) as [m1 n1] eqn:E. injection H as <- <-.
      cbn zeta. cbn [remap_points positions].
      destruct (IH w (S i) m1 n1 m E) as (A & B); [lia | lia |]. auto.
Qed.

Lemma map_nth_seq {A} (l : list A) d : map (fun i => nth i l d) (seq 0 (length l)) = l.
Proof. apply map_seq_nth with (d := d); auto. Qed.

Lemma positions_filter used : forall i,
  positions used i = filter (fun j => nth (j - i) used false) (seq i (length used)).
Proof.
  induction used as [|b r IH]; intros i; cbn [positions length seq filter]; auto.
  rewrite Nat.sub_diag. change (nth 0 (b :: r) false) with b.
  assert (E : filter (fun j => nth (j - i) (b :: r) false) (seq (S i) (length r)) = positions r (S i)).
  { rewrite IH. apply filter_ext_in. intros j Hj. apply in_seq in Hj.
    replace (j - i) with (S (j - S i)) by lia. auto. }
  rewrite E. destruct b; auto.
Qed.

Definition is_some {A} (o : option A) : bool := match o with Some _ => true | None => false end.

Lemma used_points_filter used pm n' : build_point_map used 0 = (pm, n') ->
  filter (fun i => match nth i pm None with Some _ => true | None => false end) (seq 0 (length used))
  = positions used 0.
Proof.
  intros H. destruct (build_point_map_spec used 0 0 pm n' H) as (_ & _ & _ & D).
  rewrite positions_filter. apply filter_ext_in. intros j Hj. apply in_seq in Hj. rewrite Nat.sub_0_r.
  specialize (D j ltac:(lia)). destruct (nth j pm None), (nth j used false); auto.
  - exfalso. assert (false = true); [apply D; congruence | congruence].
  - exfalso. apply (proj2 D); auto.
Qed.

Lemma resize_exact {A} n (d : A) l : n <= length l -> resize n d l = firstn n l.
Proof. intros H. unfold resize. replace (n - length l) with 0 by lia. cbn. apply app_nil_r. Qed.

(** One attribute through the body of RemoveUnusedAttributes.  [usedp] marks the points used by a face,
    [U] lists them; new point k is old point U[k]. *)
Lemma cleanup_attr_spec usedp pm nnew a pc :
  build_point_map usedp 0 = (pm, nnew) ->
  wf_attr (length usedp) a = true ->
  (pc = false -> nnew = length usedp) ->
  let U := positions usedp 0 in
  let a' := cleanup_attr (length usedp) nnew pc pm a in
  (forall k, k < length U -> att_value a' k = att_value a (nth k U 0)) /\
  (forall j, j < length (a_vals a') -> exists k, k < length U /\ mapped_index a' k = j) /\
  wf_attr nnew a' = true.
Proof.
  intros Hpm Hwf Hpc U a'. set (np := length usedp) in *.
  destruct (build_point_map_spec usedp 0 0 pm nnew Hpm) as (Lpm & Hnn & _ & _). cbn [Nat.add] in Hnn. fold U in Hnn.
  assert (HU : forall p, In p U -> p < np).
  { intros p Hp. apply positions_in in Hp. destruct Hp as (k & -> & Hk & _). cbn; auto. }
  assert (HUnp : length U <= np) by apply positions_bound.
  set (size := length (a_vals a)).
  set (E := map (mapped_index a) U).
  assert (HE : Forall (fun e => e < size) E).
  { apply Forall_forall. intros e He. apply in_map_iff in He. destruct He as (p & <- & Hp).
    eapply wf_attr_value_index; eauto. }
  pose proof (used_points_filter usedp pm nnew Hpm) as HF. fold np U in HF.
  unfold a', cleanup_attr. fold np size. rewrite HF. fold E.
  destruct (mark_used E (repeat false size) 0) as [usedv nue] eqn:EM.
  destruct (mark_used_fresh E size usedv nue EM HE) as (Lv & Hv & Hnue).
  set (UV := positions usedv 0) in *.
  assert (HUVb : length UV <= size) by (rewrite <- Lv; apply positions_bound).
  set (aic := Nat.ltb nue size).
  (* values, att_index_map and count, uniformly in both cases *)
  set (r3 := if aic then let '(b, aim, n) := compact_values usedv 0 0 (a_vals a) in (firstn n b, aim, n)
             else (a_vals a, [], nue)).
  assert (HV : exists vals' aim nue2, r3 = (vals', aim, nue2) /\
            vals' = map (fun e => nth e (a_vals a) []) UV /\ nue2 = length UV /\
            (forall j, j < length UV ->
               (if aic then nth (nth j UV 0) aim invalid_index else nth j UV 0) = j)).
  { unfold r3. destruct aic eqn:Ea.
    - destruct (compact_values usedv 0 0 (a_vals a)) as [[b aim] n] eqn:EC.
      destruct (compact_values_spec usedv 0 0 (a_vals a) b aim n EC (le_n 0)) as (A & B & C & D).
      { cbn. rewrite Lv. unfold size; auto. }
      cbn [Nat.add firstn app] in A, C. fold UV in A, C, D.
      exists (firstn n b), aim, n. split; auto. split; auto. split; auto.
      intros j Hj. specialize (D j Hj). rewrite Nat.sub_0_r in D. auto.
    - unfold aic in Ea. apply Nat.ltb_ge in Ea.
      assert (F : length UV = length usedv) by lia.
      pose proof (positions_full usedv 0 F) as Full.
      assert (EUV : UV = seq 0 size) by (unfold UV; rewrite positions_all_true by auto; rewrite Lv; auto).
      exists (a_vals a), [], nue. split; auto. split; [|split; [lia|]].
      + rewrite EUV. symmetry. apply map_nth_seq.
      + intros j Hj. rewrite EUV. rewrite EUV, seq_length in Hj. apply seq_nth; auto. }
  destruct HV as (vals' & aim & nue2 & -> & Hvals & Hn2 & Hg).
  set (g := fun e => if aic then nth e aim invalid_index else e) in *.
  assert (Lvals : length vals' = length UV) by (rewrite Hvals, map_length; auto).
  (* rank of a used entry *)
  assert (HR : forall e, In e E -> g e < length UV /\ nth (g e) vals' [] = nth e (a_vals a) []).
  { intros e He. assert (In e UV) as Hin.
    { apply positions_in. exists e. split; auto. split; [|apply Hv; auto].
      rewrite Lv. rewrite Forall_forall in HE. auto. }
    apply In_nth with (d := 0) in Hin. destruct Hin as (j & Hj & <-).
    unfold g. rewrite (Hg j Hj). split; auto. rewrite Hvals. rewrite (nth_map_lt _ _ _ 0) by auto. auto. }
  assert (HRinv : forall j, j < length UV -> exists k, k < length U /\ g (mapped_index a (nth k U 0)) = j).
  { intros j Hj. assert (In (nth j UV 0) UV) as Hin by (apply nth_In; auto).
    apply positions_in in Hin. destruct Hin as (e & He & _ & Ht). cbn in He. apply Hv in Ht.
    unfold E in Ht. apply in_map_iff in Ht. destruct Ht as (p & Hp & HpU).
    apply In_nth with (d := 0) in HpU. destruct HpU as (k & Hk & <-). exists k. split; auto.
    rewrite Hp, <- He. apply Hg; auto. }
  destruct (pc || aic) eqn:Ech.
  2:{ (* nothing changed *)
    apply orb_false_iff in Ech. destruct Ech as [-> Ea]. specialize (Hpc eq_refl).
    assert (EU : U = seq 0 np).
    { unfold U. rewrite positions_all_true; auto. apply (positions_full usedp 0). fold U. lia. }
    assert (vals' = a_vals a) as -> by (rewrite Hvals; unfold aic in Ea; apply Nat.ltb_ge in Ea;
      assert (F : length UV = length usedv) by lia;
      pose proof (positions_full usedv 0 F) as Full;
      unfold UV; rewrite positions_all_true by auto; rewrite Lv; apply map_nth_seq).
    rewrite attr_eta. split; [|split].
    - intros k Hk. rewrite EU in *. rewrite seq_length in Hk. rewrite seq_nth by auto. auto.
    - intros j Hj. fold size in Hj. rewrite <- Lvals in HRinv. destruct (HRinv j Hj) as (k & Hk & Hgk).
      exists k. split; auto. unfold g in Hgk. rewrite Ea in Hgk. rewrite EU in Hgk, Hk. rewrite seq_length in Hk.
      rewrite seq_nth in Hgk by auto. auto.
    - rewrite Hpc. auto. }
  (* something changed: which mapping results *)
  set (im := if a_ident a then if negb (Nat.eqb nue2 nnew) then (false, seq 0 np) else (true, a_map a)
             else (false, a_map a)).
  assert (Hexp : forall m0, np <= length m0 -> (forall p, p < np -> nth p m0 invalid_index = mapped_index a p) ->
     let ax := mkAttr (a_ncomp a) (a_dtype a) vals' false (resize nnew invalid_index (remap_points pm 0 aic aim m0)) in
     (forall k, k < length U -> att_value ax k = att_value a (nth k U 0)) /\
     (forall j, j < length (a_vals ax) -> exists k, k < length U /\ mapped_index ax k = j) /\
     wf_attr nnew ax = true).
  { intros m0 Hl0 Hm0 ax.
    destruct (remap_points_spec aic aim usedp 0 0 pm nnew m0 Hpm (le_n 0)) as (A & B). { cbn; fold np; auto. }
    cbn zeta in A, B. cbn [Nat.add firstn app] in B. fold U in B.
    assert (Emap : a_map ax = map (fun p => g (mapped_index a p)) U).
    { unfold ax. cbn [a_map]. rewrite resize_exact by lia. rewrite Hnn, B.
      apply map_ext_in. intros p Hp. rewrite Hm0 by auto. auto. }
    assert (Hmi : forall k, k < length U -> mapped_index ax k = g (mapped_index a (nth k U 0))).
    { intros k Hk. unfold mapped_index at 1. cbn [a_ident ax]. fold ax. rewrite Emap.
      rewrite (nth_map_lt _ _ _ 0) by auto. auto. }
    split; [|split].
    - intros k Hk. unfold att_value. rewrite Hmi by auto. cbn [a_vals ax].
      apply HR. unfold E. apply in_map. apply nth_In; auto.
    - cbn [a_vals ax]. intros j Hj. rewrite Lvals in Hj. destruct (HRinv j Hj) as (k & Hk & Hgk).
      exists k. split; auto. rewrite Hmi; auto.
    - unfold wf_attr. cbn [a_ident ax]. fold ax. rewrite Emap, map_length, Hnn, Nat.leb_refl. cbn [andb].
      apply forallb_forall. intros v Hv'. apply in_map_iff in Hv'. destruct Hv' as (p & <- & Hp).
      apply Nat.ltb_lt. cbn [a_vals ax]. rewrite Lvals. apply HR. unfold E. apply in_map; auto. }
  fold im. unfold wf_attr in Hwf. destruct (a_ident a) eqn:Ei.
  - apply Nat.leb_le in Hwf. fold size in Hwf. unfold im. destruct (negb (Nat.eqb nue2 nnew)) eqn:Ec.
    + cbn [negb]. apply Hexp. { rewrite seq_length; auto. }
      intros p Hp. rewrite seq_nth by auto. unfold mapped_index. rewrite Ei. auto.
    + cbn [negb]. 
      assert (EUV : UV = U).
      { apply sorted_unique; try apply positions_sorted. intros x. unfold UV. rewrite positions_in.
        split.
        - intros (k & -> & Hk & Ht). cbn. apply Hv in Ht. unfold E in Ht. apply in_map_iff in Ht.
          destruct Ht as (p & Hp & HpU). unfold mapped_index in Hp. rewrite Ei in Hp. subst; auto.
        - intros Hx. exists x. split; auto. split; [rewrite Lv; specialize (HU _ Hx); lia|].
          apply Hv. unfold E. apply in_map_iff. exists x. split; auto. unfold mapped_index. rewrite Ei; auto. }
      split; [|split].
      * intros k Hk. unfold att_value, mapped_index. cbn [a_ident a_vals]. rewrite Ei.
        rewrite Hvals, EUV. rewrite (nth_map_lt _ _ _ 0) by auto. auto.
      * cbn [a_vals]. intros j Hj. rewrite Lvals, EUV in Hj. exists j. split; auto.
      * unfold wf_attr. cbn [a_ident a_vals]. apply Nat.leb_le. rewrite Lvals, EUV. lia.
  - unfold im. cbn [negb]. apply andb_true_iff in Hwf. destruct Hwf as [W1 W2]. apply Nat.leb_le in W1.
    apply Hexp; auto. intros p Hp. unfold mapped_index. rewrite Ei. auto.
Qed.

Lemma build_point_map_all_true used : forall n, (forall k, k < length used -> nth k used false = true) ->
  build_point_map used n = (map Some (seq n (length used)), n + length used).
Proof.
  induction used as [|b r IH]; intros n H; cbn. { rewrite Nat.add_0_r; auto. }
  assert (b = true) by (apply (H 0); cbn; lia). subst b.
  rewrite IH. { f_equal. lia. } intros k Hk. apply (H (S k)). cbn; lia.
Qed.

Lemma face_ids_ok np faces : forallb (face_ok np) faces = true -> Forall (fun p => p < np) (face_ids faces).
Proof.
  intros H. rewrite forallb_forall in H. apply Forall_forall. intros p Hp. unfold face_ids in Hp.
  apply in_flat_map in Hp. destruct Hp as ([[a b] c] & Hf & Hp). specialize (H _ Hf). apply face_ok_lt in H.
  cbn in Hp. intuition; subst; tauto.
Qed.
Lemma face_ids_in faces a b c : In (a, b, c) faces ->
  In a (face_ids faces) /\ In b (face_ids faces) /\ In c (face_ids faces).
Proof.
  intros H. unfold face_ids. rewrite !in_flat_map. repeat split; exists (a, b, c); cbn; auto.
Qed.

Lemma ru_unfold g : wf_geo g = true ->
  exists used pm nnew pc,
    length used = g_np g /\ (forall p, nth p used false = true <-> In p (face_ids (g_faces g))) /\
    build_point_map used 0 = (pm, nnew) /\ (pc = false -> nnew = g_np g) /\
    remove_unused_attributes g =
      mkGeo nnew (map (cleanup_attr (g_np g) nnew pc pm) (g_atts g)) (map (remap_face_pm pm) (g_faces g)).
Proof.
  intros Hwf. pose proof Hwf as Hwf'. unfold wf_geo in Hwf'. apply andb_true_iff in Hwf'. destruct Hwf' as [_ WF].
  unfold remove_unused_attributes.
  destruct (mark_used (face_ids (g_faces g)) (repeat false (g_np g)) 0) as [used nnew] eqn:EM.
  destruct (mark_used_fresh _ _ _ _ EM (face_ids_ok _ _ WF)) as (L & HV & HN).
  destruct (Nat.ltb_spec nnew (g_np g)) as [Lt|Ge].
  - destruct (build_point_map used 0) as [pm nnew'] eqn:EB.
    exists used, pm, nnew', true. repeat split; auto; try apply HV. congruence.
  - assert (Full : forall k, k < length used -> nth k used false = true).
    { apply (positions_full used 0). pose proof (positions_bound used 0). lia. }
    pose proof (build_point_map_all_true used 0 Full) as EB. cbn [Nat.add] in EB. rewrite L in EB.
    exists used, (map Some (seq 0 (g_np g))), (g_np g), false. repeat split; auto; try apply HV.
    f_equal. symmetry. rewrite <- (map_id (g_faces g)) at 2. apply map_ext_in. intros [[a b] c] Hf.
    rewrite forallb_forall in WF. specialize (WF _ Hf). apply face_ok_lt in WF. destruct WF as (A & B & C).
    unfold remap_face_pm, pm_get. rewrite !(nth_map_lt _ _ _ 0) by (rewrite seq_length; auto).
    rewrite !seq_nth by auto. auto.
Qed.

(** THEOREM remove_unused_preserves *)
Lemma remove_unused_preserves g : wf_geo g = true ->
  let g' := remove_unused_attributes g in
  geom g' = geom g /\
  (forall q, q < g_np g' -> In q (face_ids (g_faces g'))) /\
  (forall a', In a' (g_atts g') -> forall j, j < length (a_vals a') -> exists q, q < g_np g' /\ mapped_index a' q = j) /\
  wf_geo g' = true.
Proof.
  intros Hwf g'. destruct (ru_unfold g Hwf) as (used & pm & nnew & pc & L & HV & EB & Hpc & EQ).
  destruct (wf_geo_parts g Hwf) as [WA WF].
  destruct (build_point_map_spec used 0 0 pm nnew EB) as (Lpm & Hnn & HC & _). cbn [Nat.add] in Hnn.
  set (U := positions used 0) in *.
  (* every face id is some U[k], and is renamed to k *)
  assert (HK : forall p, In p (face_ids (g_faces g)) -> exists k, k < length U /\ nth k U 0 = p /\ pm_get pm p = k).
  { intros p Hp. apply HV in Hp. assert (In p U) as Hin.
    { apply positions_in. exists p. split; auto. split; auto.
      destruct (Nat.lt_ge_cases p (length used)); auto. rewrite nth_overflow in Hp by auto. congruence. }
    apply In_nth with (d := 0) in Hin. destruct Hin as (k & Hk & E). exists k. split; auto. split; auto.
    unfold pm_get. specialize (HC k Hk). rewrite Nat.sub_0_r, E in HC. rewrite HC. auto. }
  assert (HA : forall a, In a (g_atts g) ->
     (forall k, k < length U -> att_value (cleanup_attr (g_np g) nnew pc pm a) k = att_value a (nth k U 0)) /\
     (forall j, j < length (a_vals (cleanup_attr (g_np g) nnew pc pm a)) ->
        exists k, k < length U /\ mapped_index (cleanup_attr (g_np g) nnew pc pm a) k = j) /\
     wf_attr nnew (cleanup_attr (g_np g) nnew pc pm a) = true).
  { intros a Ha. rewrite <- L. apply cleanup_attr_spec; auto; rewrite L; auto. }
  assert (HT : forall k, k < length U ->
     point_tuple (map (cleanup_attr (g_np g) nnew pc pm) (g_atts g)) k = point_tuple (g_atts g) (nth k U 0)).
  { intros k Hk. unfold point_tuple. rewrite map_map. apply map_ext_in. intros a Ha. apply HA; auto. }
  unfold g'. rewrite EQ. split; [|split; [|split]].
  - unfold geom. cbn [g_atts g_faces]. rewrite map_map. apply map_ext_in. intros [[a b] c] Hf.
    destruct (face_ids_in _ _ _ _ Hf) as (Ia & Ib & Ic).
    destruct (HK a Ia) as (ka & Ha1 & Ha2 & Ha3). destruct (HK b Ib) as (kb & Hb1 & Hb2 & Hb3).
    destruct (HK c Ic) as (kc & Hc1 & Hc2 & Hc3).
    unfold remap_face_pm, face_geom. rewrite Ha3, Hb3, Hc3. rewrite !HT by auto. rewrite Ha2, Hb2, Hc2. auto.
  - cbn [g_np g_faces]. intros q Hq. rewrite Hnn in Hq.
    assert (In (nth q U 0) U) as Hin by (apply nth_In; auto).
    apply positions_in in Hin. destruct Hin as (p & Hp & _ & Ht). cbn in Hp. apply HV in Ht. rewrite <- Hp in Ht.
    destruct (HK _ Ht) as (k & Hk1 & Hk2 & Hk3).
    assert (Hkq : k = q).
    { pose proof (positions_sorted used 0) as SS. fold U in SS.
      apply (proj1 (NoDup_nth U 0)) ; auto. clear - SS. induction SS; constructor; auto.
      rewrite Forall_forall in H. intros Hin. specialize (H _ Hin). lia. }
    rewrite Hkq in Hk3. unfold face_ids in *. apply in_flat_map in Ht. destruct Ht as ([[a b] c] & Hf & Hi).
    apply in_flat_map. exists (remap_face_pm pm (a, b, c)). split; [apply in_map; auto|].
    unfold remap_face_pm. cbn in Hi. cbn. destruct Hi as [E | [E | [E | []]]]; rewrite E, Hk3; auto.
  - cbn [g_atts g_np]. intros a' Ha' j Hj. apply in_map_iff in Ha'. destruct Ha' as (a & <- & Ha).
    destruct (HA a Ha) as (_ & H2 & _). destruct (H2 j Hj) as (k & Hk & E). exists k. split; auto. lia.
  - unfold wf_geo. cbn [g_np g_atts g_faces]. apply andb_true_iff; split; apply forallb_forall.
    + intros a' Ha'. apply in_map_iff in Ha'. destruct Ha' as (a & <- & Ha). apply HA; auto.
    + intros f' Hf'. apply in_map_iff in Hf'. destruct Hf' as ([[a b] c] & <- & Hf).
      destruct (face_ids_in _ _ _ _ Hf) as (Ia & Ib & Ic).
      destruct (HK a Ia) as (ka & Ha1 & Ha2 & Ha3). destruct (HK b Ib) as (kb & Hb1 & Hb2 & Hb3).
      destruct (HK c Ic) as (kc & Hc1 & Hc2 & Hc3).
      unfold remap_face_pm, face_ok. rewrite Ha3, Hb3, Hc3. rewrite !andb_true_iff, !Nat.ltb_lt. lia.
Qed.

(* ----------------------------------------------------------------------------------------- Cleanup *)
Lemma face_ok_rot np f g : rot_equiv f g -> face_ok np f = true -> face_ok np g = true.
Proof.
  destruct f as [[a b] c]. unfold rot_equiv, rot_left. intros [-> | [-> | ->]] H; auto;
    apply face_ok_lt in H; unfold face_ok; rewrite !andb_true_iff, !Nat.ltb_lt; lia.
Qed.
Lemma rdf_spec_ok np faces : forall used sh,
  forallb (face_ok np) faces = true -> forallb (face_ok np) (rdf_spec used sh faces) = true.
Proof.
  induction faces as [|f r IH]; intros used sh H; cbn in *; auto.
  apply andb_true_iff in H. destruct H as [H1 H2].
  destruct (fset_mem used (normalize_face f)); auto. cbn. rewrite IH by auto. rewrite andb_true_r.
  destruct sh; auto. eapply face_ok_rot; [apply normalize_is_rotation | auto].
Qed.
Lemma filter_ok np (P : face -> bool) faces :
  forallb (face_ok np) faces = true -> forallb (face_ok np) (filter P faces) = true.
Proof.
  rewrite !forallb_forall. intros H x Hx. apply filter_In in Hx. apply H; tauto.
Qed.

(** the face list after the two face passes *)
Definition cleaned_faces (pa : attr) (o : cleanup_opts) (faces : list face) : list face :=
  let f1 := if o_degenerate o then filter (keep_face pa) faces else faces in
  if o_duplicate o then rdf_spec [] false f1 else f1.

(** THEOREM cleanup_spec: Cleanup = (filter degenerate) ; (first occurrences up to rotation) ; (drop unused),
    the last step changing nothing of what the mesh describes. *)
Lemma cleanup_spec pi pa o g : wf_geo g = true -> nth_error (g_atts g) pi = Some pa ->
  (o_degenerate o || o_unused o || o_duplicate o || o_manifold o) = true ->
  exists g', cleanup (Some pi) o g = Some g' /\
    geom g' = map (face_geom (g_atts g)) (cleaned_faces pa o (g_faces g)) /\
    wf_geo g' = true /\
    (o_unused o = false -> g' = mkGeo (g_np g) (g_atts g) (cleaned_faces pa o (g_faces g))) /\
    (o_unused o = true ->
       (forall q, q < g_np g' -> In q (face_ids (g_faces g'))) /\
       (forall a', In a' (g_atts g') -> forall j, j < length (a_vals a') ->
          exists q, q < g_np g' /\ mapped_index a' q = j)).
Proof.
  intros Hwf Hpa Hopt. unfold cleanup.
  replace (negb (o_degenerate o) && negb (o_unused o) && negb (o_duplicate o) && negb (o_manifold o)) with false
    by (destruct (o_degenerate o), (o_unused o), (o_duplicate o), (o_manifold o); cbn in *; congruence).
  rewrite Hpa. rewrite remove_degenerate_spec.
  assert (E2 : (if o_duplicate o
                then remove_duplicate_faces (if o_degenerate o then filter (keep_face pa) (g_faces g) else g_faces g)
                else if o_degenerate o then filter (keep_face pa) (g_faces g) else g_faces g)
               = cleaned_faces pa o (g_faces g)).
  { unfold cleaned_faces. destruct (o_duplicate o); auto. apply remove_duplicates_refines. }
  rewrite E2. set (f2 := cleaned_faces pa o (g_faces g)).
  set (g2 := mkGeo (g_np g) (g_atts g) f2).
  assert (W2 : wf_geo g2 = true).
  { pose proof Hwf as H. unfold wf_geo in *. apply andb_true_iff in H. destruct H as [H1 H2].
    cbn [g_np g_atts g_faces g2]. rewrite H1. cbn [andb]. unfold f2, cleaned_faces.
    destruct (o_duplicate o), (o_degenerate o); auto using rdf_spec_ok, filter_ok. }
  eexists; split; [reflexivity|]. destruct (o_unused o).
  - destruct (remove_unused_preserves g2 W2) as (A & B & C & D). cbn zeta in *.
    split; [rewrite A; reflexivity|]. split; auto. split; [congruence|]. intros _. split; auto.
  - split; [reflexivity|]. split; auto. split; auto. congruence.
Qed.

Lemma cleanup_nothing_to_do pos g : cleanup pos (mkOpts false false false false) g = Some g.
Proof. reflexivity. Qed.
Lemma cleanup_missing_position o g :
  (o_degenerate o || o_unused o || o_duplicate o || o_manifold o) = true -> cleanup None o g = None.
Proof.
  intros H. unfold cleanup.
  destruct (o_degenerate o), (o_unused o), (o_duplicate o), (o_manifold o); cbn in *; congruence.
Qed.

(** FINDING (reproduced on the library): the rotation loop stops at the FIRST smallest id, so for a face whose
    smallest point id occurs twice the normal form is not canonical and a rotated copy is kept. *)
Lemma remove_duplicates_degenerate_rotation_refuted :
  exists f g, rot_equiv f g /\ remove_duplicate_faces [f; g] = [f; g].
Proof. exists (0, 0, 1), (0, 1, 0). split; [right; left; reflexivity | reflexivity]. Qed.
