(** C15 — lemmas about the text helpers of Model/IoText.v: decimal printing/parsing, lines, words. *)
From Coq Require Import List ZArith Bool Lia ZifyBool.
From Draco Require Import Base.Codec Model.IoText.
Import ListNotations.
Local Open Scope Z_scope.

Definition digitb (c : Z) : Prop := is_digit c = true.
Definition nospace (w : bytes) : Prop := Forall (fun c => is_space c = false) w.
(** the next character (if any) is not a digit *)
Definition stops (rest : bytes) : Prop := match rest with [] => True | c :: _ => is_digit c = false end.

Lemma digit_nospace c : is_digit c = true -> is_space c = false.
Proof. unfold is_digit, is_space. lia. Qed.
Lemma delim_space c : is_delim c = true -> is_space c = true.
Proof. unfold is_delim, is_space. lia. Qed.

(* ------------------------------------------------------------------------------ decimal numbers *)
Definition dval (acc : Z) (ds : bytes) : Z := fold_left (fun a c => a * 10 + (c - 48)) ds acc.

Lemma dval_snoc acc ds d : dval acc (ds ++ [d]) = dval acc ds * 10 + (d - 48).
Proof. unfold dval. rewrite fold_left_app. reflexivity. Qed.

Lemma dec_rev_digits fuel : forall n, 0 <= n -> Forall digitb (dec_rev fuel n).
Proof.
  induction fuel as [|f IH]; intros n Hn; cbn [dec_rev]; [constructor|].
  destruct (n <? 10) eqn:E.
  - constructor; [|constructor]. unfold digitb, is_digit. lia.
  - constructor.
    + unfold digitb, is_digit. pose proof (Z.mod_pos_bound n 10). lia.
    + apply IH. apply Z.div_pos; lia.
Qed.

Lemma dec_rev_nonempty fuel n : dec_rev (S fuel) n <> [].
Proof. cbn [dec_rev]. destruct (n <? 10); discriminate. Qed.

Lemma dec_rev_val fuel : forall n, 0 <= n < 10 ^ Z.of_nat fuel -> dval 0 (rev (dec_rev fuel n)) = n.
Proof.
  induction fuel as [|f IH]; intros n Hn.
  - change (10 ^ Z.of_nat 0) with 1 in Hn. cbn [dec_rev rev]. unfold dval. cbn [fold_left]. lia.
  - cbn [dec_rev]. destruct (n <? 10) eqn:E.
    + cbn [rev app]. unfold dval. cbn [fold_left]. lia.
    + cbn [rev]. rewrite dval_snoc. rewrite IH.
      * pose proof (Z.div_mod n 10). lia.
      * rewrite Nat2Z.inj_succ, Z.pow_succ_r in Hn by lia.
        split; [apply Z.div_pos; lia|]. apply Z.div_lt_upper_bound; lia.
Qed.

Lemma dec_str_digits n : 0 <= n -> Forall digitb (dec_str n).
Proof. intros. unfold dec_str. apply Forall_rev. apply dec_rev_digits; auto. Qed.
Lemma dec_str_nonempty n : dec_str n <> [].
Proof.
  unfold dec_str. intros H. apply (f_equal (@rev Z)) in H. rewrite rev_involutive in H. cbn [rev] in H.
  revert H. apply dec_rev_nonempty.
Qed.
Lemma dec_str_val n : 0 <= n < 10 ^ 20 -> dval 0 (dec_str n) = n.
Proof. intros. unfold dec_str. apply dec_rev_val. exact H. Qed.
Lemma dec_str_nospace n : 0 <= n -> nospace (dec_str n).
Proof.
  intros. eapply Forall_impl; [|apply dec_str_digits; auto]. intros c Hc. apply digit_nospace; auto.
Qed.

Lemma dval_ge ds : Forall digitb ds -> forall acc, 0 <= acc -> acc <= dval acc ds.
Proof.
  induction 1 as [|c ds Hc _ IH]; intros acc Ha; [cbn; lia|].
  cbn [dval fold_left]. fold (dval (acc * 10 + (c - 48)) ds).
  unfold digitb, is_digit in Hc. specialize (IH (acc * 10 + (c - 48)) ltac:(lia)). lia.
Qed.

Lemma digits_val_app ds : Forall digitb ds -> forall acc rest,
  digits_val acc (ds ++ rest) = digits_val (dval acc ds) rest.
Proof.
  induction 1 as [|c ds Hc _ IH]; intros acc rest; [reflexivity|].
  cbn [app digits_val]. unfold digitb in Hc. rewrite Hc. rewrite IH. reflexivity.
Qed.
Lemma digits_val_stop acc rest : stops rest -> digits_val acc rest = (acc, rest).
Proof. destruct rest as [|c r]; cbn; [reflexivity|]. intros ->. reflexivity. Qed.

Lemma digits_u32_app ds : Forall digitb ds -> forall acc rest, 0 <= acc -> dval acc ds < 2 ^ 32 ->
  digits_u32 acc (ds ++ rest) = digits_u32 (dval acc ds) rest.
Proof.
  induction 1 as [|c ds Hc Hds IH]; intros acc rest Ha Hb; [reflexivity|].
  cbn [app digits_u32]. unfold digitb in Hc. rewrite Hc.
  cbn [dval fold_left] in Hb. fold (dval (acc * 10 + (c - 48)) ds) in Hb.
  assert (0 <= acc * 10 + (c - 48)) by (unfold is_digit in Hc; lia).
  pose proof (dval_ge ds Hds _ H).
  rewrite Z.mod_small by lia. rewrite IH by lia. reflexivity.
Qed.
Lemma digits_u32_stop acc rest : stops rest -> digits_u32 acc rest = (acc, rest).
Proof. destruct rest as [|c r]; cbn; [reflexivity|]. intros ->. reflexivity. Qed.

(** the first character of a decimal numeral *)
Lemma dec_str_head n : 0 <= n -> exists c w, dec_str n = c :: w /\ is_digit c = true.
Proof.
  intros Hn. pose proof (dec_str_digits n Hn) as D. pose proof (dec_str_nonempty n) as NE.
  destruct (dec_str n) as [|c w]; [congruence|]. inversion D; subst. eauto.
Qed.

(** strtoll reads back what operator<< printed *)
Lemma strtoll_dec_str n : 0 <= n < 2 ^ 63 -> strtoll (dec_str n) = n.
Proof.
  intros Hn. destruct (dec_str_head n ltac:(lia)) as (c & w & E & Hc).
  unfold strtoll. rewrite E. unfold is_digit in Hc.
  replace (c =? 45) with false by lia. replace (c =? 43) with false by lia.
  rewrite <- E. rewrite <- (app_nil_r (dec_str n)). rewrite digits_val_app by (apply dec_str_digits; lia).
  rewrite digits_val_stop by exact I. cbn [fst]. rewrite dec_str_val; [lia|].
  split; [lia|]. apply Z.lt_trans with (2 ^ 63); [lia|]. reflexivity.
Qed.

Lemma to_i32_small n : 0 <= n < 2 ^ 31 -> to_i32 n = n.
Proof. intros. unfold to_i32. rewrite Z.mod_small by lia. replace (n <? 2 ^ 31) with true by lia. reflexivity. Qed.

(** ParseSignedInt reads back what "%d" printed for a positive int32 *)
Lemma parse_signed_int_dec_str n rest : 0 <= n < 2 ^ 31 -> stops rest ->
  parse_signed_int (dec_str n ++ rest) = Some (n, rest).
Proof.
  intros Hn Hs. destruct (dec_str_head n ltac:(lia)) as (c & w & E & Hc).
  assert (V : dval 0 (dec_str n) = n) by (apply dec_str_val; split; [lia|]; apply Z.lt_trans with (2 ^ 31); [lia|reflexivity]).
  unfold parse_signed_int. rewrite E. cbn [app].
  assert (c =? 45 = false) as -> by (unfold is_digit in Hc; lia).
  assert (c =? 43 = false) as -> by (unfold is_digit in Hc; lia).
  unfold parse_unsigned_int. rewrite Hc.
  change (c :: w ++ rest) with ((c :: w) ++ rest). rewrite <- E.
  rewrite digits_u32_app; [|apply dec_str_digits; lia|lia|rewrite V; lia].
  rewrite digits_u32_stop by exact Hs. rewrite V. rewrite to_i32_small by lia. reflexivity.
Qed.

(* ---------------------------------------------------------------------------------------- lines *)
Definition nodelim (l : bytes) : Prop := Forall (fun c => is_delim c = false) l.
Lemma nospace_nodelim w : nospace w -> nodelim w.
Proof.
  apply Forall_impl. intros c H. destruct (is_delim c) eqn:E; auto. apply delim_space in E. congruence.
Qed.

Lemma take_line_app l rest : nodelim l -> take_line (l ++ 10 :: rest) = (l, 10 :: rest).
Proof.
  induction 1 as [|c l Hc _ IH]; [reflexivity|]. cbn [app take_line]. rewrite Hc, IH. reflexivity.
Qed.
Lemma eat_eol_lf rest : eat_eol (10 :: rest) = rest.
Proof.
  unfold eat_eol. change (is_delim 10) with true. cbn iota. destruct rest as [|c2 r2]; [reflexivity|].
  destruct (is_delim c2 && negb (c2 =? 10) && (c2 =? 10)) eqn:E; [lia|reflexivity].
Qed.
Lemma parse_line_app l rest : nodelim l -> parse_line (l ++ 10 :: rest) = (l, rest).
Proof. intros. unfold parse_line. rewrite take_line_app by auto. rewrite eat_eol_lf. reflexivity. Qed.

Lemma skip_ws_nonspace c r : is_space c = false -> skip_ws (c :: r) = c :: r.
Proof. intros H. cbn. rewrite H. reflexivity. Qed.

(* ---------------------------------------------------------------------------------------- words *)
Definition goodword (w : bytes) : Prop := w <> [] /\ nospace w.

Lemma split_aux_word w : nospace w -> forall r,
  split_aux (w ++ r) = (w ++ fst (split_aux r), snd (split_aux r)).
Proof.
  induction 1 as [|c w Hc _ IH]; intros r; cbn [app]; [destruct (split_aux r); reflexivity|].
  cbn [split_aux]. rewrite IH. rewrite Hc. reflexivity.
Qed.
Lemma split_aux_space r : split_aux (32 :: r) = ([], split_words r).
Proof. cbn [split_aux]. unfold split_words. destruct (split_aux r). reflexivity. Qed.

Lemma join_sp_cons w ws : ws <> [] -> join_sp (w :: ws) = w ++ 32 :: join_sp ws.
Proof. destruct ws; [congruence|reflexivity]. Qed.

Lemma split_words_join ws : Forall goodword ws -> split_words (join_sp ws) = ws.
Proof.
  induction 1 as [|w ws [Hne Hns] Hws IH]; [reflexivity|].
  destruct ws as [|w2 ws2].
  - cbn [join_sp]. unfold split_words. rewrite <- (app_nil_r w) at 1. rewrite split_aux_word by auto.
    cbn [split_aux fst snd]. rewrite app_nil_r. unfold cons_word. destruct w; [congruence|reflexivity].
  - rewrite join_sp_cons by discriminate. unfold split_words. rewrite split_aux_word by auto.
    rewrite split_aux_space. cbn [fst snd]. rewrite app_nil_r. rewrite IH.
    unfold cons_word. destruct w; [congruence|reflexivity].
Qed.

Lemma join_sp_nodelim ws : Forall goodword ws -> nodelim (join_sp ws).
Proof.
  induction 1 as [|w ws [Hne Hns] Hws IH]; [constructor|].
  destruct ws as [|w2 ws2]; [apply nospace_nodelim; auto|].
  rewrite join_sp_cons by discriminate. apply Forall_app. split; [apply nospace_nodelim; auto|].
  constructor; [reflexivity|exact IH].
Qed.

Lemma header_line_roundtrip ws rest : Forall goodword ws ->
  parse_line (join_sp ws ++ 10 :: rest) = (join_sp ws, rest) /\ split_words (join_sp ws) = ws.
Proof.
  intros H. split; [apply parse_line_app; apply join_sp_nodelim; exact H | apply split_words_join; exact H].
Qed.
