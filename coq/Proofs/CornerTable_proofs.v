(** Proofs about Model/CornerTable.v *)
From Coq Require Import List Arith Bool Lia ZArith ZifyBool ZifyNat FinFun.
Import ListNotations.
From Draco Require Import Model.CornerTable.
Ltac Zify.zify_post_hook ::= Z.div_mod_to_equations.

(** * Lists *)
Lemma upd_length {A} (l : list A) i x : length (upd l i x) = length l.
Proof. revert i; induction l; destruct i; simpl; auto. Qed.
Lemma nth_upd_eq {A} (l : list A) i x d : i < length l -> nth i (upd l i x) d = x.
Proof. revert i; induction l; destruct i; simpl; intros; try lia; auto. apply IHl; lia. Qed.
Lemma nth_upd_neq {A} (l : list A) i j x d : i <> j -> nth j (upd l i x) d = nth j l d.
Proof. revert i j; induction l; destruct i, j; simpl; intros; try lia; auto. Qed.
Lemma nth_upd {A} (l : list A) i j x d :
  nth j (upd l i x) d = if (j =? i) && (i <? length l) then x else nth j l d.
Proof.
  destruct (j =? i) eqn:E; simpl.
  - apply Nat.eqb_eq in E; subst. destruct (i <? length l) eqn:F.
    + apply nth_upd_eq; lia.
    + rewrite !nth_overflow; auto; rewrite ?upd_length; lia.
  - apply nth_upd_neq. lia.
Qed.
(** clearing an entry to the default needs no range condition *)
Lemma opp_at_clear opp i a : opp_at (upd opp i None) a = if a =? i then None else opp_at opp a.
Proof.
  unfold opp_at. rewrite nth_upd. destruct (a =? i) eqn:E; simpl; auto.
  destruct (i <? length opp) eqn:F; auto. apply Nat.eqb_eq in E; subst.
  rewrite nth_overflow; auto; lia.
Qed.
Lemma opp_at_lt opp a o : opp_at opp a = Some o -> a < length opp.
Proof. unfold opp_at; intros. destruct (lt_dec a (length opp)); auto. rewrite nth_overflow in H; [discriminate|lia]. Qed.

Lemma NoDup_snoc {A} (l : list A) x : NoDup l -> ~ In x l -> NoDup (l ++ [x]).
Proof.
  induction l; simpl; intros.
  - constructor; auto.
  - inversion H; subst. constructor.
    + rewrite in_app_iff. simpl. intros [?|[?|[]]]; [tauto|]. subst. apply H0; auto.
    + apply IHl; auto.
Qed.

(** * Next / Previous *)
Lemma next_prev c : next_c (prev_c c) = c.
Proof. unfold next_c, prev_c. destruct (c mod 3 =? 0) eqn:E.
 - destruct (S (c+2) mod 3 =? 0) eqn:F; lia.
 - destruct (S (c-1) mod 3 =? 0) eqn:F; lia. Qed.
Lemma prev_next c : prev_c (next_c c) = c.
Proof. unfold next_c, prev_c. destruct (S c mod 3 =? 0) eqn:E.
 - destruct ((c-2) mod 3 =? 0) eqn:F; lia.
 - destruct ((S c) mod 3 =? 0) eqn:F; lia. Qed.
Lemma next_face c : next_c c / 3 = c / 3.
Proof. unfold next_c. destruct (S c mod 3 =? 0) eqn:E; lia. Qed.
Lemma prev_face c : prev_c c / 3 = c / 3.
Proof. unfold prev_c. destruct (c mod 3 =? 0) eqn:E; lia. Qed.
Lemma next_lt c nf : c < 3 * nf -> next_c c < 3 * nf.
Proof. unfold next_c. destruct (S c mod 3 =? 0) eqn:E; lia. Qed.
Lemma prev_lt c nf : c < 3 * nf -> prev_c c < 3 * nf.
Proof. unfold prev_c. destruct (c mod 3 =? 0) eqn:E; lia. Qed.
Lemma next_neq c : next_c c <> c.
Proof. unfold next_c. destruct (S c mod 3 =? 0) eqn:E; lia. Qed.
Lemma prev_neq c : prev_c c <> c.
Proof. unfold prev_c. destruct (c mod 3 =? 0) eqn:E; lia. Qed.
Lemma next_next c : next_c (next_c c) = prev_c c.
Proof. unfold next_c, prev_c. destruct (S c mod 3 =? 0) eqn:E.
 - destruct (S (c-2) mod 3 =? 0) eqn:F; destruct (c mod 3 =? 0) eqn:G; lia.
 - destruct (S (S c) mod 3 =? 0) eqn:F; destruct (c mod 3 =? 0) eqn:G; lia. Qed.
Lemma next_0 f : next_c (3 * f) = 3 * f + 1.
Proof. unfold next_c. destruct (S (3*f) mod 3 =? 0) eqn:E; lia. Qed.
Lemma next_1 f : next_c (3 * f + 1) = 3 * f + 2.
Proof. unfold next_c. destruct (S (3*f+1) mod 3 =? 0) eqn:E; lia. Qed.
Lemma next_2 f : next_c (3 * f + 2) = 3 * f.
Proof. unfold next_c. destruct (S (3*f+2) mod 3 =? 0) eqn:E; lia. Qed.
Lemma prev_0 f : prev_c (3 * f) = 3 * f + 2.
Proof. unfold prev_c. destruct ((3*f) mod 3 =? 0) eqn:E; lia. Qed.
Lemma prev_1 f : prev_c (3 * f + 1) = 3 * f.
Proof. unfold prev_c. destruct ((3*f+1) mod 3 =? 0) eqn:E; lia. Qed.
Lemma prev_2 f : prev_c (3 * f + 2) = 3 * f + 1.
Proof. unfold prev_c. destruct ((3*f+2) mod 3 =? 0) eqn:E; lia. Qed.
Lemma corner_cases c : c = 3 * (c / 3) \/ c = 3 * (c / 3) + 1 \/ c = 3 * (c / 3) + 2.
Proof. lia. Qed.

Lemma c2v_of_faces_length faces : length (c2v_of_faces faces) = 3 * length faces.
Proof. induction faces as [|[[a b] c] r]; simpl; auto. unfold c2v_of_faces in *. lia. Qed.

(** is_degenerated depends only on the three vertices of the face; any corner's view *)
Lemma nondeg_corner c2v c :
  is_degenerated c2v (c / 3) = false ->
  vtx c2v c <> vtx c2v (next_c c) /\ vtx c2v c <> vtx c2v (prev_c c) /\ vtx c2v (next_c c) <> vtx c2v (prev_c c).
Proof.
  unfold is_degenerated. intros H.
  apply orb_false_iff in H as [H H3]. apply orb_false_iff in H as [H1 H2].
  apply Nat.eqb_neq in H1, H2, H3.
  destruct (corner_cases c) as [E|[E|E]]; rewrite E at 1 2 3 4 5 6.
  - rewrite next_0, prev_0. replace (3 * (c/3)) with (3 * (c/3) + 0) at 1 3 by lia.
    replace (3 * (c / 3) + 0) with (3 * (c/3)) by lia. auto.
  - rewrite next_1, prev_1. auto.
  - rewrite next_2, prev_2. auto.
Qed.

(** * The consistency predicate for the opposite table w.r.t. a corner->vertex map
    (clauses 1 and 2 of the property) *)
Definition opp_ok (c2v : list nat) (opp : list (option nat)) : Prop :=
  length opp = length c2v /\
  forall a o, opp_at opp a = Some o ->
    opp_at opp o = Some a /\ a <> o /\
    vtx c2v (next_c a) = vtx c2v (prev_c o) /\ vtx c2v (prev_c a) = vtx c2v (next_c o) /\
    vtx c2v a <> vtx c2v o /\
    is_degenerated c2v (a / 3) = false.

(** * ComputeOppositeCorners *)
Definition hcorner (e : hedge) : nat := match e with (_, _, k) => k end.

Lemma find_match_spec c2v pend snk src tip o pend' :
  find_match c2v pend snk src tip = Some (o, pend') ->
  exists pre post, pend = pre ++ (snk, src, o) :: post /\ pend' = pre ++ post /\ tip <> vtx c2v o.
Proof.
  revert o pend'. induction pend as [|[[s t] k] r IH]; simpl; intros o pend' H; [discriminate|].
  destruct ((s =? snk) && (t =? src) && negb (tip =? vtx c2v k)) eqn:E.
  - inversion H; subst. apply andb_true_iff in E as [E E3]. apply andb_true_iff in E as [E1 E2].
    apply Nat.eqb_eq in E1, E2. apply negb_true_iff in E3. apply Nat.eqb_neq in E3. subst.
    exists [], pend'. auto.
  - destruct (find_match c2v r snk src tip) as [[o' r']|] eqn:F; [|discriminate].
    inversion H; subst. destruct (IH _ _ eq_refl) as (pre & post & -> & -> & Ht).
    exists ((s, t, k) :: pre), post. auto.
Qed.

Record oc_inv (c2v : list nat) (b : nat) (st : oc_state) : Prop := {
  oi_len : length (fst (fst st)) = length c2v;
  oi_sym : forall a o, opp_at (fst (fst st)) a = Some o ->
             opp_at (fst (fst st)) o = Some a /\ a <> o /\ a < b /\
             vtx c2v (next_c a) = vtx c2v (prev_c o) /\ vtx c2v (prev_c a) = vtx c2v (next_c o) /\
             vtx c2v a <> vtx c2v o /\ is_degenerated c2v (a / 3) = false;
  oi_pend : forall s t k, In (s, t, k) (snd (fst st)) ->
             k < b /\ opp_at (fst (fst st)) k = None /\ s = vtx c2v (next_c k) /\ t = vtx c2v (prev_c k) /\
             is_degenerated c2v (k / 3) = false;
  oi_nodup : NoDup (map hcorner (snd (fst st)))
}.

Lemma oc_inv_mono c2v b b' st : b <= b' -> oc_inv c2v b st -> oc_inv c2v b' st.
Proof.
  intros L [H1 H2 H3 H4]. split; auto.
  - intros a o Ha. destruct (H2 a o Ha) as (?&?&?&?). repeat split; try tauto; lia.
  - intros s t k Hk. destruct (H3 s t k Hk) as (?&?). split; [lia|tauto].
Qed.

Lemma oc_corner_inv c2v st c :
  oc_inv c2v c st -> c < length c2v -> is_degenerated c2v (c / 3) = false ->
  oc_inv c2v (S c) (oc_corner c2v st c).
Proof.
  destruct st as [[opp pend] nd]. intros [H1 H2 H3 H4] Hc Hd. simpl in *.
  assert (Hcn : opp_at opp c = None).
  { destruct (opp_at opp c) eqn:E; auto. destruct (H2 _ _ E) as (_&_&?&_). lia. }
  unfold oc_corner.
  destruct (find_match c2v pend (vtx c2v (prev_c c)) (vtx c2v (next_c c)) (vtx c2v c)) as [[o pend']|] eqn:F.
  - apply find_match_spec in F as (pre & post & -> & -> & Htip).
    assert (Ho : In (vtx c2v (prev_c c), vtx c2v (next_c c), o) (pre ++ (vtx c2v (prev_c c), vtx c2v (next_c c), o) :: post))
      by (apply in_or_app; right; left; auto).
    destruct (H3 _ _ _ Ho) as (Hob & Hon & Hs & Ht & Hod).
    assert (Hoc : o <> c) by lia.
    assert (Hol : o < length opp).
    { rewrite H1. destruct (lt_dec o (length c2v)); auto. exfalso.
      (* o is the corner of a pending half-edge: it is < c < length *) lia. }
    assert (Hlk : forall x, opp_at (upd (upd opp c (Some o)) o (Some c)) x =
                    if x =? o then Some c else if x =? c then Some o else opp_at opp x).
    { intros x. unfold opp_at. rewrite nth_upd, upd_length. rewrite nth_upd.
      destruct (x =? o) eqn:E1; simpl.
      - replace (o <? length opp) with true by lia. auto.
      - destruct (x =? c) eqn:E2; simpl; auto. replace (c <? length opp) with true by lia. auto. }
    split; simpl.
    + rewrite !upd_length; auto.
    + intros a x. rewrite !Hlk.
      destruct (a =? o) eqn:E1.
      * apply Nat.eqb_eq in E1; subst a. intros Hx; inversion Hx; subst x.
        replace (c =? o) with false by lia. rewrite Nat.eqb_refl.
        repeat split; auto; try lia; try congruence.
      * destruct (a =? c) eqn:E2.
        -- apply Nat.eqb_eq in E2; subst a. intros Hx; inversion Hx; subst x.
           rewrite Nat.eqb_refl. repeat split; auto; try lia; congruence.
        -- intros Hx. destruct (H2 _ _ Hx) as (Hxa & ? & ? & ? & ? & ? & ?).
           assert (x <> o) by (intro; subst x; congruence).
           assert (x <> c) by (intro; subst x; congruence).
           replace (x =? o) with false by lia. replace (x =? c) with false by lia.
           repeat split; auto.
    + intros s t k Hk.
      assert (Hk' : In (s, t, k) (pre ++ (vtx c2v (prev_c c), vtx c2v (next_c c), o) :: post)).
      { apply in_app_or in Hk as [?|?]; apply in_or_app; [left|right; right]; auto. }
      destruct (H3 _ _ _ Hk') as (? & ? & ? & ? & ?).
      assert (k <> o).
      { intro; subst k. rewrite map_app in H4. simpl in H4. apply NoDup_remove_2 in H4.
        apply H4. rewrite <- map_app. change o with (hcorner (s, t, o)). apply in_map; auto. }
      rewrite Hlk. replace (k =? o) with false by lia. replace (k =? c) with false by lia.
      repeat split; auto.
    + rewrite map_app in *. simpl in H4. apply NoDup_remove_1 in H4. auto.
  - split; simpl; auto.
    + intros a x Hx. destruct (H2 _ _ Hx) as (?&?&?&?). repeat split; try tauto; lia.
    + intros s t k Hk. apply in_app_or in Hk as [Hk|[Hk|[]]].
      * destruct (H3 _ _ _ Hk) as (?&?). split; [lia|tauto].
      * inversion Hk; subst. repeat split; auto.
    + rewrite map_app. simpl. apply NoDup_snoc; auto.
      intros Hk. apply in_map_iff in Hk as ([[s t] k'] & E & Hk). destruct (H3 _ _ _ Hk). simpl in E. lia.
Qed.

Lemma oc_face_inv c2v st f :
  oc_inv c2v (3 * f) st -> 3 * f + 2 < length c2v -> oc_inv c2v (3 * S f) (oc_face c2v st f).
Proof.
  intros H L. unfold oc_face. destruct (is_degenerated c2v f) eqn:D.
  - destruct st as [[opp pend] nd]. apply oc_inv_mono with (3 * f); [lia|].
    destruct H as [H1 H2 H3 H4]. split; auto.
  - replace (3 * S f) with (S (3 * f + 2)) by lia.
    apply oc_corner_inv; [|lia|replace ((3*f+2)/3) with f by lia; auto].
    replace (3 * f + 2) with (S (3 * f + 1)) at 1 by lia.
    apply oc_corner_inv; [|lia|replace ((3*f+1)/3) with f by lia; auto].
    replace (3 * f + 1) with (S (3 * f)) at 1 by lia.
    apply oc_corner_inv; [auto|lia|replace ((3*f)/3) with f by lia; auto].
Qed.

Lemma oc_fold_inv c2v nf :
  3 * nf <= length c2v ->
  oc_inv c2v (3 * nf) (fold_left (oc_face c2v) (seq 0 nf) (repeat None (length c2v), [], 0)).
Proof.
  induction nf; intros L.
  - simpl. split; simpl.
    + apply repeat_length.
    + intros a o. unfold opp_at. rewrite nth_repeat. discriminate.
    + intros ? ? ? [].
    + constructor.
  - rewrite seq_S, fold_left_app. simpl. apply oc_face_inv; [apply IHnf|]; lia.
Qed.

Theorem compute_opposite_ok c2v nf opp pend nd :
  length c2v = 3 * nf -> compute_opposite c2v nf = (opp, pend, nd) -> opp_ok c2v opp.
Proof.
  intros L E. pose proof (oc_fold_inv c2v nf ltac:(lia)) as H. unfold compute_opposite in E.
  rewrite E in H. destruct H as [H1 H2 _ _]. simpl in *. split; auto.
  intros a o Ha. destruct (H2 _ _ Ha) as (?&?&?&?&?&?&?). repeat split; auto.
Qed.

(** * BreakNonManifoldEdges only removes links, pairwise *)
Definition sub_opp (opp opp' : list (option nat)) : Prop :=
  length opp' = length opp /\
  (forall a, opp_at opp' a = opp_at opp a \/ opp_at opp' a = None) /\
  (forall a o, opp_at opp a = Some o -> opp_at opp' a = None -> opp_at opp' o = None).

Lemma sub_opp_refl opp : sub_opp opp opp.
Proof. split; [auto|split]; intros; auto. congruence. Qed.

Lemma sub_opp_ok c2v opp opp' : opp_ok c2v opp -> sub_opp opp opp' -> opp_ok c2v opp'.
Proof.
  intros [L H] (L' & S1 & S2). split; [congruence|].
  intros a o Ha. destruct (S1 a) as [E|E]; [|congruence].
  rewrite E in Ha. destruct (H _ _ Ha) as (Ho & ?). split; [|auto].
  destruct (S1 o) as [E'|E']; [congruence|].
  pose proof (S2 _ _ Ho E'). congruence.
Qed.

Lemma sub_opp_trans c2v opp1 opp2 opp3 :
  opp_ok c2v opp1 -> sub_opp opp1 opp2 -> sub_opp opp2 opp3 -> sub_opp opp1 opp3.
Proof.
  intros OK (L1 & A1 & B1) (L2 & A2 & B2). split; [congruence|split].
  - intros a. destruct (A2 a) as [E|E]; auto. rewrite E. apply A1.
  - intros a o Ha Hn. destruct (A1 a) as [E|E].
    + rewrite Ha in E. apply (B2 _ _ E Hn).
    + pose proof (B1 _ _ Ha E) as E'. destruct (A2 o) as [E2|E2]; congruence.
Qed.

Definition opt_is (o : option nat) (a : nat) : bool := match o with Some x => a =? x | None => false end.

Lemma break_edges_at opp e o a :
  opp_at (break_edges opp e o) a =
  if (a =? o) || (a =? e) || opt_is (opp_at opp o) a || opt_is (opp_at opp e) a then None else opp_at opp a.
Proof.
  unfold break_edges. rewrite !opp_at_clear.
  destruct (a =? o) eqn:E1; simpl; auto. destruct (a =? e) eqn:E2; simpl; auto.
  destruct (opp_at opp o) as [oo|] eqn:Eo; destruct (opp_at opp e) as [oe|] eqn:Ee; simpl; rewrite ?opp_at_clear.
  - destruct (a =? oo); destruct (a =? oe); simpl; auto.
  - destruct (a =? oo); simpl; auto.
  - destruct (a =? oe); simpl; auto.
  - auto.
Qed.

Lemma break_edges_sub c2v opp e o : opp_ok c2v opp -> sub_opp opp (break_edges opp e o).
Proof.
  intros [L H]. split; [|split].
  - unfold break_edges. rewrite !upd_length. unfold clear_opt.
    destruct (opp_at opp o), (opp_at opp e); rewrite ?upd_length; auto.
  - intros a. rewrite break_edges_at. destruct (_ || _); auto.
  - intros a x Ha. rewrite !break_edges_at. destruct (H _ _ Ha) as (Hx & Hne & _).
    destruct ((a =? o) || (a =? e) || opt_is (opp_at opp o) a || opt_is (opp_at opp e) a) eqn:E; [|congruence].
    intros _.
    assert (((x =? o) || (x =? e) || opt_is (opp_at opp o) x || opt_is (opp_at opp e) x) = true) as ->; auto.
    apply orb_true_iff in E as [E|E]; [apply orb_true_iff in E as [E|E]; [apply orb_true_iff in E as [E|E]|]|].
    + apply Nat.eqb_eq in E; subst a. rewrite Ha. simpl. rewrite Nat.eqb_refl. rewrite !orb_true_r. auto.
    + apply Nat.eqb_eq in E; subst a. rewrite Ha. simpl. rewrite Nat.eqb_refl. rewrite !orb_true_r. auto.
    + destruct (opp_at opp o) as [oo|] eqn:Eo; simpl in E; [|discriminate]. apply Nat.eqb_eq in E; subst oo.
      destruct (H _ _ Eo) as (Ha' & _). assert (x = o) by congruence. subst. rewrite Nat.eqb_refl. auto.
    + destruct (opp_at opp e) as [oe|] eqn:Ee; simpl in E; [|discriminate]. apply Nat.eqb_eq in E; subst oe.
      destruct (H _ _ Ee) as (Ha' & _). assert (x = e) by congruence. subst. rewrite Nat.eqb_refl. rewrite !orb_true_r. auto.
Qed.

Lemma nm_walk_sub c2v fuel : forall opp visited sinks first cur opp' visited' u,
  opp_ok c2v opp ->
  nm_walk fuel c2v opp visited sinks first cur = Some (opp', visited', u) -> sub_opp opp opp'.
Proof.
  induction fuel; intros opp visited sinks first cur opp' visited' u OK H; [discriminate|].
  cbn [nm_walk] in H.
  destruct (find_nm sinks (vtx c2v (next_c cur)) (opp_at opp (prev_c cur))) as [other|].
  - inversion H; subst. apply break_edges_sub with c2v; auto.
  - destruct (swing_right opp cur) as [nx|].
    + destruct (nx =? first).
      * inversion H; subst. apply sub_opp_refl.
      * eapply IHfuel; eauto.
    + inversion H; subst. apply sub_opp_refl.
Qed.

Lemma nm_corner_sub c2v opp0 c opp visited u opp' visited' u' :
  opp_ok c2v opp0 -> sub_opp opp0 opp ->
  nm_corner c2v (Some (opp, visited, u)) c = Some (opp', visited', u') -> sub_opp opp0 opp'.
Proof.
  intros OK S H. unfold nm_corner in H.
  destruct (nth c visited false).
  - inversion H; subst; auto.
  - destruct (nm_leftmost _ _ _ _ _) as [first|]; [|discriminate].
    destruct (nm_walk _ _ _ _ _ _ _) as [[[o v] w]|] eqn:W; [|discriminate].
    inversion H; subst.
    eapply sub_opp_trans; eauto. eapply nm_walk_sub; eauto. eapply sub_opp_ok; eauto.
Qed.

Lemma nm_fold_none c2v l : fold_left (nm_corner c2v) l None = None.
Proof. induction l; simpl; auto. Qed.

Lemma nm_fold_sub c2v opp0 l : forall opp visited u opp' visited' u',
  opp_ok c2v opp0 -> sub_opp opp0 opp ->
  fold_left (nm_corner c2v) l (Some (opp, visited, u)) = Some (opp', visited', u') -> sub_opp opp0 opp'.
Proof.
  induction l; cbn [fold_left]; intros opp visited u opp' visited' u' OK S H.
  - inversion H; subst; auto.
  - destruct (nm_corner c2v (Some (opp, visited, u)) a) as [[[o v] w]|] eqn:E.
    + eapply IHl; [exact OK| |exact H]. eapply nm_corner_sub; eauto.
    + rewrite nm_fold_none in H. discriminate.
Qed.

Lemma nm_rounds_sub c2v opp0 fuel : forall opp visited opp',
  opp_ok c2v opp0 -> sub_opp opp0 opp ->
  nm_rounds fuel c2v opp visited = Some opp' -> sub_opp opp0 opp'.
Proof.
  induction fuel; intros opp visited opp' OK S H; [discriminate|].
  cbn [nm_rounds] in H. destruct (nm_pass c2v opp visited) as [[[o v] u]|] eqn:P; [|discriminate].
  unfold nm_pass in P. pose proof (nm_fold_sub _ _ _ _ _ _ _ _ _ OK S P) as S'.
  destruct u.
  - eapply IHfuel; eauto.
  - inversion H; subst; auto.
Qed.

(** break_preserves: the repaired table is still consistent and only lost links *)
Theorem break_preserves c2v opp opp' :
  opp_ok c2v opp -> break_non_manifold_edges c2v opp = Some opp' ->
  opp_ok c2v opp' /\ sub_opp opp opp'.
Proof.
  intros OK H. unfold break_non_manifold_edges in H.
  pose proof (nm_rounds_sub _ _ _ _ _ _ OK (sub_opp_refl opp) H) as S.
  split; auto. eapply sub_opp_ok; eauto.
Qed.

(** * Swings along a consistent opposite table *)
Section Swing.
Variables (c2v0 : list nat) (opp : list (option nat)) (nf : nat).
Hypothesis Hlen : length c2v0 = 3 * nf.
Hypothesis OK : opp_ok c2v0 opp.

Lemma swing_left_ok a a' : swing_left opp a = Some a' ->
  a' < length c2v0 /\ vtx c2v0 a' = vtx c2v0 a /\ is_degenerated c2v0 (a' / 3) = false /\ swing_right opp a' = Some a.
Proof.
  unfold swing_left, swing_right. destruct (opp_at opp (next_c a)) as [o|] eqn:E; [|discriminate].
  intros H; inversion H; subst a'. destruct OK as [L K].
  destruct (K _ _ E) as (Ho & _ & _ & Hv & _ & _).
  destruct (K _ _ Ho) as (_ & _ & _ & _ & _ & Hd).
  pose proof (opp_at_lt _ _ _ Ho) as Hl. rewrite prev_next in *.
  repeat split.
  - rewrite Hlen. apply next_lt. lia.
  - congruence.
  - rewrite next_face; auto.
  - rewrite Ho. rewrite prev_next; auto.
Qed.

Lemma swing_right_ok a a' : swing_right opp a = Some a' ->
  a' < length c2v0 /\ vtx c2v0 a' = vtx c2v0 a /\ is_degenerated c2v0 (a' / 3) = false /\ swing_left opp a' = Some a.
Proof.
  unfold swing_left, swing_right. destruct (opp_at opp (prev_c a)) as [o|] eqn:E; [|discriminate].
  intros H; inversion H; subst a'. destruct OK as [L K].
  destruct (K _ _ E) as (Ho & _ & Hv & _ & _ & _).
  destruct (K _ _ Ho) as (_ & _ & _ & _ & _ & Hd).
  pose proof (opp_at_lt _ _ _ Ho) as Hl. rewrite next_prev in *.
  repeat split.
  - rewrite Hlen. apply prev_lt. lia.
  - congruence.
  - rewrite prev_face; auto.
  - rewrite Ho. rewrite next_prev; auto.
Qed.
End Swing.

(** * ComputeVertexCorners: parents map back, untouched corners keep their ids *)
Section VC.
Variables (c2v0 : list nat) (opp : list (option nat)) (nf n0 : nat).
Hypothesis Hlen : length c2v0 = 3 * nf.
Hypothesis OK : opp_ok c2v0 opp.
Hypothesis Hn0 : forall x, x < length c2v0 -> vtx c2v0 x < n0.

Definition par_of (par : list nat) (v : nat) : nat := if v <? n0 then v else nth (v - n0) par 0.

Record vc_inv (s : vc_state) : Prop := {
  vi_len_c : length (vs_c2v s) = length c2v0;
  vi_len_vc : length (vs_visc s) = length c2v0;
  vi_len_vv : length (vs_visv s) = length (vs_vcorn s);
  vi_len_v : length (vs_vcorn s) = n0 + length (vs_par s);
  vi_par : forall x, x < length c2v0 -> par_of (vs_par s) (vtx (vs_c2v s) x) = vtx c2v0 x;
  vi_unvis : forall x, nth x (vs_visc s) false = false -> vtx (vs_c2v s) x = vtx c2v0 x;
  vi_rng : forall x, x < length c2v0 -> vtx (vs_c2v s) x < length (vs_vcorn s);
  vi_nondeg : forall x, nth x (vs_visc s) false = true -> is_degenerated c2v0 (x / 3) = false;
  vi_par_orig : Forall (fun p => p < n0) (vs_par s)
}.

Lemma vc_mark_inv s nm v act b :
  vc_inv s -> act < length c2v0 -> is_degenerated c2v0 (act / 3) = false ->
  v < length (vs_vcorn s) -> (nm = true -> par_of (vs_par s) v = vtx c2v0 act) ->
  vc_inv (vc_mark nm v act b s).
Proof.
  intros [I1 I2 I3 I4 I5 I6 I7 I8 I9] Ha Hd Hv Hp. unfold vc_mark.
  assert (EV : forall x, vtx (if nm then upd (vs_c2v s) act v else vs_c2v s) x =
                         if nm && (x =? act) then v else vtx (vs_c2v s) x).
  { intros x. destruct nm; simpl; auto. unfold vtx. rewrite nth_upd.
    destruct (x =? act); simpl; auto. replace (act <? length (vs_c2v s)) with true by lia. auto. }
  assert (EL : length (if b then upd (vs_vcorn s) v (Some act) else vs_vcorn s) = length (vs_vcorn s)).
  { destruct b; rewrite ?upd_length; auto. }
  assert (EC : forall x, nth x (upd (vs_visc s) act true) false = if x =? act then true else nth x (vs_visc s) false).
  { intros x. rewrite nth_upd. replace (act <? length (vs_visc s)) with true by lia. rewrite andb_true_r. auto. }
  split; cbn [vs_c2v vs_vcorn vs_par vs_visv vs_visc]; auto.
  - destruct nm; rewrite ?upd_length; auto.
  - rewrite upd_length; auto.
  - congruence.
  - congruence.
  - intros x Hx. rewrite EV. destruct nm; simpl; auto. destruct (x =? act) eqn:E; auto.
    apply Nat.eqb_eq in E; subst. auto.
  - intros x. rewrite EC, EV. destruct (x =? act); [discriminate|]. rewrite andb_false_r. auto.
  - intros x Hx. rewrite EV, EL. destruct (nm && (x =? act)); auto.
  - intros x. rewrite EC. destruct (x =? act) eqn:E; auto. apply Nat.eqb_eq in E; subst; auto.
Qed.

Lemma vc_mark_par s nm v act b : vs_par (vc_mark nm v act b s) = vs_par s.
Proof. reflexivity. Qed.
Lemma vc_mark_len s nm v act b : length (vs_vcorn (vc_mark nm v act b s)) = length (vs_vcorn s).
Proof. unfold vc_mark; simpl. destruct b; rewrite ?upd_length; auto. Qed.

Lemma vc_left_inv fuel : forall nm v c act s s' fl,
  vc_inv s -> act < length c2v0 -> is_degenerated c2v0 (act / 3) = false ->
  v < length (vs_vcorn s) -> (nm = true -> par_of (vs_par s) v = vtx c2v0 act) ->
  vc_left fuel opp nm v c act s = Some (s', fl) ->
  vc_inv s' /\ vs_par s' = vs_par s /\ length (vs_vcorn s') = length (vs_vcorn s).
Proof.
  induction fuel; intros nm v c act s s' fl I Ha Hd Hv Hp H; [discriminate|].
  cbn [vc_left] in H.
  pose proof (vc_mark_inv s nm v act true I Ha Hd Hv Hp) as I'.
  destruct (swing_left opp act) as [a'|] eqn:E.
  - destruct (swing_left_ok _ _ _ Hlen OK _ _ E) as (L & V & D & _).
    destruct (a' =? c).
    + inversion H; subst. rewrite vc_mark_len. auto.
    + apply IHfuel in H; auto.
      * rewrite vc_mark_par, vc_mark_len in H. auto.
      * rewrite vc_mark_len; auto.
      * rewrite vc_mark_par, V; auto.
  - inversion H; subst. rewrite vc_mark_len. auto.
Qed.

Lemma vc_right_inv fuel : forall nm v (act : option nat) s s' v0,
  vc_inv s ->
  (forall a, act = Some a -> a < length c2v0 /\ is_degenerated c2v0 (a / 3) = false /\ vtx c2v0 a = v0) ->
  v < length (vs_vcorn s) -> (nm = true -> par_of (vs_par s) v = v0) ->
  vc_right fuel opp nm v act s = Some s' ->
  vc_inv s' /\ vs_par s' = vs_par s /\ length (vs_vcorn s') = length (vs_vcorn s).
Proof.
  induction fuel; intros nm v act s s' v0 I Ha Hv Hp H.
  - destruct act; simpl in H; [discriminate|]. inversion H; subst; auto.
  - destruct act as [a|]; cbn [vc_right] in H; [|inversion H; subst; auto].
    destruct (Ha a eq_refl) as (L & D & V).
    apply IHfuel with (v0 := v0) in H.
    + rewrite vc_mark_par, vc_mark_len in H. auto.
    + apply vc_mark_inv; auto. rewrite V; auto.
    + intros a' E. destruct (swing_right_ok _ _ _ Hlen OK _ _ E) as (L' & V' & D' & _).
      repeat split; auto. congruence.
    + rewrite vc_mark_len; auto.
    + rewrite vc_mark_par; auto.
Qed.

Lemma par_of_app par x v : v < n0 + length par -> par_of (par ++ [x]) v = par_of par v.
Proof. unfold par_of. intros. destruct (v <? n0) eqn:E; auto. rewrite app_nth1; auto. lia. Qed.

Lemma vc_corner_inv s c s' :
  vc_inv s -> c < length c2v0 -> is_degenerated c2v0 (c / 3) = false ->
  vc_corner opp (Some s) c = Some s' -> vc_inv s'.
Proof.
  intros I Hc Hd H. unfold vc_corner in H.
  destruct (nth c (vs_visc s) false) eqn:Vc; [inversion H; subst; auto|].
  pose proof I as [I1 I2 I3 I4 I5 I6 I7 I8 I9].
  pose proof (I6 _ Vc) as Ev0. rewrite Ev0 in H.
  set (v0 := vtx c2v0 c) in *.
  assert (Hv0 : v0 < n0) by (apply Hn0; auto).
  set (nm := nth v0 (vs_visv s) false) in *.
  set (v := if nm then length (vs_vcorn s) else v0) in *.
  set (s1 := if nm then mk_vc (vs_c2v s) (vs_vcorn s ++ [None]) (vs_par s ++ [v0]) (vs_visv s ++ [false]) (vs_visc s) else s) in *.
  set (s2 := mk_vc (vs_c2v s1) (vs_vcorn s1) (vs_par s1) (upd (vs_visv s1) v true) (vs_visc s1)) in *.
  assert (I2' : vc_inv s2 /\ v < length (vs_vcorn s2) /\ (nm = true -> par_of (vs_par s2) v = v0)).
  { unfold s2, s1, v. destruct nm; cbn [vs_c2v vs_vcorn vs_par vs_visv vs_visc].
    - split; [|split].
      + split; cbn [vs_c2v vs_vcorn vs_par vs_visv vs_visc]; auto.
        * rewrite upd_length, !app_length. simpl. lia.
        * rewrite !app_length. simpl. lia.
        * intros x Hx. rewrite par_of_app; auto. rewrite <- I4. auto.
        * intros x Hx. rewrite app_length. pose proof (I7 x Hx). lia.
        * apply Forall_app; split; auto.
      + rewrite app_length; simpl; lia.
      + intros _. unfold par_of. replace (length (vs_vcorn s) <? n0) with false by lia.
        rewrite I4. replace (n0 + length (vs_par s) - n0) with (length (vs_par s)) by lia.
        rewrite nth_middle. auto.
    - split; [|split].
      + split; cbn [vs_c2v vs_vcorn vs_par vs_visv vs_visc]; auto. rewrite upd_length; auto.
      + lia.
      + discriminate. }
  destruct I2' as (J & Jv & Jp).
  destruct (vc_left _ opp nm v c c s2) as [[s3 fl]|] eqn:L; [|discriminate].
  apply vc_left_inv in L; auto. destruct L as (J3 & P3 & L3).
  destruct fl; [inversion H; subst; auto|].
  apply vc_right_inv with (v0 := v0) in H; try tauto.
  - intros a E. destruct (swing_right_ok _ _ _ Hlen OK _ _ E) as (L' & V' & D' & _). auto.
  - lia.
  - rewrite P3; auto.
Qed.

Lemma vc_corner_none c : vc_corner opp None c = None.
Proof. reflexivity. Qed.

Lemma is_degenerated_ext c2v c2v' f :
  vtx c2v (3 * f) = vtx c2v' (3 * f) -> vtx c2v (3 * f + 1) = vtx c2v' (3 * f + 1) ->
  vtx c2v (3 * f + 2) = vtx c2v' (3 * f + 2) -> is_degenerated c2v f = is_degenerated c2v' f.
Proof. unfold is_degenerated. intros -> -> ->. auto. Qed.

Lemma vc_deg_same s f : vc_inv s -> is_degenerated (vs_c2v s) f = is_degenerated c2v0 f.
Proof.
  intros I. destruct (is_degenerated c2v0 f) eqn:D.
  - rewrite <- D. apply is_degenerated_ext; apply (vi_unvis _ I);
      match goal with |- nth ?x _ _ = _ => destruct (nth x (vs_visc s) false) eqn:E; auto;
        apply (vi_nondeg _ I) in E; replace (x / 3) with f in E by lia; congruence end.
  - (* all three current ids have distinct parents *)
    destruct (Nat.le_gt_cases (length c2v0) (3 * f + 2)) as [G|G].
    + exfalso. assert (is_degenerated c2v0 f = true); [|congruence].
      unfold is_degenerated, vtx. rewrite !(nth_overflow c2v0) by lia. reflexivity.
    + pose proof (vi_par _ I (3*f) ltac:(lia)) as P0.
      pose proof (vi_par _ I (3*f+1) ltac:(lia)) as P1.
      pose proof (vi_par _ I (3*f+2) ltac:(lia)) as P2.
      unfold is_degenerated in *.
      apply orb_false_iff in D as [D D3]. apply orb_false_iff in D as [D1 D2].
      apply Nat.eqb_neq in D1, D2, D3.
      apply orb_false_iff; split; [apply orb_false_iff; split|]; apply Nat.eqb_neq; congruence.
Qed.

Lemma vc_face_inv s f s' :
  vc_inv s -> 3 * f + 2 < length c2v0 -> vc_face opp (Some s) f = Some s' -> vc_inv s'.
Proof.
  intros I L H. unfold vc_face in H. rewrite vc_deg_same in H by auto.
  destruct (is_degenerated c2v0 f) eqn:D; [inversion H; subst; auto|].
  destruct (vc_corner opp (Some s) (3 * f)) as [sa|] eqn:A; [|discriminate].
  apply vc_corner_inv in A; auto; [|lia|replace (3*f/3) with f by lia; auto].
  destruct (vc_corner opp (Some sa) (3 * f + 1)) as [sb|] eqn:B; [|discriminate].
  apply vc_corner_inv in B; auto; [|lia|replace ((3*f+1)/3) with f by lia; auto].
  apply vc_corner_inv in H; auto. replace ((3*f+2)/3) with f by lia; auto.
Qed.

Lemma vc_fold_none l : fold_left (vc_face opp) l None = None.
Proof. induction l; simpl; auto. Qed.

Lemma vc_fold_inv k : forall s s', k <= nf ->
  vc_inv s -> fold_left (vc_face opp) (seq 0 k) (Some s) = Some s' -> vc_inv s'.
Proof.
  induction k; intros s s' L I H.
  - simpl in H. inversion H; subst; auto.
  - rewrite seq_S, fold_left_app in H. cbn [fold_left] in H.
    destruct (fold_left (vc_face opp) (seq 0 k) (Some s)) as [sk|] eqn:E; [|discriminate].
    apply IHk in E; auto; [|lia]. apply vc_face_inv in H; auto. simpl. lia.
Qed.

Lemma vc_init_inv : vc_inv (mk_vc c2v0 (repeat None n0) [] (repeat false n0) (repeat false (length c2v0))).
Proof.
  split; cbn [vs_c2v vs_vcorn vs_par vs_visv vs_visc]; auto; rewrite ?repeat_length; auto.
  - intros x Hx. unfold par_of. replace (vtx c2v0 x <? n0) with true; auto.
    symmetry. apply Nat.ltb_lt. auto.
  - intros x. rewrite nth_repeat. discriminate.
Qed.

Theorem compute_vertex_corners_inv s :
  compute_vertex_corners c2v0 opp n0 nf = Some s -> vc_inv s.
Proof. intros H. eapply vc_fold_inv; [| |exact H]; auto. apply vc_init_inv. Qed.
End VC.

(** * CornerTable::Create *)
Lemma num_vertices_of_spec c2v x : x < length c2v -> vtx c2v x < num_vertices_of c2v.
Proof.
  unfold num_vertices_of, vtx.
  assert (G : forall l a, a <= fold_left (fun m v => Nat.max m (S v)) l a).
  { induction l; simpl; intros; auto. etransitivity; [|apply IHl]. lia. }
  assert (forall l a x, x < length l -> nth x l 0 < fold_left (fun m v => Nat.max m (S v)) l a).
  { induction l; simpl; intros; [lia|]. destruct x0.
    - eapply Nat.lt_le_trans; [|apply G]. lia.
    - apply IHl. lia. }
  auto.
Qed.

(** * The flat vertex_edges array of ComputeOppositeCorners refines the insertion-ordered list *)
Lemma nth_mid {T} (pre : list T) x rest d : nth (length pre) (pre ++ x :: rest) d = x.
Proof. rewrite app_nth2 by lia. rewrite Nat.sub_diag. reflexivity. Qed.
Lemma nth_mid_S {T} (pre : list T) x y rest d : nth (S (length pre)) (pre ++ x :: y :: rest) d = y.
Proof. rewrite app_nth2 by lia. replace (S (length pre) - length pre) with 1 by lia. reflexivity. Qed.
Lemma upd_mid {T} (pre : list T) x rest z : upd (pre ++ x :: rest) (length pre) z = pre ++ z :: rest.
Proof. induction pre; simpl; auto. f_equal; auto. Qed.
Lemma app_snoc_assoc {T} (pre : list T) x rest : pre ++ x :: rest = (pre ++ [x]) ++ rest.
Proof. rewrite <- app_assoc. reflexivity. Qed.

Definition render (b : list (nat * nat)) (k : nat) : list slot := map Some b ++ repeat None (k - length b).

Fixpoint find_idx (c2v : list nat) (b : list (nat * nat)) (source_v tip_v : nat) : option (nat * nat) :=
  match b with
  | [] => None
  | (t, ec) :: r =>
    if (t =? source_v) && negb (tip_v =? vtx c2v ec) then Some (0, ec)
    else match find_idx c2v r source_v tip_v with Some (i, o) => Some (S i, o) | None => None end
  end.

Fixpoint remove_nth {T} (i : nat) (l : list T) : list T :=
  match l, i with
  | [], _ => []
  | _ :: r, O => r
  | x :: r, S j => x :: remove_nth j r
  end.

Lemma fl_search_spec c2v src tip : forall b k pre post, length b <= k ->
  fl_search k c2v (pre ++ render b k ++ post) (length pre) src tip =
  match find_idx c2v b src tip with
  | Some (i, ec) => Some (ec, length pre + i, k - i - 1)
  | None => None
  end.
Proof.
  induction b as [|[t ec] b IH]; intros k pre post L.
  - simpl. unfold render. simpl. rewrite Nat.sub_0_r. destruct k; simpl; auto.
    rewrite nth_mid. auto.
  - simpl in L. destruct k; [lia|]. unfold render. cbn [map app length fl_search find_idx].
    rewrite nth_mid.
    destruct ((t =? src) && negb (tip =? vtx c2v ec)).
    + replace (length pre + 0) with (length pre) by lia. replace (S k - 0 - 1) with k by lia. reflexivity.
    + replace (S k - S (length b)) with (k - length b) by lia.
      rewrite app_snoc_assoc. replace (S (length pre)) with (length (pre ++ [Some (t, ec)])) by (rewrite app_length; simpl; lia).
      fold (render b k). rewrite IH by lia.
      destruct (find_idx c2v b src tip) as [[i o]|]; auto.
      rewrite app_length. simpl. replace (length pre + 1 + i) with (length pre + S i) by lia.
      replace (k - i - 1) with (S k - S i - 1) by lia. reflexivity.
Qed.

Lemma fl_shift_aux : forall (b2 : list (nat * nat)) r pre e post,
  fl_shift (length b2 + r) (pre ++ Some e :: map Some b2 ++ repeat None r ++ post) (length pre) =
  pre ++ map Some b2 ++ repeat None (S r) ++ post.
Proof.
  induction b2 as [|e2 b2 IH]; intros r pre e post.
  - simpl. destruct r; cbn [fl_shift].
    + simpl. apply upd_mid.
    + cbn [repeat app]. rewrite nth_mid_S. rewrite upd_mid, upd_mid. reflexivity.
  - cbn [length plus map app fl_shift]. rewrite nth_mid_S. rewrite upd_mid.
    rewrite app_snoc_assoc. replace (S (length pre)) with (length (pre ++ [Some e2])) by (rewrite app_length; simpl; lia).
    rewrite IH. rewrite <- app_assoc. reflexivity.
Qed.

Lemma remove_nth_app {T} (b1 : list T) e b2 : remove_nth (length b1) (b1 ++ e :: b2) = b1 ++ b2.
Proof. induction b1; simpl; auto. f_equal; auto. Qed.

Lemma fl_shift_spec b1 e b2 k pre post : length (b1 ++ e :: b2) <= k ->
  fl_shift (k - length b1 - 1) (pre ++ render (b1 ++ e :: b2) k ++ post) (length pre + length b1) =
  pre ++ render (b1 ++ b2) k ++ post.
Proof.
  intros L. rewrite app_length in L. simpl in L. unfold render. rewrite !map_app. cbn [map].
  rewrite !app_length. cbn [length].
  replace (k - length b1 - 1) with (length b2 + (k - (length b1 + S (length b2)))) by lia.
  replace (length pre + length b1) with (length (pre ++ map Some b1)) by (rewrite app_length, map_length; lia).
  rewrite <- !app_assoc. cbn [app]. rewrite (app_assoc pre (map Some b1)).
  rewrite fl_shift_aux. replace (S (k - (length b1 + S (length b2)))) with (k - (length b1 + length b2)) by lia.
  rewrite <- !app_assoc. reflexivity.
Qed.

Lemma fl_insert_spec e : forall b k pre post, length b < k ->
  fl_insert k (pre ++ render b k ++ post) (length pre) e = pre ++ render (b ++ [e]) k ++ post.
Proof.
  induction b as [|x b IH]; intros k pre post L.
  - unfold render. simpl in *. destruct k; [lia|]. cbn [fl_insert repeat Nat.sub app].
    rewrite Nat.sub_0_r. cbn [repeat app]. rewrite nth_mid, upd_mid. reflexivity.
  - simpl in L. destruct k; [lia|]. unfold render. cbn [map app length fl_insert].
    rewrite nth_mid. replace (S k - S (length b)) with (k - length b) by lia.
    rewrite app_snoc_assoc. replace (S (length pre)) with (length (pre ++ [Some x])) by (rewrite app_length; simpl; lia).
    fold (render b k). rewrite IH by lia. unfold render. rewrite <- !app_assoc. cbn [app map length].
    rewrite !app_length. cbn [length]. replace (S k - S (length b + 1)) with (k - (length b + 1)) by lia. reflexivity.
Qed.

(** buckets of the insertion-ordered list = the regions of the flat array *)
Definition hsrc (e : hedge) : nat := match e with (s, _, _) => s end.
Definition hpay (e : hedge) : nat * nat := match e with (_, t, k) => (t, k) end.
Definition bucket (s : nat) (pend : list hedge) : list (nat * nat) :=
  map hpay (filter (fun e => hsrc e =? s) pend).
Definition render_all (cnt : list nat) (pend : list hedge) : list slot :=
  flat_map (fun s => render (bucket s pend) (nth s cnt 0)) (seq 0 (length cnt)).

Lemma bucket_app s p q : bucket s (p ++ q) = bucket s p ++ bucket s q.
Proof. unfold bucket. rewrite filter_app, map_app. auto. Qed.

Lemma bucket_single s src snk c : bucket s [(src, snk, c)] = if src =? s then [(snk, c)] else [].
Proof. unfold bucket. cbn [filter hsrc]. destruct (src =? s); reflexivity. Qed.

Lemma find_idx_cons c2v t ec r src tip :
  find_idx c2v ((t, ec) :: r) src tip =
  if (t =? src) && negb (tip =? vtx c2v ec) then Some (0, ec)
  else match find_idx c2v r src tip with Some (i, o) => Some (S i, o) | None => None end.
Proof. reflexivity. Qed.

Lemma find_match_bucket c2v snk src tip : forall pend,
  match find_match c2v pend snk src tip with
  | Some (o, pend') =>
      exists b1 e b2, find_idx c2v (bucket snk pend) src tip = Some (length b1, o) /\
        bucket snk pend = b1 ++ e :: b2 /\ bucket snk pend' = b1 ++ b2 /\
        forall s, s <> snk -> bucket s pend' = bucket s pend
  | None => find_idx c2v (bucket snk pend) src tip = None
  end.
Proof.
  induction pend as [|[[s t] k] r IH]; [reflexivity|].
  cbn [find_match]. unfold bucket at 1 2 3. cbn [filter hsrc].
  destruct (s =? snk) eqn:E.
  - cbn [map hpay andb]. rewrite find_idx_cons. destruct ((t =? src) && negb (tip =? vtx c2v k)) eqn:T.
    + exists [], (t, k), (bucket snk r). repeat split; auto.
      intros s' N. unfold bucket. cbn [filter hsrc]. apply Nat.eqb_eq in E. subst.
      replace (snk =? s') with false by lia. auto.
    + fold (bucket snk r).
      destruct (find_match c2v r snk src tip) as [[o r']|].
      * destruct IH as (b1 & e & b2 & F & B & B' & O).
        exists ((t, k) :: b1), e, b2. split; [rewrite F; reflexivity|]. split; [rewrite B; reflexivity|]. split.
        -- unfold bucket. cbn [filter hsrc]. rewrite E. cbn [map hpay]. fold (bucket snk r'). rewrite B'. auto.
        -- intros s' N. unfold bucket. cbn [filter hsrc]. destruct (s =? s'); cbn [map]; fold (bucket s' r'); fold (bucket s' r); rewrite O; auto.
      * unfold bucket. cbn [filter hsrc]. rewrite E. cbn [map hpay]. rewrite find_idx_cons, T.
        fold (bucket snk r). rewrite IH. auto.
  - cbn [andb]. fold (bucket snk r).
    destruct (find_match c2v r snk src tip) as [[o r']|].
    + destruct IH as (b1 & e & b2 & F & B & B' & O).
      exists b1, e, b2. repeat split; auto.
      * unfold bucket. cbn [filter hsrc]. rewrite E. fold (bucket snk r'). auto.
      * intros s' N. unfold bucket. cbn [filter hsrc]. destruct (s =? s'); cbn [map]; fold (bucket s' r'); fold (bucket s' r); rewrite O; auto.
    + unfold bucket. cbn [filter hsrc]. rewrite E. fold (bucket snk r). auto.
Qed.

Lemma flat_map_seq_split {T} (f : nat -> list T) m s : s < m ->
  flat_map f (seq 0 m) = flat_map f (seq 0 s) ++ f s ++ flat_map f (seq (S s) (m - S s)).
Proof.
  intros L. replace m with (s + S (m - S s)) at 1 by lia. rewrite seq_app, flat_map_app. simpl. auto.
Qed.
Lemma flat_map_ext_in {T U} (f g : T -> list U) l : (forall a, In a l -> f a = g a) -> flat_map f l = flat_map g l.
Proof. induction l; simpl; intros H; auto. rewrite H, IHl; auto. Qed.

Lemma nth_offsets_0 o cnt : 0 < length cnt -> nth 0 (offsets_from o cnt) 0 = o.
Proof. destruct cnt; simpl; auto; lia. Qed.
Lemma nth_offsets_S : forall cnt o s, S s < length cnt ->
  nth (S s) (offsets_from o cnt) 0 = nth s (offsets_from o cnt) 0 + nth s cnt 0.
Proof.
  induction cnt as [|k cnt IH]; intros o s L; simpl in *; [lia|].
  destruct s.
  - destruct cnt; simpl in *; [lia|auto].
  - rewrite IH by lia. destruct cnt; simpl in *; [lia|]. auto.
Qed.
Lemma offsets_len {T} (f : nat -> list T) cnt :
  (forall s, s < length cnt -> length (f s) = nth s cnt 0) ->
  forall s, s < length cnt -> nth s (offsets_from 0 cnt) 0 = length (flat_map f (seq 0 s)).
Proof.
  intros H. induction s; intros L.
  - simpl. apply nth_offsets_0. auto.
  - rewrite nth_offsets_S by auto. rewrite IHs by lia. rewrite seq_S, flat_map_app, app_length. simpl.
    rewrite app_nil_r, H by lia. auto.
Qed.

Lemma render_length b k : length b <= k -> length (render b k) = k.
Proof. intros. unfold render. rewrite app_length, map_length, repeat_length. lia. Qed.

Lemma render_all_split cnt pend pend' s :
  s < length cnt -> (forall s', s' <> s -> bucket s' pend' = bucket s' pend) ->
  render_all cnt pend' =
  flat_map (fun s => render (bucket s pend) (nth s cnt 0)) (seq 0 s) ++
  render (bucket s pend') (nth s cnt 0) ++
  flat_map (fun s => render (bucket s pend) (nth s cnt 0)) (seq (S s) (length cnt - S s)).
Proof.
  intros L O. unfold render_all. rewrite (flat_map_seq_split _ _ s L). f_equal; [|f_equal].
  - apply flat_map_ext_in. intros a I. apply in_seq in I. rewrite O by lia. auto.
  - apply flat_map_ext_in. intros a I. apply in_seq in I. rewrite O by lia. auto.
Qed.

(** capacity: a region never overflows *)
Lemma count_filter s : forall l off,
  length (filter (fun x => nth (x - off) l 0 =? s) (seq off (length l))) = count_occ Nat.eq_dec l s.
Proof.
  induction l as [|a l IH]; intros off; [reflexivity|].
  assert (E : filter (fun x => nth (x - off) (a :: l) 0 =? s) (seq (S off) (length l)) =
              filter (fun x => nth (x - S off) l 0 =? s) (seq (S off) (length l))).
  { apply filter_ext_in. intros x I. apply in_seq in I. replace (x - off) with (S (x - S off)) by lia. auto. }
  cbn [length seq filter]. rewrite E, Nat.sub_diag. cbn [nth count_occ].
  destruct (Nat.eq_dec a s) as [->|N].
  - rewrite Nat.eqb_refl. cbn [length]. rewrite IH. auto.
  - replace (a =? s) with false by lia. rewrite IH. auto.
Qed.

Lemma NoDup_map_filter {T} (g : T -> nat) p l : NoDup (map g l) -> NoDup (map g (filter p l)).
Proof.
  induction l; simpl; intros H; auto. inversion H; subst.
  destruct (p a); simpl; auto. constructor; auto.
  intros I. apply H2. apply in_map_iff in I as (x & E & I). apply filter_In in I as [I _].
  apply in_map_iff. eauto.
Qed.

Lemma NoDup_app_intro {T} (l1 l2 : list T) :
  NoDup l1 -> NoDup l2 -> (forall x, In x l1 -> ~ In x l2) -> NoDup (l1 ++ l2).
Proof.
  induction l1; simpl; intros H1 H2 D; auto. inversion H1; subst. constructor.
  - rewrite in_app_iff. intros [?|?]; [tauto|]. apply (D a); auto.
  - apply IHl1; auto.
Qed.

Lemma bucket_capacity c2v nf b st s extra :
  length c2v = 3 * nf -> oc_inv c2v b st -> b <= length c2v ->
  (forall c, In c extra -> b <= c < length c2v /\ vtx c2v (next_c c) = s) -> NoDup extra ->
  length (bucket s (snd (fst st))) + length extra <= count_occ Nat.eq_dec c2v s.
Proof.
  intros Hlen [_ _ P ND] Lb Ex NDx. destruct st as [[opp pend] nd]. simpl in *.
  rewrite <- (count_filter s c2v 0).
  set (L := map next_c (map hcorner (filter (fun e => hsrc e =? s) pend) ++ extra)).
  assert (LL : length L = length (bucket s pend) + length extra).
  { unfold L, bucket. rewrite !map_length, app_length, !map_length. auto. }
  rewrite <- LL. apply NoDup_incl_length.
  - unfold L. apply FinFun.Injective_map_NoDup.
    + intros x y E. rewrite <- (prev_next x), <- (prev_next y), E. auto.
    + apply NoDup_app_intro; auto.
      * apply NoDup_map_filter; auto.
      * intros x I J. apply in_map_iff in I as ([[s' t] k'] & E & I). simpl in E. subst k'.
        apply filter_In in I as [I _]. destruct (P _ _ _ I) as (Kb & _). destruct (Ex _ J) as ((? & ?) & _). lia.
  - intros x I. unfold L in I. apply in_map_iff in I as (k & <- & I). apply filter_In.
    apply in_app_or in I as [I|I].
    + apply in_map_iff in I as ([[s' t] k'] & E & I). simpl in E. subst k'. apply filter_In in I as [I S'].
      simpl in S'. apply Nat.eqb_eq in S'. subst s'. destruct (P _ _ _ I) as (Kb & _ & Es & _).
      split; [apply in_seq; split; [lia|]; simpl; rewrite Hlen; apply next_lt; lia|].
      rewrite Nat.sub_0_r. unfold vtx in Es. rewrite <- Es. apply Nat.eqb_refl.
    + destruct (Ex _ I) as ((? & ?) & Ev). split; [apply in_seq; split; [lia|]; simpl; rewrite Hlen; apply next_lt; lia|].
      rewrite Nat.sub_0_r. unfold vtx in Ev. rewrite Ev. apply Nat.eqb_refl.
Qed.

Section Sim.
Variables (c2v : list nat) (nf : nat).
Hypothesis Hlen : length c2v = 3 * nf.
Let cnt := corners_on_vertices c2v.
Let off := offsets_from 0 cnt.
Let nv := num_vertices_of c2v.

Lemma cnt_len : length cnt = nv.
Proof. unfold cnt, corners_on_vertices. rewrite map_length, seq_length. auto. Qed.
Lemma cnt_nth s : s < nv -> nth s cnt 0 = count_occ Nat.eq_dec c2v s.
Proof.
  intros L. unfold cnt, corners_on_vertices.
  rewrite (nth_indep _ 0 (count_occ Nat.eq_dec c2v 0)) by (rewrite map_length, seq_length; auto).
  rewrite (map_nth (fun v => count_occ Nat.eq_dec c2v v)). rewrite seq_nth by auto. auto.
Qed.

Lemma cap_le b opp pend nd s :
  oc_inv c2v b (opp, pend, nd) -> b <= length c2v -> s < nv -> length (bucket s pend) <= nth s cnt 0.
Proof.
  intros I Lb Ls. rewrite cnt_nth by auto.
  pose proof (bucket_capacity c2v nf b (opp, pend, nd) s [] Hlen I Lb ltac:(intros ? []) ltac:(constructor)) as H.
  simpl in H. lia.
Qed.

Lemma off_at b opp pend nd s :
  oc_inv c2v b (opp, pend, nd) -> b <= length c2v -> s < nv ->
  nth s off 0 = length (flat_map (fun s => render (bucket s pend) (nth s cnt 0)) (seq 0 s)).
Proof.
  intros I Lb Ls. unfold off. apply offsets_len; [|rewrite cnt_len; auto].
  intros s' L'. apply render_length. rewrite cnt_len in L'. eapply cap_le; eauto.
Qed.

Lemma search_eq b opp pend nd snk src tip :
  oc_inv c2v b (opp, pend, nd) -> b <= length c2v -> snk < nv ->
  fl_search (nth snk cnt 0) c2v (render_all cnt pend) (nth snk off 0) src tip =
  match find_idx c2v (bucket snk pend) src tip with
  | Some (i, ec) => Some (ec, nth snk off 0 + i, nth snk cnt 0 - i - 1)
  | None => None
  end.
Proof.
  intros I Lb Ls.
  rewrite (render_all_split cnt pend pend snk) by (rewrite ?cnt_len; auto).
  rewrite (off_at b opp pend nd snk I Lb Ls).
  apply fl_search_spec. eapply cap_le; eauto.
Qed.

Lemma shift_eq b opp pend nd pend' snk b1 e b2 :
  oc_inv c2v b (opp, pend, nd) -> b <= length c2v -> snk < nv ->
  bucket snk pend = b1 ++ e :: b2 -> bucket snk pend' = b1 ++ b2 ->
  (forall s, s <> snk -> bucket s pend' = bucket s pend) ->
  fl_shift (nth snk cnt 0 - length b1 - 1) (render_all cnt pend) (nth snk off 0 + length b1) =
  render_all cnt pend'.
Proof.
  intros I Lb Ls B B' O.
  rewrite (render_all_split cnt pend pend snk) by (rewrite ?cnt_len; auto).
  rewrite (render_all_split cnt pend pend' snk) by (rewrite ?cnt_len; auto).
  rewrite (off_at b opp pend nd snk I Lb Ls). rewrite B, B'.
  apply fl_shift_spec. rewrite <- B. eapply cap_le; eauto.
Qed.

Lemma insert_eq b opp pend nd src snk c :
  oc_inv c2v b (opp, pend, nd) -> b <= length c2v -> src < nv ->
  length (bucket src pend) < nth src cnt 0 ->
  fl_insert (nth src cnt 0) (render_all cnt pend) (nth src off 0) (snk, c) =
  render_all cnt (pend ++ [(src, snk, c)]).
Proof.
  intros I Lb Ls Cap.
  rewrite (render_all_split cnt pend pend src) by (rewrite ?cnt_len; auto).
  rewrite (render_all_split cnt pend (pend ++ [(src, snk, c)]) src); [|rewrite cnt_len; auto|].
  - rewrite (off_at b opp pend nd src I Lb Ls). rewrite bucket_app, bucket_single, Nat.eqb_refl.
    apply fl_insert_spec. auto.
  - intros s' N. rewrite bucket_app, bucket_single.
    replace (src =? s') with false by lia. apply app_nil_r.
Qed.

Lemma sim_corner opp pend nd c :
  oc_inv c2v c (opp, pend, nd) -> c < length c2v ->
  fl_corner c2v cnt off (opp, render_all cnt pend, nd) c =
  match oc_corner c2v (opp, pend, nd) c with (opp', pend', nd') => (opp', render_all cnt pend', nd') end.
Proof.
  intros I Lc. unfold fl_corner, oc_corner.
  assert (Lp : prev_c c < length c2v) by (rewrite Hlen in *; apply prev_lt; auto).
  assert (Ln : next_c c < length c2v) by (rewrite Hlen in *; apply next_lt; auto).
  pose proof (num_vertices_of_spec c2v _ Lp) as Vp. pose proof (num_vertices_of_spec c2v _ Ln) as Vn.
  fold nv in Vp, Vn.
  rewrite (search_eq c opp pend nd _ _ _ I ltac:(lia) Vp).
  pose proof (find_match_bucket c2v (vtx c2v (prev_c c)) (vtx c2v (next_c c)) (vtx c2v c) pend) as FM.
  destruct (find_match c2v pend (vtx c2v (prev_c c)) (vtx c2v (next_c c)) (vtx c2v c)) as [[o pend']|].
  - destruct FM as (b1 & e & b2 & F & B & B' & O). rewrite F.
    rewrite (shift_eq c opp pend nd pend' _ b1 e b2 I ltac:(lia) Vp B B' O). reflexivity.
  - rewrite FM. rewrite (insert_eq c opp pend nd _ _ c I ltac:(lia) Vn); auto.
    rewrite cnt_nth by auto.
    pose proof (bucket_capacity c2v nf c (opp, pend, nd) (vtx c2v (next_c c)) [c] Hlen I ltac:(lia)) as H.
    simpl in H. specialize (H ltac:(intros x [<-|[]]; auto) ltac:(repeat constructor; simpl; tauto)). lia.
Qed.

Lemma sim_face opp pend nd f :
  oc_inv c2v (3 * f) (opp, pend, nd) -> 3 * f + 2 < length c2v ->
  fl_face c2v cnt off (opp, render_all cnt pend, nd) f =
  match oc_face c2v (opp, pend, nd) f with (opp', pend', nd') => (opp', render_all cnt pend', nd') end.
Proof.
  intros I L. unfold fl_face, oc_face. destruct (is_degenerated c2v f) eqn:D; [reflexivity|].
  pose proof (oc_corner_inv c2v _ (3 * f) I ltac:(lia) ltac:(replace (3*f/3) with f by lia; auto)) as I1.
  rewrite (sim_corner _ _ _ _ I ltac:(lia)).
  destruct (oc_corner c2v (opp, pend, nd) (3 * f)) as [[o1 p1] d1].
  replace (S (3 * f)) with (3 * f + 1) in I1 by lia.
  pose proof (oc_corner_inv c2v _ (3 * f + 1) I1 ltac:(lia) ltac:(replace ((3*f+1)/3) with f by lia; auto)) as I2.
  rewrite (sim_corner _ _ _ _ I1 ltac:(lia)).
  destruct (oc_corner c2v (o1, p1, d1) (3 * f + 1)) as [[o2 p2] d2].
  replace (S (3 * f + 1)) with (3 * f + 2) in I2 by lia.
  rewrite (sim_corner _ _ _ _ I2 ltac:(lia)). reflexivity.
Qed.

Lemma list_sum_indicator a : forall m, a < m ->
  list_sum (map (fun v => if Nat.eq_dec a v then 1 else 0) (seq 0 m)) = 1.
Proof.
  induction m; intros L; [lia|]. rewrite seq_S, map_app, list_sum_app. simpl.
  destruct (Nat.eq_dec a m) as [->|N].
  - assert (G : forall k, k <= m -> list_sum (map (fun v => if Nat.eq_dec m v then 1 else 0) (seq 0 k)) = 0).
    { induction k; intros; auto. rewrite seq_S, map_app, list_sum_app. simpl. rewrite IHk by lia.
      destruct (Nat.eq_dec m k); lia. }
    rewrite G by lia. lia.
  - rewrite IHm by lia. lia.
Qed.

Lemma sum_counts m : forall l, (forall x, In x l -> x < m) ->
  list_sum (map (fun v => count_occ Nat.eq_dec l v) (seq 0 m)) = length l.
Proof.
  induction l as [|a l IH]; intros H.
  - simpl. induction (seq 0 m); simpl; auto.
  - assert (E : map (fun v => count_occ Nat.eq_dec (a :: l) v) (seq 0 m) =
                map (fun v => (if Nat.eq_dec a v then 1 else 0) + count_occ Nat.eq_dec l v) (seq 0 m)).
    { apply map_ext. intros v. simpl. destruct (Nat.eq_dec a v); auto. }
    rewrite E.
    assert (G : forall (f g : nat -> nat) L, list_sum (map (fun v => f v + g v) L) = list_sum (map f L) + list_sum (map g L)).
    { induction L; simpl; auto. rewrite IHL. lia. }
    rewrite (G (fun v => if Nat.eq_dec a v then 1 else 0) (fun v => count_occ Nat.eq_dec l v)).
    rewrite list_sum_indicator by (apply H; simpl; auto).
    rewrite IH by (intros; apply H; simpl; auto). reflexivity.
Qed.

Lemma render_all_nil : render_all cnt [] = repeat None (length c2v).
Proof.
  unfold render_all.
  assert (G : forall L, flat_map (fun s => render (bucket s []) (nth s cnt 0)) L = repeat None (list_sum (map (fun s => nth s cnt 0) L))).
  { induction L; simpl; auto. rewrite IHL. unfold render, bucket. simpl. rewrite Nat.sub_0_r, repeat_app. auto. }
  rewrite G. f_equal. rewrite cnt_len.
  rewrite (map_ext_in _ (fun v => count_occ Nat.eq_dec c2v v)).
  - apply sum_counts. intros x I. apply In_nth with (d := 0) in I as (i & Li & <-). apply num_vertices_of_spec. auto.
  - intros s I. apply in_seq in I. apply cnt_nth. lia.
Qed.

Lemma sim_fold k : 3 * k <= length c2v ->
  let st := fold_left (oc_face c2v) (seq 0 k) (repeat None (length c2v), [], 0) in
  fold_left (fl_face c2v cnt off) (seq 0 k) (repeat None (length c2v), repeat None (length c2v), 0) =
  (fst (fst st), render_all cnt (snd (fst st)), snd st).
Proof.
  induction k; intros L.
  - simpl. rewrite render_all_nil. reflexivity.
  - cbv zeta in *. rewrite !seq_S, !fold_left_app. cbn [fold_left]. rewrite IHk by lia.
    pose proof (oc_fold_inv c2v k ltac:(lia)) as I.
    destruct (fold_left (oc_face c2v) (seq 0 k) (repeat None (length c2v), [], 0)) as [[o p] d].
    cbn [fst snd]. simpl (0 + k). rewrite (sim_face o p d k I ltac:(lia)).
    destruct (oc_face c2v (o, p, d) k) as [[o' p'] d']. reflexivity.
Qed.

(** the literal flat-array ComputeOppositeCorners computes the same opposite table and counter as the
    insertion-ordered list version, and its array is the rendering of that list into the vertex regions *)
Theorem compute_opposite_flat_refines :
  compute_opposite_flat c2v nf =
  match compute_opposite c2v nf with (opp, pend, nd) => (opp, render_all cnt pend, nd) end.
Proof.
  unfold compute_opposite_flat, compute_opposite. fold cnt. fold off.
  rewrite sim_fold by lia.
  destruct (fold_left (oc_face c2v) (seq 0 nf) (repeat None (length c2v), [], 0)) as [[o p] d]. reflexivity.
Qed.
End Sim.

Lemma ct_create_stages faces t :
  ct_create faces = Some t ->
  let c2v0 := c2v_of_faces faces in
  exists opp0 pend s,
    compute_opposite c2v0 (length faces) = (opp0, pend, ct_ndeg t) /\
    break_non_manifold_edges c2v0 opp0 = Some (ct_opp t) /\
    compute_vertex_corners c2v0 (ct_opp t) (num_vertices_of c2v0) (length faces) = Some s /\
    ct_c2v t = vs_c2v s /\ ct_vcorn t = vs_vcorn s /\ ct_par t = vs_par s /\
    ct_norig t = num_vertices_of c2v0 /\ ct_niso t = count_false (vs_visv s).
Proof.
  intros H. cbv zeta. unfold ct_create in H.
  rewrite (compute_opposite_flat_refines _ _ (c2v_of_faces_length faces)) in H.
  set (c2v0 := c2v_of_faces faces) in *.
  destruct (compute_opposite c2v0 (length faces)) as [[opp0 pend] nd] eqn:E.
  destruct (break_non_manifold_edges c2v0 opp0) as [opp1|] eqn:B; [|discriminate].
  destruct (compute_vertex_corners c2v0 opp1 (num_vertices_of c2v0) (length faces)) as [s|] eqn:V; [|discriminate].
  inversion H; subst; simpl. exists opp0, pend, s. repeat split; auto.
Qed.

Lemma ct_create_opp_ok faces t :
  ct_create faces = Some t -> opp_ok (c2v_of_faces faces) (ct_opp t).
Proof.
  intros H. destruct (ct_create_stages _ _ H) as (opp0 & pend & s & E & B & _).
  eapply break_preserves; [|exact B]. eapply compute_opposite_ok; [|exact E].
  apply c2v_of_faces_length.
Qed.

Lemma ct_create_vc_inv faces t :
  ct_create faces = Some t ->
  exists s, vc_inv (c2v_of_faces faces) (num_vertices_of (c2v_of_faces faces)) s /\
    ct_c2v t = vs_c2v s /\ ct_vcorn t = vs_vcorn s /\ ct_par t = vs_par s /\
    ct_norig t = num_vertices_of (c2v_of_faces faces).
Proof.
  intros H. pose proof (ct_create_opp_ok _ _ H) as OK.
  destruct (ct_create_stages _ _ H) as (opp0 & pend & s & E & B & V & ?&?&?&?&?).
  exists s. split; [|repeat split; auto].
  exact (compute_vertex_corners_inv _ _ (length faces) _ (c2v_of_faces_length faces) OK (num_vertices_of_spec _) s V).
Qed.

(** clause 1a: the opposite relation is a symmetric, fixed-point free pairing of existing corners *)
Theorem opp_symmetric faces t a b :
  ct_create faces = Some t -> opp_at (ct_opp t) a = Some b ->
  opp_at (ct_opp t) b = Some a /\ a <> b /\ a < 3 * length faces /\ b < 3 * length faces.
Proof.
  intros H E. destruct (ct_create_opp_ok _ _ H) as [L K].
  destruct (K _ _ E) as (E' & N & _). rewrite c2v_of_faces_length in L.
  pose proof (opp_at_lt _ _ _ E). pose proof (opp_at_lt _ _ _ E'). repeat split; auto; lia.
Qed.

(** clause 3: every corner maps through VertexParent to the vertex id given in the input
    (for all faces; the ids of corners of degenerate faces are not rewritten at all) *)
Theorem vertex_parent_maps_back faces t c :
  ct_create faces = Some t -> c < 3 * length faces ->
  vertex_parent t (vtx (ct_c2v t) c) = vtx (c2v_of_faces faces) c /\
  vtx (ct_c2v t) c < length (ct_vcorn t) /\
  (is_degenerated (c2v_of_faces faces) (c / 3) = true -> vtx (ct_c2v t) c = vtx (c2v_of_faces faces) c).
Proof.
  intros H L. destruct (ct_create_vc_inv _ _ H) as (s & I & E1 & E2 & E3 & E4).
  rewrite <- c2v_of_faces_length in L.
  unfold vertex_parent. rewrite E1, E2, E3, E4. split; [|split].
  - apply (vi_par _ _ _ I); auto.
  - apply (vi_rng _ _ _ I); auto.
  - intros D. apply (vi_unvis _ _ _ I). destruct (nth c (vs_visc s) false) eqn:Vc; auto.
    apply (vi_nondeg _ _ _ I) in Vc. congruence.
Qed.

(** clause 1b: the two corners face each other across one edge with opposite orientation, and their
    tips differ (mirrored faces are not connected) -- in the input ids, hence through VertexParent
    in the final table *)
Theorem opp_shared_edge_opposed faces t a b :
  ct_create faces = Some t -> opp_at (ct_opp t) a = Some b ->
  let V := vtx (c2v_of_faces faces) in
  let P := fun c => vertex_parent t (vtx (ct_c2v t) c) in
  (V (next_c a) = V (prev_c b) /\ V (prev_c a) = V (next_c b) /\ V a <> V b) /\
  (P (next_c a) = P (prev_c b) /\ P (prev_c a) = P (next_c b) /\ P a <> P b).
Proof.
  intros H E V P. destruct (opp_symmetric _ _ _ _ H E) as (_ & _ & La & Lb).
  destruct (ct_create_opp_ok _ _ H) as [L K]. destruct (K _ _ E) as (_ & _ & E1 & E2 & E3 & _).
  split; [auto|]. unfold P.
  rewrite (proj1 (vertex_parent_maps_back _ _ (next_c a) H ltac:(auto using next_lt))).
  rewrite (proj1 (vertex_parent_maps_back _ _ (prev_c a) H ltac:(auto using prev_lt))).
  rewrite (proj1 (vertex_parent_maps_back _ _ (next_c b) H ltac:(auto using next_lt))).
  rewrite (proj1 (vertex_parent_maps_back _ _ (prev_c b) H ltac:(auto using prev_lt))).
  rewrite (proj1 (vertex_parent_maps_back _ _ a H La)).
  rewrite (proj1 (vertex_parent_maps_back _ _ b H Lb)).
  auto.
Qed.

(** clause 2: corners of degenerate faces have no opposite (and, by symmetry, are nobody's opposite) *)
Theorem degenerate_unlinked faces t c :
  ct_create faces = Some t ->
  is_degenerated (c2v_of_faces faces) (c / 3) = true ->
  opp_at (ct_opp t) c = None /\ forall a, opp_at (ct_opp t) a <> Some c.
Proof.
  intros H D. destruct (ct_create_opp_ok _ _ H) as [L K].
  assert (N : opp_at (ct_opp t) c = None).
  { destruct (opp_at (ct_opp t) c) eqn:E; auto. destruct (K _ _ E) as (_&_&_&_&_&D'). congruence. }
  split; auto. intros a E. destruct (K _ _ E) as (E' & _). congruence.
Qed.
(** * Orbits of an injective partial map on [0,n): the termination measure of every swing loop *)
Fixpoint oiter (f : nat -> option nat) (k : nat) (x : option nat) : option nat :=
  match k with
  | O => x
  | S k' => match oiter f k' x with Some y => f y | None => None end
  end.

Lemma oiter_shift f k x : oiter f (S k) (Some x) = oiter f k (f x).
Proof.
  induction k; cbn [oiter]; auto. cbn [oiter] in IHk. rewrite IHk. auto.
Qed.

Lemma NoDup_map_seq (g : nat -> nat) m :
  (forall i j, i < j < m -> g i <> g j) -> NoDup (map g (seq 0 m)).
Proof.
  induction m; intros H; [constructor|].
  rewrite seq_S, map_app. simpl. apply NoDup_snoc.
  - apply IHm. intros; apply H; lia.
  - intros I. apply in_map_iff in I as (i & E & I). apply in_seq in I. apply (H i m); auto. lia.
Qed.

Section Orbit.
Variable f : nat -> option nat.
Variable n : nat.
Hypothesis f_rng : forall a b, f a = Some b -> b < n.
Hypothesis f_inj : forall a a' b, f a = Some b -> f a' = Some b -> a = a'.

Lemma no_early_repeat c i : forall d x,
  oiter f i (Some c) = Some x -> oiter f (i + d) (Some c) = Some x -> oiter f d (Some c) = Some c.
Proof.
  induction i; intros d x H1 H2; simpl in *.
  - congruence.
  - destruct (oiter f i (Some c)) as [y|] eqn:E1; [|discriminate].
    destruct (oiter f (i + d) (Some c)) as [y'|] eqn:E2; [|discriminate].
    assert (y = y') by (eapply f_inj; eauto). subst y'. eapply IHi; eauto.
Qed.

Definition running (c k : nat) : Prop :=
  (forall i, i <= k -> oiter f i (Some c) <> None) /\
  (forall i, 1 <= i <= k -> oiter f i (Some c) <> Some c).

Lemma running_0 c : running c 0.
Proof. split; intros i Hi. - replace i with 0 by lia. simpl. discriminate. - lia. Qed.

Lemma running_S c k cur nx :
  running c k -> oiter f k (Some c) = Some cur -> f cur = Some nx -> nx <> c -> running c (S k).
Proof.
  intros [R1 R2] E F N. split; intros i Hi.
  - destruct (Nat.eq_dec i (S k)); [subst; cbn [oiter]; rewrite E, F; discriminate|apply R1; lia].
  - destruct (Nat.eq_dec i (S k)); [subst; cbn [oiter]; rewrite E, F; congruence|apply R2; lia].
Qed.

Lemma running_bound c k : c < n -> running c k -> k < n.
Proof.
  intros Hc [R1 R2].
  set (g := fun i => match oiter f i (Some c) with Some y => y | None => 0 end).
  assert (ND : NoDup (map g (seq 0 (S k)))).
  { apply NoDup_map_seq. intros i j Hij E. unfold g in E.
    destruct (oiter f i (Some c)) as [x|] eqn:Ei; [|apply (R1 i); auto; lia].
    destruct (oiter f j (Some c)) as [y|] eqn:Ej; [|apply (R1 j); auto; lia].
    subst y. replace j with (i + (j - i)) in Ej by lia.
    apply (R2 (j - i)); [lia|]. exact (no_early_repeat c i (j - i) x Ei Ej). }
  assert (IN : incl (map g (seq 0 (S k))) (seq 0 n)).
  { intros y I. apply in_map_iff in I as (i & E & I). apply in_seq in I. apply in_seq. split; [lia|]. simpl.
    unfold g in E. destruct i.
    - simpl in E. lia.
    - cbn [oiter] in E. destruct (oiter f i (Some c)) as [z|] eqn:Ez.
      + destruct (f z) eqn:Fz; [apply f_rng in Fz; lia|lia].
      + lia. }
  apply NoDup_incl_length in IN; auto. rewrite map_length, !seq_length in IN. lia.
Qed.
End Orbit.

(** a chain that is open on one side never cycles on the other *)
Lemma open_no_cycle (sl sr : nat -> option nat) :
  (forall a b, sr a = Some b -> sl b = Some a) ->
  forall m c, oiter sl m (Some c) = None -> forall i, 1 <= i -> oiter sr i (Some c) <> Some c.
Proof.
  intros INV. induction m; intros c H i Hi E; [simpl in H; discriminate|].
  destruct i; [lia|]. cbn [oiter] in E.
  destruct (oiter sr i (Some c)) as [y|] eqn:Ey; [|discriminate].
  pose proof (INV _ _ E) as Sl. rewrite oiter_shift, Sl in H.
  destruct i.
  - simpl in Ey. inversion Ey; subst y. apply (IHm c H 1); auto.
  - apply (IHm y H (S (S i))); [lia|]. rewrite oiter_shift, E. cbn [oiter]. cbn [oiter] in Ey. exact Ey.
Qed.

(** number of visited corners: the measure of the BreakNonManifoldEdges fix-point *)
Definition cnt (l : list bool) : nat := length (filter (fun b => b) l).
Lemma cnt_le l : cnt l <= length l.
Proof. unfold cnt. induction l as [|[] l]; simpl; lia. Qed.
Lemma cnt_upd l i : i < length l ->
  cnt (upd l i true) = cnt l + (if nth i l false then 0 else 1).
Proof.
  unfold cnt. revert i; induction l as [|b l]; intros i Hi; simpl in *; [lia|].
  destruct i; simpl.
  - destruct b; simpl; lia.
  - destruct b; simpl; rewrite IHl by lia; lia.
Qed.
Lemma cnt_upd_ge l i : cnt l <= cnt (upd l i true).
Proof.
  destruct (lt_dec i (length l)).
  - rewrite cnt_upd by auto. lia.
  - replace (upd l i true) with l; auto.
    clear -n. revert i n; induction l; destruct i; simpl; intros; auto; try lia. f_equal. apply IHl. lia.
Qed.

Section Loops.
Variables (c2v : list nat) (opp : list (option nat)) (nf : nat).
Hypothesis Hlen : length c2v = 3 * nf.
Hypothesis OK : opp_ok c2v opp.
Let n := length c2v.
Let sl := swing_left opp.
Let sr := swing_right opp.

Lemma sl_rng a b : sl a = Some b -> b < n.
Proof. intros H. apply (swing_left_ok _ _ _ Hlen OK) in H. tauto. Qed.
Lemma sr_rng a b : sr a = Some b -> b < n.
Proof. intros H. apply (swing_right_ok _ _ _ Hlen OK) in H. tauto. Qed.
Lemma sl_sr a b : sl a = Some b -> sr b = Some a.
Proof. intros H. apply (swing_left_ok _ _ _ Hlen OK) in H. tauto. Qed.
Lemma sr_sl a b : sr a = Some b -> sl b = Some a.
Proof. intros H. apply (swing_right_ok _ _ _ Hlen OK) in H. tauto. Qed.
Lemma sl_inj a a' b : sl a = Some b -> sl a' = Some b -> a = a'.
Proof. intros H1 H2. apply sl_sr in H1, H2. congruence. Qed.
Lemma sr_inj a a' b : sr a = Some b -> sr a' = Some b -> a = a'.
Proof. intros H1 H2. apply sr_sl in H1, H2. congruence. Qed.

Lemma nm_leftmost_total visited c : c < n -> forall fuel k cur,
  running sl c k -> oiter sl k (Some c) = Some cur -> n < fuel + k ->
  nth cur visited false = false -> cur < n ->
  exists first, nm_leftmost fuel opp visited c cur = Some first /\ nth first visited false = false /\ first < n.
Proof.
  intros Hc. induction fuel; intros k cur R E F V L.
  - pose proof (running_bound sl n sl_rng sl_inj c k Hc R). lia.
  - cbn [nm_leftmost]. fold (sl cur). destruct (sl cur) as [nx|] eqn:Sw; [|eauto].
    destruct ((nx =? c) || nth nx visited false) eqn:B; [eauto|].
    apply orb_false_iff in B as [B1 B2]. apply Nat.eqb_neq in B1.
    apply (IHfuel (S k) nx); auto.
    + exact (running_S sl n sl_rng sl_inj c k cur nx R E Sw B1).
    + cbn [oiter]. rewrite E. auto.
    + lia.
    + eapply sl_rng; eauto.
Qed.

Lemma nm_walk_total first : first < n -> forall fuel k cur visited sinks,
  running sr first k -> oiter sr k (Some first) = Some cur -> n < fuel + k ->
  exists r, nm_walk fuel c2v opp visited sinks first cur = Some r.
Proof.
  intros Hc. induction fuel; intros k cur visited sinks R E F.
  - pose proof (running_bound sr n sr_rng sr_inj first k Hc R). lia.
  - cbn [nm_walk]. destruct (find_nm _ _ _); [eauto|].
    fold (sr cur). destruct (sr cur) as [nx|] eqn:Sw; [|eauto].
    destruct (nx =? first) eqn:B; [eauto|]. apply Nat.eqb_neq in B.
    apply (IHfuel (S k) nx); auto.
    + exact (running_S sr n sr_rng sr_inj first k cur nx R E Sw B).
    + cbn [oiter]. rewrite E. auto.
    + lia.
Qed.

Lemma vc_left_total nm v c : c < n -> forall fuel k act s,
  running sl c k -> oiter sl k (Some c) = Some act -> n < fuel + k ->
  exists s' fl, vc_left fuel opp nm v c act s = Some (s', fl) /\
                (fl = false -> exists m, oiter sl m (Some c) = None).
Proof.
  intros Hc. induction fuel; intros k act s R E F.
  - pose proof (running_bound sl n sl_rng sl_inj c k Hc R). lia.
  - cbn [vc_left]. fold (sl act). destruct (sl act) as [a'|] eqn:Sw.
    + destruct (a' =? c) eqn:B.
      * eexists _, _. split; [reflexivity|discriminate].
      * apply Nat.eqb_neq in B. apply (IHfuel (S k) a'); auto.
        -- exact (running_S sl n sl_rng sl_inj c k act a' R E Sw B).
        -- cbn [oiter]. rewrite E. auto.
        -- lia.
    + eexists _, _. split; [reflexivity|]. intros _. exists (S k). cbn [oiter]. rewrite E. auto.
Qed.

Lemma vc_right_total nm v c : c < n -> (exists m, oiter sl m (Some c) = None) ->
  forall fuel k act s,
  (forall i, i < k -> oiter sr i (Some c) <> None) -> oiter sr k (Some c) = act -> n < fuel + k ->
  exists s', vc_right fuel opp nm v act s = Some s'.
Proof.
  intros Hc [m Hm]. pose proof (open_no_cycle sl sr sr_sl m c Hm) as NC.
  induction fuel; intros k act s R E F.
  - destruct act as [a|]; [|simpl; eauto].
    assert (RR : running sr c k).
    { split; [|intros; apply NC; lia]. intros i Hi. destruct (Nat.eq_dec i k); [subst; congruence|apply R; lia]. }
    pose proof (running_bound sr n sr_rng sr_inj c k Hc RR). lia.
  - destruct act as [a|]; [|simpl; eauto]. cbn [vc_right].
    apply (IHfuel (S k)).
    + intros i Hi. destruct (Nat.eq_dec i k); [subst; congruence|apply R; lia].
    + cbn [oiter]. rewrite E. auto.
    + lia.
Qed.

Lemma vc_corner_total s c : c < n -> length opp = n -> exists s', vc_corner opp (Some s) c = Some s'.
Proof.
  intros Hc Lo. unfold vc_corner. destruct (nth c (vs_visc s) false); [eauto|].
  match goal with |- context [vc_left ?fu opp ?nm ?v c c ?s2] =>
    destruct (vc_left_total nm v c Hc fu 0 c s2 (running_0 sl n sl_rng sl_inj c) eq_refl ltac:(lia)) as (s3 & fl & E & O) end.
  rewrite E. destruct fl; [eauto|].
  match goal with |- context [vc_right ?fu opp ?nm ?v ?a s3] =>
    apply (vc_right_total nm v c Hc (O eq_refl) fu 1 a s3) end.
  - intros i Hi. replace i with 0 by lia. simpl. discriminate.
  - reflexivity.
  - lia.
Qed.
End Loops.

Lemma nm_walk_cnt c2v fuel : forall opp visited sinks first cur opp' visited' u,
  nm_walk fuel c2v opp visited sinks first cur = Some (opp', visited', u) ->
  length visited' = length visited /\ cnt visited <= cnt visited' /\
  (cur < length visited -> nth cur visited false = false -> cnt visited < cnt visited').
Proof.
  induction fuel; intros opp visited sinks first cur opp' visited' u H; [discriminate|].
  cbn [nm_walk] in H.
  assert (B : length (upd visited cur true) = length visited /\ cnt visited <= cnt (upd visited cur true) /\
              (cur < length visited -> nth cur visited false = false -> cnt visited < cnt (upd visited cur true))).
  { split; [apply upd_length|split; [apply cnt_upd_ge|]]. intros L V. rewrite cnt_upd, V by auto. lia. }
  destruct (find_nm _ _ _); [inversion H; subst; auto|].
  destruct (swing_right opp cur) as [nx|]; [|inversion H; subst; auto].
  destruct (nx =? first); [inversion H; subst; auto|].
  apply IHfuel in H. destruct H as (H1 & H2 & _). destruct B as (B1 & B2 & B3).
  split; [congruence|split; [lia|]]. intros L V. specialize (B3 L V). lia.
Qed.

Lemma nm_corner_total c2v nf opp visited u c :
  length c2v = 3 * nf -> opp_ok c2v opp -> length visited = length c2v -> c < length c2v ->
  exists opp' visited' u', nm_corner c2v (Some (opp, visited, u)) c = Some (opp', visited', u') /\
    opp_ok c2v opp' /\ length visited' = length c2v /\ cnt visited <= cnt visited' /\
    (u' = true -> u = true \/ cnt visited < cnt visited').
Proof.
  intros Hlen OK Lv Hc. pose proof OK as [Lo _]. unfold nm_corner.
  destruct (nth c visited false) eqn:V.
  - exists opp, visited, u. split; [reflexivity|]. split; [exact OK|]. split; [exact Lv|]. split; auto.
  - destruct (nm_leftmost_total c2v opp nf Hlen OK visited c Hc (S (length opp)) 0 c
               (running_0 _ _ (sl_rng c2v opp nf Hlen OK) (sl_inj c2v opp nf Hlen OK) c) eq_refl ltac:(lia) V Hc)
      as (first & E1 & V1 & L1).
    rewrite E1.
    destruct (nm_walk_total c2v opp nf Hlen OK first L1 (S (length opp)) 0 first visited []
               (running_0 _ _ (sr_rng c2v opp nf Hlen OK) (sr_inj c2v opp nf Hlen OK) first) eq_refl ltac:(lia))
      as ([[opp' visited'] w] & E2).
    rewrite E2. exists opp', visited', (u || w).
    pose proof (nm_walk_sub _ _ _ _ _ _ _ _ _ _ OK E2) as Sb.
    destruct (nm_walk_cnt _ _ _ _ _ _ _ _ _ _ E2) as (C1 & C2 & C3).
    split; [reflexivity|]. split; [eapply sub_opp_ok; eauto|]. split; [congruence|]. split; [exact C2|].
    intros _. right. apply C3; auto. lia.
Qed.

Lemma nm_fold_total c2v nf : length c2v = 3 * nf -> forall l, Forall (fun c => c < length c2v) l ->
  forall opp visited u, opp_ok c2v opp -> length visited = length c2v ->
  exists opp' visited' u', fold_left (nm_corner c2v) l (Some (opp, visited, u)) = Some (opp', visited', u') /\
    opp_ok c2v opp' /\ length visited' = length c2v /\ cnt visited <= cnt visited' /\
    (u' = true -> u = true \/ cnt visited < cnt visited').
Proof.
  intros Hlen. induction l; intros Fa opp visited u OK Lv; cbn [fold_left].
  - exists opp, visited, u. split; [reflexivity|]. split; [exact OK|]. split; [exact Lv|]. split; auto.
  - inversion Fa; subst.
    destruct (nm_corner_total c2v nf opp visited u a Hlen OK Lv H1) as (o1 & v1 & u1 & E & OK1 & L1 & C1 & U1).
    rewrite E. destruct (IHl H2 o1 v1 u1 OK1 L1) as (o2 & v2 & u2 & E2 & OK2 & L2 & C2 & U2).
    exists o2, v2, u2. split; [exact E2|]. split; [exact OK2|]. split; [exact L2|]. split; [lia|].
    intros T. destruct (U2 T) as [T1|T1]; [destruct (U1 T1)|]; auto; right; lia.
Qed.

Lemma nm_rounds_total c2v nf : length c2v = 3 * nf -> forall fuel opp visited,
  opp_ok c2v opp -> length visited = length c2v -> length c2v - cnt visited < fuel ->
  exists opp', nm_rounds fuel c2v opp visited = Some opp'.
Proof.
  intros Hlen. induction fuel; intros opp visited OK Lv F; [lia|].
  cbn [nm_rounds]. unfold nm_pass.
  destruct (nm_fold_total c2v nf Hlen (seq 0 (length opp))) with (opp := opp) (visited := visited) (u := false)
    as (o1 & v1 & u1 & E & OK1 & L1 & C1 & U1); auto.
  { apply Forall_forall. intros x I. apply in_seq in I. destruct OK as [Lo _]. lia. }
  rewrite E. destruct u1; [|eauto].
  destruct (U1 eq_refl) as [?|C]; [discriminate|].
  apply IHfuel; auto. pose proof (cnt_le v1). lia.
Qed.

(** break_terminates: the fix-point loop of BreakNonManifoldEdges needs at most one round per corner
    (every round that changes the connectivity visits a corner never visited before) *)
Theorem break_terminates c2v nf opp :
  length c2v = 3 * nf -> opp_ok c2v opp -> exists opp', break_non_manifold_edges c2v opp = Some opp'.
Proof.
  intros Hlen OK. unfold break_non_manifold_edges. destruct OK as [Lo K].
  apply nm_rounds_total with nf; auto.
  - split; auto.
  - rewrite repeat_length; auto.
  - lia.
Qed.

Lemma vc_fold_none' opp l : fold_left (vc_face opp) l None = None.
Proof. induction l; simpl; auto. Qed.

Lemma vc_face_total c2v nf opp s f :
  length c2v = 3 * nf -> opp_ok c2v opp -> f < nf -> exists s', vc_face opp (Some s) f = Some s'.
Proof.
  intros Hlen OK Hf. pose proof OK as [Lo _]. unfold vc_face. destruct (is_degenerated (vs_c2v s) f); [eauto|].
  destruct (vc_corner_total c2v opp nf Hlen OK s (3 * f) ltac:(lia) Lo) as (s1 & E1). rewrite E1.
  destruct (vc_corner_total c2v opp nf Hlen OK s1 (3 * f + 1) ltac:(lia) Lo) as (s2 & E2). rewrite E2.
  apply (vc_corner_total c2v opp nf Hlen OK s2 (3 * f + 2) ltac:(lia) Lo).
Qed.

(** swing_terminates (ComputeVertexCorners): no fan walk runs out of fuel *)
Theorem compute_vertex_corners_total c2v nf opp nv :
  length c2v = 3 * nf -> opp_ok c2v opp -> exists s, compute_vertex_corners c2v opp nv nf = Some s.
Proof.
  intros Hlen OK. unfold compute_vertex_corners.
  generalize (mk_vc c2v (repeat None nv) [] (repeat false nv) (repeat false (length c2v))).
  assert (G : forall k, k <= nf -> forall s, exists s', fold_left (vc_face opp) (seq 0 k) (Some s) = Some s').
  { induction k; intros Hk s; [simpl; eauto|].
    rewrite seq_S, fold_left_app. destruct (IHk ltac:(lia) s) as (s1 & E). rewrite E. cbn [fold_left].
    apply (vc_face_total c2v nf opp s1 (0 + k) Hlen OK). lia. }
  apply G; auto.
Qed.

(** Create never runs out of fuel: every loop of the model terminates within its measure *)
Theorem ct_create_total faces : exists t, ct_create faces = Some t.
Proof.
  unfold ct_create. rewrite (compute_opposite_flat_refines _ _ (c2v_of_faces_length faces)).
  set (c2v := c2v_of_faces faces).
  pose proof (c2v_of_faces_length faces) as Hlen. fold c2v in Hlen.
  destruct (compute_opposite c2v (length faces)) as [[opp0 pend] nd] eqn:E.
  pose proof (compute_opposite_ok _ _ _ _ _ Hlen E) as OK0.
  destruct (break_terminates c2v (length faces) opp0 Hlen OK0) as (opp1 & B). rewrite B.
  destruct (break_preserves _ _ _ OK0 B) as (OK1 & _).
  destruct (compute_vertex_corners_total c2v (length faces) opp1 (num_vertices_of c2v) Hlen OK1) as (s & V).
  rewrite V. eauto.
Qed.

(** * Clause 4: one fan per vertex *)

(** [reach f l x]: x is obtained from l by iterating f *)
Definition reach (f : nat -> option nat) (l x : nat) : Prop := exists k, oiter f k (Some l) = Some x.
Lemma reach_refl f l : reach f l l.
Proof. exists 0. reflexivity. Qed.
Lemma reach_step f l x y : reach f l x -> f x = Some y -> reach f l y.
Proof. intros [k E] F. exists (S k). cbn [oiter]. rewrite E. auto. Qed.

(** a walk a = x0, x1 = f x0, ..., z *)
Inductive path (f : nat -> option nat) : nat -> list nat -> nat -> Prop :=
| path_one a : path f a [a] a
| path_cons a a' r z : f a = Some a' -> path f a' r z -> path f a (a :: r) z.

Lemma path_in_first f a A z : path f a A z -> In a A.
Proof. destruct 1; simpl; auto. Qed.
Lemma path_in_last f a A z : path f a A z -> In z A.
Proof. induction 1; simpl; auto. Qed.
Lemma path_succ f a A z x : path f a A z -> In x A -> x = z \/ exists y, f x = Some y /\ In y A.
Proof.
  induction 1; simpl; intros I.
  - destruct I as [<-|[]]; auto.
  - destruct I as [<-|I].
    + right. exists a'. split; auto. right. eapply path_in_first; eauto.
    + destruct (IHpath I) as [?|(y & ? & ?)]; auto. right. exists y; auto.
Qed.
Lemma path_pred f a A z x : path f a A z -> In x A -> x = a \/ exists w, f w = Some x /\ In w A.
Proof.
  induction 1; simpl; intros I.
  - destruct I as [<-|[]]; auto.
  - destruct I as [<-|I]; auto.
    destruct (IHpath I) as [->|(w & ? & ?)]; right; [exists a|exists w]; auto.
Qed.
Lemma path_forall f (P : nat -> Prop) a A z :
  path f a A z -> P a -> (forall x y, P x -> f x = Some y -> P y) -> forall x, In x A -> P x.
Proof.
  induction 1; simpl; intros Pa St x I.
  - destruct I as [<-|[]]; auto.
  - destruct I as [<-|I]; auto. apply IHpath; eauto.
Qed.
(** walking back from the end with the inverse map reaches every element *)
Lemma path_reach_back f g a A z :
  (forall x y, f x = Some y -> g y = Some x) -> path f a A z -> forall x, In x A -> reach g z x.
Proof.
  intros INV. induction 1; simpl; intros x I.
  - destruct I as [<-|[]]. apply reach_refl.
  - destruct I as [<-|I]; auto.
    eapply reach_step; [apply IHpath; eapply path_in_first; eauto|]. auto.
Qed.
Lemma path_reach_fwd f l a A z :
  path f a A z -> reach f l a -> forall x, In x A -> reach f l x.
Proof.
  induction 1; simpl; intros R x I.
  - destruct I as [<-|[]]; auto.
  - destruct I as [<-|I]; auto. apply IHpath; auto. eapply reach_step; eauto.
Qed.

(** marking a list of corners *)
Definition marks (nm : bool) (v : nat) (b : bool) (A : list nat) (s : vc_state) : vc_state :=
  fold_left (fun s a => vc_mark nm v a b s) A s.

Lemma upd_upd {A} (l : list A) i x y : upd (upd l i x) i y = upd l i y.
Proof. revert i; induction l; destruct i; simpl; auto. f_equal; auto. Qed.

Lemma marks_par nm v b A : forall s, vs_par (marks nm v b A s) = vs_par s.
Proof. induction A; simpl; intros; auto. unfold marks in *. simpl. rewrite IHA. auto. Qed.
Lemma marks_visv nm v b A : forall s, vs_visv (marks nm v b A s) = vs_visv s.
Proof. induction A; simpl; intros; auto. unfold marks in *. simpl. rewrite IHA. auto. Qed.
Lemma marks_vcorn_false nm v A : forall s, vs_vcorn (marks nm v false A s) = vs_vcorn s.
Proof. induction A; simpl; intros; auto. unfold marks in *. simpl. rewrite IHA. auto. Qed.
Lemma marks_vcorn_true nm v f a A z : path f a A z ->
  forall s, vs_vcorn (marks nm v true A s) = upd (vs_vcorn s) v (Some z).
Proof.
  induction 1; intros s; unfold marks in *; cbn [fold_left].
  - reflexivity.
  - rewrite IHpath. simpl. apply upd_upd.
Qed.
Lemma marks_visc_len nm v b A : forall s, length (vs_visc (marks nm v b A s)) = length (vs_visc s).
Proof. induction A; simpl; intros; auto. unfold marks in *. simpl. rewrite IHA. simpl. apply upd_length. Qed.
Lemma marks_visc nm v b A : forall s x, Forall (fun a => a < length (vs_visc s)) A ->
  (nth x (vs_visc (marks nm v b A s)) false = true <-> nth x (vs_visc s) false = true \/ In x A).
Proof.
  induction A; intros s x Fa; unfold marks in *; cbn [fold_left].
  - simpl. tauto.
  - inversion Fa; subst. rewrite IHA.
    + simpl. rewrite nth_upd. replace (a <? length (vs_visc s)) with true by lia. rewrite andb_true_r.
      destruct (x =? a) eqn:E.
      * apply Nat.eqb_eq in E. subst. tauto.
      * apply Nat.eqb_neq in E. intuition.
    + simpl. rewrite upd_length. auto.
Qed.
Lemma marks_c2v_len nm v b A : forall s, length (vs_c2v (marks nm v b A s)) = length (vs_c2v s).
Proof.
  induction A; simpl; intros; auto. unfold marks in *. simpl. rewrite IHA. simpl.
  destruct nm; rewrite ?upd_length; auto.
Qed.
Lemma marks_c2v_out nm v b A : forall s x, ~ In x A \/ nm = false ->
  vtx (vs_c2v (marks nm v b A s)) x = vtx (vs_c2v s) x.
Proof.
  induction A; intros s x H; unfold marks in *; cbn [fold_left]; auto.
  rewrite IHA.
  - simpl. destruct nm; auto. unfold vtx. apply nth_upd_neq. destruct H as [H|H]; [|discriminate].
    simpl in H. intro; subst; tauto.
  - simpl in H. tauto.
Qed.
Lemma marks_c2v_in v b A : forall s x, Forall (fun a => a < length (vs_c2v s)) A -> In x A ->
  vtx (vs_c2v (marks true v b A s)) x = v.
Proof.
  induction A; intros s x Fa I; unfold marks in *; cbn [fold_left]; [destruct I|].
  inversion Fa; subst.
  destruct (in_dec Nat.eq_dec x A) as [I'|I'].
  - apply IHA; auto. simpl. rewrite upd_length. auto.
  - destruct I as [<-|I]; [|tauto]. fold (marks true v b A (vc_mark true v a b s)).
    rewrite marks_c2v_out by auto. simpl. unfold vtx. apply nth_upd_eq. auto.
Qed.

Section Fan.
Variables (c2v0 : list nat) (opp : list (option nat)) (nf n0 : nat).
Hypothesis Hlen : length c2v0 = 3 * nf.
Hypothesis OK : opp_ok c2v0 opp.
Hypothesis Hn0 : forall x, x < length c2v0 -> vtx c2v0 x < n0.
Let n := length c2v0.
Let sl := swing_left opp.
Let sr := swing_right opp.

Lemma vc_left_path nm v c fuel : forall act s s' fl,
  vc_left fuel opp nm v c act s = Some (s', fl) ->
  exists A z, path sl act A z /\ s' = marks nm v true A s /\ sl z = (if fl then Some c else None).
Proof.
  induction fuel; intros act s s' fl H; [discriminate|]. cbn [vc_left] in H. fold (sl act) in H.
  destruct (sl act) as [a'|] eqn:E.
  - destruct (a' =? c) eqn:B.
    + apply Nat.eqb_eq in B; subst a'. inversion H; subst.
      exists [act], act. split; [constructor|]. split; auto.
    + apply IHfuel in H as (A & z & P & -> & Z).
      exists (act :: A), z. split; [econstructor; eauto|]. split; auto.
  - inversion H; subst. exists [act], act. split; [constructor|]. split; auto.
Qed.

Lemma vc_right_path nm v fuel : forall act s s',
  vc_right fuel opp nm v act s = Some s' ->
  exists B, s' = marks nm v false B s /\
    match act with None => B = [] | Some a => exists z, path sr a B z /\ sr z = None end.
Proof.
  induction fuel; intros act s s' H.
  - destruct act; simpl in H; [discriminate|]. inversion H; subst. exists []. auto.
  - destruct act as [a|]; cbn [vc_right] in H; [|inversion H; subst; exists []; auto].
    fold (sr a) in H. apply IHfuel in H as (B & -> & M).
    exists (a :: B). split; auto.
    destruct (sr a) as [a2|] eqn:E.
    + destruct M as (z & P & Z). exists z. split; auto. econstructor; eauto.
    + subst B. exists a. split; [constructor|auto].
Qed.

Lemma vc_corner_shape s c s' :
  nth c (vs_visc s) false = false ->
  vc_corner opp (Some s) c = Some s' ->
  let v0 := vtx (vs_c2v s) c in
  let nm := nth v0 (vs_visv s) false in
  let v := if nm then length (vs_vcorn s) else v0 in
  let vcorn1 := if nm then vs_vcorn s ++ [None] else vs_vcorn s in
  let par1 := if nm then vs_par s ++ [v0] else vs_par s in
  let visv1 := if nm then vs_visv s ++ [false] else vs_visv s in
  exists A B z,
    path sl c A z /\
    ((sl z = Some c /\ B = []) \/
     (sl z = None /\ match sr c with None => B = [] | Some a => exists zb, path sr a B zb /\ sr zb = None end)) /\
    s' = marks nm v false B (marks nm v true A (mk_vc (vs_c2v s) vcorn1 par1 (upd visv1 v true) (vs_visc s))).
Proof.
  intros Vc H. cbv zeta. unfold vc_corner in H. rewrite Vc in H.
  set (v0 := vtx (vs_c2v s) c) in *. set (nm := nth v0 (vs_visv s) false) in *.
  set (v := if nm then length (vs_vcorn s) else v0) in *.
  match type of H with context [vc_left ?X opp nm v c c ?Y] => set (s2 := Y) in *; set (fu := X) in * end.
  assert (E2 : s2 = mk_vc (vs_c2v s) (if nm then vs_vcorn s ++ [None] else vs_vcorn s)
                       (if nm then vs_par s ++ [v0] else vs_par s)
                       (upd (if nm then vs_visv s ++ [false] else vs_visv s) v true) (vs_visc s)).
  { unfold s2. destruct nm; reflexivity. }
  rewrite <- E2. clearbody s2.
  destruct (vc_left fu opp nm v c c s2) as [[s3 fl]|] eqn:L; [|discriminate].
  apply vc_left_path in L as (A & z & P & -> & Z).
  destruct fl.
  - inversion H; subst. exists A, [], z. split; auto.
  - apply vc_right_path in H as (B & -> & M). exists A, B, z. split; auto.
Qed.

Record fan_inv (s : vc_state) : Prop := {
  fi_l : forall x y, nth x (vs_visc s) false = true -> sl x = Some y -> nth y (vs_visc s) false = true;
  fi_r : forall x y, nth x (vs_visc s) false = true -> sr x = Some y -> nth y (vs_visc s) false = true;
  fi_rep : forall x, nth x (vs_visc s) false = true ->
     exists l, nth (vtx (vs_c2v s) x) (vs_vcorn s) None = Some l /\ reach sr l x;
  fi_corn : forall v l, nth v (vs_vcorn s) None = Some l ->
     nth l (vs_visc s) false = true /\ vtx (vs_c2v s) l = v /\
     (sl l = None \/ exists k, 1 <= k /\ oiter sr k (Some l) = Some l);
  fi_visv : forall x, nth x (vs_visc s) false = true -> nth (vtx (vs_c2v s) x) (vs_visv s) false = true;
  fi_same : forall x y, nth x (vs_visc s) false = true -> sr x = Some y -> vtx (vs_c2v s) y = vtx (vs_c2v s) x;
  fi_iso : forall v, nth v (vs_visv s) false = true <-> nth v (vs_vcorn s) None <> None
}.

Lemma nth_app_upd {T} (l : list T) (d : T) v x w :
  w <> v -> v = length l -> nth w (upd (l ++ [d]) v x) d = nth w l d.
Proof.
  intros N E. rewrite nth_upd_neq by auto.
  destruct (lt_dec w (length l)).
  - apply app_nth1; auto.
  - rewrite !nth_overflow; auto; [lia|]. rewrite app_length. simpl. lia.
Qed.

Lemma fan_corner_inv s c s' :
  vc_inv c2v0 n0 s -> fan_inv s -> c < n -> is_degenerated c2v0 (c / 3) = false ->
  vc_corner opp (Some s) c = Some s' ->
  fan_inv s' /\ nth c (vs_visc s') false = true /\
  (forall x, nth x (vs_visc s) false = true -> nth x (vs_visc s') false = true).
Proof.
  intros I Fi Hc Hd H.
  destruct (nth c (vs_visc s) false) eqn:Vc.
  { unfold vc_corner in H. rewrite Vc in H. inversion H; subst. auto. }
  destruct (vc_corner_shape s c s' Vc H) as (A & B & z & PA & PB & ES).
  pose proof I as [I1 I2 I3 I4 I5 I6 I7 I8 I9].
  pose proof Fi as [F1 F2 F3 F4 F5 F6 F7].
  pose proof (I6 _ Vc) as Ev0. rewrite Ev0 in ES.
  set (v0 := vtx c2v0 c) in *.
  assert (Hv0 : v0 < n0) by (apply Hn0; auto).
  set (nm := nth v0 (vs_visv s) false) in *.
  set (v := if nm then length (vs_vcorn s) else v0) in *.
  set (vcorn1 := if nm then vs_vcorn s ++ [None] else vs_vcorn s) in *.
  set (par1 := if nm then vs_par s ++ [v0] else vs_par s) in *.
  set (visv1 := if nm then vs_visv s ++ [false] else vs_visv s) in *.
  (* the fan of c is unvisited, in range, and lies on the input vertex v0 *)
  set (P := fun x => nth x (vs_visc s) false = false /\ x < n /\ vtx c2v0 x = v0).
  assert (Pc : P c) by (unfold P; auto).
  assert (Pl : forall x y, P x -> sl x = Some y -> P y).
  { intros x y (Px1 & Px2 & Px3) E. destruct (swing_left_ok _ _ _ Hlen OK _ _ E) as (L & V & D & R).
    repeat split; auto; [|congruence].
    destruct (nth y (vs_visc s) false) eqn:Vy; auto. pose proof (F2 _ _ Vy R). congruence. }
  assert (Pr : forall x y, P x -> sr x = Some y -> P y).
  { intros x y (Px1 & Px2 & Px3) E. destruct (swing_right_ok _ _ _ Hlen OK _ _ E) as (L & V & D & R).
    repeat split; auto; [|congruence].
    destruct (nth y (vs_visc s) false) eqn:Vy; auto. pose proof (F1 _ _ Vy R). congruence. }
  assert (PAll : forall x, In x A -> P x) by (apply (path_forall sl P c A z PA Pc Pl)).
  assert (PBll : forall x, In x B -> P x).
  { destruct PB as [[_ ->]|[_ PB]]; [intros ? []|].
    destruct (sr c) as [a|] eqn:Ea; [|subst B; intros ? []].
    destruct PB as (zb & PB & _). apply (path_forall sr P a B zb PB); auto. apply (Pr c); auto. }
  set (N := fun x => In x A \/ In x B).
  assert (PN : forall x, N x -> P x) by (intros x [?|?]; auto).
  assert (oldN : forall x, nth x (vs_visc s) false = true -> ~ N x).
  { intros x Vx Nx. apply PN in Nx. destruct Nx. congruence. }
  (* closure of the new set under both swings *)
  assert (cA : In c A) by (eapply path_in_first; eauto).
  assert (zA : In z A) by (eapply path_in_last; eauto).
  assert (Cl : forall x y, N x -> sl x = Some y -> N y).
  { intros x y [Ix|Ix] E.
    - destruct (path_succ _ _ _ _ _ PA Ix) as [->|(y' & E' & Iy)].
      + destruct PB as [[Z _]|[Z _]]; [|congruence]. left. congruence.
      + left. congruence.
    - destruct PB as [[_ ->]|[_ PB]]; [destruct Ix|].
      destruct (sr c) as [a|] eqn:Ea; [|subst B; destruct Ix].
      destruct PB as (zb & PB & _).
      destruct (path_pred _ _ _ _ _ PB Ix) as [->|(w & Ew & Iw)].
      + left. apply (sr_sl _ _ _ Hlen OK) in Ea. fold sl in Ea. congruence.
      + right. apply (sr_sl _ _ _ Hlen OK) in Ew. fold sl in Ew. congruence. }
  assert (Cr : forall x y, N x -> sr x = Some y -> N y).
  { intros x y [Ix|Ix] E.
    - destruct (path_pred _ _ _ _ _ PA Ix) as [->|(w & Ew & Iw)].
      + destruct PB as [[Z ->]|[_ PB]].
        * left. apply (sl_sr _ _ _ Hlen OK) in Z. fold sr in Z. congruence.
        * rewrite E in PB. destruct PB as (zb & PB & _). right. eapply path_in_first; eauto.
      + left. apply (sl_sr _ _ _ Hlen OK) in Ew. fold sr in Ew. congruence.
    - destruct PB as [[_ ->]|[_ PB]]; [destruct Ix|].
      destruct (sr c) as [a|] eqn:Ea; [|subst B; destruct Ix].
      destruct PB as (zb & PB & Zb).
      destruct (path_succ _ _ _ _ _ PB Ix) as [->|(y' & E' & Iy)]; [congruence|].
      right. congruence. }
  assert (Rz : forall x, N x -> reach sr z x).
  { assert (RA : forall x, In x A -> reach sr z x).
    { apply (path_reach_back sl sr c A z); auto. intros ? ?. apply (sl_sr _ _ _ Hlen OK). }
    intros x [Ix|Ix]; auto.
    destruct PB as [[_ ->]|[_ PB]]; [destruct Ix|].
    destruct (sr c) as [a|] eqn:Ea; [|subst B; destruct Ix].
    destruct PB as (zb & PB & _). apply (path_reach_fwd sr z a B zb PB); auto.
    eapply reach_step; [apply RA; exact cA|exact Ea]. }
  (* ranges *)
  assert (FA1 : forall (s0 : vc_state), length (vs_visc s0) = n -> Forall (fun a => a < length (vs_visc s0)) A).
  { intros s0 L0. apply Forall_forall. intros x Ix. apply PAll in Ix. destruct Ix as (_ & ? & _). lia. }
  assert (FB1 : forall (s0 : vc_state), length (vs_visc s0) = n -> Forall (fun a => a < length (vs_visc s0)) B).
  { intros s0 L0. apply Forall_forall. intros x Ix. apply PBll in Ix. destruct Ix as (_ & ? & _). lia. }
  assert (FA2 : forall (s0 : vc_state), length (vs_c2v s0) = n -> Forall (fun a => a < length (vs_c2v s0)) A).
  { intros s0 L0. apply Forall_forall. intros x Ix. apply PAll in Ix. destruct Ix as (_ & ? & _). lia. }
  assert (FB2 : forall (s0 : vc_state), length (vs_c2v s0) = n -> Forall (fun a => a < length (vs_c2v s0)) B).
  { intros s0 L0. apply Forall_forall. intros x Ix. apply PBll in Ix. destruct Ix as (_ & ? & _). lia. }
  set (s1 := mk_vc (vs_c2v s) vcorn1 par1 (upd visv1 v true) (vs_visc s)) in *.
  (* the components of the new state *)
  assert (Evisv : vs_visv s' = upd visv1 v true) by (rewrite ES, !marks_visv; reflexivity).
  assert (Evcorn : vs_vcorn s' = upd vcorn1 v (Some z)).
  { rewrite ES, marks_vcorn_false, (marks_vcorn_true nm v sl c A z PA). reflexivity. }
  assert (Evisc : forall x, nth x (vs_visc s') false = true <-> nth x (vs_visc s) false = true \/ N x).
  { intros x. rewrite ES. rewrite marks_visc by (apply FB1; rewrite marks_visc_len; exact I2).
    rewrite marks_visc by (apply FA1; exact I2). unfold N. simpl. tauto. }
  assert (Ec2v_old : forall x, ~ N x -> vtx (vs_c2v s') x = vtx (vs_c2v s) x).
  { intros x Nx. rewrite ES. rewrite !marks_c2v_out; auto; left; intro; apply Nx; unfold N; auto. }
  assert (Ec2v_new : forall x, N x -> vtx (vs_c2v s') x = v).
  { intros x Nx. destruct nm eqn:Enm.
    - rewrite ES. destruct (in_dec Nat.eq_dec x B) as [IB|IB].
      + apply marks_c2v_in; [apply FB2; rewrite marks_c2v_len; exact I1|auto].
      + rewrite marks_c2v_out by auto. destruct Nx as [IA|?]; [|tauto].
        apply marks_c2v_in; [apply FA2; exact I1|auto].
    - rewrite ES. rewrite !marks_c2v_out by auto. simpl. apply PN in Nx. destruct Nx as (U & _ & V0).
      rewrite (I6 _ U). unfold v. auto. }
  (* v is not the id of any visited corner, and lies within the (extended) vertex arrays *)
  assert (Vfresh : forall x, nth x (vs_visc s) false = true -> vtx (vs_c2v s) x <> v).
  { intros x Vx. unfold v. destruct nm eqn:Enm.
    - assert (x < n). { destruct (lt_dec x n); auto. rewrite nth_overflow in Vx; [discriminate|lia]. }
      pose proof (I7 x H0). lia.
    - intros E. pose proof (F5 _ Vx) as T. rewrite E in T. unfold nm in Enm. congruence. }
  assert (Lv : v < length vcorn1 /\ length visv1 = length vcorn1).
  { unfold v, vcorn1, visv1. destruct nm; rewrite ?app_length; simpl; split; try lia. }
  assert (Nvcorn : forall w, w <> v -> nth w (upd vcorn1 v (Some z)) None = nth w (vs_vcorn s) None).
  { intros w Nw. unfold vcorn1, v in *. destruct nm.
    - apply nth_app_upd; auto.
    - apply nth_upd_neq; auto. }
  assert (Nvisv : forall w, w <> v -> nth w (upd visv1 v true) false = nth w (vs_visv s) false).
  { intros w Nw. unfold visv1, v in *. destruct nm.
    - apply nth_app_upd; auto.
    - apply nth_upd_neq; auto. }
  split; [|split].
  - split.
    + intros x y Vx E. apply Evisc. apply Evisc in Vx as [Vx|Nx]; [left; eauto|right; eauto].
    + intros x y Vx E. apply Evisc. apply Evisc in Vx as [Vx|Nx]; [left; eauto|right; eauto].
    + intros x Vx. rewrite Evcorn. apply Evisc in Vx as [Vx|Nx].
      * rewrite (Ec2v_old x (oldN x Vx)). rewrite Nvcorn by auto. auto.
      * rewrite (Ec2v_new x Nx). exists z. split; auto. apply nth_upd_eq. tauto.
    + intros w l. rewrite Evcorn. destruct (Nat.eq_dec w v) as [->|Nw].
      * rewrite nth_upd_eq by tauto. intros E; inversion E; subst l.
        split; [apply Evisc; right; left; auto|]. split; [apply Ec2v_new; left; auto|].
        destruct PB as [[Z _]|[Z _]]; auto. right.
        destruct (Rz c (or_introl cA)) as [k Ek]. exists (S k). split; [lia|].
        cbn [oiter]. rewrite Ek. apply (sl_sr _ _ _ Hlen OK) in Z. exact Z.
      * rewrite Nvcorn by auto. intros E. destruct (F4 _ _ E) as (Vl & Cl' & Lm).
        split; [apply Evisc; auto|]. split; auto. rewrite Ec2v_old; auto.
    + intros x Vx. rewrite Evisv. apply Evisc in Vx as [Vx|Nx].
      * rewrite (Ec2v_old x (oldN x Vx)). rewrite Nvisv by auto. auto.
      * rewrite (Ec2v_new x Nx). apply nth_upd_eq. lia.
    + intros x y Vx E. apply Evisc in Vx as [Vx|Nx].
      * rewrite (Ec2v_old x (oldN x Vx)), (Ec2v_old y (oldN y (F2 _ _ Vx E))). eauto.
      * rewrite (Ec2v_new x Nx), (Ec2v_new y (Cr _ _ Nx E)). auto.
    + intros w. rewrite Evisv, Evcorn. destruct (Nat.eq_dec w v) as [->|Nw].
      * rewrite !nth_upd_eq by lia. split; [discriminate|auto].
      * rewrite Nvisv, Nvcorn by auto. auto.
  - apply Evisc. right. left. auto.
  - intros x Vx. apply Evisc. auto.
Qed.

Definition face_visited (s : vc_state) (f : nat) : Prop :=
  nth (3 * f) (vs_visc s) false = true /\ nth (3 * f + 1) (vs_visc s) false = true /\
  nth (3 * f + 2) (vs_visc s) false = true.

Lemma fan_face_inv s f s' :
  vc_inv c2v0 n0 s -> fan_inv s -> 3 * f + 2 < n -> vc_face opp (Some s) f = Some s' ->
  fan_inv s' /\ (forall x, nth x (vs_visc s) false = true -> nth x (vs_visc s') false = true) /\
  (is_degenerated c2v0 f = false -> face_visited s' f).
Proof.
  intros I Fi L H. unfold vc_face in H. rewrite (vc_deg_same c2v0 nf n0 Hlen) in H by auto.
  destruct (is_degenerated c2v0 f) eqn:D; [inversion H; subst; split; auto; split; auto; discriminate|].
  destruct (vc_corner opp (Some s) (3 * f)) as [sa|] eqn:A; [|discriminate].
  pose proof (vc_corner_inv c2v0 opp nf n0 Hlen OK Hn0 s (3*f) sa I ltac:(fold n; lia)
               ltac:(replace (3*f/3) with f by lia; auto) A) as Ia.
  destruct (fan_corner_inv s (3*f) sa I Fi ltac:(lia) ltac:(replace (3*f/3) with f by lia; auto) A) as (Fa & Va & Ma).
  destruct (vc_corner opp (Some sa) (3 * f + 1)) as [sb|] eqn:B; [|discriminate].
  pose proof (vc_corner_inv c2v0 opp nf n0 Hlen OK Hn0 sa (3*f+1) sb Ia ltac:(fold n; lia)
               ltac:(replace ((3*f+1)/3) with f by lia; auto) B) as Ib.
  destruct (fan_corner_inv sa (3*f+1) sb Ia Fa ltac:(lia) ltac:(replace ((3*f+1)/3) with f by lia; auto) B) as (Fb & Vb & Mb).
  destruct (fan_corner_inv sb (3*f+2) s' Ib Fb ltac:(lia) ltac:(replace ((3*f+2)/3) with f by lia; auto) H) as (Fc & Vc & Mc).
  split; auto. split; [auto|]. intros _. unfold face_visited. auto.
Qed.

Lemma fan_fold_inv k : forall s s', k <= nf ->
  vc_inv c2v0 n0 s -> fan_inv s -> fold_left (vc_face opp) (seq 0 k) (Some s) = Some s' ->
  vc_inv c2v0 n0 s' /\ fan_inv s' /\
  (forall x, nth x (vs_visc s) false = true -> nth x (vs_visc s') false = true) /\
  (forall f, f < k -> is_degenerated c2v0 f = false -> face_visited s' f).
Proof.
  induction k; intros s s' L I Fi H.
  - simpl in H. inversion H; subst. split; [auto|split; [auto|split; [auto|intros; lia]]].
  - rewrite seq_S, fold_left_app in H. cbn [fold_left] in H.
    destruct (fold_left (vc_face opp) (seq 0 k) (Some s)) as [sk|] eqn:E; [|discriminate].
    destruct (IHk _ _ ltac:(lia) I Fi E) as (Ik & Fk & Mk & Vk). simpl in H.
    pose proof (vc_face_inv c2v0 opp nf n0 Hlen OK Hn0 sk k s' Ik ltac:(lia) H) as I'.
    destruct (fan_face_inv sk k s' Ik Fk ltac:(fold n in Hlen; lia) H) as (F' & M' & V').
    split; [auto|split; [auto|split; [auto|]]].
    intros f Hf Df. destruct (Nat.eq_dec f k); [subst; apply V'; auto|].
    destruct (Vk f ltac:(lia) Df) as (?&?&?). unfold face_visited. auto.
Qed.

Lemma fan_init_inv : fan_inv (mk_vc c2v0 (repeat None n0) [] (repeat false n0) (repeat false (length c2v0))).
Proof.
  split; cbn [vs_c2v vs_vcorn vs_par vs_visv vs_visc]; try (intros x; rewrite nth_repeat; discriminate);
    try (intros x y; rewrite nth_repeat; discriminate).
  intros v. rewrite !nth_repeat. split; [discriminate|congruence].
Qed.

Theorem compute_vertex_corners_fan s :
  compute_vertex_corners c2v0 opp n0 nf = Some s ->
  fan_inv s /\ forall c, c < n -> is_degenerated c2v0 (c / 3) = false -> nth c (vs_visc s) false = true.
Proof.
  intros H. destruct (fan_fold_inv nf _ _ (le_n _) (vc_init_inv c2v0 n0 Hn0) fan_init_inv H) as (_ & F & _ & V).
  split; auto. intros c Hc D. destruct (V (c / 3) ltac:(fold n in Hlen; lia) D) as (V0 & V1 & V2).
  destruct (corner_cases c) as [E|[E|E]]; rewrite E; auto.
Qed.
End Fan.

Lemma ct_create_fan faces t :
  ct_create faces = Some t ->
  exists s, vc_inv (c2v_of_faces faces) (num_vertices_of (c2v_of_faces faces)) s /\
    fan_inv (ct_opp t) s /\
    (forall c, c < 3 * length faces -> is_degenerated (c2v_of_faces faces) (c / 3) = false ->
       nth c (vs_visc s) false = true) /\
    ct_c2v t = vs_c2v s /\ ct_vcorn t = vs_vcorn s /\ ct_par t = vs_par s /\
    ct_norig t = num_vertices_of (c2v_of_faces faces) /\ ct_niso t = count_false (vs_visv s).
Proof.
  intros H. pose proof (ct_create_opp_ok _ _ H) as OK.
  destruct (ct_create_stages _ _ H) as (opp0 & pend & s & E & B & V & ?&?&?&?&?).
  exists s.
  pose proof (compute_vertex_corners_inv _ _ (length faces) _ (c2v_of_faces_length faces) OK (num_vertices_of_spec _) s V).
  destruct (compute_vertex_corners_fan _ _ (length faces) _ (c2v_of_faces_length faces) OK (num_vertices_of_spec _) s V) as (F & Vs).
  rewrite c2v_of_faces_length in Vs. repeat (split; [assumption|]). assumption.
Qed.

(** clause 4: all corners of a vertex form ONE fan: every corner of a non-degenerate face is reached from
    the representative corner of its vertex by iterating SwingRight; conversely a representative is a corner
    of its own vertex, lies in a non-degenerate face, is the left-most corner of an open fan (or the fan is
    closed), and everything reached from it by SwingRight belongs to the same vertex *)
Theorem single_fan faces t :
  ct_create faces = Some t ->
  let sr := swing_right (ct_opp t) in
  let sl := swing_left (ct_opp t) in
  let V := vtx (ct_c2v t) in
  (forall c, c < 3 * length faces -> is_degenerated (c2v_of_faces faces) (c / 3) = false ->
     exists l, nth (V c) (ct_vcorn t) None = Some l /\ reach sr l c) /\
  (forall v l, nth v (ct_vcorn t) None = Some l ->
     V l = v /\ l < 3 * length faces /\ is_degenerated (c2v_of_faces faces) (l / 3) = false /\
     (sl l = None \/ exists k, 1 <= k /\ oiter sr k (Some l) = Some l) /\
     forall x, reach sr l x -> V x = v).
Proof.
  intros H sr sl V.
  destruct (ct_create_fan _ _ H) as (s & I & F & Vs & E1 & E2 & E3 & E4 & E5).
  unfold V. rewrite E1, E2. split.
  - intros c Hc D. apply (fi_rep _ _ F). auto.
  - intros v l E. destruct (fi_corn _ _ F _ _ E) as (Vl & Cl & Lm).
    assert (Ll : l < 3 * length faces).
    { rewrite <- c2v_of_faces_length, <- (vi_len_vc _ _ _ I).
      destruct (lt_dec l (length (vs_visc s))); auto. rewrite nth_overflow in Vl; [discriminate|lia]. }
    repeat split; auto.
    + apply (vi_nondeg _ _ _ I); auto.
    + intros x [k Ek]. revert x Ek. induction k; intros x Ek.
      * simpl in Ek. inversion Ek; subst; auto.
      * cbn [oiter] in Ek. destruct (oiter sr k (Some l)) as [y|] eqn:Ey; [|discriminate].
        pose proof (IHk y eq_refl) as Vy.
        assert (Visy : nth y (vs_visc s) false = true).
        { clear -Ey Vl F. revert y Ey. induction k; intros y Ey.
          - simpl in Ey. inversion Ey; subst; auto.
          - cbn [oiter] in Ey. destruct (oiter sr k (Some l)) as [w|] eqn:Ew; [|discriminate].
            eapply (fi_r _ _ F); [apply IHk; reflexivity|exact Ey]. }
        rewrite (fi_same _ _ F y x Visy Ek). auto.
Qed.

(** clause 1b in the final table itself: across an opposite pair the rewritten vertex ids agree *)
Theorem opp_shared_edge_final faces t a b :
  ct_create faces = Some t -> opp_at (ct_opp t) a = Some b ->
  let V := vtx (ct_c2v t) in
  V (next_c a) = V (prev_c b) /\ V (prev_c a) = V (next_c b) /\ V a <> V b.
Proof.
  intros H E V.
  destruct (ct_create_fan _ _ H) as (s & I & F & Vs & E1 & E2 & E3 & E4 & E5).
  destruct (opp_symmetric _ _ _ _ H E) as (E' & _ & La & Lb).
  destruct (ct_create_opp_ok _ _ H) as [L K].
  destruct (K _ _ E) as (_ & _ & _ & _ & _ & Da). destruct (K _ _ E') as (_ & _ & _ & _ & _ & Db).
  assert (S1 : swing_right (ct_opp t) (next_c a) = Some (prev_c b)).
  { unfold swing_right. rewrite prev_next, E. auto. }
  assert (S2 : swing_right (ct_opp t) (next_c b) = Some (prev_c a)).
  { unfold swing_right. rewrite prev_next, E'. auto. }
  unfold V. rewrite E1. split; [|split].
  - symmetry. apply (fi_same _ _ F _ _ (Vs _ (next_lt _ _ La) ltac:(rewrite next_face; auto)) S1).
  - apply (fi_same _ _ F _ _ (Vs _ (next_lt _ _ Lb) ltac:(rewrite next_face; auto)) S2).
  - destruct (opp_shared_edge_opposed _ _ _ _ H E) as (_ & _ & _ & N). rewrite <- E1. congruence.
Qed.

(** the bookkeeping counters *)
Lemma oc_face_nd c2v st f : snd (oc_face c2v st f) = snd st + (if is_degenerated c2v f then 1 else 0).
Proof.
  unfold oc_face. destruct (is_degenerated c2v f).
  - destruct st as [[? ?] ?]. simpl. lia.
  - assert (G : forall st c, snd (oc_corner c2v st c) = snd st).
    { intros [[o p] d] c. unfold oc_corner. destruct (find_match _ _ _ _ _) as [[? ?]|]; reflexivity. }
    rewrite !G. lia.
Qed.

Theorem counters faces t :
  ct_create faces = Some t ->
  ct_norig t = num_vertices_of (c2v_of_faces faces) /\
  length (ct_vcorn t) = ct_norig t + length (ct_par t) /\
  Forall (fun p => p < ct_norig t) (ct_par t) /\
  ct_ndeg t = length (filter (is_degenerated (c2v_of_faces faces)) (seq 0 (length faces))) /\
  ct_niso t = length (filter (fun o => match o with None => true | Some _ => false end) (ct_vcorn t)).
Proof.
  intros H. destruct (ct_create_fan _ _ H) as (s & I & F & Vs & E1 & E2 & E3 & E4 & E5).
  rewrite E2, E3, E4, E5. split; auto. split; [apply (vi_len_v _ _ _ I)|]. split; [apply (vi_par_orig _ _ _ I)|].
  split.
  - destruct (ct_create_stages _ _ H) as (opp0 & pend & s2 & E & _).
    unfold compute_opposite in E.
    assert (G : forall k st, snd (fold_left (oc_face (c2v_of_faces faces)) (seq 0 k) st) =
                snd st + length (filter (is_degenerated (c2v_of_faces faces)) (seq 0 k))).
    { induction k; intros st; [simpl; lia|].
      rewrite seq_S, fold_left_app, filter_app, app_length. cbn [fold_left]. rewrite oc_face_nd, IHk. simpl.
      destruct (is_degenerated (c2v_of_faces faces) k); simpl; lia. }
    specialize (G (length faces) (repeat None (length (c2v_of_faces faces)), [], 0)). rewrite E in G. simpl in G. auto.
  - unfold count_false. pose proof (vi_len_vv _ _ _ I) as LL. pose proof (fi_iso _ _ F) as Iso.
    revert LL Iso. generalize (vs_vcorn s). generalize (vs_visv s).
    induction l as [|b l IH]; intros [|o l'] LL Iso; simpl in *; try discriminate; auto.
    pose proof (Iso 0) as I0. simpl in I0.
    assert (IH' : length (filter negb l) = length (filter (fun o => match o with None => true | Some _ => false end) l')).
    { apply IH; [lia|]. intros v. apply (Iso (S v)). }
    destruct b, o; simpl; try lia.
    + exfalso. destruct I0 as [I0 _]. apply I0; auto.
    + exfalso. destruct I0 as [_ I0]. specialize (I0 ltac:(discriminate)). discriminate.
Qed.

(** * The property in one statement: for every triangle list Create returns a table with all four clauses *)
Theorem corner_table_consistent faces :
  exists t, ct_create faces = Some t /\
    let V0 := vtx (c2v_of_faces faces) in
    let V := vtx (ct_c2v t) in
    let opp := opp_at (ct_opp t) in
    let sr := swing_right (ct_opp t) in
    let sl := swing_left (ct_opp t) in
    let n := 3 * length faces in
    (* 1 *) (forall a b, opp a = Some b ->
               opp b = Some a /\ a <> b /\ a < n /\ b < n /\
               V (next_c a) = V (prev_c b) /\ V (prev_c a) = V (next_c b) /\ V a <> V b) /\
    (* 2 *) (forall c, is_degenerated (c2v_of_faces faces) (c / 3) = true -> opp c = None) /\
    (* 3 *) (forall c, c < n -> vertex_parent t (V c) = V0 c) /\
    (* 4 *) (forall c, c < n -> is_degenerated (c2v_of_faces faces) (c / 3) = false ->
               exists l, nth (V c) (ct_vcorn t) None = Some l /\ reach sr l c) /\
            (forall v l, nth v (ct_vcorn t) None = Some l ->
               V l = v /\ (sl l = None \/ exists k, 1 <= k /\ oiter sr k (Some l) = Some l) /\
               forall x, reach sr l x -> V x = v).
Proof.
  destruct (ct_create_total faces) as (t & H). exists t. split; auto. cbv zeta.
  destruct (single_fan _ _ H) as (F1 & F2).
  split; [intros a b E; destruct (opp_symmetric _ _ _ _ H E) as (?&?&?&?);
          destruct (opp_shared_edge_final _ _ _ _ H E) as (?&?&?); repeat split; auto|].
  split; [intros c D; apply (degenerate_unlinked _ _ _ H D)|].
  split; [intros c L; apply (vertex_parent_maps_back _ _ _ H L)|].
  split; [exact F1|]. intros v l E. destruct (F2 _ _ E) as (?&?&?&?&?). repeat split; auto.
Qed.
