(** EBSIM: the Edgebreaker connectivity ROUND TRIP on the model (property C01), composed from
      Proofs/EbSimEnc_proofs.v  (encoder side: the history invariant, [encode_facts_wf])
      Proofs/EbSimDec_proofs.v  (decoder side: decoder step lemmas, the simulation relation SIM and its preservation).
    Classes are decidable predicates on the encoder's OUTPUT. *)
From Coq Require Import ZArith List Bool Lia Arith PeanoNat.
From Draco Require Import Model.CornerTable Model.EbEncoder Proofs.CornerTable_proofs Proofs.EbEncoder_proofs.
From Draco Require Import Proofs.EbSimDec_proofs Proofs.EbSimS_proofs Proofs.EbSimLoop_proofs Proofs.EbSimEnc_proofs Model.EbTrace Proofs.EbTrace_proofs.
From Draco Require Model.Edgebreaker.
Import ListNotations.
Module D := Draco.Model.Edgebreaker.

(** ** the classes *)
Definition is_ERL (y : Z) : bool := ((y =? 3) || (y =? 5) || (y =? 7))%Z.
(** only E / R / L symbols (triangle strips and fans) *)
Definition class_ERL (o : enc_out) : bool := forallb is_ERL (o_syms o).
(** + symbol C (discs) *)
Definition is_CERL (y : Z) : bool := ((y =? 0) || (y =? 3) || (y =? 5) || (y =? 7))%Z.
Definition class_CERL (o : enc_out) : bool := forallb is_CERL (o_syms o).
Lemma class_ERL_CERL o : class_ERL o = true -> class_CERL o = true.
Proof.
  unfold class_ERL, class_CERL. intros A.
  rewrite forallb_forall in *. intros y Hy. specialize (A y Hy). unfold is_ERL, is_CERL in *. lia.
Qed.
(** the vertices the decoder creates fit the declared bound (3 per E, 1 per R / L) *)
Definition verts_fit (o : enc_out) : Prop := (cntv (rev (o_syms o)) <= o_nverts o + o_nsplit o)%Z.

Lemma bits_all_false l : forallb negb l = true -> forall i, D.bits_of_list l i = false.
Proof.
  unfold D.bits_of_list. induction l as [|b l IH]; intros H i; cbn in *.
  - destruct i; auto.
  - apply andb_prop in H. destruct H as [Hb Hl]. destruct i; auto. destruct b; auto; discriminate.
Qed.
Lemma count_true_0 l : forallb negb l = true -> count_occ bool_dec l true = 0.
Proof.
  induction l as [|b l IH]; intros H; cbn in *; auto. apply andb_prop in H. destruct H as [Hb Hl].
  destruct b; [discriminate|]. destruct (bool_dec false true); [discriminate|auto].
Qed.

(** * the decoder's stack after the symbol loop, from the runs of the encoder (histories without S) *)
Lemma tops_S Y k y : nth_error Y k = Some y ->
  tops Y (S k) = if (y =? 7)%Z then k :: tops Y k else if (y =? 1)%Z then k :: tl (tl (tops Y k)) else k :: tl (tops Y k).
Proof. intros E. cbn [tops]. rewrite E. reflexivity. Qed.

Lemma tops_head' Y k : 1 <= k <= length Y -> exists T, tops Y k = (k - 1) :: T.
Proof.
  intros Hk. destruct k as [|k']; [lia|]. destruct (nth_error Y k') as [y|] eqn:E.
  - rewrite (tops_S _ _ _ E). replace (S k' - 1) with k' by lia. destruct (y =? 7)%Z; [eauto|]. destruct (y =? 1)%Z; eauto.
  - apply nth_error_None in E. lia.
Qed.

Lemma tops_block Yr Y : ~ In 7%Z Yr -> ~ In 1%Z Yr -> forall k, 1 <= k <= S (length Yr) -> tops ((7%Z :: Yr) ++ Y) k = [k - 1].
Proof.
  intros N7 N1. induction k as [|k IH]; intros Hk; [lia|].
  destruct (Nat.eq_dec k 0) as [->|Nk].
  - rewrite (tops_S _ 0 7%Z); auto.
  - assert (E : nth_error ((7%Z :: Yr) ++ Y) k = Some (nth (k - 1) Yr 0%Z)).
    { destruct k; [lia|]. cbn [app nth_error]. rewrite nth_error_app1 by lia. replace (S k - 1) with k by lia. apply nth_error_nth'. lia. }
    assert (Hin : In (nth (k - 1) Yr 0%Z) Yr) by (apply nth_In; lia).
    rewrite (tops_S _ _ _ E), IH by lia.
    destruct (nth (k - 1) Yr 0 =? 7)%Z eqn:E7; [exfalso; apply N7; apply Z.eqb_eq in E7; rewrite <- E7; auto|].
    destruct (nth (k - 1) Yr 0 =? 1)%Z eqn:E1; [exfalso; apply N1; apply Z.eqb_eq in E1; rewrite <- E1; auto|].
    cbn [tl]. f_equal. lia.
Qed.

Lemma tops_app Yr Y : ~ In 7%Z Yr -> ~ In 1%Z Yr -> (Y = [] \/ exists Y', Y = 7%Z :: Y') -> ~ In 1%Z Y ->
  forall k, k <= length Y ->
  tops ((7%Z :: Yr) ++ Y) (S (length Yr) + k) = map (fun j => S (length Yr) + j) (tops Y k) ++ [length Yr].
Proof.
  intros N7 N1 HY NY. induction k as [|k IH]; intros Hk.
  - rewrite Nat.add_0_r, tops_block by (auto; lia). cbn. f_equal. lia.
  - replace (S (length Yr) + S k) with (S (S (length Yr) + k)) by lia.
    assert (Ek : nth_error ((7%Z :: Yr) ++ Y) (S (length Yr) + k) = Some (nth k Y 0%Z)).
    { rewrite nth_error_app2 by (cbn [length]; lia). cbn [length]. replace (S (length Yr) + k - S (length Yr)) with k by lia.
      apply nth_error_nth'. lia. }
    assert (Ek' : nth_error Y k = Some (nth k Y 0%Z)) by (apply nth_error_nth'; lia).
    rewrite (tops_S _ _ _ Ek), (tops_S _ _ _ Ek'), IH by lia.
    assert (Hin : In (nth k Y 0%Z) Y) by (apply nth_In; lia).
    destruct (nth k Y 0 =? 7)%Z eqn:E7; [reflexivity|].
    destruct (nth k Y 0 =? 1)%Z eqn:E1; [exfalso; apply NY; apply Z.eqb_eq in E1; rewrite <- E1; auto|].
    assert (Kp : 1 <= k).
    { destruct k; [|lia]. exfalso. destruct HY as [->|(Y' & ->)]; [cbn in Hk; lia|]. cbn in E7. discriminate. }
    destruct (tops_head' Y k ltac:(lia)) as (T & ET). rewrite ET. cbn [map app tl]. reflexivity.
Qed.

Lemma last_nth_nat (l : list nat) : l <> [] -> last l 0 = nth (length l - 1) l 0.
Proof.
  induction l as [|a l IH]; [congruence|]. destruct l as [|a' l']; [reflexivity|]. intros _.
  change (last (a :: a' :: l') 0) with (last (a' :: l') 0). rewrite IH by discriminate. cbn [length].
  replace (S (S (length l')) - 1) with (S (S (length l') - 1)) by lia. reflexivity.
Qed.

Lemma cnt_true_app l1 l2 : cnt_true (l1 ++ l2) = cnt_true l1 + cnt_true l2.
Proof. unfold cnt_true. apply count_occ_app. Qed.
Lemma cnt_true_rev l : cnt_true (rev l) = cnt_true l.
Proof. unfold cnt_true. apply count_occ_rev. Qed.

(** the run structure in index form *)
Definition runs_idx (opp : list (option nat)) (IP : nat -> Prop) (bits : list bool) (inits P : list nat) (Y : list Z) : Prop :=
  (Y = [] \/ exists Y', Y = 7%Z :: Y') /\ length P = length Y /\ length inits = cnt_true bits /\
  length (tops Y (length Y)) = length bits /\
  forall i j, nth_error (tops Y (length Y)) i = Some j -> nth i (rev bits) false = true ->
    j < length Y /\
    exists ic, nth_error (rev inits) (cnt_true (firstn i (rev bits))) = Some ic /\ opp_at opp ic = Some (nth j P 0) /\ IP ic.

Lemma RUNS_idx opp IP bits inits P Y : RUNS opp IP bits inits P Y -> ~ In 1%Z Y -> runs_idx opp IP bits inits P Y.
Proof.
  induction 1 as [|b bits inits inits' P Y Pn Yn R IH Np Ln Sh Hb]; intros NS.
  - unfold runs_idx. cbn. split; auto. split; auto. split; auto. split; auto. intros i j X. destruct i; discriminate.
  - assert (NS1 : ~ In 1%Z Yn) by (intro X; apply NS; apply in_or_app; auto).
    assert (NS2 : ~ In 1%Z Y) by (intro X; apply NS; apply in_or_app; auto).
    destruct (Sh NS1) as (Yr & -> & N7). destruct (IH NS2) as (HY & LP & LI & LT & HF).
    assert (N1r : ~ In 1%Z Yr) by (intro X; apply NS1; right; auto).
    cbn [length] in Ln.
    assert (ET : tops ((7%Z :: Yr) ++ Y) (length ((7%Z :: Yr) ++ Y)) = map (fun j => S (length Yr) + j) (tops Y (length Y)) ++ [length Yr]).
    { rewrite app_length. cbn [length]. apply tops_app; auto. }
    unfold runs_idx. rewrite ET. split; [right; cbn [app]; eauto|]. split; [rewrite !app_length; cbn [length]; lia|].
    assert (LI' : length inits' = cnt_true (b :: bits)).
    { unfold cnt_true in *. destruct b.
      - destruct Hb as (ic & -> & _). rewrite count_occ_cons_eq by reflexivity. cbn [length]. lia.
      - subst inits'. rewrite count_occ_cons_neq by discriminate. auto. }
    split; auto. split; [rewrite app_length, map_length; cbn [length]; lia|].
    intros i j Ei Bi. cbn [rev] in Bi. cbn [rev].
    assert (Li : i < length (tops Y (length Y)) + 1).
    { assert (X : i < length (map (fun j => S (length Yr) + j) (tops Y (length Y)) ++ [length Yr])) by (apply nth_error_Some; congruence).
      rewrite app_length, map_length in X. cbn in X. lia. }
    destruct (Nat.lt_ge_cases i (length (tops Y (length Y)))) as [Lo|Hi].
    + (* an older run *)
      rewrite nth_error_app1 in Ei by (rewrite map_length; auto). rewrite nth_error_map in Ei.
      destruct (nth_error (tops Y (length Y)) i) as [j0|] eqn:Ej0; [|discriminate]. inversion Ei; subst j. clear Ei.
      rewrite app_nth1 in Bi by (rewrite rev_length; lia).
      destruct (HF i j0 Ej0 Bi) as (Hj0 & ic & A1 & A2 & A3).
      split; [rewrite app_length; cbn [length]; lia|].
      exists ic. rewrite firstn_app, rev_length. replace (i - length bits) with 0 by lia. cbn [firstn]. rewrite app_nil_r.
      split; [|split; auto].
      * assert (X : cnt_true (firstn i (rev bits)) < length (rev inits)) by (apply nth_error_Some; congruence).
        destruct b; [destruct Hb as (ic' & -> & _); cbn [rev]; rewrite nth_error_app1 by auto; auto|subst inits'; auto].
      * rewrite app_nth2 by lia. replace (S (length Yr + j0) - length Pn) with j0 by lia. auto.
    + (* the newest run *)
      assert (i = length (tops Y (length Y))) by lia. subst i.
      rewrite nth_error_app2 in Ei by (rewrite map_length; auto). rewrite map_length, Nat.sub_diag in Ei. cbn in Ei. inversion Ei; subst j.
      rewrite app_nth2 in Bi by (rewrite rev_length; lia). rewrite rev_length in Bi. replace (length (tops Y (length Y)) - length bits) with 0 in Bi by lia.
      cbn in Bi. subst b. destruct Hb as (ic & -> & Eo & Ip).
      split; [rewrite app_length; cbn [length]; lia|].
      exists ic. rewrite LT, firstn_app, rev_length, Nat.sub_diag. cbn [firstn]. rewrite app_nil_r, <- (rev_length bits), firstn_all, cnt_true_rev.
      split; [|split; auto].
      * cbn [rev]. rewrite nth_error_app2 by (rewrite rev_length; lia). rewrite rev_length. replace (cnt_true bits - length inits) with 0 by lia. reflexivity.
      * rewrite app_nth1 by lia. rewrite Eo. f_equal. replace (length Yr) with (length Pn - 1) by lia.
        apply last_nth_nat; auto.
Qed.

Lemma nth_error_skipn {A} (l : list A) n m x : nth_error (skipn n l) m = Some x -> nth_error l (n + m) = Some x.
Proof. revert l. induction n as [|n IH]; intros [|a l] H; cbn in *; auto; try (destruct m; discriminate). Qed.

(** [start_ok] from the encoder's run facts *)
Lemma start_ok_of_facts c2v opp nf Q Y B : length c2v = 3 * nf -> opp_ok c2v opp ->
  (forall j, j < length Q -> nth j Q 0 < 3 * nf /\ is_degenerated c2v (nth j Q 0 / 3) = false) ->
  NoDup (map (fun c => c / 3) Q) ->
  (forall f, f < nf -> is_degenerated c2v f = false -> In f (map (fun c => c / 3) Q)) ->
  length Y + cnt_true B = length Q -> ~ In 1%Z Y ->
  RUNS opp (IFc' c2v opp nf) (rev B) (rev (skipn (length Y) Q)) (firstn (length Y) Q) Y ->
  (forall m1 m2, m1 < m2 -> length Y + m2 < length Q -> forall x1 x2, x1 < 3 * nf -> x2 < 3 * nf ->
     x1 / 3 = nth (length Y + m1) Q 0 / 3 -> x2 / 3 = nth (length Y + m2) Q 0 / 3 -> vtx c2v x1 <> vtx c2v x2) ->
  start_ok c2v opp nf Q Y B.
Proof.
  intros Hlen OK Qrng Qnd Comp L NS R DJ. set (ns := length Y) in *.
  destruct (RUNS_idx _ _ _ _ _ _ R NS) as (_ & _ & _ & LT & HF). fold ns in LT, HF.
  rewrite rev_length in LT. rewrite !rev_involutive in HF.
  unfold start_ok. fold ns. split; auto. split; auto.
  intros i j Ej Bi. cbv zeta. destruct (HF i j Ej Bi) as (Hj & ic & A1 & A2 & A3).
  set (m0 := cnt_true (firstn i B)) in *. set (m := ns + m0).
  apply nth_error_skipn in A1. fold m in A1.
  assert (Hm : m < length Q) by (apply nth_error_Some; congruence).
  assert (Eic : nth m Q 0 = ic) by (apply nth_error_nth; auto).
  assert (E0 : eco Q m 0 = ic) by (unfold eco; cbn [rot]; auto).
  assert (Ejq : nth j (firstn ns Q) 0 = nth j Q 0).
  { rewrite <- (firstn_skipn ns Q) at 2. rewrite app_nth1; auto. rewrite firstn_length_le; lia. }
  rewrite Ejq in A2. split; [rewrite E0; exact A2|].
  destruct A3 as (Hic & HI).
  assert (CI : forall r, r < 3 -> Cint_t c2v opp nf Q m (eco Q m r)).
  { intros r Hr x Hx Nx Vx.
    assert (Ft : eco Q m r / 3 = ic / 3) by (unfold eco; rewrite rot_face, Eic; auto).
    assert (Ht : eco Q m r < 3 * nf).
    { unfold eco. rewrite Eic. destruct r as [|[|r]]; cbn [rot]; auto using next_lt, prev_lt. }
    destruct (HI _ Ht Ft) as (_ & HX). destruct (HX x Hx Nx Vx) as (X1 & X2). split; auto. split; auto.
    intros Ne.
    assert (Hf : x / 3 < nf) by (apply Nat.div_lt_upper_bound; lia).
    destruct (In_nth _ _ 0 (Comp _ Hf Nx)) as (j' & Hj' & Ej'). rewrite map_length in Hj'.
    assert (M : nth j' (map (fun c => c / 3) Q) 0 = nth j' Q 0 / 3) by (exact (map_nth (fun c => c / 3) Q 0 j')).
    rewrite M in Ej'.
    assert (Hlt : j' < m).
    { destruct (lt_eq_lt_dec j' m) as [[Lo|Eq]|Gt]; auto.
      - subst j'. exfalso. apply Ne. apply (same_face_vertex c2v); auto. rewrite <- Ej', Eic, Ft. auto.
        destruct (Qrng m Hm) as [_ Dm]. rewrite Ft, <- Eic. auto.
      - exfalso. apply (DJ m0 (j' - ns)) with (x1 := eco Q m r) (x2 := x); auto; try lia.
        + fold m. rewrite Eic. auto.
        + replace (ns + (j' - ns)) with j' by lia. auto. }
    symmetry in Ej'. destruct (face_rot _ _ Ej') as (r' & Hr' & Er'). exists j', r'. auto. }
  split; [apply CI; lia|]. split; apply CI; lia.
Qed.

Lemma efact_script c2v opp nf Q Y k y : length c2v = 3 * nf -> length Y <= length Q ->
  (forall f, f < nf -> is_degenerated c2v f = false -> In f (map (fun c => c / 3) Q)) ->
  nth_error Y k = Some y -> is_CERL y = true ->
  efact c2v opp nf Q k (nth k Q 0) y -> script_at c2v opp nf Q Y k.
Proof.
  intros Hlen HYQ Comp Ey Cl (A & B & C & Dd). cbv zeta in Dd. unfold script_at. rewrite Ey. unfold ncr, eco. cbn [rot].
  assert (Hk : k < length Q). { assert (k < length Y) by (apply nth_error_Some; congruence). lia. }
  assert (NV : forall e, nvis Q k (opp_at opp e) -> match opp_at opp e with Some o => forall j', j' < k -> nth j' Q 0 / 3 <> o / 3 | None => True end).
  { intros e H. destruct (opp_at opp e) as [o0|]; auto. }
  unfold is_CERL in Cl.
  destruct Dd as [(D1 & D2 & D3)|[(D1 & D2 & D3 & D4)|[(D1 & D2 & D3 & D4)|[(D1 & D2 & D3 & D4)|D1]]]]; subst y; try discriminate.
  - left. repeat split; auto; apply NV; auto.
  - right. left. repeat split; auto; apply NV; auto.
  - right. right. left. repeat split; auto; apply NV; auto.
  - right. right. right. left. split; auto. split; auto. split; auto. split; [apply NV; auto|].
    intros x Hx Nx Vx. unfold eco in Vx. cbn [rot] in Vx. destruct (D4 x Hx Nx Vx) as (R1 & R2 & R3). split; auto. split; auto.
    intros Ne. unfold eco in Ne. cbn [rot] in Ne.
    assert (Hf : x / 3 < nf) by (apply Nat.div_lt_upper_bound; lia).
    destruct (In_nth _ _ 0 (Comp _ Hf Nx)) as (j' & Hj' & Ej'). rewrite map_length in Hj'.
    assert (M : nth j' (map (fun c => c / 3) Q) 0 = nth j' Q 0 / 3) by (exact (map_nth (fun c => c / 3) Q 0 j')).
    rewrite M in Ej'.
    assert (Hlt : j' < k).
    { destruct (lt_eq_lt_dec j' k) as [[L|E]|G]; auto.
      - subst j'. exfalso. apply Ne. apply (same_face_vertex c2v); auto.
      - exfalso. apply (R3 j'); auto. }
    symmetry in Ej'. destruct (face_rot _ _ Ej') as (r' & Hr' & Er'). exists j', r'. auto.
Qed.

(** ** C / E / R / L: the state machine [eb_core] on the encoder's output, for every well-formed table *)
Theorem ebsim_roundtrip_CERL_core c2v opp nf nv niso ndeg o rm maxv :
  length c2v = 3 * nf -> opp_ok c2v opp -> (forall c, c < 3 * nf -> vtx c2v c < nv) -> one_fan c2v opp ->
  eb_encode c2v opp nv niso ndeg = EOk o -> class_CERL o = true -> (cntv (rev (o_syms o)) <= maxv)%Z ->
  let F := Z.of_nat (length (o_pcc o)) in
  exists n s, D.eb_core (3 * F) maxv F rm (rev (o_syms o)) (o_events o) (D.bits_of_list (o_bits o)) = D.Ok (n, s) /\
              eb_iso c2v opp (o_pcc o) (D.c2v s) (D.copp s).
Proof.
  intros Hlen OK Hv FAN E Cs Hm F. unfold class_CERL in Cs.
  destruct (encode_facts_wf c2v opp nf nv niso ndeg o Hlen OK Hv FAN E) as (L & ND & Fk & Ev & RU & DJ).
  destruct (eb_encode_total c2v opp nf nv niso ndeg Hlen OK Hv FAN) as [T1 T2].
  destruct (Nat.eq_dec nf ndeg) as [Eq|Ne]; [rewrite (T1 Eq) in E; discriminate|].
  destruct (T2 Ne) as (o' & E' & OO & _). rewrite E in E'. inversion E'; subst o'. clear E' T1 T2.
  destruct OO as (_ & Rng & Comp & _).
  assert (NS : ~ In 1%Z (rev (o_syms o))).
  { intro X. apply in_rev in X. rewrite forallb_forall in Cs. specialize (Cs _ X). discriminate. }
  rewrite (Ev NS).
  assert (Rq : forall j, j < length (o_pcc o) -> nth j (o_pcc o) 0 < 3 * nf /\ is_degenerated c2v (nth j (o_pcc o) 0 / 3) = false).
  { intros j Hj. rewrite Forall_forall in Rng. apply Rng. apply nth_In. auto. }
  apply (dec_roundtrip_noS c2v opp nf Hlen OK (o_pcc o) Rq ND (3 * F)%Z maxv rm (rev (o_syms o)) eq_refl ltac:(lia) Hm FAN); auto.
  - intros j Hj. destruct (nth_error (rev (o_syms o)) j) as [y|] eqn:Ey; [|apply nth_error_None in Ey; lia].
    apply (efact_script c2v opp nf _ _ j y); auto; try lia.
    rewrite forallb_forall in Cs. apply Cs. apply in_rev. eapply nth_error_In; eauto.
  - apply start_ok_of_facts; auto.
Qed.

Theorem ebsim_roundtrip_ERL_core c2v opp nf nv niso ndeg o rm maxv :
  length c2v = 3 * nf -> opp_ok c2v opp -> (forall c, c < 3 * nf -> vtx c2v c < nv) -> one_fan c2v opp ->
  eb_encode c2v opp nv niso ndeg = EOk o -> class_ERL o = true -> (cntv (rev (o_syms o)) <= maxv)%Z ->
  let F := Z.of_nat (length (o_pcc o)) in
  exists n s, D.eb_core (3 * F) maxv F rm (rev (o_syms o)) (o_events o) (D.bits_of_list (o_bits o)) = D.Ok (n, s) /\
              eb_iso c2v opp (o_pcc o) (D.c2v s) (D.copp s).
Proof. intros. apply (ebsim_roundtrip_CERL_core c2v opp nf nv niso ndeg); auto. apply class_ERL_CERL; auto. Qed.

(** ** C / E / R / L: the whole decoder [eb_decode_of] (header guards + state machine) on the output of the encoder run on a
    table built by CornerTable::Create.  Premises not derived here: the size bound in which the C13 model is faithful,
    guard G3 of the decoder (simple vertex/edge graph, see Properties_EBENC) and [verts_fit]. *)
Theorem ebsim_roundtrip_CERL faces t o rm : ct_create faces = Some t -> eb_encode_ct t = EOk o -> class_CERL o = true ->
  (Z.of_nat (3 * length faces + length (ct_vcorn t)) < 2147483648)%Z ->
  ((3 * o_nfaces o) / 2 <= (o_nverts o * (o_nverts o - 1)) / 2)%Z ->
  verts_fit o ->
  exists n s, eb_decode_of o rm = D.Ok (n, s) /\ eb_iso (ct_c2v t) (ct_opp t) (o_pcc o) (D.c2v s) (D.copp s).
Proof.
  intros H E Cl Sz G3 VF.
  destruct (ct_create_wf _ _ H) as (L & OK & Hv & FAN & _).
  destruct (eb_encode_ct_counts faces t o H E) as (_ & _ & _ & _ & _ & Nf & _).
  assert (Ev : o_events o = []).
  { destruct (encode_facts_wf _ _ _ _ _ _ o L OK Hv FAN E) as (_ & _ & _ & Ev). apply Ev.
    unfold class_CERL in Cl.
    intro X. apply in_rev in X. rewrite forallb_forall in Cl. specialize (Cl _ X). discriminate. }
  destruct (eb_encode_ct_guards faces t o rm H E Sz G3) as (Eq & _).
  { rewrite Ev. cbn. lia. }
  rewrite Eq. rewrite <- Nf.
  apply (ebsim_roundtrip_CERL_core (ct_c2v t) (ct_opp t) (length faces) (length (ct_vcorn t)) (ct_niso t) (ct_ndeg t) o rm); auto.
Qed.

Theorem ebsim_roundtrip_ERL faces t o rm : ct_create faces = Some t -> eb_encode_ct t = EOk o -> class_ERL o = true ->
  (Z.of_nat (3 * length faces + length (ct_vcorn t)) < 2147483648)%Z ->
  ((3 * o_nfaces o) / 2 <= (o_nverts o * (o_nverts o - 1)) / 2)%Z ->
  verts_fit o ->
  exists n s, eb_decode_of o rm = D.Ok (n, s) /\ eb_iso (ct_c2v t) (ct_opp t) (o_pcc o) (D.c2v s) (D.copp s).
Proof. intros. apply (ebsim_roundtrip_CERL faces t o rm); auto. apply class_ERL_CERL; auto. Qed.

(** ** The simulation along the TRACE (Model/EbTrace.v).
    [sim2 ... cf d]: configuration [cf] of the encoder (it has emitted i = |syms| symbols and is about to process
    [cf_corner cf]) against the decoder state [d] after the LAST  k = ns - i  symbols:
      - SIM k d : the decoder has created exactly the faces of Q[0..k-1] (Q = o_pcc, the corners in decoder order), with
        Opposite / vertices as in [SIM];
      - these are exactly the faces the encoder has NOT processed yet:  cf_corner :: pcc = Q[k-1 .. ns-1];
      - the decoder's active_corner_stack lists the tip corners 3j of the faces [tops Y k] (computed from the symbols: E pushes,
        C / R / L replace the top, S merges the two top entries); its top is the face of [cf_corner cf];
      - W, FI: the decoder's own invariants; no pending split event, no invalidated vertex (classes without S). *)
Definition sim2 (c2v : list nat) (opp : list (option nat)) (Q : list nat) (Y : list Z) (ns : nat) (NC maxv : Z) (cf : cfg) (d : D.st) : Prop :=
  let i := length (syms (cf_st cf)) in
  let k := ns - i in
  SIM c2v opp Q k d /\
  cf_corner cf :: pcc (cf_st cf) = skipn (k - 1) (firstn ns Q) /\
  (D.stack d = map (fun j => dco j 0) (tops Y k) /\ exists T, tops Y k = (k - 1) :: T) /\
  Draco.Proofs.Edgebreaker_proofs.W NC maxv (Z.of_nat k) d /\ Draco.Proofs.Edgebreaker_fan_proofs.FI (Z.of_nat k) d /\
  D.events d = [] /\ D.invalid d = [].

Theorem ebsim_trace_CERL c2v opp nf nv niso ndeg o tr rm maxv :
  length c2v = 3 * nf -> opp_ok c2v opp -> (forall c, c < 3 * nf -> vtx c2v c < nv) -> one_fan c2v opp ->
  eb_encode_tr c2v opp nv niso ndeg = EOk (o, tr) -> class_CERL o = true -> (cntv (rev (o_syms o)) <= maxv)%Z ->
  let ns := length (o_syms o) in
  let NC := (3 * Z.of_nat (length (o_pcc o)))%Z in
  length tr = ns /\
  forall i cf, nth_error tr i = Some cf ->
    length (syms (cf_st cf)) = i /\
    exists d, D.sym_loop NC maxv rm (Z.of_nat ns) (firstn (ns - i) (rev (o_syms o))) 0 (D.init_st []) = D.Ok d /\
              sim2 c2v opp (o_pcc o) (rev (o_syms o)) ns NC maxv cf d.
Proof.
  intros Hlen OK Hv FAN Et Cl Hm ns NC.
  pose proof (trace_refines_big_step_ok _ _ _ _ _ _ _ Et) as E.
  destruct (trace_coherent _ _ _ _ _ _ _ Et) as [Lt Co]. fold ns in Lt, Co. split; auto.
  unfold class_CERL in Cl. rename Cl into Cs.
  destruct (encode_facts_wf c2v opp nf nv niso ndeg o Hlen OK Hv FAN E) as (L & ND & Fk & Ev & _).
  destruct (eb_encode_total c2v opp nf nv niso ndeg Hlen OK Hv FAN) as [T1 T2].
  destruct (Nat.eq_dec nf ndeg) as [Eq|Ne]; [rewrite (T1 Eq) in E; discriminate|].
  destruct (T2 Ne) as (o' & E' & OO & _). rewrite E in E'. inversion E'; subst o'. clear E' T1 T2.
  destruct OO as (_ & Rng & Comp & _).
  rewrite rev_length in L. fold ns in L.
  intros i cf Ecf. destruct (Co i cf Ecf) as [C1 C2].
  assert (Hi : i < ns). { rewrite <- Lt. apply nth_error_Some. congruence. }
  assert (Li : length (syms (cf_st cf)) = i). { rewrite C1, rev_length, firstn_length_le; auto. unfold ns in Hi. lia. }
  split; auto.
  assert (Rq : forall j, j < length (o_pcc o) -> nth j (o_pcc o) 0 < 3 * nf /\ is_degenerated c2v (nth j (o_pcc o) 0 / 3) = false).
  { intros j Hj. rewrite Forall_forall in Rng. apply Rng. apply nth_In. auto. }
  assert (HYQ : length (rev (o_syms o)) <= length (o_pcc o)) by (rewrite rev_length; fold ns; lia).
  destruct (sym_loop_sim c2v opp nf Hlen OK (o_pcc o) Rq ND NC maxv rm (rev (o_syms o)) eq_refl HYQ Hm FAN) with (k := ns - i) as (d & Ed & HS & HW & HF & Hnv & Hev & (Hspl & Hinv) & Hst).
  - rewrite rev_length. fold ns. lia.
  - intros j Hj. destruct (nth_error (rev (o_syms o)) j) as [y|] eqn:Ey; [|apply nth_error_None in Ey; rewrite rev_length in Ey; fold ns in Ey; lia].
    apply (efact_script c2v opp nf _ _ j y); auto; try (rewrite rev_length; fold ns; lia).
    rewrite forallb_forall in Cs. apply Cs. apply in_rev. eapply nth_error_In; eauto.
  - assert (Hinv0 : D.invalid d = []).
    { apply Hinv. right. intro X. assert (X' : In 1%Z (rev (o_syms o))).
      { rewrite <- (firstn_skipn (ns - i) (rev (o_syms o))). apply in_or_app. auto. }
      apply in_rev in X'. rewrite forallb_forall in Cs. specialize (Cs _ X'). discriminate. }
    exists d. rewrite rev_length in Ed. fold ns in Ed. split; auto. unfold sim2. rewrite Li. fold ns.
    split; auto. split. { rewrite C2. f_equal. lia. }
    split. { split; auto. replace (ns - i - 1) with (ns - i - 1) by lia. apply tops_head'. rewrite rev_length. fold ns. lia. }
    auto.
Qed.

Corollary ebsim_trace_ERL c2v opp nf nv niso ndeg o tr rm maxv :
  length c2v = 3 * nf -> opp_ok c2v opp -> (forall c, c < 3 * nf -> vtx c2v c < nv) -> one_fan c2v opp ->
  eb_encode_tr c2v opp nv niso ndeg = EOk (o, tr) -> class_ERL o = true -> (cntv (rev (o_syms o)) <= maxv)%Z ->
  let ns := length (o_syms o) in
  let NC := (3 * Z.of_nat (length (o_pcc o)))%Z in
  length tr = ns /\
  forall i cf, nth_error tr i = Some cf ->
    length (syms (cf_st cf)) = i /\
    exists d, D.sym_loop NC maxv rm (Z.of_nat ns) (firstn (ns - i) (rev (o_syms o))) 0 (D.init_st []) = D.Ok d /\
              sim2 c2v opp (o_pcc o) (rev (o_syms o)) ns NC maxv cf d.
Proof. intros. apply (ebsim_trace_CERL c2v opp nf nv niso ndeg); auto. apply class_ERL_CERL; auto. Qed.
