(** EBSIM: the Edgebreaker connectivity ROUND TRIP on the model (property C01), composed from
      Proofs/EbSimEnc_proofs.v  (encoder side: the history invariant, [encode_facts_wf])
      Proofs/EbSimDec_proofs.v  (decoder side: decoder step lemmas, the simulation relation SIM and its preservation).
    Classes are decidable predicates on the encoder's OUTPUT. *)
From Coq Require Import ZArith List Bool Lia Arith PeanoNat.
From Draco Require Import Model.CornerTable Model.EbEncoder Proofs.CornerTable_proofs Proofs.EbEncoder_proofs.
From Draco Require Import Proofs.EbSimDec_proofs Proofs.EbSimS_proofs Proofs.EbSimLoop_proofs Proofs.EbSimEnc_proofs Model.EbTrace Proofs.EbTrace_proofs.
From Draco Require Model.Edgebreaker.
Import ListNotations.
Module D := Draco.Model.Edgebreaker.

(** ** the classes *)
Definition is_ERL (y : Z) : bool := ((y =? 3) || (y =? 5) || (y =? 7))%Z.
(** only E / R / L symbols (triangle strips and fans) *)
Definition class_ERL (o : enc_out) : bool := forallb is_ERL (o_syms o).
(** + symbol C (discs) *)
Definition is_CERL (y : Z) : bool := ((y =? 0) || (y =? 3) || (y =? 5) || (y =? 7))%Z.
Definition class_CERL (o : enc_out) : bool := forallb is_CERL (o_syms o).
Lemma class_ERL_CERL o : class_ERL o = true -> class_CERL o = true.
Proof.
  unfold class_ERL, class_CERL. intros A.
  rewrite forallb_forall in *. intros y Hy. specialize (A y Hy). unfold is_ERL, is_CERL in *. lia.
Qed.
(** the vertices the decoder creates fit the declared bound (3 per E, 1 per R / L) *)
Definition verts_fit (o : enc_out) : Prop := (cntv (rev (o_syms o)) <= o_nverts o + o_nsplit o)%Z.

Lemma bits_all_false l : forallb negb l = true -> forall i, D.bits_of_list l i = false.
Proof.
  unfold D.bits_of_list. induction l as [|b l IH]; intros H i; cbn in *.
  - destruct i; auto.
  - apply andb_prop in H. destruct H as [Hb Hl]. destruct i; auto. destruct b; auto; discriminate.
Qed.
Lemma count_true_0 l : forallb negb l = true -> count_occ bool_dec l true = 0.
Proof.
  induction l as [|b l IH]; intros H; cbn in *; auto. apply andb_prop in H. destruct H as [Hb Hl].
  destruct b; [discriminate|]. destruct (bool_dec false true); [discriminate|auto].
Qed.

(** * the decoder's stack after the symbol loop, from the runs of the encoder (histories without S) *)
Lemma tops_S Y k y : nth_error Y k = Some y ->
  tops Y (S k) = if (y =? 7)%Z then k :: tops Y k else if (y =? 1)%Z then k :: tl (tl (tops Y k)) else k :: tl (tops Y k).
Proof. intros E. cbn [tops]. rewrite E. reflexivity. Qed.

Lemma tops_head' Y k : 1 <= k <= length Y -> exists T, tops Y k = (k - 1) :: T.
Proof.
  intros Hk. destruct k as [|k']; [lia|]. destruct (nth_error Y k') as [y|] eqn:E.
  - rewrite (tops_S _ _ _ E). replace (S k' - 1) with k' by lia. destruct (y =? 7)%Z; [eauto|]. destruct (y =? 1)%Z; eauto.
  - apply nth_error_None in E. lia.
Qed.

Lemma tops_block Yr Y : ~ In 7%Z Yr -> ~ In 1%Z Yr -> forall k, 1 <= k <= S (length Yr) -> tops ((7%Z :: Yr) ++ Y) k = [k - 1].
Proof.
  intros N7 N1. induction k as [|k IH]; intros Hk; [lia|].
  destruct (Nat.eq_dec k 0) as [->|Nk].
  - rewrite (tops_S _ 0 7%Z); auto.
  - assert (E : nth_error ((7%Z :: Yr) ++ Y) k = Some (nth (k - 1) Yr 0%Z)).
    { destruct k; [lia|]. cbn [app nth_error]. rewrite nth_error_app1 by lia. replace (S k - 1) with k by lia. apply nth_error_nth'. lia. }
    assert (Hin : In (nth (k - 1) Yr 0%Z) Yr) by (apply nth_In; lia).
    rewrite (tops_S _ _ _ E), IH by lia.
    destruct (nth (k - 1) Yr 0 =? 7)%Z eqn:E7; [exfalso; apply N7; apply Z.eqb_eq in E7; rewrite <- E7; auto|].
    destruct (nth (k - 1) Yr 0 =? 1)%Z eqn:E1; [exfalso; apply N1; apply Z.eqb_eq in E1; rewrite <- E1; auto|].
    cbn [tl]. f_equal. lia.
Qed.

Lemma tops_app Yr Y : ~ In 7%Z Yr -> ~ In 1%Z Yr -> (Y = [] \/ exists Y', Y = 7%Z :: Y') -> ~ In 1%Z Y ->
  forall k, k <= length Y ->
  tops ((7%Z :: Yr) ++ Y) (S (length Yr) + k) = map (fun j => S (length Yr) + j) (tops Y k) ++ [length Yr].
Proof.
  intros N7 N1 HY NY. induction k as [|k IH]; intros Hk.
  - rewrite Nat.add_0_r, tops_block by (auto; lia). cbn. f_equal. lia.
  - replace (S (length Yr) + S k) with (S (S (length Yr) + k)) by lia.
    assert (Ek : nth_error ((7%Z :: Yr) ++ Y) (S (length Yr) + k) = Some (nth k Y 0%Z)).
    { rewrite nth_error_app2 by (cbn [length]; lia). cbn [length]. replace (S (length Yr) + k - S (length Yr)) with k by lia.
      apply nth_error_nth'. lia. }
    assert (Ek' : nth_error Y k = Some (nth k Y 0%Z)) by (apply nth_error_nth'; lia).
    rewrite (tops_S _ _ _ Ek), (tops_S _ _ _ Ek'), IH by lia.
    assert (Hin : In (nth k Y 0%Z) Y) by (apply nth_In; lia).
    destruct (nth k Y 0 =? 7)%Z eqn:E7; [reflexivity|].
    destruct (nth k Y 0 =? 1)%Z eqn:E1; [exfalso; apply NY; apply Z.eqb_eq in E1; rewrite <- E1; auto|].
    assert (Kp : 1 <= k).
    { destruct k; [|lia]. exfalso. destruct HY as [->|(Y' & ->)]; [cbn in Hk; lia|]. cbn in E7. discriminate. }
    destruct (tops_head' Y k ltac:(lia)) as (T & ET). rewrite ET. cbn [map app tl]. reflexivity.
Qed.

Lemma last_nth_nat (l : list nat) : l <> [] -> last l 0 = nth (length l - 1) l 0.
Proof.
  induction l as [|a l IH]; [congruence|]. destruct l as [|a' l']; [reflexivity|]. intros _.
  change (last (a :: a' :: l') 0) with (last (a' :: l') 0). rewrite IH by discriminate. cbn [length].
  replace (S (S (length l')) - 1) with (S (S (length l') - 1)) by lia. reflexivity.
Qed.

Lemma cnt_true_app l1 l2 : cnt_true (l1 ++ l2) = cnt_true l1 + cnt_true l2.
Proof. unfold cnt_true. apply count_occ_app. Qed.
Lemma cnt_true_rev l : cnt_true (rev l) = cnt_true l.
Proof. unfold cnt_true. apply count_occ_rev. Qed.

(** the run structure in index form *)
Definition runs_idx (opp : list (option nat)) (IP : nat -> Prop) (bits : list bool) (inits P : list nat) (Y : list Z) : Prop :=
  (Y = [] \/ exists Y', Y = 7%Z :: Y') /\ length P = length Y /\ length inits = cnt_true bits /\
  length (tops Y (length Y)) = length bits /\
  forall i j, nth_error (tops Y (length Y)) i = Some j -> nth i (rev bits) false = true ->
    j < length Y /\
    exists ic, nth_error (rev inits) (cnt_true (firstn i (rev bits))) = Some ic /\ opp_at opp ic = Some (nth j P 0) /\ IP ic.

Lemma RUNS_idx opp IP bits inits P Y : RUNS opp IP bits inits P Y -> ~ In 1%Z Y -> runs_idx opp IP bits inits P Y.
Proof.
  induction 1 as [|b bits inits inits' P Y Pn Yn R IH Np Ln Sh Hb]; intros NS.
  - unfold runs_idx. cbn. split; auto. split; auto. split; auto. split; auto. intros i j X. destruct i; discriminate.
  - assert (NS1 : ~ In 1%Z Yn) by (intro X; apply NS; apply in_or_app; auto).
    assert (NS2 : ~ In 1%Z Y) by (intro X; apply NS; apply in_or_app; auto).
    destruct (Sh NS1) as (Yr & -> & N7). destruct (IH NS2) as (HY & LP & LI & LT & HF).
    assert (N1r : ~ In 1%Z Yr) by (intro X; apply NS1; right; auto).
    cbn [length] in Ln.
    assert (ET : tops ((7%Z :: Yr) ++ Y) (length ((7%Z :: Yr) ++ Y)) = map (fun j => S (length Yr) + j) (tops Y (length Y)) ++ [length Yr]).
    { rewrite app_length. cbn [length]. apply tops_app; auto. }
    unfold runs_idx. rewrite ET. split; [right; cbn [app]; eauto|]. split; [rewrite !app_length; cbn [length]; lia|].
    assert (LI' : length inits' = cnt_true (b :: bits)).
    { unfold cnt_true in *. destruct b.
      - destruct Hb as (ic & -> & _). rewrite count_occ_cons_eq by reflexivity. cbn [length]. lia.
      - subst inits'. rewrite count_occ_cons_neq by discriminate. auto. }
    split; auto. split; [rewrite app_length, map_length; cbn [length]; lia|].
    intros i j Ei Bi. cbn [rev] in Bi. cbn [rev].
    assert (Li : i < length (tops Y (length Y)) + 1).
    { assert (X : i < length (map (fun j => S (length Yr) + j) (tops Y (length Y)) ++ [length Yr])) by (apply nth_error_Some; congruence).
      rewrite app_length, map_length in X. cbn in X. lia. }
    destruct (Nat.lt_ge_cases i (length (tops Y (length Y)))) as [Lo|Hi].
    + (* an older run *)
      rewrite nth_error_app1 in Ei by (rewrite map_length; auto). rewrite nth_error_map in Ei.
      destruct (nth_error (tops Y (length Y)) i) as [j0|] eqn:Ej0; [|discriminate]. inversion Ei; subst j. clear Ei.
      rewrite app_nth1 in Bi by (rewrite rev_length; lia).
      destruct (HF i j0 Ej0 Bi) as (Hj0 & ic & A1 & A2 & A3).
      split; [rewrite app_length; cbn [length]; lia|].
      exists ic. rewrite firstn_app, rev_length. replace (i - length bits) with 0 by lia. cbn [firstn]. rewrite app_nil_r.
      split; [|split; auto].
      * assert (X : cnt_true (firstn i (rev bits)) < length (rev inits)) by (apply nth_error_Some; congruence).
        destruct b; [destruct Hb as (ic' & -> & _); cbn [rev]; rewrite nth_error_app1 by auto; auto|subst inits'; auto].
      * rewrite app_nth2 by lia. replace (S (length Yr + j0) - length Pn) with j0 by lia. auto.
    + (* the newest run *)
      assert (i = length (tops Y (length Y))) by lia. subst i.
      rewrite nth_error_app2 in Ei by (rewrite map_length; auto). rewrite map_length, Nat.sub_diag in Ei. cbn in Ei. inversion Ei; subst j.
      rewrite app_nth2 in Bi by (rewrite rev_length; lia). rewrite rev_length in Bi. replace (length (tops Y (length Y)) - length bits) with 0 in Bi by lia.
      cbn in Bi. subst b. destruct Hb as (ic & -> & Eo & Ip).
      split; [rewrite app_length; cbn [length]; lia|].
      exists ic. rewrite LT, firstn_app, rev_length, Nat.sub_diag. cbn [firstn]. rewrite app_nil_r, <- (rev_length bits), firstn_all, cnt_true_rev.
      split; [|split; auto].
      * cbn [rev]. rewrite nth_error_app2 by (rewrite rev_length; lia). rewrite rev_length. replace (cnt_true bits - length inits) with 0 by lia. reflexivity.
      * rewrite app_nth1 by lia. rewrite Eo. f_equal. replace (length Yr) with (length Pn - 1) by lia.
        apply last_nth_nat; auto.
Qed.

Lemma nth_error_skipn {A} (l : list A) n m x : nth_error (skipn n l) m = Some x -> nth_error l (n + m) = Some x.
Proof. revert l. induction n as [|n IH]; intros [|a l] H; cbn in *; auto; try (destruct m; discriminate). Qed.

(** [start_ok] from the encoder's run facts *)
Lemma start_ok_of_idx c2v opp nf Q Y B : length c2v = 3 * nf -> opp_ok c2v opp ->
  (forall j, j < length Q -> nth j Q 0 < 3 * nf /\ is_degenerated c2v (nth j Q 0 / 3) = false) ->
  NoDup (map (fun c => c / 3) Q) ->
  (forall f, f < nf -> is_degenerated c2v f = false -> In f (map (fun c => c / 3) Q)) ->
  length Y + cnt_true B = length Q ->
  length (tops Y (length Y)) = length B ->
  (forall i j, nth_error (tops Y (length Y)) i = Some j -> nth i B false = true ->
    j < length Y /\
    exists ic, nth_error (skipn (length Y) Q) (cnt_true (firstn i B)) = Some ic /\
               opp_at opp ic = Some (nth j (firstn (length Y) Q) 0) /\ IFc' c2v opp nf ic) ->
  (forall m1 m2, m1 < m2 -> length Y + m2 < length Q -> forall x1 x2, x1 < 3 * nf -> x2 < 3 * nf ->
     x1 / 3 = nth (length Y + m1) Q 0 / 3 -> x2 / 3 = nth (length Y + m2) Q 0 / 3 -> vtx c2v x1 <> vtx c2v x2) ->
  start_ok c2v opp nf Q Y B.
Proof.
  intros Hlen OK Qrng Qnd Comp L LT HF DJ. set (ns := length Y) in *.
  unfold start_ok. fold ns. split; auto. split; auto.
  intros i j Ej Bi. cbv zeta. destruct (HF i j Ej Bi) as (Hj & ic & A1 & A2 & A3).
  set (m0 := cnt_true (firstn i B)) in *. set (m := ns + m0).
  apply nth_error_skipn in A1. fold m in A1.
  assert (Hm : m < length Q) by (apply nth_error_Some; congruence).
  assert (Eic : nth m Q 0 = ic) by (apply nth_error_nth; auto).
  assert (E0 : eco Q m 0 = ic) by (unfold eco; cbn [rot]; auto).
  assert (Ejq : nth j (firstn ns Q) 0 = nth j Q 0).
  { rewrite <- (firstn_skipn ns Q) at 2. rewrite app_nth1; auto. rewrite firstn_length_le; lia. }
  rewrite Ejq in A2. split; [rewrite E0; exact A2|].
  destruct A3 as (Hic & HI).
  assert (CI : forall r, r < 3 -> Cint_t c2v opp nf Q m (eco Q m r)).
  { intros r Hr x Hx Nx Vx.
    assert (Ft : eco Q m r / 3 = ic / 3) by (unfold eco; rewrite rot_face, Eic; auto).
    assert (Ht : eco Q m r < 3 * nf).
    { unfold eco. rewrite Eic. destruct r as [|[|r]]; cbn [rot]; auto using next_lt, prev_lt. }
    destruct (HI _ Ht Ft) as (_ & HX). destruct (HX x Hx Nx Vx) as (X1 & X2). split; auto. split; auto.
    intros Ne.
    assert (Hf : x / 3 < nf) by (apply Nat.div_lt_upper_bound; lia).
    destruct (In_nth _ _ 0 (Comp _ Hf Nx)) as (j' & Hj' & Ej'). rewrite map_length in Hj'.
    assert (M : nth j' (map (fun c => c / 3) Q) 0 = nth j' Q 0 / 3) by (exact (map_nth (fun c => c / 3) Q 0 j')).
    rewrite M in Ej'.
    assert (Hlt : j' < m).
    { destruct (lt_eq_lt_dec j' m) as [[Lo|Eq]|Gt]; auto.
      - subst j'. exfalso. apply Ne. apply (same_face_vertex c2v); auto. rewrite <- Ej', Eic, Ft. auto.
        destruct (Qrng m Hm) as [_ Dm]. rewrite Ft, <- Eic. auto.
      - exfalso. apply (DJ m0 (j' - ns)) with (x1 := eco Q m r) (x2 := x); auto; try lia.
        + fold m. rewrite Eic. auto.
        + replace (ns + (j' - ns)) with j' by lia. auto. }
    symmetry in Ej'. destruct (face_rot _ _ Ej') as (r' & Hr' & Er'). exists j', r'. auto. }
  split; [apply CI; lia|]. split; apply CI; lia.
Qed.

Lemma start_ok_of_facts c2v opp nf Q Y B : length c2v = 3 * nf -> opp_ok c2v opp ->
  (forall j, j < length Q -> nth j Q 0 < 3 * nf /\ is_degenerated c2v (nth j Q 0 / 3) = false) ->
  NoDup (map (fun c => c / 3) Q) ->
  (forall f, f < nf -> is_degenerated c2v f = false -> In f (map (fun c => c / 3) Q)) ->
  length Y + cnt_true B = length Q -> ~ In 1%Z Y ->
  RUNS opp (IFc' c2v opp nf) (rev B) (rev (skipn (length Y) Q)) (firstn (length Y) Q) Y ->
  (forall m1 m2, m1 < m2 -> length Y + m2 < length Q -> forall x1 x2, x1 < 3 * nf -> x2 < 3 * nf ->
     x1 / 3 = nth (length Y + m1) Q 0 / 3 -> x2 / 3 = nth (length Y + m2) Q 0 / 3 -> vtx c2v x1 <> vtx c2v x2) ->
  start_ok c2v opp nf Q Y B.
Proof.
  intros Hlen OK Qrng Qnd Comp L NS R DJ.
  destruct (RUNS_idx _ _ _ _ _ _ R NS) as (_ & _ & _ & LT & HF).
  rewrite rev_length in LT. rewrite !rev_involutive in HF.
  apply start_ok_of_idx; auto.
Qed.

Lemma efact_script c2v opp nf Q Y k y : length c2v = 3 * nf -> length Y <= length Q ->
  (forall f, f < nf -> is_degenerated c2v f = false -> In f (map (fun c => c / 3) Q)) ->
  nth_error Y k = Some y -> is_CERL y = true ->
  efact c2v opp nf Q k (nth k Q 0) y -> script_at c2v opp nf Q Y k.
Proof.
  intros Hlen HYQ Comp Ey Cl (A & B & C & Dd). cbv zeta in Dd. unfold script_at. rewrite Ey. unfold ncr, eco. cbn [rot].
  assert (Hk : k < length Q). { assert (k < length Y) by (apply nth_error_Some; congruence). lia. }
  assert (NV : forall e, nvis Q k (opp_at opp e) -> match opp_at opp e with Some o => forall j', j' < k -> nth j' Q 0 / 3 <> o / 3 | None => True end).
  { intros e H. destruct (opp_at opp e) as [o0|]; auto. }
  unfold is_CERL in Cl.
  destruct Dd as [(D1 & D2 & D3)|[(D1 & D2 & D3 & D4)|[(D1 & D2 & D3 & D4)|[(D1 & D2 & D3 & D4)|(D1 & D2)]]]]; subst y; try discriminate.
  - left. repeat split; auto; apply NV; auto.
  - right. left. repeat split; auto; apply NV; auto.
  - right. right. left. repeat split; auto; apply NV; auto.
  - right. right. right. left. split; auto. split; auto. split; auto. split; [apply NV; auto|].
    intros x Hx Nx Vx. unfold eco in Vx. cbn [rot] in Vx. destruct (D4 x Hx Nx Vx) as (R1 & R2 & R3). split; auto. split; auto.
    intros Ne. unfold eco in Ne. cbn [rot] in Ne.
    assert (Hf : x / 3 < nf) by (apply Nat.div_lt_upper_bound; lia).
    destruct (In_nth _ _ 0 (Comp _ Hf Nx)) as (j' & Hj' & Ej'). rewrite map_length in Hj'.
    assert (M : nth j' (map (fun c => c / 3) Q) 0 = nth j' Q 0 / 3) by (exact (map_nth (fun c => c / 3) Q 0 j')).
    rewrite M in Ej'.
    assert (Hlt : j' < k).
    { destruct (lt_eq_lt_dec j' k) as [[L|E]|G]; auto.
      - subst j'. exfalso. apply Ne. apply (same_face_vertex c2v); auto.
      - exfalso. apply (R3 j'); auto. }
    symmetry in Ej'. destruct (face_rot _ _ Ej') as (r' & Hr' & Er'). exists j', r'. auto.
Qed.

(** ** C / E / R / L: the state machine [eb_core] on the encoder's output, for every well-formed table *)
Theorem ebsim_roundtrip_CERL_core c2v opp nf nv niso ndeg o rm maxv :
  length c2v = 3 * nf -> opp_ok c2v opp -> (forall c, c < 3 * nf -> vtx c2v c < nv) -> one_fan c2v opp ->
  eb_encode c2v opp nv niso ndeg = EOk o -> class_CERL o = true -> (cntv (rev (o_syms o)) <= maxv)%Z ->
  let F := Z.of_nat (length (o_pcc o)) in
  exists n s, D.eb_core (3 * F) maxv F rm (rev (o_syms o)) (o_events o) (D.bits_of_list (o_bits o)) = D.Ok (n, s) /\
              eb_iso c2v opp (o_pcc o) (D.c2v s) (D.copp s).
Proof.
  intros Hlen OK Hv FAN E Cs Hm F. unfold class_CERL in Cs.
  destruct (encode_facts_wf c2v opp nf nv niso ndeg o Hlen OK Hv FAN E) as (L & ND & Fk & Ev & RU & DJ).
  destruct (eb_encode_total c2v opp nf nv niso ndeg Hlen OK Hv FAN) as [T1 T2].
  destruct (Nat.eq_dec nf ndeg) as [Eq|Ne]; [rewrite (T1 Eq) in E; discriminate|].
  destruct (T2 Ne) as (o' & E' & OO & _). rewrite E in E'. inversion E'; subst o'. clear E' T1 T2.
  destruct OO as (_ & Rng & Comp & _).
  assert (NS : ~ In 1%Z (rev (o_syms o))).
  { intro X. apply in_rev in X. rewrite forallb_forall in Cs. specialize (Cs _ X). discriminate. }
  rewrite (Ev NS).
  assert (Rq : forall j, j < length (o_pcc o) -> nth j (o_pcc o) 0 < 3 * nf /\ is_degenerated c2v (nth j (o_pcc o) 0 / 3) = false).
  { intros j Hj. rewrite Forall_forall in Rng. apply Rng. apply nth_In. auto. }
  apply (dec_roundtrip_noS c2v opp nf Hlen OK (o_pcc o) Rq ND (3 * F)%Z maxv rm (rev (o_syms o)) eq_refl ltac:(lia) Hm FAN); auto.
  - intros j Hj. destruct (nth_error (rev (o_syms o)) j) as [y|] eqn:Ey; [|apply nth_error_None in Ey; lia].
    apply (efact_script c2v opp nf _ _ j y); auto; try lia.
    rewrite forallb_forall in Cs. apply Cs. apply in_rev. eapply nth_error_In; eauto.
  - apply start_ok_of_facts; auto.
Qed.

Theorem ebsim_roundtrip_ERL_core c2v opp nf nv niso ndeg o rm maxv :
  length c2v = 3 * nf -> opp_ok c2v opp -> (forall c, c < 3 * nf -> vtx c2v c < nv) -> one_fan c2v opp ->
  eb_encode c2v opp nv niso ndeg = EOk o -> class_ERL o = true -> (cntv (rev (o_syms o)) <= maxv)%Z ->
  let F := Z.of_nat (length (o_pcc o)) in
  exists n s, D.eb_core (3 * F) maxv F rm (rev (o_syms o)) (o_events o) (D.bits_of_list (o_bits o)) = D.Ok (n, s) /\
              eb_iso c2v opp (o_pcc o) (D.c2v s) (D.copp s).
Proof. intros. apply (ebsim_roundtrip_CERL_core c2v opp nf nv niso ndeg); auto. apply class_ERL_CERL; auto. Qed.

(** ** C / E / R / L: the whole decoder [eb_decode_of] (header guards + state machine) on the output of the encoder run on a
    table built by CornerTable::Create.  Premises not derived here: the size bound in which the C13 model is faithful,
    guard G3 of the decoder (simple vertex/edge graph, see Properties_EBENC) and [verts_fit]. *)
Theorem ebsim_roundtrip_CERL faces t o rm : ct_create faces = Some t -> eb_encode_ct t = EOk o -> class_CERL o = true ->
  (Z.of_nat (3 * length faces + length (ct_vcorn t)) < 2147483648)%Z ->
  ((3 * o_nfaces o) / 2 <= (o_nverts o * (o_nverts o - 1)) / 2)%Z ->
  verts_fit o ->
  exists n s, eb_decode_of o rm = D.Ok (n, s) /\ eb_iso (ct_c2v t) (ct_opp t) (o_pcc o) (D.c2v s) (D.copp s).
Proof.
  intros H E Cl Sz G3 VF.
  destruct (ct_create_wf _ _ H) as (L & OK & Hv & FAN & _).
  destruct (eb_encode_ct_counts faces t o H E) as (_ & _ & _ & _ & _ & Nf & _).
  assert (Ev : o_events o = []).
  { destruct (encode_facts_wf _ _ _ _ _ _ o L OK Hv FAN E) as (_ & _ & _ & Ev). apply Ev.
    unfold class_CERL in Cl.
    intro X. apply in_rev in X. rewrite forallb_forall in Cl. specialize (Cl _ X). discriminate. }
  destruct (eb_encode_ct_guards faces t o rm H E Sz G3) as (Eq & _).
  { rewrite Ev. cbn. lia. }
  rewrite Eq. rewrite <- Nf.
  apply (ebsim_roundtrip_CERL_core (ct_c2v t) (ct_opp t) (length faces) (length (ct_vcorn t)) (ct_niso t) (ct_ndeg t) o rm); auto.
Qed.

Theorem ebsim_roundtrip_ERL faces t o rm : ct_create faces = Some t -> eb_encode_ct t = EOk o -> class_ERL o = true ->
  (Z.of_nat (3 * length faces + length (ct_vcorn t)) < 2147483648)%Z ->
  ((3 * o_nfaces o) / 2 <= (o_nverts o * (o_nverts o - 1)) / 2)%Z ->
  verts_fit o ->
  exists n s, eb_decode_of o rm = D.Ok (n, s) /\ eb_iso (ct_c2v t) (ct_opp t) (o_pcc o) (D.c2v s) (D.copp s).
Proof. intros. apply (ebsim_roundtrip_CERL faces t o rm); auto. apply class_ERL_CERL; auto. Qed.

(** ** The simulation along the TRACE (Model/EbTrace.v).
    [sim2 ... cf d]: configuration [cf] of the encoder (it has emitted i = |syms| symbols and is about to process
    [cf_corner cf]) against the decoder state [d] after the LAST  k = ns - i  symbols:
      - SIM k d : the decoder has created exactly the faces of Q[0..k-1] (Q = o_pcc, the corners in decoder order), with
        Opposite / vertices as in [SIM];
      - these are exactly the faces the encoder has NOT processed yet:  cf_corner :: pcc = Q[k-1 .. ns-1];
      - the decoder's active_corner_stack lists the tip corners 3j of the faces [tops Y k] (computed from the symbols: E pushes,
        C / R / L replace the top, S merges the two top entries); its top is the face of [cf_corner cf];
      - W, FI: the decoder's own invariants; no pending split event, no invalidated vertex (classes without S). *)
Definition sim2 (c2v : list nat) (opp : list (option nat)) (Q : list nat) (Y : list Z) (ns : nat) (NC maxv : Z) (cf : cfg) (d : D.st) : Prop :=
  let i := length (syms (cf_st cf)) in
  let k := ns - i in
  SIM c2v opp Q k d /\
  cf_corner cf :: pcc (cf_st cf) = skipn (k - 1) (firstn ns Q) /\
  (D.stack d = map (fun j => dco j 0) (tops Y k) /\ exists T, tops Y k = (k - 1) :: T) /\
  Draco.Proofs.Edgebreaker_proofs.W NC maxv (Z.of_nat k) d /\ Draco.Proofs.Edgebreaker_fan_proofs.FI (Z.of_nat k) d /\
  D.events d = [] /\ D.invalid d = [].

Theorem ebsim_trace_CERL c2v opp nf nv niso ndeg o tr rm maxv :
  length c2v = 3 * nf -> opp_ok c2v opp -> (forall c, c < 3 * nf -> vtx c2v c < nv) -> one_fan c2v opp ->
  eb_encode_tr c2v opp nv niso ndeg = EOk (o, tr) -> class_CERL o = true -> (cntv (rev (o_syms o)) <= maxv)%Z ->
  let ns := length (o_syms o) in
  let NC := (3 * Z.of_nat (length (o_pcc o)))%Z in
  length tr = ns /\
  forall i cf, nth_error tr i = Some cf ->
    length (syms (cf_st cf)) = i /\
    exists d, D.sym_loop NC maxv rm (Z.of_nat ns) (firstn (ns - i) (rev (o_syms o))) 0 (D.init_st []) = D.Ok d /\
              sim2 c2v opp (o_pcc o) (rev (o_syms o)) ns NC maxv cf d.
Proof.
  intros Hlen OK Hv FAN Et Cl Hm ns NC.
  pose proof (trace_refines_big_step_ok _ _ _ _ _ _ _ Et) as E.
  destruct (trace_coherent _ _ _ _ _ _ _ Et) as [Lt Co]. fold ns in Lt, Co. split; auto.
  unfold class_CERL in Cl. rename Cl into Cs.
  destruct (encode_facts_wf c2v opp nf nv niso ndeg o Hlen OK Hv FAN E) as (L & ND & Fk & Ev & _).
  destruct (eb_encode_total c2v opp nf nv niso ndeg Hlen OK Hv FAN) as [T1 T2].
  destruct (Nat.eq_dec nf ndeg) as [Eq|Ne]; [rewrite (T1 Eq) in E; discriminate|].
  destruct (T2 Ne) as (o' & E' & OO & _). rewrite E in E'. inversion E'; subst o'. clear E' T1 T2.
  destruct OO as (_ & Rng & Comp & _).
  rewrite rev_length in L. fold ns in L.
  intros i cf Ecf. destruct (Co i cf Ecf) as [C1 C2].
  assert (Hi : i < ns). { rewrite <- Lt. apply nth_error_Some. congruence. }
  assert (Li : length (syms (cf_st cf)) = i). { rewrite C1, rev_length, firstn_length_le; auto. unfold ns in Hi. lia. }
  split; auto.
  assert (Rq : forall j, j < length (o_pcc o) -> nth j (o_pcc o) 0 < 3 * nf /\ is_degenerated c2v (nth j (o_pcc o) 0 / 3) = false).
  { intros j Hj. rewrite Forall_forall in Rng. apply Rng. apply nth_In. auto. }
  assert (HYQ : length (rev (o_syms o)) <= length (o_pcc o)) by (rewrite rev_length; fold ns; lia).
  destruct (sym_loop_sim c2v opp nf Hlen OK (o_pcc o) Rq ND NC maxv rm (rev (o_syms o)) eq_refl HYQ Hm FAN) with (k := ns - i) as (d & Ed & HS & HW & HF & Hnv & Hev & (Hspl & Hinv) & Hst).
  - rewrite rev_length. fold ns. lia.
  - intros j Hj. destruct (nth_error (rev (o_syms o)) j) as [y|] eqn:Ey; [|apply nth_error_None in Ey; rewrite rev_length in Ey; fold ns in Ey; lia].
    apply (efact_script c2v opp nf _ _ j y); auto; try (rewrite rev_length; fold ns; lia).
    rewrite forallb_forall in Cs. apply Cs. apply in_rev. eapply nth_error_In; eauto.
  - assert (Hinv0 : D.invalid d = []).
    { apply Hinv. right. intro X. assert (X' : In 1%Z (rev (o_syms o))).
      { rewrite <- (firstn_skipn (ns - i) (rev (o_syms o))). apply in_or_app. auto. }
      apply in_rev in X'. rewrite forallb_forall in Cs. specialize (Cs _ X'). discriminate. }
    exists d. rewrite rev_length in Ed. fold ns in Ed. split; auto. unfold sim2. rewrite Li. fold ns.
    split; auto. split. { rewrite C2. f_equal. lia. }
    split. { split; auto. replace (ns - i - 1) with (ns - i - 1) by lia. apply tops_head'. rewrite rev_length. fold ns. lia. }
    auto.
Qed.

Corollary ebsim_trace_ERL c2v opp nf nv niso ndeg o tr rm maxv :
  length c2v = 3 * nf -> opp_ok c2v opp -> (forall c, c < 3 * nf -> vtx c2v c < nv) -> one_fan c2v opp ->
  eb_encode_tr c2v opp nv niso ndeg = EOk (o, tr) -> class_ERL o = true -> (cntv (rev (o_syms o)) <= maxv)%Z ->
  let ns := length (o_syms o) in
  let NC := (3 * Z.of_nat (length (o_pcc o)))%Z in
  length tr = ns /\
  forall i cf, nth_error tr i = Some cf ->
    length (syms (cf_st cf)) = i /\
    exists d, D.sym_loop NC maxv rm (Z.of_nat ns) (firstn (ns - i) (rev (o_syms o))) 0 (D.init_st []) = D.Ok d /\
              sim2 c2v opp (o_pcc o) (rev (o_syms o)) ns NC maxv cf d.
Proof. intros. apply (ebsim_trace_CERL c2v opp nf nv niso ndeg); auto. apply class_ERL_CERL; auto. Qed.

(** * S without split events: the decoder's stack from the encoder's trace.
    [ndp]: the stack discipline of the trace WITHOUT pops of already visited entries ("no dead pop"): after a symbol the next
    configuration's stack is exactly what the symbol leaves (E: pop; S: right and left corner on top; C/R/L: unchanged); the
    first configuration starts with the stack [corner], the last one ends with it (ONE run: one edge-connected component).
    Decidable on the trace; every encoding with a split event violates it. *)
Definition the (o : option nat) : nat := match o with Some x => x | None => 0 end.

Definition ndp (opp : list (option nat)) (tr : list cfg) : Prop :=
  (forall cf, nth_error tr 0 = Some cf -> stack (cf_st cf) = [Some (cf_corner cf)]) /\
  (forall cf, nth_error tr (length tr - 1) = Some cf -> tl (stack (cf_st cf)) = []) /\
  forall i cf cf', nth_error tr i = Some cf -> nth_error tr (S i) = Some cf' ->
    stack (cf_st cf') = pushed opp (hd 0%Z (syms (cf_st cf'))) (cf_corner cf) (stack (cf_st cf)).

Lemma nth_skipn' {A} (l : list A) d : forall n i, nth i (skipn n l) d = nth (n + i) l d.
Proof. induction l as [|a l IH]; intros [|n] i; cbn [skipn nth Nat.add]; auto. destruct i; auto. Qed.

Lemma firstn_cons_inv {A} n (l : list A) a r : firstn (S n) l = a :: r -> exists l', l = a :: l' /\ firstn n l' = r.
Proof. destruct l as [|b l]; cbn; intros H; inversion H; subst. eauto. Qed.

Section Stk.
Variables (opp : list (option nat)) (Q : list nat) (osyms : list Z) (tr : list cfg).
Let ns := length osyms.
Let Y := rev osyms.
Hypothesis Ltr : length tr = ns.
Hypothesis Coh : forall i cf, nth_error tr i = Some cf ->
  syms (cf_st cf) = rev (firstn i osyms) /\ cf_corner cf :: pcc (cf_st cf) = skipn (ns - 1 - i) (firstn ns Q).
Hypothesis LQ : ns <= length Q.
Hypothesis Steps : forall i cf cf', nth_error tr i = Some cf -> nth_error tr (S i) = Some cf' -> tstep opp cf cf'.
Hypothesis NDP : ndp opp tr.

Let cfg0 := mk_cfg 0 (mk_est [] [] [] 0%Z 0 [] [] [] [] []).
Let cfi (i : nat) : cfg := nth i tr cfg0.

Lemma cfi_nth i : i < ns -> nth_error tr i = Some (cfi i).
Proof. intros H. apply nth_error_nth'. lia. Qed.

Lemma corner_Q i : i < ns -> cf_corner (cfi i) = nth (ns - 1 - i) Q 0.
Proof.
  intros H. destruct (Coh i _ (cfi_nth i H)) as [_ C].
  assert (E : nth 0 (cf_corner (cfi i) :: pcc (cf_st (cfi i))) 0 = nth 0 (skipn (ns - 1 - i) (firstn ns Q)) 0) by (rewrite C; auto).
  cbn [nth] in E. rewrite E. rewrite nth_skipn'. rewrite Nat.add_0_r. rewrite <- (firstn_skipn ns Q) at 2. rewrite app_nth1; auto.
  rewrite firstn_length_le; lia.
Qed.

(** the symbol emitted at configuration i *)
Lemma sym_at i : S i < ns -> hd 0%Z (syms (cf_st (cfi (S i)))) = nth i osyms 0%Z.
Proof.
  intros H. destruct (Coh (S i) _ (cfi_nth (S i) H)) as [C _]. rewrite C.
  rewrite (firstn_S_nth osyms i (nth i osyms 0%Z)) by (apply nth_error_nth'; unfold ns in H; lia).
  rewrite rev_app_distr. reflexivity.
Qed.
Lemma Y_at k : k < ns -> nth_error Y k = Some (nth (ns - 1 - k) osyms 0%Z).
Proof.
  intros H. unfold Y. rewrite nth_error_nth' with (d := 0%Z) by (rewrite rev_length; auto). f_equal.
  rewrite rev_nth by auto. f_equal. unfold ns. lia.
Qed.

(** every stack of the trace is non-empty and holds valid corners only *)
Lemma stacks_some : forall i, i < ns -> stack (cf_st (cfi i)) <> [] /\ Forall (fun o => o <> None) (stack (cf_st (cfi i))).
Proof.
  destruct NDP as (N0 & _ & N1). induction i as [|i IH]; intros Hi.
  - rewrite (N0 _ (cfi_nth 0 Hi)). split; [discriminate|]. constructor; [discriminate|constructor].
  - destruct (IH ltac:(lia)) as [A B].
    pose proof (Steps i _ _ (cfi_nth i ltac:(lia)) (cfi_nth (S i) Hi)) as [T1 T2].
    pose proof (N1 i _ _ (cfi_nth i ltac:(lia)) (cfi_nth (S i) Hi)) as E.
    set (y := hd 0%Z (syms (cf_st (cfi (S i))))) in *.
    assert (Tl : Forall (fun o => o <> None) (tl (stack (cf_st (cfi i))))) by (destruct (stack (cf_st (cfi i))); [constructor|inversion B; auto]).
    unfold pushed in E. destruct (y =? 7)%Z eqn:E7.
    + apply Z.eqb_eq in E7. specialize (T2 (or_introl E7)). split; [intro X; rewrite X in T2; discriminate|]. rewrite E. auto.
    + destruct (y =? 1)%Z eqn:E1.
      * apply Z.eqb_eq in E1. rewrite E. split; [discriminate|].
        destruct T1 as [(y' & dead & L1 & _ & L3)|(y' & L1 & L2)].
        -- assert (y' = y) by (unfold y; rewrite L1; reflexivity). subst y'. destruct (L3 E1). constructor; auto.
        -- rewrite L2 in E. discriminate.
      * rewrite E. auto.
Qed.

Definition nthQ (j : nat) : nat := nth j Q 0.

(** the decoder's stack after k+1 symbols starts with the corner of configuration ns-1-k followed by its stack below the top *)
Lemma tops_stack : forall k, k < ns ->
  let cf := cfi (ns - 1 - k) in
  map nthQ (tops Y (S k)) = cf_corner cf :: map the (tl (stack (cf_st cf))).
Proof.
  destruct NDP as (N0 & NL & N1). induction k as [|k IH]; intros Hk cf.
  - (* the last symbol *)
    assert (T1 : tops Y 1 = [0]).
    { rewrite (tops_S Y 0 _ (Y_at 0 Hk)). cbn [tops]. destruct (_ =? 7)%Z; auto. destruct (_ =? 1)%Z; auto. }
    rewrite T1. cbn [map]. unfold cf. replace (ns - 1 - 0) with (ns - 1) by lia.
    assert (Hl : ns - 1 < ns) by lia.
    pose proof (NL _ ltac:(rewrite Ltr; apply (cfi_nth _ Hl))) as Tl0.
    destruct (stacks_some _ Hl) as [Ne _]. destruct (stack (cf_st (cfi (ns - 1)))) as [|t r] eqn:Es; [congruence|].
    cbn [tl] in Tl0. subst r. cbn. unfold nthQ. rewrite (corner_Q _ Hl). f_equal. f_equal. lia.
  - set (i := ns - 1 - S k) in *.
    assert (Hi : i < ns) by (unfold i; lia). assert (Hi' : S i < ns) by (unfold i; lia).
    assert (Ei : ns - 1 - k = S i) by (unfold i; lia).
    specialize (IH ltac:(lia)). cbv zeta in IH. rewrite Ei in IH.
    set (cf' := cfi (S i)) in *. fold cf.
    pose proof (Steps i _ _ (cfi_nth i Hi) (cfi_nth (S i) Hi')) as [T1 T2]. fold cf cf' in T1, T2.
    pose proof (N1 i _ _ (cfi_nth i Hi) (cfi_nth (S i) Hi')) as E. fold cf cf' in E.
    assert (Ey : hd 0%Z (syms (cf_st cf')) = nth i osyms 0%Z) by (apply sym_at; auto).
    rewrite Ey in E, T2.
    assert (EY : nth_error Y (S k) = Some (nth i osyms 0%Z)) by (rewrite (Y_at (S k) Hk); reflexivity).
    rewrite (tops_S Y (S k) _ EY).
    destruct (stacks_some _ Hi) as [Ne As]. fold cf in Ne, As.
    assert (Ec : nthQ (S k) = cf_corner cf) by (unfold nthQ, cf; rewrite (corner_Q _ Hi); f_equal; unfold i; lia).
    set (y := nth i osyms 0%Z) in *. unfold pushed in E.
    destruct (y =? 7)%Z eqn:E7.
    + cbn [map]. rewrite Ec. f_equal. apply Z.eqb_eq in E7.
      specialize (T2 (or_introl E7)). rewrite E in IH, T2. rewrite IH.
      destruct (tl (stack (cf_st cf))) as [|t1 r1]; [discriminate|]. cbn [hd] in T2. subst t1. reflexivity.
    + destruct (y =? 1)%Z eqn:E1.
      * rewrite E in IH. cbn [tl map] in IH.
        destruct (tops Y (S k)) as [|t0 [|t1 T2']]; cbn [map] in IH; try discriminate. injection IH as I1 I2 I3.
        cbn [tl map]. rewrite Ec. f_equal. exact I3.
      * rewrite E in IH.
        destruct (tops Y (S k)) as [|t0 T1']; cbn [map] in IH; try discriminate. injection IH as I1 I2.
        cbn [tl map]. rewrite Ec. f_equal. exact I2.
Qed.

(** the facts of an S symbol: the next processed corner is the right corner, the entry below the top of the decoder's stack
    is the left corner *)
Lemma S_stack_facts k : nth_error Y 0 = Some 7%Z -> k < ns -> nth_error Y k = Some 1%Z ->
  1 <= k /\ oat opp (next_c (nthQ k)) = Some (nthQ (k - 1)) /\
  exists ja T, tops Y k = (k - 1) :: ja :: T /\ oat opp (prev_c (nthQ k)) = Some (nthQ ja).
Proof.
  intros Y0 Hk Ek. destruct NDP as (N0 & NL & N1).
  assert (K1 : 1 <= k). { destruct k; [congruence|lia]. }
  set (i := ns - 1 - k). assert (Hi : i < ns) by (unfold i; lia). assert (Hi' : S i < ns) by (unfold i; lia).
  assert (Ey : nth i osyms 0%Z = 1%Z). { rewrite (Y_at k Hk) in Ek. inversion Ek. reflexivity. }
  set (cf := cfi i). set (cf' := cfi (S i)).
  pose proof (Steps i _ _ (cfi_nth i Hi) (cfi_nth (S i) Hi')) as [T1 T2]. fold cf cf' in T1, T2.
  pose proof (N1 i _ _ (cfi_nth i Hi) (cfi_nth (S i) Hi')) as E. fold cf cf' in E.
  assert (Es : hd 0%Z (syms (cf_st cf')) = 1%Z) by (unfold cf'; rewrite sym_at; auto).
  rewrite Es in E, T2.
  unfold pushed in E. cbn [Z.eqb Pos.eqb] in E.
  specialize (T2 (or_intror eq_refl)). rewrite E in T2. cbn [hd] in T2.
  assert (Ec : cf_corner cf = nthQ k) by (unfold cf, nthQ; rewrite (corner_Q _ Hi); f_equal; unfold i; lia).
  assert (Ec' : cf_corner cf' = nthQ (k - 1)) by (unfold cf', nthQ; rewrite (corner_Q _ Hi'); f_equal; unfold i; lia).
  rewrite Ec in T2, E. rewrite Ec' in T2. split; auto. split; auto.
  assert (Nl : oat opp (prev_c (nthQ k)) <> None).
  { destruct T1 as [(y' & dead & L1 & _ & L3)|(y' & L1 & L2)].
    - assert (y' = 1%Z) by (rewrite L1 in Es; exact Es). subst y'. rewrite Ec in L3. apply L3. reflexivity.
    - rewrite L2 in E. discriminate. }
  destruct (oat opp (prev_c (nthQ k))) as [lc|] eqn:El; [|congruence].
  pose proof (tops_stack (k - 1) ltac:(lia)) as TS. cbv zeta in TS.
  replace (ns - 1 - (k - 1)) with (S i) in TS by (unfold i; lia). replace (S (k - 1)) with k in TS by lia. fold cf' in TS.
  rewrite E in TS. cbn [length tl map the] in TS.
  destruct (tops_head' Y k ltac:(unfold Y; rewrite rev_length; fold ns; lia)) as (T0 & ET). rewrite ET in TS |- *. cbn [map] in TS.
  destruct T0 as [|ja T']; cbn [map] in TS; [discriminate|]. injection TS as L1 L2 L3.
  exists ja, T'. split; auto.
Qed.
End Stk.

(** ** S without split events, one run, every value of remove_invalid_vertices - with it the decoder's vertex compaction runs,
    [dec_roundtrip_rm] (PARTIAL: the stack discipline [ndp] of the trace is a premise; it is decidable, see [ndp_b]) *)
Definition is_sym (y : Z) : bool := ((y =? 0) || (y =? 1) || (y =? 3) || (y =? 5) || (y =? 7))%Z.
Definition class_noev1 (o : enc_out) : bool :=
  forallb is_sym (o_syms o) && (match o_events o with [] => true | _ => false end) &&
  (length (o_bits o) =? 1) && (hd 0 (rev (o_syms o)) =? 7)%Z.

Theorem ebsim_roundtrip_noev1_partial c2v opp nf nv niso ndeg o tr rm maxv :
  length c2v = 3 * nf -> opp_ok c2v opp -> (forall c, c < 3 * nf -> vtx c2v c < nv) -> one_fan c2v opp ->
  eb_encode_tr c2v opp nv niso ndeg = EOk (o, tr) -> class_noev1 o = true -> ndp opp tr -> (cntv (rev (o_syms o)) <= maxv)%Z ->
  let F := Z.of_nat (length (o_pcc o)) in
  exists n s, D.eb_core (3 * F) maxv F rm (rev (o_syms o)) (o_events o) (D.bits_of_list (o_bits o)) = D.Ok (n, s) /\
              eb_iso c2v opp (o_pcc o) (D.c2v s) (D.copp s).
Proof.
  intros Hlen OK Hv FAN Et Cl NDP Hm F.
  pose proof (trace_refines_big_step_ok _ _ _ _ _ _ _ Et) as E.
  destruct (trace_coherent _ _ _ _ _ _ _ Et) as [Lt Co].
  pose proof (trace_steps _ _ _ _ _ _ _ Et) as Steps.
  unfold class_noev1 in Cl. apply andb_prop in Cl. destruct Cl as [Cl C4]. apply andb_prop in Cl. destruct Cl as [Cl C3].
  apply andb_prop in Cl. destruct Cl as [Cs C2]. apply Nat.eqb_eq in C3. apply Z.eqb_eq in C4.
  destruct (o_events o) as [|ev evs'] eqn:Eev; [|discriminate]. clear C2.
  destruct (encode_facts_wf c2v opp nf nv niso ndeg o Hlen OK Hv FAN E) as (L & ND & Fk & _ & RU & DJ).
  destruct (eb_encode_total c2v opp nf nv niso ndeg Hlen OK Hv FAN) as [T1 T2].
  destruct (Nat.eq_dec nf ndeg) as [Eq|Ne]; [rewrite (T1 Eq) in E; discriminate|].
  destruct (T2 Ne) as (o' & E' & OO & _). rewrite E in E'. inversion E'; subst o'. clear E' T1 T2.
  destruct OO as (_ & Rng & Comp & _).
  set (Q := o_pcc o) in *. set (Y := rev (o_syms o)) in *. set (ns := length (o_syms o)) in *.
  assert (LY : length Y = ns) by (unfold Y; apply rev_length).
  assert (Rq : forall j, j < length Q -> nth j Q 0 < 3 * nf /\ is_degenerated c2v (nth j Q 0 / 3) = false).
  { intros j Hj. rewrite Forall_forall in Rng. apply Rng. apply nth_In. auto. }
  assert (LQ : ns <= length Q) by lia.
  assert (Hns : 1 <= ns). { destruct Y as [|y0 Y'] eqn:EY; [cbn in C4; discriminate|]. cbn in LY. lia. }
  assert (Y0 : nth_error Y 0 = Some 7%Z). { destruct Y as [|y0 Y']; [cbn in C4; discriminate|]. cbn in C4 |- *. congruence. }
  pose proof (tops_stack opp Q (o_syms o) tr Lt Co LQ Steps NDP) as TS.
  pose proof (S_stack_facts opp Q (o_syms o) tr Lt Co LQ Steps NDP) as SF.
  fold Y ns in TS, SF.
  apply (dec_roundtrip_rm c2v opp nf Hlen OK Q Rq ND (3 * F)%Z maxv rm Y eq_refl ltac:(lia) Hm FAN); auto.
  - intros j Hj. rewrite LY in Hj. destruct (nth_error Y j) as [y|] eqn:Ey; [|apply nth_error_None in Ey; lia].
    assert (Hy : is_sym y = true). { rewrite forallb_forall in Cs. apply Cs. apply in_rev. eapply nth_error_In; eauto. }
    destruct (Z.eq_dec y 1) as [->|Ny].
    + (* S *)
      destruct (SF j Y0 Hj Ey) as (K1 & Er & ja & T & ET & El).
      destruct (Fk j 1%Z Ey) as (A & B & C & Dd). cbv zeta in Dd.
      destruct Dd as [(D1 & _)|[(D1 & _)|[(D1 & _)|[(D1 & _)|(_ & SB)]]]]; try discriminate.
      unfold script_at. rewrite Ey. right. right. right. right.
      split; auto. split; auto. split; [exact Er|]. split.
      { unfold ncr, eco. cbn [rot]. destruct (opp_at opp (nth j Q 0)) as [o0|] eqn:Eo; auto. }
      split; [exists ja, T; split; [exact ET|exact El]|]. exact SB.
    + apply (efact_script c2v opp nf Q Y j y); auto; try lia.
      unfold is_sym in Hy. unfold is_CERL. lia.
  - (* the start-face phase: one run *)
    assert (Hl : ns - 1 < ns) by lia.
    specialize (TS (ns - 1) Hl). cbv zeta in TS. replace (ns - 1 - (ns - 1)) with 0 in TS by lia. replace (S (ns - 1)) with ns in TS by lia.
    destruct NDP as (N0 & _ & _).
    assert (E0 : nth_error tr 0 = Some (nth 0 tr (mk_cfg 0 (mk_est [] [] [] 0%Z 0 [] [] [] [] [])))) by (apply nth_error_nth'; lia).
    rewrite (N0 _ E0) in TS. cbn [tl map] in TS.
    assert (LT : length (tops Y ns) = 1) by (rewrite <- (map_length (nthQ Q)), TS; reflexivity).
    apply start_ok_of_idx; auto; rewrite ?LY; [lia|].
    intros i j Ej Bi.
      assert (i = 0). { assert (i < length (tops Y ns)) by (apply nth_error_Some; congruence). lia. } subst i.
      destruct (tops_head' Y ns ltac:(lia)) as (T0 & ET). rewrite ET in Ej. cbn in Ej. inversion Ej; subst j.
      split; [lia|]. cbn [firstn]. unfold cnt_true at 1. cbn [count_occ].
      destruct (o_bits o) as [|b0 [|b1 B']] eqn:EB; try (cbn in C3; lia). cbn [nth] in Bi. subst b0.
      rewrite LY in RU. cbn [rev app] in RU.
      inversion RU as [|b bits inits inits' P0 Y0' Pn Yn R0 Np Ln Sh Hb Eb1 Eb2 Eb3 Eb4]; subst.
      inversion R0; subst. rewrite app_nil_r in *.
      destruct Hb as (ic & Ei & Eo & Ip).
      assert (Sk : skipn ns Q = [ic]).
      { apply (f_equal (@rev nat)) in Ei. rewrite rev_involutive in Ei. exact Ei. }
      exists ic. rewrite Sk. split; [reflexivity|]. split; auto.
      rewrite Eo. f_equal. rewrite last_nth_nat by auto. rewrite Eb3. f_equal.
      rewrite firstn_length_le; lia.
Qed.

Lemma last_nth_gen {A} (l : list A) d : l <> [] -> last l d = nth (length l - 1) l d.
Proof.
  induction l as [|a l IH]; [congruence|]. destruct l as [|a' l']; [reflexivity|]. intros _.
  change (last (a :: a' :: l') d) with (last (a' :: l') d). rewrite IH by discriminate. cbn [length].
  replace (S (S (length l')) - 1) with (S (S (length l') - 1)) by lia. reflexivity.
Qed.

(** the executable form of [ndp] *)
Definition opt_eqb (a b : option nat) : bool :=
  match a, b with Some x, Some y => x =? y | None, None => true | _, _ => false end.
Fixpoint stk_eqb (l1 l2 : list (option nat)) : bool :=
  match l1, l2 with
  | [], [] => true
  | a :: r1, b :: r2 => opt_eqb a b && stk_eqb r1 r2
  | _, _ => false
  end.
Lemma stk_eqb_eq l1 : forall l2, stk_eqb l1 l2 = true -> l1 = l2.
Proof.
  induction l1 as [|a r1 IH]; intros [|b r2] H; cbn in H; try discriminate; auto.
  apply andb_prop in H. destruct H as [H1 H2]. f_equal; auto.
  destruct a, b; cbn in H1; try discriminate; auto. apply Nat.eqb_eq in H1. congruence.
Qed.
Fixpoint adj_b (opp : list (option nat)) (tr : list cfg) : bool :=   (* encoding order *)
  match tr with
  | cf :: ((cf' :: _) as r) =>
    stk_eqb (stack (cf_st cf')) (pushed opp (hd 0%Z (syms (cf_st cf'))) (cf_corner cf) (stack (cf_st cf))) && adj_b opp r
  | _ => true
  end.
Definition ndp_b (opp : list (option nat)) (tr : list cfg) : bool :=
  match tr with
  | [] => true
  | cf0 :: _ => stk_eqb (stack (cf_st cf0)) [Some (cf_corner cf0)] &&
                match tl (stack (cf_st (last tr cf0))) with [] => true | _ => false end && adj_b opp tr
  end.
Lemma adj_b_nth opp : forall tr i cf cf', adj_b opp tr = true -> nth_error tr i = Some cf -> nth_error tr (S i) = Some cf' ->
  stack (cf_st cf') = pushed opp (hd 0%Z (syms (cf_st cf'))) (cf_corner cf) (stack (cf_st cf)).
Proof.
  induction tr as [|a tr IH]; intros i cf cf' H E1 E2; [destruct i; discriminate|].
  destruct tr as [|b tr']; [destruct i; cbn in E2; try discriminate; destruct i; discriminate|].
  cbn [adj_b] in H. apply andb_prop in H. destruct H as [H1 H2]. destruct i as [|i].
  - cbn in E1, E2. inversion E1; inversion E2; subst. apply stk_eqb_eq. auto.
  - apply (IH i); auto.
Qed.
Lemma ndp_b_sound opp tr : ndp_b opp tr = true -> ndp opp tr.
Proof.
  unfold ndp_b, ndp. destruct tr as [|cf0 r].
  { intros _. split; [intros cf E; discriminate|]. split; [intros cf E; discriminate|]. intros i cf cf' E; destruct i; discriminate. }
  intros H. apply andb_prop in H. destruct H as [H H3]. apply andb_prop in H. destruct H as [H1 H2].
  split; [|split].
  - intros cf E. cbn in E. inversion E; subst. apply stk_eqb_eq. auto.
  - intros cf E. assert (X : cf = last (cf0 :: r) cf0).
    { rewrite nth_error_nth' with (d := cf0) in E by (cbn [length]; lia). inversion E as [E'].
      rewrite last_nth_gen by discriminate. reflexivity. }
    rewrite X. destruct (tl (stack (cf_st (last (cf0 :: r) cf0)))); [reflexivity|discriminate].
  - intros i cf cf'. apply adj_b_nth. auto.
Qed.

(** ** [ndp] from a count of the OUTPUT symbols: in ONE run the encoder pops an already visited stack entry iff
    #E < #S + 1 (each S pushes one entry more than it removes, each E removes one, the run starts with one entry and ends
    with none; [EbTrace_proofs.ladj_strict]).  So on the outputs with #E = #S + 1 the premise of
    [ebsim_roundtrip_noev1_partial] holds. *)
Theorem ndp_of_count c2v opp nv niso ndeg o tr : eb_encode_tr c2v opp nv niso ndeg = EOk (o, tr) ->
  length (o_bits o) = 1 -> ideal (rev (o_syms o)) = 0%Z -> hd 0%Z (rev (o_syms o)) = 7%Z -> ndp opp tr.
Proof.
  intros Et Lb Id Hd.
  destruct (trace_coherent _ _ _ _ _ _ _ Et) as [Lt Co].
  destruct (trace_one_run _ _ _ _ _ _ _ Et Lb) as (t & -> & [->|(A & (cfN & r & Et' & SL) & (pre & cf0 & Ep & St0))]).
  { cbn [rev]. split; [|split].
    - intros cf X. discriminate X.
    - intros cf X. cbn in X. discriminate X.
    - intros i cf cf' X. destruct i; discriminate X. }
  assert (E0 : rev t = cf0 :: rev pre) by (rewrite Ep, rev_app_distr; reflexivity).
  assert (S0 : syms (cf_st cf0) = []).
  { destruct (Co 0 cf0) as [X _]; [rewrite E0; reflexivity|]. exact X. }
  assert (Z0 : slack cf0 = 0%Z) by (unfold slack; rewrite S0, St0; reflexivity).
  destruct (slink_slack _ _ _ _ SL) as (M1 & M2). rewrite Id in M1, M2. cbn [length] in M1, M2.
  destruct (ladj_strict opp t A cfN r Et' ltac:(lia)) as (G & ZN).
  { rewrite Ep, last_last. lia. }
  split; [|split].
  - intros cf E. rewrite E0 in E. cbn in E. inversion E; subst. exact St0.
  - intros cf E. rewrite Et' in E. cbn [rev] in E. rewrite app_length in E. cbn [length] in E.
    rewrite nth_error_app2 in E by lia. replace (length (rev r) + 1 - 1 - length (rev r)) with 0 in E by lia. cbn in E. inversion E; subst cf.
    specialize (M2 ltac:(lia)). rewrite Hd in M2. unfold pushed in M2. cbn [Z.eqb Pos.eqb] in M2. auto.
  - intros i cf cf' E1 E2. exact (gadj_rev_nth _ _ G i cf cf' E1 E2).
Qed.

(** ** the round trip on the class: symbols C S L R E, NO split event, one run, #E = #S + 1; every remove_invalid_vertices *)
Definition class_noev (o : enc_out) : bool := class_noev1 o && (ideal (rev (o_syms o)) =? 0)%Z.

Theorem ebsim_roundtrip_noev c2v opp nf nv niso ndeg o rm maxv :
  length c2v = 3 * nf -> opp_ok c2v opp -> (forall c, c < 3 * nf -> vtx c2v c < nv) -> one_fan c2v opp ->
  eb_encode c2v opp nv niso ndeg = EOk o -> class_noev o = true -> (cntv (rev (o_syms o)) <= maxv)%Z ->
  let F := Z.of_nat (length (o_pcc o)) in
  exists n s, D.eb_core (3 * F) maxv F rm (rev (o_syms o)) (o_events o) (D.bits_of_list (o_bits o)) = D.Ok (n, s) /\
              eb_iso c2v opp (o_pcc o) (D.c2v s) (D.copp s).
Proof.
  intros Hlen OK Hv FAN E Cl Hm F.
  destruct (big_step_has_trace _ _ _ _ _ _ E) as (tr & Et).
  unfold class_noev in Cl. apply andb_prop in Cl. destruct Cl as [C1 C2]. apply Z.eqb_eq in C2.
  assert (C1' := C1). unfold class_noev1 in C1'. apply andb_prop in C1'. destruct C1' as [C1' C4]. apply andb_prop in C1'. destruct C1' as [_ C3].
  apply Nat.eqb_eq in C3. apply Z.eqb_eq in C4.
  apply (ebsim_roundtrip_noev1_partial c2v opp nf nv niso ndeg o tr rm maxv); auto.
  apply (ndp_of_count c2v opp nv niso ndeg o tr); auto.
Qed.

(** the same against [eb_decode_of] (DecodeConnectivity with its header checks) for the table built by CornerTable::Create;
    premises as in [ebsim_roundtrip_CERL] *)
Theorem ebsim_roundtrip_noev_ct faces t o rm : ct_create faces = Some t -> eb_encode_ct t = EOk o -> class_noev o = true ->
  (Z.of_nat (3 * length faces + length (ct_vcorn t)) < 2147483648)%Z ->
  ((3 * o_nfaces o) / 2 <= (o_nverts o * (o_nverts o - 1)) / 2)%Z ->
  verts_fit o ->
  exists n s, eb_decode_of o rm = D.Ok (n, s) /\ eb_iso (ct_c2v t) (ct_opp t) (o_pcc o) (D.c2v s) (D.copp s).
Proof.
  intros H E Cl Sz G3 VF.
  destruct (ct_create_wf _ _ H) as (L & OK & Hv & FAN & _).
  destruct (eb_encode_ct_counts faces t o H E) as (_ & _ & _ & _ & _ & Nf & _).
  assert (Ev : o_events o = []).
  { unfold class_noev, class_noev1 in Cl. destruct (o_events o); [reflexivity|]. rewrite !andb_false_r in Cl. cbn in Cl. discriminate. }
  destruct (eb_encode_ct_guards faces t o rm H E Sz G3) as (Eq & _).
  { rewrite Ev. cbn. lia. }
  rewrite Eq. rewrite <- Nf.
  apply (ebsim_roundtrip_noev (ct_c2v t) (ct_opp t) (length faces) (length (ct_vcorn t)) (ct_niso t) (ct_ndeg t) o rm); auto.
Qed.

(** ** the count is implied: with one start-face bit and NO split event the encoder never pops an already visited entry
    ([EbSimEnc_proofs.encode_count_wf]: such an entry is the left corner pushed by an S; the strip that reaches its face from
    elsewhere has the S face as a visited right / left neighbour and records an event), so #E = #S + 1 and
    [class_noev1] = [class_noev] on the encoder's outputs. *)
Theorem class_noev1_noev c2v opp nf nv niso ndeg o :
  length c2v = 3 * nf -> opp_ok c2v opp -> (forall c, c < 3 * nf -> vtx c2v c < nv) -> one_fan c2v opp ->
  eb_encode c2v opp nv niso ndeg = EOk o -> class_noev1 o = true -> class_noev o = true.
Proof.
  intros Hlen OK Hv FAN E C1. unfold class_noev. rewrite C1. cbn [andb].
  assert (C1' := C1). unfold class_noev1 in C1'. apply andb_prop in C1'. destruct C1' as [C1' C4]. apply andb_prop in C1'. destruct C1' as [C1' C3].
  apply andb_prop in C1'. destruct C1' as [_ C2].
  apply Nat.eqb_eq in C3. apply Z.eqb_eq in C4.
  assert (Ev : o_events o = []) by (destruct (o_events o); [reflexivity|discriminate]).
  destruct (encode_count_wf c2v opp nf nv niso ndeg o Hlen OK Hv FAN E C3 Ev) as [X|X].
  - rewrite X in C4. cbn in C4. discriminate.
  - apply Z.eqb_eq. exact X.
Qed.

Theorem ebsim_roundtrip_noev1 c2v opp nf nv niso ndeg o rm maxv :
  length c2v = 3 * nf -> opp_ok c2v opp -> (forall c, c < 3 * nf -> vtx c2v c < nv) -> one_fan c2v opp ->
  eb_encode c2v opp nv niso ndeg = EOk o -> class_noev1 o = true -> (cntv (rev (o_syms o)) <= maxv)%Z ->
  let F := Z.of_nat (length (o_pcc o)) in
  exists n s, D.eb_core (3 * F) maxv F rm (rev (o_syms o)) (o_events o) (D.bits_of_list (o_bits o)) = D.Ok (n, s) /\
              eb_iso c2v opp (o_pcc o) (D.c2v s) (D.copp s).
Proof.
  intros Hlen OK Hv FAN E Cl Hm. apply (ebsim_roundtrip_noev c2v opp nf nv niso ndeg o rm maxv); auto.
  apply (class_noev1_noev c2v opp nf nv niso ndeg o); auto.
Qed.

Theorem ebsim_roundtrip_noev1_ct faces t o rm : ct_create faces = Some t -> eb_encode_ct t = EOk o -> class_noev1 o = true ->
  (Z.of_nat (3 * length faces + length (ct_vcorn t)) < 2147483648)%Z ->
  ((3 * o_nfaces o) / 2 <= (o_nverts o * (o_nverts o - 1)) / 2)%Z ->
  verts_fit o ->
  exists n s, eb_decode_of o rm = D.Ok (n, s) /\ eb_iso (ct_c2v t) (ct_opp t) (o_pcc o) (D.c2v s) (D.copp s).
Proof.
  intros H E Cl Sz G3 VF. apply (ebsim_roundtrip_noev_ct faces t o rm); auto.
  destruct (ct_create_wf _ _ H) as (L & OK & Hv & FAN & _).
  apply (class_noev1_noev (ct_c2v t) (ct_opp t) (length faces) (length (ct_vcorn t)) (ct_niso t) (ct_ndeg t) o); auto.
Qed.

(** ** the simulation along the TRACE for the class with S (no split event, one run).
    [sim3 ... cf d]: configuration [cf] of the encoder (i = |syms| symbols emitted, about to process [cf_corner cf]) against the
    decoder state [d] after the LAST k = ns - i symbols:
      - SIM k d, and the faces not yet processed by the encoder are exactly the decoder's: cf_corner :: pcc = Q[k-1 .. ns-1];
      - the STACKS correspond: the decoder's active_corner_stack lists the tip corners 3j of the faces [tops Y k], and these
        faces are, in order, the face of [cf_corner cf] followed by the faces of the entries BELOW the top of the encoder's
        corner_traversal_stack_ (the encoder's top entry is the start of the current strip: the decoder has not reached it);
      - W, FI: the decoder's invariants; no pending split event. *)
Definition sim3 (c2v : list nat) (opp : list (option nat)) (Q : list nat) (Y : list Z) (ns : nat) (NC maxv : Z) (cf : cfg) (d : D.st) : Prop :=
  let i := length (syms (cf_st cf)) in
  let k := ns - i in
  SIM c2v opp Q k d /\
  cf_corner cf :: pcc (cf_st cf) = skipn (k - 1) (firstn ns Q) /\
  D.stack d = map (fun j => dco j 0) (tops Y k) /\
  map (fun j => nth j Q 0) (tops Y k) = cf_corner cf :: map the (tl (stack (cf_st cf))) /\
  Draco.Proofs.Edgebreaker_proofs.W NC maxv (Z.of_nat k) d /\ Draco.Proofs.Edgebreaker_fan_proofs.FI (Z.of_nat k) d /\
  D.events d = [].

Lemma noev1_script c2v opp nf nv niso ndeg o tr :
  length c2v = 3 * nf -> opp_ok c2v opp -> (forall c, c < 3 * nf -> vtx c2v c < nv) -> one_fan c2v opp ->
  eb_encode_tr c2v opp nv niso ndeg = EOk (o, tr) -> class_noev1 o = true -> ndp opp tr ->
  forall j, j < length (o_syms o) -> script_at c2v opp nf (o_pcc o) (rev (o_syms o)) j.
Proof.
  intros Hlen OK Hv FAN Et Cl NDP.
  pose proof (trace_refines_big_step_ok _ _ _ _ _ _ _ Et) as E.
  destruct (trace_coherent _ _ _ _ _ _ _ Et) as [Lt Co].
  pose proof (trace_steps _ _ _ _ _ _ _ Et) as Steps.
  unfold class_noev1 in Cl. apply andb_prop in Cl. destruct Cl as [Cl C4]. apply andb_prop in Cl. destruct Cl as [Cl C3].
  apply andb_prop in Cl. destruct Cl as [Cs C2]. apply Nat.eqb_eq in C3. apply Z.eqb_eq in C4.
  destruct (encode_facts_wf c2v opp nf nv niso ndeg o Hlen OK Hv FAN E) as (L & ND & Fk & _ & RU & DJ).
  destruct (eb_encode_total c2v opp nf nv niso ndeg Hlen OK Hv FAN) as [T1 T2].
  destruct (Nat.eq_dec nf ndeg) as [Eq|Ne]; [rewrite (T1 Eq) in E; discriminate|].
  destruct (T2 Ne) as (o' & E' & OO & _). rewrite E in E'. inversion E'; subst o'. clear E' T1 T2.
  destruct OO as (_ & Rng & Comp & _).
  set (Q := o_pcc o) in *. set (Y := rev (o_syms o)) in *. set (ns := length (o_syms o)) in *.
  assert (LY : length Y = ns) by (unfold Y; apply rev_length).
  assert (LQ : ns <= length Q) by lia.
  intros j Hj.
  assert (Y0 : nth_error Y 0 = Some 7%Z). { destruct Y as [|y0 Y']; [cbn in LY; lia|]. cbn in C4 |- *. congruence. }
  pose proof (S_stack_facts opp Q (o_syms o) tr Lt Co LQ Steps NDP) as SF. fold Y ns in SF.
  destruct (nth_error Y j) as [y|] eqn:Ey; [|apply nth_error_None in Ey; lia].
  assert (Hy : is_sym y = true). { rewrite forallb_forall in Cs. apply Cs. apply in_rev. eapply nth_error_In; eauto. }
  destruct (Z.eq_dec y 1) as [->|Ny].
  + destruct (SF j Y0 Hj Ey) as (K1 & Er & ja & T & ET & El).
    destruct (Fk j 1%Z Ey) as (A & B & C & Dd). cbv zeta in Dd.
    destruct Dd as [(D1 & _)|[(D1 & _)|[(D1 & _)|[(D1 & _)|(_ & SB)]]]]; try discriminate.
    unfold script_at. fold Y. rewrite Ey. right. right. right. right.
    split; auto. split; auto. split; [exact Er|]. split.
    { unfold ncr, eco. cbn [rot]. destruct (opp_at opp (nth j Q 0)) as [o0|] eqn:Eo; auto. }
    split; [exists ja, T; split; [exact ET|exact El]|]. exact SB.
  + apply (efact_script c2v opp nf Q Y j y); auto; try lia.
    clear - Hy Ny. unfold is_sym in Hy. unfold is_CERL. lia.
Qed.

Theorem ebsim_trace_noev1 c2v opp nf nv niso ndeg o tr rm maxv :
  length c2v = 3 * nf -> opp_ok c2v opp -> (forall c, c < 3 * nf -> vtx c2v c < nv) -> one_fan c2v opp ->
  eb_encode_tr c2v opp nv niso ndeg = EOk (o, tr) -> class_noev1 o = true -> (cntv (rev (o_syms o)) <= maxv)%Z ->
  let ns := length (o_syms o) in
  let NC := (3 * Z.of_nat (length (o_pcc o)))%Z in
  length tr = ns /\
  forall i cf, nth_error tr i = Some cf ->
    length (syms (cf_st cf)) = i /\
    exists d, D.sym_loop NC maxv rm (Z.of_nat ns) (firstn (ns - i) (rev (o_syms o))) 0 (D.init_st []) = D.Ok d /\
              sim3 c2v opp (o_pcc o) (rev (o_syms o)) ns NC maxv cf d.
Proof.
  intros Hlen OK Hv FAN Et Cl Hm ns NC.
  pose proof (trace_refines_big_step_ok _ _ _ _ _ _ _ Et) as E.
  destruct (trace_coherent _ _ _ _ _ _ _ Et) as [Lt Co]. fold ns in Lt, Co. split; auto.
  pose proof (trace_steps _ _ _ _ _ _ _ Et) as Steps.
  assert (NDP : ndp opp tr).
  { pose proof (class_noev1_noev c2v opp nf nv niso ndeg o Hlen OK Hv FAN E Cl) as Cn. unfold class_noev in Cn.
    apply andb_prop in Cn. destruct Cn as [C1 C2]. apply Z.eqb_eq in C2.
    unfold class_noev1 in C1. apply andb_prop in C1. destruct C1 as [C1 C4]. apply andb_prop in C1. destruct C1 as [_ C3].
    apply Nat.eqb_eq in C3. apply Z.eqb_eq in C4. apply (ndp_of_count c2v opp nv niso ndeg o tr); auto. }
  pose proof (noev1_script c2v opp nf nv niso ndeg o tr Hlen OK Hv FAN Et Cl NDP) as Sc. fold ns in Sc.
  destruct (encode_facts_wf c2v opp nf nv niso ndeg o Hlen OK Hv FAN E) as (L & ND & _).
  destruct (eb_encode_total c2v opp nf nv niso ndeg Hlen OK Hv FAN) as [T1 T2].
  destruct (Nat.eq_dec nf ndeg) as [Eq|Ne]; [rewrite (T1 Eq) in E; discriminate|].
  destruct (T2 Ne) as (o' & E' & OO & _). rewrite E in E'. inversion E'; subst o'. clear E' T1 T2.
  destruct OO as (_ & Rng & Comp & _).
  rewrite rev_length in L. fold ns in L.
  intros i cf Ecf. destruct (Co i cf Ecf) as [C1 C2].
  assert (Hi : i < ns). { rewrite <- Lt. apply nth_error_Some. congruence. }
  assert (Li : length (syms (cf_st cf)) = i). { rewrite C1, rev_length, firstn_length_le; auto. unfold ns in Hi. lia. }
  split; auto.
  assert (Rq : forall j, j < length (o_pcc o) -> nth j (o_pcc o) 0 < 3 * nf /\ is_degenerated c2v (nth j (o_pcc o) 0 / 3) = false).
  { intros j Hj. rewrite Forall_forall in Rng. apply Rng. apply nth_In. auto. }
  assert (HYQ : length (rev (o_syms o)) <= length (o_pcc o)) by (rewrite rev_length; fold ns; lia).
  destruct (sym_loop_sim c2v opp nf Hlen OK (o_pcc o) Rq ND NC maxv rm (rev (o_syms o)) eq_refl HYQ Hm FAN) with (k := ns - i)
    as (d & Ed & HS & HW & HF & Hnv & Hev & _ & Hst).
  - rewrite rev_length. fold ns. lia.
  - intros j Hj. apply Sc. lia.
  - exists d. rewrite rev_length in Ed. fold ns in Ed. split; auto. unfold sim3. rewrite Li. fold ns.
    split; auto. split. { rewrite C2. f_equal. lia. }
    split; auto. split; auto.
    assert (LQ : ns <= length (o_pcc o)) by lia.
    pose proof (tops_stack opp (o_pcc o) (o_syms o) tr Lt Co LQ Steps NDP (ns - 1 - i) ltac:(fold ns; lia)) as TS. cbv zeta in TS. fold ns in TS.
    replace (ns - 1 - (ns - 1 - i)) with i in TS by lia. replace (S (ns - 1 - i)) with (ns - i) in TS by lia.
    rewrite (nth_error_nth _ _ _ Ecf) in TS. exact TS.
Qed.

(** * S in SEVERAL runs (any number of start faces / components), no split event *)

(** ** combinatorics of [tops] over balanced blocks ([BALC], EbSimEnc_proofs) *)
Lemma tops_prefix A B : forall k, k <= length A -> tops (A ++ B) k = tops A k.
Proof. induction k as [|k IH]; intros H; [reflexivity|]. cbn [tops]. rewrite nth_error_app1 by lia. rewrite IH by lia. reflexivity. Qed.

(** the decoder's stack never runs empty under C / R / L and has two entries under S *)
Definition nounder (Y : list Z) (k : nat) : Prop := forall j y, j < k -> nth_error Y j = Some y ->
  (y <> 7%Z -> tops Y j <> []) /\ (y = 1%Z -> 2 <= length (tops Y j)).

Lemma skipn_nth_cons {A} (l : list A) : forall j y, nth_error l j = Some y -> skipn j l = y :: skipn (S j) l.
Proof. induction l as [|a l IH]; intros [|j] y H; cbn in *; try discriminate; [inversion H; reflexivity|]. apply IH. exact H. Qed.

Lemma bal_len Yn : BALC Yn -> forall j, j <= length Yn -> Z.of_nat (length (tops Yn j)) = ideal (skipn j Yn) /\ nounder Yn j.
Proof.
  intros (B0 & B1). induction j as [|j IH]; intros Hj.
  - cbn [tops skipn length]. split; [lia|]. intros j y Hjj. lia.
  - destruct (IH ltac:(lia)) as (L & NU). destruct (nth_error Yn j) as [y|] eqn:Ey; [|apply nth_error_None in Ey; lia].
    rewrite (skipn_nth_cons _ _ _ Ey) in L. cbn [ideal] in L. pose proof (B1 (S j) ltac:(lia)) as P1.
    assert (NUj : (y <> 7%Z -> tops Yn j <> []) /\ (y = 1%Z -> 2 <= length (tops Yn j))).
    { unfold delta in L. split; intros H.
      - intro X. rewrite X in L. cbn [length] in L. destruct (y =? 1)%Z eqn:E1; [lia|]. destruct (y =? 7)%Z eqn:E7; lia.
      - subst y. cbn [Z.eqb Pos.eqb] in L. lia. }
    split.
    + rewrite (tops_S _ _ _ Ey). unfold delta in L. destruct (y =? 7)%Z eqn:E7.
      * assert (y = 7%Z) by lia. subst y. cbn [Z.eqb Pos.eqb] in L. cbn [length]. lia.
      * destruct (y =? 1)%Z eqn:E1.
        -- destruct NUj as (_ & N2). specialize (N2 ltac:(lia)). destruct (tops Yn j) as [|t0 [|t1 T]]; cbn [length tl] in *; lia.
        -- destruct NUj as (N1 & _). specialize (N1 ltac:(lia)). destruct (tops Yn j) as [|t0 T]; [congruence|]. cbn [length tl] in *. lia.
    + intros j' y' Hj' Ej'. destruct (Nat.eq_dec j' j) as [->|Nj]; [rewrite Ey in Ej'; inversion Ej'; subst y'; exact NUj|apply NU; auto; lia].
Qed.

Lemma bal_block Yn : BALC Yn -> Yn <> [] -> tops Yn (length Yn) = [length Yn - 1] /\ nounder Yn (length Yn).
Proof.
  intros B Ne. destruct (bal_len Yn B (length Yn) (le_n _)) as (L & NU). split; auto.
  rewrite skipn_all in L. cbn [ideal] in L.
  destruct (tops_head' Yn (length Yn)) as (T & ET). { destruct Yn; [congruence|cbn [length]; lia]. }
  rewrite ET in L |- *. destruct T; [reflexivity|cbn [length] in L; lia].
Qed.

Lemma tops_shift A Y base : tops (A ++ Y) (length A) = base -> forall k, k <= length Y -> nounder Y k ->
  tops (A ++ Y) (length A + k) = map (fun j => length A + j) (tops Y k) ++ base.
Proof.
  intros Eb. induction k as [|k IH]; intros Hk NU.
  - rewrite Nat.add_0_r. cbn [tops map app]. exact Eb.
  - replace (length A + S k) with (S (length A + k)) by lia. destruct (nth_error Y k) as [y|] eqn:Ey; [|apply nth_error_None in Ey; lia].
    assert (Ek : nth_error (A ++ Y) (length A + k) = Some y).
    { rewrite nth_error_app2 by lia. replace (length A + k - length A) with k by lia. exact Ey. }
    rewrite (tops_S _ _ _ Ek), (tops_S _ _ _ Ey), IH by (try lia; intros j y' Hj; apply NU; lia).
    destruct (NU k y ltac:(lia) Ey) as (N1 & N2).
    destruct (y =? 7)%Z eqn:E7; [reflexivity|]. destruct (y =? 1)%Z eqn:E1.
    + specialize (N2 ltac:(lia)). destruct (tops Y k) as [|t0 [|t1 T]]; cbn [length] in N2; try lia. reflexivity.
    + specialize (N1 ltac:(lia)). destruct (tops Y k) as [|t0 T]; [congruence|]. reflexivity.
Qed.

Lemma nounder_app A Y base : tops A (length A) = base -> nounder A (length A) -> forall k, k <= length Y -> nounder Y k ->
  nounder (A ++ Y) (length A + k).
Proof.
  intros Eb NA k Hk NY j y Hj Ej. destruct (lt_dec j (length A)) as [Lo|Hi].
  - rewrite nth_error_app1 in Ej by lia. rewrite tops_prefix by lia. apply NA; auto.
  - rewrite nth_error_app2 in Ej by lia. set (j' := j - length A) in *.
    assert (NYj : nounder Y j') by (intros a b Ha; apply NY; unfold j' in *; lia).
    replace j with (length A + j') by (unfold j'; lia).
    rewrite (tops_shift A Y base) by (try (rewrite tops_prefix by lia; exact Eb); try exact NYj; unfold j'; lia).
    destruct (NY j' y ltac:(unfold j'; lia) Ej) as (N1 & N2). split.
    + intros H X. apply app_eq_nil in X. destruct X as [X _]. apply map_eq_nil in X. exact (N1 H X).
    + intros H. rewrite app_length, map_length. specialize (N2 H). lia.
Qed.

(** the run structure in index form, for histories WITH S whose blocks are balanced *)
Definition runs_idx2 (opp : list (option nat)) (IP : nat -> Prop) (bits : list bool) (inits P : list nat) (Y : list Z) : Prop :=
  length P = length Y /\ length inits = cnt_true bits /\
  length (tops Y (length Y)) = length bits /\ nounder Y (length Y) /\
  forall i j, nth_error (tops Y (length Y)) i = Some j -> nth i (rev bits) false = true ->
    j < length Y /\
    exists ic, nth_error (rev inits) (cnt_true (firstn i (rev bits))) = Some ic /\ opp_at opp ic = Some (nth j P 0) /\ IP ic.

Lemma RUNS2_idx opp IP (NE : Prop) bits inits P Y : NE -> RUNS2 opp IP NE bits inits P Y -> runs_idx2 opp IP bits inits P Y.
Proof.
  intros HNE. induction 1 as [|b bits inits inits' P Y Pn Yn R IH Np Ln Bl Hb].
  - unfold runs_idx2. cbn. split; auto. split; auto. split; auto. split; [intros j y Hj; lia|]. intros i j X. destruct i; discriminate.
  - destruct IH as (LP & LI & LT & NU & HF).
    assert (NeY : Yn <> []) by (intro X; rewrite X in Ln; destruct Pn; [congruence|discriminate]).
    destruct (bal_block Yn (Bl HNE) NeY) as (TB & NB).
    set (N := length Yn) in *. assert (HN : 1 <= N) by (unfold N; destruct Yn; [congruence|cbn [length]; lia]).
    assert (ET : tops (Yn ++ Y) (length (Yn ++ Y)) = map (fun j => N + j) (tops Y (length Y)) ++ [N - 1]).
    { rewrite app_length. apply tops_shift; auto. rewrite tops_prefix by lia. exact TB. }
    unfold runs_idx2. rewrite ET. split; [rewrite !app_length; lia|].
    assert (LI' : length inits' = cnt_true (b :: bits)).
    { unfold cnt_true in *. destruct b.
      - destruct Hb as (ic & -> & _). rewrite count_occ_cons_eq by reflexivity. cbn [length]. lia.
      - rewrite Hb. rewrite count_occ_cons_neq by discriminate. auto. }
    split; auto. split; [rewrite app_length, map_length; cbn [length]; lia|].
    split; [rewrite app_length; apply (nounder_app Yn Y [N - 1]); auto|].
    intros i j Ei Bi. cbn [rev] in Bi. cbn [rev].
    assert (Li : i < length (tops Y (length Y)) + 1).
    { assert (X : i < length (map (fun j => N + j) (tops Y (length Y)) ++ [N - 1])) by (apply nth_error_Some; congruence).
      rewrite app_length, map_length in X. cbn in X. lia. }
    destruct (Nat.lt_ge_cases i (length (tops Y (length Y)))) as [Lo|Hi].
    + rewrite nth_error_app1 in Ei by (rewrite map_length; auto). rewrite nth_error_map in Ei.
      destruct (nth_error (tops Y (length Y)) i) as [j0|] eqn:Ej0; [|discriminate]. injection Ei as <-.
      rewrite app_nth1 in Bi by (rewrite rev_length; lia).
      destruct (HF i j0 Ej0 Bi) as (Hj0 & ic & A1 & A2 & A3).
      split; [rewrite app_length; fold N; lia|].
      exists ic. rewrite firstn_app, rev_length. replace (i - length bits) with 0 by lia. cbn [firstn]. rewrite app_nil_r.
      split; [|split; auto].
      * assert (X : cnt_true (firstn i (rev bits)) < length (rev inits)) by (apply nth_error_Some; congruence).
        destruct b; [destruct Hb as (ic' & -> & _); cbn [rev]; rewrite nth_error_app1 by auto; auto|rewrite Hb; auto].
      * rewrite app_nth2 by (fold N; lia). replace (N + j0 - length Pn) with j0 by (fold N in Ln; lia). auto.
    + assert (Ei' : i = length (tops Y (length Y))) by lia. rewrite Ei' in *. clear Ei'.
      rewrite nth_error_app2 in Ei by (rewrite map_length; auto). rewrite map_length, Nat.sub_diag in Ei. cbn in Ei. injection Ei as <-.
      rewrite app_nth2 in Bi by (rewrite rev_length; lia). rewrite rev_length in Bi. replace (length (tops Y (length Y)) - length bits) with 0 in Bi by lia.
      cbn in Bi. rewrite Bi in Hb. destruct Hb as (ic & Ei' & Eo & Ip).
      split; [rewrite app_length; fold N; lia|].
      exists ic. rewrite LT, firstn_app, rev_length, Nat.sub_diag. cbn [firstn]. rewrite app_nil_r, <- (rev_length bits), firstn_all, cnt_true_rev.
      split; [|split; auto].
      * rewrite Ei'. cbn [rev]. rewrite nth_error_app2 by (rewrite rev_length; lia). rewrite rev_length. replace (cnt_true bits - length inits) with 0 by lia. reflexivity.
      * rewrite app_nth1 by (fold N in Ln; lia). rewrite Eo. f_equal. replace (N - 1) with (length Pn - 1) by (fold N in Ln; lia).
        apply last_nth_nat; auto.
Qed.

(** ** the stack discipline of a trace with several runs, from the count  ideal (all symbols) = 1 - #bits *)
Lemma rev_first_last {A} (t : list A) d a r : t = a :: r -> nth_error (rev t) 0 = Some (last t d).
Proof.
  intros E. assert (Ne : t <> []) by (rewrite E; discriminate). clear E.
  induction t as [|x t IH]; [congruence|]. cbn [rev]. destruct t as [|y t'].
  - reflexivity.
  - change (last (x :: y :: t') d) with (last (y :: t') d). rewrite nth_error_app1.
    + apply IH. discriminate.
    + cbn [rev]. rewrite app_length. cbn. lia.
Qed.

Lemma madj_first opp t R : madj opp t R -> forall d, stack (cf_st (last t d)) = [Some (cf_corner (last t d))].
Proof.
  induction 1 as [cf0 S0|cf' cf r R L M IH|cf' cf r R L S0 M IH]; intros d; auto;
    change (last (cf' :: cf :: r) d) with (last (cf :: r) d); apply IH.
Qed.

Definition ndpm (opp : list (option nat)) (osyms : list Z) (tr : list cfg) : Prop :=
  (forall cf, nth_error tr 0 = Some cf -> stack (cf_st cf) = [Some (cf_corner cf)]) /\
  (forall cf, nth_error tr (length tr - 1) = Some cf ->
     pushed opp (hd 0%Z (rev osyms)) (cf_corner cf) (stack (cf_st cf)) = []) /\
  forall i cf cf', nth_error tr i = Some cf -> nth_error tr (S i) = Some cf' -> mstep opp cf cf'.

Theorem ndpm_of_count c2v opp nv niso ndeg o tr : eb_encode_tr c2v opp nv niso ndeg = EOk (o, tr) ->
  ideal (rev (o_syms o)) = (1 - Z.of_nat (length (o_bits o)))%Z -> ndpm opp (o_syms o) tr.
Proof.
  intros Et Id.
  destruct (trace_coherent _ _ _ _ _ _ _ Et) as [Lt Co].
  destruct (trace_runs _ _ _ _ _ _ _ Et) as (t & -> & [->|(R & M & LR & cfN & r & Et' & SL)]).
  { cbn [rev]. split; [|split].
    - intros cf X. discriminate X.
    - intros cf X. cbn in X. discriminate X.
    - intros i cf cf' X. destruct i; discriminate X. }
  pose proof (rev_first_last t cfN cfN r Et') as E0.
  assert (S0 : syms (cf_st (last t cfN)) = []) by (destruct (Co 0 _ E0) as [X _]; exact X).
  destruct (slink_slack _ _ _ _ SL) as (M1 & M2). rewrite Id in M1, M2. cbn [length] in M1, M2.
  destruct (madj_strict opp t R M cfN r Et' ltac:(lia) S0) as (G & ZN).
  split; [|split].
  - intros cf E. rewrite E0 in E. inversion E; subst cf. apply (madj_first opp t R M).
  - intros cf E. rewrite Et' in E. cbn [rev] in E. rewrite app_length in E. cbn [length] in E.
    rewrite nth_error_app2 in E by lia. replace (length (rev r) + 1 - 1 - length (rev r)) with 0 in E by lia. cbn in E. inversion E; subst cf.
    symmetry. apply M2. lia.
  - intros i cf cf' E1 E2. exact (gadj_rev_nth _ _ G i cf cf' E1 E2).
Qed.

Section StkM.
Variables (opp : list (option nat)) (Q : list nat) (osyms : list Z) (tr : list cfg).
Let ns := length osyms.
Let Y := rev osyms.
Hypothesis Ltr : length tr = ns.
Hypothesis Coh : forall i cf, nth_error tr i = Some cf ->
  syms (cf_st cf) = rev (firstn i osyms) /\ cf_corner cf :: pcc (cf_st cf) = skipn (ns - 1 - i) (firstn ns Q).
Hypothesis LQ : ns <= length Q.
Hypothesis Steps : forall i cf cf', nth_error tr i = Some cf -> nth_error tr (S i) = Some cf' -> tstep opp cf cf'.
Hypothesis NDP : ndpm opp osyms tr.

Let cfg0 := mk_cfg 0 (mk_est [] [] [] 0%Z 0 [] [] [] [] []).
Let cfi (i : nat) : cfg := nth i tr cfg0.

Lemma cfiM_nth i : i < ns -> nth_error tr i = Some (cfi i).
Proof. intros H. apply nth_error_nth'. lia. Qed.

Lemma cornerM_Q i : i < ns -> cf_corner (cfi i) = nth (ns - 1 - i) Q 0.
Proof.
  intros H. destruct (Coh i _ (cfiM_nth i H)) as [_ C].
  assert (E : nth 0 (cf_corner (cfi i) :: pcc (cf_st (cfi i))) 0 = nth 0 (skipn (ns - 1 - i) (firstn ns Q)) 0) by (rewrite C; auto).
  cbn [nth] in E. rewrite E. rewrite nth_skipn'. rewrite Nat.add_0_r. rewrite <- (firstn_skipn ns Q) at 2. rewrite app_nth1; auto.
  rewrite firstn_length_le; lia.
Qed.

Lemma symM_at i : S i < ns -> hd 0%Z (syms (cf_st (cfi (S i)))) = nth i osyms 0%Z.
Proof.
  intros H. destruct (Coh (S i) _ (cfiM_nth (S i) H)) as [C _]. rewrite C.
  rewrite (firstn_S_nth osyms i (nth i osyms 0%Z)) by (apply nth_error_nth'; unfold ns in H; lia).
  rewrite rev_app_distr. reflexivity.
Qed.
Lemma YM_at k : k < ns -> nth_error Y k = Some (nth (ns - 1 - k) osyms 0%Z).
Proof.
  intros H. unfold Y. rewrite nth_error_nth' with (d := 0%Z) by (rewrite rev_length; auto). f_equal.
  rewrite rev_nth by auto. f_equal. unfold ns. lia.
Qed.

Lemma stacksM_some : forall i, i < ns -> stack (cf_st (cfi i)) <> [] /\ Forall (fun o => o <> None) (stack (cf_st (cfi i))).
Proof.
  destruct NDP as (N0 & _ & N1). induction i as [|i IH]; intros Hi.
  - rewrite (N0 _ (cfiM_nth 0 Hi)). split; [discriminate|]. constructor; [discriminate|constructor].
  - destruct (IH ltac:(lia)) as [A B].
    pose proof (Steps i _ _ (cfiM_nth i ltac:(lia)) (cfiM_nth (S i) Hi)) as [T1 T2].
    destruct (N1 i _ _ (cfiM_nth i ltac:(lia)) (cfiM_nth (S i) Hi)) as [E|(_ & E)].
    2:{ rewrite E. split; [discriminate|]. constructor; [discriminate|constructor]. }
    unfold sstep in E.
    set (y := hd 0%Z (syms (cf_st (cfi (S i))))) in *.
    assert (Tl : Forall (fun o => o <> None) (tl (stack (cf_st (cfi i))))) by (destruct (stack (cf_st (cfi i))); [constructor|inversion B; auto]).
    unfold pushed in E. destruct (y =? 7)%Z eqn:E7.
    + apply Z.eqb_eq in E7. specialize (T2 (or_introl E7)). split; [intro X; rewrite X in T2; discriminate|]. rewrite E. auto.
    + destruct (y =? 1)%Z eqn:E1.
      * apply Z.eqb_eq in E1. rewrite E. split; [discriminate|].
        destruct T1 as [(y' & dead & L1 & _ & L3)|(y' & L1 & L2)].
        -- assert (y' = y) by (unfold y; rewrite L1; reflexivity). subst y'. destruct (L3 E1). constructor; auto.
        -- rewrite L2 in E. discriminate.
      * rewrite E. auto.
Qed.

(** the last symbol of the encoding is E, and the last configuration has a one-entry stack *)
Lemma lastM_E : 1 <= ns -> nth_error Y 0 = Some 7%Z /\ tl (stack (cf_st (cfi (ns - 1)))) = [].
Proof.
  intros Hn. destruct NDP as (_ & NL & _). assert (Hl : ns - 1 < ns) by lia.
  pose proof (NL _ ltac:(rewrite Ltr; apply (cfiM_nth _ Hl))) as P.
  destruct (stacksM_some _ Hl) as [Ne _].
  assert (Ey : nth_error Y 0 = Some (hd 0%Z (rev osyms))).
  { unfold Y. destruct (rev osyms) as [|y0 l] eqn:E; [|reflexivity].
    apply (f_equal (@length _)) in E. rewrite rev_length in E. cbn in E. unfold ns in Hn. lia. }
  rewrite Ey. unfold pushed in P. destruct (hd 0%Z (rev osyms) =? 7)%Z eqn:E7.
  - apply Z.eqb_eq in E7. rewrite E7. auto.
  - exfalso. destruct (hd 0%Z (rev osyms) =? 1)%Z; [discriminate|]. congruence.
Qed.

Definition nthQM (j : nat) : nat := nth j Q 0.

(** the decoder's stack after k+1 symbols: the corner of configuration ns-1-k, the entries of its stack below the top, and
    one entry for each LATER run (already decoded) *)
Lemma tops_stackM : forall k, k < ns ->
  let cf := cfi (ns - 1 - k) in
  exists rest, map nthQM (tops Y (S k)) = cf_corner cf :: map the (tl (stack (cf_st cf))) ++ rest.
Proof.
  destruct NDP as (N0 & NL & N1). induction k as [|k IH]; intros Hk cf.
  - assert (T1 : tops Y 1 = [0]).
    { rewrite (tops_S Y 0 _ (YM_at 0 Hk)). cbn [tops]. destruct (_ =? 7)%Z; auto. destruct (_ =? 1)%Z; auto. }
    exists []. rewrite T1. cbn [map]. unfold cf. replace (ns - 1 - 0) with (ns - 1) by lia.
    destruct (lastM_E ltac:(lia)) as (_ & Tl0). rewrite Tl0. cbn. unfold nthQM. rewrite (cornerM_Q (ns - 1)) by lia. f_equal. f_equal. lia.
  - set (i := ns - 1 - S k) in *.
    assert (Hi : i < ns) by (unfold i; lia). assert (Hi' : S i < ns) by (unfold i; lia).
    assert (Ei : ns - 1 - k = S i) by (unfold i; lia).
    destruct (IH ltac:(lia)) as (rest' & IH'). clear IH. cbv zeta in IH'. rewrite Ei in IH'.
    set (cf' := cfi (S i)) in *. fold cf.
    pose proof (Steps i _ _ (cfiM_nth i Hi) (cfiM_nth (S i) Hi')) as [T1 T2]. fold cf cf' in T1, T2.
    pose proof (N1 i _ _ (cfiM_nth i Hi) (cfiM_nth (S i) Hi')) as MS. fold cf cf' in MS.
    assert (Ey : hd 0%Z (syms (cf_st cf')) = nth i osyms 0%Z) by (apply symM_at; auto).
    unfold mstep, sstep in MS. rewrite Ey in MS, T2.
    assert (EY : nth_error Y (S k) = Some (nth i osyms 0%Z)) by (rewrite (YM_at (S k) Hk); reflexivity).
    rewrite (tops_S Y (S k) _ EY).
    destruct (stacksM_some _ Hi) as [Ne As]. fold cf in Ne, As.
    assert (Ec : nthQM (S k) = cf_corner cf) by (unfold nthQM, cf; rewrite (cornerM_Q _ Hi); f_equal; unfold i; lia).
    set (y := nth i osyms 0%Z) in *.
    destruct MS as [E|(E & S0)]; unfold pushed in E.
    + (* inside a run *)
      destruct (y =? 7)%Z eqn:E7.
      * exists rest'. cbn [map]. rewrite Ec. f_equal. apply Z.eqb_eq in E7.
        specialize (T2 (or_introl E7)). rewrite E in IH', T2. rewrite IH'.
        destruct (tl (stack (cf_st cf))) as [|t1 r1]; [discriminate|]. cbn [hd] in T2. subst t1. reflexivity.
      * destruct (y =? 1)%Z eqn:E1.
        -- rewrite E in IH'. cbn [tl map app] in IH'.
           destruct (tops Y (S k)) as [|t0 [|t1 T2']]; cbn [map] in IH'; try discriminate. injection IH' as I1 I2 I3.
           exists rest'. cbn [tl map]. rewrite Ec. f_equal. exact I3.
        -- rewrite E in IH'.
           destruct (tops Y (S k)) as [|t0 T1']; cbn [map] in IH'; try discriminate. injection IH' as I1 I2.
           exists rest'. cbn [tl map]. rewrite Ec. f_equal. exact I2.
    + (* the last configuration of a run: everything was popped, the next run starts with one entry *)
      rewrite S0 in IH'. cbn [tl map app] in IH'.
      destruct (y =? 7)%Z eqn:E7.
      * exists (cf_corner cf' :: rest'). cbn [map]. rewrite Ec, E, IH'. reflexivity.
      * exfalso. destruct (y =? 1)%Z; [discriminate|]. congruence.
Qed.

(** the facts of an S symbol *)
Lemma S_stack_factsM k : k < ns -> nth_error Y k = Some 1%Z ->
  1 <= k /\ oat opp (next_c (nthQM k)) = Some (nthQM (k - 1)) /\
  exists ja T, tops Y k = (k - 1) :: ja :: T /\ oat opp (prev_c (nthQM k)) = Some (nthQM ja).
Proof.
  intros Hk Ek. destruct (lastM_E ltac:(lia)) as (Y0 & _). destruct NDP as (N0 & NL & N1).
  assert (K1 : 1 <= k). { destruct k; [congruence|lia]. }
  set (i := ns - 1 - k). assert (Hi : i < ns) by (unfold i; lia). assert (Hi' : S i < ns) by (unfold i; lia).
  assert (Ey : nth i osyms 0%Z = 1%Z). { rewrite (YM_at k Hk) in Ek. inversion Ek. reflexivity. }
  set (cf := cfi i). set (cf' := cfi (S i)).
  pose proof (Steps i _ _ (cfiM_nth i Hi) (cfiM_nth (S i) Hi')) as [T1 T2]. fold cf cf' in T1, T2.
  pose proof (N1 i _ _ (cfiM_nth i Hi) (cfiM_nth (S i) Hi')) as MS. fold cf cf' in MS.
  assert (Es : hd 0%Z (syms (cf_st cf')) = 1%Z) by (unfold cf'; rewrite symM_at; auto).
  unfold mstep, sstep in MS. rewrite Es in MS, T2.
  assert (E : stack (cf_st cf') = pushed opp 1%Z (cf_corner cf) (stack (cf_st cf))).
  { destruct MS as [E|(E & _)]; [exact E|]. unfold pushed in E. cbn [Z.eqb Pos.eqb] in E. discriminate. }
  unfold pushed in E. cbn [Z.eqb Pos.eqb] in E.
  specialize (T2 (or_intror eq_refl)). rewrite E in T2. cbn [hd] in T2.
  assert (Ec : cf_corner cf = nthQM k) by (unfold cf, nthQM; rewrite (cornerM_Q _ Hi); f_equal; unfold i; lia).
  assert (Ec' : cf_corner cf' = nthQM (k - 1)) by (unfold cf', nthQM; rewrite (cornerM_Q _ Hi'); f_equal; unfold i; lia).
  rewrite Ec in T2, E. rewrite Ec' in T2. split; auto. split; auto.
  assert (Nl : oat opp (prev_c (nthQM k)) <> None).
  { destruct T1 as [(y' & dead & L1 & _ & L3)|(y' & L1 & L2)].
    - assert (y' = 1%Z) by (rewrite L1 in Es; exact Es). subst y'. rewrite Ec in L3. apply L3. reflexivity.
    - rewrite L2 in E. discriminate. }
  destruct (oat opp (prev_c (nthQM k))) as [lc|] eqn:El; [|congruence].
  destruct (tops_stackM (k - 1) ltac:(lia)) as (rest & TS). cbv zeta in TS.
  replace (ns - 1 - (k - 1)) with (S i) in TS by (unfold i; lia). replace (S (k - 1)) with k in TS by lia. fold cf' in TS.
  rewrite E in TS. cbn [length tl map the app] in TS.
  destruct (tops_head' Y k ltac:(unfold Y; rewrite rev_length; fold ns; lia)) as (T0 & ET). rewrite ET in TS |- *. cbn [map] in TS.
  destruct T0 as [|ja T']; cbn [map] in TS; [discriminate|]. injection TS as L1 L2 L3.
  exists ja, T'. split; auto.
Qed.
End StkM.

(** ** THE ROUND TRIP ON THE CLASS "no split event": symbols C S L R E, any number of runs (start faces, components),
    every remove_invalid_vertices.  The class is [o_events o = []] alone. *)
Lemma noevent_script c2v opp nf nv niso ndeg o tr :
  length c2v = 3 * nf -> opp_ok c2v opp -> (forall c, c < 3 * nf -> vtx c2v c < nv) -> one_fan c2v opp ->
  eb_encode_tr c2v opp nv niso ndeg = EOk (o, tr) -> o_events o = [] ->
  ndpm opp (o_syms o) tr /\
  forall j, j < length (o_syms o) -> script_at c2v opp nf (o_pcc o) (rev (o_syms o)) j.
Proof.
  intros Hlen OK Hv FAN Et Ev.
  pose proof (trace_refines_big_step_ok _ _ _ _ _ _ _ Et) as E.
  destruct (trace_coherent _ _ _ _ _ _ _ Et) as [Lt Co].
  pose proof (trace_steps _ _ _ _ _ _ _ Et) as Steps.
  destruct (encode_facts_wf c2v opp nf nv niso ndeg o Hlen OK Hv FAN E) as (L & ND & Fk & _).
  destruct (encode_runs2_wf c2v opp nf nv niso ndeg o Hlen OK Hv FAN E) as (Cnt & _). specialize (Cnt Ev).
  pose proof (ndpm_of_count _ _ _ _ _ _ _ Et Cnt) as NDP. split; [exact NDP|].
  destruct (eb_encode_total c2v opp nf nv niso ndeg Hlen OK Hv FAN) as [T1 T2].
  destruct (Nat.eq_dec nf ndeg) as [Eq|Ne]; [rewrite (T1 Eq) in E; discriminate|].
  destruct (T2 Ne) as (o' & E' & OO & _). rewrite E in E'. inversion E'; subst o'. clear E' T1 T2.
  destruct OO as (_ & Rng & Comp & _ & _ & _ & _ & Sy & _).
  set (Q := o_pcc o) in *. set (Y := rev (o_syms o)) in *. set (ns := length (o_syms o)) in *.
  assert (LY : length Y = ns) by (unfold Y; apply rev_length).
  assert (LQ : ns <= length Q) by lia.
  intros j Hj.
  destruct (nth_error Y j) as [y|] eqn:Ey; [|apply nth_error_None in Ey; lia].
  assert (Hy : In y [0; 1; 3; 5; 7]%Z). { rewrite Forall_forall in Sy. apply Sy. apply in_rev. eapply nth_error_In; eauto. }
  destruct (Z.eq_dec y 1) as [->|Ny].
  + destruct (S_stack_factsM opp Q (o_syms o) tr Lt Co LQ Steps NDP j Hj Ey) as (K1 & Er & ja & T & ET & El).
    destruct (Fk j 1%Z Ey) as (A & B & C & Dd). cbv zeta in Dd.
    destruct Dd as [(D1 & _)|[(D1 & _)|[(D1 & _)|[(D1 & _)|(_ & SB)]]]]; try discriminate.
    unfold script_at. fold Y. rewrite Ey. right. right. right. right.
    split; auto. split; auto. split; [exact Er|]. split.
    { unfold ncr, eco. cbn [rot]. destruct (opp_at opp (nth j Q 0)) as [o0|] eqn:Eo; auto. }
    split; [exists ja, T; split; [exact ET|exact El]|]. exact SB.
  + apply (efact_script c2v opp nf Q Y j y); auto; try lia.
    clear - Hy Ny. unfold is_CERL. cbn [In] in Hy. lia.
Qed.

Theorem ebsim_roundtrip_noevent c2v opp nf nv niso ndeg o rm maxv :
  length c2v = 3 * nf -> opp_ok c2v opp -> (forall c, c < 3 * nf -> vtx c2v c < nv) -> one_fan c2v opp ->
  eb_encode c2v opp nv niso ndeg = EOk o -> o_events o = [] -> (cntv (rev (o_syms o)) <= maxv)%Z ->
  let F := Z.of_nat (length (o_pcc o)) in
  exists n s, D.eb_core (3 * F) maxv F rm (rev (o_syms o)) (o_events o) (D.bits_of_list (o_bits o)) = D.Ok (n, s) /\
              eb_iso c2v opp (o_pcc o) (D.c2v s) (D.copp s).
Proof.
  intros Hlen OK Hv FAN E Ev Hm F.
  destruct (big_step_has_trace _ _ _ _ _ _ E) as (tr & Et).
  destruct (noevent_script c2v opp nf nv niso ndeg o tr Hlen OK Hv FAN Et Ev) as (_ & Sc).
  destruct (encode_facts_wf c2v opp nf nv niso ndeg o Hlen OK Hv FAN E) as (L & ND & _ & _ & _ & DJ).
  destruct (encode_runs2_wf c2v opp nf nv niso ndeg o Hlen OK Hv FAN E) as (_ & R2).
  destruct (eb_encode_total c2v opp nf nv niso ndeg Hlen OK Hv FAN) as [T1 T2].
  destruct (Nat.eq_dec nf ndeg) as [Eq|Ne]; [rewrite (T1 Eq) in E; discriminate|].
  destruct (T2 Ne) as (o' & E' & OO & _). rewrite E in E'. inversion E'; subst o'. clear E' T1 T2.
  destruct OO as (_ & Rng & Comp & _).
  set (Q := o_pcc o) in *. set (Y := rev (o_syms o)) in *.
  assert (LY : length Y = length (o_syms o)) by (unfold Y; apply rev_length).
  assert (Rq : forall j, j < length Q -> nth j Q 0 < 3 * nf /\ is_degenerated c2v (nth j Q 0 / 3) = false).
  { intros j Hj. rewrite Forall_forall in Rng. apply Rng. apply nth_In. auto. }
  rewrite Ev.
  apply (dec_roundtrip_rm c2v opp nf Hlen OK Q Rq ND (3 * F)%Z maxv rm Y eq_refl ltac:(lia) Hm FAN); auto.
  - intros j Hj. apply Sc. lia.
  - destruct (RUNS2_idx _ _ _ _ _ _ _ Ev R2) as (_ & _ & LT & _ & HF).
    rewrite rev_length in LT. rewrite !rev_involutive in HF.
    apply start_ok_of_idx; auto.
Qed.

Theorem ebsim_roundtrip_noevent_ct faces t o rm : ct_create faces = Some t -> eb_encode_ct t = EOk o -> o_events o = [] ->
  (Z.of_nat (3 * length faces + length (ct_vcorn t)) < 2147483648)%Z ->
  ((3 * o_nfaces o) / 2 <= (o_nverts o * (o_nverts o - 1)) / 2)%Z ->
  verts_fit o ->
  exists n s, eb_decode_of o rm = D.Ok (n, s) /\ eb_iso (ct_c2v t) (ct_opp t) (o_pcc o) (D.c2v s) (D.copp s).
Proof.
  intros H E Ev Sz G3 VF.
  destruct (ct_create_wf _ _ H) as (L & OK & Hv & FAN & _).
  destruct (eb_encode_ct_counts faces t o H E) as (_ & _ & _ & _ & _ & Nf & _).
  destruct (eb_encode_ct_guards faces t o rm H E Sz G3) as (Eq & _).
  { rewrite Ev. cbn. lia. }
  rewrite Eq. rewrite <- Nf.
  apply (ebsim_roundtrip_noevent (ct_c2v t) (ct_opp t) (length faces) (length (ct_vcorn t)) (ct_niso t) (ct_ndeg t) o rm); auto.
Qed.

(** the simulation along the trace for the class "no split event": as [sim3]; the decoder's stack additionally holds, below the
    entries of the current run, one entry [rest] for every run the decoder has already finished (the later runs of the encoder) *)
Definition sim4 (c2v : list nat) (opp : list (option nat)) (Q : list nat) (Y : list Z) (ns : nat) (NC maxv : Z) (cf : cfg) (d : D.st) : Prop :=
  let i := length (syms (cf_st cf)) in
  let k := ns - i in
  SIM c2v opp Q k d /\
  cf_corner cf :: pcc (cf_st cf) = skipn (k - 1) (firstn ns Q) /\
  D.stack d = map (fun j => dco j 0) (tops Y k) /\
  (exists rest, map (fun j => nth j Q 0) (tops Y k) = cf_corner cf :: map the (tl (stack (cf_st cf))) ++ rest) /\
  Draco.Proofs.Edgebreaker_proofs.W NC maxv (Z.of_nat k) d /\ Draco.Proofs.Edgebreaker_fan_proofs.FI (Z.of_nat k) d /\
  D.events d = [].

Theorem ebsim_trace_noevent c2v opp nf nv niso ndeg o tr rm maxv :
  length c2v = 3 * nf -> opp_ok c2v opp -> (forall c, c < 3 * nf -> vtx c2v c < nv) -> one_fan c2v opp ->
  eb_encode_tr c2v opp nv niso ndeg = EOk (o, tr) -> o_events o = [] -> (cntv (rev (o_syms o)) <= maxv)%Z ->
  let ns := length (o_syms o) in
  let NC := (3 * Z.of_nat (length (o_pcc o)))%Z in
  length tr = ns /\
  forall i cf, nth_error tr i = Some cf ->
    length (syms (cf_st cf)) = i /\
    exists d, D.sym_loop NC maxv rm (Z.of_nat ns) (firstn (ns - i) (rev (o_syms o))) 0 (D.init_st []) = D.Ok d /\
              sim4 c2v opp (o_pcc o) (rev (o_syms o)) ns NC maxv cf d.
Proof.
  intros Hlen OK Hv FAN Et Ev Hm ns NC.
  pose proof (trace_refines_big_step_ok _ _ _ _ _ _ _ Et) as E.
  destruct (trace_coherent _ _ _ _ _ _ _ Et) as [Lt Co]. fold ns in Lt, Co. split; auto.
  pose proof (trace_steps _ _ _ _ _ _ _ Et) as Steps.
  destruct (noevent_script c2v opp nf nv niso ndeg o tr Hlen OK Hv FAN Et Ev) as (NDP & Sc). fold ns in Sc.
  destruct (encode_facts_wf c2v opp nf nv niso ndeg o Hlen OK Hv FAN E) as (L & ND & _).
  destruct (eb_encode_total c2v opp nf nv niso ndeg Hlen OK Hv FAN) as [T1 T2].
  destruct (Nat.eq_dec nf ndeg) as [Eq|Ne]; [rewrite (T1 Eq) in E; discriminate|].
  destruct (T2 Ne) as (o' & E' & OO & _). rewrite E in E'. inversion E'; subst o'. clear E' T1 T2.
  destruct OO as (_ & Rng & Comp & _).
  rewrite rev_length in L. fold ns in L.
  intros i cf Ecf. destruct (Co i cf Ecf) as [C1 C2].
  assert (Hi : i < ns). { rewrite <- Lt. apply nth_error_Some. congruence. }
  assert (Li : length (syms (cf_st cf)) = i). { rewrite C1, rev_length, firstn_length_le; auto. unfold ns in Hi. lia. }
  split; auto.
  assert (Rq : forall j, j < length (o_pcc o) -> nth j (o_pcc o) 0 < 3 * nf /\ is_degenerated c2v (nth j (o_pcc o) 0 / 3) = false).
  { intros j Hj. rewrite Forall_forall in Rng. apply Rng. apply nth_In. auto. }
  assert (HYQ : length (rev (o_syms o)) <= length (o_pcc o)) by (rewrite rev_length; fold ns; lia).
  destruct (sym_loop_sim c2v opp nf Hlen OK (o_pcc o) Rq ND NC maxv rm (rev (o_syms o)) eq_refl HYQ Hm FAN) with (k := ns - i)
    as (d & Ed & HS & HW & HF & Hnv & Hev & _ & Hst).
  - rewrite rev_length. fold ns. lia.
  - intros j Hj. apply Sc. lia.
  - exists d. rewrite rev_length in Ed. fold ns in Ed. split; auto. unfold sim4. rewrite Li. fold ns.
    split; auto. split. { rewrite C2. f_equal. lia. }
    split; auto. split; auto.
    assert (LQ : ns <= length (o_pcc o)) by lia.
    destruct (tops_stackM opp (o_pcc o) (o_syms o) tr Lt Co LQ Steps NDP (ns - 1 - i) ltac:(fold ns; lia)) as (rest & TS). cbv zeta in TS. fold ns in TS.
    replace (ns - 1 - (ns - 1 - i)) with i in TS by lia. replace (S (ns - 1 - i)) with (ns - i) in TS by lia.
    rewrite (nth_error_nth _ _ _ Ecf) in TS. exists rest. exact TS.
Qed.
