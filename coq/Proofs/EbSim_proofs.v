(** EBSIM: the Edgebreaker connectivity ROUND TRIP on the model (property C01), composed from
      Proofs/EbSimEnc_proofs.v  (encoder side: the history invariant, [encode_facts_wf])
      Proofs/EbSimDec_proofs.v  (decoder side: decoder step lemmas, the simulation relation SIM and its preservation).
    Classes are decidable predicates on the encoder's OUTPUT. *)
From Coq Require Import ZArith List Bool Lia Arith PeanoNat.
From Draco Require Import Model.CornerTable Model.EbEncoder Proofs.CornerTable_proofs Proofs.EbEncoder_proofs.
From Draco Require Import Proofs.EbSimDec_proofs Proofs.EbSimEnc_proofs Model.EbTrace Proofs.EbTrace_proofs.
From Draco Require Model.Edgebreaker.
Import ListNotations.
Module D := Draco.Model.Edgebreaker.

(** ** the classes *)
Definition is_ERL (y : Z) : bool := ((y =? 3) || (y =? 5) || (y =? 7))%Z.
(** only E / R / L symbols (triangle strips and fans), every start configuration on a mesh boundary *)
Definition class_ERL (o : enc_out) : bool := forallb is_ERL (o_syms o) && forallb negb (o_bits o).
(** + symbol C (discs) *)
Definition is_CERL (y : Z) : bool := ((y =? 0) || (y =? 3) || (y =? 5) || (y =? 7))%Z.
Definition class_CERL (o : enc_out) : bool := forallb is_CERL (o_syms o) && forallb negb (o_bits o).
Lemma class_ERL_CERL o : class_ERL o = true -> class_CERL o = true.
Proof.
  unfold class_ERL, class_CERL. intros H. apply andb_prop in H. destruct H as [A B]. rewrite B, andb_true_r.
  rewrite forallb_forall in *. intros y Hy. specialize (A y Hy). unfold is_ERL, is_CERL in *. lia.
Qed.
(** the vertices the decoder creates fit the declared bound (3 per E, 1 per R / L) *)
Definition verts_fit (o : enc_out) : Prop := (cntv (rev (o_syms o)) <= o_nverts o + o_nsplit o)%Z.

Lemma bits_all_false l : forallb negb l = true -> forall i, D.bits_of_list l i = false.
Proof.
  unfold D.bits_of_list. induction l as [|b l IH]; intros H i; cbn in *.
  - destruct i; auto.
  - apply andb_prop in H. destruct H as [Hb Hl]. destruct i; auto. destruct b; auto; discriminate.
Qed.
Lemma count_true_0 l : forallb negb l = true -> count_occ bool_dec l true = 0.
Proof.
  induction l as [|b l IH]; intros H; cbn in *; auto. apply andb_prop in H. destruct H as [Hb Hl].
  destruct b; [discriminate|]. destruct (bool_dec false true); [discriminate|auto].
Qed.

Lemma efact_script c2v opp nf Q Y k y : length c2v = 3 * nf -> length Y <= length Q ->
  (forall f, f < nf -> is_degenerated c2v f = false -> In f (map (fun c => c / 3) Q)) ->
  nth_error Y k = Some y -> is_CERL y = true ->
  efact c2v opp nf Q k (nth k Q 0) y -> script_at c2v opp nf Q Y k.
Proof.
  intros Hlen HYQ Comp Ey Cl (A & B & C & Dd). cbv zeta in Dd. unfold script_at. rewrite Ey. unfold ncr, eco. cbn [rot].
  assert (Hk : k < length Q). { assert (k < length Y) by (apply nth_error_Some; congruence). lia. }
  assert (NV : forall e, nvis Q k (opp_at opp e) -> match opp_at opp e with Some o => forall j', j' < k -> nth j' Q 0 / 3 <> o / 3 | None => True end).
  { intros e H. destruct (opp_at opp e) as [o0|]; auto. }
  unfold is_CERL in Cl.
  destruct Dd as [(D1 & D2 & D3)|[(D1 & D2 & D3 & D4)|[(D1 & D2 & D3 & D4)|[(D1 & D2 & D3 & D4)|D1]]]]; subst y; try discriminate.
  - left. repeat split; auto; apply NV; auto.
  - right. left. repeat split; auto; apply NV; auto.
  - right. right. left. repeat split; auto; apply NV; auto.
  - right. right. right. split; auto. split; auto. split; auto. split; [apply NV; auto|].
    intros x Hx Nx Vx. unfold eco in Vx. cbn [rot] in Vx. destruct (D4 x Hx Nx Vx) as (R1 & R2 & R3). split; auto. split; auto.
    intros Ne. unfold eco in Ne. cbn [rot] in Ne.
    assert (Hf : x / 3 < nf) by (apply Nat.div_lt_upper_bound; lia).
    destruct (In_nth _ _ 0 (Comp _ Hf Nx)) as (j' & Hj' & Ej'). rewrite map_length in Hj'.
    assert (M : nth j' (map (fun c => c / 3) Q) 0 = nth j' Q 0 / 3) by (exact (map_nth (fun c => c / 3) Q 0 j')).
    rewrite M in Ej'.
    assert (Hlt : j' < k).
    { destruct (lt_eq_lt_dec j' k) as [[L|E]|G]; auto.
      - subst j'. exfalso. apply Ne. apply (same_face_vertex c2v); auto.
      - exfalso. apply (R3 j'); auto. }
    symmetry in Ej'. destruct (face_rot _ _ Ej') as (r' & Hr' & Er'). exists j', r'. auto.
Qed.

(** ** C / E / R / L: the state machine [eb_core] on the encoder's output, for every well-formed table *)
Theorem ebsim_roundtrip_CERL_core c2v opp nf nv niso ndeg o rm maxv :
  length c2v = 3 * nf -> opp_ok c2v opp -> (forall c, c < 3 * nf -> vtx c2v c < nv) -> one_fan c2v opp ->
  eb_encode c2v opp nv niso ndeg = EOk o -> class_CERL o = true -> (cntv (rev (o_syms o)) <= maxv)%Z ->
  let F := Z.of_nat (length (o_pcc o)) in
  exists n s, D.eb_core (3 * F) maxv F rm (rev (o_syms o)) (o_events o) (D.bits_of_list (o_bits o)) = D.Ok (n, s) /\
              eb_iso c2v opp (o_pcc o) (D.c2v s) (D.copp s).
Proof.
  intros Hlen OK Hv FAN E Cl Hm F. unfold class_CERL in Cl. apply andb_prop in Cl. destruct Cl as [Cs Cb].
  destruct (encode_facts_wf c2v opp nf nv niso ndeg o Hlen OK Hv FAN E) as (L & ND & Fk & Ev).
  destruct (eb_encode_total c2v opp nf nv niso ndeg Hlen OK Hv FAN) as [T1 T2].
  destruct (Nat.eq_dec nf ndeg) as [Eq|Ne]; [rewrite (T1 Eq) in E; discriminate|].
  destruct (T2 Ne) as (o' & E' & OO & _). rewrite E in E'. inversion E'; subst o'. clear E' T1 T2.
  destruct OO as (_ & Rng & Comp & _).
  rewrite (count_true_0 _ Cb), Nat.add_0_r in L.
  assert (NS : ~ In 1%Z (rev (o_syms o))).
  { intro X. apply in_rev in X. rewrite forallb_forall in Cs. specialize (Cs _ X). discriminate. }
  rewrite (Ev NS).
  apply (dec_roundtrip_noS_boundary c2v opp nf Hlen OK (o_pcc o)); auto.
  - intros j Hj. rewrite Forall_forall in Rng. apply Rng. apply nth_In. auto.
  - lia.
  - intros j Hj. destruct (nth_error (rev (o_syms o)) j) as [y|] eqn:Ey; [|apply nth_error_None in Ey; lia].
    apply (efact_script c2v opp nf _ _ j y); auto; try lia.
    rewrite forallb_forall in Cs. apply Cs. apply in_rev. eapply nth_error_In; eauto.
  - apply bits_all_false; auto.
Qed.

Theorem ebsim_roundtrip_ERL_core c2v opp nf nv niso ndeg o rm maxv :
  length c2v = 3 * nf -> opp_ok c2v opp -> (forall c, c < 3 * nf -> vtx c2v c < nv) -> one_fan c2v opp ->
  eb_encode c2v opp nv niso ndeg = EOk o -> class_ERL o = true -> (cntv (rev (o_syms o)) <= maxv)%Z ->
  let F := Z.of_nat (length (o_pcc o)) in
  exists n s, D.eb_core (3 * F) maxv F rm (rev (o_syms o)) (o_events o) (D.bits_of_list (o_bits o)) = D.Ok (n, s) /\
              eb_iso c2v opp (o_pcc o) (D.c2v s) (D.copp s).
Proof. intros. apply (ebsim_roundtrip_CERL_core c2v opp nf nv niso ndeg); auto. apply class_ERL_CERL; auto. Qed.

(** ** C / E / R / L: the whole decoder [eb_decode_of] (header guards + state machine) on the output of the encoder run on a
    table built by CornerTable::Create.  Premises not derived here: the size bound in which the C13 model is faithful,
    guard G3 of the decoder (simple vertex/edge graph, see Properties_EBENC) and [verts_fit]. *)
Theorem ebsim_roundtrip_CERL faces t o rm : ct_create faces = Some t -> eb_encode_ct t = EOk o -> class_CERL o = true ->
  (Z.of_nat (3 * length faces + length (ct_vcorn t)) < 2147483648)%Z ->
  ((3 * o_nfaces o) / 2 <= (o_nverts o * (o_nverts o - 1)) / 2)%Z ->
  verts_fit o ->
  exists n s, eb_decode_of o rm = D.Ok (n, s) /\ eb_iso (ct_c2v t) (ct_opp t) (o_pcc o) (D.c2v s) (D.copp s).
Proof.
  intros H E Cl Sz G3 VF.
  destruct (ct_create_wf _ _ H) as (L & OK & Hv & FAN & _).
  destruct (eb_encode_ct_counts faces t o H E) as (_ & _ & _ & _ & _ & Nf & _).
  assert (Ev : o_events o = []).
  { destruct (encode_facts_wf _ _ _ _ _ _ o L OK Hv FAN E) as (_ & _ & _ & Ev). apply Ev.
    unfold class_CERL in Cl. apply andb_prop in Cl. destruct Cl as [Cs _].
    intro X. apply in_rev in X. rewrite forallb_forall in Cs. specialize (Cs _ X). discriminate. }
  destruct (eb_encode_ct_guards faces t o rm H E Sz G3) as (Eq & _).
  { rewrite Ev. cbn. lia. }
  rewrite Eq. rewrite <- Nf.
  apply (ebsim_roundtrip_CERL_core (ct_c2v t) (ct_opp t) (length faces) (length (ct_vcorn t)) (ct_niso t) (ct_ndeg t) o rm); auto.
Qed.

Theorem ebsim_roundtrip_ERL faces t o rm : ct_create faces = Some t -> eb_encode_ct t = EOk o -> class_ERL o = true ->
  (Z.of_nat (3 * length faces + length (ct_vcorn t)) < 2147483648)%Z ->
  ((3 * o_nfaces o) / 2 <= (o_nverts o * (o_nverts o - 1)) / 2)%Z ->
  verts_fit o ->
  exists n s, eb_decode_of o rm = D.Ok (n, s) /\ eb_iso (ct_c2v t) (ct_opp t) (o_pcc o) (D.c2v s) (D.copp s).
Proof. intros. apply (ebsim_roundtrip_CERL faces t o rm); auto. apply class_ERL_CERL; auto. Qed.

(** ** The simulation along the TRACE (Model/EbTrace.v).
    [sim2 ... cf d]: configuration [cf] of the encoder (it has emitted i = |syms| symbols and is about to process
    [cf_corner cf]) against the decoder state [d] after the LAST  k = ns - i  symbols:
      - SIM k d : the decoder has created exactly the faces of Q[0..k-1] (Q = o_pcc, the corners in decoder order), with
        Opposite / vertices as in [SIM];
      - these are exactly the faces the encoder has NOT processed yet:  cf_corner :: pcc = Q[k-1 .. ns-1];
      - the decoder's active corner (top of active_corner_stack) is the tip corner 3(k-1) of the face of [cf_corner cf];
      - W, FI: the decoder's own invariants; no pending split event, no invalidated vertex (classes without S). *)
Definition sim2 (c2v : list nat) (opp : list (option nat)) (Q : list nat) (ns : nat) (NC maxv : Z) (cf : cfg) (d : D.st) : Prop :=
  let i := length (syms (cf_st cf)) in
  let k := ns - i in
  SIM c2v opp Q k d /\
  cf_corner cf :: pcc (cf_st cf) = skipn (k - 1) (firstn ns Q) /\
  (exists rest, D.stack d = dco (k - 1) 0 :: rest) /\
  Draco.Proofs.Edgebreaker_proofs.W NC maxv (Z.of_nat k) d /\ Draco.Proofs.Edgebreaker_fan_proofs.FI (Z.of_nat k) d /\
  D.events d = [] /\ D.invalid d = [].

Theorem ebsim_trace_CERL c2v opp nf nv niso ndeg o tr rm maxv :
  length c2v = 3 * nf -> opp_ok c2v opp -> (forall c, c < 3 * nf -> vtx c2v c < nv) -> one_fan c2v opp ->
  eb_encode_tr c2v opp nv niso ndeg = EOk (o, tr) -> class_CERL o = true -> (cntv (rev (o_syms o)) <= maxv)%Z ->
  let ns := length (o_syms o) in
  let NC := (3 * Z.of_nat (length (o_pcc o)))%Z in
  length tr = ns /\
  forall i cf, nth_error tr i = Some cf ->
    length (syms (cf_st cf)) = i /\
    exists d, D.sym_loop NC maxv rm (Z.of_nat ns) (firstn (ns - i) (rev (o_syms o))) 0 (D.init_st []) = D.Ok d /\
              sim2 c2v opp (o_pcc o) ns NC maxv cf d.
Proof.
  intros Hlen OK Hv FAN Et Cl Hm ns NC.
  pose proof (trace_refines_big_step_ok _ _ _ _ _ _ _ Et) as E.
  destruct (trace_coherent _ _ _ _ _ _ _ Et) as [Lt Co]. fold ns in Lt, Co. split; auto.
  unfold class_CERL in Cl. apply andb_prop in Cl. destruct Cl as [Cs Cb].
  destruct (encode_facts_wf c2v opp nf nv niso ndeg o Hlen OK Hv FAN E) as (L & ND & Fk & Ev).
  destruct (eb_encode_total c2v opp nf nv niso ndeg Hlen OK Hv FAN) as [T1 T2].
  destruct (Nat.eq_dec nf ndeg) as [Eq|Ne]; [rewrite (T1 Eq) in E; discriminate|].
  destruct (T2 Ne) as (o' & E' & OO & _). rewrite E in E'. inversion E'; subst o'. clear E' T1 T2.
  destruct OO as (_ & Rng & Comp & _).
  rewrite (count_true_0 _ Cb), Nat.add_0_r, rev_length in L. fold ns in L.
  intros i cf Ecf. destruct (Co i cf Ecf) as [C1 C2].
  assert (Hi : i < ns). { rewrite <- Lt. apply nth_error_Some. congruence. }
  assert (Li : length (syms (cf_st cf)) = i). { rewrite C1, rev_length, firstn_length_le; auto. unfold ns in Hi. lia. }
  split; auto.
  assert (Rq : forall j, j < length (o_pcc o) -> nth j (o_pcc o) 0 < 3 * nf /\ is_degenerated c2v (nth j (o_pcc o) 0 / 3) = false).
  { intros j Hj. rewrite Forall_forall in Rng. apply Rng. apply nth_In. auto. }
  destruct (sym_loop_sim c2v opp nf Hlen OK (o_pcc o) Rq ND NC maxv rm (rev (o_syms o)) eq_refl) with (k := ns - i) as (d & Ed & HS & HW & HF & Hnv & Hev & Hinv & Hst).
  - rewrite rev_length. fold ns. lia.
  - auto.
  - rewrite rev_length. fold ns. lia.
  - intros j Hj. destruct (nth_error (rev (o_syms o)) j) as [y|] eqn:Ey; [|apply nth_error_None in Ey; rewrite rev_length in Ey; fold ns in Ey; lia].
    apply (efact_script c2v opp nf _ _ j y); auto; try (rewrite rev_length; fold ns; lia).
    rewrite forallb_forall in Cs. apply Cs. apply in_rev. eapply nth_error_In; eauto.
  - exists d. rewrite rev_length in Ed. fold ns in Ed. split; auto. unfold sim2. rewrite Li. fold ns.
    split; auto. split. { rewrite C2. f_equal. lia. }
    split. { apply (Hst (ns - i - 1)). lia. }
    auto.
Qed.

Corollary ebsim_trace_ERL c2v opp nf nv niso ndeg o tr rm maxv :
  length c2v = 3 * nf -> opp_ok c2v opp -> (forall c, c < 3 * nf -> vtx c2v c < nv) -> one_fan c2v opp ->
  eb_encode_tr c2v opp nv niso ndeg = EOk (o, tr) -> class_ERL o = true -> (cntv (rev (o_syms o)) <= maxv)%Z ->
  let ns := length (o_syms o) in
  let NC := (3 * Z.of_nat (length (o_pcc o)))%Z in
  length tr = ns /\
  forall i cf, nth_error tr i = Some cf ->
    length (syms (cf_st cf)) = i /\
    exists d, D.sym_loop NC maxv rm (Z.of_nat ns) (firstn (ns - i) (rev (o_syms o))) 0 (D.init_st []) = D.Ok d /\
              sim2 c2v opp (o_pcc o) ns NC maxv cf d.
Proof. intros. apply (ebsim_trace_CERL c2v opp nf nv niso ndeg); auto. apply class_ERL_CERL; auto. Qed.
