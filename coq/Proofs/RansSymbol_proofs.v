(** Proofs about Model/RansSymbol.v: checked arrays, the rANS coder (state invariant, step inversion, whole
    symbol lists, the 1..4 byte tail), the symbol lookup by bisection, probability tables (EncodeTable /
    Create of the decoder), and the block-level round trip [rans_roundtrip]. *)
From Coq Require Import ZifyBool FMapPositive.
From Draco Require Import Base.Codec Base.Bits Model.Varint Proofs.Varint_proofs Model.RansSymbol.
Local Open Scope Z_scope.
Arguments Z.add : simpl never. Arguments Z.mul : simpl never. Arguments Z.pow : simpl never.
Arguments Z.div : simpl never. Arguments Z.modulo : simpl never. Arguments Z.sub : simpl never.


(** * Arrays *)
Lemma akey_inj i j : 0 <= i -> 0 <= j -> akey i = akey j -> i = j.
Proof. unfold akey. intros. assert (Z.pos (Z.to_pos (i+1)) = Z.pos (Z.to_pos (j+1))) by congruence. rewrite !Z2Pos.id in H2 by lia. lia. Qed.

Lemma arr_gss {A} (m : arr A) i a : 0 <= i -> arr_get (arr_set m i a) i = Some a.
Proof. intros. unfold arr_get, arr_set. destruct (i <? 0) eqn:E; [lia|]. apply PositiveMap.gss. Qed.
Lemma arr_gso {A} (m : arr A) i j a : 0 <= i -> 0 <= j -> i <> j -> arr_get (arr_set m i a) j = arr_get m j.
Proof.
  intros. unfold arr_get, arr_set. destruct (j <? 0) eqn:E; [lia|]. apply PositiveMap.gso.
  intro. apply akey_inj in H2; lia.
Qed.
Lemma arr_get_neg {A} (m : arr A) i : i < 0 -> arr_get m i = None.
Proof. intros. unfold arr_get. destruct (i <? 0) eqn:E; [reflexivity|lia]. Qed.

Lemma arr_fill_get {A} : forall (l : list A) i m j, 0 <= i -> 0 <= j ->
  arr_get (arr_fill l i m) j = if j <? i then arr_get m j else
                               match nth_error l (Z.to_nat (j - i)) with Some a => Some a | None => arr_get m j end.
Proof.
  induction l as [|a l IH]; intros i m j Hi Hj; cbn [arr_fill].
  - destruct (j <? i); [reflexivity|]. destruct (Z.to_nat (j - i)); reflexivity.
  - rewrite IH by lia. destruct (j <? i + 1) eqn:E1; destruct (j <? i) eqn:E2; try lia.
    + apply arr_gso; lia.
    + assert (j = i) by lia. subst j. replace (i - i) with 0 by lia. cbn. apply arr_gss; lia.
    + replace (Z.to_nat (j - i)) with (S (Z.to_nat (j - (i + 1)))) by lia. cbn [nth_error].
      destruct (nth_error l (Z.to_nat (j - (i + 1)))); [reflexivity|]. apply arr_gso; lia.
Qed.

Lemma arr_get_empty {A} j : arr_get (PositiveMap.empty A) j = None.
Proof. unfold arr_get. destruct (j <? 0); [reflexivity|]. apply PositiveMap.gempty. Qed.

Lemma arr_of_list_get {A} (l : list A) j : 0 <= j -> arr_get (arr_of_list l) j = nth_error l (Z.to_nat j).
Proof.
  intros. unfold arr_of_list. rewrite arr_fill_get by lia. destruct (j <? 0) eqn:E; [lia|].
  replace (j - 0) with j by lia. destruct (nth_error l (Z.to_nat j)); [reflexivity|]. apply arr_get_empty.
Qed.


Lemma pow2_pos k : 0 <= k -> 0 < 2 ^ k. Proof. intros; apply Z.pow_pos_nonneg; lia. Qed.
Lemma pow2_le a b : 0 <= a <= b -> 2 ^ a <= 2 ^ b. Proof. intros; apply Z.pow_le_mono_r; lia. Qed.

Section Core.
  Variable P : Z.
  Hypothesis HP : 0 <= P <= 20.
  Let M := 2 ^ P.
  Let L := rans_L P.

  Lemma M_range : 1 <= M <= 1048576.
  Proof. unfold M. pose proof (pow2_pos P). pose proof (pow2_le P 20). change (2^20) with 1048576 in *. lia. Qed.
  Lemma L_eq : L = 4 * M. Proof. reflexivity. Qed.

  Lemma dec_renorm_ge x stk : L <= x -> dec_renorm L x stk = (x, stk).
  Proof. intros. destruct stk; cbn [dec_renorm]; [reflexivity|]. destruct (x <? L) eqn:E; [lia|reflexivity]. Qed.

  Lemma dec_renorm_idem : forall stk x, dec_renorm L (fst (dec_renorm L x stk)) (snd (dec_renorm L x stk)) = dec_renorm L x stk.
  Proof.
    induction stk as [|b r IH]; intros x; cbn [dec_renorm]; [reflexivity|].
    destruct (x <? L) eqn:E; [apply IH|]. cbn [fst snd dec_renorm]. rewrite E. reflexivity.
  Qed.

  Lemma enc_renorm_back : forall f lim y s x' stk', 0 <= y < L ->
    enc_renorm f lim y s = Some (x', stk') -> dec_renorm L x' stk' = dec_renorm L y s.
  Proof.
    pose proof M_range as HM. pose proof L_eq as HL.
    induction f as [|f IH]; intros lim y s x' stk' Hy H; [discriminate|].
    cbn [enc_renorm] in H. destruct (y >=? lim) eqn:E.
    - apply IH in H.
      2:{ split; [apply Z.div_pos; lia|]. apply Z.div_lt_upper_bound; lia. }
      rewrite H. cbn [dec_renorm].
      assert (y / 256 <? L = true) as ->.
      { apply Z.ltb_lt. apply Z.div_lt_upper_bound; lia. }
      replace (y / 256 * 256 + y mod 256) with y by (pose proof (Z.div_mod y 256); lia).
      rewrite Z.mod_small; [reflexivity|]. change (2^32) with 4294967296. lia.
    - injection H as <- <-. reflexivity.
  Qed.

  Lemma enc_renorm_top f lim x stk x' stk' : L <= x < 256 * L ->
    enc_renorm f lim x stk = Some (x', stk') -> dec_renorm L x' stk' = (x, stk).
  Proof.
    pose proof M_range as HM. pose proof L_eq as HL.
    intros Hx H. destruct f as [|f]; [discriminate|]. cbn [enc_renorm] in H.
    destruct (x >=? lim) eqn:E.
    - apply enc_renorm_back in H.
      2:{ split; [apply Z.div_pos; lia|]. apply Z.div_lt_upper_bound; lia. }
      rewrite H. cbn [dec_renorm].
      assert (x / 256 <? L = true) as ->.
      { apply Z.ltb_lt. apply Z.div_lt_upper_bound; lia. }
      replace (x / 256 * 256 + x mod 256) with x by (pose proof (Z.div_mod x 256); lia).
      rewrite Z.mod_small; [apply dec_renorm_ge; lia|]. change (2^32) with 4294967296. lia.
    - injection H as <- <-. apply dec_renorm_ge; lia.
  Qed.

  Lemma enc_renorm_low : forall f lo x stk x' stk', 0 <= lo -> lo <= x ->
    enc_renorm f (256 * lo) x stk = Some (x', stk') -> lo <= x' < 256 * lo \/ (lo = 0).
  Proof.
    induction f as [|f IH]; intros lo x stk x' stk' Hlo Hx H; [discriminate|].
    cbn [enc_renorm] in H. destruct (x >=? 256 * lo) eqn:E.
    - apply IH in H; try lia. apply Z.div_le_lower_bound; lia.
    - injection H as <- <-. lia.
  Qed.

  Lemma enc_renorm_some : forall f lim x stk, 1 <= lim -> 0 <= x < lim * 256 ^ Z.of_nat f ->
    exists r, enc_renorm (S f) lim x stk = Some r.
  Proof.
    induction f as [|f IH]; intros lim x stk Hl Hx.
    - cbn [enc_renorm]. change (256 ^ Z.of_nat 0) with 1 in Hx. destruct (x >=? lim) eqn:E; [lia|]. eexists; reflexivity.
    - cbn [enc_renorm]. destruct (x >=? lim) eqn:E; [|eexists; reflexivity].
      apply IH; [lia|]. rewrite Nat2Z.inj_succ, Z.pow_succ_r in Hx by lia.
      split; [apply Z.div_pos; lia|]. apply Z.div_lt_upper_bound; lia.
  Qed.

  (** One encoder step and the decoder step that undoes it. *)
  Definition sym_ok (p c : Z) : Prop := 1 <= p /\ 0 <= c /\ c + p <= M.

  Lemma rans_write_spec p c x stk : sym_ok p c -> L <= x < 256 * L ->
    exists x' x2 stk', rans_write P (p, c) (x, stk) = Some (x2, stk') /\
      L <= x2 < 256 * L /\ dec_renorm L x' stk' = (x, stk) /\ 0 <= x' < 1073741824 /\
      x2 / M = x' / p /\ x2 mod M = x' mod p + c /\ c <= x2 mod M < c + p.
  Proof.
    pose proof M_range as HM. pose proof L_eq as HL.
    intros (Hp & Hc & Hcp) Hx. unfold rans_write.
    assert (Hlim : (4 * 256 * p) mod 2 ^ 32 = 256 * (4 * p)).
    { rewrite Z.mod_small; [lia|]. change (2^32) with 4294967296. lia. }
    rewrite Hlim.
    destruct (enc_renorm_some 4 (256 * (4 * p)) x stk) as ([x' stk'] & Hr); [lia| |].
    { change (256 ^ Z.of_nat 4) with 4294967296. lia. }
    rewrite Hr. pose proof Hr as Hr2. apply enc_renorm_low in Hr2; try lia.
    destruct Hr2 as [Hx'|]; [|lia].
    apply enc_renorm_top in Hr; [|lia].
    pose proof (Z.div_mod x' p ltac:(lia)) as Hdm. pose proof (Z.mod_pos_bound x' p ltac:(lia)) as Hmb.
    assert (Hq : 4 <= x' / p < 1024).
    { split; [apply Z.div_le_lower_bound; lia|apply Z.div_lt_upper_bound; lia]. }
    fold M.
    set (q := x' / p) in *. set (r := x' mod p) in *.
    assert (Hx2 : (q * M + r + c) mod 2 ^ 32 = q * M + r + c).
    { apply Z.mod_small. change (2^32) with 4294967296. nia. }
    exists x', (q * M + r + c), stk'. rewrite Hx2.
    assert (Hd : (q * M + r + c) / M = q).
    { replace (q * M + r + c) with (q * M + (r + c)) by lia. rewrite Z.div_add_l by lia. rewrite Z.div_small by lia. lia. }
    assert (Hm : (q * M + r + c) mod M = r + c).
    { replace (q * M + r + c) with ((r + c) + q * M) by lia. rewrite Z.mod_add by lia. apply Z.mod_small; lia. }
    repeat split; try assumption; try lia; try nia.
  Qed.
End Core.


Section Syms.
  Variable P : Z.
  Hypothesis HP : 0 <= P <= 20.
  Let M := 2 ^ P.
  Let L := rans_L P.
  Variable tbl : arr (Z * Z).
  Variable d : rdec.

  (** What encoder and decoder must agree on for a symbol [s]. *)
  Definition sym_agree (s : Z) : Prop :=
    exists p c, arr_get tbl s = Some (p, c) /\ sym_ok P p c /\ arr_get (d_tbl d) s = Some (p, c) /\
                (forall rem, c <= rem < c + p -> fetch_sym d rem = Some s).

  Lemma rans_step s x stk : sym_agree s -> L <= x < 256 * L ->
    exists st2, (match arr_get tbl s with Some sym => rans_write P sym (x, stk) | None => None end) = Some st2 /\
      L <= fst st2 < 256 * L /\
      forall x1 stk1, dec_renorm L x1 stk1 = st2 ->
        exists x' stk', rans_read P d (x1, stk1) = Ok (s, (x', stk')) /\ dec_renorm L x' stk' = (x, stk).
  Proof.
    intros (p & c & Ht & Hok & Hd & Hf) Hx. rewrite Ht.
    destruct (rans_write_spec P HP p c x stk Hok Hx) as (x' & x2 & stk' & Hw & Hr2 & Hback & Hx' & Hq & Hm & Hrange).
    exists (x2, stk'). split; [exact Hw|]. split; [exact Hr2|].
    intros x1 stk1 H1. exists x', stk'. split; [|exact Hback].
    unfold rans_read. fold L. rewrite H1. rewrite (Hf _ Hrange), Hd.
    do 3 f_equal. rewrite Hq, Hm.
    destruct Hok as (Hp & _).
    replace (x' / p * p + (x' mod p + c) - c) with x' by (pose proof (Z.div_mod x' p ltac:(lia)); lia).
    apply Z.mod_small. change (2^32) with 4294967296. lia.
  Qed.

  Lemma rans_syms_core : forall syms x0 stk0 st,
    (forall s, In s syms -> sym_agree s) -> L <= x0 < 256 * L ->
    rans_encode_syms P tbl syms (x0, stk0) = Some st ->
    L <= fst st < 256 * L /\
    forall x1 stk1, dec_renorm L x1 stk1 = st ->
      exists stf, rans_read_n P d (length syms) (x1, stk1) = Ok (syms, stf).
  Proof.
    induction syms as [|s r IH]; intros x0 stk0 st Hall Hx0 Henc.
    - cbn in Henc. injection Henc as <-. split; [exact Hx0|]. intros. eexists; reflexivity.
    - cbn [rans_encode_syms] in Henc.
      destruct (rans_encode_syms P tbl r (x0, stk0)) as [[xr stkr]|] eqn:Er; [|discriminate].
      destruct (IH x0 stk0 _ (fun s' H => Hall s' (or_intror H)) Hx0 Er) as (Hrr & Hdec).
      cbn [fst] in Hrr.
      destruct (rans_step s xr stkr (Hall s (or_introl eq_refl)) Hrr) as (st2 & Hw & Hr2 & Hstep).
      rewrite Hw in Henc. injection Henc as <-. split; [exact Hr2|].
      intros x1 stk1 H1. destruct (Hstep x1 stk1 H1) as (x' & stk' & Hread & Hback).
      destruct (Hdec x' stk' Hback) as (stf & Hn).
      exists stf. cbn [rans_read_n length]. rewrite Hread. cbn [dbind]. rewrite Hn. reflexivity.
  Qed.
End Syms.

(** * The tail: write_end / read_init *)
Lemma rev'_rev {A} (l : list A) : rev' l = rev l.
Proof. unfold rev'. rewrite <- rev_alt. reflexivity. Qed.

Lemma rans_block_rev P x stk : rev' (rans_block P (x, stk)) = rev (rans_tail P x) ++ stk.
Proof.
  rewrite rev'_rev. unfold rans_block. cbn [fst snd]. rewrite rev_append_rev, rev_app_distr, rev_involutive. reflexivity.
Qed.

Lemma read_init_block P pre x stk : 0 <= P <= 20 -> rans_L P <= x < 256 * rans_L P ->
  rans_read_init P pre (rans_block P (x, stk)) = Ok (x, stk).
Proof.
  intros HP Hx. pose proof (M_range P HP) as HM. unfold rans_L in *.
  set (M := 2 ^ P) in *.
  unfold rans_read_init. rewrite rans_block_rev. unfold rans_tail, rans_L. fold M.
  assert (Hs : (x - 4 * M) mod 2 ^ 32 = x - 4 * M).
  { apply Z.mod_small. change (2^32) with 4294967296. lia. }
  rewrite Hs. set (s := x - 4 * M) in *.
  assert (Hs0 : 0 <= s < 1073741824) by lia.
  change (2 ^ 6) with 64. change (2 ^ 14) with 16384. change (2 ^ 22) with 4194304. change (2 ^ 30) with 1073741824.
  change (2 ^ 32) with 4294967296.
  assert (Hfin : forall v, v = s -> (if (v + 4 * M) mod 4294967296 >=? 4 * M * 256 then @Fail rstate else Ok ((v + 4 * M) mod 4294967296, stk)) = Ok (x, stk)).
  { intros v ->. rewrite Z.mod_small by lia. destruct (s + 4 * M >=? 4 * M * 256) eqn:E; [lia|]. do 2 f_equal. lia. }
  destruct (s <? 64) eqn:E1.
  { cbn [rev app]. rewrite Z.div_small by lia. cbn [Z.eqb]. apply Hfin. apply Z.mod_small; lia. }
  destruct (s <? 16384) eqn:E2.
  { cbn [rev app].
    assert (H0 : ((16384 + s) / 256) mod 256 / 64 = 1).
    { rewrite Z.mod_small by (split; [apply Z.div_pos; lia|apply Z.div_lt_upper_bound; lia]).
      rewrite Z.div_div by lia. symmetry. apply Z.div_unique with (r := s); lia. }
    rewrite H0. cbn [Z.eqb]. apply Hfin.
    rewrite (Z.mod_small ((16384 + s) / 256)) by (split; [apply Z.div_pos; lia|apply Z.div_lt_upper_bound; lia]).
    replace ((16384 + s) / 256 * 256 + (16384 + s) mod 256) with (16384 + s) by (pose proof (Z.div_mod (16384 + s) 256); lia).
    replace (16384 + s) with (s + 1 * 16384) by lia. rewrite Z.mod_add by lia. apply Z.mod_small; lia. }
  destruct (s <? 4194304) eqn:E3.
  { cbn [rev app].
    set (v := 2 * 4194304 + s).
    assert (Hb0 : (v / 65536) mod 256 = v / 65536).
    { apply Z.mod_small. split; [apply Z.div_pos; lia|apply Z.div_lt_upper_bound; lia]. }
    rewrite Hb0.
    assert (H0 : v / 65536 / 64 = 2). { rewrite Z.div_div by lia. symmetry. apply Z.div_unique with (r := s); lia. }
    rewrite H0. cbn [Z.eqb]. apply Hfin.
    assert (Hv : v / 65536 * 65536 + (v / 256) mod 256 * 256 + v mod 256 = v).
    { pose proof (Z.div_mod v 256 ltac:(lia)). pose proof (Z.div_mod (v / 256) 256 ltac:(lia)).
      rewrite Z.div_div in H1 by lia. change (256 * 256) with 65536 in H1. lia. }
    rewrite Hv. unfold v. replace (2 * 4194304 + s) with (s + 2 * 4194304) by lia. rewrite Z.mod_add by lia. apply Z.mod_small; lia. }
  destruct (s <? 1073741824) eqn:E4; [|lia].
  cbn [rev app].
  set (v := 3 * 1073741824 + s).
  assert (Hb0 : (v / 16777216) mod 256 = v / 16777216).
  { apply Z.mod_small. split; [apply Z.div_pos; lia|apply Z.div_lt_upper_bound; lia]. }
  rewrite Hb0.
  assert (H0 : v / 16777216 / 64 = 3). { rewrite Z.div_div by lia. symmetry. apply Z.div_unique with (r := s); lia. }
  rewrite H0. cbn [Z.eqb app skipn].
  apply Hfin.
  assert (Hv : v / 16777216 * 16777216 + (v / 65536) mod 256 * 65536 + (v / 256) mod 256 * 256 + v mod 256 = v).
  { pose proof (Z.div_mod v 256 ltac:(lia)). pose proof (Z.div_mod (v / 256) 256 ltac:(lia)).
    pose proof (Z.div_mod (v / 65536) 256 ltac:(lia)).
    rewrite Z.div_div in H1 by lia. change (256 * 256) with 65536 in H1.
    rewrite Z.div_div in H2 by lia. change (65536 * 256) with 16777216 in H2. lia. }
  rewrite Hv. unfold v. replace (3 * 1073741824 + s) with (s + 3 * 1073741824) by lia. rewrite Z.mod_add by lia. apply Z.mod_small; lia.
Qed.


Definition all_nonneg (l : list Z) : Prop := forall p, In p l -> 0 <= p.
Definition cumz (probs : list Z) (i : Z) : Z := zsum (firstn (Z.to_nat i) probs).

Lemma zsum_nonneg l : all_nonneg l -> 0 <= zsum l.
Proof. induction l; intros H; cbn [zsum]; [lia|]. pose proof (H a (or_introl eq_refl)). assert (0 <= zsum l) by (apply IHl; intros p Hp; apply H; right; exact Hp). lia. Qed.
Lemma zsum_app a b : zsum (a ++ b) = zsum a + zsum b.
Proof. induction a; cbn [zsum app]; lia. Qed.
Lemma all_nonneg_app a b : all_nonneg (a ++ b) -> all_nonneg a /\ all_nonneg b.
Proof. intros H; split; intros p Hp; apply H; apply in_or_app; auto. Qed.

Lemma zsum_firstn_mono : forall l n m, all_nonneg l -> (n <= m)%nat -> zsum (firstn n l) <= zsum (firstn m l).
Proof.
  induction l as [|a l IH]; intros n m Hn Hnm.
  - rewrite !firstn_nil. lia.
  - assert (Hl : all_nonneg l) by (intros p Hp; apply Hn; right; exact Hp).
    pose proof (Hn a (or_introl eq_refl)).
    destruct n, m; cbn [firstn zsum]; try lia.
    + assert (all_nonneg (firstn m l)).
      { intros p Hp. apply Hl. rewrite <- (firstn_skipn m l). apply in_or_app; left; exact Hp. }
      pose proof (zsum_nonneg (firstn m l) H0). lia.
    + pose proof (IH n m Hl ltac:(lia)). lia.
Qed.
Lemma cumz_mono probs i j : all_nonneg probs -> 0 <= i <= j -> cumz probs i <= cumz probs j.
Proof. intros. unfold cumz. apply zsum_firstn_mono; [assumption|lia]. Qed.

Lemma cumz_succ probs i p : 0 <= i -> nth_error probs (Z.to_nat i) = Some p -> cumz probs (i + 1) = cumz probs i + p.
Proof.
  intros Hi Hn. unfold cumz. replace (Z.to_nat (i + 1)) with (S (Z.to_nat i)) by lia.
  revert Hn. generalize (Z.to_nat i) as n. clear. intros n. revert probs.
  induction n; intros [|a l] H; cbn in H; try discriminate.
  - injection H as ->. cbn. lia.
  - rewrite (firstn_cons (S n)), (firstn_cons n). cbn [zsum]. rewrite (IHn _ H). lia.
Qed.

Lemma cumz_all probs i : zlen probs <= i -> cumz probs i = zsum probs.
Proof. intros. unfold cumz, zlen in *. rewrite firstn_all2 by lia. reflexivity. Qed.
Lemma cumz_0 probs : cumz probs 0 = 0. Proof. reflexivity. Qed.

Lemma with_cum_nth : forall probs c0 i, nth_error (with_cum probs c0) i =
  match nth_error probs i with Some p => Some (p, c0 + zsum (firstn i probs)) | None => None end.
Proof.
  induction probs as [|a l IH]; intros c0 [|i]; cbn [with_cum nth_error firstn zsum]; try reflexivity.
  - do 2 f_equal. lia.
  - rewrite IH. destruct (nth_error l i); [|reflexivity]. do 2 f_equal. lia.
Qed.

Lemma tbl_get probs i : 0 <= i ->
  arr_get (arr_of_list (with_cum probs 0)) i =
  match nth_error probs (Z.to_nat i) with Some p => Some (p, cumz probs i) | None => None end.
Proof. intros. rewrite arr_of_list_get by lia. rewrite with_cum_nth. unfold cumz. destruct (nth_error probs (Z.to_nat i)); reflexivity. Qed.

Section Search.
  Variable probs : list Z.
  Hypothesis Hnn : all_nonneg probs.
  Variable s0 rem : Z.
  Hypothesis Hs0 : 0 <= s0 < zlen probs.
  Hypothesis Hrem : cumz probs s0 <= rem < cumz probs (s0 + 1).
  Let tbl := arr_of_list (with_cum probs 0).

  Lemma bsearch_spec : forall f lo hi, 0 <= lo <= s0 -> s0 < hi <= zlen probs -> hi - lo <= 2 ^ Z.of_nat f ->
    bsearch (S f) tbl rem lo hi = Some s0.
  Proof.
    induction f as [|f IH]; intros lo hi Hlo Hhi Hw.
    - change (2 ^ Z.of_nat 0) with 1 in Hw. cbn [bsearch]. destruct (hi - lo <=? 1) eqn:E; [|lia]. f_equal. lia.
    - remember (S f) as f1. cbn [bsearch]. destruct (hi - lo <=? 1) eqn:E; [f_equal; lia|].
      set (mid := (lo + hi) / 2).
      assert (Hmid : lo < mid < hi).
      { assert (lo + 1 <= mid) by (unfold mid; apply Z.div_le_lower_bound; lia).
        assert (mid < hi) by (unfold mid; apply Z.div_lt_upper_bound; lia). lia. }
      unfold tbl. rewrite tbl_get by lia.
      destruct (nth_error probs (Z.to_nat mid)) as [pm|] eqn:En.
      2:{ apply nth_error_None in En. unfold zlen in *. lia. }
      fold tbl. subst f1.
      rewrite Nat2Z.inj_succ, Z.pow_succ_r in Hw by lia.
      destruct (cumz probs mid <=? rem) eqn:Ec.
      + apply IH; try lia.
        * destruct (Z_lt_ge_dec s0 mid) as [Hlt|]; [|lia].
          pose proof (cumz_mono probs (s0 + 1) mid Hnn ltac:(lia)). lia.
        * assert (hi - mid <= (hi - lo + 1) / 2).
          { unfold mid. apply Z.div_le_lower_bound; [lia|].
            pose proof (Z.div_mod (lo + hi) 2 ltac:(lia)). pose proof (Z.mod_pos_bound (lo + hi) 2 ltac:(lia)). lia. }
          assert ((hi - lo + 1) / 2 < 2 ^ Z.of_nat f + 1) by (apply Z.div_lt_upper_bound; lia).
          lia.
      + apply IH; try lia.
        * destruct (Z_lt_ge_dec s0 mid) as [|Hge]; [lia|].
          pose proof (cumz_mono probs mid s0 Hnn ltac:(lia)). lia.
        * assert (mid - lo <= (hi - lo) / 2).
          { unfold mid. apply Z.div_le_lower_bound; [lia|].
            pose proof (Z.div_mod (lo + hi) 2 ltac:(lia)). pose proof (Z.mod_pos_bound (lo + hi) 2 ltac:(lia)). lia. }
          assert ((hi - lo) / 2 <= 2 ^ Z.of_nat f) by (apply Z.div_le_upper_bound; lia).
          lia.
  Qed.
End Search.

Lemma agree_of_probs P probs s p : 0 <= P <= 20 -> all_nonneg probs -> zsum probs = 2 ^ P ->
  zlen probs <= 2 ^ 32 -> 0 <= s -> nth_error probs (Z.to_nat s) = Some p -> 1 <= p ->
  sym_agree P (arr_of_list (with_cum probs 0)) {| d_n := zlen probs; d_tbl := arr_of_list (with_cum probs 0) |} s.
Proof.
  intros HP Hnn Hsum Hlen Hs Hnth Hp.
  assert (Hsl : s < zlen probs).
  { assert (nth_error probs (Z.to_nat s) <> None) by congruence. apply nth_error_Some in H. unfold zlen. lia. }
  exists p, (cumz probs s). rewrite tbl_get, Hnth by lia. split; [reflexivity|].
  pose proof (cumz_succ probs s p Hs Hnth) as Hsucc.
  pose proof (cumz_mono probs 0 s Hnn ltac:(lia)) as H0. rewrite cumz_0 in H0.
  assert (H1 : cumz probs (s + 1) <= cumz probs (zlen probs)) by (apply cumz_mono; [assumption|lia]).
  rewrite (cumz_all probs (zlen probs)) in H1 by lia.
  split; [unfold sym_ok; lia|]. cbn [d_tbl]. rewrite tbl_get, Hnth by lia. split; [reflexivity|].
  intros rem Hrem. unfold fetch_sym. cbn [d_n d_tbl].
  destruct (zlen probs <=? 0) eqn:E; [lia|].
  change (2^32) with 4294967296 in Hlen.
  apply (bsearch_spec probs Hnn s rem) with (f := 39%nat); try lia.
Qed.


Lemma zrepeat_app {A} (a : A) n tl : zrepeat a n tl = repeat a n ++ tl.
Proof. induction n; cbn [zrepeat repeat app]; [reflexivity|]. rewrite IHn. reflexivity. Qed.
Lemma rev_repeat {A} (a : A) n : rev (repeat a n) = repeat a n.
Proof.
  induction n; [reflexivity|]. cbn [repeat rev]. rewrite IHn. clear.
  induction n; [reflexivity|]. cbn [repeat app]. rewrite IHn. reflexivity.
Qed.
Lemma repeat_snoc {A} (a : A) n : repeat a n ++ [a] = a :: repeat a n.
Proof. induction n; [reflexivity|]. cbn [repeat app]. rewrite IHn. reflexivity. Qed.

Lemma zlen_nonneg {A} (l : list A) : 0 <= zlen l. Proof. unfold zlen; lia. Qed.

Lemma dec_table_done n i bs acc : i >= n -> dec_table_loop n i bs acc = Ok (rev' acc, bs).
Proof. intros. destruct bs; cbn [dec_table_loop]; destruct (i >=? n) eqn:E; try lia; reflexivity. Qed.

Lemma dec_prob_bytes p pb n i rest acc : enc_prob p = Some pb -> 0 <= p -> i < n ->
  dec_table_loop n i (pb ++ rest) acc = dec_table_loop n (i + 1) rest (p :: acc).
Proof.
  intros He Hp Hi. unfold enc_prob in He.
  change (2 ^ 6) with 64 in *. change (2 ^ 14) with 16384 in *. change (2 ^ 22) with 4194304 in *.
  destruct (p <? 64) eqn:E1.
  { injection He as <-. cbn [app dec_table_loop]. destruct (i >=? n) eqn:E; [lia|].
    assert (Hb : (p * 4) mod 256 = p * 4) by (apply Z.mod_small; lia). rewrite Hb.
    rewrite Z.mod_mul by lia. cbn [Z.eqb Pos.eqb]. rewrite Z.div_mul by lia. reflexivity. }
  destruct (p <? 16384) eqn:E2.
  { injection He as <-. cbn [app dec_table_loop]. destruct (i >=? n) eqn:E; [lia|].
    assert (Hb : (p * 4 + 1) mod 256 = (p mod 64) * 4 + 1).
    { pose proof (Z.div_mod p 64 ltac:(lia)). pose proof (Z.mod_pos_bound p 64 ltac:(lia)).
      replace (p * 4 + 1) with ((p mod 64) * 4 + 1 + (p / 64) * 256) by lia. rewrite Z.mod_add by lia. apply Z.mod_small; lia. }
    rewrite Hb. pose proof (Z.mod_pos_bound p 64 ltac:(lia)).
    assert (Ht : ((p mod 64) * 4 + 1) mod 4 = 1) by (rewrite Z.add_comm, Z.mod_add by lia; reflexivity).
    rewrite Ht. cbn [Z.eqb Pos.eqb].
    assert (Hd : ((p mod 64) * 4 + 1) / 4 = p mod 64) by (rewrite Z.add_comm, Z.div_add by lia; reflexivity).
    rewrite Hd. rewrite (Z.mod_small (p / 64)) by (split; [apply Z.div_pos; lia|apply Z.div_lt_upper_bound; lia]).
    do 2 f_equal. pose proof (Z.div_mod p 64 ltac:(lia)). lia. }
  destruct (p <? 4194304) eqn:E3; [|discriminate].
  injection He as <-. cbn [app dec_table_loop]. destruct (i >=? n) eqn:E; [lia|].
  assert (Hb : (p * 4 + 2) mod 256 = (p mod 64) * 4 + 2).
  { pose proof (Z.div_mod p 64 ltac:(lia)). pose proof (Z.mod_pos_bound p 64 ltac:(lia)).
    replace (p * 4 + 2) with ((p mod 64) * 4 + 2 + (p / 64) * 256) by lia. rewrite Z.mod_add by lia. apply Z.mod_small; lia. }
  rewrite Hb. pose proof (Z.mod_pos_bound p 64 ltac:(lia)).
  assert (Ht : ((p mod 64) * 4 + 2) mod 4 = 2) by (rewrite Z.add_comm, Z.mod_add by lia; reflexivity).
  rewrite Ht. cbn [Z.eqb Pos.eqb].
  assert (Hd : ((p mod 64) * 4 + 2) / 4 = p mod 64) by (rewrite Z.add_comm, Z.div_add by lia; reflexivity).
  rewrite Hd.
  rewrite (Z.mod_small (p / 16384)) by (split; [apply Z.div_pos; lia|apply Z.div_lt_upper_bound; lia]).
  do 2 f_equal.
  pose proof (Z.div_mod p 64 ltac:(lia)). pose proof (Z.div_mod (p / 64) 256 ltac:(lia)).
  rewrite Z.div_div in H1 by lia. change (64 * 256) with 16384 in H1. lia.
Qed.

Definition pending (run : option Z) : Z := match run with None => 0 | Some k => k + 1 end.
Definition run_ok (run : option Z) : Prop := match run with None => True | Some k => 0 <= k <= 63 end.

Lemma table_loop_roundtrip : forall probs run tb, enc_table_loop probs run = Some tb -> all_nonneg probs -> run_ok run ->
  forall n i rest acc, 0 <= i -> n = i + pending run + zlen probs ->
  dec_table_loop n i (tb ++ rest) acc = Ok (rev acc ++ repeat 0 (Z.to_nat (pending run)) ++ probs, rest).
Proof.
  induction probs as [|p r IH]; intros run tb He Hnn Hrun n i rest acc Hi Hn.
  - cbn in He. destruct run; [discriminate|]. injection He as <-. cbn [pending] in *. change (zlen (@nil Z)) with 0 in Hn.
    rewrite dec_table_done by lia. rewrite rev'_rev. cbn. rewrite app_nil_r. reflexivity.
  - assert (Hr : all_nonneg r) by (intros q Hq; apply Hnn; right; exact Hq).
    assert (Hp : 0 <= p) by (apply Hnn; left; reflexivity).
    assert (Hlen : zlen (p :: r) = 1 + zlen r) by (unfold zlen; cbn [length]; lia).
    pose proof (zlen_nonneg r) as Hlr.
    cbn [enc_table_loop] in He. destruct (p =? 0) eqn:Ep.
    + assert (p = 0) by lia. subst p. destruct run as [k|].
      * cbn [run_ok pending] in *. destruct (k <? 63) eqn:Ek.
        -- rewrite (IH _ _ He Hr) with (n := n) (i := i); cbn [run_ok pending]; try lia.
           do 2 f_equal. replace (Z.to_nat (k + 1 + 1)) with (S (Z.to_nat (k + 1))) by lia.
           cbn [repeat]. rewrite <- repeat_snoc. rewrite <- app_assoc. reflexivity.
        -- assert (k = 63) by lia. subst k.
           destruct (enc_table_loop r (Some 0)) as [t|] eqn:Et; [|discriminate]. injection He as <-.
           cbn [app dec_table_loop]. destruct (i >=? n) eqn:E; [lia|].
           change (zero_run_byte 63) with 255. change (255 mod 4) with 3. cbn [Z.eqb Pos.eqb]. change (255 / 4) with 63.
           destruct (i + 63 >=? n) eqn:E2; [lia|].
           rewrite (IH _ _ Et Hr) with (n := n) (i := i + 63 + 1); cbn [run_ok pending]; try lia.
           f_equal. f_equal. rewrite zrepeat_app, rev_app_distr, rev_repeat. rewrite <- !app_assoc. reflexivity.
      * cbn [pending] in *. rewrite (IH _ _ He Hr) with (n := n) (i := i); cbn [run_ok pending]; try lia. reflexivity.
    + destruct (enc_prob p) as [pb|] eqn:Epb; [|discriminate].
      destruct (enc_table_loop r None) as [t|] eqn:Et; [|discriminate]. injection He as <-.
      destruct run as [k|]; cbn [run_ok pending] in *.
      * cbn [app dec_table_loop]. destruct (i >=? n) eqn:E; [lia|].
        unfold zero_run_byte. rewrite Z.add_comm, Z.mod_add by lia. change (3 mod 4) with 3. cbn [Z.eqb Pos.eqb].
        rewrite Z.div_add by lia. change (3 / 4) with 0. rewrite Z.add_0_l.
        destruct (i + k >=? n) eqn:E2; [lia|].
        rewrite <- app_assoc. rewrite (dec_prob_bytes p pb) by (assumption || lia).
        rewrite (IH _ _ Et Hr) with (n := n) (i := i + k + 1 + 1); cbn [run_ok pending]; try lia.
        f_equal. f_equal. cbn [rev repeat app Z.to_nat]. rewrite zrepeat_app, rev_app_distr, rev_repeat.
        rewrite <- !app_assoc. reflexivity.
      * rewrite <- app_assoc. rewrite (dec_prob_bytes p pb) by (assumption || lia).
        rewrite (IH _ _ Et Hr) with (n := n) (i := i + 1); cbn [run_ok pending]; try lia.
        f_equal. f_equal. cbn [rev repeat app Z.to_nat]. rewrite <- !app_assoc. reflexivity.
Qed.

Lemma enc_prob_len p pb : enc_prob p = Some pb -> 1 <= zlen pb.
Proof. unfold enc_prob. intros. destruct (p <? 2^6); [|destruct (p <? 2^14); [|destruct (p <? 2^22); [|discriminate]]]; injection H as <-; unfold zlen; cbn; lia. Qed.

Lemma table_loop_len : forall probs run tb, enc_table_loop probs run = Some tb -> run_ok run ->
  pending run + zlen probs <= 64 * zlen tb.
Proof.
  induction probs as [|p r IH]; intros run tb He Hrun.
  - cbn in He. destruct run; [discriminate|]. injection He as <-. cbn. lia.
  - assert (Hlen : zlen (p :: r) = 1 + zlen r) by (unfold zlen; cbn [length]; lia). rewrite Hlen.
    cbn [enc_table_loop] in He. destruct (p =? 0) eqn:Ep.
    + destruct run as [k|]; cbn [run_ok pending] in *.
      * destruct (k <? 63) eqn:Ek.
        -- apply IH in He; cbn [run_ok pending] in *; lia.
        -- destruct (enc_table_loop r (Some 0)) as [t|] eqn:Et; [|discriminate]. injection He as <-.
           apply IH in Et; cbn [run_ok pending] in *; try lia. unfold zlen in *. cbn [length]. lia.
      * apply IH in He; cbn [run_ok pending] in *; lia.
    + destruct (enc_prob p) as [pb|] eqn:Epb; [|discriminate].
      destruct (enc_table_loop r None) as [t|] eqn:Et; [|discriminate]. injection He as <-.
      apply IH in Et; [|exact I]. apply enc_prob_len in Epb. cbn [pending] in Et.
      destruct run as [k|]; cbn [run_ok pending] in *; unfold zlen in *; cbn [length]; rewrite app_length; lia.
Qed.

Lemma build_tbl_ok : forall probs prec cum, all_nonneg probs -> 0 <= cum -> cum + zsum probs = prec -> prec < 2 ^ 32 ->
  build_tbl prec probs cum = Some (with_cum probs cum).
Proof.
  induction probs as [|p r IH]; intros prec cum Hnn Hc Hs Hp; cbn [build_tbl with_cum zsum] in *.
  - destruct (cum =? prec) eqn:E; [reflexivity|lia].
  - assert (Hr : all_nonneg r) by (intros q Hq; apply Hnn; right; exact Hq).
    assert (0 <= p) by (apply Hnn; left; reflexivity). pose proof (zsum_nonneg r Hr).
    rewrite Z.mod_small by lia. destruct (cum + p >? prec) eqn:E; [lia|].
    rewrite IH; try assumption; try lia. reflexivity.
Qed.

Lemma dec_create_roundtrip P probs tb rest : 0 <= P <= 20 -> enc_table probs = Some tb -> probs <> [] ->
  all_nonneg probs -> zsum probs = 2 ^ P -> zlen probs + 64 < 2 ^ 32 ->
  rans_dec_create 514 P (tb ++ rest) =
    Ok ({| d_n := zlen probs; d_tbl := arr_of_list (with_cum probs 0) |}, rest).
Proof.
  intros HP He Hne Hnn Hsum Hlen. unfold enc_table in He.
  assert (Hl0 : 0 < zlen probs) by (destruct probs; [congruence|unfold zlen; cbn [length]; lia]).
  change (2^32) with 4294967296 in *. rewrite Z.mod_small in He by lia.
  destruct (enc_varint_u (zlen probs)) as [vb|] eqn:Ev; [|discriminate].
  destruct (enc_table_loop probs None) as [t|] eqn:Et; [|discriminate]. injection He as <-.
  unfold rans_dec_create. change (2 ^ 32) with 4294967296. cbn [Z.eqb Z.ltb Z.compare Pos.compare Pos.compare_cont].
  rewrite <- app_assoc.
  rewrite (varint_u_roundtrips 32 ltac:(right; right; left; reflexivity) (zlen probs) vb (t ++ rest)); [|change (2^32) with 4294967296; lia|exact Ev].
  cbn [of_opt dbind].
  pose proof (table_loop_len _ _ _ Et I) as Hl. cbn [pending] in Hl.
  assert (Hg : zlen probs / 64 >? zlen (t ++ rest) = false).
  { unfold zlen in *. rewrite app_length.
    assert (Z.of_nat (length probs) / 64 <= Z.of_nat (length t)) by (apply Z.div_le_upper_bound; lia). lia. }
  rewrite Hg. destruct (zlen probs =? 0) eqn:E0; [lia|].
  destruct (zlen probs + 64 >=? 4294967296) eqn:E1; [lia|].
  rewrite (table_loop_roundtrip _ _ _ Et Hnn I (zlen probs) 0 rest []) by (cbn [pending]; lia).
  cbn [dbind pending rev app Z.to_nat repeat].
  rewrite build_tbl_ok; try assumption; try lia. 2:{ pose proof (pow2_le P 20 ltac:(lia)). change (2^20) with 1048576 in *. lia. }
  reflexivity.
Qed.


(** A probability table the rANS coder can work with, and symbols it can code. *)
Definition table_ok (P : Z) (probs : list Z) : Prop :=
  probs <> [] /\ all_nonneg probs /\ zsum probs = 2 ^ P /\ zlen probs + 64 < 2 ^ 32.
Definition sym_used (probs : list Z) (s : Z) : Prop :=
  0 <= s /\ exists p, nth_error probs (Z.to_nat s) = Some p /\ 1 <= p.

Lemma firstn_app_exact {A} (a b : list A) : firstn (length a) (a ++ b) = a.
Proof. rewrite firstn_app, Nat.sub_diag, firstn_all. cbn. apply app_nil_r. Qed.
Lemma skipn_app_exact {A} (a b : list A) : skipn (length a) (a ++ b) = b.
Proof. rewrite skipn_app, Nat.sub_diag, skipn_all. reflexivity. Qed.

Lemma start_decoding_block P pre st lb rest : 0 <= P <= 20 -> rans_L P <= fst st < 256 * rans_L P ->
  enc_varint_u (zlen (rans_block P st)) = Some lb -> zlen (rans_block P st) < 2 ^ 31 ->
  rans_start_decoding 514 P pre (lb ++ rans_block P st ++ rest) = Ok (st, rest).
Proof.
  intros HP Hst Hv Hlen. unfold rans_start_decoding.
  cbn [Z.ltb Z.compare Pos.compare Pos.compare_cont].
  set (blk := rans_block P st) in *.
  rewrite (varint_u_roundtrips 64 ltac:(right; right; right; reflexivity) (zlen blk) lb (blk ++ rest)); [| |exact Hv].
  2:{ pose proof (zlen_nonneg blk). change (2^31) with 2147483648 in Hlen. change (2^64) with 18446744073709551616. lia. }
  cbn [of_opt dbind].
  assert (Hg : zlen blk >? zlen (blk ++ rest) = false).
  { unfold zlen. rewrite app_length. lia. }
  rewrite Hg. destruct (zlen blk >=? 2 ^ 31) eqn:E; [lia|].
  unfold zlen. rewrite Nat2Z.id. rewrite firstn_app_exact, skipn_app_exact.
  destruct st as [x stk]. unfold blk. rewrite read_init_block by assumption. reflexivity.
Qed.

(** The three stages of the decoder on the encoder's output, separately (the tagged scheme interleaves the
    symbol reads with its own bit reads). *)
Lemma rans_roundtrip_pieces P probs syms bs rest : 0 <= P <= 20 -> table_ok P probs ->
  (forall s, In s syms -> sym_used probs s) ->
  rans_encode_with P probs syms = Some bs -> zlen bs < 2 ^ 31 ->
  exists d r1 st stf,
    rans_dec_create 514 P (bs ++ rest) = Ok (d, r1) /\ (d_n d =? 0) = false /\
    (forall pre, rans_start_decoding 514 P pre r1 = Ok (st, rest)) /\
    rans_read_n P d (length syms) st = Ok (syms, stf).
Proof.
  intros HP (Hne & Hnn & Hsum & Hlen) Hused He Hbs.
  unfold rans_encode_with in He.
  destruct (enc_table probs) as [tb|] eqn:Et; [|discriminate].
  set (tbl := arr_of_list (with_cum probs 0)) in *.
  destruct (rans_encode_syms P tbl syms (rans_write_init P)) as [st|] eqn:Es; [|discriminate].
  unfold rans_end_encoding in He.
  destruct (enc_varint_u (zlen (rans_block P st))) as [lb|] eqn:Ev; [|discriminate].
  injection He as <-.
  set (d := {| d_n := zlen probs; d_tbl := tbl |}).
  assert (Hagree : forall s, In s syms -> sym_agree P tbl d s).
  { intros s Hs. destruct (Hused s Hs) as (Hs0 & p & Hn & Hp).
    apply agree_of_probs with (p := p); try assumption. lia. }
  pose proof (M_range P HP) as HM.
  unfold rans_write_init in Es.
  destruct (rans_syms_core P HP tbl d syms (rans_L P) [] st Hagree ltac:(unfold rans_L; lia) Es) as (Hrange & Hdec).
  destruct st as [x stk]. destruct (Hdec x stk) as (stf & Hn).
  { apply dec_renorm_ge. cbn [fst] in Hrange. lia. }
  exists d, (lb ++ rans_block P (x, stk) ++ rest), (x, stk), stf.
  split. { rewrite <- !app_assoc. rewrite (dec_create_roundtrip P probs tb) by assumption. reflexivity. }
  split. { cbn [d d_n]. destruct probs; [congruence|]. unfold zlen; cbn [length]. lia. }
  split; [|exact Hn].
  intros pre. apply start_decoding_block; try assumption.
  unfold zlen in *. rewrite !app_length in Hbs. lia.
Qed.

Theorem rans_roundtrip P probs syms bs rest pre : 0 <= P <= 20 -> table_ok P probs ->
  (forall s, In s syms -> sym_used probs s) ->
  rans_encode_with P probs syms = Some bs -> zlen bs < 2 ^ 31 ->
  rans_decode_symbols 514 P (length syms) pre (bs ++ rest) = Ok (syms, rest).
Proof.
  intros HP Ht Hused He Hbs.
  destruct (rans_roundtrip_pieces P probs syms bs rest HP Ht Hused He Hbs) as (d & r1 & st & stf & Hc & Hn0 & Hs & Hr).
  unfold rans_decode_symbols. rewrite Hc. cbn [dbind]. rewrite Hn0, andb_false_r. rewrite Hs. cbn [dbind].
  rewrite Hr. reflexivity.
Qed.

(** * RAnsSymbolEncoder::Create — valid for every result of the floating-point steps *)
Lemma read_back_spec : forall l a i0 probs, 0 <= i0 -> read_back a i0 l = Some probs ->
  length probs = length l /\ forall k, (k < length l)%nat -> nth_error probs k = arr_get a (i0 + Z.of_nat k).
Proof.
  induction l as [|x l IH]; intros a i0 probs Hi H; cbn [read_back] in H.
  - injection H as <-. split; [reflexivity|]. cbn. lia.
  - destruct (arr_get a i0) as [p|] eqn:Ep; [|discriminate].
    destruct (read_back a (i0 + 1) l) as [t|] eqn:Et; [|discriminate]. injection H as <-.
    destruct (IH a (i0 + 1) t ltac:(lia) Et) as (Hl & Hn). split; [cbn [length]; lia|].
    intros [|k] Hk; cbn [nth_error].
    + replace (i0 + Z.of_nat 0) with i0 by lia. symmetry; exact Ep.
    + rewrite Hn by (cbn [length] in Hk; lia). f_equal. lia.
Qed.

Section CreateValid.
  Variable F : Type.
  Variable rnd : Z -> Z -> Z.
  Variable relf : Z -> F.
  Variable scalef : F -> Z -> Z.
  Variable P : Z.
  Variable fr : list Z.      (* the trimmed frequencies *)

  Definition entry_ok (i p : Z) : Prop :=
    0 <= p /\ (forall f, nth_error fr (Z.to_nat i) = Some f -> 0 < f -> 1 <= p).
  Definition arr_inv (a : arr Z) : Prop :=
    forall i, 0 <= i < zlen fr -> exists p, arr_get a i = Some p /\ entry_ok i p.

  Lemma arr_inv_set a id p p' : arr_inv a -> arr_get a id = Some p -> entry_ok id p' -> arr_inv (arr_set a id p').
  Proof.
    intros Ha Hg Hok i Hi.
    assert (0 <= id) by (destruct (Z_lt_ge_dec id 0); [rewrite arr_get_neg in Hg by lia; discriminate|lia]).
    destruct (Z.eq_dec i id) as [->|Hne].
    - exists p'. rewrite arr_gss by lia. split; [reflexivity|exact Hok].
    - rewrite arr_gso by lia. apply Ha; exact Hi.
  Qed.

  Lemma entry_ok_ge i p p' : entry_ok i p -> p <= p' -> entry_ok i p'.
  Proof. intros (H0 & H1) Hle. split; [lia|]. intros f Hf Hpos. specialize (H1 f Hf Hpos). lia. Qed.
  Lemma entry_ok_pos i p' : 1 <= p' -> entry_ok i p'.
  Proof. intros. split; [lia|]. intros; lia. Qed.

  Lemma repair_pass_inv : forall ids act first a total err a' t' e',
    arr_inv a -> repair_pass F scalef P act ids first a total err = PCont a' t' e' -> arr_inv a'.
  Proof.
    induction ids as [|id r IH]; intros act first a total err a' t' e' Ha H; cbn [repair_pass] in H.
    - injection H as <- _ _. exact Ha.
    - destruct (arr_get a id) as [p|] eqn:Eg; [|discriminate].
      destruct (p <=? 1) eqn:Ep.
      { destruct first; [discriminate|]. injection H as <- _ _. exact Ha. }
      destruct ((scalef act p <? 0) || (scalef act p >? p)) eqn:Eo; [discriminate|].
      set (np := scalef act p) in *.
      set (fix0 := p - np) in *.
      set (fix1 := if fix0 =? 0 then 1 else fix0) in *.
      set (fix2 := if fix1 >=? p then p - 1 else fix1) in *.
      set (fix3 := if fix2 >? err then err else fix2) in *.
      assert (Hf2 : fix2 <= p - 1) by (unfold fix2; destruct (fix1 >=? p) eqn:E; lia).
      assert (Hf3 : fix3 <= p - 1) by (unfold fix3; destruct (fix2 >? err) eqn:E; lia).
      assert (Hinv : arr_inv (arr_set a id (p - fix3))).
      { eapply arr_inv_set; eauto. apply entry_ok_pos. lia. }
      destruct (total - fix3 =? 2 ^ P) eqn:Et.
      + injection H as <- _ _. exact Hinv.
      + eapply IH; eauto.
  Qed.

  Lemma repair_loop_inv : forall fuel ids a total err a' t' e',
    arr_inv a -> repair_loop F relf scalef P fuel ids a total err = PCont a' t' e' -> arr_inv a'.
  Proof.
    induction fuel as [|f IH]; intros ids a total err a' t' e' Ha H; cbn [repair_loop] in H.
    - destruct (err <=? 0); injection H as <- _ _; exact Ha.
    - destruct (err <=? 0); [injection H as <- _ _; exact Ha|].
      destruct (repair_pass F scalef P (relf total) ids true a total err) as [a1 t1 e1| | |] eqn:Ep; try discriminate.
      eapply IH; [|exact H]. eapply repair_pass_inv; eauto.
  Qed.

  (** termination measure: [err] strictly decreases over a pass that adjusts at least one symbol *)
  Lemma repair_pass_err : forall ids act first a total err a' t' e', 0 <= err ->
    repair_pass F scalef P act ids first a total err = PCont a' t' e' -> 0 <= e' <= err.
  Proof.
    induction ids as [|id r IH]; intros act first a total err a' t' e' He H; cbn [repair_pass] in H.
    - injection H as _ _ <-. lia.
    - destruct (arr_get a id) as [p|] eqn:Eg; [|discriminate].
      destruct (p <=? 1) eqn:Ep.
      { destruct first; [discriminate|]. injection H as _ _ <-. lia. }
      destruct ((scalef act p <? 0) || (scalef act p >? p)) eqn:Eo; [discriminate|].
      set (np := scalef act p) in *.
      set (fix0 := p - np) in *.
      set (fix1 := if fix0 =? 0 then 1 else fix0) in *.
      set (fix2 := if fix1 >=? p then p - 1 else fix1) in *.
      set (fix3 := if fix2 >? err then err else fix2) in *.
      assert (Hf1 : 1 <= fix1) by (unfold fix1, fix0; destruct (p - np =? 0) eqn:E; lia).
      assert (Hf2 : 1 <= fix2) by (unfold fix2; destruct (fix1 >=? p) eqn:E; lia).
      assert (Hf3 : 0 <= fix3 <= err) by (unfold fix3; destruct (fix2 >? err) eqn:E; lia).
      destruct (total - fix3 =? 2 ^ P) eqn:Et.
      + injection H as _ _ <-. lia.
      + apply IH in H; lia.
  Qed.
  Lemma repair_pass_first_err : forall id r act a total err a' t' e', 1 <= err ->
    repair_pass F scalef P act (id :: r) true a total err = PCont a' t' e' -> 0 <= e' < err.
  Proof.
    intros id r act a total err a' t' e' He H; cbn [repair_pass] in H.
    destruct (arr_get a id) as [p|] eqn:Eg; [|discriminate].
    destruct (p <=? 1) eqn:Ep; [discriminate|].
    destruct ((scalef act p <? 0) || (scalef act p >? p)) eqn:Eo; [discriminate|].
    set (np := scalef act p) in *.
    set (fix0 := p - np) in *.
    set (fix1 := if fix0 =? 0 then 1 else fix0) in *.
    set (fix2 := if fix1 >=? p then p - 1 else fix1) in *.
    set (fix3 := if fix2 >? err then err else fix2) in *.
    assert (Hf1 : 1 <= fix1) by (unfold fix1, fix0; destruct (p - np =? 0) eqn:E; lia).
    assert (Hf2 : 1 <= fix2) by (unfold fix2; destruct (fix1 >=? p) eqn:E; lia).
    assert (Hf3 : 1 <= fix3 <= err) by (unfold fix3; destruct (fix2 >? err) eqn:E; lia).
    destruct (total - fix3 =? 2 ^ P) eqn:Et.
    - injection H as _ _ <-. lia.
    - apply repair_pass_err in H; lia.
  Qed.
  Lemma repair_loop_terminates : forall fuel id r a total err a' t' e', 0 <= err -> (Z.to_nat err <= fuel)%nat ->
    repair_loop F relf scalef P fuel (id :: r) a total err = PCont a' t' e' -> e' <= 0.
  Proof.
    induction fuel as [|f IH]; intros id r a total err a' t' e' He Hf H; cbn [repair_loop] in H.
    - destruct (err <=? 0) eqn:E; injection H as _ _ <-; lia.
    - destruct (err <=? 0) eqn:E; [injection H as _ _ <-; lia|].
      destruct (repair_pass F scalef P (relf total) (id :: r) true a total err) as [a1 t1 e1| | |] eqn:Ep; try discriminate.
      apply repair_pass_first_err in Ep; [|lia]. eapply IH; [| |exact H]; lia.
  Qed.
End CreateValid.


(** the merge sort keeps the number of elements *)
Lemma merge_desc_length : forall l1 l2, length (merge_desc l1 l2) = (length l1 + length l2)%nat.
Proof.
  induction l1 as [|a r1 IH]; intros l2.
  - destruct l2; reflexivity.
  - induction l2 as [|b r2 IH2]; [cbn; lia|].
    cbn [merge_desc]. destruct (pair_ge a b); cbn [length].
    + rewrite IH. cbn [length]. lia.
    + cbn [merge_desc] in IH2. rewrite IH2. cbn [length]. lia.
Qed.
Fixpoint runs_len (st : list (option (list (Z * Z)))) : nat :=
  match st with [] => 0 | None :: s => runs_len s | Some r :: s => length r + runs_len s end.
Lemma push_run_length : forall st run, runs_len (push_run run st) = (length run + runs_len st)%nat.
Proof.
  induction st as [|[r|] s IH]; intros run; cbn [push_run runs_len]; try lia.
  rewrite IH, merge_desc_length. lia.
Qed.
Lemma flush_runs_length : forall st acc, length (flush_runs st acc) = (runs_len st + length acc)%nat.
Proof.
  induction st as [|[r|] s IH]; intros acc; cbn [flush_runs runs_len]; try lia; rewrite IH; try lia.
  rewrite merge_desc_length. lia.
Qed.
Lemma sort_runs_length : forall l st, length (sort_runs l st) = (length l + runs_len st)%nat.
Proof.
  induction l as [|a r IH]; intros st; cbn [sort_runs].
  - rewrite flush_runs_length. cbn; lia.
  - rewrite IH, push_run_length. cbn [length]. lia.
Qed.
Lemma index_from_length : forall l i, length (index_from i l) = length l.
Proof. induction l; intros; cbn [index_from length]; [reflexivity|]. rewrite IHl. reflexivity. Qed.
Lemma sorted_desc_length l : length (sorted_desc l) = length l.
Proof. unfold sorted_desc. rewrite map_length, sort_runs_length, index_from_length. cbn. lia. Qed.

Section CreateTop.
  Variable F : Type.
  Variable rnd : Z -> Z -> Z.
  Variable relf : Z -> F.
  Variable scalef : F -> Z -> Z.
  Variable P : Z.

  Definition list_inv (fr probs : list Z) : Prop :=
    length probs = length fr /\
    forall i, (i < length fr)%nat -> exists p, nth_error probs i = Some p /\ entry_ok fr (Z.of_nat i) p.

  Lemma list_inv_arr fr probs : list_inv fr probs -> arr_inv fr (arr_of_list probs).
  Proof.
    intros (Hl & Hn) i Hi. unfold zlen in Hi. destruct (Hn (Z.to_nat i) ltac:(lia)) as (p & Hp & Hok).
    exists p. rewrite arr_of_list_get by lia. split; [exact Hp|]. rewrite Z2Nat.id in Hok by lia. exact Hok.
  Qed.
  Lemma arr_list_inv fr a l probs : length l = length fr -> arr_inv fr a -> read_back a 0 l = Some probs -> list_inv fr probs.
  Proof.
    intros Hl Ha Hr. destruct (read_back_spec l a 0 probs ltac:(lia) Hr) as (Hlen & Hn).
    split; [lia|]. intros i Hi. destruct (Ha (Z.of_nat i) ltac:(unfold zlen; lia)) as (p & Hp & Hok).
    exists p. rewrite Hn by lia. rewrite Z.add_0_l. split; assumption.
  Qed.

  Theorem create_table_valid freqs probs :
    rans_create F rnd relf scalef P freqs = COk probs ->
    zsum probs = 2 ^ P /\ length probs = length (trim_freqs freqs) /\ all_nonneg probs /\
    (forall i f, nth_error (trim_freqs freqs) i = Some f -> 0 < f -> exists p, nth_error probs i = Some p /\ 1 <= p).
  Proof.
    unfold rans_create. set (fr := trim_freqs freqs). set (rt := rnd (zsum freqs mod 2 ^ 64)).
    set (g := fun f : Z => let r := if f =? 0 then 0 else rt f in if (r =? 0) && (0 <? f) then 1 else r).
    set (probs0 := map g fr).
    destruct (negb (forallb (fun r => (0 <=? r) && (r <? 2 ^ 32)) probs0)) eqn:Eall; [discriminate|].
    apply negb_false_iff in Eall. rewrite forallb_forall in Eall.
    destruct (zsum probs0 >=? 2 ^ 31) eqn:E31; [discriminate|].
    assert (H0 : list_inv fr probs0).
    { split; [apply map_length|]. intros i Hi.
      destruct (nth_error fr i) as [f|] eqn:Ef; [|apply nth_error_None in Ef; lia].
      exists (g f). split; [unfold probs0; apply map_nth_error; exact Ef|].
      assert (Hin : In (g f) probs0) by (apply in_map, (nth_error_In _ _ Ef)).
      specialize (Eall _ Hin). split; [lia|]. rewrite Nat2Z.id. intros f' Hf' Hpos. rewrite Ef in Hf'. injection Hf' as <-.
      unfold g in *. destruct (f =? 0) eqn:Ez; [lia|]. cbv zeta in *.
      destruct ((rt f =? 0) && (0 <? f)) eqn:Eb; lia. }
    assert (Hfin : forall l, list_inv fr l ->
              (if (zsum l <? 0) || (zsum l >=? 2 ^ 32) then CUnmod else if zsum l =? 2 ^ P then COk l else CFalse) = COk probs ->
              zsum probs = 2 ^ P /\ length probs = length fr /\ all_nonneg probs /\
              (forall i f, nth_error fr i = Some f -> 0 < f -> exists p, nth_error probs i = Some p /\ 1 <= p)).
    { intros l (Hl & Hn) H. destruct ((zsum l <? 0) || (zsum l >=? 2 ^ 32)); [discriminate|].
      destruct (zsum l =? 2 ^ P) eqn:Es; [|discriminate]. injection H as <-.
      split; [lia|]. split; [exact Hl|]. split.
      - intros p Hp. apply In_nth_error in Hp as (i & Hi).
        assert (i < length fr)%nat by (rewrite <- Hl; apply nth_error_Some; congruence).
        destruct (Hn i H) as (p' & Hp' & Hok & _). congruence.
      - intros i f Hf Hpos. assert (i < length fr)%nat by (apply nth_error_Some; congruence).
        destruct (Hn i H) as (p' & Hp' & _ & Hok). exists p'. split; [exact Hp'|].
        apply (Hok f); [rewrite Nat2Z.id; exact Hf|exact Hpos]. }
    destruct (zsum probs0 =? 2 ^ P) eqn:Eeq; [intros H; specialize (Hfin _ H0); rewrite Eeq in Hfin; exact (Hfin H)|].
    pose proof (list_inv_arr _ _ H0) as Ha0.
    assert (Hlen0 : length probs0 = length fr) by apply map_length.
    destruct (zsum probs0 <? 2 ^ P) eqn:Elt.
    - set (imax := last_max probs0 0 (-1) 0).
      destruct (arr_get (arr_of_list probs0) imax) as [p|] eqn:Eg; [|discriminate].
      destruct (read_back (arr_set (arr_of_list probs0) imax (p + (2 ^ P - zsum probs0))) 0 probs0) as [l|] eqn:Er; [|discriminate].
      intros H; refine (Hfin l _ H). eapply arr_list_inv; [exact Hlen0| |exact Er].
      eapply arr_inv_set; [exact Ha0|exact Eg|].
      assert (Him : 0 <= imax < zlen fr \/ ~ (0 <= imax < zlen fr)) by lia.
      destruct Him as [Him|Him].
      + destruct (Ha0 imax Him) as (p' & Hp' & Hok). rewrite Eg in Hp'. injection Hp' as <-.
        eapply entry_ok_ge; [exact Hok|lia].
      + (* outside the table nothing is required except non-negativity *)
        assert (0 <= imax) by (destruct (Z_lt_ge_dec imax 0); [rewrite arr_get_neg in Eg by lia; discriminate|lia]).
        rewrite arr_of_list_get in Eg by lia.
        assert (Hnn : nth_error probs0 (Z.to_nat imax) <> None) by congruence.
        apply nth_error_Some in Hnn. unfold zlen in Him. lia.
    - destruct (repair_loop F relf scalef P (S (Z.to_nat (zsum probs0 - 2 ^ P))) (removelast (sorted_desc probs0))
                  (arr_of_list probs0) (zsum probs0) (zsum probs0 - 2 ^ P)) as [a t e| | |] eqn:El; try discriminate.
      destruct (0 <? e); [discriminate|].
      destruct (read_back a 0 probs0) as [l|] eqn:Er; [|discriminate].
      intros H; refine (Hfin l _ H). eapply arr_list_inv; [exact Hlen0| |exact Er].
      eapply repair_loop_inv; [exact Ha0|exact El].
  Qed.

  (** The outer `while (error > 0)` ends: [error] decreases by at least one in every pass, as soon as there is a
      second symbol to adjust; with a single symbol the C++ loop would spin, which needs the rounding of
      freq/freq*precision to exceed the precision. *)
  Theorem create_terminates freqs :
    (2 <= length (trim_freqs freqs))%nat \/ (forall t f, rnd t f <= 2 ^ P) ->
    0 <= P -> rans_create F rnd relf scalef P freqs <> CFuel.
  Proof.
    intros Hcase HP. unfold rans_create. set (fr := trim_freqs freqs). set (rt := rnd (zsum freqs mod 2 ^ 64)).
    set (g := fun f : Z => let r := if f =? 0 then 0 else rt f in if (r =? 0) && (0 <? f) then 1 else r).
    set (probs0 := map g fr).
    destruct (negb (forallb (fun r => (0 <=? r) && (r <? 2 ^ 32)) probs0)); [discriminate|].
    destruct (zsum probs0 >=? 2 ^ 31); [discriminate|].
    assert (Hfin : forall l, (if (zsum l <? 0) || (zsum l >=? 2 ^ 32) then CUnmod else if zsum l =? 2 ^ P then COk l else CFalse) <> CFuel).
    { intros l. destruct ((zsum l <? 0) || (zsum l >=? 2 ^ 32)); [discriminate|]. destruct (zsum l =? 2 ^ P); discriminate. }
    destruct (zsum probs0 =? 2 ^ P) eqn:Eeq; [specialize (Hfin probs0); rewrite Eeq in Hfin; exact Hfin|].
    destruct (zsum probs0 <? 2 ^ P) eqn:Elt.
    { destruct (arr_get _ _); [|discriminate]. destruct (read_back _ _ _); [apply Hfin|discriminate]. }
    destruct (removelast (sorted_desc probs0)) as [|id r] eqn:Eids.
    - (* a single symbol *)
      exfalso. assert (Hlen : (length (sorted_desc probs0) <= 1)%nat).
      { destruct (sorted_desc probs0) as [|x [|y l]]; cbn [length]; try lia. cbn in Eids. discriminate. }
      rewrite sorted_desc_length in Hlen. unfold probs0 in Hlen. rewrite map_length in Hlen. fold fr in Hcase.
      destruct Hcase as [Hc|Hc]; [lia|].
      pose proof (pow2_pos P HP) as Hpp.
      destruct fr as [|f [|f2 l]]; cbn [length] in Hlen; try lia.
      + cbn in Elt, Eeq. lia.
      + unfold probs0 in Elt, Eeq. cbn [map zsum] in Elt, Eeq. pose proof (Hc (zsum freqs mod 2 ^ 64) f) as Hr. fold rt in Hr.
        unfold g in Elt, Eeq. cbv zeta in Elt, Eeq. destruct (f =? 0) eqn:Ef.
        * destruct ((0 =? 0) && (0 <? f)); lia.
        * destruct ((rt f =? 0) && (0 <? f)); lia.
    - destruct (repair_loop F relf scalef P (S (Z.to_nat (zsum probs0 - 2 ^ P))) (id :: r)
                  (arr_of_list probs0) (zsum probs0) (zsum probs0 - 2 ^ P)) as [a t e| | |] eqn:El; try discriminate.
      apply repair_loop_terminates in El; try lia.
      destruct (0 <? e) eqn:E; [lia|]. destruct (read_back a 0 probs0); [apply Hfin|discriminate].
  Qed.
End CreateTop.
