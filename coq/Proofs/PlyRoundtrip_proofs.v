(** C15 — the composed PLY round trip: PlyDecoder (PlyEncoder m) for the binary little-endian dialect. *)
From Coq Require Import List ZArith Bool Arith Lia ZifyBool.
From Draco Require Import Base.Codec Model.Varint Model.Dedup Model.IoText Model.PlyModel
  Proofs.Varint_proofs Proofs.Dedup_proofs Proofs.IoText_proofs Proofs.ObjPlyStl_proofs.
Import ListNotations.
Local Open Scope Z_scope.

(* ------------------------------------------------------------------ boolean reflections for concrete header lines *)
Definition goodwordb (w : bytes) : bool := negb (nilb w) && forallb (fun c => negb (is_space c)) w.
Lemma goodwordb_ok w : goodwordb w = true -> goodword w.
Proof.
  unfold goodwordb, goodword. intros H. apply andb_true_iff in H. destruct H as [H1 H2]. split.
  - destruct w; [discriminate|discriminate].
  - apply Forall_forall. intros c Hc. rewrite forallb_forall in H2. specialize (H2 c Hc). destruct (is_space c); [discriminate|reflexivity].
Qed.
Definition goodlineb (ws : list bytes) : bool :=
  forallb goodwordb ws && match ws with (c0 :: c1 :: _) :: _ => negb (c1 =? 110) | _ => false end.
Lemma goodlineb_ok ws : goodlineb ws = true -> goodline ws.
Proof.
  unfold goodlineb, goodline. intros H. apply andb_true_iff in H. destruct H as [H1 H2]. split.
  - apply Forall_forall. intros w Hw. rewrite forallb_forall in H1. apply goodwordb_ok. auto.
  - destruct ws as [|[|c0 [|c1 w]] r]; try discriminate. exists c0, c1, w, r. split; [reflexivity|].
    destruct (c1 =? 110); [discriminate|reflexivity].
Qed.
Lemma goodlines_b ls : forallb goodlineb ls = true -> Forall goodline ls.
Proof. intros H. apply Forall_forall. intros l Hl. rewrite forallb_forall in H. apply goodlineb_ok. auto. Qed.

Lemma header_fold_app l1 : forall es l2,
  header_fold es (l1 ++ l2) = match header_fold es l1 with Some es' => header_fold es' l2 | None => None end.
Proof.
  induction l1 as [|ws l1 IH]; intros es l2; [reflexivity|]. cbn [app header_fold].
  destruct (header_step es ws); [reflexivity|apply IH|apply IH].
Qed.

Lemma render_lines_app a b : render_lines (a ++ b) = render_lines a ++ render_lines b.
Proof. unfold render_lines. rewrite map_app, concat_app. reflexivity. Qed.
Lemma render_lines_cons l r : render_lines (l :: r) = join_sp l ++ 10 :: render_lines r.
Proof. unfold render_lines. cbn [map concat]. rewrite <- app_assoc. reflexivity. Qed.
Lemma render_lines_len ls : (length ls <= length (render_lines ls))%nat.
Proof. induction ls as [|l r IH]; [cbn; lia|]. rewrite render_lines_cons, app_length. cbn [length]. lia. Qed.

(* --------------------------------------------------------------------------------- the header the writer makes *)
Definition sprops (dt : Z) (names : list bytes) : list pprop := map (fun nm => mkProp nm dt DT_INVALID) names.

Lemma elem_eta e : mkElem (pe_name e) (pe_count e) (pe_props e) = e.
Proof. destruct e; reflexivity. Qed.

Lemma type_name_cases dt ty : type_name dt = Some ty ->
  (dt = DT_FLOAT32 /\ ty = s_float) \/ (dt = DT_UINT8 /\ ty = s_uchar) \/ (dt = DT_INT32 /\ ty = s_int).
Proof.
  unfold type_name. destruct (dt =? DT_FLOAT32) eqn:E1; [intros [= <-]; left; split; [lia|reflexivity]|].
  destruct (dt =? DT_UINT8) eqn:E2; [intros [= <-]; right; left; split; [lia|reflexivity]|].
  destruct (dt =? DT_INT32) eqn:E3; [intros [= <-]; right; right; split; [lia|reflexivity]|discriminate].
Qed.

Lemma header_fold_props ty dt names : type_name dt = Some ty -> forall e es,
  header_fold (e :: es) (prop_lines ty names) = Some (mkElem (pe_name e) (pe_count e) (pe_props e ++ sprops dt names) :: es).
Proof.
  intros HT. induction names as [|nm names IH]; intros e es.
  - cbn [prop_lines map header_fold sprops]. rewrite app_nil_r, elem_eta. reflexivity.
  - cbn [prop_lines map header_fold].
    assert (E : header_step (e :: es) [s_property; ty; nm] =
                HSet (mkElem (pe_name e) (pe_count e) (pe_props e ++ [mkProp nm dt DT_INVALID]) :: es)).
    { destruct (type_name_cases _ _ HT) as [[-> ->] | [[-> ->] | [-> ->]]]; reflexivity. }
    rewrite E. fold (prop_lines ty names). rewrite IH. cbn [pe_name pe_count pe_props sprops map].
    rewrite <- app_assoc. reflexivity.
Qed.

Lemma header_step_element es name n :
  header_step es [s_element; name; dec_str n] = HSet (mkElem name (strtoll (dec_str n)) [] :: es).
Proof. reflexivity. Qed.

Lemma header_step_listprop e es t dt nm : type_name dt = Some t ->
  header_step (e :: es) [s_property; s_list; s_uchar; t; nm] =
  HSet (mkElem (pe_name e) (pe_count e) (pe_props e ++ [mkProp nm dt DT_UINT8]) :: es).
Proof. intros HT. destruct (type_name_cases _ _ HT) as [[-> ->] | [[-> ->] | [-> ->]]]; reflexivity. Qed.

Lemma goodline_prop_lines ty dt names : type_name dt = Some ty -> forallb goodwordb names = true ->
  Forall goodline (prop_lines ty names).
Proof.
  intros HT HN. apply Forall_forall. intros l Hl. unfold prop_lines in Hl. apply in_map_iff in Hl.
  destruct Hl as (nm & <- & Hin). rewrite forallb_forall in HN. specialize (HN nm Hin).
  apply goodlineb_ok. unfold goodlineb. cbn [forallb]. rewrite HN.
  destruct (type_name_cases _ _ HT) as [[-> ->] | [[-> ->] | [-> ->]]]; reflexivity.
Qed.

Lemma goodword_dec n : 0 <= n -> goodword (dec_str n).
Proof. intros H. split; [apply dec_str_nonempty|apply dec_str_nospace; auto]. Qed.

Lemma goodline_element name n : goodwordb name = true -> 0 <= n -> goodline [s_element; name; dec_str n].
Proof.
  intros HN Hn. split.
  - repeat constructor; try (apply goodwordb_ok; first [reflexivity|assumption]). apply dec_str_nonempty. apply dec_str_nospace; auto.
  - eexists _, _, _, _. split; [reflexivity|reflexivity].
Qed.

(* ------------------------------------------------------------------------------ the elements the header declares *)
Definition has_nrm (m : ply_in) : bool := match eff_nrm m with Some _ => true | None => false end.
Definition col_nc (m : ply_in) : Z := match pi_col m with Some a => a_ncomp a | None => 0 end.

Definition vprops_of (dt : Z) (hasn : bool) (nc : Z) : list pprop :=
  sprops dt [s_x; s_y; s_z] ++ (if hasn then sprops DT_FLOAT32 [s_nx; s_ny; s_nz] else []) ++ sprops DT_UINT8 (color_names nc).
Definition fprops_of (ot : option Z) : list pprop :=
  mkProp s_vertex_indices DT_INT32 DT_UINT8 :: match ot with Some dt => [mkProp s_texcoord dt DT_UINT8] | None => [] end.

Definition tex_dt (m : ply_in) : option Z := option_map a_dtype (eff_tex m).

Definition velem (m : ply_in) : pelem :=
  mkElem s_vertex (Z.of_nat (pi_np m)) (vprops_of (a_dtype (pi_pos m)) (has_nrm m) (col_nc m)).
Definition felem (m : ply_in) (fs : list face) : pelem := mkElem s_face (Z.of_nat (length fs)) (fprops_of (tex_dt m)).
Definition ply_elems (m : ply_in) : list pelem :=
  velem m :: match pi_faces m with Some fs => [felem m fs] | None => [] end.

(** the hypotheses of the round trip: what PlyEncoder must be given so that the file it writes is a PLY file
    whose header describes its data (the writer checks none of this except the face corners) *)
Definition val_len (a : attr) (np : nat) (n : Z) : Prop :=
  forall p, (p < np)%nat -> Z.of_nat (length (att_value a p)) = n.

Definition ply_ok (m : ply_in) : Prop :=
  Z.of_nat (pi_np m) < 2 ^ 31 /\
  (a_dtype (pi_pos m) = DT_FLOAT32 \/ a_dtype (pi_pos m) = DT_INT32) /\ val_len (pi_pos m) (pi_np m) 12 /\
  (forall a, eff_nrm m = Some a -> a_dtype a = DT_FLOAT32 /\ val_len a (pi_np m) 12) /\
  (forall a, pi_col m = Some a -> a_dtype a = DT_UINT8 /\ 1 <= a_ncomp a <= 4 /\ val_len a (pi_np m) (a_ncomp a)) /\
  (forall fs, pi_faces m = Some fs ->
     Z.of_nat (length fs) < 2 ^ 31 /\ forallb (face_ok (pi_np m)) fs = true /\
     forall t, eff_tex m = Some t ->
       (exists ty, type_name (a_dtype t) = Some ty) /\ val_len t (pi_np m) (2 * dt_len (a_dtype t))).


Lemma color_names_good nc : forallb goodwordb (color_names nc) = true.
Proof.
  unfold color_names. destruct (0 <? nc), (1 <? nc), (2 <? nc), (3 <? nc); reflexivity.
Qed.

Lemma to_i32_nat n : Z.of_nat n < 2 ^ 31 -> to_i32 (Z.of_nat n) = Z.of_nat n.
Proof. intros. apply to_i32_small. lia. Qed.

Lemma strtoll_nat n : Z.of_nat n < 2 ^ 31 -> strtoll (dec_str (Z.of_nat n)) = Z.of_nat n.
Proof. intros. apply strtoll_dec_str. split; [lia|]. apply Z.lt_trans with (2 ^ 31); [lia|reflexivity]. Qed.

(** the header the writer produces: two fixed lines, then lines [body] that the reader's loop folds into exactly
    the elements [ply_elems m] (reversed), then "end_header" *)
Lemma ply_header_shape m : ply_ok m ->
  exists body, ply_header_lines m = Some ([[s_ply]; [s_format; s_ble; s_1_0]] ++ body ++ [[s_end_header]]) /\
    Forall goodline body /\ header_fold [] body = Some (rev (ply_elems m)).
Proof.
  intros (Hnp & Hdt & _ & Hn & Hc & Hf).
  unfold ply_header_lines.
  assert (HT : exists tpos, type_name (a_dtype (pi_pos m)) = Some tpos).
  { destruct Hdt as [-> | ->]; eexists; reflexivity. }
  destruct HT as (tpos & HT). rewrite HT.
  (* normals *)
  assert (NL : exists nl, match eff_nrm m with
                 | Some a => match type_name (a_dtype a) with Some t => Some (prop_lines t [s_nx; s_ny; s_nz]) | None => None end
                 | None => Some [] end = Some nl /\ Forall goodline nl /\
               forall e es, header_fold (e :: es) nl =
                 Some (mkElem (pe_name e) (pe_count e) (pe_props e ++ if has_nrm m then sprops DT_FLOAT32 [s_nx; s_ny; s_nz] else []) :: es)).
  { unfold has_nrm. destruct (eff_nrm m) as [a|] eqn:En.
    - destruct (Hn a eq_refl) as [-> _]. eexists. split; [reflexivity|]. split.
      + apply (goodline_prop_lines _ DT_FLOAT32); reflexivity.
      + intros e es. apply (header_fold_props _ DT_FLOAT32). reflexivity.
    - eexists. split; [reflexivity|]. split; [constructor|]. intros e es. cbn [header_fold]. rewrite app_nil_r, elem_eta. reflexivity. }
  destruct NL as (nl & -> & GN & FN).
  (* colours *)
  assert (CL : exists cl, match pi_col m with
                 | Some a => match type_name (a_dtype a) with Some t => Some (prop_lines t (color_names (a_ncomp a))) | None => None end
                 | None => Some [] end = Some cl /\ Forall goodline cl /\
               forall e es, header_fold (e :: es) cl =
                 Some (mkElem (pe_name e) (pe_count e) (pe_props e ++ sprops DT_UINT8 (color_names (col_nc m))) :: es)).
  { unfold col_nc. destruct (pi_col m) as [a|] eqn:Ec.
    - destruct (Hc a eq_refl) as (-> & _ & _). eexists. split; [reflexivity|]. split.
      + apply (goodline_prop_lines _ DT_UINT8); [reflexivity|apply color_names_good].
      + intros e es. apply (header_fold_props _ DT_UINT8). reflexivity.
    - eexists. split; [reflexivity|]. split; [constructor|]. intros e es. cbn [header_fold color_names sprops map app].
      change (color_names 0) with (@nil bytes). cbn [sprops map]. rewrite app_nil_r, elem_eta. reflexivity. }
  destruct CL as (cl & -> & GC & FC).
  (* faces *)
  assert (FL : exists fl, match pi_faces m with
                 | None => Some []
                 | Some fs =>
                   match match eff_tex m with
                         | Some a => match type_name (a_dtype a) with
                                     | Some t => Some [[s_property; s_list; s_uchar; t; s_texcoord]] | None => None end
                         | None => Some [] end with
                   | Some tl' => Some ([[s_element; s_face; dec_str (Z.of_nat (length fs))];
                                        [s_property; s_list; s_uchar; s_int; s_vertex_indices]] ++ tl')
                   | None => None
                   end
                 end = Some fl /\ Forall goodline fl /\
               forall es, header_fold es fl =
                 Some (rev (match pi_faces m with Some fs => [felem m fs] | None => [] end) ++ es)).
  { destruct (pi_faces m) as [fs|] eqn:Ef.
    - destruct (Hf fs eq_refl) as (Hnf & _ & Ht). unfold felem, tex_dt.
      destruct (eff_tex m) as [t|] eqn:Et.
      + destruct (Ht t eq_refl) as ((ty & HTy) & _). rewrite HTy. eexists. split; [reflexivity|]. split.
        * cbn [app]. constructor; [apply goodline_element; [reflexivity|lia]|].
          constructor; [apply goodlineb_ok; reflexivity|]. constructor; [|constructor].
          apply goodlineb_ok. destruct (type_name_cases _ _ HTy) as [[_ ->] | [[_ ->] | [_ ->]]]; reflexivity.
        * intros es. cbn [app header_fold]. rewrite header_step_element.
          rewrite (header_step_listprop _ _ s_int DT_INT32) by reflexivity.
          rewrite (header_step_listprop _ _ ty (a_dtype t)) by exact HTy.
          cbn [pe_name pe_count pe_props app option_map fprops_of rev]. rewrite strtoll_nat by exact Hnf. reflexivity.
      + eexists. split; [reflexivity|]. split.
        * cbn [app]. constructor; [apply goodline_element; [reflexivity|lia]|].
          constructor; [apply goodlineb_ok; reflexivity|constructor].
        * intros es. cbn [app header_fold]. rewrite header_step_element.
          rewrite (header_step_listprop _ _ s_int DT_INT32) by reflexivity.
          cbn [pe_name pe_count pe_props app option_map fprops_of rev]. rewrite strtoll_nat by exact Hnf. reflexivity.
    - eexists. split; [reflexivity|]. split; [constructor|]. intros es. reflexivity. }
  destruct FL as (fl & -> & GF & FF).
  exists ([s_element; s_vertex; dec_str (Z.of_nat (pi_np m))] :: prop_lines tpos [s_x; s_y; s_z] ++ nl ++ cl ++ fl).
  split; [cbn [app]; rewrite <- !app_assoc; reflexivity|]. split.
  - constructor; [apply goodline_element; [reflexivity|lia]|].
    apply Forall_app. split; [apply (goodline_prop_lines _ _ _ HT); reflexivity|].
    apply Forall_app. split; [exact GN|]. apply Forall_app. split; [exact GC|exact GF].
  - cbn [header_fold]. rewrite header_step_element. rewrite strtoll_nat by exact Hnp.
    rewrite header_fold_app, (header_fold_props _ _ _ HT). cbn [pe_name pe_count pe_props app].
    rewrite header_fold_app, FN. cbn [pe_name pe_count pe_props].
    rewrite header_fold_app, FC. cbn [pe_name pe_count pe_props].
    rewrite FF. unfold ply_elems, velem, vprops_of. rewrite <- !app_assoc.
    destruct (pi_faces m); reflexivity.
Qed.

Lemma ply_read_header_written m : ply_ok m ->
  exists hl, ply_header_lines m = Some hl /\ forall data, ply_read_header (render_lines hl ++ data) = Ok (ply_elems m, data).
Proof.
  intros Hok. destruct (ply_header_shape m Hok) as (body & Hhl & GB & HF).
  eexists. split; [exact Hhl|]. intros data.
  cbn [app]. rewrite !render_lines_cons, render_lines_app. rewrite render_lines_cons.
  change (render_lines []) with (@nil Z). change (join_sp [s_ply]) with s_ply. change (join_sp [s_end_header]) with s_end_header.
  repeat (progress (rewrite <- ?app_assoc, <- ?app_comm_cons)). cbn [app].
  set (r3 := render_lines body ++ s_end_header ++ 10 :: data).
  unfold ply_read_header.
  assert (E1 : forall X, parse_string (s_ply ++ 10 :: X) = (s_ply, 10 :: X)) by reflexivity.
  rewrite E1. change (negb (beq s_ply s_ply)) with false. cbn iota.
  assert (E2 : forall X, parse_line (10 :: X) = ([], X)) by (intros X; exact (parse_line_app [] X (Forall_nil _))).
  rewrite E2. cbn [snd].
  assert (GW : Forall goodword [s_format; s_ble; s_1_0]) by (repeat constructor; apply goodwordb_ok; reflexivity).
  rewrite parse_line_app by (apply join_sp_nodelim; exact GW).
  rewrite split_words_join by exact GW.
  change (negb (beq s_format s_format)) with false. change (negb (beq s_1_0 s_1_0)) with false.
  change (beq s_ble s_bbe) with false. change (beq s_ble s_ascii) with false. cbn iota.
  unfold r3 at 2. rewrite parse_header_lines; [|exact GB|].
  - rewrite HF. cbn [rbind]. rewrite rev_involutive. reflexivity.
  - unfold r3. rewrite app_length. pose proof (render_lines_len body). lia.
Qed.

(* --------------------------------------------------------------------------------- scalar tables (vertex element) *)
(** the bytes of the properties [js] of one entry, concatenated *)
Definition sel (js : list nat) (row : list bytes) : bytes := concat (map (fun j => nth j row []) js).

Lemma column_CS j rows : column j (map (map CS) rows) = map (fun row => CS (nth j row [])) rows.
Proof.
  unfold column. rewrite map_map. apply map_ext. intros row.
  change (CS []) with (CS (@nil Z)). apply (map_nth CS).
Qed.

Lemma opt_all_some {A} (l : list A) : opt_all (map Some l) = Some l.
Proof. induction l as [|x l IH]; [reflexivity|]. unfold opt_all in *. cbn [map fold_right]. rewrite IH. reflexivity. Qed.

Lemma opt_all_map_some {A B} (f : A -> option B) (g : A -> B) l : (forall x, In x l -> f x = Some (g x)) ->
  opt_all (map f l) = Some (map g l).
Proof.
  intros H. rewrite <- opt_all_some, map_map. f_equal. apply map_ext_in. exact H.
Qed.

Lemma prop_values_scalar ps rows j p : Forall (Forall2 scalar_cell ps) rows -> nth_error ps j = Some p ->
  0 < dt_len (pp_dt p) ->
  prop_values (map (map CS) rows) (j, p) (length rows) = Some (map (fun row => nth j row []) rows).
Proof.
  intros HR Hj Hsz. unfold prop_values. cbn [fst snd]. rewrite column_CS. unfold col_data. rewrite map_map. cbn [cell_bytes].
  set (cells := map (fun row => nth j row []) rows).
  assert (L : length cells = length rows) by (unfold cells; apply map_length).
  assert (U : Forall (fun c => Z.of_nat (length c) = dt_len (pp_dt p)) cells).
  { unfold cells. apply Forall_forall. intros c Hc. apply in_map_iff in Hc. destruct Hc as (row & <- & Hin).
    rewrite Forall_forall in HR. specialize (HR row Hin).
    pose proof (Forall2_nth scalar_cell ps row p [] j HR (nth_error_lt _ _ _ Hj)) as [_ S].
    rewrite (nth_error_nth' _ _ _ _ Hj) in S. symmetry. exact S. }
  rewrite (opt_all_map_some _ (fun i => nth i cells [])).
  - f_equal. rewrite <- L. apply map_nth_seq'.
  - intros i Hi. apply in_seq in Hi. fold cells. apply read_at_uniform; [exact U|exact Hsz|change (i < length cells)%nat; lia].
Qed.

Lemma zip_concat_cols (rows : list (list bytes)) js :
  zip_concat (length rows) (map (fun j => map (fun row => nth j row []) rows) js) = map (sel js) rows.
Proof.
  unfold zip_concat.
  transitivity (map (sel js) (map (fun k => nth k rows []) (seq 0 (length rows)))); [|rewrite map_nth_seq'; reflexivity].
  unfold sel. rewrite map_map. apply map_ext. intros i.
  rewrite map_map. f_equal. apply map_ext. intros j.
  assert (E : @nil Z = (fun row : list bytes => nth j row []) []) by (destruct j; reflexivity).
  rewrite E at 1. apply (map_nth (fun row : list bytes => nth j row [])).
Qed.

Lemma zc1 (rows : list (list bytes)) a : zip_concat (length rows) [map (fun row => nth a row []) rows] = map (sel [a]) rows.
Proof. exact (zip_concat_cols rows [a]). Qed.
Lemma zc2 (rows : list (list bytes)) a b : zip_concat (length rows)
  [map (fun row => nth a row []) rows; map (fun row => nth b row []) rows] = map (sel [a; b]) rows.
Proof. exact (zip_concat_cols rows [a; b]). Qed.
Lemma zc3 (rows : list (list bytes)) a b c : zip_concat (length rows)
  [map (fun row => nth a row []) rows; map (fun row => nth b row []) rows; map (fun row => nth c row []) rows] = map (sel [a; b; c]) rows.
Proof. exact (zip_concat_cols rows [a; b; c]). Qed.
Lemma zc4 (rows : list (list bytes)) a b c d : zip_concat (length rows)
  [map (fun row => nth a row []) rows; map (fun row => nth b row []) rows; map (fun row => nth c row []) rows;
   map (fun row => nth d row []) rows] = map (sel [a; b; c; d]) rows.
Proof. exact (zip_concat_cols rows [a; b; c; d]). Qed.

Lemma is_listp_scalar j nm dt : is_listp (j, mkProp nm dt DT_INVALID) = false.
Proof. reflexivity. Qed.

(** DecodeVertexData on the table of a vertex element declared as the writer declares it: positions of type [dt]
    (float or int), optionally float normals, [nc] (0..4) uchar colour components *)
Definition vertex_atts (dt : Z) (hasn : bool) (nc : Z) (rows : list (list bytes)) : list attr :=
  [mkAttr 3 dt (map (sel [0; 1; 2]%nat) rows) true []] ++
  (if hasn then [mkAttr 3 DT_FLOAT32 (map (sel [3; 4; 5]%nat) rows) true []] else []) ++
  (if 0 <? nc then [mkAttr nc DT_UINT8 (map (sel (seq (if hasn then 6 else 3) (Z.to_nat nc))) rows) true []] else []).

Ltac pv_rewrite HR :=
  repeat match goal with
  | |- context [prop_values (map (map CS) ?rows) (?j, ?p) (length ?rows)] =>
    rewrite (prop_values_scalar _ rows j p HR eq_refl eq_refl)
  end.

Lemma decode_vertices_table dt hasn nc nm rows :
  (dt = DT_FLOAT32 \/ dt = DT_INT32) -> 0 <= nc <= 4 ->
  Forall (Forall2 scalar_cell (vprops_of dt hasn nc)) rows -> Z.of_nat (length rows) < 2 ^ 31 ->
  decode_vertices (mkElem nm (Z.of_nat (length rows)) (vprops_of dt hasn nc)) (map (map CS) rows) =
  Ok (length rows, vertex_atts dt hasn nc rows).
Proof.
  intros Hdt Hnc HR Hlen.
  assert (Hnc' : nc = 0 \/ nc = 1 \/ nc = 2 \/ nc = 3 \/ nc = 4) by lia.
  unfold decode_vertices. cbn [pe_props].
  unfold elem_entries. cbn [pe_count]. rewrite to_i32_nat by exact Hlen.
  replace (Z.of_nat (length rows) <? 0) with false by lia. rewrite Nat2Z.id.
  set (tbl := map (map CS) rows).
  destruct Hdt as [-> | ->]; destruct hasn; destruct Hnc' as [-> | [-> | [-> | [-> | ->]]]];
    cbv [vprops_of sprops color_names map app find_prop find_last pp_name pp_dt pp_list beq Z.eqb Pos.eqb andb orb negb dt_of
         fst snd opt_list nilb forallb existsb is_listp Z.ltb Z.compare Pos.compare Pos.compare_cont
         s_x s_y s_z s_nx s_ny s_nz s_red s_green s_blue s_alpha DT_FLOAT32 DT_INT32 DT_UINT8 DT_INVALID] in HR |- *;
    subst tbl; pv_rewrite HR; cbn [rbind opt_all map fold_right]; pv_rewrite HR; cbv beta iota;
    rewrite ?zc1, ?zc2, ?zc3, ?zc4; reflexivity.
Qed.

(* ------------------------------------------------------------------------------ the vertex records of the writer *)
Definition split4x3 (v : bytes) : list bytes := [firstn 4 v; firstn 4 (skipn 4 v); skipn 8 v].
Definition vrow (m : ply_in) (p : nat) : list bytes :=
  split4x3 (att_value (pi_pos m) p) ++
  (match eff_nrm m with Some a => split4x3 (att_value a p) | None => [] end) ++
  (match pi_col m with Some a => map (fun b => [b]) (att_value a p) | None => [] end).

Lemma concat_split4x3 v : concat (split4x3 v) = v.
Proof.
  unfold split4x3. cbn [concat]. rewrite app_nil_r. change 8%nat with (4 + 4)%nat. rewrite skipn_plus.
  rewrite firstn_skipn. apply firstn_skipn.
Qed.
Lemma concat_singletons (v : bytes) : concat (map (fun b => [b]) v) = v.
Proof. induction v as [|b v IH]; [reflexivity|]. cbn [map concat app]. rewrite IH. reflexivity. Qed.

Lemma vrow_concat m p : concat (vrow m p) = ply_vertex_row m p.
Proof.
  unfold vrow, ply_vertex_row. rewrite !concat_app, concat_split4x3. f_equal. f_equal.
  - destruct (eff_nrm m); [apply concat_split4x3|reflexivity].
  - destruct (pi_col m); [apply concat_singletons|reflexivity].
Qed.

Lemma split4x3_scalar dt n0 n1 n2 v : dt_len dt = 4 -> Z.of_nat (length v) = 12 ->
  Forall2 scalar_cell (sprops dt [n0; n1; n2]) (split4x3 v).
Proof.
  intros Hd Hv. unfold sprops, split4x3. cbn [map].
  repeat constructor; cbn [pp_dt]; rewrite Hd; rewrite ?firstn_length, ?skipn_length; lia.
Qed.

Lemma singletons_scalar nc v : 1 <= nc <= 4 -> Z.of_nat (length v) = nc ->
  Forall2 scalar_cell (sprops DT_UINT8 (color_names nc)) (map (fun b => [b]) v).
Proof.
  intros Hnc Hv. assert (C : nc = 1 \/ nc = 2 \/ nc = 3 \/ nc = 4) by lia.
  destruct C as [-> | [-> | [-> | ->]]]; destruct v as [|b0 [|b1 [|b2 [|b3 [|b4 v]]]]]; cbn [length] in Hv; try lia;
    repeat constructor.
Qed.

Lemma vrow_scalar m p : ply_ok m -> (p < pi_np m)%nat ->
  Forall2 scalar_cell (vprops_of (a_dtype (pi_pos m)) (has_nrm m) (col_nc m)) (vrow m p).
Proof.
  intros (_ & Hdt & Hpos & Hn & Hc & _) Hp. unfold vprops_of, vrow, has_nrm, col_nc.
  apply Forall2_app; [|apply Forall2_app].
  - apply split4x3_scalar; [destruct Hdt as [-> | ->]; reflexivity|apply Hpos; exact Hp].
  - destruct (eff_nrm m) as [a|]; [|constructor]. destruct (Hn a eq_refl) as [_ L].
    apply split4x3_scalar; [reflexivity|apply L; exact Hp].
  - destruct (pi_col m) as [a|]; [|constructor]. destruct (Hc a eq_refl) as (_ & R & L).
    apply singletons_scalar; [exact R|apply L; exact Hp].
Qed.

Lemma sel_mid (pre mid post : list bytes) : sel (seq (length pre) (length mid)) (pre ++ mid ++ post) = concat mid.
Proof.
  unfold sel. f_equal. induction pre as [|x pre IH].
  - cbn [length app]. apply map_seq_nth with (d := []); [reflexivity|]. intros q Hq. apply app_nth1. exact Hq.
  - cbn [length]. rewrite <- seq_shift, map_map. exact IH.
Qed.

Lemma split4x3_len v : length (split4x3 v) = 3%nat.
Proof. reflexivity. Qed.

Lemma vrow_sel_pos m p : sel [0; 1; 2]%nat (vrow m p) = att_value (pi_pos m) p.
Proof.
  unfold vrow. change [0; 1; 2]%nat with (seq (length (@nil bytes)) (length (split4x3 (att_value (pi_pos m) p)))).
  rewrite <- (app_nil_l (split4x3 _ ++ _)). rewrite sel_mid. apply concat_split4x3.
Qed.
Lemma vrow_sel_nrm m a p : eff_nrm m = Some a -> sel [3; 4; 5]%nat (vrow m p) = att_value a p.
Proof.
  intros E. unfold vrow. rewrite E.
  change [3; 4; 5]%nat with (seq (length (split4x3 (att_value (pi_pos m) p))) (length (split4x3 (att_value a p)))).
  rewrite sel_mid. apply concat_split4x3.
Qed.
Lemma vrow_sel_col m a p : pi_col m = Some a -> Z.of_nat (length (att_value a p)) = a_ncomp a ->
  sel (seq (if has_nrm m then 6 else 3) (Z.to_nat (a_ncomp a))) (vrow m p) = att_value a p.
Proof.
  intros E L. unfold vrow, has_nrm. rewrite E.
  set (A := split4x3 (att_value (pi_pos m) p)).
  set (B := match eff_nrm m with Some a0 => split4x3 (att_value a0 p) | None => [] end).
  set (C := map (fun b => [b]) (att_value a p)).
  replace (if match eff_nrm m with Some _ => true | None => false end then 6%nat else 3%nat) with (length (A ++ B)).
  2:{ unfold A, B. destruct (eff_nrm m); reflexivity. }
  replace (Z.to_nat (a_ncomp a)) with (length C) by (unfold C; rewrite map_length; lia).
  rewrite app_assoc. rewrite <- (app_nil_r C) at 2. rewrite sel_mid. apply concat_singletons.
Qed.

(** the rows of the vertex element are read back cell by cell *)
Lemma read_vertex_rows m rest : ply_ok m ->
  read_rows (pi_np m) (vprops_of (a_dtype (pi_pos m)) (has_nrm m) (col_nc m))
            (concat (map (ply_vertex_row m) (seq 0 (pi_np m))) ++ rest) =
  Ok (map (map CS) (map (vrow m) (seq 0 (pi_np m))), rest).
Proof.
  intros Hok. set (rows := map (vrow m) (seq 0 (pi_np m))).
  assert (L : length rows = pi_np m) by (unfold rows; rewrite map_length, seq_length; reflexivity).
  replace (concat (map (ply_vertex_row m) (seq 0 (pi_np m)))) with (concat (map (@concat Z) rows)).
  2:{ unfold rows. rewrite map_map. f_equal. apply map_ext. intros p. apply vrow_concat. }
  rewrite <- L at 1. apply read_rows_scalars. apply Forall_forall. intros row Hr. unfold rows in Hr.
  apply in_map_iff in Hr. destruct Hr as (p & <- & Hp). apply in_seq in Hp. apply vrow_scalar; [exact Hok|lia].
Qed.

(* ---------------------------------------------------------------------------------- the face records of the writer *)
Definition idx3 (f : face) : bytes := let '(a, b, c) := f in le32 a ++ le32 b ++ le32 c.
Definition tex3 (t : attr) (f : face) : bytes := let '(a, b, c) := f in att_value t a ++ att_value t b ++ att_value t c.
Definition frow (m : ply_in) (f : face) : list cell :=
  CL 3 (idx3 f) :: match eff_tex m with Some t => [CL 6 (tex3 t f)] | None => [] end.

Lemma read_cell_list nm dt n payload rest : 0 <= n -> Z.of_nat (length payload) = dt_len dt * n ->
  read_cell (mkProp nm dt DT_UINT8) (n :: payload ++ rest) = Ok (CL n payload, rest).
Proof.
  intros Hn HL. unfold read_cell. cbn [pp_list pp_dt]. change (DT_UINT8 =? DT_INVALID) with false. cbn iota.
  change (dt_len DT_UINT8) with 1. change (1 =? 8) with false. cbn iota. change (Z.to_nat 1) with 1%nat.
  cbn [dec_le]. replace (n + 256 * 0) with n by lia. rewrite take_n_app by lia. reflexivity.
Qed.

Lemma le32_len a : length (le32 a) = 4%nat.
Proof. reflexivity. Qed.

Lemma read_face_row m f rest : face_ok (pi_np m) f = true ->
  (forall t, eff_tex m = Some t -> val_len t (pi_np m) (2 * dt_len (a_dtype t))) ->
  exists fb, ply_face_row m f = Some fb /\
    read_row (fprops_of (tex_dt m)) (fb ++ rest) = Ok (frow m f, rest).
Proof.
  intros Hf Ht. destruct f as [[a b] c]. unfold ply_face_row. rewrite Hf.
  apply face_ok_lt in Hf. destruct Hf as (Ha & Hb & Hc).
  eexists. split; [reflexivity|]. unfold fprops_of, frow, tex_dt.
  cbn [read_row]. rewrite <- !app_assoc. cbn [app].
  assert (E : forall X, le32 a ++ le32 b ++ le32 c ++ X = idx3 (a, b, c) ++ X).
  { intros X. unfold idx3. rewrite <- !app_assoc. reflexivity. }
  rewrite E. rewrite read_cell_list; [|lia|unfold idx3; rewrite !app_length, !le32_len; reflexivity].
  cbn [rbind]. destruct (eff_tex m) as [t|] eqn:Et; cbn [option_map read_row].
  - cbn [app]. rewrite <- !app_assoc.
    assert (E2 : forall X, att_value t a ++ att_value t b ++ att_value t c ++ X = tex3 t (a, b, c) ++ X).
    { intros X. unfold tex3. rewrite <- !app_assoc. reflexivity. }
    rewrite E2. rewrite read_cell_list; [reflexivity|lia|].
    unfold tex3. rewrite !app_length. pose proof (Ht t eq_refl a Ha). pose proof (Ht t eq_refl b Hb). pose proof (Ht t eq_refl c Hc). lia.
  - reflexivity.
Qed.

Lemma read_face_rows m : (forall t, eff_tex m = Some t -> val_len t (pi_np m) (2 * dt_len (a_dtype t))) ->
  forall fs, forallb (face_ok (pi_np m)) fs = true ->
  exists fb, opt_concat (map (ply_face_row m) fs) = Some fb /\ forall rest,
    read_rows (length fs) (fprops_of (tex_dt m)) (fb ++ rest) = Ok (map (frow m) fs, rest).
Proof.
  intros Ht. induction fs as [|f fs IH]; intros Hfs.
  - exists []. split; [reflexivity|]. intros rest. reflexivity.
  - cbn [forallb] in Hfs. apply andb_true_iff in Hfs. destruct Hfs as [Hf Hfs].
    destruct (IH Hfs) as (fb & E & R).
    destruct (read_face_row m f [] Hf Ht) as (b1 & E1 & _).
    exists (b1 ++ fb). split; [cbn [map opt_concat]; rewrite E1, E; reflexivity|]. intros rest.
    destruct (read_face_row m f (fb ++ rest) Hf Ht) as (b1' & E1' & R1). rewrite E1 in E1'. injection E1' as <-.
    cbn [length read_rows map]. rewrite <- app_assoc, R1. cbn [rbind]. rewrite R. reflexivity.
Qed.

(* -------------------------------------------------------------------------------------------- DecodeFaceData *)
Lemma le_z_enc_le n : forall v, 0 <= v < 256 ^ Z.of_nat n -> le_z (enc_le n v) = v.
Proof.
  induction n as [|n IH]; intros v Hv.
  - change (256 ^ Z.of_nat 0) with 1 in Hv. cbn. lia.
  - cbn [enc_le le_z]. rewrite IH.
    + pose proof (Z.div_mod v 256). lia.
    + rewrite Nat2Z.inj_succ, Z.pow_succ_r in Hv by lia. split; [apply Z.div_pos; lia|]. apply Z.div_lt_upper_bound; lia.
Qed.

Lemma conv_u32_le32 a : Z.of_nat a < 2 ^ 31 -> conv_u32 DT_INT32 (le32 a) = Some (Z.of_nat a).
Proof.
  intros Ha. unfold conv_u32. rewrite le32_len. unfold le32. rewrite le_z_enc_le by (change (256 ^ Z.of_nat 4) with (2 ^ 32); lia).
  change ((DT_INT32 =? DT_UINT8) || (DT_INT32 =? DT_UINT16) || (DT_INT32 =? DT_UINT32)) with false.
  change ((DT_INT32 =? DT_INT8) || (DT_INT32 =? DT_INT16) || (DT_INT32 =? DT_INT32)) with true. cbn iota.
  change (8 * Z.of_nat 4 - 1) with 31. replace (Z.of_nat a <? 2 ^ 31) with true by lia.
  rewrite Z.mod_small by lia. reflexivity.
Qed.

Lemma list_entries_3 (l : list cell) : Forall (fun c => cell_count c = 3) l -> forall off,
  list_entries off l = map (fun i => (off + 3 * Z.of_nat i, 3)) (seq 0 (length l)).
Proof.
  induction 1 as [|c l Hc _ IH]; intros off; [reflexivity|].
  cbn [list_entries length seq map]. rewrite Hc. f_equal; [f_equal; lia|].
  rewrite IH. rewrite <- seq_shift, map_map. apply map_ext. intros i. f_equal. lia.
Qed.

Lemma concat_concat_map {A B} (F : A -> list (list B)) l : concat (concat (map F l)) = concat (map (fun x => concat (F x)) l).
Proof. induction l as [|x l IH]; [reflexivity|]. cbn [map concat]. rewrite concat_app, IH. reflexivity. Qed.

Lemma concat_map_singleton {A B} (h : A -> B) l : concat (map (fun i => [h i]) l) = map h l.
Proof. induction l as [|i l IH]; [reflexivity|]. cbn [map concat app]. rewrite IH. reflexivity. Qed.

Definition zface (f : face) : Z * Z * Z := let '(a, b, c) := f in (Z.of_nat a, Z.of_nat b, Z.of_nat c).
Definition corners (f : face) : list nat := let '(a, b, c) := f in [a; b; c].

Lemma decode_faces_written m nm cnt fs : forallb (face_ok (pi_np m)) fs = true -> Z.of_nat (pi_np m) < 2 ^ 31 ->
  decode_faces (mkElem nm cnt (fprops_of (tex_dt m))) (map (frow m) fs) = Ok (map zface fs).
Proof.
  intros Hfs Hnp. unfold decode_faces. cbn [pe_props].
  assert (FP : find_prop s_vertex_indices (fprops_of (tex_dt m)) = Some (0%nat, mkProp s_vertex_indices DT_INT32 DT_UINT8)).
  { destruct (tex_dt m); reflexivity. }
  rewrite FP. cbn [pp_list pp_dt]. change (DT_UINT8 =? DT_INVALID) with false. cbn iota.
  change (dt_len DT_INT32) with 4.
  set (nf := length fs).
  assert (COL : column 0 (map (frow m) fs) = map (fun f => CL 3 (idx3 f)) fs).
  { unfold column. rewrite map_map. apply map_ext. intros f. reflexivity. }
  rewrite COL. clear COL.
  rewrite list_entries_3 by (apply Forall_forall; intros c Hc; apply in_map_iff in Hc; destruct Hc as (f & <- & _); reflexivity).
  rewrite map_length. fold nf.
  (* the index data as 4-byte cells *)
  set (F := fun i => map le32 (corners (nth i fs (0, 0, 0)%nat))).
  set (cells := concat (map F (seq 0 nf))).
  assert (DATA : col_data (map (fun f => CL 3 (idx3 f)) fs) = concat cells).
  { unfold col_data, cells. rewrite map_map. cbn [cell_bytes]. rewrite (@concat_concat_map nat Z F).
    rewrite <- (map_nth_seq' fs (0, 0, 0)%nat) at 1. rewrite map_map. fold nf. f_equal. apply map_ext. intros i. unfold F.
    destruct (nth i fs (0, 0, 0)%nat) as [[a b] c]. cbn [idx3 corners map concat]. rewrite app_nil_r. reflexivity. }
  rewrite DATA. clear DATA.
  assert (FL : forall i, length (F i) = 3%nat) by (intros i; unfold F; destruct (nth i fs (0, 0, 0)%nat) as [[? ?] ?]; reflexivity).
  assert (LC : length cells = (3 * nf)%nat).
  { unfold cells. rewrite (concat_len_const _ 3); [rewrite map_length, seq_length; lia|].
    apply Forall_forall. intros x Hx. apply in_map_iff in Hx. destruct Hx as (k & <- & _). apply FL. }
  assert (UC : Forall (fun c => Z.of_nat (length c) = 4) cells).
  { unfold cells. apply Forall_forall. intros x Hx. apply in_concat in Hx. destruct Hx as (l & Hl & Hx).
    apply in_map_iff in Hl. destruct Hl as (k & <- & _). unfold F in Hx. apply in_map_iff in Hx. destruct Hx as (a & <- & _). reflexivity. }
  assert (CORN : forall i, (i < nf)%nat -> Forall (fun a => Z.of_nat a < 2 ^ 31) (corners (nth i fs (0, 0, 0)%nat))).
  { intros i Hi. rewrite forallb_forall in Hfs. specialize (Hfs _ (nth_In fs (0, 0, 0)%nat Hi)).
    destruct (nth i fs (0, 0, 0)%nat) as [[a b] c]. apply face_ok_lt in Hfs. cbn [corners]. repeat constructor; lia. }
  set (get := fun i => match read_at (concat cells) 4 i with Some b => conv_u32 DT_INT32 b | None => None end).
  assert (GET : forall i c, (i < nf)%nat -> (c < 3)%nat ->
            get (Z.of_nat (3 * i + c)) = Some (Z.of_nat (nth c (corners (nth i fs (0, 0, 0)%nat)) 0%nat))).
  { intros i c Hi Hc. unfold get. rewrite read_at_uniform; [|exact UC|lia|lia].
    unfold cells.
    match goal with |- conv_u32 _ ?x = _ => replace x with (nth c (F i) []) by (symmetry; apply (nth_concat3 [] F FL nf i c Hi Hc)) end.
    unfold F.
    assert (LCi : length (corners (nth i fs (0, 0, 0)%nat)) = 3%nat) by (destruct (nth i fs (0, 0, 0)%nat) as [[? ?] ?]; reflexivity).
    rewrite (nth_map_lt le32 _ c 0%nat []) by lia. apply conv_u32_le32.
    specialize (CORN i Hi). rewrite Forall_forall in CORN. apply CORN. apply nth_In. lia. }
  rewrite map_map. cbn [fst snd].
  rewrite (opt_all_map_some _ (fun i => [zface (nth i fs (0, 0, 0)%nat)])).
  - f_equal. transitivity (map zface (map (fun k => nth k fs (0, 0, 0)%nat) (seq 0 nf))); [|unfold nf; rewrite map_nth_seq'; reflexivity].
    rewrite map_map. apply concat_map_singleton.
  - intros i Hi. apply in_seq in Hi. unfold fan. change (3 <? 3) with false. cbn iota.
    change (Z.to_nat (3 - 2)) with 1%nat. cbn [seq map].
    replace (0 + 3 * Z.of_nat i) with (Z.of_nat (3 * i + 0)) by lia.
    replace (Z.of_nat (3 * i + 0) + Z.of_nat 0 + 1) with (Z.of_nat (3 * i + 1)) by lia.
    replace (Z.of_nat (3 * i + 0) + Z.of_nat 0 + 2) with (Z.of_nat (3 * i + 2)) by lia.
    fold get. rewrite !GET by lia.
    destruct (nth i fs (0, 0, 0)%nat) as [[a b] c]. reflexivity.
Qed.

(* -------------------------------------------------------------------------------------- PlyReader::Read, composed *)
Definition ply_tables (m : ply_in) : list (pelem * list (list cell)) :=
  (velem m, map (map CS) (map (vrow m) (seq 0 (pi_np m)))) ::
  match pi_faces m with Some fs => [(felem m fs, map (frow m) fs)] | None => [] end.

(** PlyReader::Read on the writer's output: the header is understood as written, every row of both elements is read
    back, exactly the file is consumed — whatever follows it and whatever the data bytes are *)
Lemma ply_reader_written m : ply_ok m ->
  exists bs, ply_write m = Some bs /\ forall rest, ply_reader (bs ++ rest) = Ok (ply_tables m, rest).
Proof.
  intros Hok. destruct (ply_read_header_written m Hok) as (hl & Hhl & RH).
  pose proof Hok as (Hnp & _ & _ & _ & _ & Hf).
  unfold ply_write. rewrite Hhl. unfold ply_reader, ply_tables.
  assert (EV : Z.to_nat (elem_entries (velem m)) = pi_np m).
  { unfold elem_entries, velem. cbn [pe_count]. rewrite to_i32_nat by exact Hnp. apply Nat2Z.id. }
  destruct (pi_faces m) as [fs|] eqn:Ef.
  - destruct (Hf fs eq_refl) as (Hnf & Hfs & Ht).
    destruct (read_face_rows m (fun t E => proj2 (Ht t E)) fs Hfs) as (fb & Efb & RF). rewrite Efb.
    eexists. split; [reflexivity|]. intros rest. rewrite <- !app_assoc. rewrite RH. cbn [rbind].
    unfold ply_elems. rewrite Ef. cbn [read_elements]. rewrite EV. cbn [velem pe_props].
    rewrite read_vertex_rows by exact Hok. cbn [rbind].
    assert (EF : Z.to_nat (elem_entries (felem m fs)) = length fs).
    { unfold elem_entries, felem. cbn [pe_count]. rewrite to_i32_nat by exact Hnf. apply Nat2Z.id. }
    rewrite EF. cbn [felem pe_props]. rewrite RF. reflexivity.
  - eexists. split; [reflexivity|]. intros rest. rewrite <- !app_assoc. rewrite RH. cbn [rbind].
    unfold ply_elems. rewrite Ef. cbn [read_elements]. rewrite EV. cbn [velem pe_props].
    rewrite read_vertex_rows by exact Hok. reflexivity.
Qed.

(* ----------------------------------------------------------------------------------------- PlyDecoder, composed *)
Definition ident_attr (nc dt : Z) (a : attr) (np : nat) : attr := mkAttr nc dt (map (att_value a) (seq 0 np)) true [].
(** what PlyDecoder builds from the writer's file: POSITION, then NORMAL and COLOR if the writer wrote them; one value
    per point, identity mapping, value p = the bytes point p carries in the input *)
Definition ply_read_atts (m : ply_in) : list attr :=
  [ident_attr 3 (a_dtype (pi_pos m)) (pi_pos m) (pi_np m)] ++
  match eff_nrm m with Some a => [ident_attr 3 DT_FLOAT32 a (pi_np m)] | None => [] end ++
  match pi_col m with Some a => [ident_attr (a_ncomp a) DT_UINT8 a (pi_np m)] | None => [] end.
Definition in_faces (m : ply_in) : list face := match pi_faces m with Some fs => fs | None => [] end.

Lemma vertex_atts_written m : ply_ok m ->
  vertex_atts (a_dtype (pi_pos m)) (has_nrm m) (col_nc m) (map (vrow m) (seq 0 (pi_np m))) = ply_read_atts m.
Proof.
  intros (_ & _ & _ & _ & Hc & _). unfold vertex_atts, ply_read_atts, ident_attr. rewrite !map_map. cbn [app].
  assert (P : map (fun x => sel [0; 1; 2]%nat (vrow m x)) (seq 0 (pi_np m)) = map (att_value (pi_pos m)) (seq 0 (pi_np m))).
  { apply map_ext. intros p. apply vrow_sel_pos. }
  rewrite P. f_equal. f_equal.
  - unfold has_nrm. destruct (eff_nrm m) as [a|] eqn:En; [|reflexivity].
    assert (N : map (fun x => sel [3; 4; 5]%nat (vrow m x)) (seq 0 (pi_np m)) = map (att_value a) (seq 0 (pi_np m))).
    { apply map_ext. intros p. apply vrow_sel_nrm. exact En. }
    rewrite N. reflexivity.
  - unfold col_nc. destruct (pi_col m) as [a|] eqn:Ec; [|reflexivity]. destruct (Hc a eq_refl) as (_ & R & L).
    replace (0 <? a_ncomp a) with true by lia.
    assert (C : map (fun x => sel (seq (if has_nrm m then 6 else 3) (Z.to_nat (a_ncomp a))) (vrow m x)) (seq 0 (pi_np m)) =
                map (att_value a) (seq 0 (pi_np m))).
    { apply map_ext_in. intros p Hp. apply in_seq in Hp. apply vrow_sel_col; [exact Ec|apply L; lia]. }
    rewrite C. reflexivity.
Qed.

Lemma face_to_nat_zface f : face_to_nat (zface f) = f.
Proof. destruct f as [[a b] c]. cbn. rewrite !Nat2Z.id. reflexivity. Qed.
Lemma face_in_range_zface np f : face_in_range np (zface f) = face_ok np f.
Proof. destruct f as [[a b] c]. unfold face_in_range, zface, face_ok. lia. Qed.

(** THEOREM ply_raw_roundtrip: PlyEncoder accepts m; on its output followed by anything PlyDecoder builds (before
    its final deduplication) exactly the per-point attribute bytes and the faces of the input, as a mesh or as a point cloud *)
Theorem ply_raw_roundtrip m : ply_ok m ->
  exists bs, ply_write m = Some bs /\ forall rest,
    ply_decode_raw true (bs ++ rest) = Ok (mkGeo (pi_np m) (ply_read_atts m) (in_faces m)) /\
    ply_decode_raw false (bs ++ rest) = Ok (mkGeo (pi_np m) (ply_read_atts m) []).
Proof.
  intros Hok. destruct (ply_reader_written m Hok) as (bs & Hbs & RD). exists bs. split; [exact Hbs|]. intros rest.
  pose proof Hok as (Hnp & Hdt & _ & _ & Hc & Hf).
  assert (NC : 0 <= col_nc m <= 4).
  { unfold col_nc. destruct (pi_col m) as [a|]; [destruct (Hc a eq_refl) as (_ & R & _); lia|lia]. }
  assert (EV : Z.to_nat (elem_entries (velem m)) = pi_np m).
  { unfold elem_entries, velem. cbn [pe_count]. rewrite to_i32_nat by exact Hnp. apply Nat2Z.id. }
  set (rows := map (vrow m) (seq 0 (pi_np m))).
  assert (L : length rows = pi_np m) by (unfold rows; rewrite map_length, seq_length; reflexivity).
  assert (DV : decode_vertices (velem m) (map (map CS) rows) = Ok (pi_np m, ply_read_atts m)).
  { unfold velem. rewrite <- L at 1. rewrite decode_vertices_table; [|exact Hdt|exact NC| |rewrite L; exact Hnp].
    - rewrite L. unfold rows. rewrite vertex_atts_written by exact Hok. reflexivity.
    - apply Forall_forall. intros row Hr. unfold rows in Hr. apply in_map_iff in Hr. destruct Hr as (p & <- & Hp).
      apply in_seq in Hp. apply vrow_scalar; [exact Hok|lia]. }
  assert (FV : forall tl, (forall x, In x tl -> beq (pe_name (fst x)) s_vertex = false) ->
            find_elem s_vertex ((velem m, map (map CS) rows) :: tl) = Some (velem m, map (map CS) rows)).
  { intros tl Htl. unfold find_elem. cbn [find_last fst velem pe_name]. change (beq s_vertex s_vertex) with true. cbn iota.
    fold (velem m). generalize 1%nat. induction tl as [|x tl IH]; intros k; [reflexivity|].
    cbn [find_last]. rewrite (Htl x (or_introl eq_refl)). apply IH. intros y Hy. apply Htl. right. exact Hy. }
  unfold ply_decode_raw. rewrite RD. cbn [rbind]. unfold ply_tables, in_faces. fold rows.
  destruct (pi_faces m) as [fs|] eqn:Ef.
  - destruct (Hf fs eq_refl) as (Hnf & Hfs & Ht).
    assert (FF : find_elem s_face [(velem m, map (map CS) rows); (felem m fs, map (frow m) fs)] = Some (felem m fs, map (frow m) fs)) by reflexivity.
    rewrite FF. unfold felem at 1. rewrite decode_faces_written by assumption. cbn [rbind].
    rewrite FV by (intros x [<- | []]; reflexivity).
    rewrite EV. rewrite DV. cbn [rbind].
    assert (FR : forallb (face_in_range (pi_np m)) (map zface fs) = true).
    { rewrite forallb_forall. intros z Hz. apply in_map_iff in Hz. destruct Hz as (f & <- & Hin). rewrite face_in_range_zface.
      rewrite forallb_forall in Hfs. apply Hfs. exact Hin. }
    rewrite FR. cbn [negb forallb]. rewrite map_map. split; f_equal; f_equal.
    rewrite <- (map_id fs) at 2. apply map_ext. intros f. apply face_to_nat_zface.
  - assert (FF : find_elem s_face [(velem m, map (map CS) rows)] = None) by reflexivity.
    rewrite FF. cbn [rbind]. rewrite FV by (intros x []). rewrite EV, DV. cbn [rbind forallb negb map]. split; reflexivity.
Qed.

(* ------------------------------------------------------------------------- with the decoder's final deduplication *)
(** the attributes of the input that the PLY file carries per point (texture coordinates are written per face corner
    into a "texcoord" list property that PlyDecoder does not read: they are NOT part of what comes back) *)
Definition ply_in_atts (m : ply_in) : list attr :=
  [pi_pos m] ++ match eff_nrm m with Some a => [a] | None => [] end ++ match pi_col m with Some a => [a] | None => [] end.

Lemma ident_attr_value nc dt a np p : (p < np)%nat -> att_value (ident_attr nc dt a np) p = att_value a p.
Proof.
  intros Hp. unfold ident_attr. unfold att_value at 1. unfold mapped_index. cbn [a_ident a_vals].
  rewrite (nth_map_lt _ _ _ 0%nat) by (rewrite seq_length; exact Hp). rewrite seq_nth by exact Hp. reflexivity.
Qed.

Lemma ply_read_tuple m p : (p < pi_np m)%nat -> point_tuple (ply_read_atts m) p = point_tuple (ply_in_atts m) p.
Proof.
  intros Hp. unfold ply_read_atts, ply_in_atts, point_tuple. rewrite !map_app. cbn [map].
  rewrite ident_attr_value by exact Hp. f_equal. f_equal.
  - destruct (eff_nrm m); [cbn [map]; rewrite ident_attr_value by exact Hp|]; reflexivity.
  - destruct (pi_col m); [cbn [map]; rewrite ident_attr_value by exact Hp|]; reflexivity.
Qed.

Lemma ply_read_geom m fs : forallb (face_ok (pi_np m)) fs = true ->
  geom (mkGeo (pi_np m) (ply_read_atts m) fs) = geom (mkGeo (pi_np m) (ply_in_atts m) fs).
Proof.
  intros Hfs. unfold geom. cbn [g_atts g_faces]. apply map_ext_in. intros [[a b] c] Hin.
  rewrite forallb_forall in Hfs. specialize (Hfs _ Hin). apply face_ok_lt in Hfs. destruct Hfs as (Ha & Hb & Hc).
  unfold face_geom. rewrite !ply_read_tuple by assumption. reflexivity.
Qed.

Lemma ply_read_wf m fs : forallb (face_ok (pi_np m)) fs = true -> wf_geo (mkGeo (pi_np m) (ply_read_atts m) fs) = true.
Proof.
  intros Hfs. unfold wf_geo. cbn [g_np g_atts g_faces]. rewrite Hfs, andb_true_r. apply forallb_forall. intros a Ha.
  assert (I : a_ident a = true /\ length (a_vals a) = pi_np m).
  { unfold ply_read_atts in Ha. repeat (apply in_app_or in Ha; destruct Ha as [Ha | Ha]).
    - destruct Ha as [<- | []]. cbn. rewrite map_length, seq_length. auto.
    - destruct (eff_nrm m); [|destruct Ha]. destruct Ha as [<- | []]. cbn. rewrite map_length, seq_length. auto.
    - destruct (pi_col m); [|destruct Ha]. destruct Ha as [<- | []]. cbn. rewrite map_length, seq_length. auto. }
  destruct I as [I1 I2]. unfold wf_attr. rewrite I1, I2. apply Nat.leb_refl.
Qed.

Lemma in_faces_ok m : ply_ok m -> forallb (face_ok (pi_np m)) (in_faces m) = true.
Proof.
  intros (_ & _ & _ & _ & _ & Hf). unfold in_faces. destruct (pi_faces m) as [fs|]; [|reflexivity]. apply (Hf fs eq_refl).
Qed.

(** THEOREM ply_roundtrip (the decoder as called, with DeduplicateAttributeValues / DeduplicatePointIds for meshes
    that have faces; composition with C14's theorems) *)
Theorem ply_roundtrip m : ply_ok m ->
  exists bs, ply_write m = Some bs /\ forall rest,
    (* read as a point cloud: point p carries the bytes of input point p; nothing is merged *)
    ply_decode false (bs ++ rest) = Ok (mkGeo (pi_np m) (ply_read_atts m) []) /\
    pc_geom (mkGeo (pi_np m) (ply_read_atts m) []) = map (point_tuple (ply_in_atts m)) (seq 0 (pi_np m)) /\
    (* read as a mesh *)
    exists g, ply_decode true (bs ++ rest) = Ok g /\
      geom g = geom (mkGeo (pi_np m) (ply_in_atts m) (in_faces m)) /\
      wf_geo g = true /\
      (in_faces m = [] -> g = mkGeo (pi_np m) (ply_read_atts m) []) /\
      (in_faces m <> [] ->
         NoDup (keys (g_atts g) (seq 0 (g_np g))) /\
         exists im, length im = pi_np m /\
           g_faces g = map (remap_face im) (in_faces m) /\
           (forall p, (p < pi_np m)%nat -> (nth p im invalid_index < g_np g)%nat /\
                      point_tuple (g_atts g) (nth p im invalid_index) = point_tuple (ply_in_atts m) p) /\
           (forall q, (q < g_np g)%nat -> exists p, (p < pi_np m)%nat /\ nth p im invalid_index = q)).
Proof.
  intros Hok. destruct (ply_raw_roundtrip m Hok) as (bs & Hbs & RT). exists bs. split; [exact Hbs|]. intros rest.
  destruct (RT rest) as [RM RP]. pose proof (in_faces_ok m Hok) as Hfs.
  split; [|split].
  - unfold ply_decode. rewrite RP. reflexivity.
  - unfold pc_geom. cbn [g_np g_atts]. apply map_ext_in. intros p Hp. apply in_seq in Hp. apply ply_read_tuple. lia.
  - unfold ply_decode. rewrite RM. cbn [rbind andb g_faces].
    set (g0 := mkGeo (pi_np m) (ply_read_atts m) (in_faces m)).
    assert (W0 : wf_geo g0 = true) by (apply ply_read_wf; exact Hfs).
    destruct (nilb (in_faces m)) eqn:En.
    + assert (Efs : in_faces m = []) by (destruct (in_faces m); [reflexivity|discriminate]).
      cbn [negb]. exists g0. split; [reflexivity|]. split; [apply ply_read_geom; exact Hfs|]. split; [exact W0|].
      split; [intros _; unfold g0; rewrite Efs; reflexivity|congruence].
    + assert (Hne : in_faces m <> []) by (intros E; rewrite E in En; discriminate).
      cbn [negb].
      destruct (dav_preserves g0 W0) as (G1 & P1 & OK). pose proof (dav_wf g0 W0) as W1.
      destruct (dedup_attribute_values g0) as [g1 ok] eqn:E1. cbn [fst snd] in *. subst ok.
      exists (dedup_point_ids g1). split; [reflexivity|].
      destruct (dedup_points_preserves g1 W1) as (G2 & im & Lim & HP & HQ & HF).
      assert (N1 : g_np g1 = pi_np m) by (replace g1 with (fst (dedup_attribute_values g0)) by (rewrite E1; reflexivity); apply dav_np).
      assert (F1 : g_faces g1 = in_faces m) by (replace g1 with (fst (dedup_attribute_values g0)) by (rewrite E1; reflexivity); apply dav_faces).
      split; [rewrite G2, G1; apply ply_read_geom; exact Hfs|]. split; [apply dpi_wf; exact W1|]. split; [intros E; contradiction|].
      intros _. split; [apply dedup_points_nodup; exact W1|].
      exists im. rewrite N1 in *. split; [exact Lim|]. split; [rewrite HF, F1; reflexivity|]. split; [|exact HQ].
      intros p Hp. destruct (HP p Hp) as [A B]. split; [exact A|]. rewrite B.
      replace g1 with (fst (dedup_attribute_values g0)) by (rewrite E1; reflexivity).
      rewrite dav_point_tuple by (try exact W0; exact Hp). apply ply_read_tuple. exact Hp.
Qed.
