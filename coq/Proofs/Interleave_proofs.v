(** C19 — proofs about Model/Interleave.v.  All statements are for every number of threads, every
    program, every schedule (induction over the schedule); nothing is sampled. *)
From Coq Require Import String List Arith PeanoNat Lia.
From Draco Require Import Model.Interleave.
Import ListNotations.

Set Implicit Arguments.

(** * Pool bookkeeping *)
Section Basics.
  Variables (L Sh O : Type).
  Notation thread := (thread L Sh O).
  Notation pool := (pool L Sh O).
  Notation step := (step L Sh O).

  Lemma upd_same : forall (p : pool) i t, upd p i t i = t.
  Proof. intros. unfold upd. now rewrite Nat.eqb_refl. Qed.

  Lemma upd_other : forall (p : pool) i j t, j <> i -> upd p i t j = p j.
  Proof. intros. unfold upd. destruct (Nat.eqb_spec j i); [contradiction | reflexivity]. Qed.

  Lemma turns_cons_same : forall i sched, turns i (i :: sched) = S (turns i sched).
  Proof. intros. unfold turns. cbn. destruct (Nat.eq_dec i i); [reflexivity | contradiction]. Qed.

  Lemma turns_cons_other : forall i j sched, j <> i -> turns i (j :: sched) = turns i sched.
  Proof. intros. unfold turns. cbn. destruct (Nat.eq_dec j i); [contradiction | reflexivity]. Qed.

  (** A turn only consumes steps: what remains to do is a suffix of what there was. *)
  Lemma step_thread_todo : forall (t : thread) sh s,
    In s (t_todo (fst (step_thread t sh))) -> In s (t_todo t).
  Proof.
    intros t sh s. unfold step_thread. destruct (t_todo t) as [| s0 rest] eqn:E; cbn.
    - now rewrite E.
    - destruct (s0 (t_local t) sh) as [[l' sh'] o]. cbn. intro H. now right.
  Qed.

  Lemma all_steps_turn : forall (P : nat -> step -> Prop) (p : pool) j sh,
    all_steps P p -> all_steps P (upd p j (fst (step_thread (p j) sh))).
  Proof.
    intros P p j sh H i s Hin. destruct (Nat.eq_dec i j) as [-> | Hne].
    - rewrite upd_same in Hin. apply H. eapply step_thread_todo; eauto.
    - rewrite upd_other in Hin by assumption. now apply H.
  Qed.

  Lemma step_thread_length : forall (t : thread) sh,
    length (t_todo (fst (step_thread t sh))) = pred (length (t_todo t)).
  Proof.
    intros. unfold step_thread. destruct (t_todo t) as [| s0 rest] eqn:E; cbn.
    - now rewrite E.
    - destruct (s0 (t_local t) sh) as [[l' sh'] o]. reflexivity.
  Qed.

  (** After as many turns as it has steps, a thread has nothing left to do. *)
  Lemma run_alone_finishes : forall n (t : thread) sh,
    length (t_todo t) <= n -> t_todo (fst (run_alone n t sh)) = [].
  Proof.
    induction n as [| n IH]; intros t sh Hn; cbn.
    - destruct (t_todo t); [reflexivity | cbn in Hn; lia].
    - destruct (step_thread t sh) as [t' sh'] eqn:E. apply IH.
      assert (Hl := step_thread_length t sh). rewrite E in Hl. cbn in Hl. lia.
  Qed.
End Basics.

(** * 1. No step writes the shared state  ==>  every interleaving = each thread alone *)
Section NoSharedWrites.
  Variables (L Sh O : Type).
  Notation thread := (thread L Sh O).
  Notation pool := (pool L Sh O).
  Variable Inv : Sh -> Prop.

  Lemma step_thread_keeps_shared : forall (t : thread) sh,
    Inv sh -> (forall s, In s (t_todo t) -> writes_nothing Inv s) ->
    snd (step_thread t sh) = sh.
  Proof.
    intros t sh Hi H. unfold step_thread. destruct (t_todo t) as [| s0 rest] eqn:E; [reflexivity |].
    assert (Hw := H s0 (or_introl eq_refl) (t_local t) sh Hi).
    destruct (s0 (t_local t) sh) as [[l' sh'] o]. exact Hw.
  Qed.

  (** The general form: for EVERY schedule (complete or not), thread [i] is exactly where it would
      be after the same number of turns alone, and the shared state is untouched. *)
  Theorem no_shared_writes_prefix : forall sched (p : pool) sh,
    Inv sh -> all_steps (fun _ s => writes_nothing Inv s) p ->
    (forall i, fst (run sched p sh) i = fst (run_alone (turns i sched) (p i) sh)) /\
    snd (run sched p sh) = sh.
  Proof.
    induction sched as [| j rest IH]; intros p sh Hi Hall.
    - split; [intro i |]; reflexivity.
    - cbn [run].
      assert (Hsh : snd (step_thread (p j) sh) = sh)
        by (apply step_thread_keeps_shared; [assumption | intros s Hs; exact (Hall j s Hs)]).
      assert (Hall' := all_steps_turn j sh Hall).
      destruct (step_thread (p j) sh) as [t' sh'] eqn:E. cbn in Hsh, Hall'. subst sh'.
      destruct (IH (upd p j t') sh Hi Hall') as [IHt IHs].
      split; [| exact IHs].
      intro i. rewrite IHt. destruct (Nat.eq_dec j i) as [-> | Hne].
      + rewrite turns_cons_same, upd_same. cbn [run_alone]. now rewrite E.
      + rewrite turns_cons_other by assumption. rewrite upd_other by auto. reflexivity.
  Qed.

  (** The property-shaped corollary: for every interleaving of the whole programs, every thread
      ends with the local state and the outputs of its sequential (alone) run, has nothing left
      to do, and the shared state is unchanged. *)
  Theorem no_shared_writes_commute : forall sched (p : pool) sh,
    Inv sh -> all_steps (fun _ s => writes_nothing Inv s) p -> complete sched p ->
    (forall i, fst (run sched p sh) i = alone_result p sh i /\
               t_todo (fst (run sched p sh) i) = []) /\
    snd (run sched p sh) = sh.
  Proof.
    intros sched p sh Hi Hall Hc.
    destruct (no_shared_writes_prefix sched Hi Hall) as [Ht Hs].
    split; [| exact Hs]. intro i. rewrite Ht. unfold alone_result. rewrite (Hc i).
    split; [reflexivity |]. apply run_alone_finishes. lia.
  Qed.

  (** Any two interleavings of the same programs give every thread the same result. *)
  Corollary schedules_agree : forall s1 s2 (p : pool) sh,
    Inv sh -> all_steps (fun _ s => writes_nothing Inv s) p -> complete s1 p -> complete s2 p ->
    forall i, fst (run s1 p sh) i = fst (run s2 p sh) i.
  Proof.
    intros s1 s2 p sh Hi Hall H1 H2 i.
    destruct (no_shared_writes_commute Hi Hall H1) as [A _].
    destruct (no_shared_writes_commute Hi Hall H2) as [B _].
    destruct (A i) as [-> _]. destruct (B i) as [-> _]. reflexivity.
  Qed.
End NoSharedWrites.

(** * 2. Frame property: steps may write shared cells, but only cells no other thread accesses *)
Section FrameProofs.
  Variables (L C V O : Type).
  Notation store := (store C V).
  Notation thread := (thread L store O).
  Notation pool := (pool L store O).
  Variables (A W : nat -> C -> Prop).

  Lemma agree_refl : forall (X : C -> Prop) (s : store), agree X s s.
  Proof. intros X s c _. reflexivity. Qed.

  Lemma agree_trans : forall (X : C -> Prop) (s1 s2 s3 : store),
    agree X s1 s2 -> agree X s2 s3 -> agree X s1 s3.
  Proof. intros X s1 s2 s3 H1 H2 c Hc. now rewrite (H1 c Hc), (H2 c Hc). Qed.

  (** A turn of thread [i] from two stores that agree on A i: same thread afterwards, and the
      stores still agree on A i. *)
  Lemma step_thread_agree : forall i (t : thread) sh1 sh2,
    (forall s, In s (t_todo t) -> respects (A i) (W i) s) -> agree (A i) sh1 sh2 ->
    fst (step_thread t sh1) = fst (step_thread t sh2) /\
    agree (A i) (snd (step_thread t sh1)) (snd (step_thread t sh2)).
  Proof.
    intros i t sh1 sh2 H Hag. unfold step_thread. destruct (t_todo t) as [| s0 rest] eqn:E.
    - split; [reflexivity | exact Hag].
    - destruct (rs_read (H s0 (or_introl eq_refl)) (t_local t) Hag) as [Hl [Ho Hs]].
      destruct (s0 (t_local t) sh1) as [[l1 s1] o1]. destruct (s0 (t_local t) sh2) as [[l2 s2] o2].
      cbn in *. subst. split; [reflexivity | exact Hs].
  Qed.

  (** A turn of thread [j] changes no cell outside W j. *)
  Lemma step_thread_frame : forall j (t : thread) sh c,
    (forall s, In s (t_todo t) -> respects (A j) (W j) s) -> ~ W j c ->
    snd (step_thread t sh) c = sh c.
  Proof.
    intros j t sh c H Hc. unfold step_thread. destruct (t_todo t) as [| s0 rest] eqn:E; [reflexivity |].
    assert (Hw := rs_write (H s0 (or_introl eq_refl)) (t_local t) sh c Hc).
    destruct (s0 (t_local t) sh) as [[l' sh'] o]. exact Hw.
  Qed.

  Lemma run_alone_agree : forall i n (t : thread) sh1 sh2,
    (forall s, In s (t_todo t) -> respects (A i) (W i) s) -> agree (A i) sh1 sh2 ->
    fst (run_alone n t sh1) = fst (run_alone n t sh2) /\
    agree (A i) (snd (run_alone n t sh1)) (snd (run_alone n t sh2)).
  Proof.
    induction n as [| n IH]; intros t sh1 sh2 H Hag.
    - split; [reflexivity | exact Hag].
    - cbn [run_alone]. destruct (step_thread_agree t H Hag) as [Ht Hs].
      assert (Htodo : forall s, In s (t_todo (fst (step_thread t sh1))) -> respects (A i) (W i) s)
        by (intros s Hs'; apply H; eapply step_thread_todo; eauto).
      destruct (step_thread t sh1) as [t1 s1]. destruct (step_thread t sh2) as [t2 s2].
      cbn in *. subst t2. now apply IH.
  Qed.

  (** For EVERY schedule: thread [i] is exactly where it would be after the same number of turns
      alone, and the shared cells it accesses hold what they would hold after that run alone. *)
  Theorem frame_prefix : separated A W ->
    forall sched (p : pool) sh sh0 i,
    all_steps (fun k s => respects (A k) (W k) s) p -> agree (A i) sh sh0 ->
    fst (run sched p sh) i = fst (run_alone (turns i sched) (p i) sh0) /\
    agree (A i) (snd (run sched p sh)) (snd (run_alone (turns i sched) (p i) sh0)).
  Proof.
    intros Hsep. induction sched as [| j rest IH]; intros p sh sh0 i Hall Hag.
    - split; [reflexivity | exact Hag].
    - cbn [run]. assert (Hall' := all_steps_turn j sh Hall).
      destruct (Nat.eq_dec j i) as [-> | Hne].
      + rewrite turns_cons_same. cbn [run_alone].
        destruct (step_thread_agree (i := i) (p i) (fun s Hs => Hall i s Hs) Hag) as [Ht Hs].
        destruct (step_thread (p i) sh) as [t1 s1]. destruct (step_thread (p i) sh0) as [t2 s2].
        cbn in Ht, Hs, Hall'. subst t2.
        destruct (IH (upd p i t1) s1 s2 i Hall' Hs) as [R1 R2].
        rewrite upd_same in R1, R2. split; assumption.
      + rewrite turns_cons_other by assumption.
        assert (Hfr : agree (A i) (snd (step_thread (p j) sh)) sh).
        { intros c Hc. apply step_thread_frame with (j := j).
          - intros s Hs. exact (Hall j s Hs).
          - intro Hw. exact (Hsep i j c (fun e => Hne (eq_sym e)) Hw Hc). }
        destruct (step_thread (p j) sh) as [t' sh']. cbn in Hfr, Hall'.
        destruct (IH (upd p j t') sh' sh0 i Hall' (agree_trans Hfr Hag)) as [R1 R2].
        rewrite upd_other in R1, R2 by auto. split; assumption.
  Qed.

  (** Cells that nobody may write keep their initial value under every schedule. *)
  Theorem frame_untouched : forall sched (p : pool) sh c,
    all_steps (fun k s => respects (A k) (W k) s) p -> (forall k, ~ W k c) ->
    snd (run sched p sh) c = sh c.
  Proof.
    induction sched as [| j rest IH]; intros p sh c Hall Hc; [reflexivity |].
    cbn [run]. assert (Hall' := all_steps_turn j sh Hall).
    assert (Hfr : snd (step_thread (p j) sh) c = sh c)
      by (apply step_thread_frame with (j := j); [intros s Hs; exact (Hall j s Hs) | apply Hc]).
    destruct (step_thread (p j) sh) as [t' sh']. cbn in Hfr, Hall'.
    rewrite (IH (upd p j t') sh' c Hall' Hc). exact Hfr.
  Qed.

  (** Property-shaped: complete schedules. *)
  Theorem frame_noninterference : separated A W ->
    forall sched (p : pool) sh,
    all_steps (fun k s => respects (A k) (W k) s) p -> complete sched p ->
    forall i,
      fst (run sched p sh) i = alone_result p sh i /\
      t_todo (fst (run sched p sh) i) = [] /\
      agree (A i) (snd (run sched p sh)) (snd (run_alone (length (t_todo (p i))) (p i) sh)).
  Proof.
    intros Hsep sched p sh Hall Hc i.
    destruct (@frame_prefix Hsep sched p sh sh i Hall (agree_refl (A i) sh)) as [R1 R2].
    rewrite (Hc i) in R1, R2. unfold alone_result. rewrite R1.
    split; [reflexivity |]. split; [| exact R2]. apply run_alone_finishes. lia.
  Qed.
End FrameProofs.

(** * 3. Shared state = the named cells of a footprint; empty footprint ==> no interference *)
Section CellsProofs.
  Variables (L V O : Type).
  Notation pool := (pool L (cell_store V) O).

  Lemma has_domain_nil : forall (st : cell_store V), has_domain [] st -> st = [].
  Proof. intros st H. unfold has_domain in H. destruct st; [reflexivity | discriminate]. Qed.

  Lemma confined_nil_writes_nothing : forall (s : step L (cell_store V) O),
    confined [] s -> writes_nothing (has_domain []) s.
  Proof.
    intros s Hc l sh Hd. assert (H := Hc l sh Hd).
    apply has_domain_nil in H. apply has_domain_nil in Hd. congruence.
  Qed.

  (** If the footprint list is empty, every pool of threads whose steps are confined to the
      footprint behaves, under every interleaving, as each thread alone. *)
  Theorem empty_footprint_noninterference : forall cells, cells = [] ->
    forall sched (p : pool) sh,
    has_domain cells sh -> all_steps (fun _ s => confined cells s) p -> complete sched p ->
    (forall i, fst (run sched p sh) i = alone_result p sh i /\
               t_todo (fst (run sched p sh) i) = []) /\
    snd (run sched p sh) = sh.
  Proof.
    intros cells -> sched p sh Hd Hall Hc.
    apply no_shared_writes_commute with (Inv := has_domain (V := V) []); try assumption.
    intros i s Hin. apply confined_nil_writes_nothing. exact (Hall i s Hin).
  Qed.
End CellsProofs.

(** * 4. Tightness: the emptiness hypothesis is necessary.
    With ANY non-empty footprint there are two one-step threads, confined to it, and a complete
    schedule under which a thread's result differs from its run alone (the classic shared counter:
    under schedule [1;0] thread 0 reads 1, alone it reads 0). *)
Lemma bump_confined : forall cells, confined cells bump_step.
Proof.
  intros cells l sh Hd. unfold bump_step. destruct sh as [| [k v] r]; cbn in *; exact Hd.
Qed.

Theorem nonempty_footprint_can_interfere : forall c rest,
  let cells := c :: rest in
  has_domain cells (zero_store cells) /\
  all_steps (fun _ s => confined cells s) bump_pool /\
  complete [1; 0] bump_pool /\
  fst (run [1; 0] bump_pool (zero_store cells)) 0 <> alone_result bump_pool (zero_store cells) 0.
Proof.
  intros c rest cells. repeat split.
  - unfold has_domain, zero_store. rewrite map_map. cbn. now rewrite map_id.
  - intros i s Hin. destruct i as [| [| i]]; cbn in Hin; try contradiction;
      destruct Hin as [<- | []]; apply bump_confined.
  - intro i. destruct i as [| [| i]]; reflexivity.
  - cbn. discriminate.
Qed.

(** * 5. Concrete instances (non-vacuity of the hypotheses; used as Examples in Properties_C19.v) *)

(** Three threads that READ a shared value (a constant table, say) and never write it. *)
Definition ro_step : step nat nat nat := fun l sh => (l + sh, sh, l).
Definition ro_pool : pool nat nat nat :=
  fun i => match i with
           | 0 => mkThread 1 [ro_step; ro_step] []
           | 1 => mkThread 10 [ro_step] []
           | 2 => mkThread 100 [ro_step; ro_step; ro_step] []
           | _ => mkThread 0 [] []
           end.
Definition ro_sched : list nat := [2; 0; 1; 2; 0; 2].

Lemma ro_example :
  all_steps (fun _ s => writes_nothing (fun _ => True) s) ro_pool /\
  complete ro_sched ro_pool /\
  t_local (fst (run ro_sched ro_pool 7) 2) = 121 /\
  t_out (fst (run ro_sched ro_pool 7) 0) = [8; 1] /\
  t_out (alone_result ro_pool 7 0) = [8; 1].
Proof.
  split.
  { intros i s Hin l sh _. destruct i as [| [| [| i]]]; cbn in Hin;
      repeat (destruct Hin as [<- | Hin]; [reflexivity |]); contradiction. }
  split.
  { intro i. destruct i as [| [| [| i]]]; reflexivity. }
  repeat split.
Qed.

(** Two threads that each WRITE a shared cell of their own (cell [i] for thread [i]) and read it
    back: the frame theorem applies, the no-write theorem does not. *)
Definition own_step (i : nat) : step nat (store nat nat) nat :=
  fun l sh => (sh i, fun c => if Nat.eqb c i then S (sh c) else sh c, sh i).
Definition own_pool : pool nat (store nat nat) nat :=
  fun i => match i with
           | 0 => mkThread 0 [own_step 0; own_step 0] []
           | 1 => mkThread 0 [own_step 1] []
           | _ => mkThread 0 [] []
           end.
Definition own_A (i c : nat) : Prop := c = i.

Lemma own_step_respects : forall i, respects (own_A i) (own_A i) (own_step i).
Proof.
  intro i. split; unfold own_step, own_A; cbn.
  - intros l sh c Hc. destruct (Nat.eqb_spec c i); [contradiction | reflexivity].
  - intros l sh1 sh2 Hag. assert (E : sh1 i = sh2 i) by (apply Hag; reflexivity).
    rewrite E. repeat split. intros c ->. rewrite Nat.eqb_refl. now rewrite E.
Qed.

Lemma own_example :
  separated own_A own_A /\
  all_steps (fun k s => respects (own_A k) (own_A k) s) own_pool /\
  complete [0; 1; 0] own_pool /\
  t_out (fst (run [0; 1; 0] own_pool (fun _ => 5)) 0) = [6; 5] /\
  snd (run [0; 1; 0] own_pool (fun _ => 5)) 0 = 7 /\
  snd (run [0; 1; 0] own_pool (fun _ => 5)) 1 = 6.
Proof.
  split; [intros i j c Hne Hw Ha; unfold own_A in *; congruence |].
  split.
  { intros i s Hin. destruct i as [| [| i]]; cbn in Hin;
      repeat (destruct Hin as [<- | Hin]; [apply own_step_respects |]); contradiction. }
  split.
  { intro i. destruct i as [| [| i]]; reflexivity. }
  repeat split.
Qed.
