From Coq Require Import ZifyBool.
From Draco Require Import Base.Codec Base.Bits Gen.Constants Model.Ans.
Local Open Scope Z_scope.

(** * fastdiv is exact division for divisors 1..255 and x < 2^31 *)

Lemma fd_general M s y x : 0 <= s -> 0 < y < 2 ^ 31 -> 0 <= M < 2 ^ 32 ->
  0 <= (M + 2 ^ 32) * y - 2 ^ (32 + s) <= y -> 0 <= x < 2 ^ 31 ->
  Z.shiftr (u32 (u32 (Z.shiftr (x * M) 32) + x)) s = x / y.
Proof.
  intros Hs Hy HM He Hx.
  set (K := M + 2 ^ 32) in *.
  assert (HK: 2 ^ 32 <= K < 2 ^ 33) by (unfold K; change (2^33) with (2 * 2^32); lia).
  assert (Ht: u32 (Z.shiftr (x * M) 32) = x * M / 2 ^ 32).
  { unfold u32. rewrite Z.shiftr_div_pow2 by lia. apply Z.mod_small.
    split; [apply Z.div_pos; nia|]. apply Z.div_lt_upper_bound; [lia|]. nia. }
  rewrite Ht.
  assert (Hsum: x * M / 2 ^ 32 + x = x * K / 2 ^ 32).
  { unfold K. replace (x * (M + 2 ^ 32)) with (x * M + x * 2 ^ 32) by ring.
    rewrite Z.div_add by lia. reflexivity. }
  rewrite Hsum.
  assert (Hlt: 0 <= x * K / 2 ^ 32 < 2 ^ 32).
  { split; [apply Z.div_pos; nia|]. apply Z.div_lt_upper_bound; [lia|].
    change (2^32 * 2^32) with (2^31 * 2^33). nia. }
  unfold u32. rewrite (Z.mod_small _ _ Hlt).
  rewrite Z.shiftr_div_pow2 by lia. rewrite Z.div_div by (try apply Z.pow_pos_nonneg; lia).
  rewrite <- Z.pow_add_r by lia.
  set (E := K * y - 2 ^ (32 + s)) in *.
  assert (HP: 0 < 2 ^ (32 + s)) by (apply Z.pow_pos_nonneg; lia).
  pose proof (Z.div_mod x y ltac:(lia)) as Hdm.
  pose proof (Z.mod_pos_bound x y ltac:(lia)) as Hr.
  set (q := x / y) in *. set (r := x mod y) in *.
  assert (Hq: 0 <= q) by (apply Z.div_pos; lia).
  symmetry. apply Z.div_unique with (r := q * E + r * K).
  - left. split; [nia|].
    (* q*E + r*K <= q*E + (y-1)*K = q*E + 2^(32+s) + E - K, and (q+1)*E < K *)
    assert (H1: r * K <= (y - 1) * K) by nia.
    assert (H2: (q + 1) * E < K).
    { apply Z.le_lt_trans with ((q + 1) * y); [nia|]. change (2^32) with (2^31 + 2^31) in HK. nia. }
    unfold E in *. nia.
  - unfold E. rewrite Hdm. ring.
Qed.

Lemma fd_pow2 s x : 0 <= s -> 0 <= x < 2 ^ 31 ->
  Z.shiftr (u32 (u32 (Z.shiftr (x * 0) 32) + x)) s = x / 2 ^ s.
Proof.
  intros Hs Hx. rewrite Z.mul_0_r. cbn [Z.shiftr Z.shiftl]. unfold u32.
  rewrite (Z.mod_small 0) by lia. rewrite Z.add_0_l.
  rewrite Z.mod_small by (change (2^32) with (2 * 2^31); lia).
  apply Z.shiftr_div_pow2; lia.
Qed.

Definition fd_entry_ok (y : Z) : bool :=
  let '(M, s) := nth (Z.to_nat y) vp10_fastdiv_tab (0, 0) in
  (0 <=? s) &&
  (((M =? 0) && (y =? 2 ^ s)) ||
   ((0 <=? M) && (M <? 2 ^ 32) &&
    (0 <=? (M + 2 ^ 32) * y - 2 ^ (32 + s)) && ((M + 2 ^ 32) * y - 2 ^ (32 + s) <=? y))).

(** The finite part: all 255 entries of the generated table satisfy the Granlund–Montgomery condition. *)
Lemma fd_table_ok : forallb (fun k => fd_entry_ok (Z.of_nat k + 1)) (seq 0 255) = true.
Proof. vm_compute. reflexivity. Qed.

Theorem fastdiv_correct y x : 1 <= y <= 255 -> 0 <= x < 2 ^ 31 -> fastdiv x y = x / y.
Proof.
  intros Hy Hx.
  assert (Hok: fd_entry_ok y = true).
  { pose proof fd_table_ok as H. rewrite forallb_forall in H.
    specialize (H (Z.to_nat (y - 1))). replace (Z.of_nat (Z.to_nat (y - 1)) + 1) with y in H by lia.
    apply H. apply in_seq. lia. }
  unfold fd_entry_ok in Hok. unfold fastdiv.
  destruct (nth (Z.to_nat y) vp10_fastdiv_tab (0, 0)) as [M s].
  apply andb_prop in Hok. destruct Hok as [Hs Hok].
  apply orb_prop in Hok. destruct Hok as [Hok|Hok].
  - apply andb_prop in Hok. destruct Hok as [HM Hy2].
    assert (M = 0) by lia. assert (y = 2 ^ s) by lia. subst M. subst y.
    apply fd_pow2; lia.
  - repeat (apply andb_prop in Hok; destruct Hok as [Hok ?]).
    apply fd_general; lia.
Qed.

(** * One rABS step: the decoder undoes the encoder *)

Lemma consts : ansL = 4096 /\ ansIO = 256 /\ ansP = 256.
Proof. repeat split; reflexivity. Qed.

Lemma divmod_256 q r : 0 <= r < 256 -> (q * 256 + r) / 256 = q /\ (q * 256 + r) mod 256 = r.
Proof.
  intros Hr. split.
  - symmetry. apply Z.div_unique with (r := r); lia.
  - symmetry. apply Z.mod_unique with (q := q); lia.
Qed.

Lemma rabs_step X v p0 : 1 <= p0 <= 255 -> ansL <= X < ansL * ansIO ->
  let '(o, X') := rabs_write X v p0 in
  ansL <= X' < ansL * ansIO /\ (length o <= 1)%nat /\ Forall is_byte o /\
  exists x1, rabs_read_core X' p0 = (v, x1) /\ forall S, renorm x1 (rev o ++ S) = (X, S).
Proof.
  destruct consts as (HL & HIO & HP). rewrite HL, HIO. intros Hp0 HX.
  unfold rabs_write, rabs_read_core, renorm. rewrite HL, HIO, HP.
  change (4096 / 256 * 256) with 4096.
  set (p := (256 - p0) mod 256).
  assert (Hp: p = 256 - p0) by (unfold p; apply Z.mod_small; lia).
  set (l_s := if v then p else p0).
  assert (Hls: 1 <= l_s <= 255) by (unfold l_s; destruct v; lia).
  (* the renormalised encoder state x1 and what was emitted *)
  assert (Hx1: exists o x1, (if X >=? 4096 * l_s then ([X mod 256], X / 256) else ([], X)) = (o, x1) /\
                 16 * l_s <= x1 < 4096 * l_s /\ (length o <= 1)%nat /\ Forall is_byte o /\
                 forall S, (if x1 <? 4096 then match rev o ++ S with
                                              | b :: r => (u32 (x1 * 256 + b), r)
                                              | [] => (x1, rev o ++ S) end
                            else (x1, rev o ++ S)) = (X, S)).
  { destruct (X >=? 4096 * l_s) eqn:E.
    - exists [X mod 256], (X / 256). split; [reflexivity|].
      pose proof (Z.div_mod X 256 ltac:(lia)) as Hdm. pose proof (Z.mod_pos_bound X 256 ltac:(lia)) as Hm.
      assert (Hq: 16 * l_s <= X / 256 < 4096).
      { split; [apply Z.div_le_lower_bound; lia | apply Z.div_lt_upper_bound; lia]. }
      split; [lia|]. split; [cbn; lia|]. split; [constructor; [exact Hm|constructor]|].
      intros S. replace (X / 256 <? 4096) with true by lia. cbn [rev app].
      unfold u32. rewrite Z.mod_small by (change (2^32) with 4294967296; lia).
      f_equal. lia.
    - exists [], X. split; [reflexivity|]. split; [lia|]. split; [cbn; lia|]. split; [constructor|].
      intros S. replace (X <? 4096) with false by lia. reflexivity. }
  destruct Hx1 as (o & x1 & Heq & Hx1 & Hlen & Hby & Hren). rewrite Heq.
  rewrite fastdiv_correct by (change (2^31) with 2147483648; lia).
  pose proof (Z.div_mod x1 l_s ltac:(lia)) as Hdm. pose proof (Z.mod_pos_bound x1 l_s ltac:(lia)) as Hm.
  assert (Hq: 16 <= x1 / l_s < 4096).
  { split; [apply Z.div_le_lower_bound; lia | apply Z.div_lt_upper_bound; lia]. }
  set (q := x1 / l_s) in *. set (r := x1 mod l_s) in *.
  assert (Hrem: u32 (x1 - q * l_s) = r).
  { unfold u32. replace (x1 - q * l_s) with r by lia. apply Z.mod_small. change (2^32) with 4294967296; lia. }
  rewrite Hrem.
  destruct v; unfold l_s in *.
  - (* val = 1, l_s = p *)
    rewrite Z.add_0_r.
    assert (HX': u32 (q * 256 + r) = q * 256 + r).
    { unfold u32. apply Z.mod_small. change (2^32) with 4294967296; lia. }
    rewrite HX'. destruct (divmod_256 q r ltac:(lia)) as [Hd Hmo]. rewrite Hd, Hmo.
    split; [lia|]. split; [exact Hlen|]. split; [exact Hby|].
    exists x1. split.
    + replace (r <? p) with true by lia. f_equal.
      unfold u32. rewrite (Z.mod_small (q * p)) by (change (2^32) with 4294967296; nia).
      rewrite Z.mod_small by (change (2^32) with 4294967296; nia). lia.
    + exact Hren.
  - (* val = 0, l_s = p0 *)
    assert (HX': u32 (q * 256 + r + p) = q * 256 + (r + p)).
    { unfold u32. rewrite Z.mod_small by (change (2^32) with 4294967296; lia). lia. }
    rewrite HX'. destruct (divmod_256 q (r + p) ltac:(lia)) as [Hd Hmo]. rewrite Hd, Hmo.
    split; [lia|]. split; [exact Hlen|]. split; [exact Hby|].
    exists x1. split.
    + replace (r + p <? p) with false by lia. f_equal.
      unfold u32. rewrite (Z.mod_small (q * p)) by (change (2^32) with 4294967296; nia).
      rewrite Z.mod_small by (change (2^32) with 4294967296; nia). nia.
    + exact Hren.
Qed.

(** * Whole sequences *)

Definition probs_ok (syms : list (bool * Z)) : Prop := Forall (fun s => 1 <= snd s <= 255) syms.

Lemma rabs_read_renorm x stk p0 x1 s1 : renorm x stk = (x1, s1) -> ansL <= x1 ->
  rabs_read x stk p0 = rabs_read x1 s1 p0.
Proof.
  intros H Hx1. unfold rabs_read. rewrite H.
  assert (Hr: renorm x1 s1 = (x1, s1)).
  { unfold renorm. replace (x1 <? ansL) with false by lia. reflexivity. }
  rewrite Hr. reflexivity.
Qed.

Lemma rabs_sequence syms : probs_ok syms ->
  let '(X, out) := rabs_encode syms in
  ansL <= X < ansL * ansIO /\ Forall is_byte out /\ (length out <= length syms)%nat /\
  forall x stk0 stk, renorm x stk0 = (X, rev out ++ stk) ->
    exists x' s', rabs_decode (map snd syms) x stk0 = (map fst syms, x', s') /\ renorm x' s' = (ansL, stk).
Proof.
  induction syms as [|[v p0] r IH]; intros Hok; cbn [rabs_encode].
  - destruct consts as (HL & HIO & _). split; [rewrite HL, HIO; lia|]. split; [constructor|]. split; [cbn; lia|].
    intros x stk0 stk H. cbn [rev app map rabs_decode] in *. exists x, stk0. split; [reflexivity|exact H].
  - inversion Hok as [|? ? Hp Hok']; subst. cbn [snd] in Hp. specialize (IH Hok').
    destruct (rabs_encode r) as [X out]. destruct IH as (HX & Hby & Hlen & IH).
    pose proof (rabs_step X v p0 Hp HX) as Hstep.
    destruct (rabs_write X v p0) as [o X']. destruct Hstep as (HX' & Hlo & Hbo & x1 & Hcore & Hren).
    split; [exact HX'|]. split; [apply Forall_app; split; assumption|].
    split; [rewrite app_length; cbn [length]; lia|].
    intros x stk0 stk H. cbn [map fst snd rabs_decode].
    rewrite (rabs_read_renorm x stk0 p0 _ _ H) by lia.
    unfold rabs_read.
    assert (Hr: renorm X' (rev (out ++ o) ++ stk) = (X', rev (out ++ o) ++ stk)).
    { unfold renorm. replace (X' <? ansL) with false by lia. reflexivity. }
    rewrite Hr, Hcore.
    rewrite rev_app_distr, <- app_assoc.
    destruct (IH x1 (rev o ++ rev out ++ stk) stk (Hren _)) as (x' & s' & Hdec & Hfin).
    rewrite Hdec. exists x', s'. split; [reflexivity|exact Hfin].
Qed.

Lemma tail_roundtrip X : ansL <= X < ansL * ansIO ->
  exists tail, ans_write_end X = Some tail /\ Forall is_byte tail /\ (1 <= length tail <= 3)%nat /\
    forall R, ans_read_init (rev tail ++ R) = Some (X, R).
Proof.
  destruct consts as (HL & HIO & _). rewrite HL, HIO. intros HX.
  unfold ans_write_end, ans_read_init. rewrite HL, HIO.
  assert (Hst: u32 (X - 4096) = X - 4096).
  { unfold u32. apply Z.mod_small. change (2^32) with 4294967296. lia. }
  rewrite Hst. set (st := X - 4096) in *.
  assert (Hstr: 0 <= st < 1044480) by (unfold st; lia).
  change (2^6) with 64. change (2^14) with 16384. change (2^22) with 4194304.
  destruct (st <? 64) eqn:E1.
  - eexists; split; [reflexivity|]. split; [repeat constructor; unfold is_byte; lia|]. split; [cbn; lia|].
    intros R. cbn [rev app].
    rewrite Z.div_small by lia. cbn [Z.eqb].
    change 63 with (2^6 - 1). rewrite land_ones_mod by lia. change (2^6) with 64.
    rewrite Z.mod_small by lia.
    replace (st + 4096 >=? 4096 * 256) with false by lia. f_equal. f_equal. unfold st. lia.
  - destruct (st <? 16384) eqn:E2.
    + set (v := 16384 + st).
      pose proof (Z.div_mod v 256 ltac:(lia)) as Hdm. pose proof (Z.mod_pos_bound v 256 ltac:(lia)) as Hm.
      assert (Hq: 64 <= v / 256 < 128).
      { unfold v. split; [apply Z.div_le_lower_bound; lia | apply Z.div_lt_upper_bound; lia]. }
      eexists; split; [reflexivity|].
      split; [repeat constructor; unfold is_byte; try apply Z.mod_pos_bound; lia|]. split; [cbn; lia|].
      intros R. cbn [rev app].
      rewrite (Z.mod_small (v / 256)) by lia.
      assert (Htag: v / 256 / 64 = 1).
      { symmetry. apply Z.div_unique with (r := v / 256 - 64); lia. }
      rewrite Htag. cbn [Z.eqb Pos.eqb].
      replace (v / 256 * 256 + v mod 256) with v by lia.
      change 16383 with (2^14 - 1). rewrite land_ones_mod by lia. change (2^14) with 16384.
      replace (v mod 16384) with st.
      2:{ unfold v. replace (16384 + st) with (st + 1 * 16384) by lia. rewrite Z.mod_add by lia.
          symmetry. apply Z.mod_small. lia. }
      replace (st + 4096 >=? 4096 * 256) with false by lia. f_equal. f_equal. unfold st. lia.
    + replace (st <? 4194304) with true by lia.
      set (v := 2 * 4194304 + st).
      pose proof (Z.div_mod v 256 ltac:(lia)) as Hdm. pose proof (Z.mod_pos_bound v 256 ltac:(lia)) as Hm.
      pose proof (Z.div_mod (v / 256) 256 ltac:(lia)) as Hdm2. pose proof (Z.mod_pos_bound (v / 256) 256 ltac:(lia)) as Hm2.
      assert (Hv: 8388608 <= v < 8388608 + 1044480) by (unfold v; lia).
      assert (Hq2: v / 65536 = v / 256 / 256) by (rewrite Z.div_div by lia; reflexivity).
      assert (Hq: 128 <= v / 65536 < 192).
      { split; [apply Z.div_le_lower_bound; lia | apply Z.div_lt_upper_bound; lia]. }
      eexists; split; [reflexivity|].
      split; [repeat constructor; unfold is_byte; try apply Z.mod_pos_bound; lia|]. split; [cbn; lia|].
      intros R. cbn [rev app].
      rewrite (Z.mod_small (v / 65536)) by lia.
      assert (Htag: v / 65536 / 64 = 2).
      { symmetry. apply Z.div_unique with (r := v / 65536 - 128); lia. }
      rewrite Htag. cbn [Z.eqb Pos.eqb].
      replace (v / 65536 * 65536 + (v / 256) mod 256 * 256 + v mod 256) with v by lia.
      change 4194303 with (2^22 - 1). rewrite land_ones_mod by lia. change (2^22) with 4194304.
      replace (v mod 4194304) with st.
      2:{ unfold v. replace (2 * 4194304 + st) with (st + 2 * 4194304) by lia. rewrite Z.mod_add by lia.
          symmetry. apply Z.mod_small. lia. }
      replace (st + 4096 >=? 4096 * 256) with false by lia. f_equal. f_equal. unfold st. lia.
Qed.

(** The rABS block: tail parsing + every bit, for every per-bit probability sequence in 1..255.
    After the last bit the decoder is back at the encoder's initial state with nothing left to read
    from the block; it never reads outside the block. *)
Theorem rabs_block_roundtrip syms : probs_ok syms ->
  exists blk, rabs_block syms = Some blk /\ Forall is_byte blk /\ (length blk <= length syms + 3)%nat /\
    exists x0 stk0, ans_read_init (rev blk) = Some (x0, stk0) /\
      exists x' s', rabs_decode (map snd syms) x0 stk0 = (map fst syms, x', s') /\ renorm x' s' = (ansL, []).
Proof.
  intros Hok. pose proof (rabs_sequence syms Hok) as H. unfold rabs_block.
  destruct (rabs_encode syms) as [X out]. destruct H as (HX & Hby & Hlen & Hdec).
  destruct (tail_roundtrip X HX) as (tail & Ht & Htb & Htl & Hinit). rewrite Ht.
  eexists; split; [reflexivity|]. split; [apply Forall_app; split; assumption|].
  split; [rewrite app_length; lia|].
  exists X, (rev out). split; [rewrite rev_app_distr; apply Hinit|].
  apply (Hdec X (rev out) []).
  - unfold renorm. replace (X <? ansL) with false by lia. rewrite app_nil_r. reflexivity.
Qed.
