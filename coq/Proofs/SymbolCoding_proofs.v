(** Proofs about Model/SymbolCoding.v: frequencies, the precision grid, the raw scheme, the bit-sequence mode on
    bit lists, the tagged scheme, and EncodeSymbols / DecodeSymbols. *)
From Coq Require Import ZifyBool FMapPositive.
From Draco Require Import Base.Codec Base.Bits Model.Varint Proofs.Varint_proofs Model.RansSymbol Proofs.RansSymbol_proofs
  Model.RansFloat Model.SymbolCoding.
Local Open Scope Z_scope.
Arguments Z.add : simpl never. Arguments Z.mul : simpl never. Arguments Z.pow : simpl never.
Arguments Z.div : simpl never. Arguments Z.modulo : simpl never. Arguments Z.sub : simpl never.


(** * Frequencies *)
Lemma arr_count_set a i j c : 0 <= i -> 0 <= j -> arr_count (arr_set a i c) j = if j =? i then c else arr_count a j.
Proof.
  intros. unfold arr_count. destruct (j =? i) eqn:E.
  - assert (j = i) by lia. subst. rewrite arr_gss by lia. reflexivity.
  - rewrite arr_gso by lia. reflexivity.
Qed.

Lemma count_syms_ge : forall l a s, (forall x, In x l -> 0 <= x) -> 0 <= s ->
  arr_count a s <= arr_count (count_syms l a) s /\ (In s l -> arr_count a s + 1 <= arr_count (count_syms l a) s).
Proof.
  induction l as [|x r IH]; intros a s Hl Hs; cbn [count_syms].
  - split; [lia|]. intros [].
  - assert (Hx : 0 <= x) by (apply Hl; left; reflexivity).
    destruct (IH (arr_set a x (1 + arr_count a x)) s (fun y Hy => Hl y (or_intror Hy)) Hs) as (H1 & H2).
    rewrite arr_count_set in H1, H2 by lia. destruct (s =? x) eqn:E.
    + assert (s = x) by lia. subst. split; [lia|]. intros _. lia.
    + split; [lia|]. intros [Hin|Hin]; [lia|]. specialize (H2 Hin). lia.
Qed.

Lemma arr_count_empty s : arr_count (PositiveMap.empty Z) s = 0.
Proof. unfold arr_count. rewrite arr_get_empty. reflexivity. Qed.

Lemma dense_nth : forall n a i k, (k < n)%nat -> nth_error (dense a i n) k = Some (arr_count a (i + Z.of_nat k)).
Proof.
  induction n as [|n IH]; intros a i k Hk; [lia|]. cbn [dense]. destruct k as [|k]; cbn [nth_error].
  - do 2 f_equal. lia.
  - rewrite IH by lia. do 2 f_equal. lia.
Qed.
Lemma dense_length : forall n a i, length (dense a i n) = n.
Proof. induction n; intros; cbn [dense length]; [reflexivity|]. rewrite IHn. reflexivity. Qed.

Lemma zmax_list_ge l s : In s l -> s <= zmax_list l.
Proof. induction l as [|x r IH]; intros []; cbn [zmax_list]; [subst; lia|]. specialize (IH H). lia. Qed.
Lemma zmax_list_nonneg l : 0 <= zmax_list l.
Proof. induction l; cbn [zmax_list]; lia. Qed.
Lemma zmax_list_bound l b : 0 < b -> (forall s, In s l -> s < b) -> zmax_list l < b.
Proof. intros Hb. induction l as [|x r IH]; intros H; cbn [zmax_list]; [lia|]. pose proof (H x (or_introl eq_refl)). assert (zmax_list r < b) by (apply IH; intros; apply H; right; assumption). lia. Qed.

(** * trim_freqs keeps every non-zero entry at its index *)
Lemma drop_zeros_split : forall m, exists k, m = repeat 0 k ++ drop_zeros m.
Proof.
  induction m as [|x r (k & IH)]; [exists 0%nat; reflexivity|]. cbn [drop_zeros].
  destruct (x =? 0) eqn:E; [|exists 0%nat; reflexivity].
  assert (x = 0) by lia. subst. exists (S k). cbn [repeat app]. f_equal. exact IH.
Qed.

Lemma trim_freqs_split l : exists k, l = rev (drop_zeros (rev l)) ++ repeat 0 k.
Proof.
  destruct (drop_zeros_split (rev l)) as (k & H). exists k.
  rewrite <- (rev_involutive l) at 1. rewrite H at 1. rewrite rev_app_distr, rev_repeat. reflexivity.
Qed.

Lemma trim_freqs_nth l i f : nth_error l i = Some f -> f <> 0 -> nth_error (trim_freqs l) i = Some f.
Proof.
  intros Hn Hf. unfold trim_freqs. rewrite !rev'_rev.
  destruct (trim_freqs_split l) as (k & Hs). set (t := rev (drop_zeros (rev l))) in *.
  assert (Hi : (i < length t)%nat).
  { destruct (Nat.lt_ge_cases i (length t)) as [|Hge]; [assumption|].
    rewrite Hs in Hn. rewrite nth_error_app2 in Hn by lia. apply nth_error_In in Hn. apply repeat_spec in Hn. congruence. }
  rewrite Hs in Hn. rewrite nth_error_app1 in Hn by lia.
  destruct t; [cbn in Hi; lia|exact Hn].
Qed.

Lemma trim_freqs_nonempty l : l <> [] -> trim_freqs l <> [].
Proof.
  intros Hl. unfold trim_freqs. destruct (rev' (drop_zeros (rev' l))); [|discriminate].
  destruct l; [congruence|discriminate].
Qed.
Lemma trim_freqs_length l : (length (trim_freqs l) <= length l)%nat.
Proof.
  unfold trim_freqs. rewrite !rev'_rev. destruct (trim_freqs_split l) as (k & Hs).
  set (t := rev (drop_zeros (rev l))) in *. apply (f_equal (@length Z)) in Hs. rewrite app_length, repeat_length in Hs.
  destruct t eqn:Et.
  - rewrite firstn_length. lia.
  - lia.
Qed.

(** * The precision always leaves room (finite sweep: 18 bit lengths, levels 0..10) *)
Lemma precision_range b : 12 <= rans_precision_bits b <= 20.
Proof. unfold rans_precision_bits. destruct (3 * b / 2 <? 12) eqn:E1; [lia|]. destruct (3 * b / 2 >? 20) eqn:E2; lia. Qed.

Lemma raw_bit_length_range nu lvl : 1 <= raw_bit_length nu lvl <= 18.
Proof. unfold raw_bit_length. lia. Qed.

Definition precision_grid_ok : bool :=
  forallb (fun b => forallb (fun lvl =>
     let nu := 2 ^ b - 1 in   (* the largest number of unique symbols of bit length b *)
     4 * 2 ^ b <=? 2 ^ (rans_precision_bits (raw_bit_length nu lvl)))
     (map Z.of_nat (seq 0 11))) (map Z.of_nat (seq 1 18)).
Lemma precision_grid : precision_grid_ok = true. Proof. vm_compute. reflexivity. Qed.

Lemma precision_sufficient : forall b lvl nu, 1 <= b <= 18 -> 0 <= lvl <= 10 -> 2 ^ (b - 1) <= nu < 2 ^ b ->
  4 * nu < 2 ^ (rans_precision_bits (raw_bit_length nu lvl)).
Proof.
  intros b lvl nu Hb Hl Hnu.
  assert (Hlog : Z.log2 nu = b - 1).
  { apply Z.log2_unique; [lia|]. replace (Z.succ (b - 1)) with b by lia. exact Hnu. }
  assert (Hpb : 2 ^ b = 2 * 2 ^ (b - 1)).
  { replace b with ((b - 1) + 1) at 1 by lia. rewrite Z.pow_add_r by lia. lia. }
  pose proof (pow2_pos (b - 1) ltac:(lia)) as Hpp.
  assert (Hlog' : Z.log2 (2 ^ b - 1) = b - 1).
  { apply Z.log2_unique; [lia|]. replace (Z.succ (b - 1)) with b by lia. lia. }
  assert (Heq : raw_bit_length nu lvl = raw_bit_length (2 ^ b - 1) lvl).
  { unfold raw_bit_length.
    assert (0 <? nu = true) as -> by lia.
    assert (0 <? 2 ^ b - 1 = true) as -> by lia.
    rewrite Hlog, Hlog'. reflexivity. }
  rewrite Heq.
  pose proof precision_grid as G. unfold precision_grid_ok in G. rewrite forallb_forall in G.
  assert (Hin : In b (map Z.of_nat (seq 1 18))).
  { apply in_map_iff. exists (Z.to_nat b). split; [lia|]. apply in_seq. lia. }
  specialize (G b Hin). rewrite forallb_forall in G.
  assert (Hin2 : In lvl (map Z.of_nat (seq 0 11))).
  { apply in_map_iff. exists (Z.to_nat lvl). split; [lia|]. apply in_seq. lia. }
  specialize (G lvl Hin2). cbv zeta in G. lia.
Qed.


(** RAnsSymbolEncoder<N> on the histogram of what it encodes, decoded by RAnsSymbolDecoder<N>. *)
Lemma rans_symbol_table P n syms bs :
  12 <= P <= 20 -> (forall s, In s syms -> 0 <= s < Z.of_nat n) -> Z.of_nat n + 64 < 2 ^ 32 -> (0 < n)%nat ->
  rans_symbol_encode P (dense (count_syms syms (PositiveMap.empty Z)) 0 n) syms = Some bs ->
  exists probs, table_ok P probs /\ (forall s, In s syms -> sym_used probs s) /\ rans_encode_with P probs syms = Some bs.
Proof.
  intros HP Hs Hn Hn0 He. unfold rans_symbol_encode in He.
  set (cnt := count_syms syms (PositiveMap.empty Z)) in *. set (freqs := dense cnt 0 n) in *.
  destruct (create_f64 P freqs) as [probs| | |] eqn:Ec; try discriminate.
  unfold create_f64 in Ec. apply create_table_valid in Ec as (Hsum & Hl & Hnn & Hused).
  exists probs. split; [|split; [|exact He]].
  - assert (Hfl : length freqs = n) by apply dense_length.
    pose proof (trim_freqs_length freqs).
    assert (trim_freqs freqs <> []) by (apply trim_freqs_nonempty; destruct freqs; [cbn in Hfl; lia|discriminate]).
    repeat split; try assumption.
    + destruct probs; [|discriminate]. destruct (trim_freqs freqs); [congruence|discriminate].
    + unfold zlen. lia.
  - intros s Hin. destruct (Hs s Hin) as (Hs0 & Hsn). split; [exact Hs0|].
    assert (Hc : 1 <= arr_count cnt s).
    { destruct (count_syms_ge syms (PositiveMap.empty Z) s (fun x Hx => proj1 (Hs x Hx)) Hs0) as (_ & H2).
      specialize (H2 Hin). rewrite arr_count_empty in H2. exact H2. }
    assert (Hd : nth_error freqs (Z.to_nat s) = Some (arr_count cnt s)).
    { unfold freqs. rewrite dense_nth by lia. do 2 f_equal. lia. }
    apply trim_freqs_nth in Hd; [|lia].
    destruct (Hused _ _ Hd ltac:(lia)) as (p & Hp & Hp1). exists p. split; assumption.
Qed.

Lemma rans_symbol_roundtrip P n syms bs rest pre :
  12 <= P <= 20 -> (forall s, In s syms -> 0 <= s < Z.of_nat n) -> Z.of_nat n + 64 < 2 ^ 32 -> (0 < n)%nat ->
  rans_symbol_encode P (dense (count_syms syms (PositiveMap.empty Z)) 0 n) syms = Some bs -> zlen bs < 2 ^ 31 ->
  rans_decode_symbols 514 P (length syms) pre (bs ++ rest) = Ok (syms, rest).
Proof.
  intros HP Hs Hn Hn0 He Hlen.
  destruct (rans_symbol_table P n syms bs HP Hs Hn Hn0 He) as (probs & Ht & Hu & He').
  apply (rans_roundtrip P probs); try assumption. lia.
Qed.

(** EncodeRawSymbols / DecodeRawSymbols *)
Theorem raw_roundtrips lvl syms bs rest pre : syms <> [] -> (forall s, In s syms -> 0 <= s < 2 ^ 31) ->
  enc_raw lvl syms = Some bs -> zlen bs < 2 ^ 31 ->
  dec_raw 514 (length syms) pre (bs ++ rest) = Ok (syms, rest).
Proof.
  intros Hne Hs He Hlen. unfold enc_raw in He.
  set (cnt := count_syms syms (PositiveMap.empty Z)) in *.
  set (nu := Z.of_nat (PositiveMap.cardinal cnt)) in *.
  destruct ((if 0 <? nu then Z.log2 nu else 0) + 1 >? 18); [discriminate|].
  set (bl := raw_bit_length nu lvl) in *.
  destruct (rans_symbol_encode _ _ syms) as [body|] eqn:Eb; [|discriminate]. injection He as <-.
  pose proof (raw_bit_length_range nu lvl) as Hbl. fold bl in Hbl.
  cbn [app dec_raw]. destruct ((bl <? 1) || (bl >? 18)) eqn:E; [lia|].
  pose proof (zmax_list_nonneg syms) as Hm0.
  pose proof (zmax_list_bound syms (2^31) ltac:(lia) (fun s H => proj2 (Hs s H))) as Hm1.
  apply rans_symbol_roundtrip with (n := Z.to_nat (zmax_list syms + 1)); try assumption.
  - apply precision_range.
  - intros s Hin. pose proof (zmax_list_ge syms s Hin). pose proof (Hs s Hin). lia.
  - change (2^31) with 2147483648 in *. change (2^32) with 4294967296. lia.
  - lia.
  - unfold zlen in *. cbn [length] in Hlen. lia.
Qed.


(** * Bit-sequence mode on bit lists *)
Lemma b2z_odd v : Z.b2z (Z.odd v) + 2 * (v / 2) = v.
Proof. pose proof (Zmod_odd v). pose proof (Z.div_mod v 2 ltac:(lia)). destruct (Z.odd v); cbn [Z.b2z]; lia. Qed.

Lemma take_bits_put : forall n v tl, 0 <= v < 2 ^ Z.of_nat n -> take_bits n (put_bits n v tl) = (v, tl).
Proof.
  induction n as [|n IH]; intros v tl Hv.
  - change (2 ^ Z.of_nat 0) with 1 in Hv. cbn. f_equal. lia.
  - cbn [put_bits take_bits]. rewrite IH.
    + f_equal. apply b2z_odd.
    + rewrite Nat2Z.inj_succ, Z.pow_succ_r in Hv by lia. split; [apply Z.div_pos; lia|apply Z.div_lt_upper_bound; lia].
Qed.

Lemma put_bits_app : forall n v a b, put_bits n v a ++ b = put_bits n v (a ++ b).
Proof. induction n; intros; cbn [put_bits app]; [reflexivity|]. rewrite IHn. reflexivity. Qed.
Lemma put_bits_length : forall n v tl, length (put_bits n v tl) = (n + length tl)%nat.
Proof. induction n; intros; cbn [put_bits length]; [reflexivity|]. rewrite IHn. lia. Qed.
Lemma put_bits_zero : forall n tl, put_bits n 0 tl = repeat false n ++ tl.
Proof. induction n; intros; cbn [put_bits repeat app]; [reflexivity|]. change (0 / 2) with 0. rewrite IHn. reflexivity. Qed.

Lemma bits_of_bytes_app a b : bits_of_bytes (a ++ b) = bits_of_bytes a ++ bits_of_bytes b.
Proof. induction a; cbn [bits_of_bytes app]; [reflexivity|]. rewrite IHa, put_bits_app. reflexivity. Qed.
Lemma bits_of_bytes_length a : length (bits_of_bytes a) = (8 * length a)%nat.
Proof. induction a; cbn [bits_of_bytes length]; [reflexivity|]. rewrite put_bits_length, IHa. lia. Qed.

Lemma put_byte_of_bits : forall n l tl,
  put_bits n (byte_of_bits n l) tl = firstn n l ++ repeat false (n - length (firstn n l)) ++ tl.
Proof.
  induction n as [|n IH]; intros l tl; [reflexivity|].
  destruct l as [|b r].
  - cbn [byte_of_bits firstn length app]. rewrite put_bits_zero. rewrite Nat.sub_0_r. reflexivity.
  - cbn [byte_of_bits put_bits firstn length app].
    assert (Ho : Z.odd (Z.b2z b + 2 * byte_of_bits n r) = b).
    { rewrite Z.odd_add_mul_2. destruct b; reflexivity. }
    assert (Hd : (Z.b2z b + 2 * byte_of_bits n r) / 2 = byte_of_bits n r).
    { rewrite Z.add_comm, Z.mul_comm, Z.div_add_l by lia. destruct b; cbn [Z.b2z]; [change (1/2) with 0|change (0/2) with 0]; lia. }
    rewrite Ho, Hd, IH. reflexivity.
Qed.

Lemma pack_unpack : forall f l, (length l <= f)%nat ->
  exists pad, bits_of_bytes (pack_bits f l) = l ++ pad /\ (length pad < 8)%nat /\
              (length l + length pad = 8 * length (pack_bits f l))%nat.
Proof.
  induction f as [|f IH]; intros l Hl.
  - destruct l; [|cbn in Hl; lia]. exists []. cbn. repeat split; lia.
  - destruct l as [|b r] eqn:El.
    + exists []. cbn. repeat split; lia.
    + rewrite <- El in *. assert (Hne : l <> []) by (subst; discriminate).
      assert (Hp : pack_bits (S f) l = byte_of_bits 8 l :: pack_bits f (skipn 8 l)) by (subst l; reflexivity).
      rewrite Hp. cbn [bits_of_bytes]. rewrite put_byte_of_bits.
      destruct (IH (skipn 8 l)) as (pad & Hb & Hpl & Hlen).
      { rewrite skipn_length. subst l. cbn [length] in *. lia. }
      destruct (Nat.le_gt_cases 8 (length l)) as [Hge|Hlt].
      * exists pad. rewrite firstn_length_le by lia. cbn [Nat.sub repeat app]. rewrite Hb.
        rewrite app_assoc, firstn_skipn. split; [reflexivity|]. split; [exact Hpl|].
        rewrite skipn_length in Hlen. cbn [length]. lia.
      * rewrite skipn_all2 in * by lia. rewrite firstn_all2 by lia.
        assert (pack_bits f [] = []) as Hpe by (destruct f; reflexivity). rewrite Hpe in *.
        cbn [bits_of_bytes length] in *. exists (repeat false (8 - length l)). rewrite app_nil_r.
        split; [reflexivity|]. rewrite repeat_length. subst l. cbn [length] in *. lia.
Qed.

(** * Bit lengths *)
Lemma bit_length_bound v m : 0 <= v <= m -> v < 2 ^ bit_length m.
Proof.
  intros Hv. unfold bit_length. destruct (m <=? 0) eqn:E; [change (2^1) with 2; lia|].
  pose proof (Z.log2_spec m ltac:(lia)). replace (Z.log2 m + 1) with (Z.succ (Z.log2 m)) by lia. lia.
Qed.
Lemma bit_length_range m b : 0 <= b -> m < 2 ^ b -> 1 <= bit_length m <= Z.max 1 b.
Proof.
  intros Hb Hm. unfold bit_length. destruct (m <=? 0) eqn:E; [lia|].
  pose proof (Z.log2_nonneg m). assert (Z.log2 m < b) by (apply Z.log2_lt_pow2; lia). lia.
Qed.


(** * Chunks of num_components values *)
Lemma groups_spec : forall k fuel nc l, (1 <= nc)%nat -> length l = (k * nc)%nat -> (length l <= fuel)%nat ->
  concat (groups fuel nc l) = l /\ length (groups fuel nc l) = k /\
  (forall g, In g (groups fuel nc l) -> length g = nc /\ forall v, In v g -> In v l).
Proof.
  induction k as [|k IH]; intros fuel nc l Hnc Hl Hf.
  - destruct l; [|cbn in Hl; lia]. destruct fuel; cbn; repeat split; try reflexivity; try contradiction.
  - destruct l as [|x r] eqn:El; [cbn in Hl; lia|]. rewrite <- El in *.
    destruct fuel as [|fuel]; [subst l; cbn in Hf; lia|].
    assert (Hg : groups (S fuel) nc l = firstn nc l :: groups fuel nc (skipn nc l)) by (subst l; reflexivity).
    rewrite Hg.
    assert (Hsl : length (skipn nc l) = (k * nc)%nat) by (rewrite skipn_length; lia).
    destruct (IH fuel nc (skipn nc l) Hnc Hsl) as (Hc & Hlen & Hall).
    { rewrite skipn_length. subst l. cbn [length] in *. lia. }
    cbn [concat length]. rewrite Hc, firstn_skipn. split; [reflexivity|]. split; [lia|].
    intros g [<-|Hin].
    + split; [apply firstn_length_le; lia|]. intros v Hv. rewrite <- (firstn_skipn nc l). apply in_or_app; left; exact Hv.
    + destruct (Hall g Hin) as (H1 & H2). split; [exact H1|]. intros v Hv. rewrite <- (firstn_skipn nc l). apply in_or_app; right. apply H2; exact Hv.
Qed.

(** * The value bits with an explicit tail *)
Fixpoint evb (gs : list (list Z)) (tl : list bool) : list bool :=
  match gs with [] => tl | g :: r => enc_group_bits (Z.to_nat (group_tag g)) g (evb r tl) end.
Lemma enc_group_bits_app : forall g t a b, enc_group_bits t g a ++ b = enc_group_bits t g (a ++ b).
Proof. induction g; intros; cbn [enc_group_bits]; [reflexivity|]. rewrite put_bits_app, IHg. reflexivity. Qed.
Lemma evb_app : forall gs tl, enc_value_bits gs ++ tl = evb gs tl.
Proof. induction gs; intros; cbn [enc_value_bits evb app]; [reflexivity|]. rewrite enc_group_bits_app, IHgs. reflexivity. Qed.

Lemma take_values_group : forall g t tl acc, (forall v, In v g -> 0 <= v < 2 ^ Z.of_nat t) ->
  take_values (length g) t (enc_group_bits t g tl) acc = (rev g ++ acc, tl).
Proof.
  induction g as [|v r IH]; intros t tl acc Hv; [reflexivity|].
  cbn [length take_values enc_group_bits]. rewrite take_bits_put by (apply Hv; left; reflexivity).
  rewrite IH by (intros; apply Hv; right; assumption). cbn [rev]. rewrite <- app_assoc. reflexivity.
Qed.

Lemma rans_read_n_inv P d k st s l stf : rans_read_n P d (S k) st = Ok (s :: l, stf) ->
  exists st1, rans_read P d st = Ok (s, st1) /\ rans_read_n P d k st1 = Ok (l, stf).
Proof.
  cbn [rans_read_n]. destruct (rans_read P d st) as [[s' st1]| | |] eqn:E1; cbn [dbind]; try discriminate.
  destruct (rans_read_n P d k st1) as [[l' st2]| | |] eqn:E2; cbn [dbind]; try discriminate.
  intros H. injection H as -> -> ->. exists st1. split; [reflexivity|exact E2].
Qed.

Lemma tagged_loop : forall P d nc gs st stf tl acc,
  rans_read_n P d (length gs) st = Ok (map group_tag gs, stf) ->
  (forall g, In g gs -> length g = nc /\ forall v, In v g -> 0 <= v < 2 ^ 32) ->
  dec_tagged_loop P d (length gs) nc st (evb gs tl) acc = Ok (rev acc ++ concat gs, tl).
Proof.
  intros P d nc. induction gs as [|g r IH]; intros st stf tl acc Hr Hg.
  - cbn. rewrite rev'_rev, app_nil_r. reflexivity.
  - cbn [length map] in Hr. apply rans_read_n_inv in Hr as (st1 & Hr1 & Hrn).
    cbn [length dec_tagged_loop evb]. rewrite Hr1. cbn [dbind].
    destruct (Hg g (or_introl eq_refl)) as (Hlen & Hv).
    assert (Hmax : 0 <= zmax_list g < 2 ^ 32).
    { split; [apply zmax_list_nonneg|]. apply zmax_list_bound; [lia|]. intros; apply Hv; assumption. }
    pose proof (bit_length_range (zmax_list g) 32 ltac:(lia) ltac:(lia)) as Hbl. fold (group_tag g) in Hbl.
    destruct (group_tag g >? 32) eqn:E; [lia|].
    rewrite <- Hlen. rewrite take_values_group.
    2:{ intros v Hin. rewrite Z2Nat.id by lia. split; [apply Hv; exact Hin|].
        apply bit_length_bound. split; [apply Hv; exact Hin|apply zmax_list_ge; exact Hin]. }
    rewrite Hlen. rewrite (IH st1 stf) by (assumption || (intros; apply Hg; right; assumption)).
    cbn [concat]. rewrite rev_app_distr, rev_involutive, <- app_assoc. reflexivity.
Qed.


(** EncodeTaggedSymbols / DecodeTaggedSymbols *)
Theorem tagged_roundtrips nc k syms bs rest pre : (1 <= nc)%nat -> length syms = (k * nc)%nat -> syms <> [] ->
  (forall s, In s syms -> 0 <= s < 2 ^ 31) ->
  enc_tagged nc syms = Some bs -> zlen bs < 2 ^ 31 ->
  dec_tagged 514 (length syms) nc pre (bs ++ rest) = Ok (syms, rest).
Proof.
  intros Hnc Hlen Hne Hs He Hbs. unfold enc_tagged in He.
  set (gs := groups (length syms) nc syms) in *. set (tags := map group_tag gs) in *.
  destruct (groups_spec k (length syms) nc syms Hnc Hlen ltac:(lia)) as (Hcat & Hgl & Hgall). fold gs in Hcat, Hgl, Hgall.
  destruct (rans_symbol_encode _ _ tags) as [tb|] eqn:Et; [|discriminate]. injection He as <-.
  change (rans_precision_bits 5) with 12 in *.
  assert (Htags : forall t, In t tags -> 0 <= t < Z.of_nat 32).
  { intros t Hin. apply in_map_iff in Hin as (g & <- & Hg). destruct (Hgall g Hg) as (_ & Hv).
    assert (zmax_list g < 2 ^ 31) by (apply zmax_list_bound; [lia|]; intros v Hin; apply Hs, Hv, Hin).
    pose proof (bit_length_range (zmax_list g) 31 ltac:(lia) H). unfold group_tag. lia. }
  destruct (rans_symbol_table 12 32 tags tb ltac:(lia) Htags ltac:(change (2^32) with 4294967296; lia) ltac:(lia) Et)
    as (probs & Htok & Hused & Hew).
  set (packed := pack_bits (length (enc_value_bits gs)) (enc_value_bits gs)) in *.
  assert (Htb : zlen tb < 2 ^ 31) by (unfold zlen in *; rewrite app_length in Hbs; lia).
  destruct (rans_roundtrip_pieces 12 probs tags tb (packed ++ rest) ltac:(lia) Htok Hused Hew Htb)
    as (d & r1 & st & stf & Hc & Hn0 & Hsd & Hr).
  unfold dec_tagged.
  assert (Hguard : (nc =? 0)%nat || negb (length syms mod nc =? 0)%nat = false).
  { rewrite Hlen, Nat.mod_mul by lia. destruct nc; [lia|reflexivity]. }
  rewrite Hguard.
  change (rans_precision_bits 5) with 12. rewrite <- app_assoc. rewrite Hc. cbn [dbind].
  rewrite Hsd. cbn [dbind]. rewrite Hn0, andb_false_r.
  destruct (pack_unpack (length (enc_value_bits gs)) (enc_value_bits gs) ltac:(lia)) as (pad & Hpu & Hpad & Hpl).
  fold packed in Hpu, Hpl.
  rewrite bits_of_bytes_app, Hpu, <- app_assoc, evb_app.
  assert (Hng : ((length syms + nc - 1) / nc)%nat = length gs).
  { rewrite Hgl. symmetry. apply Nat.div_unique with (r := (nc - 1)%nat); lia. }
  rewrite Hng.
  assert (Hrt : rans_read_n 12 d (length gs) st = Ok (map group_tag gs, stf)).
  { unfold tags in Hr. rewrite map_length in Hr. exact Hr. }
  rewrite (tagged_loop 12 d nc gs st stf _ [] Hrt).
  2:{ intros g Hg. destruct (Hgall g Hg) as (H1 & H2). split; [exact H1|]. intros v Hv.
      pose proof (Hs v (H2 v Hv)). change (2^31) with 2147483648 in *. change (2^32) with 4294967296. lia. }
  cbn [dbind rev app]. rewrite Hcat.
  do 2 f_equal.
  assert (Hused8 : (8 * zlen (packed ++ rest) - zlen (pad ++ bits_of_bytes rest) + 7) / 8 = zlen packed).
  { unfold zlen. rewrite !app_length, bits_of_bytes_length.
    symmetry. apply Z.div_unique with (r := 7 - Z.of_nat (length pad)); lia. }
  rewrite Hused8. unfold zlen. rewrite Nat2Z.id. apply skipn_app_exact.
Qed.

(** * EncodeSymbols / DecodeSymbols *)
Lemma sym_guard_spec nc syms : sym_guard nc syms = true ->
  (forall s, In s syms -> 0 <= s < 2 ^ 32) /\ zlen syms mod (if nc <=? 0 then 1 else nc) = 0 /\ zlen syms < 2 ^ 31.
Proof.
  unfold sym_guard. intros H. apply andb_prop in H as (H & H3). apply andb_prop in H as (H1 & H2).
  rewrite forallb_forall in H1. split; [|lia]. intros s Hin. specialize (H1 s Hin). lia.
Qed.

Theorem symbols_roundtrips method lvl nc syms bs rest :
  enc_symbols method lvl nc syms = Some bs -> zlen bs < 2 ^ 31 ->
  dec_symbols 514 (length syms) (Z.to_nat (if nc <=? 0 then 1 else nc)) [] (bs ++ rest) = Ok (syms, rest).
Proof.
  intros He Hbs. unfold enc_symbols in He. destruct syms as [|s0 r] eqn:Esyms.
  { injection He as <-. reflexivity. }
  rewrite <- Esyms in *. assert (Hne : syms <> []) by (subst; discriminate).
  destruct (negb (sym_guard nc syms)) eqn:Eg; [discriminate|]. apply negb_false_iff in Eg.
  apply sym_guard_spec in Eg as (Hrange & Hmod & Hlen).
  set (nc' := if nc <=? 0 then 1 else nc) in *.
  destruct (bit_length (zmax_list syms) >=? 32) eqn:Ebl; [discriminate|].
  assert (Hs31 : forall s, In s syms -> 0 <= s < 2 ^ 31).
  { intros s Hin. split; [apply Hrange; exact Hin|].
    destruct (Z_lt_ge_dec (zmax_list syms) (2 ^ 31)) as [Hlt|Hge]; [pose proof (zmax_list_ge syms s Hin); lia|].
    exfalso. unfold bit_length in Ebl. destruct (zmax_list syms <=? 0) eqn:E0; [lia|].
    assert (31 <= Z.log2 (zmax_list syms)) by (apply Z.log2_le_pow2; lia). lia. }
  assert (Hdec : forall b, dec_symbols 514 (length syms) (Z.to_nat nc') [] (b ++ rest) =
           match b ++ rest with [] => Fail | scheme :: r' =>
             if scheme =? 0 then dec_tagged 514 (length syms) (Z.to_nat nc') [scheme] r'
             else if scheme =? 1 then dec_raw 514 (length syms) [scheme] r' else Fail end).
  { intros b. unfold dec_symbols. destruct (length syms) eqn:El; [subst syms; cbn in El; lia|reflexivity]. }
  destruct (method =? 0) eqn:Em0.
  - destruct (enc_tagged (Z.to_nat nc') syms) as [b|] eqn:Et; [|discriminate]. injection He as <-.
    rewrite Hdec. cbn [app Z.eqb].
    assert (Hnc1 : 1 <= nc') by (unfold nc'; destruct (nc <=? 0) eqn:E; lia).
    apply tagged_roundtrips with (k := Z.to_nat (zlen syms / nc')); try assumption; try lia.
    + unfold zlen in *. pose proof (Z.div_mod (Z.of_nat (length syms)) nc' ltac:(lia)).
      assert (0 <= Z.of_nat (length syms) / nc') by (apply Z.div_pos; lia). nia.
    + unfold zlen in *. cbn [length] in Hbs. lia.
  - destruct (method =? 1) eqn:Em1; [|discriminate].
    destruct (bit_length (zmax_list syms) >? 18); [discriminate|].
    destruct (enc_raw lvl syms) as [b|] eqn:Er; [|discriminate]. injection He as <-.
    rewrite Hdec. cbn [app Z.eqb Pos.eqb].
    apply (raw_roundtrips lvl); try assumption. unfold zlen in *. cbn [length] in Hbs. lia.
Qed.


(** * Totality of the decoders on arbitrary bytes: never an out-of-bounds access, never outside the modelled domain *)
Definition safe {A} (r : dres A) : Prop := match r with Oob | Unmod => False | _ => True end.

Lemma dec_varint_fuel_shorter w : forall f bs v r, dec_varint_u_fuel w f bs = Some (v, r) -> (length r < length bs)%nat.
Proof.
  induction f as [|f IH]; intros bs v r H; [discriminate|]. cbn [dec_varint_u_fuel] in H.
  destruct bs as [|b t]; [discriminate|]. destruct (Z.land b 128 =? 0).
  - injection H as _ <-. cbn [length]. lia.
  - destruct (dec_varint_u_fuel w f t) as [[v' r']|] eqn:E; [|discriminate]. injection H as _ <-.
    apply IH in E. cbn [length]. lia.
Qed.
Lemma dec_varint_shorter w bs v r : dec_varint_u w bs = Some (v, r) -> (length r < length bs)%nat.
Proof. apply dec_varint_fuel_shorter. Qed.
Lemma dec_le_shorter : forall n bs v r, dec_le (S n) bs = Some (v, r) -> (length r < length bs)%nat.
Proof.
  induction n as [|n IH]; intros bs v r H; cbn [dec_le] in H; destruct bs as [|b t]; try discriminate.
  - injection H as _ <-. cbn [length]. lia.
  - destruct t as [|b2 t2]; [discriminate|].
    change (match dec_le (S n) (b2 :: t2) with Some (v0, r') => Some (b + 256 * v0, r') | None => None end = Some (v, r)) in H.
    destruct (dec_le (S n) (b2 :: t2)) as [[v' r']|] eqn:E; [|discriminate]. injection H as _ <-.
    apply IH in E. cbn [length] in *. lia.
Qed.

(** the token loop *)
Lemma zrepeat_length {A} (a : A) n tl : length (zrepeat a n tl) = (n + length tl)%nat.
Proof. induction n; cbn [zrepeat length]; [reflexivity|]. rewrite IHn. lia. Qed.

Lemma dec_table_loop_total : forall m bs, (length bs <= m)%nat -> (forall b, In b bs -> 0 <= b) -> forall n i acc, i <= n ->
  match dec_table_loop n i bs acc with
  | Ok (l, r') => zlen l = zlen acc + (n - i) /\ (length r' <= length bs)%nat /\ (forall b, In b r' -> 0 <= b)
  | Fail => True
  | _ => False
  end.
Proof.
  induction m as [|m IH]; intros bs Hm Hb n i acc Hi.
  - destruct bs; [|cbn in Hm; lia]. cbn [dec_table_loop]. destruct (i >=? n) eqn:E; [|exact I].
    unfold zlen. rewrite rev'_rev, rev_length. split; [lia|]. split; [lia|assumption].
  - destruct bs as [|b r].
    { cbn [dec_table_loop]. destruct (i >=? n) eqn:E; [|exact I]. unfold zlen. rewrite rev'_rev, rev_length. split; [lia|]. split; [lia|assumption]. }
    cbn [dec_table_loop]. destruct (i >=? n) eqn:E.
    { unfold zlen. rewrite rev'_rev, rev_length. split; [lia|]. split; [lia|assumption]. }
    cbn [length] in Hm.
    destruct (b mod 4 =? 3) eqn:E3.
    + destruct (i + b / 4 >=? n) eqn:E4; [exact I|].
      assert (Hpos : 0 <= b / 4) by (apply Z.div_pos; [apply Hb; left; reflexivity|lia]).
      assert (Hbr : forall b', In b' r -> 0 <= b') by (intros; apply Hb; right; assumption).
      specialize (IH r ltac:(lia) Hbr n (i + b / 4 + 1) (zrepeat 0 (Z.to_nat (b / 4 + 1)) acc) ltac:(lia)).
      destruct (dec_table_loop n (i + b / 4 + 1) r _) as [[l r']| | |]; try exact IH.
      destruct IH as (H1 & H2 & H3). unfold zlen in *. rewrite zrepeat_length in H1. cbn [length]. split; [lia|]. split; [lia|assumption].
    + assert (Hbr : forall b', In b' r -> 0 <= b') by (intros; apply Hb; right; assumption).
      destruct (b mod 4 =? 0) eqn:E0.
      { specialize (IH r ltac:(lia) Hbr n (i + 1) (b / 4 :: acc) ltac:(lia)).
        destruct (dec_table_loop n (i + 1) r _) as [[l r']| | |]; try exact IH.
        destruct IH as (H1 & H2 & H3). unfold zlen in *. cbn [length] in *. split; [lia|]. split; [lia|assumption]. }
      destruct (b mod 4 =? 1) eqn:E1.
      { destruct r as [|e1 r1]; [exact I|]. cbn [length] in Hm.
        specialize (IH r1 ltac:(lia) (fun b' H => Hbr b' (or_intror H)) n (i + 1) (b / 4 + e1 * 2 ^ 6 :: acc) ltac:(lia)).
        destruct (dec_table_loop n (i + 1) r1 _) as [[l r']| | |]; try exact IH.
        destruct IH as (H1 & H2 & H3). unfold zlen in *. cbn [length] in *. split; [lia|]. split; [lia|assumption]. }
      destruct r as [|e1 [|e2 r2]]; try exact I. cbn [length] in Hm.
      specialize (IH r2 ltac:(lia) (fun b' H => Hbr b' (or_intror (or_intror H))) n (i + 1) (b / 4 + e1 * 2 ^ 6 + e2 * 2 ^ 14 :: acc) ltac:(lia)).
      destruct (dec_table_loop n (i + 1) r2 _) as [[l r']| | |]; try exact IH.
      destruct IH as (H1 & H2 & H3). unfold zlen in *. cbn [length] in *. split; [lia|]. split; [lia|assumption].
Qed.


Definition nonneg_bytes (bs : bytes) : Prop := forall b, In b bs -> 0 <= b.
Definition dec_ok (d : rdec) : Prop :=
  0 < d_n d <= 2 ^ 32 /\ forall i, 0 <= i < d_n d -> arr_get (d_tbl d) i <> None.

Lemma build_tbl_length : forall probs prec cum t, build_tbl prec probs cum = Some t -> length t = length probs.
Proof.
  induction probs as [|p r IH]; intros prec cum t H; cbn [build_tbl] in H.
  - destruct (cum =? prec); [injection H as <-; reflexivity|discriminate].
  - destruct ((cum + p) mod 2 ^ 32 >? prec); [discriminate|].
    destruct (build_tbl prec r ((cum + p) mod 2 ^ 32)) as [t'|] eqn:E; [|discriminate]. injection H as <-.
    cbn [length]. f_equal. eapply IH; eauto.
Qed.

Lemma opt_len_shorter ver w k bs v r :
  (if ver <? 512 then dec_le (S k) bs else dec_varint_u w bs) = Some (v, r) -> (length r < length bs)%nat.
Proof. destruct (ver <? 512); [apply dec_le_shorter|apply dec_varint_shorter]. Qed.

Lemma nonneg_suffix_le : forall n bs v r, nonneg_bytes bs -> dec_le n bs = Some (v, r) -> nonneg_bytes r /\ 0 <= v.
Proof.
  induction n as [|n IH]; intros bs v r Hb H; cbn [dec_le] in H.
  - injection H as <- <-. split; [exact Hb|lia].
  - destruct bs as [|b t]; [discriminate|]. destruct (dec_le n t) as [[v' r']|] eqn:E; [|discriminate]. injection H as <- <-.
    destruct (IH t v' r' (fun x Hx => Hb x (or_intror Hx)) E) as (H1 & H2). split; [exact H1|].
    pose proof (Hb b (or_introl eq_refl)). lia.
Qed.
Lemma nonneg_suffix_varint w : forall f bs v r, nonneg_bytes bs -> dec_varint_u_fuel w f bs = Some (v, r) -> nonneg_bytes r.
Proof.
  induction f as [|f IH]; intros bs v r Hb H; [discriminate|]. cbn [dec_varint_u_fuel] in H.
  destruct bs as [|b t]; [discriminate|]. assert (Ht : nonneg_bytes t) by (intros x Hx; apply Hb; right; exact Hx).
  destruct (Z.land b 128 =? 0); [injection H as _ <-; exact Ht|].
  destruct (dec_varint_u_fuel w f t) as [[v' r']|] eqn:E; [|discriminate]. injection H as _ <-. eapply IH; eauto.
Qed.

Lemma varint32_range : forall f bs v r, nonneg_bytes bs -> dec_varint_u_fuel 32 f bs = Some (v, r) -> 0 <= v /\ (v < 2 ^ 32 \/ (exists b, v = b)).
Proof. intros. split; [|right; eexists; reflexivity].
  revert bs v r H H0. induction f as [|f IH]; intros bs v r Hb H; [discriminate|]. cbn [dec_varint_u_fuel] in H.
  destruct bs as [|b t]; [discriminate|]. pose proof (Hb b (or_introl eq_refl)).
  destruct (Z.land b 128 =? 0); [injection H as <- _; lia|].
  destruct (dec_varint_u_fuel 32 f t) as [[v' r']|] eqn:E; [|discriminate]. injection H as <- _.
  apply Z.lor_nonneg. split; [apply Z.mod_pos_bound; lia|apply Z.land_nonneg; lia].
Qed.

Lemma create_total ver P bs : nonneg_bytes bs -> zlen bs < 2 ^ 26 ->
  match rans_dec_create ver P bs with
  | Ok (d, r) => (length r < length bs)%nat /\ nonneg_bytes r /\ (d_n d = 0 \/ dec_ok d)
  | Fail => True
  | _ => False
  end.
Proof.
  intros Hb Hlen. unfold rans_dec_create. destruct (ver =? 0); [exact I|].
  destruct (if ver <? 512 then dec_le 4 bs else dec_varint_u 32 bs) as [[n r]|] eqn:En; cbn [of_opt dbind]; [|exact I].
  pose proof (opt_len_shorter ver 32 3 bs n r En) as Hsh.
  assert (Hr : nonneg_bytes r /\ 0 <= n).
  { destruct (ver <? 512); [eapply nonneg_suffix_le; eauto|].
    split; [eapply nonneg_suffix_varint; eauto|]. eapply varint32_range; eauto. }
  destruct Hr as (Hr & Hn0).
  destruct (n / 64 >? zlen r) eqn:Eg; [exact I|].
  destruct (n =? 0) eqn:E0. { cbn [d_n]. split; [exact Hsh|]. split; [exact Hr|]. left; reflexivity. }
  change (2^26) with 67108864 in Hlen. change (2^32) with 4294967296.
  assert (Hnb : n + 64 < 4294967296).
  { unfold zlen in *. assert (n / 64 <= 67108862) by lia.
    pose proof (Z.div_mod n 64 ltac:(lia)). pose proof (Z.mod_pos_bound n 64 ltac:(lia)). lia. }
  destruct (n + 64 >=? 4294967296) eqn:E1; [lia|].
  pose proof (dec_table_loop_total (length r) r ltac:(lia) Hr n 0 [] ltac:(lia)) as Ht.
  destruct (dec_table_loop n 0 r []) as [[probs r']| | |]; try exact Ht. cbn [dbind].
  destruct Ht as (Hpl & Hrl & Hrn). change (zlen (@nil Z)) with 0 in Hpl.
  destruct (build_tbl (2 ^ P) probs 0) as [t|] eqn:Eb; [|exact I].
  apply build_tbl_length in Eb. cbn [d_n d_tbl]. split; [lia|]. split.
  - exact Hrn.
  - right. split; [cbn [d_n]; lia|]. cbn [d_n d_tbl]. intros i Hi. rewrite arr_of_list_get by lia.
    apply nth_error_Some. unfold zlen in *. lia.
Qed.


Lemma consumed_rev_length bs r pre : (length r <= length bs)%nat ->
  length (consumed_rev bs r pre) = (length bs - length r + length pre)%nat.
Proof. intros. unfold consumed_rev. rewrite rev_append_rev, app_length, rev_length, firstn_length. lia. Qed.

Lemma read_init_total P pre blk : safe (rans_read_init P pre blk).
Proof.
  unfold rans_read_init.
  assert (Hchk : forall x stk, safe (let x' := (x + rans_L P) mod 2 ^ 32 in if x' >=? rans_L P * 256 then @Fail rstate else Ok (x', stk))).
  { intros. cbv zeta. destruct (_ >=? _); exact I. }
  destruct (rev' blk) as [|b0 r0]; [exact I|].
  destruct (b0 / 64 =? 0); [apply Hchk|].
  destruct (b0 / 64 =? 1); [destruct r0; [exact I|apply Hchk]|].
  destruct (b0 / 64 =? 2); [destruct r0 as [|? [|? ?]]; try exact I; apply Hchk|].
  destruct r0 as [|b1 [|b2 [|b3 r3]]]; try exact I. apply Hchk.
Qed.

Lemma start_total ver P pre bs : nonneg_bytes bs -> zlen bs < 2 ^ 26 ->
  match rans_start_decoding ver P pre bs with
  | Ok (st, r) => (length r <= length bs)%nat
  | Fail => True
  | _ => False
  end.
Proof.
  intros Hb Hlen. unfold rans_start_decoding.
  destruct (if ver <? 512 then dec_le 8 bs else dec_varint_u 64 bs) as [[len r]|] eqn:En; cbn [of_opt dbind]; [|exact I].
  pose proof (opt_len_shorter ver 64 7 bs len r En) as Hsh.
  destruct (len >? zlen r) eqn:Eg; [exact I|].
  change (2^26) with 67108864 in Hlen. unfold zlen in *.
  destruct (len >=? 2 ^ 31) eqn:E31; [change (2^31) with 2147483648 in E31; lia|].
  pose proof (read_init_total P (consumed_rev bs r pre) (firstn (Z.to_nat len) r)) as Hri.
  destruct (rans_read_init P _ _) as [st| | |]; try exact Hri. cbn [dbind]. rewrite skipn_length. lia.
Qed.

Lemma bsearch_total tbl rem n : (forall i, 0 <= i < n -> arr_get tbl i <> None) ->
  forall f lo hi, 0 <= lo < hi -> hi <= n -> hi - lo <= 2 ^ Z.of_nat f ->
  exists s, bsearch (S f) tbl rem lo hi = Some s /\ lo <= s < hi.
Proof.
  intros Ht. induction f as [|f IH]; intros lo hi Hlo Hhi Hw.
  - change (2 ^ Z.of_nat 0) with 1 in Hw. cbn [bsearch]. destruct (hi - lo <=? 1) eqn:E; [|lia]. exists lo. split; [reflexivity|lia].
  - remember (S f) as f1. cbn [bsearch]. destruct (hi - lo <=? 1) eqn:E; [exists lo; split; [reflexivity|lia]|].
    set (mid := (lo + hi) / 2).
    assert (Hmid : lo < mid < hi).
    { assert (lo + 1 <= mid) by (unfold mid; apply Z.div_le_lower_bound; lia).
      assert (mid < hi) by (unfold mid; apply Z.div_lt_upper_bound; lia). lia. }
    destruct (arr_get tbl mid) as [[pm cm]|] eqn:Eg; [|exfalso; apply (Ht mid); [lia|exact Eg]].
    subst f1. rewrite Nat2Z.inj_succ, Z.pow_succ_r in Hw by lia.
    assert (hi - mid <= (hi - lo + 1) / 2).
    { unfold mid. apply Z.div_le_lower_bound; [lia|].
      pose proof (Z.div_mod (lo + hi) 2 ltac:(lia)). pose proof (Z.mod_pos_bound (lo + hi) 2 ltac:(lia)). lia. }
    assert ((hi - lo + 1) / 2 < 2 ^ Z.of_nat f + 1) by (apply Z.div_lt_upper_bound; lia).
    assert (mid - lo <= (hi - lo) / 2).
    { unfold mid. apply Z.div_le_lower_bound; [lia|].
      pose proof (Z.div_mod (lo + hi) 2 ltac:(lia)). pose proof (Z.mod_pos_bound (lo + hi) 2 ltac:(lia)). lia. }
    assert ((hi - lo) / 2 <= 2 ^ Z.of_nat f) by (apply Z.div_le_upper_bound; lia).
    destruct (cm <=? rem).
    + destruct (IH mid hi ltac:(lia) ltac:(lia) ltac:(lia)) as (s & Hs & Hr). exists s. split; [exact Hs|lia].
    + destruct (IH lo mid ltac:(lia) ltac:(lia) ltac:(lia)) as (s & Hs & Hr). exists s. split; [exact Hs|lia].
Qed.

Lemma rans_read_total P d st : dec_ok d -> exists s st', rans_read P d st = Ok (s, st').
Proof.
  intros ((Hn0 & Hn1) & Ht). unfold rans_read. destruct st as [x stk].
  destruct (dec_renorm (rans_L P) x stk) as [x1 stk1].
  unfold fetch_sym. destruct (d_n d <=? 0) eqn:E; [lia|].
  destruct (bsearch_total (d_tbl d) (x1 mod 2 ^ P) (d_n d) Ht 39 0 (d_n d) ltac:(lia) ltac:(lia)) as (s & Hs & Hr).
  { change (2 ^ Z.of_nat 39) with 549755813888. change (2^32) with 4294967296 in Hn1. lia. }
  rewrite Hs. destruct (arr_get (d_tbl d) s) as [[p c]|] eqn:Eg; [|exfalso; apply (Ht s); [lia|exact Eg]].
  eexists _, _. reflexivity.
Qed.

Lemma rans_read_n_total P d : dec_ok d -> forall n st, exists l st', rans_read_n P d n st = Ok (l, st').
Proof.
  intros Hd. induction n as [|n IH]; intros st; cbn [rans_read_n]; [eexists _, _; reflexivity|].
  destruct (rans_read_total P d st Hd) as (s & st1 & Hr). rewrite Hr. cbn [dbind].
  destruct (IH st1) as (l & st2 & Hn). rewrite Hn. cbn [dbind]. eexists _, _. reflexivity.
Qed.

Lemma tagged_loop_total P d nc : dec_ok d -> forall k st bits acc, safe (dec_tagged_loop P d k nc st bits acc).
Proof.
  intros Hd. induction k as [|k IH]; intros st bits acc; cbn [dec_tagged_loop]; [exact I|].
  destruct (rans_read_total P d st Hd) as (tag & st1 & Hr). rewrite Hr. cbn [dbind].
  destruct (tag >? 32); [exact I|]. destruct (take_values nc (Z.to_nat tag) bits acc). apply IH.
Qed.

Theorem dec_symbols_total ver n nc pre bs : nonneg_bytes bs -> zlen bs < 2 ^ 26 ->
  safe (dec_symbols ver n nc pre bs).
Proof.
  intros Hb Hlen. unfold dec_symbols. destruct n as [|n]; [exact I|].
  destruct bs as [|scheme r]; [exact I|].
  assert (Hr : nonneg_bytes r) by (intros x Hx; apply Hb; right; exact Hx).
  assert (Hrl : zlen r < 2 ^ 26) by (unfold zlen in *; cbn [length] in Hlen; lia).
  destruct (scheme =? 0).
  - (* tagged *)
    unfold dec_tagged. destruct ((nc =? 0)%nat || negb (S n mod nc =? 0)%nat); [exact I|].
    set (P := rans_precision_bits 5).
    pose proof (create_total ver P r Hr Hrl) as Hc.
    destruct (rans_dec_create ver P r) as [[d r1]| | |]; try exact Hc. cbn [dbind].
    destruct Hc as (Hsh & Hr1 & Hd).
    pose proof (start_total ver P (consumed_rev r r1 (scheme :: pre)) r1 Hr1 ltac:(unfold zlen in *; lia)) as Hs.
    destruct (rans_start_decoding ver P _ r1) as [[st r2]| | |]; try exact Hs. cbn [dbind].
    destruct ((0 <? Z.of_nat (S n)) && (d_n d =? 0)) eqn:E0; [exact I|].
    destruct Hd as [Hd|Hd]; [lia|].
    pose proof (tagged_loop_total P d nc Hd ((S n + nc - 1) / nc)%nat st (bits_of_bytes r2) []) as Hl.
    destruct (dec_tagged_loop P d _ nc st (bits_of_bytes r2) []) as [[vals bits']| | |]; exact Hl.
  - destruct (scheme =? 1); [|exact I].
    unfold dec_raw. destruct r as [|bl r0]; [exact I|].
    destruct ((bl <? 1) || (bl >? 18)); [exact I|].
    assert (Hr0 : nonneg_bytes r0) by (intros x Hx; apply Hr; right; exact Hx).
    assert (Hr0l : zlen r0 < 2 ^ 26) by (unfold zlen in *; cbn [length] in Hrl; lia).
    unfold rans_decode_symbols. set (P := rans_precision_bits bl).
    pose proof (create_total ver P r0 Hr0 Hr0l) as Hc.
    destruct (rans_dec_create ver P r0) as [[d r1]| | |]; try exact Hc. cbn [dbind].
    destruct Hc as (Hsh & Hr1 & Hd).
    destruct ((0 <? Z.of_nat (S n)) && (d_n d =? 0)) eqn:E0; [exact I|].
    pose proof (start_total ver P (consumed_rev r0 r1 (bl :: scheme :: pre)) r1 Hr1 ltac:(unfold zlen in *; lia)) as Hs.
    destruct (rans_start_decoding ver P _ r1) as [[st r2]| | |]; try exact Hs. cbn [dbind].
    destruct Hd as [Hd|Hd]; [lia|].
    destruct (rans_read_n_total P d Hd (S n) st) as (l & st' & Hn). rewrite Hn. exact I.
Qed.


(** * How many values the decoders return, on ARBITRARY bytes *)
Lemma rans_read_n_length P d : forall n st l st', rans_read_n P d n st = Ok (l, st') -> length l = n.
Proof.
  induction n as [|n IH]; intros st l st' H; cbn [rans_read_n] in H.
  - injection H as <- _. reflexivity.
  - destruct (rans_read P d st) as [[s st1]| | |]; cbn [dbind] in H; try discriminate.
    destruct (rans_read_n P d n st1) as [[l' st2]| | |] eqn:E; cbn [dbind] in H; try discriminate.
    injection H as <- _. cbn [length]. f_equal. eapply IH; eauto.
Qed.

Lemma rans_decode_symbols_length ver P n pre bs syms r :
  rans_decode_symbols ver P n pre bs = Ok (syms, r) -> length syms = n.
Proof.
  unfold rans_decode_symbols. intros H.
  destruct (rans_dec_create ver P bs) as [[d r1]| | |]; cbn [dbind] in H; try discriminate.
  destruct ((0 <? Z.of_nat n) && (d_n d =? 0)); [discriminate|].
  destruct (rans_start_decoding ver P _ r1) as [[st r2]| | |]; cbn [dbind] in H; try discriminate.
  destruct (rans_read_n P d n st) as [[l st']| | |] eqn:E; cbn [dbind] in H; try discriminate.
  injection H as <- _. eapply rans_read_n_length; eauto.
Qed.

Lemma take_values_length : forall n tag bits acc, length (fst (take_values n tag bits acc)) = (n + length acc)%nat.
Proof.
  induction n as [|n IH]; intros tag bits acc; cbn [take_values]; [reflexivity|].
  destruct (take_bits tag bits) as [v bits']. rewrite IH. cbn [length]. lia.
Qed.

Lemma dec_tagged_loop_length P d nc : forall k st bits acc vals bits',
  dec_tagged_loop P d k nc st bits acc = Ok (vals, bits') -> length vals = (length acc + k * nc)%nat.
Proof.
  induction k as [|k IH]; intros st bits acc vals bits' H; cbn [dec_tagged_loop] in H.
  - injection H as <- _. rewrite rev'_rev, rev_length. lia.
  - destruct (rans_read P d st) as [[tag st1]| | |]; cbn [dbind] in H; try discriminate.
    destruct (tag >? 32); [discriminate|].
    pose proof (take_values_length nc (Z.to_nat tag) bits acc) as Hl.
    destruct (take_values nc (Z.to_nat tag) bits acc) as [acc' bits1]. cbn [fst] in Hl.
    apply IH in H. lia.
Qed.

(** DecodeTaggedSymbols stores num_components values per round of `for (i = 0; i < num_values; i += num_components)`;
    since it rejects counts that are not a multiple of num_components (commit 6105d6f) that is exactly num_values. *)
Lemma dec_tagged_length ver n nc pre bs syms r :
  dec_tagged ver n nc pre bs = Ok (syms, r) -> length syms = n.
Proof.
  unfold dec_tagged. intros H.
  destruct ((nc =? 0)%nat || negb (n mod nc =? 0)%nat) eqn:Eg; [discriminate|].
  apply orb_false_elim in Eg as (Enc & Emod). apply negb_false_iff in Emod.
  apply Nat.eqb_neq in Enc. apply Nat.eqb_eq in Emod.
  destruct (rans_dec_create ver _ bs) as [[d r1]| | |]; cbn [dbind] in H; try discriminate.
  destruct (rans_start_decoding ver _ _ r1) as [[st r2]| | |]; cbn [dbind] in H; try discriminate.
  destruct ((0 <? Z.of_nat n) && (d_n d =? 0)); [discriminate|].
  destruct (dec_tagged_loop _ d _ nc st (bits_of_bytes r2) []) as [[vals bits']| | |] eqn:E; cbn [dbind] in H; try discriminate.
  injection H as <- _. apply dec_tagged_loop_length in E. cbn [length] in E. rewrite E. cbn [Nat.add].
  pose proof (Nat.div_mod n nc Enc) as Hdm. rewrite Emod, Nat.add_0_r in Hdm.
  assert (Hq : ((n + nc - 1) / nc = n / nc)%nat).
  { symmetry. apply Nat.div_unique with (r := (nc - 1)%nat); lia. }
  rewrite Hq. lia.
Qed.

(** On arbitrary bytes, for every count and component count, a successful decode returns exactly num_values values. *)
Lemma dec_symbols_length_uncond ver n nc pre bs syms r : dec_symbols ver n nc pre bs = Ok (syms, r) -> length syms = n.
Proof.
  unfold dec_symbols. destruct n as [|n]. { intros H. injection H as <- _. reflexivity. }
  destruct bs as [|scheme b]; [discriminate|].
  destruct (scheme =? 0). { intros H. eapply dec_tagged_length; eauto. }
  destruct (scheme =? 1); [|discriminate].
  unfold dec_raw. destruct b as [|bl b0]; [discriminate|]. destruct ((bl <? 1) || (bl >? 18)); [discriminate|].
  intros H. eapply rans_decode_symbols_length; eauto.
Qed.
Lemma dec_symbols_opt_length_uncond n nc bs syms r : dec_symbols_opt n nc bs = Some (syms, r) -> length syms = n.
Proof.
  intros H. unfold dec_symbols_opt in H.
  destruct (dec_symbols 514 n nc [] bs) as [[s' r']| | |] eqn:E; cbn [to_opt] in H; try discriminate.
  injection H as <- <-. eapply dec_symbols_length_uncond; eauto.
Qed.

Lemma dec_symbols_length_gen ver n nc pre bs syms r : dec_symbols ver n nc pre bs = Ok (syms, r) ->
  length syms = n \/ length syms = ((n + nc - 1) / nc * nc)%nat.
Proof. intros H. left. eapply dec_symbols_length_uncond; eauto. Qed.

(** The shape used by Proofs/SeqCodecInst_proofs.v (the divisibility hypotheses are no longer needed). *)
Lemma dec_symbols_length ver n nc pre bs syms r : (1 <= nc)%nat -> (exists k, n = (k * nc)%nat) ->
  dec_symbols ver n nc pre bs = Ok (syms, r) -> length syms = n.
Proof. intros _ _. apply dec_symbols_length_uncond. Qed.

Lemma dec_symbols_opt_length n nc bs syms r : (1 <= nc)%nat -> (exists k, n = (k * nc)%nat) ->
  dec_symbols_opt n nc bs = Some (syms, r) -> length syms = n.
Proof. intros _ _. apply dec_symbols_opt_length_uncond. Qed.

(** Historical note: before commit 6105d6f DecodeTaggedSymbols(1 value, 2 components) on the bytes
    [0; 3; 7; 1; 64; 1; 0; 15] returned true and stored two values (a write past out_values[num_values - 1]);
    the decoder now rejects that call. *)
Lemma dec_symbols_rejects_non_multiple : dec_symbols_opt 1 2 [0; 3; 7; 1; 64; 1; 0; 15] = None.
Proof. vm_compute. reflexivity. Qed.
