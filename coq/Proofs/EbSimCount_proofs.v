(** EBSIM: the vertex count.  [verts_fit o] (the vertices the decoder creates, 3 per E and 1 per R / L, fit the declared bound
    num_encoded_vertices + num_encoded_split_symbols) is a CONSEQUENCE for the tables of CornerTable::Create whose encoding has
    no split event: before the compaction the decoder has created [cntv Y] vertices; those that are not isolated are pairwise
    different vertices of non-degenerated faces of the encoder's table ([eb_iso]), hence at most |vertex_corners_| -
    num_isolated_vertices_ many; the isolated ones are on the invalid list (COV, remove_invalid_vertices = true), one per S. *)
From Coq Require Import ZArith List Bool Lia Arith PeanoNat.
From Draco Require Import Model.CornerTable Model.EbEncoder Proofs.CornerTable_proofs Proofs.EbEncoder_proofs.
From Draco Require Model.Edgebreaker Proofs.Edgebreaker_proofs Proofs.Edgebreaker_fan_proofs Proofs.Edgebreaker_compact_proofs.
From Draco Require Import Proofs.EbTrace_proofs Proofs.EbSimEnc_proofs Proofs.EbSimDec_proofs Proofs.EbSimLoop_proofs Proofs.EbSim_proofs.
From Draco Require Import Proofs.EbSimS_proofs Proofs.EbSimEv_proofs Proofs.EbSimEvChk_proofs.
Import ListNotations.

Lemma filter_partition_len {A} (p : A -> bool) l : length l = length (filter p l) + length (filter (fun x => negb (p x)) l).
Proof. induction l as [|a l IH]; cbn [filter length]; auto. destruct (p a); cbn [negb length]; lia. Qed.

Lemma filter_idx_len {A} (p : A -> bool) (d : A) : forall L,
  length (filter (fun i => p (nth i L d)) (seq 0 (length L))) = length (filter p L).
Proof.
  induction L as [|a L IH] using rev_ind; [reflexivity|].
  rewrite app_length. cbn [length]. rewrite Nat.add_1_r, seq_S, !filter_app, !app_length. cbn [filter Nat.add].
  rewrite app_nth2 by lia. rewrite Nat.sub_diag. cbn [nth]. f_equal.
  - rewrite <- IH. f_equal. apply filter_ext_in. intros i Hi. apply in_seq in Hi. rewrite app_nth1 by lia. reflexivity.
  - destruct (p a); reflexivity.
Qed.

Definition is_none_b (o : option nat) : bool := match o with None => true | Some _ => false end.

(** N labels; the used ones are mapped injectively into the positions of [L] that hold a value, the others are in [inval] *)
Lemma count_core (N : nat) (used : nat -> bool) (inval : list Z) (g : nat -> nat) (L : list (option nat)) :
  (forall v, v < N -> used v = false -> In (Z.of_nat v) inval) ->
  (forall v v', v < N -> v' < N -> used v = true -> used v' = true -> g v = g v' -> v = v') ->
  (forall v, v < N -> used v = true -> g v < length L /\ nth (g v) L None <> None) ->
  N + length (filter is_none_b L) <= length L + length inval.
Proof.
  intros Hi Hinj Hrng.
  pose proof (filter_partition_len used (seq 0 N)) as P. rewrite seq_length in P.
  set (LU := filter used (seq 0 N)) in *. set (LI := filter (fun x => negb (used x)) (seq 0 N)) in *.
  assert (B1 : length LI <= length inval).
  { rewrite <- (map_length Z.of_nat LI). apply NoDup_incl_length.
    - apply Edgebreaker_compact_proofs.NoDup_map_on; [apply NoDup_filter, seq_NoDup|]. intros x y _ _ E. lia.
    - intros z Hz. apply in_map_iff in Hz. destruct Hz as (v & <- & Hv). apply filter_In in Hv. destruct Hv as [Hv1 Hv2].
      apply in_seq in Hv1. apply negb_true_iff in Hv2. apply Hi; auto. lia. }
  assert (B2 : length LU <= length (filter (fun o => negb (is_none_b o)) L)).
  { rewrite <- (filter_idx_len (fun o => negb (is_none_b o)) None L). rewrite <- (map_length g LU). apply NoDup_incl_length.
    - apply Edgebreaker_compact_proofs.NoDup_map_on; [apply NoDup_filter, seq_NoDup|].
      intros x y Hx Hy E. apply filter_In in Hx, Hy. destruct Hx as [X1 X2], Hy as [Y1 Y2]. apply in_seq in X1, Y1. apply Hinj; auto; lia.
    - intros z Hz. apply in_map_iff in Hz. destruct Hz as (v & <- & Hv). apply filter_In in Hv. destruct Hv as [Hv1 Hv2].
      apply in_seq in Hv1. destruct (Hrng v ltac:(lia) Hv2) as [R1 R2]. apply filter_In. split; [apply in_seq; lia|].
      destruct (nth (g v) L None); [reflexivity|congruence]. }
  pose proof (filter_partition_len is_none_b L) as P2. lia.
Qed.

Theorem verts_fit_noevent faces t o : ct_create faces = Some t -> eb_encode_ct t = EOk o -> o_events o = [] -> verts_fit o.
Proof.
  intros H E Ev.
  destruct (ct_create_wf _ _ H) as (Hlen & OK & Hv & FAN & Dg).
  destruct (eb_encode_ct_counts faces t o H E) as (_ & Ns & _ & _ & _ & _ & Nv & _).
  destruct (counters _ _ H) as (_ & _ & _ & _ & Ni).
  destruct (single_fan _ _ H) as [F1 _].
  set (c2v := ct_c2v t) in *. set (opp := ct_opp t) in *. set (nf := length faces) in *. set (nv := length (ct_vcorn t)) in *.
  unfold eb_encode_ct in E. fold c2v opp nv in E.
  (* the script of the encoding *)
  destruct (big_step_has_trace _ _ _ _ _ _ E) as (tr & Et).
  destruct (noevent_script c2v opp nf nv (ct_niso t) (ct_ndeg t) o tr Hlen OK Hv FAN Et Ev) as (_ & Sc).
  destruct (encode_facts_wf c2v opp nf nv (ct_niso t) (ct_ndeg t) o Hlen OK Hv FAN E) as (L & ND & _ & _ & _ & DJ).
  destruct (encode_runs2_wf c2v opp nf nv (ct_niso t) (ct_ndeg t) o Hlen OK Hv FAN E) as (_ & R2).
  destruct (eb_encode_total c2v opp nf nv (ct_niso t) (ct_ndeg t) Hlen OK Hv FAN) as [T1 T2].
  destruct (Nat.eq_dec nf (ct_ndeg t)) as [Eq|Ne]; [rewrite (T1 Eq) in E; discriminate|].
  destruct (T2 Ne) as (o' & E' & OO & _). rewrite E in E'. inversion E'; subst o'. clear E' T1 T2.
  destruct OO as (_ & Rng & Comp & _).
  set (Q := o_pcc o) in *. set (Y := rev (o_syms o)) in *.
  assert (LY : length Y = length (o_syms o)) by (unfold Y; apply rev_length).
  assert (Rq : forall j, j < length Q -> nth j Q 0 < 3 * nf /\ is_degenerated c2v (nth j Q 0 / 3) = false).
  { intros j Hj. rewrite Forall_forall in Rng. apply Rng. apply nth_In. auto. }
  assert (SO : start_ok c2v opp nf Q Y (o_bits o)).
  { destruct (RUNS2_idx _ _ _ _ _ _ _ Ev R2) as (_ & _ & LT & _ & HF).
    rewrite rev_length in LT. rewrite !rev_involutive in HF. apply start_ok_of_idx; auto. }
  set (F := Z.of_nat (length Q)).
  destruct (dec_precompact c2v opp nf Hlen OK Q Rq ND (3 * F)%Z (cntv Y) true Y eq_refl ltac:(lia) (Z.le_refl _) FAN (o_bits o) Comp
              ltac:(intros j Hj; apply Sc; lia) SO)
    as (d & s' & Ed & Es & Nv' & Evc & Einv & Linv & HWd & HFd & Hnfd & HW2 & HJ2 & Iso).
  (* every isolated vertex is on the invalid list *)
  assert (HC : Edgebreaker_compact_proofs.COV d).
  { apply (Edgebreaker_compact_proofs.sym_loop_COV (3 * F)%Z (cntv Y) (Z.of_nat (length Y)) Y 0%Z (D.init_st []) d); auto.
    - apply Edgebreaker_proofs.W_init; [unfold F; lia|apply cntv_nonneg].
    - apply Edgebreaker_fan_proofs.FI_init.
    - intros w Hw. cbn in Hw. lia.
    - cbn [D.nfaces D.init_st]. unfold F. lia. }
  assert (Env : D.nv d = cntv Y).
  { assert (HWn : Edgebreaker_proofs.W (3 * F)%Z (cntv Y) (D.nfaces d) d) by (rewrite Hnfd; exact HWd).
    destruct (Edgebreaker_proofs.start_loop_W (3 * F)%Z (cntv Y) _ _ _ _ _ _ eq_refl HWn (Edgebreaker_proofs.w_stack _ _ _ _ HWn) Es) as (_ & _ & X & _).
    congruence. }
  pose proof (cntv_nonneg Y) as Hc0.
  destruct Iso as (_ & _ & _ & _ & Iv).
  pose proof (count_core (Z.to_nat (cntv Y)) (fun v => negb (D.vc d (Z.of_nat v) =? -1)%Z) (D.invalid d)
                (fun v => vtx c2v (cmap Q (Z.to_nat (D.vc d (Z.of_nat v))))) (ct_vcorn t)) as CC.
  assert (Used : forall v, v < Z.to_nat (cntv Y) -> negb (D.vc d (Z.of_nat v) =? -1)%Z = true ->
            (0 <= D.vc d (Z.of_nat v) < 3 * F)%Z /\ D.c2v s' (D.vc d (Z.of_nat v)) = Z.of_nat v).
  { intros v Hvv U. apply negb_true_iff in U. apply Z.eqb_neq in U.
    assert (Rv : (0 <= Z.of_nat v < D.nv s')%Z) by lia.
    split.
    - destruct (Edgebreaker_proofs.w_lr _ _ _ _ HW2 _ Rv) as [X|X]; [rewrite Evc in X; congruence|rewrite Evc in X; exact X].
    - rewrite <- Evc. apply (Edgebreaker_compact_proofs.j_vc _ _ HJ2); auto. rewrite Evc. exact U. }
  assert (Fit : Z.to_nat (cntv Y) + length (filter is_none_b (ct_vcorn t)) <= length (ct_vcorn t) + length (D.invalid d)).
  { apply CC.
    - intros v Hvv U. apply negb_false_iff in U. apply Z.eqb_eq in U. apply HC; [lia|exact U].
    - intros v v' Hvv Hvv' U U' Eg. destruct (Used v Hvv U) as (R1 & C1). destruct (Used v' Hvv' U') as (R1' & C1').
      assert (X : D.c2v s' (Z.of_nat (Z.to_nat (D.vc d (Z.of_nat v)))) = D.c2v s' (Z.of_nat (Z.to_nat (D.vc d (Z.of_nat v'))))).
      { apply (Iv (Z.to_nat (D.vc d (Z.of_nat v))) (Z.to_nat (D.vc d (Z.of_nat v')))); [unfold F in *; lia|unfold F in *; lia|exact Eg]. }
      rewrite !Z2Nat.id in X by lia. lia.
    - intros v Hvv U. destruct (Used v Hvv U) as (R1 & _).
      set (dd := Z.to_nat (D.vc d (Z.of_nat v))). assert (Hdd : dd < 3 * length Q) by (unfold dd, F in *; lia).
      assert (Hj : dd / 3 < length Q) by (apply Nat.div_lt_upper_bound; lia).
      destruct (Rq (dd / 3) Hj) as (Rc & Dc).
      assert (Hc : cmap Q dd < 3 * nf).
      { unfold cmap. destruct (dd mod 3) as [|[|r]]; cbn [rot]; auto using next_lt, prev_lt. }
      assert (Dcc : is_degenerated c2v (cmap Q dd / 3) = false) by (unfold cmap; rewrite rot_face; exact Dc).
      split; [apply Hv; exact Hc|].
      destruct (F1 (cmap Q dd) Hc ltac:(rewrite <- Dg; exact Dcc)) as (l & El & _). fold c2v in El. rewrite El. discriminate. }
  unfold verts_fit. fold Y. rewrite Nv, Ns.
  assert (Ecnt : count_occ Z.eq_dec Y 1%Z = count_occ Z.eq_dec (o_syms o) TOPOLOGY_S) by (unfold Y; apply count_occ_rev).
  assert (Eni : ct_niso t = length (filter is_none_b (ct_vcorn t))) by exact Ni.
  lia.
Qed.

(** the round trip against DecodeConnectivity for the tables of CornerTable::Create, class "no split event", WITHOUT the
    premise [verts_fit].  The two remaining premises are those of C09_ebenc_stream_never_rejected_by_guards_partial: the size
    bound in which the model is faithful, and guard G3 (max_num_faces vs the number of edges of a SIMPLE graph on the
    encoded vertices) - G3 is NOT a consequence of C13's invariants: many faces over three vertices (pairwise glued or not)
    violate it, and DecodeConnectivity then rejects what the encoder produced. *)
Theorem ebsim_roundtrip_noevent_ct' faces t o rm : ct_create faces = Some t -> eb_encode_ct t = EOk o -> o_events o = [] ->
  (Z.of_nat (3 * length faces + length (ct_vcorn t)) < 2147483648)%Z ->
  ((3 * o_nfaces o) / 2 <= (o_nverts o * (o_nverts o - 1)) / 2)%Z ->
  exists n s, eb_decode_of o rm = D.Ok (n, s) /\ eb_iso (ct_c2v t) (ct_opp t) (o_pcc o) (D.c2v s) (D.copp s).
Proof.
  intros H E Ev Sz G3. apply (ebsim_roundtrip_noevent_ct faces t o rm); auto. apply (verts_fit_noevent faces t o); auto.
Qed.

(** ** the same count WITH split events, for every encoding that satisfies the script conditions of
    [EbSimEv_proofs.dec_roundtrip_events]: an S with a registered split corner also merges two decoder vertices (one goes to the
    invalid list), so again cntv = used vertices + at most one invalid vertex per S *)
Theorem verts_fit_script faces t o : ct_create faces = Some t -> eb_encode_ct t = EOk o ->
  (Z.of_nat (length (o_syms o)) < 2147483648)%Z ->
  (forall j, j < length (o_syms o) -> script_atE (ct_c2v t) (ct_opp t) (length faces) (o_pcc o) (rev (o_syms o)) (EVseg_of o) j) ->
  start_ok_g (ct_c2v t) (ct_opp t) (length faces) (o_pcc o) (rev (o_syms o))
             (topsE (rev (o_syms o)) (EVseg_of o) (length (o_syms o))) (o_bits o) ->
  verts_fit o.
Proof.
  intros H E Hns Sc SO.
  destruct (ct_create_wf _ _ H) as (Hlen & OK & Hv & FAN & Dg).
  destruct (eb_encode_ct_counts faces t o H E) as (_ & Ns & _ & _ & _ & _ & Nv & _).
  destruct (counters _ _ H) as (_ & _ & _ & _ & Ni).
  destruct (single_fan _ _ H) as [F1 _].
  set (c2v := ct_c2v t) in *. set (opp := ct_opp t) in *. set (nf := length faces) in *. set (nv := length (ct_vcorn t)) in *.
  unfold eb_encode_ct in E. fold c2v opp nv in E.
  destruct (encode_facts_wf c2v opp nf nv (ct_niso t) (ct_ndeg t) o Hlen OK Hv FAN E) as (L & ND & _).
  destruct (eb_encode_total c2v opp nf nv (ct_niso t) (ct_ndeg t) Hlen OK Hv FAN) as [T1 T2].
  destruct (Nat.eq_dec nf (ct_ndeg t)) as [Eq|Ne]; [rewrite (T1 Eq) in E; discriminate|].
  destruct (T2 Ne) as (o' & E' & OO & _). rewrite E in E'. inversion E'; subst o'. clear E' T1 T2.
  destruct OO as (_ & Rng & Comp & _).
  set (Q := o_pcc o) in *. set (Y := rev (o_syms o)) in *.
  assert (LY : length Y = length (o_syms o)) by (unfold Y; apply rev_length).
  assert (Rq : forall j, j < length Q -> nth j Q 0 < 3 * nf /\ is_degenerated c2v (nth j Q 0 / 3) = false).
  { intros j Hj. rewrite Forall_forall in Rng. apply Rng. apply nth_In. auto. }
  set (F := Z.of_nat (length Q)).
  destruct (dec_precompact_events c2v opp nf Hlen OK Q Rq ND (3 * F)%Z (cntv Y) true Y eq_refl ltac:(lia) (Z.le_refl _) FAN (EVseg_of o)
              ltac:(rewrite LY; exact Hns) (o_bits o) Comp ltac:(intros j Hj; apply Sc; lia) ltac:(rewrite LY; exact SO))
    as (d & s' & Ed & Es & Nv' & Evc & Einv & Linv & HWd & HFd & Hnfd & HW2 & HJ2 & Iso).
  (* every isolated vertex is on the invalid list *)
  assert (HC : Edgebreaker_compact_proofs.COV d).
  { apply (Edgebreaker_compact_proofs.sym_loop_COV (3 * F)%Z (cntv Y) (Z.of_nat (length Y)) Y 0%Z (D.init_st (rev (REM Y (EVseg_of o) 0))) d); auto.
    - apply Edgebreaker_proofs.W_init; [unfold F; lia|apply cntv_nonneg].
    - apply Edgebreaker_fan_proofs.FI_init.
    - intros w Hw. cbn in Hw. lia.
    - cbn [D.nfaces D.init_st]. unfold F. lia. }
  assert (Env : D.nv d = cntv Y).
  { assert (HWn : Edgebreaker_proofs.W (3 * F)%Z (cntv Y) (D.nfaces d) d) by (rewrite Hnfd; exact HWd).
    destruct (Edgebreaker_proofs.start_loop_W (3 * F)%Z (cntv Y) _ _ _ _ _ _ eq_refl HWn (Edgebreaker_proofs.w_stack _ _ _ _ HWn) Es) as (_ & _ & X & _).
    congruence. }
  pose proof (cntv_nonneg Y) as Hc0.
  destruct Iso as (_ & _ & _ & _ & Iv).
  pose proof (count_core (Z.to_nat (cntv Y)) (fun v => negb (D.vc d (Z.of_nat v) =? -1)%Z) (D.invalid d)
                (fun v => vtx c2v (cmap Q (Z.to_nat (D.vc d (Z.of_nat v))))) (ct_vcorn t)) as CC.
  assert (Used : forall v, v < Z.to_nat (cntv Y) -> negb (D.vc d (Z.of_nat v) =? -1)%Z = true ->
            (0 <= D.vc d (Z.of_nat v) < 3 * F)%Z /\ D.c2v s' (D.vc d (Z.of_nat v)) = Z.of_nat v).
  { intros v Hvv U. apply negb_true_iff in U. apply Z.eqb_neq in U.
    assert (Rv : (0 <= Z.of_nat v < D.nv s')%Z) by lia.
    split.
    - destruct (Edgebreaker_proofs.w_lr _ _ _ _ HW2 _ Rv) as [X|X]; [rewrite Evc in X; congruence|rewrite Evc in X; exact X].
    - rewrite <- Evc. apply (Edgebreaker_compact_proofs.j_vc _ _ HJ2); auto. rewrite Evc. exact U. }
  assert (Fit : Z.to_nat (cntv Y) + length (filter is_none_b (ct_vcorn t)) <= length (ct_vcorn t) + length (D.invalid d)).
  { apply CC.
    - intros v Hvv U. apply negb_false_iff in U. apply Z.eqb_eq in U. apply HC; [lia|exact U].
    - intros v v' Hvv Hvv' U U' Eg. destruct (Used v Hvv U) as (R1 & C1). destruct (Used v' Hvv' U') as (R1' & C1').
      assert (X : D.c2v s' (Z.of_nat (Z.to_nat (D.vc d (Z.of_nat v)))) = D.c2v s' (Z.of_nat (Z.to_nat (D.vc d (Z.of_nat v'))))).
      { apply (Iv (Z.to_nat (D.vc d (Z.of_nat v))) (Z.to_nat (D.vc d (Z.of_nat v')))); [unfold F in *; lia|unfold F in *; lia|exact Eg]. }
      rewrite !Z2Nat.id in X by lia. lia.
    - intros v Hvv U. destruct (Used v Hvv U) as (R1 & _).
      set (dd := Z.to_nat (D.vc d (Z.of_nat v))). assert (Hdd : dd < 3 * length Q) by (unfold dd, F in *; lia).
      assert (Hj : dd / 3 < length Q) by (apply Nat.div_lt_upper_bound; lia).
      destruct (Rq (dd / 3) Hj) as (Rc & Dc).
      assert (Hc : cmap Q dd < 3 * nf).
      { unfold cmap. destruct (dd mod 3) as [|[|r]]; cbn [rot]; auto using next_lt, prev_lt. }
      assert (Dcc : is_degenerated c2v (cmap Q dd / 3) = false) by (unfold cmap; rewrite rot_face; exact Dc).
      split; [apply Hv; exact Hc|].
      destruct (F1 (cmap Q dd) Hc ltac:(rewrite <- Dg; exact Dcc)) as (l & El & _). fold c2v in El. rewrite El. discriminate. }
  unfold verts_fit. fold Y. rewrite Nv, Ns.
  assert (Ecnt : count_occ Z.eq_dec Y 1%Z = count_occ Z.eq_dec (o_syms o) TOPOLOGY_S) by (unfold Y; apply count_occ_rev).
  assert (Eni : ct_niso t = length (filter is_none_b (ct_vcorn t))) by exact Ni.
  lia.
Qed.

(** hence the checked round trip against DecodeConnectivity needs no premise on the vertex count (any number of runs) *)
Theorem ebsim_roundtrip_checked_ct' faces t o rm : ct_create faces = Some t -> eb_encode_ct t = EOk o ->
  class_script (ct_c2v t) (ct_opp t) (length faces) o = true ->
  (Z.of_nat (3 * length faces + length (ct_vcorn t)) < 2147483648)%Z ->
  ((3 * o_nfaces o) / 2 <= (o_nverts o * (o_nverts o - 1)) / 2)%Z ->
  (Z.of_nat (length (o_events o)) <= o_nfaces o)%Z ->
  exists n s, eb_decode_of o rm = D.Ok (n, s) /\ eb_iso (ct_c2v t) (ct_opp t) (o_pcc o) (D.c2v s) (D.copp s).
Proof.
  intros H E Cl Sz G3 Hev. apply (ebsim_roundtrip_checked_ct faces t o rm); auto.
  unfold class_script in Cl. cbv zeta in Cl.
  apply andb_prop in Cl. destruct Cl as [Cl C4]. apply andb_prop in Cl. destruct Cl as [Cl C3]. apply andb_prop in Cl. destruct Cl as [C1 C2].
  rewrite rev_length in *.
  apply (verts_fit_script faces t o H E).
  - apply Z.ltb_lt. exact C1.
  - intros j Hj. apply script_atE_b_ok. rewrite forallb_forall in C3. apply C3. apply in_seq. lia.
  - apply (start_ok_b_ok _ _ _ _ _ (EVseg_of o)). exact C4.
Qed.
