(** EBSIM with split events, ENCODER side (one run = one start-face bit): the run invariants of EbTraceInv_proofs for the trace
    of [eb_encode_tr], and the resulting exact characterization of the recorded events ([events_characterized]):
      (src, spl, edge) is recorded  <->  src is an E / L / R symbol, spl < src an S symbol, and the right (edge 1) / left
      (edge 0) neighbour corner of src's corner lies in the face of spl's corner.
    This is the `ids and edge` half of the encoder lemma missing for the general round trip; the `stack` half (an event is
    recorded exactly when the left corner pushed at spl is later popped dead, and the decoder's stack [topsE] is the encoder's
    stack without the entries that die) is not proved. *)
From Coq Require Import ZArith List Bool Lia Arith PeanoNat.
From Draco Require Import Model.CornerTable Model.EbEncoder Model.EbTrace Proofs.CornerTable_proofs Proofs.EbEncoder_proofs.
From Draco Require Import Proofs.EbTrace_proofs Proofs.EbTraceStep_proofs Proofs.EbTraceInv_proofs Proofs.EbSimEnc_proofs Proofs.EbSimDec_proofs Proofs.EbSim_proofs.
From Draco Require Model.Edgebreaker.
From Draco Require Import Proofs.EbSimS_proofs Proofs.EbSimLoop_proofs Proofs.EbSimEv_proofs Proofs.EbSimEvChk_proofs Proofs.EbSimCount_proofs.
Import ListNotations.

Lemma nodup_bound (l : list nat) n : NoDup l -> (forall x, In x l -> x < n) -> length l <= n.
Proof.
  intros ND B. rewrite <- (seq_length n 0). apply NoDup_incl_length; auto. intros x Hx. apply in_seq. specialize (B x Hx). lia.
Qed.

Lemma hd_rev_last (l : list Z) : l <> [] -> hd 0%Z (rev l) = nth (length l - 1) l 0%Z.
Proof.
  intros Ne. destruct (rev l) as [|a r] eqn:E.
  - apply (f_equal (@length _)) in E. rewrite rev_length in E. destruct l; [congruence|discriminate].
  - cbn [hd]. rewrite <- (rev_involutive l), E. cbn [rev]. rewrite app_length, rev_length. cbn [length].
    rewrite app_nth2 by (rewrite rev_length; lia). rewrite rev_length. replace (length r + 1 - 1 - length r) with 0 by lia. reflexivity.
Qed.

Lemma start_ok_g_of_idx c2v opp nf Q Y (TS : list nat) B : length c2v = 3 * nf -> opp_ok c2v opp ->
  (forall j, j < length Q -> nth j Q 0 < 3 * nf /\ is_degenerated c2v (nth j Q 0 / 3) = false) ->
  NoDup (map (fun c => c / 3) Q) ->
  (forall f, f < nf -> is_degenerated c2v f = false -> In f (map (fun c => c / 3) Q)) ->
  length Y + cnt_true B = length Q ->
  length TS = length B ->
  (forall i j, nth_error TS i = Some j -> nth i B false = true ->
    j < length Y /\
    exists ic, nth_error (skipn (length Y) Q) (cnt_true (firstn i B)) = Some ic /\
               opp_at opp ic = Some (nth j (firstn (length Y) Q) 0) /\ IFc' c2v opp nf ic) ->
  (forall m1 m2, m1 < m2 -> length Y + m2 < length Q -> forall x1 x2, x1 < 3 * nf -> x2 < 3 * nf ->
     x1 / 3 = nth (length Y + m1) Q 0 / 3 -> x2 / 3 = nth (length Y + m2) Q 0 / 3 -> vtx c2v x1 <> vtx c2v x2) ->
  start_ok_g c2v opp nf Q Y TS B.
Proof.
  intros Hlen OK Qrng Qnd Comp L LT HF DJ. set (ns := length Y) in *.
  unfold start_ok_g. fold ns. split; auto. split; auto.
  intros i j Ej Bi. cbv zeta. destruct (HF i j Ej Bi) as (Hj & ic & A1 & A2 & A3).
  set (m0 := cnt_true (firstn i B)) in *. set (m := ns + m0).
  apply nth_error_skipn in A1. fold m in A1.
  assert (Hm : m < length Q) by (apply nth_error_Some; congruence).
  assert (Eic : nth m Q 0 = ic) by (apply nth_error_nth; auto).
  assert (E0 : eco Q m 0 = ic) by (unfold eco; cbn [rot]; auto).
  assert (Ejq : nth j (firstn ns Q) 0 = nth j Q 0).
  { rewrite <- (firstn_skipn ns Q) at 2. rewrite app_nth1; auto. rewrite firstn_length_le; lia. }
  rewrite Ejq in A2. split; [rewrite E0; exact A2|].
  destruct A3 as (Hic & HI).
  assert (CI : forall r, r < 3 -> Cint_t c2v opp nf Q m (eco Q m r)).
  { intros r Hr x Hx Nx Vx.
    assert (Ft : eco Q m r / 3 = ic / 3) by (unfold eco; rewrite rot_face, Eic; auto).
    assert (Ht : eco Q m r < 3 * nf).
    { unfold eco. rewrite Eic. destruct r as [|[|r]]; cbn [rot]; auto using next_lt, prev_lt. }
    destruct (HI _ Ht Ft) as (_ & HX). destruct (HX x Hx Nx Vx) as (X1 & X2). split; auto. split; auto.
    intros Ne.
    assert (Hf : x / 3 < nf) by (apply Nat.div_lt_upper_bound; lia).
    destruct (In_nth _ _ 0 (Comp _ Hf Nx)) as (j' & Hj' & Ej'). rewrite map_length in Hj'.
    assert (M : nth j' (map (fun c => c / 3) Q) 0 = nth j' Q 0 / 3) by (exact (map_nth (fun c => c / 3) Q 0 j')).
    rewrite M in Ej'.
    assert (Hlt : j' < m).
    { destruct (lt_eq_lt_dec j' m) as [[Lo|Eq]|Gt]; auto.
      - subst j'. exfalso. apply Ne. apply (same_face_vertex c2v); auto. rewrite <- Ej', Eic, Ft. auto.
        destruct (Qrng m Hm) as [_ Dm]. rewrite Ft, <- Eic. auto.
      - exfalso. apply (DJ m0 (j' - ns)) with (x1 := eco Q m r) (x2 := x); auto; try lia.
        + fold m. rewrite Eic. auto.
        + replace (ns + (j' - ns)) with j' by lia. auto. }
    symmetry in Ej'. destruct (face_rot _ _ Ej') as (r' & Hr' & Er'). exists j', r'. auto. }
  split; [apply CI; lia|]. split; apply CI; lia.
Qed.


Section OneRunFacts.
Variables (c2v : list nat) (opp : list (option nat)) (nf nv niso ndeg : nat) (o : enc_out) (tr : list cfg).
Hypothesis Hlen : length c2v = 3 * nf.
Hypothesis OK : opp_ok c2v opp.
Hypothesis Hv : forall c, c < 3 * nf -> vtx c2v c < nv.
Hypothesis FAN : one_fan c2v opp.
Hypothesis Et : eb_encode_tr c2v opp nv niso ndeg = EOk (o, tr).
Hypothesis Lb : length (o_bits o) = 1.

Let ns := length (o_syms o).
Let Q := o_pcc o.

(** the hypotheses of Section Inv for this trace *)
Lemma run_facts : tr <> [] ->
  exists yL sL,
    (forall i, S i < length tr -> SSTEP opp (cfN tr i) (cfN tr (S i))) /\
    (0 < length tr -> SPEC opp (sti tr (length tr - 1)) (ci tr (length tr - 1)) yL sL) /\
    (0 < length tr -> syms (sti tr 0) = [] /\ evs (sti tr 0) = [] /\ f2s (sti tr 0) = [] /\ last_id (sti tr 0) = (-1)%Z /\
                      stack (sti tr 0) = [Some (ci tr 0)]) /\
    (forall m m', m < length tr -> m' < length tr -> ci tr m / 3 = ci tr m' / 3 -> m = m') /\
    o_events o = rev (evs sL) /\ length tr = ns /\
    (forall m, m < length tr -> ci tr m = nth (ns - 1 - m) Q 0) /\
    (forall m, m < length tr -> ysym tr yL m = nth m (o_syms o) 0%Z) /\
    Forall (dead_at (vf sL)) (stack sL) /\ ns <= length Q /\
    (forall f, f < nf -> is_degenerated c2v f = false -> In f (map (fun c => c / 3) Q)) /\
    (forall j, j < length Q -> nth j Q 0 < 3 * nf /\ is_degenerated c2v (nth j Q 0 / 3) = false) /\
    NoDup (map (fun c => c / 3) Q) /\
    ns + count_occ bool_dec (o_bits o) true = length Q /\
    RUNS opp (IFc' c2v opp nf) (rev (o_bits o)) (rev (skipn ns Q)) (firstn ns Q) (rev (o_syms o)) /\
    (forall m1 m2, m1 < m2 -> ns + m2 < length Q -> forall x1 x2, x1 < 3 * nf -> x2 < 3 * nf ->
       x1 / 3 = nth (ns + m1) Q 0 / 3 -> x2 / 3 = nth (ns + m2) Q 0 / 3 -> vtx c2v x1 <> vtx c2v x2).
Proof.
  intros Ne.
  pose proof (trace_refines_big_step_ok _ _ _ _ _ _ _ Et) as E.
  destruct (trace_coherent _ _ _ _ _ _ _ Et) as [Lt Co]. fold ns in Lt, Co.
  destruct (encode_facts_wf c2v opp nf nv niso ndeg o Hlen OK Hv FAN E) as (L & ND & _ & _ & RU & DJ).
  destruct (eb_encode_total c2v opp nf nv niso ndeg Hlen OK Hv FAN) as [T1 T2].
  destruct (Nat.eq_dec nf ndeg) as [Eq|Nd]; [rewrite (T1 Eq) in E; discriminate|].
  destruct (T2 Nd) as (o' & E' & OO & _). rewrite E in E'. inversion E'; subst o'. clear E' T1 T2.
  destruct OO as (_ & Rng & Comp & _). fold Q in Rng, ND, L, Comp, RU, DJ. rewrite rev_length in L, RU, DJ. fold ns in L, RU, DJ.
  assert (LQ : ns <= length Q) by lia.
  assert (Bd : length tr <= NF c2v).
  { rewrite Lt. rewrite (NF_eq c2v nf Hlen). eapply Nat.le_trans; [exact LQ|]. rewrite <- (map_length (fun c => c / 3) Q).
    apply nodup_bound; [exact ND|]. intros x Hx. apply in_map_iff in Hx. destruct Hx as (c & <- & Hc).
    rewrite Forall_forall in Rng. destruct (Rng c Hc) as (Rc & _). apply Nat.div_lt_upper_bound; lia. }
  destruct (trace_one_call _ _ _ _ _ _ _ Et Lb) as [X|(hid & s0 & c0 & sF & Pr & Ec & Esy & Eev)]; [congruence|].
  assert (Bd' : length (rev tr) <= NF c2v) by (rewrite rev_length; exact Bd).
  destruct (from_corner_tr_sstep c2v opp hid s0 c0 sF (rev tr) Ec Bd') as (G & Fi & Po).
  assert (Nr : rev tr <> []) by (intro X; apply (f_equal (@rev _)) in X; rewrite rev_involutive in X; cbn in X; congruence).
  destruct Fi as [X|(pre & cf0 & Ep & Es0 & Ec0)]; [congruence|]. destruct Po as [X|Po]; [congruence|].
  destruct Po as (cfL & rL & EL & yL & s1 & dead & Sp & B & C & D & _).
  assert (Cf : forall i, i < length tr -> nth_error tr i = Some (cfN tr i)) by (intros i Hi; apply nth_error_nth'; exact Hi).
  assert (Corner : forall m, m < length tr -> ci tr m = nth (ns - 1 - m) Q 0).
  { intros m Hm. destruct (Co m _ (Cf m Hm)) as [_ C2]. unfold ci.
    assert (X : nth 0 (cf_corner (cfN tr m) :: pcc (cf_st (cfN tr m))) 0 = nth 0 (skipn (ns - 1 - m) (firstn ns Q)) 0) by (rewrite C2; auto).
    cbn [nth] in X. rewrite X. rewrite nth_skipn'. rewrite Nat.add_0_r. rewrite <- (firstn_skipn ns Q) at 2. rewrite app_nth1; auto.
    rewrite firstn_length_le; lia. }
  assert (E0 : tr = cf0 :: rev pre) by (rewrite <- (rev_involutive tr), Ep, rev_app_distr; reflexivity).
  assert (ELast : cfN tr (length tr - 1) = cfL).
  { unfold cfN. rewrite <- (rev_involutive tr) at 2. rewrite EL. cbn [rev]. rewrite <- (rev_length tr) at 1. rewrite EL. cbn [length].
    rewrite app_nth2 by (rewrite rev_length; lia). rewrite rev_length. replace (S (length rL) - 1 - length rL) with 0 by lia. reflexivity. }
  assert (SF : stack sF = []).
  { destruct (from_corner_tr_ladj c2v opp hid s0 c0 sF (rev tr) Ec) as (_ & _ & X & _). exact X. }
  exists yL, s1. split; [|split; [|split; [|split; [|split; [|split; [|split; [|split; [|split; [|split; [|split; [|split; [|split; [|split; [|split]]]]]]]]]]]]]].
  - intros i Hi. apply (gadj_rev_nth _ _ G i); rewrite rev_involutive; apply Cf; lia.
  - intros _. unfold sti, ci. rewrite ELast. exact Sp.
  - intros _. unfold sti, ci, cfN. rewrite E0. cbn [nth]. rewrite Es0, Ec0. destruct Pr as (Q1 & Q2 & Q3 & Q4 & Q5).
    cbn [with_stack syms evs f2s last_id stack]. auto.
  - intros m m' Hm Hm' F. rewrite (Corner m Hm), (Corner m' Hm') in F.
    assert (X : ns - 1 - m = ns - 1 - m') by (apply (Q_face_inj Q ND); [lia|lia|exact F]).
    lia.
  - rewrite Eev, C. reflexivity.
  - exact Lt.
  - exact Corner.
  - intros m Hm. unfold ysym. destruct (S m <? length tr) eqn:Em.
    + apply Nat.ltb_lt in Em. destruct (Co (S m) _ (Cf (S m) Em)) as [C1 _]. unfold sti. rewrite C1.
      rewrite (firstn_S_nth (o_syms o) m (nth m (o_syms o) 0%Z)) by (apply nth_error_nth'; fold ns; lia).
      rewrite rev_app_distr. reflexivity.
    + apply Nat.ltb_ge in Em. assert (m = ns - 1) by lia. subst m.
      destruct Sp as (Sy & _). rewrite C in Esy. cbn [with_stack syms] in Esy. rewrite Sy in Esy.
      assert (X : rev (o_syms o) = yL :: syms (cf_st cfL)) by (rewrite Esy, rev_involutive; reflexivity).
      assert (Y : hd 0%Z (rev (o_syms o)) = yL) by (rewrite X; reflexivity).
      rewrite <- Y. apply hd_rev_last. intro Z. unfold ns in Lt. rewrite Z in Lt. cbn in Lt. destruct tr; [congruence|discriminate].
  - rewrite B, SF, app_nil_r. exact D.
  - exact LQ.
  - exact Comp.
  - intros j Hj. rewrite Forall_forall in Rng. apply Rng. apply nth_In. exact Hj.
  - exact ND.
  - exact L.
  - exact RU.
  - exact DJ.
Qed.

(** ** the recorded events, exactly *)
Theorem events_characterized : forall src spl ed,
  In (src, spl, ed) (o_events o) <->
  exists m sg x, src = Z.of_nat m /\ spl = Z.of_nat sg /\ sg < m /\ m < ns /\ nth sg (o_syms o) 0%Z = 1%Z /\
    nth (ns - 1 - sg) Q 0 / 3 = x / 3 /\
    ((ed = 1%Z /\ (nth m (o_syms o) 0%Z = 5%Z \/ nth m (o_syms o) 0%Z = 7%Z) /\ oat opp (next_c (nth (ns - 1 - m) Q 0)) = Some x) \/
     (ed = 0%Z /\ (nth m (o_syms o) 0%Z = 3%Z \/ nth m (o_syms o) 0%Z = 7%Z) /\ oat opp (prev_c (nth (ns - 1 - m) Q 0)) = Some x)).
Proof.
  intros src spl ed.
  destruct tr as [|cf0 tr0] eqn:Etr.
  { (* no symbol at all *)
    pose proof (trace_refines_big_step_ok _ _ _ _ _ _ _ Et) as E.
    destruct (trace_coherent _ _ _ _ _ _ _ Et) as [Lt _]. cbn in Lt.
    destruct (eb_encode_total c2v opp nf nv niso ndeg Hlen OK Hv FAN) as [T1 T2].
    destruct (Nat.eq_dec nf ndeg) as [Eq|Nd]; [rewrite (T1 Eq) in E; discriminate|].
    destruct (T2 Nd) as (o' & E' & OO & _). rewrite E in E'. inversion E'; subst o'. clear E' T1 T2.
    destruct OO as (_ & _ & _ & Nsy & _ & _ & _ & _ & Rng & _).
    split.
    - intros Hin. rewrite Forall_forall in Rng. specialize (Rng _ Hin). cbn in Rng. lia.
    - intros (m & sg & x & _ & _ & _ & Hm & _). fold ns in Lt. lia. }
  rewrite <- Etr in *. assert (Ne : tr <> []) by (rewrite Etr; discriminate).
  destruct (run_facts Ne) as (yL & sL & Steps & Last & First & FND & Eev & Lt & Corner & Ysym & _).
  destruct (J5_all opp tr yL sL Steps Last First FND) as (_ & J5N).
  assert (HN : 0 < length tr) by (destruct tr; [congruence|cbn; lia]).
  specialize (J5N HN src spl ed). rewrite Eev, <- in_rev, J5N. rewrite Lt. split.
  - intros (m & Hm & -> & x & sg & -> & Hs & Ys & Fs & Cs). exists m, sg, x.
    rewrite Ysym in Ys by lia. rewrite (Corner sg) in Fs by lia. rewrite (Corner m) in Cs by lia. rewrite (Ysym m) in Cs by lia.
    split; [reflexivity|]. split; [reflexivity|]. split; [exact Hs|]. split; [lia|]. split; [exact Ys|]. split; [exact Fs|exact Cs].
  - intros (m & sg & x & -> & -> & Hs & Hm & Ys & Fs & Cs). exists m. split; [lia|]. split; [reflexivity|]. exists x, sg.
    rewrite Ysym by lia. rewrite (Corner sg) by lia. rewrite (Corner m) by lia. rewrite (Ysym m) by lia.
    split; [reflexivity|]. split; [exact Hs|]. split; [exact Ys|]. split; [exact Fs|exact Cs].
Qed.

(** ** dead pops and events *)
Section Enc1.
Variables (yL : Z) (sL : est).
Hypothesis Steps : forall i, S i < length tr -> SSTEP opp (cfN tr i) (cfN tr (S i)).
Hypothesis Last : 0 < length tr -> SPEC opp (sti tr (length tr - 1)) (ci tr (length tr - 1)) yL sL.
Hypothesis First : 0 < length tr -> syms (sti tr 0) = [] /\ evs (sti tr 0) = [] /\ f2s (sti tr 0) = [] /\ last_id (sti tr 0) = (-1)%Z /\
                      stack (sti tr 0) = [Some (ci tr 0)].
Hypothesis FND : forall m m', m < length tr -> m' < length tr -> ci tr m / 3 = ci tr m' / 3 -> m = m'.
Hypothesis Eev : o_events o = rev (evs sL).
Hypothesis Lt : length tr = ns.
Hypothesis Corner : forall m, m < length tr -> ci tr m = nth (ns - 1 - m) Q 0.
Hypothesis Ysym : forall m, m < length tr -> ysym tr yL m = nth m (o_syms o) 0%Z.
Hypothesis FinalDead : Forall (dead_at (vf sL)) (stack sL).
Hypothesis LQ : ns <= length Q.
Hypothesis Comp : forall f, f < nf -> is_degenerated c2v f = false -> In f (map (fun c => c / 3) Q).
Hypothesis Rq : forall j, j < length Q -> nth j Q 0 < 3 * nf /\ is_degenerated c2v (nth j Q 0 / 3) = false.
Hypothesis NDQ : NoDup (map (fun c => c / 3) Q).
Hypothesis LenQ : ns + count_occ bool_dec (o_bits o) true = length Q.
Hypothesis RU : RUNS opp (IFc' c2v opp nf) (rev (o_bits o)) (rev (skipn ns Q)) (firstn ns Q) (rev (o_syms o)).
Hypothesis DJ : forall m1 m2, m1 < m2 -> ns + m2 < length Q -> forall x1 x2, x1 < 3 * nf -> x2 < 3 * nf ->
       x1 / 3 = nth (ns + m1) Q 0 / 3 -> x2 / 3 = nth (ns + m2) Q 0 / 3 -> vtx c2v x1 <> vtx c2v x2.

Let N := length tr.
Local Notation c := (ci tr).
Local Notation y := (ysym tr yL).

Lemma OPPINV : forall a b, oat opp a = Some b -> oat opp b = Some a.
Proof. intros a b H. apply (opp_facts c2v opp nf Hlen OK a b H). Qed.

Let step_stk := step_stack opp tr yL sL Steps Last First FND OPPINV.
Let dead_na := dead_not_alive opp tr yL sL Steps Last First FND OPPINV.
Let VA_sp := VA_spec opp tr yL sL Steps Last First FND OPPINV.
Let aft_x := aft_ex opp tr yL sL Steps Last First FND.
Let J2s := J2_all opp tr yL sL Steps Last First FND.

(** the history fact of the symbol with encoder index m *)
Lemma efact_m m : m < N -> efact c2v opp nf Q (ns - 1 - m) (c m) (y m).
Proof.
  intros Hm. pose proof (trace_refines_big_step_ok _ _ _ _ _ _ _ Et) as E.
  destruct (encode_facts_wf c2v opp nf nv niso ndeg o Hlen OK Hv FAN E) as (_ & _ & Fk & _).
  fold Q in Fk. unfold N in Hm. rewrite Lt in Hm.
  specialize (Fk (ns - 1 - m) (nth m (o_syms o) 0%Z)).
  rewrite (Corner m), (Ysym m) by lia. apply Fk.
  rewrite nth_error_nth' with (d := 0%Z) by (rewrite rev_length; fold ns; lia). f_equal.
  rewrite rev_nth by (fold ns; lia). f_equal. fold ns. lia.
Qed.

Definition alive (l : nat) : Prop := exists m, m < N /\ c m = l.

Lemma next_ne c0 : next_c c0 <> c0.
Proof. intro X. destruct (corner_cases c0) as [E|[E|E]]; rewrite E in X; rewrite ?next_0, ?next_1, ?next_2 in X; lia. Qed.
Lemma prev_ne c0 : prev_c c0 <> c0.
Proof. intro X. destruct (corner_cases c0) as [E|[E|E]]; rewrite E in X; rewrite ?prev_0, ?prev_1, ?prev_2 in X; lia. Qed.

(** a neighbour corner of a later symbol that lies in the face of the S symbol sg is the corner of its LEFT edge *)
Lemma ev_left sg m sd x : sg < m -> m < N -> y sg = 1%Z -> (sd = next_c (c m) \/ sd = prev_c (c m)) ->
  oat opp sd = Some x -> x / 3 = c sg / 3 -> x = prev_c (c sg).
Proof.
  intros Hs Hm Ys Hsd Eo Fx.
  assert (Fsd : sd / 3 = c m / 3) by (destruct Hsd as [-> | ->]; [apply next_face|apply prev_face]).
  pose proof (OPPINV _ _ Eo) as Eo'.
  destruct (face_corners (c sg) x Fx) as [X|[X|X]]; auto; exfalso.
  - (* the gate of sg was visited before sg *)
    subst x. destruct (efact_m sg ltac:(lia)) as (_ & _ & Gv & _). unfold nvis in Gv.
    change (opp_at opp (c sg)) with (oat opp (c sg)) in Gv. specialize (Gv sd Eo' (ns - 1 - m) ltac:(unfold N in *; lia)).
    apply Gv. rewrite <- (Corner m) by lia. symmetry. exact Fsd.
  - (* the right corner of sg is the corner processed next *)
    subst x. assert (HS : S sg < length tr) by (unfold N in *; lia).
    destruct (step_stk sg HS) as [([Y|Y] & _)|[(Y & _)|[(Y & _)|(_ & _ & En & _)]]]; try congruence.
    rewrite En in Eo'. inversion Eo' as [X].
    assert (S sg = m) by (apply FND; [exact HS|exact Hm|rewrite X; exact Fsd]). subst m.
    destruct Hsd as [Y1|Y1]; rewrite Y1 in X; [apply (next_ne (c (S sg)))|apply (prev_ne (c (S sg)))]; symmetry; exact X.
Qed.

(** the events, in terms of the trace *)
Lemma ev_in src spl ed : In (src, spl, ed) (o_events o) <-> exists m, m < N /\ src = Z.of_nat m /\ EVAT opp tr yL m spl ed.
Proof.
  destruct (Nat.eq_dec N 0) as [Z0|NZ].
  { split.
    - intros Hin. exfalso. pose proof (trace_refines_big_step_ok _ _ _ _ _ _ _ Et) as E.
      destruct (eb_encode_total c2v opp nf nv niso ndeg Hlen OK Hv FAN) as [T1 T2].
      destruct (Nat.eq_dec nf ndeg) as [Eq|Nd]; [rewrite (T1 Eq) in E; discriminate|].
      destruct (T2 Nd) as (o' & E' & OO & _). rewrite E in E'. inversion E'; subst o'.
      destruct OO as (_ & _ & _ & Nsy & _ & _ & _ & _ & Rng & _). rewrite Forall_forall in Rng. specialize (Rng _ Hin). cbn in Rng.
      unfold N in Z0. rewrite Lt in Z0. fold ns in Nsy. lia.
    - intros (m & Hm & _). lia. }
  destruct (J5_all opp tr yL sL Steps Last First FND) as (_ & J5N). specialize (J5N ltac:(unfold N in NZ; lia) src spl ed).
  rewrite Eev, <- in_rev. exact J5N.
Qed.

(** an event for the S symbol sg: its left corner is a corner of the source symbol's face other than its processing corner *)
Lemma ev_not_alive sg l : sg < N -> y sg = 1%Z -> oat opp (prev_c (c sg)) = Some l ->
  (exists src ed, In (src, Z.of_nat sg, ed) (o_events o)) -> ~ alive l.
Proof.
  intros Hs Ys El (src & ed & Hin) (m' & Hm' & Em').
  apply ev_in in Hin. destruct Hin as (m & Hm & _ & x & sg' & Esg & Hsg & _ & Fx & Cs).
  assert (sg' = sg) by lia. subst sg'.
  assert (X : exists sd, (sd = next_c (c m) \/ sd = prev_c (c m)) /\ oat opp sd = Some x).
  { destruct Cs as [(_ & _ & Eo)|(_ & _ & Eo)]; [exists (next_c (c m))|exists (prev_c (c m))]; split; auto. }
  destruct X as (sd & Hsd & Eo).
  pose proof (ev_left sg m sd x Hsg Hm Ys Hsd Eo (eq_sym Fx)) as Ex. subst x.
  apply OPPINV in Eo. assert (El' : l = sd) by congruence. rewrite El' in Em'.
  assert (Em : m' = m).
  { apply FND; [exact Hm'|exact Hm|]. rewrite Em'. destruct Hsd as [-> | ->]; [apply next_face|apply prev_face]. }
  rewrite Em in Em'. destruct Hsd as [Y1|Y1]; rewrite Y1 in Em'; [apply (next_ne (c m))|apply (prev_ne (c m))]; symmetry; exact Em'.
Qed.

(** the state after symbol m *)
Lemma aft_VA m s1 : m < N -> aft opp tr yL sL m s1 -> vf s1 = VA tr sL m.
Proof.
  intros Hm (_ & A & B). unfold VA. destruct (S m <? length tr) eqn:E.
  - apply Nat.ltb_lt in E. rewrite (A E). reflexivity.
  - apply Nat.ltb_ge in E. rewrite (B ltac:(unfold N in Hm; lia)). reflexivity.
Qed.

(** the last symbol is not S *)
Lemma S_not_last : 0 < N -> y (N - 1) <> 1%Z.
Proof.
  intros HN Y. destruct (aft_x (N - 1) ltac:(unfold N in *; lia)) as (s1 & Sp & _ & Es). specialize (Es ltac:(unfold N in *; lia)). subst s1.
  destruct Sp as (_ & _ & _ & _ & _ & D). cbv zeta in D. fold y in D.
  destruct D as [(Y0 & _)|[(Y0 & _)|[(Y0 & _)|[(Y0 & _)|(_ & (r & Er & Ur) & _ & _ & St & _)]]]]; try congruence.
  pose proof FinalDead as FD. rewrite St, Er in FD. inversion FD as [|? ? Dr _]. cbn [dead_at] in Dr. congruence.
Qed.

(** an entry below the top that is never popped alive ends with a visited face *)
Lemma fate l : ~ alive l -> forall d j, j + d = N - 1 -> j < N -> In (Some l) (tl (stack (sti tr j))) ->
  exists i, i < N /\ nth (l / 3) (VA tr sL i) false = true.
Proof.
  intros Na. induction d as [|d IH]; intros j Ej Hj Hin.
  - assert (j = N - 1) by lia. subst j. exists (N - 1). split; [lia|].
    destruct (aft_x (N - 1) ltac:(unfold N in *; lia)) as (s1 & Af). rewrite <- (aft_VA (N - 1) s1 ltac:(lia) Af).
    destruct Af as (Sp & _ & Es). specialize (Es ltac:(unfold N in *; lia)). subst s1.
    destruct Sp as (_ & _ & _ & _ & _ & D). cbv zeta in D. pose proof FinalDead as FD. rewrite Forall_forall in FD.
    assert (InS : forall e, In e (tl (stack (sti tr (N - 1)))) -> In e (stack (sti tr (N - 1)))) by (intros e He; destruct (stack (sti tr (N - 1))); [destruct He|right; exact He]).
    destruct D as [(_ & St & _)|[(_ & _ & _ & St & _)|[(_ & _ & _ & St & _)|[(_ & _ & _ & _ & St & _)|(Y0 & _)]]]].
    + apply (FD (Some l)). rewrite St. apply InS. exact Hin.
    + apply (FD (Some l)). rewrite St. apply InS. exact Hin.
    + apply (FD (Some l)). rewrite St. apply InS. exact Hin.
    + apply (FD (Some l)). rewrite St. exact Hin.
    + exfalso. apply (S_not_last ltac:(lia)). exact Y0.
  - assert (HS : S j < length tr) by (unfold N in *; lia).
    destruct (step_stk j HS) as [(_ & E & _)|[(_ & E & _)|[(_ & _ & dead & rest & E0 & E & Dd & _)|(_ & _ & _ & l0 & _ & _ & E)]]].
    + apply (IH (S j)); [lia|unfold N in *; lia|rewrite E; exact Hin].
    + apply (IH (S j)); [lia|unfold N in *; lia|rewrite E; exact Hin].
    + rewrite E0 in Hin. apply in_app_or in Hin. destruct Hin as [Hd|[He|Hr]].
      * exists j. split; [exact Hj|]. rewrite Forall_forall in Dd. specialize (Dd _ Hd). cbn [dead_at] in Dd.
        unfold VA. replace (S j <? length tr) with true by (symmetry; apply Nat.ltb_lt; exact HS). exact Dd.
      * exfalso. apply Na. exists (S j). split; [unfold N; exact HS|]. inversion He. reflexivity.
      * apply (IH (S j)); [lia|unfold N in *; lia|rewrite E; cbn [tl]; exact Hr].
    + apply (IH (S j)); [lia|unfold N in *; lia|rewrite E; cbn [tl]; right; exact Hin].
Qed.

(** ... and then the symbol that visited its face recorded an event for the S symbol *)
Lemma not_alive_ev sg l : sg < N -> y sg = 1%Z -> oat opp (prev_c (c sg)) = Some l -> ~ alive l ->
  exists src ed, In (src, Z.of_nat sg, ed) (o_events o).
Proof.
  intros Hs Ys El Na.
  assert (HN : 0 < N) by lia.
  assert (HSs : S sg < length tr).
  { destruct (Nat.eq_dec (S sg) N) as [X|X]; [|unfold N in *; lia]. exfalso. apply (S_not_last HN). replace (N - 1) with sg by lia. exact Ys. }
  (* after the S symbol: l is below the top, its face is not visited *)
  destruct (step_stk sg HSs) as [([Y0|Y0] & _)|[(Y0 & _)|[(Y0 & _)|(_ & _ & _ & l0 & El0 & Ul & Est)]]]; try congruence.
  rewrite El in El0. inversion El0; subst l0. clear El0.
  destruct (fate l Na (N - 1 - S sg) (S sg) ltac:(unfold N in *; lia) ltac:(unfold N in *; lia)) as (i & Hi & Vis).
  { rewrite Est. cbn [tl]. left. reflexivity. }
  destruct J2s as (J2a & _). destruct (J2a (S sg) HSs) as (_ & J2m).
  assert (Nm : ~ (nth (l / 3) (vf (sti tr 0)) false = true \/ exists m', m' < S sg /\ c m' / 3 = l / 3)).
  { intro X. apply J2m in X. congruence. }
  apply (VA_sp i ltac:(unfold N in Hi; exact Hi)) in Vis. destruct Vis as [X|(m2 & Hm2 & Fm2)]; [exfalso; apply Nm; auto|].
  assert (L1 : S sg <= m2).
  { destruct (le_lt_dec (S sg) m2); auto. exfalso. apply Nm. right. exists m2. split; auto. }
  assert (Hm2N : m2 < N) by lia.
  assert (Ncl : c m2 <> l) by (intro X; apply Na; exists m2; split; auto).
  pose proof (OPPINV _ _ El) as Eol. set (x := prev_c (c sg)) in *.
  assert (Fx : x / 3 = c sg / 3) by (unfold x; apply prev_face).
  (* the state after m2: the face of x is visited *)
  destruct (aft_x m2 ltac:(unfold N in *; lia)) as (s1 & Af). pose proof (aft_VA _ _ Hm2N Af) as Evf.
  assert (Vx : nth (x / 3) (vf s1) false = true).
  { rewrite Evf. apply (VA_sp m2 ltac:(unfold N in *; lia)). right. exists sg. split; [lia|]. symmetry. exact Fx. }
  destruct Af as ((_ & _ & _ & _ & _ & D) & _). cbv zeta in D. fold y in D.
  destruct (efact_m m2 Hm2N) as (_ & _ & _ & Dm). cbv zeta in Dm.
  assert (Ev : exists ed, EVAT opp tr yL m2 (Z.of_nat sg) ed).
  { destruct (face_corners (c m2) l (eq_sym Fm2)) as [X|[X|X]]; [congruence| |].
    - (* l is the right neighbour's side *)
      rewrite <- X in D. rewrite Eol in D.
      destruct D as [(Y0 & _)|[(Y0 & _)|[(Y0 & (x' & Ex' & Ux') & _)|[(Y0 & _)|(Y0 & (x' & Ex' & Ux') & _)]]]].
      + exfalso. destruct Dm as [(Y1 & _)|[(Y1 & _)|[(Y1 & _)|[(_ & K1 & Erc & _)|(Y1 & _)]]]]; try congruence.
        change (opp_at opp (next_c (c m2))) with (oat opp (next_c (c m2))) in Erc. rewrite <- X, Eol in Erc. inversion Erc as [Ex].
        assert (HS2 : S m2 < length tr) by (unfold N in *; lia).
        assert (Ec2 : c (S m2) = nth (ns - 1 - m2 - 1) Q 0) by (rewrite (Corner (S m2) HS2); f_equal; lia).
        rewrite <- Ec2 in Ex.
        assert (sg = S m2) by (apply FND; [unfold N in *; lia|exact HS2|rewrite <- Ex; symmetry; exact Fx]). lia.
      + exists 1%Z. exists x, sg. split; auto. split; [lia|]. split; auto. split; [symmetry; exact Fx|]. left. split; auto. split; [left; exact Y0|]. rewrite <- X. exact Eol.
      + exfalso. inversion Ex'; subst x'. congruence.
      + exists 1%Z. exists x, sg. split; auto. split; [lia|]. split; auto. split; [symmetry; exact Fx|]. left. split; auto. split; [right; exact Y0|]. rewrite <- X. exact Eol.
      + exfalso. inversion Ex'; subst x'. congruence.
    - (* l is the left neighbour's side *)
      rewrite <- X in D. rewrite Eol in D.
      destruct D as [(Y0 & _)|[(Y0 & _ & (x' & Ex' & Ux') & _)|[(Y0 & _)|[(Y0 & _)|(Y0 & _ & (x' & Ex' & Ux') & _)]]]].
      + exfalso. destruct Dm as [(Y1 & _)|[(Y1 & _)|[(Y1 & _)|[(_ & K1 & _ & Ci)|(Y1 & _)]]]]; try congruence.
        destruct (efact_m sg Hs) as (Rs & Ds & _).
        destruct (opp_facts c2v opp nf Hlen OK l x Eol) as (_ & _ & _ & _ & _ & _ & V1 & _).
        rewrite X, next_prev in V1. unfold x in V1. rewrite prev_prev in V1.
        destruct (Ci (next_c (c sg)) (next_lt _ _ Rs) ltac:(rewrite next_face; exact Ds) (eq_sym V1)) as (_ & _ & Cj).
        apply (Cj (ns - 1 - sg)); [unfold N in *; lia|]. rewrite <- (Corner sg) by (unfold N in *; lia). symmetry. apply next_face.
      + exfalso. inversion Ex'; subst x'. congruence.
      + exists 0%Z. exists x, sg. split; auto. split; [lia|]. split; auto. split; [symmetry; exact Fx|]. right. split; auto. split; [left; exact Y0|]. rewrite <- X. exact Eol.
      + exists 0%Z. exists x, sg. split; auto. split; [lia|]. split; auto. split; [symmetry; exact Fx|]. right. split; auto. split; [right; exact Y0|]. rewrite <- X. exact Eol.
      + exfalso. inversion Ex'; subst x'. congruence. }
  destruct Ev as (ed & Ev). exists (Z.of_nat m2), ed. apply ev_in. exists m2. auto.
Qed.

(** ** the script with events, in decoder indices *)
Let Y := rev (o_syms o).
Let ES := EVseg_of o.

Lemma Y_at' k : k < ns -> nth_error Y k = Some (y (ns - 1 - k)).
Proof.
  intros Hk. unfold Y. rewrite (Ysym (ns - 1 - k)) by lia.
  rewrite nth_error_nth' with (d := 0%Z) by (rewrite rev_length; fold ns; lia). f_equal.
  rewrite rev_nth by (fold ns; lia). f_equal. fold ns. lia.
Qed.
Lemma Qc k : k < ns -> nth k Q 0 = c (ns - 1 - k).
Proof. intros Hk. rewrite (Corner (ns - 1 - k)) by lia. f_equal. lia. Qed.

Lemma ES_in j e : In e (ES j) <->
  exists src spl ed, In (src, spl, ed) (o_events o) /\ src = Z.of_nat (ns - 1 - j) /\ e = (ns - 1 - Z.to_nat spl, (ed =? 1)%Z).
Proof.
  unfold ES, EVseg_of. fold ns. rewrite in_map_iff. split.
  - intros ([[src spl] ed] & <- & Hin). apply filter_In in Hin. destruct Hin as (Hin & Hs). apply in_rev in Hin.
    exists src, spl, ed. split; auto. split; [lia|reflexivity].
  - intros (src & spl & ed & Hin & Es & ->). exists (src, spl, ed). split; auto. apply filter_In. split; [apply -> in_rev; exact Hin|lia].
Qed.

(** an event for the S symbol with encoder index sg <-> hasev at its decoder index *)
Lemma hasev_iff sg : sg < N -> (hasev ES (ns - 1 - sg) = true <-> exists src ed, In (src, Z.of_nat sg, ed) (o_events o)).
Proof.
  intros Hs. unfold N in Hs. rewrite Lt in Hs. split.
  - intros H. unfold hasev in H. apply existsb_exists in H. destruct H as (j & Hj & H). apply existsb_exists in H. destruct H as (e & He & Ee).
    apply Nat.eqb_eq in Ee. apply ES_in in He. destruct He as (src & spl & ed & Hin & _ & ->). cbn [fst] in Ee.
    pose proof Hin as Hin'. apply ev_in in Hin'. destruct Hin' as (m & Hm & _ & x & sg' & -> & Hsg' & _).
    rewrite Nat2Z.id in Ee. assert (sg' = sg) by (unfold N in Hm; lia). subst sg'. eauto.
  - intros (src & ed & Hin). pose proof Hin as Hin'. apply ev_in in Hin'. destruct Hin' as (m & Hm & -> & x & sg' & Esg & Hsg' & _).
    assert (sg' = sg) by lia. subst sg'. unfold N in Hm. rewrite Lt in Hm.
    unfold hasev. apply existsb_exists. exists (ns - 1 - m). split; [apply in_seq; lia|]. apply existsb_exists.
    exists (ns - 1 - sg, (ed =? 1)%Z). split.
    + apply ES_in. exists (Z.of_nat m), (Z.of_nat sg), ed. split; auto. split; [f_equal; lia|]. rewrite Nat2Z.id. reflexivity.
    + apply Nat.eqb_eq. reflexivity.
Qed.

Lemma ES_nil k : k < ns -> (y (ns - 1 - k) = 0%Z \/ y (ns - 1 - k) = 1%Z) -> ES k = [].
Proof.
  intros Hk Hy. destruct (ES k) as [|e l] eqn:E; auto. exfalso.
  assert (He : In e (ES k)) by (rewrite E; left; auto). apply ES_in in He. destruct He as (src & spl & ed & Hin & Es & _).
  apply ev_in in Hin. destruct Hin as (m & Hm & Em & x & sg & _ & _ & _ & _ & Cs).
  assert (m = ns - 1 - k) by lia. subst m.
  destruct Cs as [(_ & [Z|Z] & _)|(_ & [Z|Z] & _)]; destruct Hy as [Hy|Hy]; congruence.
Qed.

Lemma ES_bound k e : In e (ES k) -> fst e < ns.
Proof.
  intros He. apply ES_in in He. destruct He as (src & spl & ed & Hin & _ & ->). cbn [fst].
  apply ev_in in Hin. destruct Hin as (m & Hm & _). unfold N in Hm. lia.
Qed.

(** the data of the event registered for the S symbol at decoder index k *)
Lemma ES_event k j e : k < ns -> y (ns - 1 - k) = 1%Z -> In e (ES j) -> fst e = k ->
  j < k /\ opp_at opp (eco Q k 2) = Some (eco Q j (ra_of e)).
Proof.
  intros Hk Yk He Ee. apply ES_in in He. destruct He as (src & spl & ed & Hin & Es & ->). cbn [fst] in Ee.
  apply ev_in in Hin. destruct Hin as (m & Hm & Em & x & sg & -> & Hsg & Ysg & Fx & Cs). rewrite Nat2Z.id in Ee.
  unfold N in Hm. rewrite Lt in Hm. assert (m = ns - 1 - j) by lia. assert (sg = ns - 1 - k) by lia. subst m sg.
  split; [lia|].
  assert (X : exists sd, (sd = next_c (c (ns - 1 - j)) \/ sd = prev_c (c (ns - 1 - j))) /\ oat opp sd = Some x /\
              sd = eco Q j (ra_of (ns - 1 - Z.to_nat (Z.of_nat (ns - 1 - k)), (ed =? 1)%Z))).
  { unfold ra_of. cbn [snd]. unfold eco. rewrite (Qc j) by lia.
    destruct Cs as [(-> & _ & Eo)|(-> & _ & Eo)]; cbn [Z.eqb Pos.eqb rot]; [exists (next_c (c (ns - 1 - j)))|exists (prev_c (c (ns - 1 - j)))]; auto. }
  destruct X as (sd & Hsd & Eo & Esd).
  pose proof (ev_left (ns - 1 - k) (ns - 1 - j) sd x Hsg ltac:(unfold N; lia) Ysg Hsd Eo (eq_sym Fx)) as Ex. subst x.
  apply OPPINV in Eo. unfold eco at 1. cbn [rot]. rewrite (Qc k) by lia. rewrite <- Esd. exact Eo.
Qed.

(** ** the decoder's stack [topsE] = the encoder's stack without the entries that die *)
(** every S symbol has at most one event; no event is recorded twice: |events| <= #symbols *)
Lemma ev_spl_unique src spl ed src' ed' : In (src, spl, ed) (o_events o) -> In (src', spl, ed') (o_events o) -> src = src' /\ ed = ed'.
Proof.
  intros H1 H2. pose proof H1 as H1'. pose proof H2 as H2'.
  apply ev_in in H1'. destruct H1' as (m & Hm & -> & x & sg & -> & Hsg & Ysg & Fx & Cs).
  apply ev_in in H2'. destruct H2' as (m' & Hm' & -> & x' & sg' & Esg & Hsg' & _ & _ & Cs').
  assert (sg' = sg) by lia. subst sg'. unfold N in Hm, Hm'. rewrite Lt in Hm, Hm'.
  set (k := ns - 1 - sg). assert (Hk : k < ns) by (unfold k; lia).
  assert (Yk : y (ns - 1 - k) = 1%Z) by (unfold k; replace (ns - 1 - (ns - 1 - sg)) with sg by lia; exact Ysg).
  assert (I1 : In (k, (ed =? 1)%Z) (ES (ns - 1 - m))).
  { apply ES_in. exists (Z.of_nat m), (Z.of_nat sg), ed. split; auto. split; [f_equal; lia|]. rewrite Nat2Z.id. reflexivity. }
  assert (I2 : In (k, (ed' =? 1)%Z) (ES (ns - 1 - m'))).
  { apply ES_in. exists (Z.of_nat m'), (Z.of_nat sg), ed'. split; auto. split; [f_equal; lia|]. rewrite Nat2Z.id. reflexivity. }
  destruct (ES_event k _ _ Hk Yk I1 eq_refl) as (J1 & O1). destruct (ES_event k _ _ Hk Yk I2 eq_refl) as (J2 & O2).
  rewrite O1 in O2. inversion O2 as [X].
  assert (R1 : ra_of (k, (ed =? 1)%Z) < 3) by (unfold ra_of; cbn [snd]; destruct (ed =? 1)%Z; lia).
  assert (R2 : ra_of (k, (ed' =? 1)%Z) < 3) by (unfold ra_of; cbn [snd]; destruct (ed' =? 1)%Z; lia).
  destruct (eco_inj Q NDQ (ns - 1 - m) (ra_of (k, (ed =? 1)%Z)) (ns - 1 - m') (ra_of (k, (ed' =? 1)%Z)) ltac:(lia) ltac:(lia) R1 R2 X) as (Ej & Er).
  split; [f_equal; lia|]. unfold ra_of in Er. cbn [snd] in Er.
  assert (D1 : ed = 1%Z \/ ed = 0%Z) by (destruct Cs as [(A & _)|(A & _)]; auto).
  assert (D2 : ed' = 1%Z \/ ed' = 0%Z) by (destruct Cs' as [(A & _)|(A & _)]; auto).
  destruct D1 as [-> | ->]; destruct D2 as [-> | ->]; cbn in Er; auto; lia.
Qed.

Lemma events_le : 0 < N -> length (o_events o) <= ns.
Proof.
  intros HN.
  destruct (J6_all opp tr yL sL Steps Last First FND) as (_ & J6N). specialize (J6N HN). unfold J6 in J6N.
  assert (ND : NoDup (o_events o)) by (rewrite Eev; apply NoDup_rev; exact J6N).
  rewrite <- (map_length (fun e : Z * Z * Z => Z.to_nat (snd (fst e))) (o_events o)).
  apply nodup_bound.
  - apply Edgebreaker_compact_proofs.NoDup_map_on; [exact ND|].
    intros [[s1 p1] e1] [[s2 p2] e2] H1 H2 E. cbn [fst snd] in E.
    pose proof H1 as H1'. apply ev_in in H1'. destruct H1' as (m & _ & _ & x & sg & Ep1 & _).
    pose proof H2 as H2'. apply ev_in in H2'. destruct H2' as (m' & _ & _ & x' & sg' & Ep2 & _).
    subst p1 p2. rewrite !Nat2Z.id in E. subst sg'. destruct (ev_spl_unique _ _ _ _ _ H1 H2) as (-> & ->). reflexivity.
  - intros v Hvv. apply in_map_iff in Hvv. destruct Hvv as ([[s1 p1] e1] & <- & Hin). cbn [fst snd].
    apply ev_in in Hin. destruct Hin as (m & Hm & _ & x & sg & -> & Hsg & _). unfold N in Hm. lia.
Qed.

Definition alive_b (l : nat) : bool := existsb (fun m => c m =? l) (seq 0 N).
Definition alive_e (e : option nat) : bool := match e with Some l => alive_b l | None => false end.
Lemma alive_b_iff l : alive_b l = true <-> alive l.
Proof.
  unfold alive_b, alive. rewrite existsb_exists. split.
  - intros (m & Hm & E). apply in_seq in Hm. apply Nat.eqb_eq in E. exists m. split; [lia|auto].
  - intros (m & Hm & E). exists m. split; [apply in_seq; lia|apply Nat.eqb_eq; auto].
Qed.

Let J4s := J4_all opp tr yL sL Steps Last First FND OPPINV.

Lemma topsE_S k yv : nth_error Y k = Some yv ->
  topsE Y ES (S k) = if (yv =? 7)%Z then k :: topsE Y ES k
                     else if (yv =? 1)%Z then (if hasev ES k then k :: tl (topsE Y ES k) else k :: tl (tl (topsE Y ES k)))
                     else k :: tl (topsE Y ES k).
Proof. intros E. cbn [topsE]. rewrite E. reflexivity. Qed.

Lemma last_dead l : 0 < N -> In (Some l) (tl (stack (sti tr (N - 1)))) -> nth (l / 3) (VA tr sL (N - 1)) false = true.
Proof.
  intros HN Hin. destruct (aft_x (N - 1) ltac:(unfold N in *; lia)) as (s1 & Af). rewrite <- (aft_VA (N - 1) s1 ltac:(lia) Af).
  destruct Af as (Sp & _ & Es). specialize (Es ltac:(unfold N in *; lia)). subst s1.
  destruct Sp as (_ & _ & _ & _ & _ & D). cbv zeta in D. pose proof FinalDead as FD. rewrite Forall_forall in FD.
  assert (InS : forall e, In e (tl (stack (sti tr (N - 1)))) -> In e (stack (sti tr (N - 1)))) by (intros e He; destruct (stack (sti tr (N - 1))); [destruct He|right; exact He]).
  destruct D as [(_ & St & _)|[(_ & _ & _ & St & _)|[(_ & _ & _ & St & _)|[(_ & _ & _ & _ & St & _)|(Y0 & _)]]]].
  + apply (FD (Some l)). rewrite St. apply InS. exact Hin.
  + apply (FD (Some l)). rewrite St. apply InS. exact Hin.
  + apply (FD (Some l)). rewrite St. apply InS. exact Hin.
  + apply (FD (Some l)). rewrite St. exact Hin.
  + exfalso. apply (S_not_last HN). exact Y0.
Qed.

Lemma dead_filter i (L : list (option nat)) : i < N -> (forall e, In e L -> In e (tl (stack (sti tr i)))) ->
  Forall (dead_at (VA tr sL i)) L -> filter alive_e L = [].
Proof.
  intros Hi Sub Dd. apply filter_none_all. intros e He. destruct e as [l|]; [|reflexivity]. cbn [alive_e].
  destruct (alive_b l) eqn:A; [|reflexivity]. exfalso. apply alive_b_iff in A. destruct A as (m2 & Hm2 & Em2).
  rewrite Forall_forall in Dd. specialize (Dd _ He). cbn [dead_at] in Dd.
  apply (dead_na i l ltac:(unfold N in Hi; exact Hi) (Sub _ He) Dd m2 ltac:(unfold N in Hm2; exact Hm2)). exact Em2.
Qed.

Lemma TS : forall d i, i + d = N - 1 -> i < N ->
  map (fun j => nth j Q 0) (topsE Y ES (N - i)) = c i :: map the (filter alive_e (tl (stack (sti tr i)))).
Proof.
  induction d as [|d IH]; intros i Ei Hi.
  - assert (i = N - 1) by lia. subst i. replace (N - (N - 1)) with 1 by lia.
    assert (T1 : topsE Y ES 1 = [0]).
    { destruct (nth_error Y 0) as [yv|] eqn:E0.
      - rewrite (topsE_S 0 yv E0). cbn [topsE tl]. destruct (yv =? 7)%Z; auto. destruct (yv =? 1)%Z; [destruct (hasev ES 0)|]; auto.
      - apply nth_error_None in E0. unfold Y in E0. rewrite rev_length in E0. fold ns in E0. unfold N in Hi. lia. }
    rewrite T1. cbn [map]. rewrite (Qc 0) by (unfold N in Hi; lia). replace (ns - 1 - 0) with (N - 1) by (unfold N; lia). f_equal.
    rewrite (dead_filter (N - 1)); auto.
    apply Forall_forall. intros e He. destruct (proj2 (J4s (N - 1) ltac:(unfold N in *; lia)) e He) as (m & l & _ & _ & -> & _).
    cbn [dead_at]. apply last_dead; [lia|exact He].
  - assert (HS : S i < length tr) by (unfold N in *; lia).
    assert (Hk : ns - 1 - i < ns) by (unfold N in *; lia).
    replace (N - i) with (S (ns - 1 - i)) by (unfold N in *; lia).
    pose proof (IH (S i) ltac:(lia) ltac:(unfold N in *; lia)) as IHs. replace (N - S i) with (ns - 1 - i) in IHs by (unfold N in *; lia).
    pose proof (Y_at' (ns - 1 - i) Hk) as Ey. replace (ns - 1 - (ns - 1 - i)) with i in Ey by (unfold N in *; lia).
    rewrite (topsE_S _ _ Ey).
    assert (Ec : nth (ns - 1 - i) Q 0 = c i) by (rewrite (Qc _ Hk); f_equal; unfold N in *; lia).
    assert (VAi : VA tr sL i = vf (sti tr (S i))).
    { unfold VA. replace (S i <? length tr) with true by (symmetry; apply Nat.ltb_lt; exact HS). reflexivity. }
    destruct (step_stk i HS) as [([Y0|Y0] & E & _)|[(Y0 & E & _)|[(Y0 & _ & dead & rest & E0 & E & Dd & Un)|(Y0 & _ & _ & l & El & Ul & E)]]].
    + rewrite Y0. cbn [Z.eqb Pos.eqb]. cbn [map]. rewrite Ec. f_equal. rewrite <- E.
      destruct (topsE Y ES (ns - 1 - i)); cbn [map tl] in *; [discriminate|]. inversion IHs. reflexivity.
    + rewrite Y0. cbn [Z.eqb Pos.eqb]. cbn [map]. rewrite Ec. f_equal. rewrite <- E.
      destruct (topsE Y ES (ns - 1 - i)); cbn [map tl] in *; [discriminate|]. inversion IHs. reflexivity.
    + rewrite Y0. cbn [Z.eqb Pos.eqb]. cbn [map]. rewrite Ec. f_equal. rewrite <- E.
      destruct (topsE Y ES (ns - 1 - i)); cbn [map tl] in *; [discriminate|]. inversion IHs. reflexivity.
    + (* E *)
      rewrite Y0. cbn [Z.eqb Pos.eqb]. cbn [map]. rewrite Ec. f_equal. rewrite IHs, E. cbn [tl].
      rewrite E0, filter_app. rewrite (dead_filter i dead); [|unfold N in *; lia| |rewrite VAi; exact Dd].
      * cbn [app filter alive_e].
        assert (A : alive_b (c (S i)) = true) by (apply alive_b_iff; exists (S i); split; [unfold N; exact HS|reflexivity]).
        rewrite A. reflexivity.
      * intros e He. rewrite E0. apply in_or_app. left. exact He.
    + (* S *)
      rewrite Y0. cbn [Z.eqb Pos.eqb]. rewrite E in IHs. cbn [tl filter alive_e] in IHs.
      destruct (alive_b l) eqn:A.
      * assert (Hh : hasev ES (ns - 1 - i) = false).
        { destruct (hasev ES (ns - 1 - i)) eqn:H; [|reflexivity]. exfalso.
          apply (hasev_iff i ltac:(unfold N in *; lia)) in H. apply alive_b_iff in A.
          exact (ev_not_alive i l ltac:(unfold N in *; lia) Y0 El H A). }
        rewrite Hh. cbn [map]. rewrite Ec. f_equal.
        destruct (topsE Y ES (ns - 1 - i)) as [|t0 [|t1 T]]; cbn [map tl the] in *; try discriminate. inversion IHs. reflexivity.
      * assert (Hh : hasev ES (ns - 1 - i) = true).
        { apply (hasev_iff i ltac:(unfold N in *; lia)). apply (not_alive_ev i l ltac:(unfold N in *; lia) Y0 El).
          intro X. apply alive_b_iff in X. congruence. }
        rewrite Hh. cbn [map]. rewrite Ec. f_equal.
        destruct (topsE Y ES (ns - 1 - i)) as [|t0 T]; cbn [map tl] in *; [discriminate|]. inversion IHs. reflexivity.
Qed.

(** ** the script conditions of [EbSimEv_proofs.dec_roundtrip_events] hold *)
Lemma LY' : length Y = ns.
Proof. unfold Y. apply rev_length. Qed.

Lemma topsE_hd k : 1 <= k <= ns -> exists T, topsE Y ES k = (k - 1) :: T.
Proof.
  intros Hk. destruct k as [|k']; [lia|]. rewrite (topsE_S k' _ (Y_at' k' ltac:(lia))). replace (S k' - 1) with k' by lia.
  destruct (_ =? 7)%Z; [eauto|]. destruct (_ =? 1)%Z; [destruct (hasev ES k')|]; eauto.
Qed.

Lemma script_all k : k < ns -> script_atE c2v opp nf Q Y ES k.
Proof.
  intros Hk. set (i := ns - 1 - k). assert (Hi : i < N) by (unfold N, i; lia).
  assert (Ek : ns - 1 - i = k) by (unfold i; lia).
  unfold script_atE. rewrite LY'. split; [intros e He; exact (ES_bound k e He)|].
  rewrite (Y_at' k Hk). fold i.
  pose proof (efact_m i Hi) as EF. rewrite Ek in EF.
  assert (Ec : nth k Q 0 = c i) by (rewrite (Qc k Hk); reflexivity).
  destruct (Z.eq_dec (y i) 1) as [Y1|N1].
  - (* S *)
    right. right. right. right.
    assert (HN : 0 < N) by lia.
    assert (HSi : S i < length tr).
    { destruct (Nat.eq_dec (S i) N) as [X|X]; [|unfold N in *; lia]. exfalso. apply (S_not_last HN). replace (N - 1) with i by lia. exact Y1. }
    assert (K1 : 1 <= k) by (unfold N, i in *; lia).
    destruct (step_stk i HSi) as [([Y0|Y0] & _)|[(Y0 & _)|[(Y0 & _)|(_ & _ & En & l & El & Ul & Est)]]]; try congruence.
    destruct EF as (A & B & C & Dd). cbv zeta in Dd.
    destruct Dd as [(D1 & _)|[(D1 & _)|[(D1 & _)|[(D1 & _)|(_ & SB)]]]]; try congruence.
    split; [exact Y1|]. split; [exact K1|]. split.
    { unfold eco. cbn [rot]. rewrite Ec, (Qc (k - 1)) by lia. replace (ns - 1 - (k - 1)) with (S i) by (unfold i; lia). exact En. }
    split. { unfold ncr, eco. cbn [rot]. rewrite Ec. change (opp_at opp (c i)) with (opp_at opp (c i)) in C. destruct (opp_at opp (c i)) as [o0|] eqn:Eo; auto. }
    split; [apply ES_nil; [exact Hk|fold i; auto]|]. split; [rewrite <- Ec in SB; exact SB|].
    pose proof (TS (N - 1 - S i) (S i) ltac:(unfold N in *; lia) ltac:(unfold N in *; lia)) as T.
    replace (N - S i) with k in T by (unfold N, i in *; lia). rewrite Est in T. cbn [tl filter alive_e] in T.
    destruct (topsE_hd k ltac:(lia)) as (T0 & ET).
    destruct (alive_b l) eqn:Al.
    + left. assert (Hh : hasev ES k = false).
      { destruct (hasev ES k) eqn:H; [|reflexivity]. exfalso. rewrite <- Ek in H.
        apply (hasev_iff i Hi) in H. apply alive_b_iff in Al. exact (ev_not_alive i l Hi Y1 El H Al). }
      split; [exact Hh|]. rewrite ET in T |- *. cbn [map the] in T. destruct T0 as [|ja T1]; cbn [map] in T; [discriminate|].
      injection T as _ Tl _. exists ja, T1. split; [reflexivity|]. unfold eco. cbn [rot]. rewrite Ec, Tl. exact El.
    + right. assert (Hh : hasev ES k = true).
      { rewrite <- Ek. apply (hasev_iff i Hi). apply (not_alive_ev i l Hi Y1 El). intro X. apply alive_b_iff in X. congruence. }
      unfold hasev in Hh. apply existsb_exists in Hh. destruct Hh as (j & Hj & Hh). apply existsb_exists in Hh. destruct Hh as (e & He & Ee).
      apply Nat.eqb_eq in Ee. apply in_seq in Hj.
      assert (Yk : y (ns - 1 - k) = 1%Z) by (fold i; exact Y1).
      destruct (ES_event k j e Hk Yk He Ee) as (Hjk & Eo).
      exists j, e. split; [lia|]. split; [exact He|]. split; [exact Ee|]. split; [exact Eo|].
      intros j' e' Hj' He' Ee'. destruct (ES_event k j' e' Hk Yk He' Ee') as (_ & Eo'). rewrite Eo in Eo'. inversion Eo' as [X].
      assert (R1 : ra_of e < 3) by (unfold ra_of; destruct (snd e); lia).
      assert (R2 : ra_of e' < 3) by (unfold ra_of; destruct (snd e'); lia).
      destruct (eco_inj Q NDQ j (ra_of e) j' (ra_of e') ltac:(lia) ltac:(lia) R1 R2 X) as (-> & ->). auto.
  - (* C E R L *)
    assert (Cl : is_CERL (y i) = true).
    { destruct EF as (_ & _ & _ & Dd). cbv zeta in Dd. unfold is_CERL.
      destruct Dd as [(D1 & _)|[(D1 & _)|[(D1 & _)|[(D1 & _)|(D1 & _)]]]]; rewrite D1 in *; try reflexivity. congruence. }
    rewrite <- Ec in EF.
    pose proof (efact_script c2v opp nf Q Y k (y i) Hlen ltac:(rewrite LY'; exact LQ) Comp (Y_at' k Hk) Cl EF) as SA.
    unfold script_at in SA. rewrite (Y_at' k Hk) in SA. fold i in SA.
    destruct SA as [SA|[SA|[SA|[(Y0 & K1 & Eo & N0 & CI)|(Y0 & _)]]]]; [left; exact SA|right; left; exact SA|right; right; left; exact SA| |congruence].
    right. right. right. left. split; auto. split; auto. split; auto. split; auto. split; auto.
    apply ES_nil; [exact Hk|fold i; auto].
Qed.

Lemma start_all : 0 < N -> start_ok_g c2v opp nf Q Y (topsE Y ES ns) (o_bits o).
Proof.
  intros HN.
  pose proof (TS (N - 1) 0 ltac:(lia) HN) as T. replace (N - 0) with ns in T by (unfold N; lia).
  destruct (First ltac:(unfold N in HN; exact HN)) as (_ & _ & _ & _ & St0). rewrite St0 in T. cbn [tl filter map] in T.
  destruct (topsE_hd ns ltac:(unfold N in *; lia)) as (T0 & ET).
  assert (ET' : topsE Y ES ns = [ns - 1]).
  { rewrite ET in T |- *. destruct T0; [reflexivity|discriminate]. }
  rewrite ET'.
  destruct (o_bits o) as [|b0 [|b1 B']] eqn:EB; try (cbn in Lb; lia).
  apply start_ok_g_of_idx; auto; rewrite ?LY'.
  - rewrite <- LenQ. reflexivity.
  - intros i j Ej Bi. destruct i as [|i]; [|destruct i; discriminate]. cbn in Ej. inversion Ej; subst j.
    split; [unfold N in *; lia|]. cbn [firstn]. unfold cnt_true at 1. cbn [count_occ]. cbn [nth] in Bi. subst b0.
    cbn [rev app] in RU.
    inversion RU as [|b bits inits inits' P0 Y0' Pn Yn R0 Np Ln Sh Hb Eb1 Eb2 Eb3 Eb4]; subst.
    inversion R0; subst. rewrite app_nil_r in *.
    destruct Hb as (ic & Ei & Eo & Ip).
    assert (Sk : skipn ns Q = [ic]).
    { apply (f_equal (@rev nat)) in Ei. rewrite rev_involutive in Ei. exact Ei. }
    exists ic. rewrite Sk. split; [reflexivity|]. split; auto.
    rewrite Eo. f_equal. rewrite last_nth_nat by auto. rewrite Eb3. f_equal.
    rewrite firstn_length_le; lia.
  - intros m1 m2 Hm Hl. apply DJ; auto.
Qed.
End Enc1.

(** ** closed forms (one run): a split event is recorded for the S symbol sg  <=>  the left corner pushed at sg is never a
    processing corner (its face is reached from elsewhere and the entry is popped dead); and the stack correspondence with
    events: the decoder's stack [topsE] (faces) = the current face followed by the encoder's entries below the top that are
    still processing corners *)
Theorem event_iff_dead sg l : sg < ns -> nth sg (o_syms o) 0%Z = 1%Z -> oat opp (prev_c (nth (ns - 1 - sg) Q 0)) = Some l ->
  ((exists src ed, In (src, Z.of_nat sg, ed) (o_events o)) <-> ~ In l (firstn ns Q)).
Proof.
  intros Hs Ys El.
  destruct (Nat.eq_dec (length tr) 0) as [Etr|Ne0].
  { destruct (trace_coherent _ _ _ _ _ _ _ Et) as [Lt0 _]. fold ns in Lt0. lia. }
  assert (Ne : tr <> []) by (intro X; rewrite X in Ne0; cbn in Ne0; lia).
  destruct (run_facts Ne) as (yL & sL & Steps & Last & First & FND & Eev & Lt & Corner & Ysym & FD & LQ & Comp & Rq & NDQ & LenQ & RU & DJ).
  assert (Al : alive l <-> In l (firstn ns Q)).
  { unfold alive. split.
    - intros (m & Hm & <-). rewrite (Corner m Hm). rewrite <- (firstn_skipn ns Q) at 1. rewrite app_nth1 by (rewrite firstn_length_le; lia).
      apply nth_In. rewrite firstn_length_le; lia.
    - intros Hin. apply (In_nth _ _ 0) in Hin. destruct Hin as (j & Hj & Ej). rewrite firstn_length_le in Hj by lia.
      exists (ns - 1 - j). split; [lia|]. rewrite Corner by lia. replace (ns - 1 - (ns - 1 - j)) with j by lia.
      rewrite <- Ej. rewrite <- (firstn_skipn ns Q) at 1. rewrite app_nth1 by (rewrite firstn_length_le; lia). reflexivity. }
  rewrite <- Al. rewrite <- (Corner sg) in El by lia. rewrite <- (Ysym sg) in Ys by lia.
  split.
  - intros Hev. eapply (ev_not_alive yL sL); try eassumption. lia.
  - intros Na. eapply (not_alive_ev yL sL); try eassumption. lia.
Qed.

Theorem stack_events i cf : nth_error tr i = Some cf ->
  map (fun j => nth j Q 0) (topsE (rev (o_syms o)) (EVseg_of o) (ns - i)) =
  cf_corner cf :: map the (filter alive_e (tl (stack (cf_st cf)))).
Proof.
  intros Hcf. assert (Hi : i < length tr) by (apply nth_error_Some; congruence).
  assert (Ne : tr <> []) by (intro X; rewrite X in Hi; cbn in Hi; lia).
  destruct (run_facts Ne) as (yL & sL & Steps & Last & First & FND & Eev & Lt & Corner & Ysym & FD & LQ & Comp & Rq & NDQ & LenQ & RU & DJ).
  assert (Ecf : cfN tr i = cf) by (unfold cfN; apply nth_error_nth; exact Hcf).
  assert (T : map (fun j => nth j Q 0) (topsE (rev (o_syms o)) (EVseg_of o) (length tr - i)) =
               ci tr i :: map the (filter alive_e (tl (stack (sti tr i))))).
  { eapply (TS yL sL); try eassumption. instantiate (1 := length tr - 1 - i). lia. }
  rewrite Lt in T. unfold ci, sti in T. rewrite Ecf in T. exact T.
Qed.

(** at most one event per symbol *)
Lemma events_count_1 : length (o_events o) <= ns.
Proof.
  destruct (Nat.eq_dec (length tr) 0) as [Etr|Ne0].
  { destruct (o_events o) as [|[[src spl] ed] l] eqn:Ee; [cbn; lia|]. exfalso.
    assert (Hin : In (src, spl, ed) (o_events o)) by (rewrite Ee; left; reflexivity).
    apply events_characterized in Hin. destruct Hin as (m & sg & x & _ & _ & _ & Hm' & _).
    destruct (trace_coherent _ _ _ _ _ _ _ Et) as [Lt0 _]. fold ns in Lt0. lia. }
  assert (Ne : tr <> []) by (intro X; rewrite X in Ne0; cbn in Ne0; lia).
  destruct (run_facts Ne) as (yL & sL & Steps & Last & First & FND & Eev & Lt & Corner & Ysym & FD & LQ & Comp & Rq & NDQ & LenQ & RU & DJ).
  eapply (events_le yL sL); try eassumption. lia.
Qed.

(** the script conditions, closed form *)
Lemma script_start_1 : tr <> [] ->
  (forall j, j < ns -> script_atE c2v opp nf Q (rev (o_syms o)) (EVseg_of o) j) /\
  start_ok_g c2v opp nf Q (rev (o_syms o)) (topsE (rev (o_syms o)) (EVseg_of o) ns) (o_bits o).
Proof.
  intros Ne.
  destruct (run_facts Ne) as (yL & sL & Steps & Last & First & FND & Eev & Lt & Corner & Ysym & FD & LQ & Comp & Rq & NDQ & LenQ & RU & DJ).
  assert (HN : 0 < length tr) by (destruct tr; [congruence|cbn; lia]).
  split.
  - intros j Hj. eapply (script_all yL sL); eassumption.
  - eapply (start_all yL sL); eassumption.
Qed.

(** ** the simulation ALONG THE TRACE with split events (one run): at configuration i of the encoder the decoder, run on the
    last k = ns - i symbols with the whole event list, is in [SIM] with it; its stack holds the tip corners of the faces
    [topsE k], which are the current face and the encoder's stack entries below the top that are still processing corners;
    its pending events are those whose source symbol is older than k, its registered split corners [SPL k] *)
Definition simE (NC maxv : Z) (cf : cfg) (d : D.st) : Prop :=
  let Y := rev (o_syms o) in
  let k := ns - length (syms (cf_st cf)) in
  SIM c2v opp Q k d /\
  cf_corner cf :: pcc (cf_st cf) = skipn (k - 1) (firstn ns Q) /\
  D.stack d = map (fun j => dco j 0) (topsE Y (EVseg_of o) k) /\
  map (fun j => nth j Q 0) (topsE Y (EVseg_of o) k) = cf_corner cf :: map the (filter alive_e (tl (stack (cf_st cf)))) /\
  Draco.Proofs.Edgebreaker_proofs.W NC maxv (Z.of_nat k) d /\ Draco.Proofs.Edgebreaker_fan_proofs.FI (Z.of_nat k) d /\
  D.events d = REM Y (EVseg_of o) k /\ D.splits d = SPL (EVseg_of o) k.

Theorem ebsim_trace_events_1 rm maxv :
  (Z.of_nat ns < 2147483648)%Z -> (cntv (rev (o_syms o)) <= maxv)%Z ->
  let NC := (3 * Z.of_nat (length Q))%Z in
  length tr = ns /\
  forall i cf, nth_error tr i = Some cf ->
    length (syms (cf_st cf)) = i /\
    exists d, D.sym_loop NC maxv rm (Z.of_nat ns) (firstn (ns - i) (rev (o_syms o))) 0 (D.init_st (o_events o)) = D.Ok d /\
              simE NC maxv cf d.
Proof.
  intros Hns Hm NC.
  pose proof (trace_refines_big_step_ok _ _ _ _ _ _ _ Et) as E.
  destruct (trace_coherent _ _ _ _ _ _ _ Et) as [Lt0 Co]. fold ns in Lt0, Co. split; auto.
  intros i cf Ecf. destruct (Co i cf Ecf) as [C1 C2].
  assert (Hi : i < length tr) by (apply nth_error_Some; congruence).
  assert (Ne : tr <> []) by (intro X; rewrite X in Hi; cbn in Hi; lia).
  assert (Li : length (syms (cf_st cf)) = i). { rewrite C1, rev_length, firstn_length_le; auto. fold ns. lia. }
  split; auto.
  pose proof (stack_events i cf Ecf) as STK.
  destruct (run_facts Ne) as (yL & sL & Steps & Last & First & FND & Eev & Lt & Corner & Ysym & FD & LQ & Comp & Rq & NDQ & LenQ & RU & DJ).
  pose proof (events_bookkeeping c2v opp nf nv niso ndeg o Hlen OK Hv FAN E) as BK.
  assert (HYQ : length (rev (o_syms o)) <= length Q) by (rewrite rev_length; fold ns; lia).
  destruct (sym_loop_simE c2v opp nf Hlen OK Q Rq NDQ NC maxv rm (rev (o_syms o)) eq_refl HYQ Hm FAN (EVseg_of o)
              ltac:(rewrite rev_length; exact Hns) (ns - i))
    as (d & Ed & HS & HW & HF & Hnv & Hev & Hsp & Hst & _).
  - rewrite rev_length. fold ns. lia.
  - intros j Hj. eapply (script_all yL sL); try eassumption. lia.
  - exists d. rewrite rev_length in Ed. fold ns in Ed. rewrite BK in Ed. split; auto. unfold simE. cbv zeta. rewrite Li.
    split; auto. split. { rewrite C2. f_equal. lia. }
    split; auto.
Qed.

(** ** THE ROUND TRIP WITH SPLIT EVENTS for one run (one start face / component): every encoding, every
    remove_invalid_vertices *)
Theorem ebsim_roundtrip_events_1 rm maxv :
  (Z.of_nat (length (o_syms o)) < 2147483648)%Z -> (cntv (rev (o_syms o)) <= maxv)%Z ->
  let F := Z.of_nat (length (o_pcc o)) in
  exists n s, D.eb_core (3 * F) maxv F rm (rev (o_syms o)) (o_events o) (D.bits_of_list (o_bits o)) = D.Ok (n, s) /\
              eb_iso c2v opp (o_pcc o) (D.c2v s) (D.copp s).
Proof.
  intros Hns Hm F.
  pose proof (trace_refines_big_step_ok _ _ _ _ _ _ _ Et) as E.
  destruct (Nat.eq_dec (length tr) 0) as [Etr|Ne0].
  { (* no symbol: no event *)
    apply (ebsim_roundtrip_noevent c2v opp nf nv niso ndeg o rm maxv); auto.
    destruct (o_events o) as [|[[src spl] ed] l] eqn:Ee; [reflexivity|]. exfalso.
    assert (Hin : In (src, spl, ed) (o_events o)) by (rewrite Ee; left; reflexivity).
    pose proof (events_characterized src spl ed) as X.
    apply X in Hin. destruct Hin as (m & sg & x & _ & _ & _ & Hm' & _).
    destruct (trace_coherent _ _ _ _ _ _ _ Et) as [Lt0 _]. fold ns in Lt0. lia. }
  assert (Ne : tr <> []) by (intro X; rewrite X in Ne0; cbn in Ne0; lia).
  destruct (run_facts Ne) as (yL & sL & Steps & Last & First & FND & Eev & Lt & Corner & Ysym & FD & LQ & Comp & Rq & NDQ & LenQ & RU & DJ).
  assert (HN : 0 < length tr) by (destruct tr; [congruence|cbn; lia]).
  pose proof (events_bookkeeping c2v opp nf nv niso ndeg o Hlen OK Hv FAN E) as BK. rewrite <- BK.
  apply (dec_roundtrip_events c2v opp nf Hlen OK Q Rq NDQ (3 * F)%Z maxv rm (rev (o_syms o)) eq_refl
           ltac:(rewrite rev_length; fold ns; exact LQ) Hm FAN (EVseg_of o) ltac:(rewrite rev_length; exact Hns)); auto.
  - intros j Hj. rewrite rev_length in Hj. eapply (script_all yL sL); eassumption.
  - rewrite rev_length. eapply (start_all yL sL); eassumption.
Qed.
End OneRunFacts.

(** the same statement over the big-step encoder *)
Theorem ebsim_roundtrip_events_1_enc c2v opp nf nv niso ndeg o rm maxv :
  length c2v = 3 * nf -> opp_ok c2v opp -> (forall c, c < 3 * nf -> vtx c2v c < nv) -> one_fan c2v opp ->
  eb_encode c2v opp nv niso ndeg = EOk o -> length (o_bits o) = 1 ->
  (Z.of_nat (length (o_syms o)) < 2147483648)%Z -> (cntv (rev (o_syms o)) <= maxv)%Z ->
  let F := Z.of_nat (length (o_pcc o)) in
  exists n s, D.eb_core (3 * F) maxv F rm (rev (o_syms o)) (o_events o) (D.bits_of_list (o_bits o)) = D.Ok (n, s) /\
              eb_iso c2v opp (o_pcc o) (D.c2v s) (D.copp s).
Proof.
  intros Hlen OK Hv FAN E Lb Hns Hm.
  destruct (big_step_has_trace _ _ _ _ _ _ E) as (tr & Et).
  exact (ebsim_roundtrip_events_1 c2v opp nf nv niso ndeg o tr Hlen OK Hv FAN Et Lb rm maxv Hns Hm).
Qed.

(** against DecodeConnectivity for the tables of CornerTable::Create: ONE start face, any split events, any
    remove_invalid_vertices (premises as for [EbSimEvChk_proofs.ebsim_roundtrip_checked_ct], the script check is proved) *)
Theorem ebsim_roundtrip_events_1_ct faces t o rm : ct_create faces = Some t -> eb_encode_ct t = EOk o ->
  length (o_bits o) = 1 ->
  (Z.of_nat (3 * length faces + length (ct_vcorn t)) < 2147483648)%Z ->
  ((3 * o_nfaces o) / 2 <= (o_nverts o * (o_nverts o - 1)) / 2)%Z ->
  (Z.of_nat (length (o_events o)) <= o_nfaces o)%Z ->
  (cntv (rev (o_syms o)) <= o_nverts o + o_nsplit o)%Z ->
  exists n s, eb_decode_of o rm = D.Ok (n, s) /\ eb_iso (ct_c2v t) (ct_opp t) (o_pcc o) (D.c2v s) (D.copp s).
Proof.
  intros H E Lb Sz G3 Hev VF.
  destruct (ct_create_wf _ _ H) as (L & OK & Hv & FAN & _).
  destruct (eb_encode_ct_counts faces t o H E) as (Ns & _ & _ & _ & _ & Nf & _ & Nf2 & _).
  destruct (eb_encode_ct_guards faces t o rm H E Sz G3 Hev) as (Eq & _ & (Sy & _) & _).
  rewrite Eq. rewrite <- Nf.
  apply (ebsim_roundtrip_events_1_enc (ct_c2v t) (ct_opp t) (length faces) (length (ct_vcorn t)) (ct_niso t) (ct_ndeg t) o rm); auto.
  rewrite <- Ns. lia.
Qed.

(** the vertex count is a consequence (one start face, any events): [EbSimCount_proofs.verts_fit_script] *)
Theorem verts_fit_events_1 faces t o : ct_create faces = Some t -> eb_encode_ct t = EOk o -> length (o_bits o) = 1 ->
  (Z.of_nat (length (o_syms o)) < 2147483648)%Z -> verts_fit o.
Proof.
  intros H E Lb Hns.
  destruct (o_events o) as [|[[src spl] ed] evl] eqn:Ee; [apply (verts_fit_noevent faces t o H E Ee)|].
  destruct (ct_create_wf _ _ H) as (L & OK & Hv & FAN & _).
  unfold eb_encode_ct in E. destruct (big_step_has_trace _ _ _ _ _ _ E) as (tr & Et).
  assert (Ne : tr <> []).
  { intros ->. assert (Hin : In (src, spl, ed) (o_events o)) by (rewrite Ee; left; reflexivity).
    apply (events_characterized (ct_c2v t) (ct_opp t) (length faces) (length (ct_vcorn t)) (ct_niso t) (ct_ndeg t) o [] L OK Hv FAN Et Lb) in Hin.
    destruct Hin as (m & sg & x & _ & _ & _ & Hm' & _).
    destruct (trace_coherent _ _ _ _ _ _ _ Et) as [Lt0 _]. cbn in Lt0. lia. }
  destruct (script_start_1 (ct_c2v t) (ct_opp t) (length faces) (length (ct_vcorn t)) (ct_niso t) (ct_ndeg t) o tr L OK Hv FAN Et Lb Ne) as (Sc & SO).
  apply (verts_fit_script faces t o H E Hns Sc SO).
Qed.

Theorem ebsim_roundtrip_events_1_ct' faces t o rm : ct_create faces = Some t -> eb_encode_ct t = EOk o ->
  length (o_bits o) = 1 ->
  (Z.of_nat (3 * length faces + length (ct_vcorn t)) < 2147483648)%Z ->
  ((3 * o_nfaces o) / 2 <= (o_nverts o * (o_nverts o - 1)) / 2)%Z ->
  (Z.of_nat (length (o_events o)) <= o_nfaces o)%Z ->
  exists n s, eb_decode_of o rm = D.Ok (n, s) /\ eb_iso (ct_c2v t) (ct_opp t) (o_pcc o) (D.c2v s) (D.copp s).
Proof.
  intros H E Lb Sz G3 Hev. apply (ebsim_roundtrip_events_1_ct faces t o rm); auto.
  apply (verts_fit_events_1 faces t o H E Lb).
  destruct (eb_encode_ct_counts faces t o H E) as (Ns & _).
  destruct (eb_encode_ct_guards faces t o rm H E Sz G3 Hev) as (_ & _ & (Sy & _) & _ & _ & (_ & Fb)). rewrite <- Ns. lia.
Qed.

(** ** against DecodeConnectivity, ONE start face, ANY split events, every remove_invalid_vertices: only the two premises of
    C09_ebenc_stream_never_rejected_by_guards_partial remain (size bound; guard G3) *)
Theorem ebsim_roundtrip_events_1_ct2 faces t o rm : ct_create faces = Some t -> eb_encode_ct t = EOk o ->
  length (o_bits o) = 1 ->
  (Z.of_nat (3 * length faces + length (ct_vcorn t)) < 2147483648)%Z ->
  ((3 * o_nfaces o) / 2 <= (o_nverts o * (o_nverts o - 1)) / 2)%Z ->
  exists n s, eb_decode_of o rm = D.Ok (n, s) /\ eb_iso (ct_c2v t) (ct_opp t) (o_pcc o) (D.c2v s) (D.copp s).
Proof.
  intros H E Lb Sz G3. apply (ebsim_roundtrip_events_1_ct' faces t o rm); auto.
  destruct (ct_create_wf _ _ H) as (L & OK & Hv & FAN & _).
  destruct (eb_encode_ct_counts faces t o H E) as (_ & _ & _ & Lp & _ & Nf & _).
  pose proof E as E0. unfold eb_encode_ct in E0. destruct (big_step_has_trace _ _ _ _ _ _ E0) as (tr & Et).
  pose proof (events_count_1 (ct_c2v t) (ct_opp t) (length faces) (length (ct_vcorn t)) (ct_niso t) (ct_ndeg t) o tr L OK Hv FAN Et Lb) as X.
  lia.
Qed.
