(** Proofs about Model/Metadata.v (property C11). *)
From Coq Require Import ZifyBool.
From Draco Require Import Base.Codec Base.Bits Model.Varint Proofs.Varint_proofs Model.Metadata.
Local Open Scope Z_scope.

Arguments Z.add : simpl never.
Arguments Z.sub : simpl never.
Arguments Z.mul : simpl never.
Arguments Z.pow : simpl never.
Arguments Z.of_nat : simpl never.
Arguments Z.to_nat : simpl never.

Lemma w32 : width_ok 32. Proof. right; right; left; reflexivity. Qed.

(* ------------------------------------------------------------------ the key order *)

Lemma bytes_cmp_eq a : forall b, bytes_cmp a b = Eq <-> a = b.
Proof.
  induction a as [|x a IH]; intros [|y b]; cbn; try (split; congruence).
  destruct (x ?= y) eqn:E.
  - apply Z.compare_eq in E. subst. rewrite IH. split; congruence.
  - split; [discriminate|]. intros H. injection H as -> _. rewrite Z.compare_refl in E. discriminate.
  - split; [discriminate|]. intros H. injection H as -> _. rewrite Z.compare_refl in E. discriminate.
Qed.
Lemma bytes_cmp_refl a : bytes_cmp a a = Eq.
Proof. apply bytes_cmp_eq. reflexivity. Qed.

Lemma bytes_cmp_antisym a : forall b, bytes_cmp b a = CompOpp (bytes_cmp a b).
Proof.
  induction a as [|x a IH]; intros [|y b]; cbn; try reflexivity.
  rewrite (Z.compare_antisym x y). destruct (x ?= y); cbn; auto.
Qed.
Lemma bytes_cmp_lt_gt a b : bytes_cmp a b = Lt -> bytes_cmp b a = Gt.
Proof. intros H. rewrite bytes_cmp_antisym, H. reflexivity. Qed.

Lemma bytes_cmp_trans a : forall b c, bytes_cmp a b = Lt -> bytes_cmp b c = Lt -> bytes_cmp a c = Lt.
Proof.
  induction a as [|x a IH]; intros [|y b] [|z c]; cbn; try congruence.
  destruct (x ?= y) eqn:E1; try discriminate; destruct (y ?= z) eqn:E2; try discriminate; intros H1 H2.
  - apply Z.compare_eq in E1, E2. subst. rewrite Z.compare_refl. eauto.
  - apply Z.compare_eq in E1. subst. rewrite E2. reflexivity.
  - apply Z.compare_eq in E2. subst. rewrite E1. reflexivity.
  - rewrite Z.compare_lt_iff in E1, E2. assert (E: (x ?= z) = Lt) by (apply Z.compare_lt_iff; lia).
    rewrite E. reflexivity.
Qed.

Definition key_lt {V} (k : bytes) (e : bytes * V) : Prop := bytes_cmp (fst e) k = Lt.
Definition key_gt {V} (k : bytes) (e : bytes * V) : Prop := bytes_cmp k (fst e) = Lt.

(** strictly ascending keys, in the form convenient for induction *)
Inductive ssorted {V} : list (bytes * V) -> Prop :=
| ss_nil : ssorted []
| ss_cons k v m : Forall (key_gt k) m -> ssorted m -> ssorted ((k, v) :: m).

Lemma keys_sorted_ssorted {V} (m : list (bytes * V)) : keys_sorted m = true -> ssorted m.
Proof.
  induction m as [|[k v] m IH]; intros H; [constructor|].
  cbn [keys_sorted] in H. destruct m as [|[k' v'] m'].
  - constructor; constructor.
  - destruct (bytes_cmp k k') eqn:E; try discriminate.
    specialize (IH H). constructor; [|exact IH].
    inversion IH; subst. constructor; [exact E|].
    eapply Forall_impl; [|eassumption]. intros [k2 v2] Hk2. unfold key_gt in *. cbn in *.
    eapply bytes_cmp_trans; eassumption.
Qed.

Lemma ssorted_keys_sorted {V} (m : list (bytes * V)) : ssorted m -> keys_sorted m = true.
Proof.
  induction 1 as [|k v m HF HS IH]; [reflexivity|].
  cbn [keys_sorted]. destruct m as [|[k' v'] m']; [reflexivity|].
  inversion HF as [|? ? Hk Hr]; subst. unfold key_gt in Hk. cbn in Hk. rewrite Hk. exact IH.
Qed.

Lemma ssorted_app_inv {V} (p s : list (bytes * V)) k v :
  ssorted (p ++ (k, v) :: s) -> Forall (key_lt k) p /\ ssorted (p ++ [(k, v)]) /\ ssorted ((k, v) :: s).
Proof.
  induction p as [|[k0 v0] p IH]; cbn [app]; intros H.
  - split; [constructor|]. split; [constructor; constructor|exact H].
  - inversion H as [|? ? ? HF HS]; subst. destruct (IH HS) as (H1 & H2 & H3).
    split; [|split].
    + constructor; [|exact H1]. apply Forall_app in HF. destruct HF as [_ HF]. inversion HF as [|? ? Hk Hr]; subst. exact Hk.
    + constructor; [|exact H2]. apply Forall_app in HF. destruct HF as [HF1 HF2].
      apply Forall_app. split; [exact HF1|]. inversion HF2 as [|? ? Hk Hr]; subst. constructor; [exact Hk|constructor].
    + exact H3.
Qed.

Lemma ssorted_snoc_app {V} (p s : list (bytes * V)) k v :
  ssorted (p ++ (k, v) :: s) -> ssorted ((p ++ [(k, v)]) ++ s).
Proof. rewrite <- app_assoc. exact (fun H => H). Qed.

Lemma map_find_all_lt {V} k (p : list (bytes * V)) : Forall (key_lt k) p -> map_find k p = None.
Proof.
  induction 1 as [|[k' v'] p H HF IH]; [reflexivity|].
  cbn [map_find]. unfold key_lt in H. cbn in H. rewrite (bytes_cmp_lt_gt _ _ H). exact IH.
Qed.
Lemma map_mem_all_lt {V} k (p : list (bytes * V)) : Forall (key_lt k) p -> map_mem k p = false.
Proof. intros H. unfold map_mem. rewrite map_find_all_lt by assumption. reflexivity. Qed.

Lemma map_set_all_lt {V} k (v : V) p : Forall (key_lt k) p -> map_set k v p = p ++ [(k, v)].
Proof.
  induction 1 as [|[k' v'] p H HF IH]; [reflexivity|].
  cbn [map_set app]. unfold key_lt in H. cbn in H. rewrite (bytes_cmp_lt_gt _ _ H). rewrite IH. reflexivity.
Qed.

(* ------------------------------------------------------------------ leaves *)

Lemma len_nonneg {A} (l : list A) : 0 <= len l.
Proof. unfold len. lia. Qed.
Lemma len_app {A} (a b : list A) : len (a ++ b) = len a + len b.
Proof. unfold len. rewrite app_length. lia. Qed.
Lemma len_cons {A} (x : A) l : len (x :: l) = 1 + len l.
Proof. unfold len. cbn [length]. lia. Qed.

Lemma u32_range x : 0 <= u32 x < 2 ^ 32.
Proof. unfold u32. apply Z.mod_pos_bound. lia. Qed.
Lemma u32_small x : 0 <= x < 2 ^ 32 -> u32 x = x.
Proof. unfold u32. intros. apply Z.mod_small. assumption. Qed.

Lemma firstn_len_app {A} (a b : list A) : firstn (Z.to_nat (len a)) (a ++ b) = a.
Proof.
  unfold len. rewrite Nat2Z.id. rewrite firstn_app, Nat.sub_diag, firstn_all. cbn. apply app_nil_r.
Qed.
Lemma firstn_len {A} (a : list A) : firstn (Z.to_nat (len a)) a = a.
Proof. unfold len. rewrite Nat2Z.id. apply firstn_all. Qed.
Lemma skipn_len_app {A} (a b : list A) : skipn (Z.to_nat (len a)) (a ++ b) = b.
Proof.
  unfold len. rewrite Nat2Z.id. rewrite skipn_app, Nat.sub_diag, skipn_all. reflexivity.
Qed.

Lemma dec_enc_name s bs rest : enc_string s = Some bs -> dec_name (bs ++ rest) = Some (s, rest).
Proof.
  unfold enc_string. destruct (len s >? 255) eqn:E; [discriminate|].
  destruct (len s =? 0) eqn:E0; intros H; injection H as <-.
  - destruct s; [reflexivity|]. rewrite len_cons in E0. pose proof (len_nonneg s). lia.
  - cbn [app dec_name]. rewrite E0. rewrite len_app.
    pose proof (len_nonneg rest).
    destruct (len s >? len s + len rest) eqn:E1; [lia|].
    rewrite firstn_len_app, skipn_len_app. reflexivity.
Qed.

Lemma enc_string_length s bs : enc_string s = Some bs -> (1 <= length bs)%nat.
Proof.
  unfold enc_string. destruct (len s >? 255); [discriminate|].
  destruct (len s =? 0); intros H; injection H as <-; cbn; lia.
Qed.

Lemma varint32_rt v bs rest : 0 <= v < 2 ^ 32 -> enc_varint_u v = Some bs ->
  dec_varint_u 32 (bs ++ rest) = Some (v, rest).
Proof. intros. eapply (varint_u_roundtrips 32 w32); eauto. Qed.

Lemma enc_varint_length v bs : 0 <= v < 2 ^ 32 -> enc_varint_u v = Some bs -> (1 <= length bs)%nat.
Proof.
  intros Hv H. destruct (enc_varint_u_total 32 v w32 Hv) as (bs' & H1 & H2 & _).
  rewrite H in H1. injection H1 as <-. lia.
Qed.

Definition value_ok (e : bytes * bytes) : Prop := len (snd e) < 2 ^ 32.

Lemma dec_enc_entry e bs rest : value_ok e -> enc_entry e = Some bs -> dec_entry (bs ++ rest) = Some (e, rest).
Proof.
  destruct e as [k v]. unfold value_ok, enc_entry, dec_entry. cbn [snd]. intros Hv.
  destruct (enc_string k) as [kb|] eqn:Ek; [|discriminate]. cbn [obind].
  rewrite (u32_small (len v)) by (pose proof (len_nonneg v); lia).
  destruct (len v =? 0) eqn:E0; [discriminate|].
  destruct (enc_varint_u (len v)) as [sz|] eqn:Es; [|discriminate]. cbn [obind].
  intros H. injection H as <-.
  rewrite <- app_assoc. rewrite (dec_enc_name _ _ _ Ek). cbn [obind].
  rewrite <- app_assoc. rewrite (varint32_rt (len v)); [|pose proof (len_nonneg v); lia|exact Es].
  cbn [obind]. rewrite E0.
  rewrite (firstn_len v). rewrite len_app. pose proof (len_nonneg rest).
  destruct (len v >? len v + len rest) eqn:E1; [lia|].
  rewrite firstn_len_app, skipn_len_app. reflexivity.
Qed.

Lemma enc_entry_length e bs : enc_entry e = Some bs -> (3 <= length bs)%nat.
Proof.
  destruct e as [k v]. unfold enc_entry.
  destruct (enc_string k) as [kb|] eqn:Ek; [|discriminate]. cbn [obind].
  destruct (u32 (len v) =? 0) eqn:E0; [discriminate|].
  destruct (enc_varint_u (u32 (len v))) as [sz|] eqn:Es; [|discriminate]. cbn [obind].
  intros H. injection H as <-. rewrite !app_length.
  pose proof (enc_string_length _ _ Ek). pose proof (enc_varint_length _ _ (u32_range _) Es).
  pose proof (u32_range (len v)).
  assert (1 <= length (firstn (Z.to_nat (u32 (len v))) v))%nat; [|lia].
  rewrite firstn_length. unfold u32 in *. unfold len in *.
  assert (Z.of_nat (length v) <> 0).
  { intros Hz. rewrite Hz in E0. cbn in E0. discriminate. }
  lia.
Qed.

(* ------------------------------------------------------------------ entries *)

Definition set_entry (a : list (bytes * bytes)) (e : bytes * bytes) := map_set (fst e) (snd e) a.

Lemma dec_enc_entries : forall es bs rest acc fuel,
  Forall value_ok es -> enc_entries es = Some bs -> (length es <= fuel)%nat ->
  dec_entries fuel (len es) acc (bs ++ rest) = Ok (fold_left set_entry es acc, rest).
Proof.
  induction es as [|e es IH]; intros bs rest acc fuel Hv Henc Hf.
  - injection Henc as <-. destruct fuel; reflexivity.
  - cbn [enc_entries] in Henc.
    destruct (enc_entry e) as [a|] eqn:Ea; [|discriminate]. cbn [obind] in Henc.
    destruct (enc_entries es) as [b|] eqn:Eb; [|discriminate]. injection Henc as <-.
    inversion Hv; subst.
    destruct fuel as [|fuel]; [cbn in Hf; lia|].
    cbn [dec_entries]. rewrite len_cons. pose proof (len_nonneg es).
    destruct (1 + len es <=? 0) eqn:E; [lia|].
    rewrite <- app_assoc. rewrite (dec_enc_entry e a) by assumption.
    destruct e as [k v]. replace (1 + len es - 1) with (len es) by lia.
    rewrite (IH b rest); [reflexivity|assumption|reflexivity|cbn in Hf; lia].
Qed.

Lemma fold_set_sorted {V} (set := fun a (e : bytes * V) => map_set (fst e) (snd e) a) :
  forall s p, ssorted (p ++ s) -> fold_left set s p = p ++ s.
Proof.
  induction s as [|[k v] s IH]; intros p H; [cbn; rewrite app_nil_r; reflexivity|].
  cbn [fold_left]. destruct (ssorted_app_inv _ _ _ _ H) as (H1 & _ & _).
  unfold set at 2. cbn [fst snd]. rewrite map_set_all_lt by assumption.
  rewrite IH; [rewrite <- app_assoc; reflexivity|]. rewrite <- app_assoc. exact H.
Qed.

Lemma enc_entries_length es bs : enc_entries es = Some bs -> (3 * length es <= length bs)%nat.
Proof.
  revert bs. induction es as [|e es IH]; intros bs H; [cbn; lia|].
  cbn [enc_entries] in H. destruct (enc_entry e) as [a|] eqn:Ea; [|discriminate]. cbn [obind] in H.
  destruct (enc_entries es) as [b|] eqn:Eb; [|discriminate]. injection H as <-.
  rewrite app_length. cbn [length]. pose proof (enc_entry_length _ _ Ea). specialize (IH _ eq_refl). lia.
Qed.

(* ------------------------------------------------------------------ trees *)

Fixpoint node_ind' (P : node -> Prop)
  (H : forall es ss, Forall (fun kc => P (snd kc)) ss -> P (Node es ss)) (t : node) : P t :=
  match t with
  | Node es ss =>
    H es ss ((fix go (l : list (bytes * node)) : Forall (fun kc => P (snd kc)) l :=
                match l with
                | [] => Forall_nil _
                | kc :: l' => Forall_cons kc (node_ind' P H (snd kc)) (go l')
                end) ss)
  end.

(** What every tree a caller can build satisfies: the two maps of every object are in key
    order, and all container sizes fit the uint32_t casts of the encoder. *)
Inductive wf_node : node -> Prop :=
| wf_Node es ss :
    keys_sorted es = true -> keys_sorted ss = true ->
    len es < 2 ^ 32 -> len ss < 2 ^ 32 -> Forall value_ok es ->
    Forall (fun kc => wf_node (snd kc)) ss -> wf_node (Node es ss).

Fixpoint height (t : node) : nat :=
  match t with
  | Node _ ss => (fix go (l : list (bytes * node)) : nat :=
                    match l with [] => O | (_, c) :: l' => Nat.max (S (height c)) (go l') end) ss
  end.
Fixpoint subs_height (l : list (bytes * node)) : nat :=
  match l with [] => O | (_, c) :: l' => Nat.max (S (height c)) (subs_height l') end.
Lemma height_eq es ss : height (Node es ss) = subs_height ss.
Proof. reflexivity. Qed.

Lemma enc_node_l_eq es ss lvl : enc_node_l (Node es ss) lvl =
  (do n <- enc_varint_u (u32 (len es));
   do eb <- enc_entries es;
   do m <- enc_varint_u (u32 (len ss));
   if (match ss with [] => false | _ => lvl >? kMaxSubmetadataLevel end) then None else
   do sb <- enc_subs lvl ss;
   Some (n ++ eb ++ m ++ sb)).
Proof. reflexivity. Qed.

Lemma enc_node_l_length t : forall lvl bs, enc_node_l t lvl = Some bs -> (2 <= length bs)%nat.
Proof.
  destruct t as [es ss]. intros lvl bs. rewrite enc_node_l_eq.
  destruct (enc_varint_u (u32 (len es))) as [n|] eqn:En; [|discriminate]. cbn [obind].
  destruct (enc_entries es) as [eb|]; [|discriminate]. cbn [obind].
  destruct (enc_varint_u (u32 (len ss))) as [m|] eqn:Em; [|discriminate]. cbn [obind].
  destruct (match ss with [] => false | _ => lvl >? kMaxSubmetadataLevel end); [discriminate|].
  destruct (enc_subs lvl ss) as [sb|]; [|discriminate]. cbn [obind].
  intros H. injection H as <-. rewrite !app_length.
  pose proof (enc_varint_length _ _ (u32_range _) En). pose proof (enc_varint_length _ _ (u32_range _) Em). lia.
Qed.

Lemma enc_subs_length lvl : forall ss bs, enc_subs lvl ss = Some bs -> (3 * length ss <= length bs)%nat.
Proof.
  induction ss as [|[k c] ss IH]; intros bs H; [cbn; lia|].
  cbn [enc_subs] in H.
  destruct (enc_string k) as [kb|] eqn:Ek; [|discriminate]. cbn [obind] in H.
  destruct (enc_node_l c (lvl + 1)) as [cb|] eqn:Ec; [|discriminate]. cbn [obind] in H.
  destruct (enc_subs lvl ss) as [rb|] eqn:Er; [|discriminate]. cbn [obind] in H.
  injection H as <-. rewrite !app_length. cbn [length].
  pose proof (enc_string_length _ _ Ek). pose proof (enc_node_l_length _ _ _ Ec). specialize (IH _ eq_refl). lia.
Qed.

(** The child loop on encoder output, given the round trip of every child (induction hypothesis). *)
Lemma dec_enc_subs (dn : bytes -> res (node * bytes)) lvl :
  forall s, Forall (fun kc => forall bs rest, enc_node_l (snd kc) (lvl + 1) = Some bs ->
                               dn (bs ++ rest) = Ok (snd kc, rest)) s ->
  forall p sb rest, ssorted (p ++ s) -> enc_subs lvl s = Some sb ->
    (s <> [] -> lvl <= kMaxSubmetadataLevel) ->
    dec_subs dn lvl (length s) p (sb ++ rest) = Ok (p ++ s, rest).
Proof.
  induction s as [|[k c] s IH]; intros HF p sb rest Hs Henc Hl.
  - injection Henc as <-. cbn. rewrite app_nil_r. reflexivity.
  - cbn [enc_subs] in Henc.
    destruct (enc_string k) as [kb|] eqn:Ek; [|discriminate]. cbn [obind] in Henc.
    destruct (enc_node_l c (lvl + 1)) as [cb|] eqn:Ec; [|discriminate]. cbn [obind] in Henc.
    destruct (enc_subs lvl s) as [rb|] eqn:Er; [|discriminate]. cbn [obind] in Henc.
    injection Henc as <-. inversion HF as [|? ? Hc HF']; subst. cbn [snd] in Hc.
    cbn [length dec_subs].
    assert (Hlv: lvl <= kMaxSubmetadataLevel) by (apply Hl; discriminate).
    destruct (lvl >? kMaxSubmetadataLevel) eqn:E; [lia|].
    rewrite <- app_assoc. rewrite (dec_enc_name _ _ _ Ek).
    destruct (ssorted_app_inv _ _ _ _ Hs) as (H1 & _ & _).
    rewrite map_mem_all_lt by assumption.
    rewrite <- app_assoc. rewrite (Hc cb _ Ec).
    rewrite map_set_all_lt by assumption.
    rewrite (IH HF' (p ++ [(k, c)]) rb rest); [rewrite <- app_assoc; reflexivity| |reflexivity|].
    + rewrite <- app_assoc. exact Hs.
    + intros _. exact Hlv.
Qed.

(** Round trip of one metadata object at any admissible level, with any trailing bytes. *)
Lemma node_roundtrip : forall t, wf_node t -> forall lvl bs rest fuel,
  enc_node_l t lvl = Some bs -> (height t < fuel)%nat ->
  dec_node fuel lvl (bs ++ rest) = Ok (t, rest).
Proof.
  induction t as [es ss IH] using node_ind'. intros Hwf lvl bs rest fuel Henc Hf.
  inversion Hwf as [? ? Hse Hss Hle Hls Hv Hsub]; subst.
  rewrite enc_node_l_eq in Henc.
  destruct (enc_varint_u (u32 (len es))) as [n|] eqn:En; [|discriminate]. cbn [obind] in Henc.
  destruct (enc_entries es) as [eb|] eqn:Ee; [|discriminate]. cbn [obind] in Henc.
  destruct (enc_varint_u (u32 (len ss))) as [m|] eqn:Em; [|discriminate]. cbn [obind] in Henc.
  destruct (match ss with [] => false | _ => lvl >? kMaxSubmetadataLevel end) eqn:Elv; [discriminate|].
  destruct (enc_subs lvl ss) as [sb|] eqn:Es; [|discriminate]. cbn [obind] in Henc.
  injection Henc as <-.
  destruct fuel as [|fuel]; [lia|]. cbn [dec_node].
  pose proof (len_nonneg es). pose proof (len_nonneg ss).
  rewrite u32_small in En, Em by lia.
  rewrite <- app_assoc. rewrite (varint32_rt (len es)) by (assumption || lia).
  rewrite <- app_assoc.
  rewrite (dec_enc_entries es eb); [|assumption|assumption|].
  2:{ pose proof (enc_entries_length _ _ Ee). rewrite app_length. lia. }
  unfold set_entry. rewrite (fold_set_sorted es []) by (cbn; apply keys_sorted_ssorted; assumption). cbn [app].
  rewrite <- app_assoc. rewrite (varint32_rt (len ss)) by (assumption || lia).
  pose proof (enc_subs_length _ _ _ Es) as Hsl.
  destruct (len ss >? len (sb ++ rest)) eqn:Eg.
  { rewrite len_app in Eg. pose proof (len_nonneg rest). unfold len in *. lia. }
  unfold len at 1. rewrite Nat2Z.id.
  rewrite (dec_enc_subs (dec_node fuel (lvl + 1)) lvl ss); [reflexivity| | |exact Es|].
  - rewrite height_eq in Hf. clear - IH Hsub Hf.
    induction ss as [|[k c] ss IHs]; [constructor|].
    inversion IH; subst. inversion Hsub; subst. cbn [subs_height] in Hf.
    constructor; [|apply IHs; try assumption; lia].
    cbn [snd] in *. intros bs rest Hc. apply H1; [assumption|assumption|lia].
  - cbn. apply keys_sorted_ssorted. assumption.
  - intros Hne. destruct ss; [congruence|]. lia.
Qed.

(** The encoder's level check bounds the nesting of whatever it accepts. *)
Lemma enc_height : forall t lvl bs, enc_node_l t lvl = Some bs ->
  (0 < height t)%nat -> lvl + Z.of_nat (height t) <= kMaxSubmetadataLevel + 1.
Proof.
  induction t as [es ss IH] using node_ind'. intros lvl bs. rewrite enc_node_l_eq, height_eq.
  destruct (enc_varint_u (u32 (len es))) as [n|]; [|discriminate]. cbn [obind].
  destruct (enc_entries es) as [eb|]; [|discriminate]. cbn [obind].
  destruct (enc_varint_u (u32 (len ss))) as [m|]; [|discriminate]. cbn [obind].
  destruct (match ss with [] => false | _ => lvl >? kMaxSubmetadataLevel end) eqn:Elv; [discriminate|].
  destruct (enc_subs lvl ss) as [sb|] eqn:Es; [|discriminate]. intros _.
  assert (Hl: ss <> [] -> lvl <= kMaxSubmetadataLevel) by (destruct ss; [congruence|lia]).
  clear Elv. revert sb Es Hl. induction ss as [|[k c] ss IHs]; intros sb Es Hl Hh; [cbn in Hh; lia|].
  cbn [enc_subs] in Es. fold (enc_subs lvl) in Es.
  destruct (enc_string k) as [kb|]; [|discriminate]. cbn [obind] in Es.
  destruct (enc_node_l c (lvl + 1)) as [cb|] eqn:Ec; [|discriminate]. cbn [obind] in Es.
  destruct (enc_subs lvl ss) as [rb|] eqn:Er; [|discriminate].
  inversion IH as [|? ? Hc IH']; subst. cbn [snd] in Hc.
  specialize (Hl ltac:(discriminate)).
  cbn [subs_height].
  assert (H1: lvl + Z.of_nat (S (height c)) <= kMaxSubmetadataLevel + 1).
  { destruct (height c) as [|hc] eqn:Eh; [lia|]. specialize (Hc _ _ Ec ltac:(lia)). lia. }
  destruct (subs_height ss) as [|hs] eqn:Ehs; [lia|].
  assert (H2: lvl + Z.of_nat (S hs) <= kMaxSubmetadataLevel + 1).
  { apply (IHs IH' rb eq_refl); [intros _; exact Hl|lia]. }
  lia.
Qed.

Lemma enc_node_height t bs : enc_node t = Some bs -> (height t < 1003)%nat.
Proof.
  intros H. unfold enc_node in H. destruct (height t) eqn:E; [lia|].
  pose proof (enc_height t 0 bs H ltac:(lia)). unfold kMaxSubmetadataLevel in *. lia.
Qed.

(** A decoder for one metadata object is a round trip of the public EncodeMetadata. *)
Definition node_rt (dn : bytes -> res (node * bytes)) : Prop :=
  forall t bs rest, wf_node t -> enc_node t = Some bs -> dn (bs ++ rest) = Ok (t, rest).

Lemma dec_node_rec_rt : node_rt dec_node_rec.
Proof.
  intros t bs rest Hwf Henc. unfold dec_node_rec.
  apply node_roundtrip; [assumption|exact Henc|apply (enc_node_height t bs Henc)].
Qed.

(* ------------------------------------------------------------------ geometry metadata *)

Definition att_ok (a : Z * node) : Prop := 0 <= fst a < 2 ^ 32 /\ wf_node (snd a).
Record wf_gmeta (g : gmeta) : Prop := {
  wf_atts : Forall att_ok (gm_atts g);
  wf_natts : len (gm_atts g) < 2 ^ 32;
  wf_root : wf_node (gm_root g) }.

Lemma enc_atts_length l : forall bs, Forall att_ok l -> enc_atts l = Some bs -> (3 * length l <= length bs)%nat.
Proof.
  induction l as [|a l IH]; intros bs HF H; [cbn; lia|].
  cbn [enc_atts] in H. unfold enc_att in H.
  destruct (enc_varint_u (fst a)) as [i|] eqn:Ei; [|discriminate]. cbn [obind] in H.
  destruct (enc_node (snd a)) as [b|] eqn:Eb; [|discriminate]. cbn [obind] in H.
  destruct (enc_atts l) as [y|] eqn:Ey; [|discriminate]. injection H as <-.
  inversion HF as [|? ? [Ha _] HF']; subst.
  rewrite !app_length. cbn [length]. pose proof (enc_varint_length _ _ Ha Ei).
  pose proof (enc_node_l_length _ _ _ Eb). specialize (IH _ HF' eq_refl). lia.
Qed.

Lemma dec_enc_atts dn : node_rt dn -> forall l ab rest fuel, Forall att_ok l -> enc_atts l = Some ab ->
  (length l <= fuel)%nat -> dec_atts dn fuel (len l) (ab ++ rest) = Ok (l, rest).
Proof.
  intros Hdn. induction l as [|a l IH]; intros ab rest fuel HF Henc Hf.
  - injection Henc as <-. destruct fuel; reflexivity.
  - cbn [enc_atts] in Henc. unfold enc_att in Henc.
    destruct (enc_varint_u (fst a)) as [i|] eqn:Ei; [|discriminate]. cbn [obind] in Henc.
    destruct (enc_node (snd a)) as [b|] eqn:Eb; [|discriminate]. cbn [obind] in Henc.
    destruct (enc_atts l) as [y|] eqn:Ey; [|discriminate]. injection Henc as <-.
    inversion HF as [|? ? [Ha Hw] HF']; subst.
    destruct fuel as [|fuel]; [cbn in Hf; lia|]. cbn [dec_atts].
    rewrite len_cons. pose proof (len_nonneg l).
    destruct (1 + len l <=? 0) eqn:E; [lia|].
    rewrite <- !app_assoc. rewrite (varint32_rt (fst a)) by assumption.
    rewrite (Hdn (snd a) b _ Hw Eb).
    replace (1 + len l - 1) with (len l) by lia.
    rewrite (IH y rest fuel HF' eq_refl); [|cbn in Hf; lia].
    destruct a; reflexivity.
Qed.

Lemma geometry_roundtrip_with dn : node_rt dn -> forall g bs rest, wf_gmeta g ->
  enc_geometry g = Some bs -> dec_geometry_with dn (bs ++ rest) = Ok (g, rest).
Proof.
  intros Hdn [atts root] bs rest [Ha Hn Hr]. cbn [gm_atts gm_root] in *. unfold enc_geometry. cbn [gm_atts gm_root].
  pose proof (len_nonneg atts).
  rewrite u32_small by lia.
  destruct (enc_varint_u (len atts)) as [n|] eqn:En; [|discriminate]. cbn [obind].
  destruct (enc_atts atts) as [ab|] eqn:Eab; [|discriminate]. cbn [obind].
  destruct (enc_node root) as [rb|] eqn:Erb; [|discriminate]. cbn [obind].
  intros H0. injection H0 as <-. unfold dec_geometry_with.
  rewrite <- app_assoc. rewrite (varint32_rt (len atts)) by (assumption || lia).
  rewrite <- app_assoc. rewrite (dec_enc_atts dn Hdn atts ab); [|assumption|assumption|].
  2:{ pose proof (enc_atts_length _ _ Ha Eab). rewrite app_length. lia. }
  rewrite (Hdn root rb rest Hr Erb). reflexivity.
Qed.

Lemma metadata_roundtrips_rec g bs rest : wf_gmeta g -> enc_geometry g = Some bs ->
  dec_geometry_rec (bs ++ rest) = Ok (g, rest).
Proof. apply geometry_roundtrip_with. exact dec_node_rec_rt. Qed.

(* ------------------------------------------------------------------ when exactly the encoder fails *)

Definition entry_encodable (e : bytes * bytes) : Prop := len (fst e) <= 255 /\ 0 < len (snd e).

(** [encodable lvl t]: every name has at most 255 bytes, no value is empty, and no object whose
    children would get a level above kMaxSubmetadataLevel has children. *)
Inductive encodable : Z -> node -> Prop :=
| encodable_Node lvl es ss :
    Forall entry_encodable es ->
    Forall (fun kc => len (fst kc) <= 255 /\ encodable (lvl + 1) (snd kc)) ss ->
    (ss <> [] -> lvl <= kMaxSubmetadataLevel) ->
    encodable lvl (Node es ss).

Definition gencodable (g : gmeta) : Prop :=
  Forall (fun a => encodable 0 (snd a)) (gm_atts g) /\ encodable 0 (gm_root g).

Lemma enc_string_some s : len s <= 255 -> exists b, enc_string s = Some b.
Proof.
  intros H. unfold enc_string. destruct (len s >? 255) eqn:E; [lia|]. destruct (len s =? 0); eauto.
Qed.
Lemma enc_string_inv s b : enc_string s = Some b -> len s <= 255.
Proof. unfold enc_string. destruct (len s >? 255) eqn:E; [discriminate|]. lia. Qed.

Lemma enc_varint_some v : 0 <= v < 2 ^ 32 -> exists b, enc_varint_u v = Some b.
Proof. intros H. destruct (enc_varint_u_total 32 v w32 H) as (b & Hb & _). eauto. Qed.

Lemma enc_entries_some es : Forall value_ok es -> Forall entry_encodable es -> exists b, enc_entries es = Some b.
Proof.
  induction es as [|[k v] es IH]; intros Hv He; [cbn; eauto|].
  inversion Hv as [|? ? Hv1 Hv2]; inversion He as [|? ? [He1 He1'] He2]; subst. cbn [fst snd] in *.
  destruct (IH Hv2 He2) as (b & Hb). destruct (enc_string_some k He1) as (kb & Hkb).
  unfold value_ok in Hv1. cbn [snd] in Hv1.
  destruct (enc_varint_some (len v) ltac:(lia)) as (sz & Hsz).
  cbn [enc_entries enc_entry]. rewrite Hkb. cbn [obind]. rewrite u32_small by lia.
  destruct (len v =? 0) eqn:E; [lia|]. rewrite Hsz. cbn [obind]. rewrite Hb. cbn [obind]. eauto.
Qed.

Lemma enc_entries_inv es : forall b, enc_entries es = Some b -> Forall entry_encodable es.
Proof.
  induction es as [|[k v] es IH]; intros b H; [constructor|].
  cbn [enc_entries enc_entry] in H.
  destruct (enc_string k) as [kb|] eqn:Ek; [|discriminate]. cbn [obind] in H.
  destruct (u32 (len v) =? 0) eqn:E; [discriminate|].
  destruct (enc_varint_u (u32 (len v))) as [sz|]; [|discriminate]. cbn [obind] in H.
  destruct (enc_entries es) as [b'|]; [|discriminate].
  constructor; [|eapply IH; reflexivity].
  split; cbn [fst snd]; [eapply enc_string_inv; eassumption|].
  pose proof (len_nonneg v). assert (len v <> 0); [|lia]. intros Hz. rewrite Hz in E. cbn in E. discriminate.
Qed.

Lemma enc_node_some : forall t, wf_node t -> forall lvl, encodable lvl t -> exists bs, enc_node_l t lvl = Some bs.
Proof.
  induction t as [es ss IH] using node_ind'. intros Hwf lvl Henc.
  inversion Hwf as [? ? Hse Hss Hle Hls Hv Hsub]; subst.
  inversion Henc as [? ? ? He Hs Hl]; subst.
  rewrite enc_node_l_eq.
  destruct (enc_varint_some (u32 (len es)) (u32_range _)) as (n & ->). cbn [obind].
  destruct (enc_entries_some es Hv He) as (eb & ->). cbn [obind].
  destruct (enc_varint_some (u32 (len ss)) (u32_range _)) as (m & ->). cbn [obind].
  assert (Elv: (match ss with [] => false | _ => lvl >? kMaxSubmetadataLevel end) = false).
  { destruct ss; [reflexivity|]. specialize (Hl ltac:(discriminate)). lia. }
  rewrite Elv.
  assert (Hsb: exists sb, enc_subs lvl ss = Some sb).
  { clear Elv Hl Hss Hls Henc Hwf. induction ss as [|[k c] ss IHs]; [cbn; eauto|].
    inversion IH as [|? ? Hc IH']; inversion Hsub as [|? ? Hw Hsub']; inversion Hs as [|? ? [Hk Hce] Hs']; subst.
    cbn [fst snd] in *. destruct (IHs IH' Hsub' Hs') as (rb & Hrb).
    destruct (enc_string_some k Hk) as (kb & Hkb). destruct (Hc Hw _ Hce) as (cb & Hcb).
    cbn [enc_subs]. fold (enc_subs lvl). rewrite Hkb. cbn [obind]. rewrite Hcb. cbn [obind]. rewrite Hrb. cbn [obind]. eauto. }
  destruct Hsb as (sb & ->). cbn [obind]. eauto.
Qed.

Lemma enc_node_inv : forall t lvl bs, enc_node_l t lvl = Some bs -> encodable lvl t.
Proof.
  induction t as [es ss IH] using node_ind'. intros lvl bs. rewrite enc_node_l_eq.
  destruct (enc_varint_u (u32 (len es))) as [n|]; [|discriminate]. cbn [obind].
  destruct (enc_entries es) as [eb|] eqn:Ee; [|discriminate]. cbn [obind].
  destruct (enc_varint_u (u32 (len ss))) as [m|]; [|discriminate]. cbn [obind].
  destruct (match ss with [] => false | _ => lvl >? kMaxSubmetadataLevel end) eqn:Elv; [discriminate|].
  destruct (enc_subs lvl ss) as [sb|] eqn:Es; [|discriminate]. intros _.
  constructor; [eapply enc_entries_inv; eassumption| |intros Hne; destruct ss; [exfalso; apply Hne; reflexivity|lia]].
  clear Elv. revert sb Es. induction ss as [|[k c] ss IHs]; intros sb Es; [constructor|].
  cbn [enc_subs] in Es. fold (enc_subs lvl) in Es.
  destruct (enc_string k) as [kb|] eqn:Ek; [|discriminate]. cbn [obind] in Es.
  destruct (enc_node_l c (lvl + 1)) as [cb|] eqn:Ec; [|discriminate]. cbn [obind] in Es.
  destruct (enc_subs lvl ss) as [rb|] eqn:Er; [|discriminate].
  inversion IH as [|? ? Hc IH']; subst. cbn [snd] in Hc.
  constructor; [split; cbn [fst snd]; [eapply enc_string_inv; eassumption|eapply Hc; eassumption]|].
  eapply IHs; [assumption|reflexivity].
Qed.

Lemma enc_atts_some l : Forall att_ok l -> Forall (fun a => encodable 0 (snd a)) l -> exists b, enc_atts l = Some b.
Proof.
  induction l as [|a l IH]; intros Ha He; [cbn; eauto|].
  inversion Ha as [|? ? [Hi Hw] Ha']; inversion He as [|? ? He1 He']; subst.
  destruct (IH Ha' He') as (y & Hy). destruct (enc_varint_some _ Hi) as (i & Hi').
  destruct (enc_node_some _ Hw 0 He1) as (b & Hb).
  cbn [enc_atts]. unfold enc_att, enc_node. rewrite Hi'. cbn [obind]. rewrite Hb. cbn [obind]. rewrite Hy. cbn [obind]. eauto.
Qed.
Lemma enc_atts_inv l : forall b, enc_atts l = Some b -> Forall (fun a => encodable 0 (snd a)) l.
Proof.
  induction l as [|a l IH]; intros b H; [constructor|].
  cbn [enc_atts] in H. unfold enc_att in H.
  destruct (enc_varint_u (fst a)) as [i|]; [|discriminate]. cbn [obind] in H.
  destruct (enc_node (snd a)) as [nb|] eqn:En; [|discriminate]. cbn [obind] in H.
  destruct (enc_atts l) as [y|]; [|discriminate].
  constructor; [eapply enc_node_inv; exact En|eapply IH; reflexivity].
Qed.

(** The encoder fails exactly on trees with a name over 255 bytes, an empty value, or nesting
    the decoder would refuse. *)
Lemma enc_geometry_fails_iff g : wf_gmeta g -> (enc_geometry g = None <-> ~ gencodable g).
Proof.
  intros [Ha Hn Hr]. destruct g as [atts root]. cbn [gm_atts gm_root] in *. split.
  - intros Hnone [He1 He2]. cbn [gm_atts gm_root] in *. unfold enc_geometry in Hnone. cbn [gm_atts gm_root] in Hnone.
    destruct (enc_varint_some (u32 (len atts)) (u32_range _)) as (n & Hn'). rewrite Hn' in Hnone. cbn [obind] in Hnone.
    destruct (enc_atts_some atts Ha He1) as (ab & Hab). rewrite Hab in Hnone. cbn [obind] in Hnone.
    destruct (enc_node_some root Hr 0 He2) as (rb & Hrb). unfold enc_node in Hnone. rewrite Hrb in Hnone. discriminate.
  - intros Hne. destruct (enc_geometry (GMeta atts root)) as [bs|] eqn:E; [|reflexivity].
    exfalso. apply Hne. unfold enc_geometry in E. cbn [gm_atts gm_root] in E.
    destruct (enc_varint_u (u32 (len atts))) as [n|]; [|discriminate]. cbn [obind] in E.
    destruct (enc_atts atts) as [ab|] eqn:Eab; [|discriminate]. cbn [obind] in E.
    destruct (enc_node root) as [rb|] eqn:Erb; [|discriminate].
    split; cbn [gm_atts gm_root]; [eapply enc_atts_inv; eassumption|eapply enc_node_inv; exact Erb].
Qed.

(** Never silently altered, never undecodable (stated for any correct object decoder). *)
Lemma encode_fail_or_roundtrip_with dn : node_rt dn -> forall g, wf_gmeta g ->
  enc_geometry g = None \/ exists bs, enc_geometry g = Some bs /\ dec_geometry_with dn bs = Ok (g, []).
Proof.
  intros Hdn g Hwf. destruct (enc_geometry g) as [bs|] eqn:E; [right|left; reflexivity].
  exists bs. split; [reflexivity|]. rewrite <- (app_nil_r bs) at 1.
  apply geometry_roundtrip_with; assumption.
Qed.

(* ------------------------------------------------------------------ totality: fuel is never exhausted *)

Lemma dec_varint_fuel_consumes w : forall fuel bs v r,
  dec_varint_u_fuel w fuel bs = Some (v, r) -> (length r < length bs)%nat.
Proof.
  induction fuel as [|fuel IH]; intros bs v r H; [discriminate|].
  cbn [dec_varint_u_fuel] in H. destruct bs as [|b bs]; [discriminate|].
  destruct (Z.land b 128 =? 0).
  - injection H as <- <-. cbn. lia.
  - destruct (dec_varint_u_fuel w fuel bs) as [[v' r']|] eqn:E; [|discriminate].
    injection H as <- <-. specialize (IH _ _ _ E). cbn. lia.
Qed.
Lemma dec_varint_consumes w bs v r : dec_varint_u w bs = Some (v, r) -> (length r < length bs)%nat.
Proof. apply dec_varint_fuel_consumes. Qed.

Lemma dec_name_consumes bs k r : dec_name bs = Some (k, r) -> (length r < length bs)%nat.
Proof.
  unfold dec_name. destruct bs as [|n bs]; [discriminate|].
  destruct (n =? 0); [intros H; injection H as <- <-; cbn; lia|].
  destruct (n >? len bs); [discriminate|]. intros H; injection H as <- <-.
  rewrite skipn_length. cbn. lia.
Qed.

Lemma dec_entry_consumes bs e r : dec_entry bs = Some (e, r) -> (length r < length bs)%nat.
Proof.
  unfold dec_entry. destruct (dec_name bs) as [[k r1]|] eqn:E1; [|discriminate]. cbn [obind].
  destruct (dec_varint_u 32 r1) as [[sz r2]|] eqn:E2; [|discriminate]. cbn [obind].
  destruct (sz =? 0); [discriminate|]. destruct (sz >? len r2); [discriminate|].
  intros H; injection H as <- <-. rewrite skipn_length.
  pose proof (dec_name_consumes _ _ _ E1). pose proof (dec_varint_consumes _ _ _ _ E2). lia.
Qed.

(** The only allocation of DecodeEntry is bounded by the bytes that remain at that point. *)
Lemma entry_alloc_bounded bs sz rem : entry_alloc bs = Some (sz, rem) -> sz <= rem /\ rem < len bs.
Proof.
  unfold entry_alloc. destruct (dec_name bs) as [[k r1]|] eqn:E1; [|discriminate]. cbn [obind].
  destruct (dec_varint_u 32 r1) as [[s r2]|] eqn:E2; [|discriminate]. cbn [obind].
  destruct (s =? 0) eqn:E0; [discriminate|]. destruct (s >? len r2) eqn:Eg; [discriminate|].
  intros H; injection H as <- <-.
  pose proof (dec_name_consumes _ _ _ E1). pose proof (dec_varint_consumes _ _ _ _ E2).
  unfold len in *; lia.
Qed.

Lemma dec_entries_total : forall fuel n acc bs, (length bs < fuel)%nat ->
  dec_entries fuel n acc bs <> OutOfFuel /\
  (forall a r, dec_entries fuel n acc bs = Ok (a, r) -> (length r <= length bs)%nat).
Proof.
  induction fuel as [|fuel IH]; intros n acc bs Hf; [lia|].
  cbn [dec_entries]. destruct (n <=? 0).
  - split; [discriminate|]. intros a r H; injection H as <- <-. lia.
  - destruct (dec_entry bs) as [[[k v] r1]|] eqn:E; [|split; [discriminate|discriminate]].
    pose proof (dec_entry_consumes _ _ _ E).
    destruct (IH (n - 1) (map_set k v acc) r1 ltac:(lia)) as [H1 H2].
    split; [exact H1|]. intros a r Hr. specialize (H2 _ _ Hr). lia.
Qed.

Lemma dec_entries_at_total : forall fuel n cur root bs, (length bs < fuel)%nat ->
  dec_entries_at fuel n cur root bs <> OutOfFuel /\
  (forall a r, dec_entries_at fuel n cur root bs = Ok (a, r) -> (length r <= length bs)%nat).
Proof.
  induction fuel as [|fuel IH]; intros n cur root bs Hf; [lia|].
  cbn [dec_entries_at]. destruct (n <=? 0).
  - split; [discriminate|]. intros a r H; injection H as <- <-. lia.
  - destruct (dec_entry bs) as [[[k v] r1]|] eqn:E; [|split; [discriminate|discriminate]].
    pose proof (dec_entry_consumes _ _ _ E).
    destruct (upd_at cur (add_entry k v) root) as [root'|]; [|split; discriminate].
    destruct (IH (n - 1) cur root' r1 ltac:(lia)) as [H1 H2].
    split; [exact H1|]. intros a r Hr. specialize (H2 _ _ Hr). lia.
Qed.

(** a decoder of one object that never runs out of fuel and never returns more than it got *)
Definition dn_total (dn : bytes -> res (node * bytes)) : Prop :=
  forall bs, dn bs <> OutOfFuel /\ (forall t r, dn bs = Ok (t, r) -> (length r <= length bs)%nat).

Lemma dec_subs_total dn level : (level <= kMaxSubmetadataLevel -> dn_total dn) ->
  forall n acc bs, dec_subs dn level n acc bs <> OutOfFuel /\
    (forall a r, dec_subs dn level n acc bs = Ok (a, r) -> (length r <= length bs)%nat).
Proof.
  intros Hdn. induction n as [|n IH]; intros acc bs; cbn [dec_subs].
  - split; [discriminate|]. intros a r H; injection H as <- <-. lia.
  - destruct (level >? kMaxSubmetadataLevel) eqn:El; [split; discriminate|].
    destruct (dec_name bs) as [[k r1]|] eqn:E; [|split; discriminate].
    destruct (map_mem k acc); [split; discriminate|].
    destruct (Hdn ltac:(lia) r1) as [H1 H2].
    pose proof (dec_name_consumes _ _ _ E).
    destruct (dn r1) as [[c r2]| |] eqn:Ed; [|split; discriminate|congruence].
    specialize (H2 _ _ eq_refl).
    destruct (IH (map_set k c acc) r2) as [H3 H4]. split; [exact H3|].
    intros a r Hr. specialize (H4 _ _ Hr). lia.
Qed.

Lemma dec_node_total : forall fuel lvl,
  kMaxSubmetadataLevel + 2 <= Z.of_nat fuel + lvl -> lvl <= kMaxSubmetadataLevel + 1 ->
  dn_total (dec_node fuel lvl).
Proof.
  induction fuel as [|fuel IH]; intros lvl Hf Hl bs; [lia|].
  cbn [dec_node].
  destruct (dec_varint_u 32 bs) as [[ne r1]|] eqn:E1; [|split; discriminate].
  pose proof (dec_varint_consumes _ _ _ _ E1).
  destruct (dec_entries_total (S (length r1)) ne [] r1 ltac:(lia)) as [H1 H2].
  destruct (dec_entries (S (length r1)) ne [] r1) as [[es r2]| |]; [|split; discriminate|congruence].
  specialize (H2 _ _ eq_refl).
  destruct (dec_varint_u 32 r2) as [[ns r3]|] eqn:E2; [|split; discriminate].
  pose proof (dec_varint_consumes _ _ _ _ E2).
  destruct (ns >? len r3); [split; discriminate|].
  destruct (dec_subs_total (dec_node fuel (lvl + 1)) lvl) with (n := Z.to_nat ns) (acc := @nil (bytes * node)) (bs := r3) as [H3 H4].
  { intros Hle. apply IH; lia. }
  destruct (dec_subs (dec_node fuel (lvl + 1)) lvl (Z.to_nat ns) [] r3) as [[ss r4]| |]; [|split; discriminate|congruence].
  specialize (H4 _ _ eq_refl). split; [discriminate|].
  intros t r Hr. injection Hr as <- <-. lia.
Qed.

Lemma dec_node_rec_total : dn_total dec_node_rec.
Proof. apply dec_node_total; unfold kMaxSubmetadataLevel; lia. Qed.

(** One iteration of the work-list loop: never out of fuel; consumes at least two bytes; pushes at
    most as many frames as bytes remain AFTER the iteration. *)
Lemma stack_step_total root par level stk bs :
  stack_step root par level stk bs <> OutOfFuel /\
  (forall root2 stk2 r, stack_step root par level stk bs = Ok (root2, stk2, r) ->
     (length r + 2 <= length bs)%nat /\ (length stk2 <= length stk + length r)%nat /\
     exists pushed, stk2 = pushed ++ stk /\ (length pushed <= length r)%nat).
Proof.
  unfold stack_step.
  match goal with |- context [match ?X with Ok _ => _ | Fail => Fail | OutOfFuel => OutOfFuel end] =>
    match X with match par with Some _ => _ | None => _ end => set (start := X) end end.
  assert (Hs: forall root1 cur r0, start = Ok (root1, cur, r0) -> (length r0 <= length bs)%nat).
  { subst start. destruct par as [p|].
    - destruct (level >? kMaxSubmetadataLevel); [discriminate|].
      destruct (dec_name bs) as [[k r]|] eqn:E; [|discriminate].
      destruct (upd_at p (add_sub k) root); [|discriminate].
      intros ? ? ? H; injection H as <- <- <-. pose proof (dec_name_consumes _ _ _ E). lia.
    - intros ? ? ? H; injection H as <- <- <-. lia. }
  assert (Hnf: start <> OutOfFuel).
  { subst start. destruct par as [p|]; [|discriminate].
    destruct (level >? kMaxSubmetadataLevel); [discriminate|].
    destruct (dec_name bs) as [[k r]|]; [|discriminate].
    destruct (upd_at p (add_sub k) root); discriminate. }
  destruct start as [[[root1 cur] r0]| |]; [|split; discriminate|congruence].
  specialize (Hs _ _ _ eq_refl).
  destruct (dec_varint_u 32 r0) as [[ne r1]|] eqn:E1; [|split; discriminate].
  pose proof (dec_varint_consumes _ _ _ _ E1).
  destruct (dec_entries_at_total (S (length r1)) ne cur root1 r1 ltac:(lia)) as [H1 H2].
  destruct (dec_entries_at (S (length r1)) ne cur root1 r1) as [[root2 r2]| |]; [|split; discriminate|congruence].
  specialize (H2 _ _ eq_refl).
  destruct (dec_varint_u 32 r2) as [[ns r3]|] eqn:E2; [|split; discriminate].
  pose proof (dec_varint_consumes _ _ _ _ E2).
  destruct (ns >? len r3) eqn:Eg; [split; discriminate|].
  split; [discriminate|]. intros root2' stk2 r Hr. injection Hr as <- <- <-.
  assert (Hp: (Z.to_nat ns <= length r3)%nat) by (unfold len in Eg; lia).
  split; [lia|]. split; [rewrite app_length, repeat_length; unfold frame in *; lia|].
  eexists; split; [reflexivity|]. rewrite repeat_length. exact Hp.
Qed.

Lemma stack_loop_total : forall fuel root stk bs, (length bs < fuel)%nat ->
  stack_loop fuel root stk bs <> OutOfFuel /\
  (forall t r, stack_loop fuel root stk bs = Ok (t, r) -> (length r <= length bs)%nat).
Proof.
  induction fuel as [|fuel IH]; intros root stk bs Hf; [lia|].
  cbn [stack_loop]. destruct stk as [|[par level] stk'].
  - split; [discriminate|]. intros t r H; injection H as <- <-. lia.
  - destruct (stack_step_total root par level stk' bs) as [H1 H2].
    destruct (stack_step root par level stk' bs) as [[[root2 stk2] r3]| |]; [|split; discriminate|congruence].
    destruct (H2 _ _ _ eq_refl) as (H3 & _).
    destruct (IH root2 stk2 r3 ltac:(lia)) as [H4 H5]. split; [exact H4|].
    intros t r Hr. specialize (H5 _ _ Hr). lia.
Qed.

Lemma dec_node_stack_total : dn_total dec_node_stack.
Proof. intros bs. unfold dec_node_stack. apply stack_loop_total. lia. Qed.

Lemma dec_atts_total dn : dn_total dn -> forall fuel n bs, (length bs < fuel)%nat ->
  dec_atts dn fuel n bs <> OutOfFuel /\
  (forall l r, dec_atts dn fuel n bs = Ok (l, r) -> (length r <= length bs)%nat).
Proof.
  intros Hdn. induction fuel as [|fuel IH]; intros n bs Hf; [lia|].
  cbn [dec_atts]. destruct (n <=? 0).
  - split; [discriminate|]. intros l r H; injection H as <- <-. lia.
  - destruct (dec_varint_u 32 bs) as [[id r1]|] eqn:E1; [|split; discriminate].
    pose proof (dec_varint_consumes _ _ _ _ E1).
    destruct (Hdn r1) as [H1 H2].
    destruct (dn r1) as [[t r2]| |]; [|split; discriminate|congruence].
    specialize (H2 _ _ eq_refl).
    destruct (IH (n - 1) r2 ltac:(lia)) as [H3 H4].
    destruct (dec_atts dn fuel (n - 1) r2) as [[l r3]| |]; [|split; discriminate|congruence].
    specialize (H4 _ _ eq_refl). split; [discriminate|].
    intros l' r Hr. injection Hr as <- <-. lia.
Qed.

Lemma dec_geometry_with_total dn : dn_total dn -> forall bs,
  dec_geometry_with dn bs <> OutOfFuel /\
  (forall g r, dec_geometry_with dn bs = Ok (g, r) -> (length r <= length bs)%nat).
Proof.
  intros Hdn bs. unfold dec_geometry_with.
  destruct (dec_varint_u 32 bs) as [[na r1]|] eqn:E1; [|split; discriminate].
  pose proof (dec_varint_consumes _ _ _ _ E1).
  destruct (dec_atts_total dn Hdn (S (length r1)) na r1 ltac:(lia)) as [H1 H2].
  destruct (dec_atts dn (S (length r1)) na r1) as [[atts r2]| |]; [|split; discriminate|congruence].
  specialize (H2 _ _ eq_refl).
  destruct (Hdn r2) as [H3 H4].
  destruct (dn r2) as [[root r3]| |]; [|split; discriminate|congruence].
  specialize (H4 _ _ eq_refl). split; [discriminate|].
  intros g r Hr. injection Hr as <- <-. lia.
Qed.

(* ------------------------------------------------------------------ pointers = paths *)

(** overwrite the object at [p] *)
Definition put_at (p : path) (t' : node) (root : node) : option node := upd_at p (fun _ => Some t') root.
Definition map_put {V} (k : bytes) (v : V) (m : list (bytes * V)) := map_upd k (fun _ => Some v) m.

Lemma map_upd_found {V} k (f : V -> option V) : forall m v, map_find k m = Some v ->
  map_upd k f m = match f v with Some v' => map_put k v' m | None => None end.
Proof.
  induction m as [|[k' v'] m IH]; intros v H; [discriminate|].
  cbn [map_find] in H. unfold map_put. cbn [map_upd].
  destruct (bytes_cmp k k') eqn:E.
  - injection H as <-. destruct (f v'); reflexivity.
  - rewrite (IH _ H). destruct (f v); [|reflexivity]. unfold map_put. reflexivity.
  - rewrite (IH _ H). destruct (f v); [|reflexivity]. unfold map_put. reflexivity.
Qed.

Lemma map_put_found {V} k (v' : V) : forall m v, map_find k m = Some v ->
  exists m', map_put k v' m = Some m' /\ map_find k m' = Some v' /\
             (forall v'', map_put k v'' m' = map_put k v'' m).
Proof.
  induction m as [|[k' v0] m IH]; intros v H; [discriminate|].
  cbn [map_find] in H. unfold map_put. cbn [map_upd].
  destruct (bytes_cmp k k') eqn:E.
  - eexists; split; [reflexivity|]. cbn [map_find map_upd]. rewrite E. split; reflexivity.
  - destruct (IH _ H) as (m' & H1 & H2 & H3). unfold map_put in H1. rewrite H1.
    eexists; split; [reflexivity|]. cbn [map_find map_upd]. rewrite E. split; [exact H2|].
    intros v''. unfold map_put in H3. rewrite H3. reflexivity.
  - destruct (IH _ H) as (m' & H1 & H2 & H3). unfold map_put in H1. rewrite H1.
    eexists; split; [reflexivity|]. cbn [map_find map_upd]. rewrite E. split; [exact H2|].
    intros v''. unfold map_put in H3. rewrite H3. reflexivity.
Qed.

Lemma map_put_same {V} k : forall (m : list (bytes * V)) v, map_find k m = Some v -> map_put k v m = Some m.
Proof.
  induction m as [|[k' v0] m IH]; intros v H; [discriminate|].
  cbn [map_find] in H. unfold map_put. cbn [map_upd].
  destruct (bytes_cmp k k') eqn:E.
  - injection H as <-. reflexivity.
  - specialize (IH _ H). unfold map_put in IH. rewrite IH. reflexivity.
  - specialize (IH _ H). unfold map_put in IH. rewrite IH. reflexivity.
Qed.

Lemma map_find_set {V} k (v : V) : forall m, map_find k (map_set k v m) = Some v.
Proof.
  induction m as [|[k' v0] m IH]; cbn [map_set map_find].
  - rewrite bytes_cmp_refl. reflexivity.
  - destruct (bytes_cmp k k') eqn:E; cbn [map_find]; rewrite ?bytes_cmp_refl, ?E; auto.
Qed.

Lemma map_put_set {V} k (v0 v : V) : forall m, map_put k v (map_set k v0 m) = Some (map_set k v m).
Proof.
  unfold map_put. induction m as [|[k' v1] m IH]; cbn [map_set map_upd].
  - rewrite bytes_cmp_refl. reflexivity.
  - destruct (bytes_cmp k k') eqn:E; cbn [map_upd]; rewrite ?bytes_cmp_refl, ?E, ?IH; reflexivity.
Qed.

(** (A) the result of an update depends on [f] only at the object that is there *)
Lemma upd_at_found : forall p f root t, node_at p root = Some t ->
  upd_at p f root = match f t with Some t' => put_at p t' root | None => None end.
Proof.
  induction p as [|k p IH]; intros f root t H.
  - cbn in H. injection H as <-. unfold put_at. cbn. destruct (f root); reflexivity.
  - destruct root as [es ss]. cbn [node_at node_subs] in H.
    destruct (map_find k ss) as [c|] eqn:Ef; [|discriminate].
    unfold put_at. cbn [upd_at]. rewrite (map_upd_found k _ ss c Ef). rewrite (IH f c t H).
    destruct (f t) as [t'|]; [|reflexivity].
    rewrite (map_upd_found k _ ss c Ef). fold (put_at p t' c).
    destruct (put_at p t' c); reflexivity.
Qed.

(** (B,C,D) overwriting: succeeds, is read back, absorbs an earlier overwrite, identity *)
Lemma put_at_found : forall p t' root t, node_at p root = Some t ->
  exists root', put_at p t' root = Some root' /\ node_at p root' = Some t' /\
                (forall t'', put_at p t'' root' = put_at p t'' root).
Proof.
  induction p as [|k p IH]; intros t' root t H.
  - unfold put_at. cbn. eexists; split; [reflexivity|]. split; reflexivity.
  - destruct root as [es ss]. cbn [node_at node_subs] in H.
    destruct (map_find k ss) as [c|] eqn:Ef; [|discriminate].
    destruct (IH t' c t H) as (c' & H1 & H2 & H3).
    destruct (map_put_found k c' ss c Ef) as (ss' & M1 & M2 & M3).
    unfold put_at. cbn [upd_at]. rewrite (map_upd_found k _ ss c Ef). fold (put_at p t' c). rewrite H1, M1.
    eexists; split; [reflexivity|]. cbn [node_at node_subs]. rewrite M2. split; [exact H2|].
    intros t''. cbn [upd_at]. rewrite (map_upd_found k _ ss' c' M2), (map_upd_found k _ ss c Ef).
    fold (put_at p t'' c') (put_at p t'' c). rewrite H3. destruct (put_at p t'' c); [|reflexivity].
    rewrite M3. reflexivity.
Qed.

Lemma put_at_same : forall p root t, node_at p root = Some t -> put_at p t root = Some root.
Proof.
  induction p as [|k p IH]; intros root t H.
  - cbn in H. injection H as <-. reflexivity.
  - destruct root as [es ss]. cbn [node_at node_subs] in H.
    destruct (map_find k ss) as [c|] eqn:Ef; [|discriminate].
    unfold put_at. cbn [upd_at]. rewrite (map_upd_found k _ ss c Ef). fold (put_at p t c).
    rewrite (IH c t H). rewrite (map_put_same k ss c Ef). reflexivity.
Qed.

(** (E,F) one step further down *)
Lemma node_at_snoc : forall p k root, node_at (p ++ [k]) root =
  match node_at p root with Some t => map_find k (node_subs t) | None => None end.
Proof.
  induction p as [|k0 p IH]; intros k root; cbn [app node_at].
  - destruct (map_find k (node_subs root)); reflexivity.
  - destruct (map_find k0 (node_subs root)) as [c|]; [apply IH|reflexivity].
Qed.

Lemma put_at_snoc : forall p k c root es ss, node_at p root = Some (Node es ss) ->
  put_at (p ++ [k]) c root =
  match map_upd k (fun _ => Some c) ss with Some ss' => put_at p (Node es ss') root | None => None end.
Proof.
  induction p as [|k0 p IH]; intros k c root es ss H.
  - cbn in H. injection H as ->. unfold put_at. cbn. destruct (map_upd k (fun _ => Some c) ss); reflexivity.
  - destruct root as [es0 ss0]. cbn [node_at node_subs] in H.
    destruct (map_find k0 ss0) as [c0|] eqn:Ef; [|discriminate].
    unfold put_at. cbn [app upd_at]. rewrite (map_upd_found k0 _ ss0 c0 Ef).
    fold (put_at (p ++ [k]) c c0). rewrite (IH k c c0 es ss H).
    destruct (map_upd k (fun _ => Some c) ss) as [ss'|]; [|reflexivity].
    cbn [upd_at]. rewrite (map_upd_found k0 _ ss0 c0 Ef). reflexivity.
Qed.

(* ------------------------------------------------------------------ entries through a pointer *)

Lemma dec_entries_at_sim : forall fuel n cur root bs es ss, node_at cur root = Some (Node es ss) ->
  match dec_entries fuel n es bs with
  | Ok (es', r) => exists root', put_at cur (Node es' ss) root = Some root' /\
                                 dec_entries_at fuel n cur root bs = Ok (root', r)
  | Fail => dec_entries_at fuel n cur root bs = Fail
  | OutOfFuel => dec_entries_at fuel n cur root bs = OutOfFuel
  end.
Proof.
  induction fuel as [|fuel IH]; intros n cur root bs es ss H; cbn [dec_entries dec_entries_at].
  - destruct (n <=? 0); [|reflexivity]. exists root. split; [apply put_at_same; exact H|reflexivity].
  - destruct (n <=? 0); [exists root; split; [apply put_at_same; exact H|reflexivity]|].
    destruct (dec_entry bs) as [[[k v] r]|]; [|reflexivity].
    rewrite (upd_at_found cur _ root _ H). cbn [add_entry].
    destruct (put_at_found cur (Node (map_set k v es) ss) root _ H) as (root1 & H1 & H2 & H3).
    rewrite H1. specialize (IH (n - 1) cur root1 r _ _ H2).
    destruct (dec_entries fuel (n - 1) (map_set k v es) r) as [[es' r']| |]; [|exact IH|exact IH].
    destruct IH as (root' & Hp & Hd). exists root'. split; [rewrite <- H3; exact Hp|exact Hd].
Qed.

(* ------------------------------------------------------------------ the simulation *)

Lemma dec_node_S f clevel bs : dec_node (S f) clevel bs =
    match dec_varint_u 32 bs with
    | None => Fail
    | Some (ne, r1) =>
      match dec_entries (S (length r1)) ne [] r1 with
      | Ok (es, r2) =>
        match dec_varint_u 32 r2 with
        | None => Fail
        | Some (ns, r3) =>
          if ns >? len r3 then Fail else
          match dec_subs (dec_node f (clevel + 1)) clevel (Z.to_nat ns) [] r3 with
          | Ok (ss, r4) => Ok (Node es ss, r4)
          | Fail => Fail
          | OutOfFuel => OutOfFuel
          end
        end
      | Fail => Fail
      | OutOfFuel => OutOfFuel
      end
    end.
Proof. reflexivity. Qed.

Lemma stack_sim : forall F n lvl p root stk bs f es_p subs_p,
  node_at p root = Some (Node es_p subs_p) -> (length bs < f)%nat ->
  match dec_subs (dec_node F (lvl + 1)) lvl n subs_p bs with
  | Ok (subs', bs') =>
    exists f' root', put_at p (Node es_p subs') root = Some root' /\ (length bs' < f')%nat /\
      stack_loop f root (repeat (Some p, lvl) n ++ stk) bs = stack_loop f' root' stk bs'
  | Fail => stack_loop f root (repeat (Some p, lvl) n ++ stk) bs = Fail
  | OutOfFuel => True
  end.
Proof.
  induction F as [|F IHF].
  - (* the object decoder has no fuel: only the paths that do not reach it matter *)
    induction n as [|n IHn]; intros lvl p root stk bs f es_p subs_p Hp Hf; cbn [dec_subs repeat app].
    + exists f, root. split; [apply put_at_same; exact Hp|]. split; [exact Hf|reflexivity].
    + destruct f as [|f]; [lia|]. cbn [stack_loop]. unfold stack_step.
      destruct (lvl >? kMaxSubmetadataLevel); [reflexivity|].
      destruct (dec_name bs) as [[k r]|]; [|reflexivity].
      rewrite (upd_at_found p _ root _ Hp). cbn [add_sub].
      destruct (map_mem k subs_p); [reflexivity|]. cbn [dec_node]. exact I.
  - induction n as [|n IHn]; intros lvl p root stk bs f es_p subs_p Hp Hf; cbn [dec_subs repeat app].
    + exists f, root. split; [apply put_at_same; exact Hp|]. split; [exact Hf|reflexivity].
    + destruct f as [|f]; [lia|]. cbn [stack_loop]. unfold stack_step.
      destruct (lvl >? kMaxSubmetadataLevel); [reflexivity|].
      destruct (dec_name bs) as [[k r]|] eqn:En; [|reflexivity].
      pose proof (dec_name_consumes _ _ _ En) as Hc0.
      rewrite (upd_at_found p _ root _ Hp). cbn [add_sub].
      destruct (map_mem k subs_p); [reflexivity|].
      destruct (put_at_found p (Node es_p (map_set k (Node [] []) subs_p)) root _ Hp) as (root1 & P1 & P2 & P3).
      rewrite P1.
      assert (Hcur: node_at (p ++ [k]) root1 = Some (Node [] [])).
      { rewrite node_at_snoc, P2. cbn [node_subs]. apply map_find_set. }
      rewrite dec_node_S.
      destruct (dec_varint_u 32 r) as [[ne r1]|] eqn:E1; [|reflexivity].
      pose proof (dec_varint_consumes _ _ _ _ E1) as Hc1.
      pose proof (dec_entries_at_sim (S (length r1)) ne (p ++ [k]) root1 r1 [] [] Hcur) as He.
      destruct (dec_entries_total (S (length r1)) ne [] r1 ltac:(lia)) as [_ Hc2].
      destruct (dec_entries (S (length r1)) ne [] r1) as [[es r2]| |]; [|rewrite He; reflexivity|exact I].
      destruct He as (root2 & Q1 & Q2). rewrite Q2. specialize (Hc2 _ _ eq_refl).
      destruct (dec_varint_u 32 r2) as [[ns r3]|] eqn:E2; [|reflexivity].
      pose proof (dec_varint_consumes _ _ _ _ E2) as Hc3.
      destruct (ns >? len r3); [reflexivity|].
      destruct (put_at_found (p ++ [k]) (Node es []) root1 _ Hcur) as (root2' & R1 & R2 & R3).
      rewrite R1 in Q1. injection Q1 as <-.
      (* the grandchildren: outer induction hypothesis *)
      specialize (IHF (Z.to_nat ns) (lvl + 1) (p ++ [k]) root2' (repeat (Some p, lvl) n ++ stk) r3 f es [] R2 ltac:(lia)).
      destruct (dec_subs (dec_node F (lvl + 1 + 1)) (lvl + 1) (Z.to_nat ns) [] r3) as [[ss r4]| |]; [|exact IHF|exact I].
      destruct IHF as (f' & root3 & S1 & S2 & S3). rewrite S3.
      (* root3 = root with the object at p holding the finished child *)
      assert (Hroot3: put_at p (Node es_p (map_set k (Node es ss) subs_p)) root = Some root3).
      { rewrite R3 in S1. rewrite (put_at_snoc p k _ root1 _ _ P2) in S1.
        fold (map_put k (Node es ss) (map_set k (Node [] []) subs_p)) in S1.
        rewrite map_put_set in S1. rewrite P3 in S1. exact S1. }
      destruct (put_at_found p (Node es_p (map_set k (Node es ss) subs_p)) root _ Hp) as (root3' & T1 & T2 & T3).
      rewrite Hroot3 in T1. injection T1 as <-.
      (* the remaining siblings: inner induction hypothesis *)
      specialize (IHn lvl p root3 stk r4 f' es_p (map_set k (Node es ss) subs_p) T2 S2).
      destruct (dec_subs (dec_node (S F) (lvl + 1)) lvl n (map_set k (Node es ss) subs_p) r4) as [[subs' bs']| |]; [|exact IHn|exact I].
      destruct IHn as (f'' & root4 & U1 & U2 & U3). exists f'', root4.
      split; [rewrite <- T3; exact U1|]. split; [exact U2|exact U3].
Qed.

(** The work-list loop computes the same function as the recursion, on every input. *)
Lemma node_stack_equiv bs : dec_node_stack bs = dec_node_rec bs.
Proof.
  unfold dec_node_stack, dec_node_rec. change 1003%nat with (S 1002). rewrite dec_node_S.
  cbn [stack_loop]. unfold stack_step.
  destruct (dec_varint_u 32 bs) as [[ne r1]|] eqn:E1; [|reflexivity].
  pose proof (dec_varint_consumes _ _ _ _ E1) as Hc1.
  pose proof (dec_entries_at_sim (S (length r1)) ne [] (Node [] []) r1 [] [] eq_refl) as He.
  destruct (dec_entries_total (S (length r1)) ne [] r1 ltac:(lia)) as [_ Hc2].
  destruct (dec_entries (S (length r1)) ne [] r1) as [[es r2]| |]; [|rewrite He; reflexivity|rewrite He; reflexivity].
  destruct He as (root2 & Q1 & Q2). rewrite Q2. specialize (Hc2 _ _ eq_refl).
  unfold put_at in Q1. cbn in Q1. injection Q1 as <-.
  destruct (dec_varint_u 32 r2) as [[ns r3]|] eqn:E2; [|reflexivity].
  pose proof (dec_varint_consumes _ _ _ _ E2) as Hc3.
  destruct (ns >? len r3); [reflexivity|].
  pose proof (stack_sim 1002 (Z.to_nat ns) 0 [] (Node es []) [] r3 (length bs) es [] eq_refl ltac:(lia)) as Hs.
  destruct (dec_subs_total (dec_node 1002 (0 + 1)) 0) with (n := Z.to_nat ns) (acc := @nil (bytes * node)) (bs := r3) as [Hnf _].
  { intros _. apply dec_node_total; unfold kMaxSubmetadataLevel; lia. }
  destruct (dec_subs (dec_node 1002 (0 + 1)) 0 (Z.to_nat ns) [] r3) as [[ss r4]| |]; [|exact Hs|congruence].
  destruct Hs as (f' & root' & S1 & S2 & S3). rewrite S3.
  unfold put_at in S1. cbn in S1. injection S1 as <-. destruct f'; reflexivity.
Qed.

Lemma dec_atts_ext dn1 dn2 : (forall b, dn1 b = dn2 b) -> forall fuel n bs, dec_atts dn1 fuel n bs = dec_atts dn2 fuel n bs.
Proof.
  intros H. induction fuel as [|fuel IH]; intros n bs; cbn [dec_atts]; [reflexivity|].
  destruct (n <=? 0); [reflexivity|]. destruct (dec_varint_u 32 bs) as [[id r1]|]; [|reflexivity].
  rewrite H. destruct (dn2 r1) as [[t r2]| |]; [|reflexivity|reflexivity]. rewrite IH. reflexivity.
Qed.

Lemma stack_equiv bs : dec_geometry_stack bs = dec_geometry_rec bs.
Proof.
  unfold dec_geometry_stack, dec_geometry_rec, dec_geometry_with.
  destruct (dec_varint_u 32 bs) as [[na r1]|]; [|reflexivity].
  rewrite (dec_atts_ext _ _ node_stack_equiv).
  destruct (dec_atts dec_node_rec (S (length r1)) na r1) as [[atts r2]| |]; [|reflexivity|reflexivity].
  rewrite node_stack_equiv. reflexivity.
Qed.

Lemma dec_node_stack_rt : node_rt dec_node_stack.
Proof. intros t bs rest Hwf Henc. rewrite node_stack_equiv. apply dec_node_rec_rt; assumption. Qed.

Lemma metadata_roundtrips_stack g bs rest : wf_gmeta g -> enc_geometry g = Some bs ->
  dec_geometry_stack (bs ++ rest) = Ok (g, rest).
Proof. apply geometry_roundtrip_with. exact dec_node_stack_rt. Qed.

Lemma metadata_roundtrips_codec : roundtrips enc_geometry dec_geometry wf_gmeta.
Proof.
  intros g bs rest Hwf Henc. unfold dec_geometry. rewrite (metadata_roundtrips_stack g bs rest Hwf Henc). reflexivity.
Qed.

Lemma encode_fail_or_roundtrip g : wf_gmeta g ->
  enc_geometry g = None \/ exists bs, enc_geometry g = Some bs /\ dec_geometry_stack bs = Ok (g, []).
Proof. apply encode_fail_or_roundtrip_with. exact dec_node_stack_rt. Qed.

Lemma dec_total bs :
  dec_geometry_stack bs <> OutOfFuel /\ dec_geometry_rec bs <> OutOfFuel /\
  (forall g r, dec_geometry_stack bs = Ok (g, r) -> (length r <= length bs)%nat).
Proof.
  destruct (dec_geometry_with_total _ dec_node_stack_total bs) as [H1 H2].
  destruct (dec_geometry_with_total _ dec_node_rec_total bs) as [H3 _].
  split; [exact H1|]. split; [exact H3|exact H2].
Qed.

(* ------------------------------------------------------------------ size of the pending work list *)

(** shape of what one iteration pushes *)
Lemma stack_step_pushes root par level stk bs root2 stk2 r :
  stack_step root par level stk bs = Ok (root2, stk2, r) ->
  exists cur n, stk2 = repeat (Some cur, match par with Some _ => level + 1 | None => level end) n ++ stk /\
                (n <= length r)%nat /\ (length r < length bs)%nat /\
                (par <> None -> level <= kMaxSubmetadataLevel).
Proof.
  intros H. destruct (stack_step_total root par level stk bs) as [_ Hb].
  destruct (Hb _ _ _ H) as (Hr & _ & _).
  unfold stack_step in H.
  match type of H with context [match ?X with Ok _ => _ | Fail => Fail | OutOfFuel => OutOfFuel end] =>
    match X with match par with Some _ => _ | None => _ end => set (start := X) in * end end.
  assert (Hl: forall x, start = Ok x -> par <> None -> level <= kMaxSubmetadataLevel).
  { subst start. destruct par as [p|]; [|congruence].
    destruct (level >? kMaxSubmetadataLevel) eqn:E; [discriminate|]. intros; lia. }
  destruct start as [[[root1 cur] r0]| |]; [|discriminate|discriminate].
  specialize (Hl _ eq_refl).
  destruct (dec_varint_u 32 r0) as [[ne r1]|]; [|discriminate].
  destruct (dec_entries_at (S (length r1)) ne cur root1 r1) as [[root2' r2]| |]; [|discriminate|discriminate].
  destruct (dec_varint_u 32 r2) as [[ns r3]|]; [|discriminate].
  destruct (ns >? len r3) eqn:Eg; [discriminate|].
  injection H as <- <- <-. exists cur, (Z.to_nat ns).
  split; [reflexivity|]. split; [unfold len in Eg; lia|]. split; [lia|exact Hl].
Qed.

Definition flevel (f : frame) : Z := snd f.

(** every suffix of the work list is short relative to the level of its first frame, and levels
    do not increase towards the bottom *)
Fixpoint stk_inv (N : Z) (stk : list frame) : Prop :=
  match stk with
  | [] => True
  | f :: rest =>
    0 <= flevel f <= kMaxSubmetadataLevel + 1 /\
    Z.of_nat (length stk) <= (flevel f + 1) * N + 1 /\
    match rest with [] => True | g :: _ => flevel g <= flevel f end /\
    stk_inv N rest
  end.

Lemma stk_inv_push N l cur : forall n rest, 0 <= N -> Z.of_nat n <= N -> 0 <= l <= kMaxSubmetadataLevel + 1 ->
  stk_inv N rest ->
  match rest with [] => True | g :: _ => flevel g + 1 <= l end ->
  stk_inv N (repeat (Some cur, l) n ++ rest).
Proof.
  induction n as [|n IH]; intros rest HN Hn Hl Hinv Hrest; [exact Hinv|].
  cbn [repeat app stk_inv]. unfold flevel in *. cbn [snd].
  split; [exact Hl|]. split; [|split; [|apply IH; auto; lia]].
  - change (length ((Some cur, l) :: repeat (Some cur, l) n ++ rest)) with (S (length (repeat (Some cur, l) n ++ rest))).
    rewrite app_length, repeat_length.
    assert (Hm: N <= (l + 1) * N) by nia.
    destruct rest as [|g rest'].
    + change (length (@nil frame)) with O. lia.
    + cbn [stk_inv] in Hinv. destruct Hinv as (Hg & Hlen & _).
      assert (Hm2: (snd g + 1) * N + N <= (l + 1) * N) by nia.
      unfold frame, flevel in *. lia.
  - destruct n as [|n']; cbn [repeat app].
    + destruct rest as [|g rest']; [exact I|]. lia.
    + cbn [snd]. lia.
Qed.

Definition state := (node * list frame * bytes)%type.
(** states the while loop passes through *)
Inductive reach : state -> state -> Prop :=
| reach_refl s : reach s s
| reach_step root par level stk bs root2 stk2 r s' :
    stack_step root par level stk bs = Ok (root2, stk2, r) ->
    reach (root2, stk2, r) s' -> reach (root, (par, level) :: stk, bs) s'.

Definition st_inv (N : Z) (s : state) : Prop :=
  match s with (_, stk, bs) =>
    Z.of_nat (length bs) <= N /\ stk_inv N stk /\
    Forall (fun f => fst f = None -> stk = [f] /\ snd f = 0) stk
  end.

Lemma st_inv_step N root par level stk bs root2 stk2 r :
  st_inv N (root, (par, level) :: stk, bs) ->
  stack_step root par level stk bs = Ok (root2, stk2, r) -> st_inv N (root2, stk2, r).
Proof.
  intros (Hb & Hinv & Hnone) Hstep.
  destruct (stack_step_pushes _ _ _ _ _ _ _ _ Hstep) as (cur & n & -> & Hn & Hr & Hlv).
  cbn [stk_inv] in Hinv. destruct Hinv as (Hl & Hlen & Hord & Hrest). unfold flevel in Hl, Hlen, Hord. cbn [snd] in *.
  inversion Hnone as [|? ? Hhead Htail]; subst. cbn [fst snd] in Hhead.
  assert (HN: 0 <= N) by lia.
  split; [lia|]. split.
  - destruct par as [p|].
    + specialize (Hlv ltac:(discriminate)).
      apply stk_inv_push; auto; try lia.
      destruct stk as [|g rest']; [exact I|]. unfold flevel in *. lia.
    + destruct (Hhead eq_refl) as [Hs Hz]. injection Hs as ->. subst level.
      apply stk_inv_push; auto; try lia.
  - apply Forall_app. split.
    + apply Forall_forall. intros f Hf. apply repeat_spec in Hf. subst f. cbn [fst]. discriminate.
    + destruct par as [p|].
      * eapply Forall_impl; [|exact Htail]. intros f Hf Hfn. destruct (Hf Hfn) as [Hs _]. injection Hs as <- _. cbn in Hfn. discriminate.
      * destruct (Hhead eq_refl) as [Hs _]. injection Hs as ->. constructor.
Qed.

(** The work list of a whole run: never more than (kMaxSubmetadataLevel + 2) * input length + 1 frames. *)
Lemma stack_peak_bound bs0 root stk bs :
  reach (Node [] [], [(None, 0)], bs0) (root, stk, bs) ->
  Z.of_nat (length stk) <= (kMaxSubmetadataLevel + 2) * Z.of_nat (length bs0) + 1 /\
  (length bs <= length bs0)%nat.
Proof.
  intros H. set (N := Z.of_nat (length bs0)).
  assert (H0: st_inv N (Node [] [], [(None, 0)], bs0)).
  { split; [unfold N; lia|]. split.
    - cbn [stk_inv length]. unfold flevel, kMaxSubmetadataLevel. cbn [snd]. repeat split; try lia; exact I.
    - constructor; [|constructor]. intros _. split; reflexivity. }
  assert (Hfin: st_inv N (root, stk, bs)).
  { remember (Node [] [], [(None, 0)], bs0) as s0 eqn:E0. remember (root, stk, bs) as s1 eqn:E1.
    clear E0. induction H as [s|root' par level stk' bs' root2 stk2 r s' Hstep Hreach IH]; [subst; exact H0|].
    apply IH; [exact E1|eapply st_inv_step; eassumption]. }
  destruct Hfin as (Hb & Hinv & _). split; [|unfold N in Hb; lia].
  destruct stk as [|f rest]; [cbn [length]; unfold kMaxSubmetadataLevel; lia|].
  cbn [stk_inv] in Hinv. destruct Hinv as (Hl & Hlen & _).
  assert (0 <= N) by (unfold N; lia). unfold kMaxSubmetadataLevel in *. nia.
Qed.

(** [stack_loop] is the iteration of [stack_step] along [reach]. *)
Lemma stack_loop_reach : forall fuel root stk bs t r, stack_loop fuel root stk bs = Ok (t, r) ->
  reach (root, stk, bs) (t, [], r).
Proof.
  induction fuel as [|fuel IH]; intros root stk bs t r H.
  - destruct stk as [|[par level] stk']; [|discriminate]. cbn in H. injection H as <- <-. constructor.
  - cbn [stack_loop] in H. destruct stk as [|[par level] stk']; [injection H as <- <-; constructor|].
    destruct (stack_step root par level stk' bs) as [[[root2 stk2] r3]| |] eqn:E; [|discriminate|discriminate].
    eapply reach_step; [exact E|apply IH; exact H].
Qed.
