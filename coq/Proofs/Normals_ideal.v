(** C07, exact-arithmetic ("ideal") part: NOT statements about the float model.
    (1) [ideal_unwrap_inverts]: OctahedralCoordsToUnitVector's unwrapping, in exact arithmetic and scaled
        by c, inverts IntegerVectorToQuantizedOctahedralCoords including the canonicalisation.
    (2) [ideal_encode_err]: round-to-nearest + repair + sign keep every component within 1/2, 1/2, 1 of c*p.
    (3) [angle_bound_ideal]: hence |p x w|^2 <= 9/(2c^2) |p|^2|w|^2 and, for c >= 3, p.w > 0. *)
From Coq Require Import ZArith Reals Lra Lia Psatz Bool ZifyBool.
From Flocq Require Import Core.
From Draco Require Import Base.Float32 Model.Quantize Model.Octahedron Model.Normals Proofs.Octahedron_proofs Proofs.Normals_proofs.
Local Open Scope R_scope.


Local Open Scope Z_scope.
(** OctahedralCoordsToUnitVector in exact arithmetic, scaled by c (before normalisation):
    u = s - c, v = t - c stand for in_s_scaled * c, in_t_scaled * c. *)
Definition ideal_unwrap (c : Z) (st : pt) : ivec3 :=
  let u := fst st - c in
  let v := snd st - c in
  let x := c - Z.abs u - Z.abs v in
  let xo := Z.max 0 (- x) in
  (x, u + (if u <? 0 then xo else - xo), v + (if v <? 0 then xo else - xo)).

Theorem ideal_unwrap_inverts c j : 1 <= c -> l1 j = c ->
  ideal_unwrap c (int_vec_to_oct (obox_of_center c) j) = j.
Proof.
  destruct j as [[j0 j1] j2]. unfold l1, int_vec_to_oct, canonicalize, ideal_unwrap.
  cbn [ob_center ob_maxv obox_of_center]. intros Hc H.
  destruct (j0 >=? 0) eqn:E0.
  - set (s := j1 + c). set (t := j2 + c).
    destruct ((s =? 0) && (t =? 0) || (s =? 0) && (t =? 2 * c) || (s =? 2 * c) && (t =? 0)) eqn:C1; [exfalso; lia|].
    destruct ((s =? 0) && (t >? c)) eqn:C2; [exfalso; lia|].
    destruct ((s =? 2 * c) && (t <? c)) eqn:C3; [exfalso; lia|].
    destruct ((t =? 2 * c) && (s <? c)) eqn:C4; [exfalso; lia|].
    destruct ((t =? 0) && (s >? c)) eqn:C5; [exfalso; lia|].
    cbn [fst snd]. subst s t.
    destruct (j1 + c - c <? 0) eqn:Eu; destruct (j2 + c - c <? 0) eqn:Ev; f_equal; try f_equal; lia.
  - assert (A0 : Z.abs j0 = - j0) by lia. rewrite A0 in H. clear A0.
    destruct (j1 <? 0) eqn:E1; destruct (j2 <? 0) eqn:E2;
    [ assert (A1 : Z.abs j1 = - j1) by lia; assert (A2 : Z.abs j2 = - j2) by lia
    | assert (A1 : Z.abs j1 = - j1) by lia; assert (A2 : Z.abs j2 = j2) by lia
    | assert (A1 : Z.abs j1 = j1) by lia; assert (A2 : Z.abs j2 = - j2) by lia
    | assert (A1 : Z.abs j1 = j1) by lia; assert (A2 : Z.abs j2 = j2) by lia ];
    rewrite A1, A2 in *; clear A1 A2;
    repeat match goal with |- context [if ?b then _ else _] => let E := fresh "C" in destruct b eqn:E end;
    cbn [fst snd] in *; f_equal; try f_equal; lia.
Qed.

Local Open Scope R_scope.
(** * Ideal (exact-arithmetic) angle bound: NOT about the float model *)
Definition sq3 (a b c : R) : R := a * a + b * b + c * c.
Definition cross_sq (p0 p1 p2 w0 w1 w2 : R) : R :=
  sq3 (p1 * w2 - p2 * w1) (p2 * w0 - p0 * w2) (p0 * w1 - p1 * w0).
Definition dot3 (p0 p1 p2 w0 w1 w2 : R) : R := p0 * w0 + p1 * w1 + p2 * w2.

Lemma sq3_pos a b c : 0 <= sq3 a b c.
Proof. unfold sq3. pose proof (Rle_0_sqr a). pose proof (Rle_0_sqr b). pose proof (Rle_0_sqr c). unfold Rsqr in *. lra. Qed.

Lemma l1_l2_lower p0 p1 p2 : Rabs p0 + Rabs p1 + Rabs p2 = 1 -> / 3 <= sq3 p0 p1 p2.
Proof.
  intros H. unfold sq3.
  assert (E : forall x, x * x = Rabs x * Rabs x) by (intros x; unfold Rabs; destruct (Rcase_abs x); ring).
  rewrite (E p0), (E p1), (E p2).
  pose proof (Rabs_pos p0). pose proof (Rabs_pos p1). pose proof (Rabs_pos p2).
  set (a := Rabs p0) in *. set (b := Rabs p1) in *. set (c := Rabs p2) in *.
  assert (S : (a + b + c) * (a + b + c) = 1) by (rewrite H; ring).
  clearbody a b c.
  pose proof (Rle_0_sqr (a - b)) as Q1. pose proof (Rle_0_sqr (b - c)) as Q2. pose proof (Rle_0_sqr (a - c)) as Q3.
  unfold Rsqr in Q1, Q2, Q3. lra.
Qed.

Lemma cross_le p0 p1 p2 w0 w1 w2 :
  cross_sq p0 p1 p2 w0 w1 w2 <= sq3 p0 p1 p2 * sq3 (p0 - w0) (p1 - w1) (p2 - w2).
Proof.
  unfold cross_sq, sq3.
  (* Lagrange: |p x e|^2 = |p|^2 |e|^2 - (p.e)^2 with e = p - w, and p x w = - p x e *)
  set (e0 := p0 - w0). set (e1 := p1 - w1). set (e2 := p2 - w2).
  replace w0 with (p0 - e0) by (unfold e0; ring). replace w1 with (p1 - e1) by (unfold e1; ring). replace w2 with (p2 - e2) by (unfold e2; ring).
  clearbody e0 e1 e2.
  pose proof (Rle_0_sqr (p0 * e0 + p1 * e1 + p2 * e2)) as Q. unfold Rsqr in Q.
  nra.
Qed.

Lemma sq_le_of_abs d k : Rabs d <= k -> d * d <= k * k.
Proof.
  intros H. apply Rabs_le_inv in H.
  assert (0 <= (k - d) * (k + d)) by (apply Rmult_le_pos; lra). lra.
Qed.

Theorem ideal_sine p0 p1 p2 w0 w1 w2 h :
  Rabs p0 + Rabs p1 + Rabs p2 = 1 -> 0 <= h ->
  Rabs (p0 - w0) <= h -> Rabs (p1 - w1) <= h -> Rabs (p2 - w2) <= 2 * h ->
  cross_sq p0 p1 p2 w0 w1 w2 <= 18 * (h * h) * (sq3 p0 p1 p2 * sq3 w0 w1 w2) /\
  (h <= / 6 -> 0 < dot3 p0 p1 p2 w0 w1 w2).
Proof.
  intros H1 Hh E0 E1 E2.
  pose proof (l1_l2_lower p0 p1 p2 H1) as LP.
  assert (EE : sq3 (p0 - w0) (p1 - w1) (p2 - w2) <= 6 * (h * h)).
  { unfold sq3. pose proof (sq_le_of_abs _ _ E0). pose proof (sq_le_of_abs _ _ E1). pose proof (sq_le_of_abs _ _ E2). lra. }
  assert (SE := sq3_pos (p0 - w0) (p1 - w1) (p2 - w2)).
  split.
  - (* symmetric form: cross(p,w) = cross(w,p); bound with |w|^2 |e|^2 and 1 <= 3 |p|^2 *)
    assert (C : cross_sq p0 p1 p2 w0 w1 w2 <= sq3 w0 w1 w2 * sq3 (p0 - w0) (p1 - w1) (p2 - w2)).
    { pose proof (cross_le w0 w1 w2 p0 p1 p2) as K.
      replace (cross_sq w0 w1 w2 p0 p1 p2) with (cross_sq p0 p1 p2 w0 w1 w2) in K by (unfold cross_sq, sq3; ring).
      replace (sq3 (w0 - p0) (w1 - p1) (w2 - p2)) with (sq3 (p0 - w0) (p1 - w1) (p2 - w2)) in K by (unfold sq3; ring).
      exact K. }
    assert (SW := sq3_pos w0 w1 w2).
    assert (HH : 0 <= h * h) by (apply Rmult_le_pos; lra).
    eapply Rle_trans; [exact C|].
    apply Rle_trans with (sq3 w0 w1 w2 * (6 * (h * h))); [apply Rmult_le_compat_l; assumption|].
    assert (sq3 w0 w1 w2 * (6 * (h * h)) * 1 <= sq3 w0 w1 w2 * (6 * (h * h)) * (3 * sq3 p0 p1 p2)).
    { apply Rmult_le_compat_l; [apply Rmult_le_pos; [exact SW | lra] | lra]. }
    lra.
  - intros H6.
    assert (E6 : sq3 (p0 - w0) (p1 - w1) (p2 - w2) <= / 6) by nra.
    (* p.w = |p|^2 - p.e, (p.e)^2 <= |p|^2 |e|^2 < |p|^4 *)
    set (pe := p0 * (p0 - w0) + p1 * (p1 - w1) + p2 * (p2 - w2)).
    assert (D : dot3 p0 p1 p2 w0 w1 w2 = sq3 p0 p1 p2 - pe) by (unfold dot3, sq3, pe; ring).
    assert (CS : pe * pe <= sq3 p0 p1 p2 * sq3 (p0 - w0) (p1 - w1) (p2 - w2)).
    { pose proof (cross_le p0 p1 p2 w0 w1 w2) as K. unfold cross_sq, sq3 in K. unfold pe, sq3.
      set (e0 := p0 - w0) in *. set (e1 := p1 - w1) in *. set (e2 := p2 - w2) in *. clearbody e0 e1 e2.
      pose proof (Rle_0_sqr (p1 * e2 - p2 * e1)) as Q1. pose proof (Rle_0_sqr (p2 * e0 - p0 * e2)) as Q2.
      pose proof (Rle_0_sqr (p0 * e1 - p1 * e0)) as Q3. unfold Rsqr in Q1, Q2, Q3. nra. }
    rewrite D. set (P := sq3 p0 p1 p2) in *. set (E := sq3 (p0 - w0) (p1 - w1) (p2 - w2)) in *. clearbody P E pe.
    assert (pe * pe < P * P) by nra.
    nra.
Qed.

(** the encoder in exact arithmetic: round to nearest by floor(x + 1/2), the repair, the sign *)
Definition ideal_round (x : R) : Z := Zfloor (x + / 2).
Definition ideal_encode (c : Z) (p0 p1 p2 : R) : ivec3 :=
  nv_repair c (ideal_round (IZR c * p0)) (ideal_round (IZR c * p1)) (Rlt_bool p2 0).

Lemma ideal_round_err x : x - / 2 < IZR (ideal_round x) <= x + / 2.
Proof.
  unfold ideal_round. pose proof (Zfloor_lb (x + / 2)). pose proof (Zfloor_ub (x + / 2)). lra.
Qed.

Lemma Rabs_split x : (0 <= x /\ Rabs x = x) \/ (x < 0 /\ Rabs x = - x).
Proof. unfold Rabs. destruct (Rcase_abs x); [right | left]; lra. Qed.

Theorem ideal_encode_err c p0 p1 p2 : (1 <= c)%Z -> Rabs p0 + Rabs p1 + Rabs p2 = 1 ->
  let '(j0, j1, j2) := ideal_encode c p0 p1 p2 in
  Rabs (IZR c * p0 - IZR j0) <= / 2 /\ Rabs (IZR c * p1 - IZR j1) <= / 2 /\ Rabs (IZR c * p2 - IZR j2) <= 1.
Proof.
  intros Hc H1. unfold ideal_encode, nv_repair.
  assert (Cp : 1 <= IZR c) by (apply IZR_le; exact Hc).
  set (a0 := IZR c * p0). set (a1 := IZR c * p1). set (a2 := IZR c * p2).
  assert (HS : Rabs a0 + Rabs a1 + Rabs a2 = IZR c).
  { unfold a0, a1, a2. rewrite !Rabs_mult, (Rabs_pos_eq (IZR c)) by lra. rewrite <- !Rmult_plus_distr_l, H1. ring. }
  pose proof (ideal_round_err a0) as R0. pose proof (ideal_round_err a1) as R1.
  set (i0 := ideal_round a0) in *. set (i1 := ideal_round a1) in *.
  assert (N2 : Rlt_bool p2 0 = Rlt_bool a2 0).
  { unfold a2. destruct (Rlt_bool_spec p2 0) as [L|L]; destruct (Rlt_bool_spec (IZR c * p2) 0) as [M|M]; try reflexivity; exfalso; nra. }
  rewrite N2. clearbody a0 a1 a2 i0 i1. clear N2 H1.
  assert (A0 : IZR (Z.abs i0) = Rabs (IZR i0)) by apply abs_IZR.
  assert (A1 : IZR (Z.abs i1) = Rabs (IZR i1)) by apply abs_IZR.
  destruct (c - Z.abs i0 - Z.abs i1 <? 0)%Z eqn:E.
  - (* repair *)
    apply Z.ltb_lt in E. assert (E' : IZR c - IZR (Z.abs i0) - IZR (Z.abs i1) <= -1).
    { rewrite <- !minus_IZR. apply IZR_le. lia. }
    rewrite A0, A1 in E'.
    assert (J2 : IZR (if Rlt_bool a2 0 then 0 * -1 else 0)%Z = 0) by (destruct (Rlt_bool a2 0); reflexivity).
    destruct (i1 >? 0)%Z eqn:E1.
    + apply Z.gtb_lt in E1. apply IZR_lt in E1.
      rewrite J2. rewrite plus_IZR, !minus_IZR, A0, A1.
      destruct (Rabs_split a0) as [(?&Q0)|(?&Q0)]; destruct (Rabs_split a1) as [(?&Q1)|(?&Q1)]; destruct (Rabs_split a2) as [(?&Q2)|(?&Q2)];
      destruct (Rabs_split (IZR i0)) as [(?&P0)|(?&P0)]; destruct (Rabs_split (IZR i1)) as [(?&P1)|(?&P1)];
      rewrite ?Q0, ?Q1, ?Q2, ?P0, ?P1 in *; repeat split; apply Rabs_le; lra.
    + assert (E1' : IZR i1 <= 0) by (apply IZR_le; lia).
      exfalso.
      destruct (Rabs_split a0) as [(?&Q0)|(?&Q0)]; destruct (Rabs_split a1) as [(?&Q1)|(?&Q1)]; destruct (Rabs_split a2) as [(?&Q2)|(?&Q2)];
      destruct (Rabs_split (IZR i0)) as [(?&P0)|(?&P0)]; destruct (Rabs_split (IZR i1)) as [(?&P1)|(?&P1)];
      rewrite ?Q0, ?Q1, ?Q2, ?P0, ?P1 in *; lra.
  - apply Z.ltb_ge in E. assert (E' : 0 <= IZR c - IZR (Z.abs i0) - IZR (Z.abs i1)).
    { rewrite <- !minus_IZR. apply IZR_le. lia. }
    rewrite A0, A1 in E'.
    assert (J2 : IZR (if Rlt_bool a2 0 then (c - Z.abs i0 - Z.abs i1) * -1 else c - Z.abs i0 - Z.abs i1)%Z =
                 if Rlt_bool a2 0 then - (IZR c - Rabs (IZR i0) - Rabs (IZR i1)) else IZR c - Rabs (IZR i0) - Rabs (IZR i1)).
    { destruct (Rlt_bool a2 0); [rewrite mult_IZR|]; rewrite !minus_IZR, A0, A1; simpl; ring. }
    rewrite J2.
    destruct (Rlt_bool_spec a2 0) as [L2|L2];
    destruct (Rabs_split a0) as [(?&Q0)|(?&Q0)]; destruct (Rabs_split a1) as [(?&Q1)|(?&Q1)]; destruct (Rabs_split a2) as [(?&Q2)|(?&Q2)];
    destruct (Rabs_split (IZR i0)) as [(?&P0)|(?&P0)]; destruct (Rabs_split (IZR i1)) as [(?&P1)|(?&P1)];
    rewrite ?Q0, ?Q1, ?Q2, ?P0, ?P1 in *; repeat split; apply Rabs_le; lra.
Qed.

Definition R3_of (v : ivec3) : R * R * R := let '(a, b, d) := v in (IZR a, IZR b, IZR d).

(** angle_bound_ideal: quantise p (|p|_1 = 1) in exact arithmetic with centre value c, map the integer
    vector to canonical (s,t), unwrap (s,t) in exact arithmetic to the vector w (= the integer vector).
    Then  |p x w|^2 <= 9/(2 c^2) * |p|^2 |w|^2,  i.e.  sin(angle) <= (1/sqrt 2) * 3/c
    = 0.7071 * 3*(2/(2^q-2)) for c = 2^(q-1)-1, and for c >= 3 (q >= 3) the angle is acute. *)
Theorem angle_bound_ideal c p0 p1 p2 : (1 <= c)%Z -> Rabs p0 + Rabs p1 + Rabs p2 = 1 ->
  let j := ideal_encode c p0 p1 p2 in
  let st := int_vec_to_oct (obox_of_center c) j in
  let '(w0, w1, w2) := R3_of (ideal_unwrap c st) in
  l1 j = c /\ canonical c st /\ ideal_unwrap c st = j /\
  cross_sq p0 p1 p2 w0 w1 w2 <= 9 / (2 * (IZR c * IZR c)) * (sq3 p0 p1 p2 * sq3 w0 w1 w2) /\
  ((3 <= c)%Z -> 0 < dot3 p0 p1 p2 w0 w1 w2).
Proof.
  intros Hc H1 j st.
  assert (Cp : 1 <= IZR c) by (apply IZR_le; exact Hc).
  pose proof (ideal_encode_err c p0 p1 p2 Hc H1) as ERR. fold j in ERR.
  assert (L : l1 j = c).
  { unfold j, ideal_encode. apply repair_abs_sum.
    pose proof (ideal_round_err (IZR c * p0)) as R0.
    assert (Rabs p0 <= 1) by (pose proof (Rabs_pos p1); pose proof (Rabs_pos p2); lra).
    assert (B : - IZR c <= IZR c * p0 <= IZR c) by (apply Rabs_le_inv in H; split; nra).
    set (i0 := ideal_round (IZR c * p0)) in *.
    assert (IZR i0 < IZR (c + 1)) by (rewrite plus_IZR; lra). apply lt_IZR in H0.
    assert (IZR (- c - 1) < IZR i0) by (rewrite minus_IZR, opp_IZR; lra). apply lt_IZR in H2. lia. }
  assert (U : ideal_unwrap c st = j) by (apply ideal_unwrap_inverts; assumption).
  rewrite U. destruct j as [[j0 j1] j2] eqn:Ej. cbn [R3_of].
  split; [exact L|]. split; [unfold st; apply oct_coords_canonical; assumption|]. split; [reflexivity|].
  destruct ERR as (E0 & E1 & E2).
  set (C := IZR c) in *. assert (Cpos : 0 < C) by lra.
  assert (SC : forall p k, Rabs (C * p - k) <= / 2 -> Rabs (p - k / C) <= / (2 * C)).
  { intros p k Hk. replace (p - k / C) with ((C * p - k) / C) by (field; lra).
    unfold Rdiv. rewrite Rabs_mult, (Rabs_pos_eq (/ C)) by (apply Rlt_le, Rinv_0_lt_compat; lra).
    replace (/ (2 * C)) with (/ 2 * / C) by (field; lra). apply Rmult_le_compat_r; [apply Rlt_le, Rinv_0_lt_compat; lra | exact Hk]. }
  assert (SC2 : Rabs (p2 - IZR j2 / C) <= 2 * / (2 * C)).
  { replace (p2 - IZR j2 / C) with ((C * p2 - IZR j2) / C) by (field; lra).
    unfold Rdiv. rewrite Rabs_mult, (Rabs_pos_eq (/ C)) by (apply Rlt_le, Rinv_0_lt_compat; lra).
    replace (2 * / (2 * C)) with (1 * / C) by (field; lra). apply Rmult_le_compat_r; [apply Rlt_le, Rinv_0_lt_compat; lra | exact E2]. }
  assert (Hh : 0 <= / (2 * C)) by (apply Rlt_le, Rinv_0_lt_compat; lra).
  destruct (ideal_sine p0 p1 p2 (IZR j0 / C) (IZR j1 / C) (IZR j2 / C) (/ (2 * C)) H1 Hh (SC _ _ E0) (SC _ _ E1) SC2) as (S1 & S2).
  assert (X1 : cross_sq p0 p1 p2 (IZR j0 / C) (IZR j1 / C) (IZR j2 / C) = cross_sq p0 p1 p2 (IZR j0) (IZR j1) (IZR j2) / (C * C))
    by (unfold cross_sq, sq3; field; lra).
  assert (X2 : sq3 (IZR j0 / C) (IZR j1 / C) (IZR j2 / C) = sq3 (IZR j0) (IZR j1) (IZR j2) / (C * C))
    by (unfold sq3; field; lra).
  assert (X3 : dot3 p0 p1 p2 (IZR j0 / C) (IZR j1 / C) (IZR j2 / C) = dot3 p0 p1 p2 (IZR j0) (IZR j1) (IZR j2) / C)
    by (unfold dot3; field; lra).
  rewrite X1, X2 in S1. rewrite X3 in S2.
  assert (CC : 0 < C * C) by (apply Rmult_lt_0_compat; lra).
  split.
  - apply Rmult_le_reg_r with (/ (C * C)); [apply Rinv_0_lt_compat; exact CC|].
    eapply Rle_trans; [exact S1|]. apply Req_le. field. lra.
  - intros H3. assert (3 <= C) by (apply IZR_le; exact H3).
    assert (H6 : / (2 * C) <= / 6) by (apply Rinv_le_contravar; lra).
    specialize (S2 H6). unfold Rdiv in S2.
    apply Rmult_lt_reg_r with (/ C); [apply Rinv_0_lt_compat; lra|]. rewrite Rmult_0_l. exact S2.
Qed.
