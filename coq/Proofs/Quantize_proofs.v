(** Proofs about Model/Quantize.v that need no real numbers: the two dequantization loops are one
    function, the attribute pipeline is the per-value function [requant_f] (C12), the grid form of a
    decoded value, and the parameter block round trip. *)
From Coq Require Import ZArith List Lia Bool.
From Draco Require Import Base.Codec Base.Float32 Model.Quantize.
From Flocq Require Import IEEE754.Binary.
Local Open Scope Z_scope.

(** * Machine-integer reads *)
Lemma to_i32_u32 w : to_i32 (u32 w) = to_i32 w.
Proof. unfold to_i32, u32. rewrite Z.mod_mod by lia. reflexivity. Qed.

Lemma kd_read_eq_seq_read w : kd_read w = seq_read w.
Proof. apply to_i32_u32. Qed.

Lemma seq_read_small k : 0 <= k < 2 ^ 31 -> seq_read k = k.
Proof. intros H. unfold seq_read, to_i32. rewrite Z.mod_small by lia. destruct (k <? 2 ^ 31) eqn:E; lia. Qed.

Lemma seq_read_u32 k : in_i32 k = true -> seq_read (u32 k) = k.
Proof.
  unfold in_i32. intros H. apply andb_true_iff in H. destruct H as [H1 H2].
  apply Z.leb_le in H1. apply Z.ltb_lt in H2.
  unfold seq_read. rewrite to_i32_u32. unfold to_i32.
  destruct (Z_lt_ge_dec k 0).
  - replace (k mod 2 ^ 32) with (k + 2 ^ 32).
    + destruct (k + 2 ^ 32 <? 2 ^ 31) eqn:E; lia.
    + apply Z.mod_unique with (-1); lia.
  - rewrite Z.mod_small by lia. destruct (k <? 2 ^ 31) eqn:E; lia.
Qed.

(** * The two dequantization loops are the same function *)
Lemma dequantize_row_kd_seq delta mins ws :
  dequantize_row kd_read delta mins ws = dequantize_row seq_read delta mins ws.
Proof.
  revert mins. induction ws as [|w ws IH]; intros mins; cbn [dequantize_row]; [reflexivity|].
  destruct mins as [|mn mins]; [reflexivity|]. rewrite IH, kd_read_eq_seq_read. reflexivity.
Qed.

Lemma rmap_ext {A B} (f g : A -> res B) l : (forall a, f a = g a) -> rmap f l = rmap g l.
Proof. intros H. induction l as [|a l IH]; cbn [rmap]; [reflexivity|]. rewrite H, IH. reflexivity. Qed.

Theorem kd_inverse_eq_inverse p words : kd_inverse_transform p words = inverse_transform p words.
Proof.
  unfold kd_inverse_transform, inverse_transform, inverse_with.
  destruct (inv_max_q (qp_bits p)); cbn [rbind]; try reflexivity.
  destruct (dequantizer_init (qp_range p) z); cbn [rbind]; try reflexivity.
  apply rmap_ext. intros. apply dequantize_row_kd_seq.
Qed.

(** * rmap *)
Lemma rmap_nth {A B} (f : A -> res B) l l' :
  rmap f l = Ok l' ->
  length l' = length l /\
  forall i a, nth_error l i = Some a -> exists b, nth_error l' i = Some b /\ f a = Ok b.
Proof.
  revert l'. induction l as [|a l IH]; intros l' H; cbn [rmap] in H.
  - inversion H; subst. split; [reflexivity|]. intros [|i] a Hn; discriminate.
  - destruct (f a) as [b| |] eqn:Fa; cbn [rbind] in H; try discriminate.
    destruct (rmap f l) as [bs| |] eqn:Fl; cbn [rbind] in H; try discriminate.
    inversion H; subst. destruct (IH bs eq_refl) as [Hl Hn]. split; [cbn; lia|].
    intros [|i] a' Hi; cbn [nth_error] in *.
    + inversion Hi; subst. exists b. split; auto.
    + apply Hn; assumption.
Qed.

Lemma rmap_map {A B C} (g : A -> B) (f : B -> res C) l : rmap f (map g l) = rmap (fun a => f (g a)) l.
Proof. induction l as [|a l IH]; cbn [rmap map]; [reflexivity|]. rewrite IH. reflexivity. Qed.

(** * The pipeline over a whole attribute is the per-value function *)

(** decode (encode row) written with the single-value function only *)
Fixpoint requant_row (mins : list f32) (r : f32) (b : Z) (row : list f32) {struct row} : res (list f32) :=
  match row with
  | [] => Ok []
  | x :: row' =>
      match mins with
      | [] => UB
      | o :: mins' =>
          rdo d <- requant_f o r b x;
          rdo ds <- requant_row mins' r b row';
          Ok (d :: ds)
      end
  end.

Lemma valid_max_q b : quantization_valid b = true ->
  gen_max_q b = Ok (2 ^ b - 1) /\ inv_max_q b = Ok (2 ^ b - 1) /\ 0 < 2 ^ b - 1 < 2 ^ 31.
Proof.
  unfold quantization_valid. intros H. apply andb_true_iff in H. destruct H as [H1 H2].
  apply Z.leb_le in H1. apply Z.leb_le in H2.
  assert (Hp : 2 ^ 1 <= 2 ^ b <= 2 ^ 30) by (split; apply Z.pow_le_mono_r; lia).
  change (2 ^ 1) with 2 in Hp. change (2 ^ 30) with 1073741824 in Hp.
  unfold gen_max_q, inv_max_q.
  replace ((0 <=? b) && (b <=? 30)) with true by (symmetry; apply andb_true_iff; split; [apply Z.leb_le|apply Z.leb_le]; lia).
  replace ((0 <=? b) && (b <? 32)) with true by (symmetry; apply andb_true_iff; split; [apply Z.leb_le|apply Z.ltb_lt]; lia).
  split; [reflexivity|]. split; [|change (2^31) with 2147483648; lia].
  f_equal. unfold u32. change (2 ^ 32) with 4294967296. rewrite Z.mod_small by lia.
  unfold to_i32. change (2 ^ 32) with 4294967296. change (2 ^ 31) with 2147483648. rewrite Z.mod_small by lia.
  destruct (2 ^ b - 1 <? 2147483648) eqn:E; [reflexivity|]. apply Z.ltb_ge in E. lia.
Qed.

Lemma quantize_float_i32 inv v k : quantize_float inv v = Ok k -> in_i32 k = true.
Proof.
  unfold quantize_float. destruct (floorZ _); [|discriminate].
  destruct (in_i32 z) eqn:E; [|discriminate]. intros H; inversion H; subst; assumption.
Qed.

Lemma row_pipeline r b mq delta mins row ks :
  gen_max_q b = Ok mq -> inv_max_q b = Ok mq -> dequantizer_init r mq = Ok delta ->
  quantize_row (quantizer_init r mq) mins row = Ok ks ->
  dequantize_row seq_read delta mins (map u32 ks) = requant_row mins r b row.
Proof.
  intros G I D. revert mins ks. induction row as [|x row IH]; intros mins ks H; cbn [quantize_row] in H.
  - inversion H; subst. reflexivity.
  - destruct mins as [|o mins]; [discriminate|].
    destruct (quantize_float (quantizer_init r mq) (fsub x o)) as [k| |] eqn:Q; cbn [rbind] in H; try discriminate.
    destruct (quantize_row (quantizer_init r mq) mins row) as [ks'| |] eqn:QR; cbn [rbind] in H; try discriminate.
    inversion H; subst. cbn [map dequantize_row requant_row].
    rewrite (IH mins ks' QR).
    unfold requant_f, quant_f, deq_f. rewrite G, I. cbn [rbind]. rewrite Q. cbn [rbind]. rewrite D. cbn [rbind].
    destruct (requant_row mins r b row); reflexivity.
Qed.

Theorem pipeline_is_pointwise p rows words :
  quantization_valid (qp_bits p) = true ->
  generate_portable p rows = Ok words ->
  inverse_transform p words = rmap (requant_row (qp_min p) (qp_range p) (qp_bits p)) rows.
Proof.
  intros V. destruct (valid_max_q _ V) as (G & I & Hm).
  unfold generate_portable, inverse_transform, inverse_with. rewrite G, I. cbn [rbind].
  unfold dequantizer_init. replace (2 ^ qp_bits p - 1 <=? 0) with false by (symmetry; apply Z.leb_gt; lia).
  cbn [rbind]. set (mq := 2 ^ qp_bits p - 1) in *.
  set (delta := fdiv (qp_range p) (f32_of_Z mq)).
  assert (D : dequantizer_init (qp_range p) mq = Ok delta).
  { unfold dequantizer_init. replace (mq <=? 0) with false by (symmetry; apply Z.leb_gt; lia). reflexivity. }
  revert words. induction rows as [|row rows IH]; intros words H; cbn [rmap] in H.
  - inversion H; subst. reflexivity.
  - destruct (quantize_row (quantizer_init (qp_range p) mq) (qp_min p) row) as [ks| |] eqn:QR; cbn [rbind] in H; try discriminate.
    destruct (rmap _ rows) as [ws| |] eqn:RM; cbn [rbind] in H; try discriminate.
    inversion H; subst. cbn [rmap]. rewrite (IH ws eq_refl).
    rewrite (row_pipeline _ _ _ _ _ _ _ G I D QR). reflexivity.
Qed.

(** Per-row, per-component reading of [requant_row]. *)
Lemma requant_row_nth mins r b row brow :
  requant_row mins r b row = Ok brow ->
  length brow = length row /\
  forall c x, nth_error row c = Some x ->
    exists o d, nth_error mins c = Some o /\ nth_error brow c = Some d /\ requant_f o r b x = Ok d.
Proof.
  revert mins brow. induction row as [|x row IH]; intros mins brow H; cbn [requant_row] in H.
  - inversion H; subst. split; [reflexivity|]. intros [|c] x Hc; discriminate.
  - destruct mins as [|o mins]; [discriminate|].
    destruct (requant_f o r b x) as [d| |] eqn:Rq; cbn [rbind] in H; try discriminate.
    destruct (requant_row mins r b row) as [ds| |] eqn:RR; cbn [rbind] in H; try discriminate.
    inversion H; subst. destruct (IH mins ds RR) as [Hl Hn]. split; [cbn; lia|].
    intros [|c] x' Hc; cbn [nth_error] in *.
    + inversion Hc; subst. exists o, d. auto.
    + apply Hn; assumption.
Qed.

(** C12, whole attribute: value [i], component [c] of the decoded attribute is
    [requant_f origin_c range bits x] of the value at the same place of the input: a function of
    that coordinate and the three parameters, whatever the other values are. *)
Theorem explicit_quant_pure_nth p rows words back :
  quantization_valid (qp_bits p) = true ->
  generate_portable p rows = Ok words ->
  inverse_transform p words = Ok back ->
  length back = length rows /\
  forall i row, nth_error rows i = Some row ->
    exists brow, nth_error back i = Some brow /\ length brow = length row /\
    forall c x, nth_error row c = Some x ->
      exists o d, nth_error (qp_min p) c = Some o /\ nth_error brow c = Some d /\
                  requant_f o (qp_range p) (qp_bits p) x = Ok d.
Proof.
  intros V G I. rewrite (pipeline_is_pointwise p rows words V G) in I.
  destruct (rmap_nth _ _ _ I) as [Hl Hn]. split; [assumption|].
  intros i row Hi. destruct (Hn i row Hi) as (brow & Hb & Hr).
  exists brow. split; [assumption|]. apply requant_row_nth in Hr. destruct Hr as [Hlen Hc]. split; assumption.
Qed.

(** The same through the kd-tree decoder's loop. *)
Theorem explicit_quant_pure_nth_kd p rows words back :
  quantization_valid (qp_bits p) = true ->
  generate_portable p rows = Ok words ->
  kd_inverse_transform p words = Ok back ->
  length back = length rows /\
  forall i row, nth_error rows i = Some row ->
    exists brow, nth_error back i = Some brow /\ length brow = length row /\
    forall c x, nth_error row c = Some x ->
      exists o d, nth_error (qp_min p) c = Some o /\ nth_error brow c = Some d /\
                  requant_f o (qp_range p) (qp_bits p) x = Ok d.
Proof. intros V G I. rewrite kd_inverse_eq_inverse in I. eapply explicit_quant_pure_nth; eassumption. Qed.

(** With a point-id list (the encoder visits the values in any order, with repetitions): output
    entry [i] depends only on the value it was taken from. *)
Theorem explicit_quant_pure_ids p rows ids words back :
  quantization_valid (qp_bits p) = true ->
  generate_portable_ids p rows ids = Ok words ->
  inverse_transform p words = Ok back ->
  length back = length ids /\
  forall i j row, nth_error ids i = Some j -> nth_error rows j = Some row ->
    exists brow, nth_error back i = Some brow /\ length brow = length row /\
    forall c x, nth_error row c = Some x ->
      exists o d, nth_error (qp_min p) c = Some o /\ nth_error brow c = Some d /\
                  requant_f o (qp_range p) (qp_bits p) x = Ok d.
Proof.
  intros V G I. unfold generate_portable_ids in G.
  destruct (rmap _ ids) as [sel| |] eqn:S; cbn [rbind] in G; try discriminate.
  destruct (rmap_nth _ _ _ S) as [Sl Sn].
  destruct (explicit_quant_pure_nth p sel words back V G I) as [Hl Hn].
  split; [lia|]. intros i j row Hi Hj.
  destruct (Sn i j Hi) as (r' & Hs & Hr). rewrite Hj in Hr. inversion Hr; subst r'.
  apply Hn; assumption.
Qed.

(** Two attributes encoded and decoded separately (other values, other order, either decoder loop)
    with the same parameters agree exactly wherever they hold the same value. *)
Theorem shared_vertex_agree p rows1 rows2 words1 words2 back1 back2 i j row :
  quantization_valid (qp_bits p) = true ->
  generate_portable p rows1 = Ok words1 -> inverse_transform p words1 = Ok back1 ->
  generate_portable p rows2 = Ok words2 -> kd_inverse_transform p words2 = Ok back2 ->
  nth_error rows1 i = Some row -> nth_error rows2 j = Some row ->
  nth_error back1 i = nth_error back2 j /\ nth_error back1 i <> None.
Proof.
  intros V G1 I1 G2 I2 H1 H2.
  rewrite kd_inverse_eq_inverse in I2.
  rewrite (pipeline_is_pointwise _ _ _ V G1) in I1. rewrite (pipeline_is_pointwise _ _ _ V G2) in I2.
  destruct (rmap_nth _ _ _ I1) as [_ N1]. destruct (rmap_nth _ _ _ I2) as [_ N2].
  destruct (N1 i row H1) as (b1 & E1 & R1). destruct (N2 j row H2) as (b2 & E2 & R2).
  rewrite R1 in R2. inversion R2; subst. rewrite E1, E2. split; [reflexivity|discriminate].
Qed.

(** on_grid, structural part: the decoded value is the grid point of the stored integer, with exactly
    the float operations the decoder performs:  fl( fl( fl(k) * fl(r / fl(2^b-1)) ) + o ). *)
Theorem on_grid_struct o r b x d :
  quantization_valid b = true ->
  requant_f o r b x = Ok d ->
  exists k, quant_f o r b x = Ok k /\ in_i32 k = true /\
            d = fadd (fmul (f32_of_Z k) (fdiv r (f32_of_Z (2 ^ b - 1)))) o.
Proof.
  intros V H. destruct (valid_max_q _ V) as (G & I & Hm).
  unfold requant_f in H. destruct (quant_f o r b x) as [k| |] eqn:Q; cbn [rbind] in H; try discriminate.
  exists k. split; [reflexivity|].
  assert (Hk : in_i32 k = true).
  { unfold quant_f in Q. rewrite G in Q. cbn [rbind] in Q. eapply quantize_float_i32; eassumption. }
  split; [assumption|].
  rewrite (seq_read_u32 k Hk) in H. unfold deq_f in H. rewrite I in H. cbn [rbind] in H.
  unfold dequantizer_init in H. replace (2 ^ b - 1 <=? 0) with false in H by (symmetry; apply Z.leb_gt; lia).
  cbn [rbind] in H. inversion H. reflexivity.
Qed.

(** * Parameter block *)
Ltac Zify.zify_post_hook ::= Z.div_mod_to_equations.
Lemma le32_dec v rest : 0 <= v < 2 ^ 32 ->
  forall k ms r', dec_le32s k rest = Some (ms, r') -> dec_le32s (S k) (le32 v ++ rest) = Some (v :: ms, r').
Proof.
  intros Hv k ms r' H. unfold le32. cbn [app dec_le32s]. rewrite H. do 2 f_equal. f_equal.
  change (2 ^ 32) with 4294967296 in Hv. lia.
Qed.
Ltac Zify.zify_post_hook ::= idtac.

Lemma dec_le32s_flat ms rest : Forall (fun v => 0 <= v < 2 ^ 32) ms ->
  dec_le32s (length ms) (flat_map le32 ms ++ rest) = Some (ms, rest).
Proof.
  induction 1 as [|v ms Hv _ IH]; [reflexivity|].
  cbn [length flat_map]. rewrite <- app_assoc. apply le32_dec; assumption.
Qed.

Lemma bits_of_f32_range x : 0 <= bits_of_f32 x < 2 ^ 32.
Proof. exact (Bits.bits_of_binary_float_range 23 8 eq_refl eq_refl x). Qed.

Lemma f32_of_bits_of_f32 x : f32_of_bits (bits_of_f32 x) = x.
Proof. exact (Bits.binary_float_of_bits_of_binary_float 23 8 eq_refl eq_refl eq_refl x). Qed.

Theorem params_roundtrip p bs rest :
  quantization_valid (qp_bits p) = true ->
  encode_parameters p = Some bs ->
  decode_parameters (length (qp_min p)) (bs ++ rest) = Some (p, rest).
Proof.
  intros V E. destruct p as [b mins rg]. cbn [qp_bits qp_min qp_range] in *.
  unfold encode_parameters in E. cbn [qp_bits qp_min qp_range] in E.
  assert (Hb : 1 <= b <= 30).
  { unfold quantization_valid in V. apply andb_true_iff in V. destruct V as [V1 V2]. apply Z.leb_le in V1, V2. lia. }
  destruct (b =? -1) eqn:Eb; [apply Z.eqb_eq in Eb; lia|]. inversion E; subst bs; clear E.
  unfold decode_parameters.
  replace (flat_map (fun m => le32 (bits_of_f32 m)) mins) with (flat_map le32 (map bits_of_f32 mins))
    by (induction mins as [|m ms IH]; [reflexivity| cbn [map flat_map]; rewrite IH; reflexivity]).
  match goal with |- context [dec_le32s _ ?l] =>
    replace l with (flat_map le32 (map bits_of_f32 mins) ++ (le32 (bits_of_f32 rg) ++ (b mod 256 :: rest)))
      by (rewrite <- !app_assoc; reflexivity) end.
  replace (length mins) with (length (map bits_of_f32 mins)) by apply map_length.
  rewrite dec_le32s_flat by (apply Forall_forall; intros v Hv; apply in_map_iff in Hv; destruct Hv as (m & <- & _); apply bits_of_f32_range).
  rewrite (le32_dec (bits_of_f32 rg) _ (bits_of_f32_range rg) O [] _ eq_refl).
  rewrite (Z.mod_small b 256) by lia. rewrite V.
  rewrite map_map. rewrite f32_of_bits_of_f32.
  replace (map (fun x => f32_of_bits (bits_of_f32 x)) mins) with mins; [reflexivity|].
  induction mins as [|m ms IH]; [reflexivity|]. cbn [map]. rewrite f32_of_bits_of_f32, <- IH. reflexivity.
Qed.

(** The kd-tree decoder parses the same block with its own code: same result on every input. *)
Theorem kd_decode_parameters_eq nc bs : kd_decode_parameters nc bs = decode_parameters nc bs.
Proof.
  unfold kd_decode_parameters, decode_parameters.
  destruct (dec_le32s nc bs) as [[ms r1]|]; [|reflexivity].
  destruct (dec_le32s 1 r1) as [[[|rg [|? ?]] r2]|]; try reflexivity.
  destruct r2 as [|q r3]; [reflexivity|].
  unfold set_parameters. destruct (q >? 31) eqn:E.
  - apply Z.gtb_lt in E. unfold quantization_valid.
    replace (q <=? 30) with false by (symmetry; apply Z.leb_gt; lia). rewrite andb_false_r. reflexivity.
  - destruct (quantization_valid q); reflexivity.
Qed.
